(* C18 and C14 at the level of the RUN, through error items.

   props/C18.v speaks about ONE context (vars() is the innermost-wins view of the frames of a
   WELL-FORMED variable map) and about ONE next() (the IO leaves the variables alone);
   props/C14.v speaks about ONE call of extract_output_values.  Here, from the state that
   try_new returns, for every state that calls of next() can reach - the continuing caller
   collect_e, whose steps are listed by steps_e; VectorProof.reach; OutputsRunProof.reachable
   (any fuel at every call):

     (1) vars_after_each_item        after every item - row, error item of any kind, None - the
                                     context is well formed (ctx_wf) and ctx_vars is the
                                     innermost-wins view of the frames: the per-context theorems
                                     of C18 apply in every reachable state.
         THE INVARIANT is ctx_wf (i_ctx st) alone: no hypothesis on the test case.  The
         statement iterator only ever applies fm_set / fm_push_frame / fm_pop_frame to the
         variable map (snext_wf: all three preserve wf, evaluation moves the generator only),
         finish_row does not touch the context, and the IO of next() hands the variable map
         back as it found it (inext_vars).
     (2) vars_unchanged_by_io_and_errors   the outcomes of next() that make a driver call are
                                     exactly those in which get_row yields a row (GRRow er st1):
                                     a row item, a failed call, a refused answer, a declared
                                     signal that fails on the answer.  In ALL of them the
                                     variables after the item are those of st1, the state right
                                     after the row's entries were evaluated; and calt, the
                                     alternate map that hides the variables from the declared
                                     signals, is empty in every reachable state.
     (3) declared_values_of_every_row      every result of a declared (virtual) signal in every
                                     yielded row of every run is OVal v, v = the signal's
                                     expression evaluated in ctx_new (outs_map outs): NO variable,
                                     the outputs = the driver's answer `outs` to THAT row's call
                                     (C14_virtual_value's right-hand side).  Invariant: the index
                                     table is the one the constructor built, calt is empty.
         declared_failure_is_error_item / declared_ZX_is_error_item: C14's error clauses as
         statements about the item next() returns, with the variables untouched.
     (4) vars_agree_with_sequential_reading   the variables after the k-th item of the run are
                                     the variables of the sequential reading (StmtSpecE.exec_e with
                                     RunSpecE's handler and error consumer) where it produced its
                                     k-th item.  The reading is run with a ghost trace of tags
                                     (run_spec_v); forgetting the tags gives run_spec_e
                                     (run_spec_v_is_run_spec_e).  See the section SEQ at the end for
                                     what the refinement theorems already give and what was added.

   ON THE EXISTING LEMMA FOR THE STATEMENT ITERATOR.  NoPanicProof.snext_post carries wf (cvars c)
   through Stmt.next, but as one clause of the no-panic invariant: it needs wf_tc (the section
   hypothesis), it_ok and frames_ok of the iterator, and says False for a panic.  snext_wf below
   is hypothesis free (any test case, any iterator state, panics allowed): wf is preserved by
   the three operations of the variable map whatever the statements are.  IterLogProof.snext_io /
   get_row_preserves / inext_vars give the other half (calt, couts; the IO gives cvars back). *)
From DTR Require Import Prelude I64 Ast FramedMap Parser Bind Eval Stmt StmtSpec StmtSpecE Iter RunSpec RunSpecE Script.
From DTR.proofs Require Import FramedMapProof StmtRefine StmtRefineE StmtCorollaries IterLogProof OutputsProof
  RunRefine RunRefineE IterLogProofE WidthProof VectorProof OutputsRunProof.
Local Open Scope nat_scope.

Local Arguments NYield {C F W} w line it c.
Local Arguments NDone {C F W} it c.
Local Arguments NErr {C F W} f it c.
Local Arguments NPanic {C F W} site.
Local Arguments NOOF {C F W}.
Local Arguments ItNone {DE} st.
Local Arguments ItRow {DE} row st.
Local Arguments ItErr {DE} e st.
Local Arguments ItPanic {DE} s.
Local Arguments ItOOF {DE}.
Local Arguments NewOk {DE} st.
Local Arguments NewErr {DE} e log.
Local Arguments NewPanic {DE} s.

(* ------------------------------------------------------------------ the view vars() gives *)

(* everything C18 says about one context *)
Definition vars_view_ok (c : ctx) : Prop :=
  ctx_wf c /\
  NoDup (map fst (ctx_vars c)) /\
  (forall x, assoc x (ctx_vars c) = lookup (env c) x) /\
  (forall x, assoc x (ctx_vars c) = fm_get (cvars c) x).

Lemma wf_vars_view : forall c, ctx_wf c -> vars_view_ok c.
Proof.
  intros c Hw. split; [exact Hw|]. split; [apply vars_keys_distinct|].
  split; intro x; [apply vars_is_innermost_wins|apply vars_agrees_with_reads]; exact Hw.
Qed.

Lemma ctx_wf_eq : forall c c1, cvars c1 = cvars c -> ctx_wf c -> ctx_wf c1.
Proof. intros c c1 E H. unfold ctx_wf in *. rewrite E. exact H. Qed.

Lemma ctx_vars_eq : forall c c1, cvars c1 = cvars c -> ctx_vars c1 = ctx_vars c.
Proof. intros c c1 E. unfold ctx_vars. rewrite E. reflexivity. Qed.

Lemma nth_error_combine_inv : forall A B (l : list A) (l' : list B) k a b,
  nth_error (combine l l') k = Some (a, b) -> nth_error l k = Some a /\ nth_error l' k = Some b.
Proof.
  induction l as [|x r IH]; intros l' k a b H; [destruct k; discriminate H|].
  destruct l' as [|y r']; [destruct k; discriminate H|].
  destruct k as [|k]; cbn [combine nth_error] in *.
  - inversion H; subst. auto.
  - apply IH. exact H.
Qed.

Lemma last_cons : forall A (l : list A) a d, last (a :: l) d = last l a.
Proof.
  intros A l. induction l as [|b l IH]; intros a d; [reflexivity|].
  change (last (a :: b :: l) d) with (last (b :: l) d). rewrite !IH. reflexivity.
Qed.

Section VARS.
Variable G : gen.
Variable DE : Type.
Variable D : driver DE.
Variable w_default : bool.
Variable tc : testcase.

Local Notation snext := (Iter.snext G).
Local Notation get_row := (Iter.get_row G tc).
Local Notation inext := (Iter.inext G DE D w_default tc).
Local Notation try_new := (Iter.try_new DE D tc).
Local Notation collect_e := (RunRefineE.collect_e G DE D w_default tc).
Local Notation collect := (IterLogProof.collect G DE D w_default tc).
Local Notation reach := (VectorProof.reach G DE D w_default tc).
Local Notation reachable := (OutputsRunProof.reachable G DE D w_default tc).
Local Notation next_state := (VectorProof.next_state DE).

(* ------------------------------------------------------------------ (1) ctx_wf is an invariant *)

Definition nres_wf (r : nres ctx xfail (list dentry)) : Prop :=
  match r with
  | NYield _ _ _ c' | NDone _ c' | NErr _ _ c' => ctx_wf c'
  | _ => True
  end.

(* the statement iterator: let = fm_set, entering a loop = fm_push_frame then fm_set, the end of
   a pass = fm_set, the end of a loop = fm_pop_frame; evaluation moves the generator only.  In
   ALL outcomes, the error item included. *)
Lemma snext_wf : forall fuel it c, ctx_wf c -> nres_wf (snext fuel it c).
Proof.
  induction fuel as [|f IH]; intros it c Hw; [exact I|].
  unfold Iter.snext. rewrite next_S. fold (Iter.snext G).
  destruct it as [rest st]. destruct st as [|ls|ls|inner ls|ls|ws|inner ws].
  - destruct rest as [|s r0]; [exact Hw|].
    destruct s as [n e|d l|v e body|e body|].
    + destruct (lift_eval G c e) as [c1 [z|x]] eqn:E; apply lift_eval_rng_only in E;
        destruct E as [E _]; pose proof (ctx_wf_eq _ _ E Hw) as Hw1.
      * apply IH. apply let_binds_innermost. exact Hw1.
      * exact Hw1.
    + destruct (lift_row_eval G c d) as [c1 [w|x]] eqn:E; apply lift_row_eval_rng_only in E;
        destruct E as [E _]; exact (ctx_wf_eq _ _ E Hw).
    + destruct (lift_eval G c e) as [c1 [z|x]] eqn:E; apply lift_eval_rng_only in E;
        destruct E as [E _]; pose proof (ctx_wf_eq _ _ E Hw) as Hw1.
      * apply IH. exact Hw1.
      * exact Hw1.
    + apply IH. exact Hw.
    + apply IH. exact Hw.
  - destruct (Z.ltb 0 (lmax ls)); [|apply IH; exact Hw].
    apply IH. apply let_binds_innermost. apply loop_opens_frame. exact Hw.
  - apply IH. exact Hw.
  - pose proof (IH inner c Hw) as Hi.
    destruct (snext f inner c) as [w l inner' c'|it' c'|x it' c'|s|]; cbn [nres_wf] in Hi |- *;
      try exact Hi.
    apply IH. exact Hi.
  - destruct (loop_var_value c (lvar ls)) as [i|]; [|exact I].
    destruct (Z.ltb (wadd i 1) (lmax ls)); apply IH.
    + apply let_binds_innermost. exact Hw.
    + apply loop_end_drops_frame. exact Hw.
  - destruct (lift_eval G c (wcond ws)) as [c1 [z|x]] eqn:E; apply lift_eval_rng_only in E;
      destruct E as [E _]; pose proof (ctx_wf_eq _ _ E Hw) as Hw1; [|exact Hw1].
    destruct (Z.eqb z 0); apply IH; exact Hw1.
  - pose proof (IH inner c Hw) as Hi.
    destruct (snext f inner c) as [w l inner' c'|it' c'|x it' c'|s|]; cbn [nres_wf] in Hi |- *;
      try exact Hi.
    apply IH. exact Hi.
Qed.

(* get_row = the statement iterator, then finish_row, which leaves the context alone *)
Lemma get_row_wf : forall fuel st, ctx_wf (i_ctx st) ->
  match get_row fuel st with
  | GRNone st1 | GRRow _ st1 | GRErr _ st1 => ctx_wf (i_ctx st1)
  | _ => True
  end.
Proof.
  intros fuel st Hw. rewrite IterLogProof.get_row_unfold.
  destruct (i_cache st) as [|d rest] eqn:Hc.
  - pose proof (snext_wf fuel (i_iter st) (i_ctx st) Hw) as Hn.
    destruct (snext fuel (i_iter st) (i_ctx st)) as [w l it' c'|it' c'|[x|s] it' c'|s|];
      cbn [nres_wf] in Hn; try exact I; try exact Hn.
    match goal with |- context [finish_row _ ?sx] => pose proof (finish_row_inv tc sx) as Hf;
      destruct (finish_row tc sx) as [st2|er st2|x st2|s0|] end; try contradiction; try exact I.
    destruct Hf as [H1 _]. rewrite H1. exact Hn.
  - pose proof (finish_row_inv tc st) as Hf.
    destruct (finish_row tc st) as [st2|er st2|x st2|s|]; try contradiction; try exact I.
    destruct Hf as [H1 _]. rewrite H1. exact Hw.
Qed.

(* next(): handle_io / extract_output_values give the variable map back (inext_vars) *)
Theorem inext_wf : forall fuel st, ctx_wf (i_ctx st) ->
  match inext fuel st with
  | ItNone st' | ItRow _ st' | ItErr _ st' => ctx_wf (i_ctx st')
  | ItPanic _ | ItOOF => True
  end.
Proof.
  intros fuel st Hw. pose proof (inext_vars G DE D w_default tc fuel st) as H.
  pose proof (get_row_wf fuel st Hw) as K.
  destruct (inext fuel st) as [st'|row st'|e st'|s|]; try exact I.
  - destruct H as [Hg _]. rewrite Hg in K. exact K.
  - destruct H as [er [st1 [Hg [Hv _]]]]. rewrite Hg in K. exact (ctx_wf_eq _ _ Hv K).
  - destruct H as [_ [st1 [[[er Hg]|[x Hg]] Hv]]]; rewrite Hg in K; exact (ctx_wf_eq _ _ Hv K).
Qed.

(* THE INVARIANT of (1) and (2) *)
Definition vars_inv (st : istate) : Prop := ctx_wf (i_ctx st) /\ calt (i_ctx st) = fm_new.

Theorem try_new_vars_inv : forall st0, try_new = NewOk st0 -> vars_inv st0.
Proof.
  intros st0 H. pose proof (try_new_vars DE D tc) as K. rewrite H in K. destruct K as [Kv Ka].
  split; [|exact Ka]. unfold ctx_wf. rewrite Kv. apply wf_new.
Qed.

Theorem inext_vars_inv : forall fuel st, vars_inv st ->
  match inext fuel st with
  | ItNone st' | ItRow _ st' | ItErr _ st' => vars_inv st'
  | ItPanic _ | ItOOF => True
  end.
Proof.
  intros fuel st [Hw Ha]. pose proof (inext_wf fuel st Hw) as H1.
  pose proof (inext_alt_empty G DE D w_default tc fuel st Ha) as H2.
  destruct (inext fuel st) as [st'|row st'|e st'|s|]; try exact I; split; assumption.
Qed.

Lemma step_vars_inv : forall fuel st st',
  vars_inv st -> next_state (inext fuel st) = Some st' -> vars_inv st'.
Proof.
  intros fuel st st' Hi Hn. pose proof (inext_vars_inv fuel st Hi) as K.
  destruct (inext fuel st) as [s1|row s1|e s1|s|]; cbn [VectorProof.next_state] in Hn;
    try discriminate Hn; inversion Hn; subst s1; exact K.
Qed.

Lemma reach_vars_inv : forall fuel st st', reach fuel st st' -> vars_inv st -> vars_inv st'.
Proof.
  intros fuel st st' Hr. induction Hr as [st|st st1 st' Hn _ IH]; intro Hi; [exact Hi|].
  apply IH. eapply step_vars_inv; eauto.
Qed.

Lemma reachable_vars_inv : forall st, reachable st -> vars_inv st.
Proof.
  intros st Hr. induction Hr as [st0 H0|fuel st st' _ IH Hn].
  - apply try_new_vars_inv. exact H0.
  - eapply step_vars_inv; [exact IH|exact Hn].
Qed.

(* ------------------------------------------------------------------ the steps of a run *)

(* the calls of next() that collect_e makes, each with the state it was made on, the item it
   returned and the state it left *)
Definition step := (istate * item_view DE * istate)%type.
Definition step_pre (s : step) : istate := fst (fst s).
Definition step_item (s : step) : item_view DE := snd (fst s).
Definition step_post (s : step) : istate := snd s.

Fixpoint steps_e (fuel n : nat) (st : istate) : list step :=
  match n with
  | O => []
  | S n' =>
      match inext fuel st with
      | ItRow row st' => (st, VRow row, st') :: steps_e fuel n' st'
      | ItErr e st' => (st, VErr e, st') :: steps_e fuel n' st'
      | ItNone st' => [(st, VNone, st')]
      | ItPanic _ | ItOOF => []
      end
  end.

(* the step is the call of next() on its first component *)
Definition is_step (fuel : nat) (s : step) : Prop :=
  match step_item s with
  | VRow r => inext fuel (step_pre s) = ItRow r (step_post s)
  | VErr e => inext fuel (step_pre s) = ItErr e (step_post s)
  | VNone => inext fuel (step_pre s) = ItNone (step_post s)
  end.

(* the items of the steps are the items of collect_e ... *)
Lemma steps_e_items : forall fuel n st,
  map step_item (steps_e fuel n st) = fst (collect_e fuel n st).
Proof.
  intros fuel n. induction n as [|n IH]; intro st; [reflexivity|].
  rewrite collect_e_S. cbn [steps_e].
  destruct (inext fuel st) as [st'|row st'|e st'|s|]; try reflexivity.
  - specialize (IH st'). destruct (collect_e fuel n st') as [l so]. cbn [map fst] in *.
    rewrite IH. reflexivity.
  - specialize (IH st'). destruct (collect_e fuel n st') as [l so]. cbn [map fst] in *.
    rewrite IH. reflexivity.
Qed.

(* ... and the state collect_e ends in is the state the last step left *)
Lemma steps_e_final : forall fuel n st items st',
  collect_e fuel n st = (items, Some st') -> st' = last (map step_post (steps_e fuel n st)) st.
Proof.
  intros fuel n. induction n as [|n IH]; intros st items st' H.
  - cbn [RunRefineE.collect_e] in H. inversion H; subst. reflexivity.
  - rewrite collect_e_S in H. cbn [steps_e].
    destruct (inext fuel st) as [st1|row st1|e st1|s|]; try discriminate H.
    + inversion H; subst. reflexivity.
    + destruct (collect_e fuel n st1) as [l so] eqn:Hc. inversion H; subst.
      rewrite (IH _ _ _ Hc). cbn [map]. rewrite last_cons. reflexivity.
    + destruct (collect_e fuel n st1) as [l so] eqn:Hc. inversion H; subst.
      rewrite (IH _ _ _ Hc). cbn [map]. rewrite last_cons. reflexivity.
Qed.

(* the steps follow one another: the first is made on the initial state, each of the others on
   the state its predecessor left *)
Lemma steps_e_head : forall fuel n st s l, steps_e fuel n st = s :: l -> step_pre s = st.
Proof.
  intros fuel n st s l H. destruct n as [|n]; [discriminate H|]. cbn [steps_e] in H.
  destruct (inext fuel st) as [st'|row st'|e st'|x|]; try discriminate H; inversion H; reflexivity.
Qed.

Lemma steps_e_chain : forall fuel n st,
  adjacent (fun a b : step => step_pre b = step_post a) (steps_e fuel n st).
Proof.
  intros fuel n. induction n as [|n IH]; intros st l1 a b l2 E.
  - destruct l1; discriminate E.
  - cbn [steps_e] in E. destruct (inext fuel st) as [st'|row st'|e st'|x|].
    + destruct l1 as [|y [|z l1]]; discriminate E.
    + destruct l1 as [|y l1]; cbn [app] in E; injection E as E1 E2.
      * subst a. apply steps_e_head in E2. exact E2.
      * eapply IH. exact E2.
    + destruct l1 as [|y l1]; cbn [app] in E; injection E as E1 E2.
      * subst a. apply steps_e_head in E2. exact E2.
      * eapply IH. exact E2.
    + destruct l1; discriminate E.
    + destruct l1; discriminate E.
Qed.

(* an invariant of next() holds before and after every step of every run *)
Lemma steps_e_inv : forall J : istate -> Prop,
  (forall fuel st st', J st -> next_state (inext fuel st) = Some st' -> J st') ->
  forall fuel n st0, J st0 ->
  Forall (fun s => J (step_pre s) /\ is_step fuel s /\ J (step_post s)) (steps_e fuel n st0).
Proof.
  intros J HJ fuel n. induction n as [|n IH]; intros st0 H0; [constructor|].
  cbn [steps_e]. destruct (inext fuel st0) as [st'|row st'|e st'|s|] eqn:Hn; try (constructor; fail).
  - assert (H1 : J st') by (apply (HJ fuel st0 st' H0); rewrite Hn; reflexivity).
    constructor; [|constructor]. unfold is_step, step_pre, step_item, step_post. cbn [fst snd]. auto.
  - assert (H1 : J st') by (apply (HJ fuel st0 st' H0); rewrite Hn; reflexivity).
    constructor; [|apply IH; exact H1]. unfold is_step, step_pre, step_item, step_post. cbn [fst snd]. auto.
  - assert (H1 : J st') by (apply (HJ fuel st0 st' H0); rewrite Hn; reflexivity).
    constructor; [|apply IH; exact H1]. unfold is_step, step_pre, step_item, step_post. cbn [fst snd]. auto.
Qed.

Lemma steps_e_vars_inv : forall fuel n st0, try_new = NewOk st0 ->
  Forall (fun s => vars_inv (step_pre s) /\ is_step fuel s /\ vars_inv (step_post s)) (steps_e fuel n st0).
Proof.
  intros fuel n st0 H0. apply (steps_e_inv vars_inv).
  - intros f st st'. apply step_vars_inv.
  - apply try_new_vars_inv. exact H0.
Qed.

Lemma collect_e_vars_inv : forall fuel n st0 items st',
  try_new = NewOk st0 -> collect_e fuel n st0 = (items, Some st') -> vars_inv st'.
Proof.
  intros fuel n st0 items st' H0 Hc.
  eapply reach_vars_inv; [eapply collect_e_reach; exact Hc|apply try_new_vars_inv; exact H0].
Qed.

(* ------------------------------------------------------------------ (1) the theorems *)

(* after EVERY item of ANY run of the continuing caller: the context is well formed, vars() has
   distinct names, is the innermost-wins view of the frames and agrees with variable reads *)
Theorem vars_after_each_item : forall fuel n st0, try_new = NewOk st0 ->
  Forall (fun s => vars_view_ok (i_ctx (step_post s))) (steps_e fuel n st0).
Proof.
  intros fuel n st0 H0. eapply Forall_impl; [|apply (steps_e_vars_inv fuel n st0 H0)].
  cbv beta. intros s [_ [_ [Hw _]]]. apply wf_vars_view. exact Hw.
Qed.

(* the same for the state a run ends in, for every state `reach`able by calls of next(), with
   one fuel or with any fuel at every call *)
Theorem vars_after_run : forall fuel n st0 items st',
  try_new = NewOk st0 -> collect_e fuel n st0 = (items, Some st') -> vars_view_ok (i_ctx st').
Proof.
  intros fuel n st0 items st' H0 Hc. apply wf_vars_view. exact (proj1 (collect_e_vars_inv _ _ _ _ _ H0 Hc)).
Qed.

Theorem vars_after_run_collect : forall fuel n st0 items st',
  try_new = NewOk st0 -> collect fuel n st0 = (items, Some st') -> vars_view_ok (i_ctx st').
Proof.
  intros fuel n st0 items st' H0 Hc. apply wf_vars_view.
  exact (proj1 (reach_vars_inv _ _ _ (collect_reach _ _ _ _ _ _ _ _ _ _ Hc) (try_new_vars_inv _ H0))).
Qed.

Theorem vars_in_every_reachable_state : forall fuel st0 st',
  try_new = NewOk st0 -> reach fuel st0 st' -> vars_view_ok (i_ctx st').
Proof.
  intros fuel st0 st' H0 Hr. apply wf_vars_view.
  exact (proj1 (reach_vars_inv _ _ _ Hr (try_new_vars_inv _ H0))).
Qed.

Theorem vars_in_every_reachable_state_any_fuel : forall st, reachable st -> vars_view_ok (i_ctx st).
Proof. intros st Hr. apply wf_vars_view. exact (proj1 (reachable_vars_inv st Hr)). Qed.

(* ------------------------------------------------------------------ (2) the IO never changes the variables *)

(* the kind under which the call of a row is logged *)
Definition call_kind (er : evaluated_row) : callkind :=
  if er_update_output er then RW else (if w_default then RW else WO).

(* THE CASE TABLE.  The outcomes of next() that make a driver call are those in which get_row
   yields a row `GRRow er st1` (st1 = the state right after the row's entries were evaluated):
   a row item, a failed call, a refused answer / a declared signal that fails on the answer.
   In all of them the variables after the item are those of st1 and calt is what it was.  The
   other outcomes (an evaluation error of the program, None) make no call, and the state handed
   back IS the one get_row left. *)
Theorem vars_unchanged_by_io_and_errors : forall fuel st,
  match inext fuel st with
  | ItRow row st' =>
      exists er st1 outs, get_row fuel st = GRRow er st1 /\
        D (i_log st) (call_kind er, er_inputs er) = DrvOk outs /\
        i_log st' = i_log st ++ [(call_kind er, er_inputs er)] /\
        cvars (i_ctx st') = cvars (i_ctx st1) /\ calt (i_ctx st') = calt (i_ctx st)
  | ItErr (IE_Driver e) st' =>
      (* the call failed *)
      exists er st1, get_row fuel st = GRRow er st1 /\
        D (i_log st) (call_kind er, er_inputs er) = DrvErr e /\
        i_log st' = i_log st ++ [(call_kind er, er_inputs er)] /\
        cvars (i_ctx st') = cvars (i_ctx st1) /\ calt (i_ctx st') = calt (i_ctx st)
  | ItErr (IE_Runtime r) st' =>
      (* an evaluation error of the program: no call *)
      (exists x, r = RT_Expr x /\ get_row fuel st = GRErr x st' /\ i_log st' = i_log st /\
         calt (i_ctx st') = calt (i_ctx st))
      \/
      (* the answer was refused (number, order) or a declared signal failed on it *)
      (exists er st1 outs, get_row fuel st = GRRow er st1 /\ er_update_output er = true /\
         D (i_log st) (RW, er_inputs er) = DrvOk outs /\ refusal (i_nout st) outs r /\
         i_log st' = i_log st ++ [(RW, er_inputs er)] /\
         cvars (i_ctx st') = cvars (i_ctx st1) /\ calt (i_ctx st') = calt (i_ctx st))
  | ItNone st' => get_row fuel st = GRNone st' /\ i_log st' = i_log st /\ calt (i_ctx st') = calt (i_ctx st)
  | ItPanic _ | ItOOF => True
  end.
Proof.
  intros fuel st. pose proof (inext_inv G DE D w_default tc fuel st) as H.
  pose proof (get_row_preserves G tc fuel st) as K.
  destruct (inext fuel st) as [st'|row st'|[e|r] st'|s|]; try exact I.
  - rewrite H in K. split; [exact H|]. tauto.
  - destruct H as [er [st1 [Hg [[Hu [outs [c2 [vals [HD [He [Hr Hs]]]]]]]|[Hu [outs [HD [Hr Hs]]]]]]]];
      exists er, st1, outs; (split; [exact Hg|]); rewrite Hg in K; subst st'; unfold call_kind; rewrite Hu;
      cbn [with_ctx_log i_log i_ctx].
    + split; [exact HD|]. split; [reflexivity|].
      apply extract_output_values_rng_only in He. destruct He as [He1 [He2 _]].
      cbn [ctx_set_outputs cvars calt] in He1, He2. split; [exact He1|]. rewrite He2. tauto.
    + split; [exact HD|]. split; [reflexivity|]. split; [reflexivity|]. tauto.
  - destruct H as [er [st1 [Hg [HD Hs]]]]. cbv zeta in HD, Hs. rewrite Hg in K.
    exists er, st1. split; [exact Hg|]. unfold call_kind. split; [exact HD|]. subst st'.
    cbn [with_ctx_log i_log i_ctx]. split; [reflexivity|]. split; [reflexivity|]. tauto.
  - destruct H as [[x [Hr Hg]]|[er [st1 [outs [c2 [Hg [Hu [HD [He Hs]]]]]]]]]; rewrite Hg in K.
    + left. exists x. split; [exact Hr|]. split; [exact Hg|]. tauto.
    + right. exists er, st1, outs. split; [exact Hg|]. split; [exact Hu|]. split; [exact HD|].
      split.
      { apply extract_err_shape in He. destruct K as [_ [_ [_ [_ Kn]]]]. rewrite Kn in He. exact He. }
      subst st'. cbn [with_ctx_log i_log i_ctx]. split; [reflexivity|].
      apply extract_output_values_rng_only in He. destruct He as [He1 [He2 _]].
      cbn [ctx_set_outputs cvars calt] in He1, He2. split; [exact He1|]. rewrite He2. tauto.
Qed.

(* the same, read from the side of get_row: whenever a call is made, whatever comes of it *)
Corollary vars_unchanged_when_called : forall fuel st er st1 st',
  get_row fuel st = GRRow er st1 -> next_state (inext fuel st) = Some st' ->
  cvars (i_ctx st') = cvars (i_ctx st1) /\ ctx_vars (i_ctx st') = ctx_vars (i_ctx st1) /\
  calt (i_ctx st') = calt (i_ctx st) /\
  i_log st' = i_log st ++ [(call_kind er, er_inputs er)].
Proof.
  intros fuel st er st1 st' Hg Hn. pose proof (vars_unchanged_by_io_and_errors fuel st) as H.
  assert (K : cvars (i_ctx st') = cvars (i_ctx st1) /\ calt (i_ctx st') = calt (i_ctx st) /\
              i_log st' = i_log st ++ [(call_kind er, er_inputs er)]).
  { destruct (inext fuel st) as [s1|row s1|[e|r] s1|s|]; cbn [VectorProof.next_state] in Hn;
      try discriminate Hn; inversion Hn; subst s1.
    - destruct H as [Hg' _]. congruence.
    - destruct H as [er' [st1' [outs [Hg' [_ [Hl [Hv Ha]]]]]]]. rewrite Hg in Hg'. inversion Hg'; subst er' st1'. auto.
    - destruct H as [er' [st1' [Hg' [_ [Hl [Hv Ha]]]]]]. rewrite Hg in Hg'. inversion Hg'; subst er' st1'. auto.
    - destruct H as [[x [_ [Hg' _]]]|[er' [st1' [outs [Hg' [Hu [_ [_ [Hl [Hv Ha]]]]]]]]]]; [congruence|].
      rewrite Hg in Hg'. inversion Hg'; subst er' st1'. unfold call_kind. rewrite Hu. auto. }
  destruct K as [K1 [K2 K3]]. split; [exact K1|]. split; [apply ctx_vars_eq; exact K1|]. auto.
Qed.

(* ... and when no call is made the state handed back is the one get_row left *)
Corollary no_call_no_io : forall fuel st st',
  (forall er st1, get_row fuel st <> GRRow er st1) -> next_state (inext fuel st) = Some st' ->
  (get_row fuel st = GRNone st' \/ exists x, get_row fuel st = GRErr x st') /\ i_log st' = i_log st.
Proof.
  intros fuel st st' Hno Hn. pose proof (vars_unchanged_by_io_and_errors fuel st) as H.
  destruct (inext fuel st) as [s1|row s1|[e|r] s1|s|]; cbn [VectorProof.next_state] in Hn;
    try discriminate Hn; inversion Hn; subst s1.
  - destruct H as [Hg [Hl _]]. auto.
  - destruct H as [er [st1 [outs [Hg _]]]]. exfalso. exact (Hno _ _ Hg).
  - destruct H as [er [st1 [Hg _]]]. exfalso. exact (Hno _ _ Hg).
  - destruct H as [[x [_ [Hg [Hl _]]]]|[er [st1 [outs [Hg _]]]]]; [eauto|]. exfalso. exact (Hno _ _ Hg).
Qed.

Lemma is_step_next_state : forall fuel s, is_step fuel s ->
  next_state (inext fuel (step_pre s)) = Some (step_post s).
Proof.
  intros fuel s H. unfold is_step in H. destruct (step_item s); rewrite H; reflexivity.
Qed.

(* (2) for every step of every run of the continuing caller: calt is empty before and after, and
   if the step made a call the variables after the item are those right after get_row *)
Theorem vars_unchanged_by_io_and_errors_run : forall fuel n st0, try_new = NewOk st0 ->
  Forall (fun s =>
    calt (i_ctx (step_pre s)) = fm_new /\ calt (i_ctx (step_post s)) = fm_new /\
    forall er st1, get_row fuel (step_pre s) = GRRow er st1 ->
      cvars (i_ctx (step_post s)) = cvars (i_ctx st1) /\
      ctx_vars (i_ctx (step_post s)) = ctx_vars (i_ctx st1) /\
      i_log (step_post s) = i_log (step_pre s) ++ [(call_kind er, er_inputs er)])
    (steps_e fuel n st0).
Proof.
  intros fuel n st0 H0. eapply Forall_impl; [|apply (steps_e_vars_inv fuel n st0 H0)].
  cbv beta. intros s [[_ Ha] [Hs [_ Ha']]]. split; [exact Ha|]. split; [exact Ha'|].
  intros er st1 Hg.
  destruct (vars_unchanged_when_called _ _ _ _ _ Hg (is_step_next_state _ _ Hs)) as [K1 [K2 [_ K3]]]. auto.
Qed.

Theorem calt_empty_in_every_reachable_state : forall fuel st0 st',
  try_new = NewOk st0 -> reach fuel st0 st' -> calt (i_ctx st') = fm_new.
Proof. intros fuel st0 st' H0 Hr. exact (proj2 (reach_vars_inv _ _ _ Hr (try_new_vars_inv _ H0))). Qed.

Theorem calt_empty_in_every_reachable_state_any_fuel : forall st, reachable st -> calt (i_ctx st) = fm_new.
Proof. intros st Hr. exact (proj2 (reachable_vars_inv st Hr)). Qed.

Theorem calt_empty_after_run : forall fuel n st0 items st',
  try_new = NewOk st0 -> collect_e fuel n st0 = (items, Some st') -> calt (i_ctx st') = fm_new.
Proof. intros fuel n st0 items st' H0 Hc. exact (proj2 (collect_e_vars_inv _ _ _ _ _ H0 Hc)). Qed.

(* ------------------------------------------------------------------ (3) the declared signals of every row *)

(* the signal of the k-th expected entry is the signal of the k-th expected index *)
Lemma expected_entries_sigs : forall entries expected,
  generate_expected_entries tc entries = Ok expected ->
  Forall2 (fun idx x => sig_at tc idx = Some (xe_sig x)) (tc_expected_indices tc) expected.
Proof.
  intros entries expected H. unfold generate_expected_entries in H. apply map_r_Ok in H.
  induction H as [|idx x l l' Hx _ IH]; constructor; [|exact IH]. clear IH.
  unfold sig_at.
  destruct idx as [ei si|si]; cbn [ei_signal_index];
    destruct (get_signal tc si) as [s| | |] eqn:Gs; cbn [rbind] in Hx; try discriminate Hx;
    apply get_signal_Ok in Gs; rewrite Gs.
  - destruct (nth_error entries ei) as [d|]; [|discriminate Hx].
    destruct d; inversion Hx; reflexivity.
  - inversion Hx; reflexivity.
Qed.

(* THE INVARIANT of (3): the index table is the one the constructor built from its answer, and
   calt is empty *)
Definition decl_inv (oi : list out_index) (st : istate) : Prop :=
  i_outidx st = oi /\ (exists outs0, build_output_indices tc outs0 = Ok oi) /\ calt (i_ctx st) = fm_new.

Theorem try_new_decl_inv : forall st0, try_new = NewOk st0 -> decl_inv (i_outidx st0) st0.
Proof.
  intros st0 H. split; [reflexivity|]. split; [|exact (proj2 (try_new_vars_inv _ H))].
  unfold Iter.try_new in H.
  destruct (generate_default_input_entries tc) as [ins| | |]; try discriminate.
  destruct (D [] (RW, ins)) as [e|outs]; [discriminate|].
  destruct (build_output_indices tc outs) as [oi| | |] eqn:Hb; try discriminate.
  inversion H; subst st0. exists outs. exact Hb.
Qed.

Lemma step_decl_inv : forall oi fuel st st',
  decl_inv oi st -> next_state (inext fuel st) = Some st' -> decl_inv oi st'.
Proof.
  intros oi fuel st st' [Ho [Hb Ha]] Hn.
  pose proof (inext_nout G DE D w_default tc fuel st) as K.
  pose proof (inext_alt_empty G DE D w_default tc fuel st Ha) as K2.
  destruct (inext fuel st) as [s1|row s1|e s1|s|]; cbn [VectorProof.next_state] in Hn;
    try discriminate Hn; inversion Hn; subst s1; destruct K as [_ K]; (split; [congruence|]); split; assumption.
Qed.

(* what (3) says about one yielded row: `log` = the calls before the row's call, `rng` = the
   generator state in which the row's call was made, `oi` = the index table *)
Definition declared_values_ok (log : list call) (rng : rng_state) (oi : list out_index) (row : data_row) : Prop :=
  (* a mid-clock row: its outputs are not read *)
  dr_outputs row = [] \/
  exists outs, D log (RW, dr_inputs row) = DrvOk outs /\
    forall k r e, nth_error (dr_outputs row) k = Some r -> styp (or_sig r) = TyVirtual e ->
      exists v, or_output r = OVal v /\
        fst (eval G (ctx_new (outs_map outs)) e
               (virtual_rng G (ctx_new (outs_map outs)) (firstn k oi) rng)) = Ok v.

(* one next() *)
Theorem inext_declared_values : forall oi fuel st row st',
  decl_inv oi st -> inext fuel st = ItRow row st' ->
  exists er st1, get_row fuel st = GRRow er st1 /\
    declared_values_ok (i_log st) (crng (i_ctx st1)) oi row /\
    (dr_outputs row <> [] ->
       i_log st' = i_log st ++ [(RW, dr_inputs row)] /\
       exists outs, D (i_log st) (RW, dr_inputs row) = DrvOk outs /\ couts (i_ctx st') = outs_map outs).
Proof.
  intros oi fuel st row st' [Ho [[outs0 Hb] Ha]] Hi.
  pose proof (inext_inv G DE D w_default tc fuel st) as H. rewrite Hi in H.
  destruct H as [er [st1 [Hg Hcase]]]. exists er, st1. split; [exact Hg|].
  pose proof (get_row_preserves G tc fuel st) as K. rewrite Hg in K.
  destruct K as [_ [Kalt [_ [Koi _]]]].
  destruct (WidthProof.get_row_row tc G _ _ _ _ Hg) as [entries [_ [_ Hx]]].
  destruct Hcase as [[Hu [outs [c2 [vals [HD [He [Hr Hs]]]]]]]|[Hu [outs [HD [Hr Hs]]]]].
  - subst row st'. unfold declared_values_ok. cbn [into_data_row dr_inputs dr_outputs with_ctx_log i_log i_ctx].
    rewrite Koi, Ho in He. split.
    + right. exists outs. split; [exact HD|]. intros k r e Hk Hty.
      rewrite nth_error_map in Hk.
      destruct (nth_error (combine (er_expected er) vals) k) as [[x v]|] eqn:Hc; [|discriminate Hk].
      cbn [option_map fst snd] in Hk. inversion Hk; subst r. cbn [or_sig or_output] in *.
      destruct (nth_error_combine_inv _ _ _ _ _ _ _ Hc) as [Hkx Hkv].
      destruct (Forall2_nth_error_r _ _ _ _ _ (expected_entries_sigs _ _ Hx) _ _ Hkx) as [idx [Hki Hsig]].
      pose proof (proj2 (build_virtual_entries tc outs0 oi k idx (xe_sig x) Hb Hki Hsig e) Hty) as Hoi.
      assert (Halt : calt (ctx_set_outputs (i_ctx st1) (outs_map outs)) = fm_new)
        by (cbn [ctx_set_outputs calt]; rewrite Kalt; exact Ha).
      destruct (virtual_value G tc outs0 _ _ _ _ _ _ k e Hb He Halt Hoi) as [m [Hm1 Hm2]].
      cbn [ctx_set_outputs couts crng] in Hm2.
      exists m. split; [congruence|exact Hm2].
    + intros _. split; [reflexivity|]. exists outs. split; [exact HD|].
      apply extract_output_values_rng_only in He. destruct He as [_ [_ He]]. exact He.
  - subst row. unfold declared_values_ok. cbn [into_data_row dr_outputs]. rewrite combine_nil_r. cbn [map]. split.
    + left. reflexivity.
    + intro Hne. exfalso. apply Hne. reflexivity.
Qed.

(* (3) for every row of every run of the continuing caller *)
Theorem declared_values_of_every_row : forall fuel n st0, try_new = NewOk st0 ->
  Forall (fun s =>
    match step_item s with
    | VRow row =>
        exists er st1, get_row fuel (step_pre s) = GRRow er st1 /\
          declared_values_ok (i_log (step_pre s)) (crng (i_ctx st1)) (i_outidx st0) row /\
          (dr_outputs row <> [] ->
             i_log (step_post s) = i_log (step_pre s) ++ [(RW, dr_inputs row)] /\
             exists outs, D (i_log (step_pre s)) (RW, dr_inputs row) = DrvOk outs /\
                          couts (i_ctx (step_post s)) = outs_map outs)
    | _ => True
    end) (steps_e fuel n st0).
Proof.
  intros fuel n st0 H0.
  eapply Forall_impl; [|apply (steps_e_inv (decl_inv (i_outidx st0)) (step_decl_inv (i_outidx st0))
                                 fuel n st0 (try_new_decl_inv _ H0))].
  cbv beta. intros s [Hpre [Hs _]]. unfold is_step in Hs.
  destruct (step_item s) as [row|e|]; try exact I.
  exact (inext_declared_values _ _ _ _ _ Hpre Hs).
Qed.

(* no declared signal draws random numbers: every one of them is evaluated in the generator
   state in which the row's call was made *)
Corollary inext_declared_values_no_random : forall oi fuel st row st',
  decl_inv oi st -> no_random_entries oi = true -> inext fuel st = ItRow row st' ->
  exists er st1, get_row fuel st = GRRow er st1 /\
    (dr_outputs row = [] \/
     exists outs, D (i_log st) (RW, dr_inputs row) = DrvOk outs /\
       forall k r e, nth_error (dr_outputs row) k = Some r -> styp (or_sig r) = TyVirtual e ->
         exists v, or_output r = OVal v /\
           fst (eval G (ctx_new (outs_map outs)) e (crng (i_ctx st1))) = Ok v).
Proof.
  intros oi fuel st row st' Hi Hnr Hn.
  destruct (inext_declared_values _ _ _ _ _ Hi Hn) as [er [st1 [Hg [[Hd|[outs [HD Hv]]] _]]]];
    exists er, st1; (split; [exact Hg|]); [left; exact Hd|].
  right. exists outs. split; [exact HD|]. intros k r e Hk Hty.
  destruct (Hv k r e Hk Hty) as [v [Ho He]]. exists v. split; [exact Ho|].
  rewrite virtual_rng_no_random in He by (apply no_random_entries_firstn; exact Hnr). exact He.
Qed.

(* C14's error clauses as statements about the item: an answer on which extract_output_values
   fails with r makes next() return the error item r; the variables are those of st1, the
   answer has become the outputs *)
Lemma answer_error_step : forall fuel st er st1 outs r,
  get_row fuel st = GRRow er st1 -> er_update_output er = true ->
  D (i_log st) (RW, er_inputs er) = DrvOk outs ->
  snd (extract_output_values G tc (i_nout st) (i_outidx st) outs
         (ctx_set_outputs (i_ctx st1) (outs_map outs))) = Err r ->
  exists st', inext fuel st = ItErr (IE_Runtime r) st' /\
    cvars (i_ctx st') = cvars (i_ctx st1) /\ calt (i_ctx st') = calt (i_ctx st) /\
    couts (i_ctx st') = outs_map outs /\ i_log st' = i_log st ++ [(RW, er_inputs er)].
Proof.
  intros fuel st er st1 outs r Hg Hu HD Hs.
  pose proof (get_row_preserves G tc fuel st) as K. rewrite Hg in K.
  destruct K as [_ [Kalt [Klog [Koi Kn]]]].
  unfold Iter.inext. rewrite Hg, Hu. cbv zeta. rewrite Klog, HD, Koi, Kn.
  destruct (extract_output_values G tc (i_nout st) (i_outidx st) outs
              (ctx_set_outputs (i_ctx st1) (outs_map outs))) as [c2 r2] eqn:He.
  cbn [snd] in Hs. subst r2. eexists. split; [reflexivity|].
  cbn [with_ctx_log i_ctx i_log].
  apply extract_output_values_rng_only in He. destruct He as [E1 [E2 E3]].
  cbn [ctx_set_outputs cvars calt couts] in E1, E2, E3. rewrite E2. auto.
Qed.

(* a declared signal whose expression fails on the answer (the declared signals before it having
   evaluated): the item is that error *)
Theorem declared_failure_is_error_item : forall oi fuel st er st1 outs k e xe c1 vals1,
  decl_inv oi st -> get_row fuel st = GRRow er st1 -> er_update_output er = true ->
  D (i_log st) (RW, er_inputs er) = DrvOk outs -> length outs = i_nout st ->
  nth_error oi k = Some (OIVirtual e) ->
  extract_loop G tc (combine (firstn k (tc_expected_indices tc)) (firstn k oi)) outs
    (ctx_swap_vars (ctx_set_outputs (i_ctx st1) (outs_map outs))) = (c1, Ok vals1) ->
  fst (eval G (ctx_new (outs_map outs)) e (crng c1)) = Err xe ->
  exists st', inext fuel st = ItErr (IE_Runtime (RT_Expr xe)) st' /\
    cvars (i_ctx st') = cvars (i_ctx st1) /\ calt (i_ctx st') = fm_new /\
    couts (i_ctx st') = outs_map outs /\ i_log st' = i_log st ++ [(RW, er_inputs er)].
Proof.
  intros oi fuel st er st1 outs k e xe c1 vals1 [Ho [[outs0 Hb] Ha]] Hg Hu HD Hlen Hk Hl Hev.
  pose proof (get_row_preserves G tc fuel st) as K. rewrite Hg in K. destruct K as [_ [Kalt _]].
  assert (Halt : calt (ctx_set_outputs (i_ctx st1) (outs_map outs)) = fm_new)
    by (cbn [ctx_set_outputs calt]; rewrite Kalt; exact Ha).
  pose proof (virtual_error_is_row_error G tc outs0 (i_nout st) oi outs _ k e xe c1 vals1
                Hb Hlen Halt Hk Hl Hev) as Hs.
  rewrite <- Ho in Hs.
  destruct (answer_error_step fuel st er st1 outs _ Hg Hu HD Hs) as [st' [H1 [H2 [H3 [H4 H5]]]]].
  exists st'. split; [exact H1|]. split; [exact H2|]. split; [congruence|]. auto.
Qed.

(* a declared signal that reads a Z or X output *)
Theorem declared_ZX_is_error_item : forall oi fuel st er st1 outs k x v c1 vals1,
  decl_inv oi st -> get_row fuel st = GRRow er st1 -> er_update_output er = true ->
  D (i_log st) (RW, er_inputs er) = DrvOk outs -> length outs = i_nout st ->
  nth_error oi k = Some (OIVirtual (EVar x)) ->
  extract_loop G tc (combine (firstn k (tc_expected_indices tc)) (firstn k oi)) outs
    (ctx_swap_vars (ctx_set_outputs (i_ctx st1) (outs_map outs))) = (c1, Ok vals1) ->
  ctx_get (ctx_new (outs_map outs)) x = Some v -> v = OZ \/ v = OX ->
  exists st', inext fuel st = ItErr (IE_Runtime (RT_Expr (XE_UnexpectedValueForSignal x v))) st' /\
    cvars (i_ctx st') = cvars (i_ctx st1) /\ calt (i_ctx st') = fm_new /\
    couts (i_ctx st') = outs_map outs /\ i_log st' = i_log st ++ [(RW, er_inputs er)].
Proof.
  intros oi fuel st er st1 outs k x v c1 vals1 [Ho [[outs0 Hb] Ha]] Hg Hu HD Hlen Hk Hl Hget Hv.
  pose proof (get_row_preserves G tc fuel st) as K. rewrite Hg in K. destruct K as [_ [Kalt _]].
  assert (Halt : calt (ctx_set_outputs (i_ctx st1) (outs_map outs)) = fm_new)
    by (cbn [ctx_set_outputs calt]; rewrite Kalt; exact Ha).
  pose proof (virtual_ZX_is_error G tc outs0 (i_nout st) oi outs _ k x v c1 vals1
                Hb Hlen Halt Hk Hl Hget Hv) as Hs.
  rewrite <- Ho in Hs.
  destruct (answer_error_step fuel st er st1 outs _ Hg Hu HD Hs) as [st' [H1 [H2 [H3 [H4 H5]]]]].
  exists st'. split; [exact H1|]. split; [exact H2|]. split; [congruence|]. auto.
Qed.

End VARS.

(* ------------------------------------------------------------------ (4) the sequential reading *)

(* WHAT THE REFINEMENT THEOREMS ALREADY GIVE.  RunRefineE.T_run_refines_sequential_reading_
   through_errors equates the ITEMS and the driver LOG of collect_e with those of
   RunSpecE.run_spec_e (seen_of_e).  The handler state rstate carries no context and `Stop h`
   drops the context, so the statement says nothing about the variables.  Its PROOF does:
   inext_io_row_e shows that the context the reading hands on after an item is i_ctx of the
   iterator state after that item.  To state that, the reading is run with a handler state that
   carries a ghost trace: (rstate * list (fmap Z)).  handler_v / on_err_v are run_handler_e /
   run_on_err, and in addition TAG every item with the variable map of the context in which the
   reading produced it (the context in which the expanded row was sent / the statement failed).
   exec_e_proj shows that the tags are ghost: forgetting them gives run_spec_e, fuel for fuel.
   vars_agree_with_sequential_reading: the variables after the k-th item of the run are the k-th
   tag of the reading (and after the final None: the variables with which the reading ends). *)

Local Arguments bindo {C F H} a k.

(* forgetting a ghost component of the handler state does not change the reading *)
Section PROJ.
Variables (C F W : Type).
Variable eval : C -> expr -> C * (Z + F).
Variable row_eval : C -> list dentry -> C * (W + F).
Variable setv : C -> name -> Z -> C.
Variable getv : C -> name -> option Z.
Variables push pop reset : C -> C.
Variables (H1 H2 : Type) (p : H1 -> H2).
Variable handler1 : H1 -> W * N -> C -> (H1 * C) + H1.
Variable on_err1 : H1 -> F -> C -> (H1 * C) + H1.
Variable handler2 : H2 -> W * N -> C -> (H2 * C) + H2.
Variable on_err2 : H2 -> F -> C -> (H2 * C) + H2.

Definition proj_step (r : (H1 * C) + H1) : (H2 * C) + H2 :=
  match r with inl (h, c) => inl (p h, c) | inr h => inr (p h) end.

Definition proj_outcome (o : outcome C F H1) : outcome C F H2 :=
  match o with
  | Fin c h => Fin c (p h)
  | Stop h => Stop (p h)
  | Fail x c h => Fail x c (p h)
  | Crash s => Crash s
  | OutOfFuel => OutOfFuel
  end.

Hypothesis Hh : forall h row c, proj_step (handler1 h row c) = handler2 (p h) row c.
Hypothesis He : forall h x c, proj_step (on_err1 h x c) = on_err2 (p h) x c.

Local Notation exec1 := (exec_e C F W eval row_eval setv getv push pop reset H1 handler1 on_err1).
Local Notation for1 := (for_loop_e C F W eval row_eval setv getv push pop reset H1 handler1 on_err1).
Local Notation while1 := (while_loop_e C F W eval row_eval setv getv push pop reset H1 handler1 on_err1).
Local Notation exec2 := (exec_e C F W eval row_eval setv getv push pop reset H2 handler2 on_err2).
Local Notation for2 := (for_loop_e C F W eval row_eval setv getv push pop reset H2 handler2 on_err2).
Local Notation while2 := (while_loop_e C F W eval row_eval setv getv push pop reset H2 handler2 on_err2).

Lemma proj_bindo : forall a (k : C -> H1 -> outcome C F H1) (k' : C -> H2 -> outcome C F H2),
  (forall c h, proj_outcome (k c h) = k' c (p h)) ->
  proj_outcome (bindo a k) = bindo (proj_outcome a) k'.
Proof. intros a k k' Hk. destruct a; cbn [bindo proj_outcome]; auto. Qed.

Lemma proj_on_err : forall h x c1 (k1 : H1 -> C -> outcome C F H1) (k2 : H2 -> C -> outcome C F H2),
  (forall h2 c2, proj_outcome (k1 h2 c2) = k2 (p h2) c2) ->
  proj_outcome (match on_err1 h x c1 with inl (h2, c2) => k1 h2 c2 | inr h2 => Stop h2 end) =
  match on_err2 (p h) x c1 with inl (h2, c2) => k2 h2 c2 | inr h2 => Stop h2 end.
Proof.
  intros h x c1 k1 k2 Hk. rewrite <- He.
  destruct (on_err1 h x c1) as [[h2 c2]|h2]; cbn [proj_step proj_outcome]; auto.
Qed.

Lemma proj_all : forall f,
  (forall ss c h, proj_outcome (exec1 f ss c h) = exec2 f ss c (p h)) /\
  (forall v m body c h, proj_outcome (for1 f v m body c h) = for2 f v m body c (p h)) /\
  (forall e body c h, proj_outcome (while1 f e body c h) = while2 f e body c (p h)).
Proof.
  induction f as [|f [IHe [IHf IHw]]]; [repeat split; reflexivity|].
  split; [|split].
  - intros ss c h. rewrite !exec_e_S. destruct ss as [|s r]; [reflexivity|].
    destruct s as [n e|d l|v e body|e body|].
    + destruct (eval c e) as [c1 [z|x]]; [apply IHe|]. apply proj_on_err. intros; apply IHe.
    + destruct (row_eval c d) as [c1 [w|x]].
      * rewrite <- Hh. destruct (handler1 h (w, l) c1) as [[h2 c2]|h2]; cbn [proj_step];
          [apply IHe|reflexivity].
      * apply proj_on_err. intros; apply IHe.
    + destruct (eval c e) as [c1 [m|x]]; [|apply proj_on_err; intros; apply IHe].
      destruct (Z.ltb 0 m); [|apply IHe].
      erewrite proj_bindo; [rewrite IHf; reflexivity|]. intros; apply IHe.
    + erewrite proj_bindo; [rewrite IHw; reflexivity|]. intros; apply IHe.
    + apply IHe.
  - intros v m body c h. rewrite !for_e_S.
    erewrite proj_bindo; [rewrite IHe; reflexivity|]. intros c2 h2. cbv beta.
    destruct (getv c2 v) as [i|]; [|reflexivity].
    destruct (Z.ltb (wadd i 1) m); [apply IHf|reflexivity].
  - intros e body c h. rewrite !while_e_S.
    destruct (eval c e) as [c1 [z|x]]; [|apply proj_on_err; intros; apply IHw].
    destruct (Z.eqb z 0); [reflexivity|].
    erewrite proj_bindo; [rewrite IHe; reflexivity|]. intros; apply IHw.
Qed.

Theorem exec_e_proj : forall f ss c h, proj_outcome (exec1 f ss c h) = exec2 f ss c (p h).
Proof. intros f. exact (proj1 (proj_all f)). Qed.

End PROJ.

Section SEQ.
Variable G : gen.
Variable DE : Type.
Variable D : driver DE.
Variable w_default : bool.
Variable tc : testcase.

Local Notation snext := (Iter.snext G).
Local Notation get_row := (Iter.get_row G tc).
Local Notation inext := (Iter.inext G DE D w_default tc).
Local Notation try_new := (Iter.try_new DE D tc).
Local Notation collect_e := (RunRefineE.collect_e G DE D w_default tc).
Local Notation rstate := (RunSpec.rstate DE).
Local Notation io_row_e := (RunSpecE.io_row_e G DE D w_default tc).
Local Notation io_rows_e := (RunSpecE.io_rows_e G DE D w_default tc).
Local Notation handler_e := (RunSpecE.run_handler_e G DE D w_default tc).
Local Notation on_err := (RunSpecE.run_on_err DE).
Local Notation h_of := (RunRefine.h_of DE).
Local Notation remaining := (RunRefine.remaining tc).
Local Notation steps_e := (steps_e G DE D w_default tc).
Local Notation next_state := (VectorProof.next_state DE).
Local Notation next_mono :=
  (StmtRefine.next_mono ctx xfail (list dentry) (lift_eval G) (lift_row_eval G) ctx_set loop_var_value
                        ctx_push_frame ctx_pop_frame ctx_reset_random_seed).

(* ---------------------------------------------------------------- the reading, with tags *)

Definition vtrace := list (fmap Z).
Definition hstate := (rstate * vtrace)%type.

(* tag the item a step has produced with the variables of the context it was produced in *)
Definition tag (hv : hstate) (c : ctx) (r : (rstate * ctx) + rstate) : (hstate * ctx) + hstate :=
  match r with
  | inl (h2, c2) => inl ((h2, snd hv ++ [cvars c]), c2)
  | inr h2 => inr (h2, snd hv ++ [cvars c])
  end.

(* RunSpecE.io_row_e: one expanded row = one item *)
Definition io_row_v (hv : hstate) (c : ctx) (entries : list dentry) (line : N) (checked : bool)
  : option ((hstate * ctx) + hstate) :=
  option_map (tag hv c) (io_row_e (fst hv) c entries line checked).

(* RunSpecE.io_rows_e *)
Fixpoint io_rows_v (hv : hstate) (c : ctx) (rows : list (list dentry * bool)) (line : N)
  : option ((hstate * ctx) + hstate) :=
  match rows with
  | [] => Some (inl (hv, c))
  | (entries, checked) :: rest =>
      match io_row_v hv c entries line checked with
      | Some (inl (hv', c')) => io_rows_v hv' c' rest line
      | other => other
      end
  end.

Definition crashed_v (hv : hstate) : hstate := (crashed DE (fst hv), snd hv).

(* RunSpecE.run_handler_e *)
Definition handler_v (hv : hstate) (row : list dentry * N) (c : ctx) : (hstate * ctx) + hstate :=
  match io_rows_v hv c (ExpandSpec.expand_spec (entry_is_input tc) (pure_expected_col tc) (fst row)) (snd row) with
  | Some r => r
  | None => inr (crashed_v hv)
  end.

(* RunSpecE.run_on_err: an error item of the program is an item too *)
Definition on_err_v (hv : hstate) (x : xfail) (c : ctx) : (hstate * ctx) + hstate :=
  match x with
  | XFErr _ => tag hv c (on_err (fst hv) x c)
  | XFPanic _ => inr (crashed_v hv)
  end.

Definition cexec_v :=
  exec_e ctx xfail (list dentry) (lift_eval G) (lift_row_eval G) ctx_set loop_var_value
         ctx_push_frame ctx_pop_frame ctx_reset_random_seed hstate handler_v on_err_v.
Definition cdrain_v :=
  drain_e ctx xfail (list dentry) (lift_eval G) (lift_row_eval G) ctx_set loop_var_value
          ctx_push_frame ctx_pop_frame ctx_reset_random_seed hstate handler_v on_err_v.

(* RunSpecE.run_spec_e with tags *)
Definition run_spec_v (fuel n : nat) (st0 : istate) : outcome ctx xfail hstate :=
  cexec_v fuel (tc_stmts tc) (i_ctx st0)
          ({| r_seen := []; r_log := i_log st0; r_prev := None; r_outidx := i_outidx st0;
              r_nout := i_nout st0; r_budget := n |}, []).

(* the tags when the reading stops; when the program ended and the caller asked once more (the
   item None), the variables with which it ended *)
Definition vars_of (o : outcome ctx xfail hstate) : option vtrace :=
  match o with
  | Fin c hv => Some (snd hv ++ [cvars c])
  | Stop hv => Some (snd hv)
  | _ => None
  end.

(* ---------------------------------------------------------------- the tags are ghost *)

Local Notation proj_r := (proj_step ctx hstate rstate fst).

Lemma io_rows_v_proj : forall rows l hv c,
  option_map proj_r (io_rows_v hv c rows l) = io_rows_e (fst hv) c rows l.
Proof.
  induction rows as [|[e b] rows IH]; intros l hv c; [reflexivity|].
  cbn [io_rows_v RunSpecE.io_rows_e]. unfold io_row_v.
  destruct (io_row_e (fst hv) c e l b) as [[[h' c']|h']|]; cbn [option_map tag]; [|reflexivity|reflexivity].
  rewrite IH. reflexivity.
Qed.

Lemma handler_v_proj : forall hv row c, proj_r (handler_v hv row c) = handler_e (fst hv) row c.
Proof.
  intros hv row c. unfold handler_v, RunSpecE.run_handler_e. rewrite <- io_rows_v_proj.
  destruct (io_rows_v hv c _ (snd row)) as [r|]; reflexivity.
Qed.

Lemma on_err_v_proj : forall hv x c, proj_r (on_err_v hv x c) = on_err (fst hv) x c.
Proof.
  intros hv x c. destruct x as [e|s]; [|reflexivity]. unfold on_err_v, tag.
  destruct (on_err (fst hv) (XFErr e) c) as [[h2 c2]|h2]; reflexivity.
Qed.

(* forgetting the tags gives RunSpecE.run_spec_e: same fuel, same outcome *)
Theorem run_spec_v_is_run_spec_e : forall fuel n st0,
  proj_outcome ctx xfail hstate rstate fst (run_spec_v fuel n st0) = run_spec_e G DE D w_default tc fuel n st0.
Proof.
  intros fuel n st0. unfold run_spec_v, cexec_v, run_spec_e.
  apply (exec_e_proj ctx xfail (list dentry) (lift_eval G) (lift_row_eval G) ctx_set loop_var_value
           ctx_push_frame ctx_pop_frame ctx_reset_random_seed hstate rstate fst
           handler_v on_err_v handler_e on_err handler_v_proj on_err_v_proj).
Qed.

Corollary run_spec_v_seen : forall fuel n st0,
  seen_of_e DE (run_spec_e G DE D w_default tc fuel n st0) =
  seen_of_e DE (proj_outcome ctx xfail hstate rstate fst (run_spec_v fuel n st0)).
Proof. intros. rewrite run_spec_v_is_run_spec_e. reflexivity. Qed.

(* ---------------------------------------------------------------- iterator ==> reading, with the variables *)

(* the variables after each item of the run (after the final None too) *)
Definition vars_trace (fuel n : nat) (st : istate) : vtrace :=
  map (fun s => cvars (i_ctx (step_post DE s))) (steps_e fuel n st).

Lemma vars_trace_S : forall fuel n st, vars_trace fuel (S n) st =
  match inext fuel st with
  | ItRow _ st' | ItErr _ st' => cvars (i_ctx st') :: vars_trace fuel n st'
  | ItNone st' => [cvars (i_ctx st')]
  | ItPanic _ | ItOOF => []
  end.
Proof.
  intros fuel n st. unfold vars_trace. cbn [VarsRunProof.steps_e].
  destruct (inext fuel st) as [st'|row st'|e st'|s|]; reflexivity.
Qed.

Lemma cdrain_v_S : forall f it c hv, cdrain_v (S f) it c hv =
  match snext f it c with
  | NYield w l it' c' =>
      match handler_v hv (w, l) c' with
      | inl (h2, c2) => cdrain_v f it' c2 h2
      | inr h2 => Stop h2
      end
  | NDone _ c' => Fin c' hv
  | NErr x it' c' =>
      match on_err_v hv x c' with
      | inl (h2, c2) => cdrain_v f it' c2 h2
      | inr h2 => Stop h2
      end
  | NPanic s => Crash s
  | NOOF => OutOfFuel
  end.
Proof. reflexivity. Qed.

(* io_rows_v over rows that carry their own line and flag *)
Fixpoint io_rows_d_v (hv : hstate) (c : ctx) (rows : list dentries) : option ((hstate * ctx) + hstate) :=
  match rows with
  | [] => Some (inl (hv, c))
  | d :: rest =>
      match io_row_v hv c (de_entries d) (de_line d) (de_update_output d) with
      | Some (inl (hv', c')) => io_rows_d_v hv' c' rest
      | other => other
      end
  end.

Lemma io_rows_v_as_d : forall es l hv c,
  io_rows_v hv c es l =
  io_rows_d_v hv c (map (fun p => {| de_entries := fst p; de_line := l; de_update_output := snd p |}) es).
Proof.
  induction es as [|[e b] es IH]; intros l hv c; [reflexivity|].
  cbn [io_rows_v io_rows_d_v map fst snd de_entries de_line de_update_output].
  destruct (io_row_v hv c e l b) as [[[h' c']|h']|]; [apply IH|reflexivity|reflexivity].
Qed.

(* the caller of the statement iterator in the middle of a source row *)
Definition resume_v (f : nat) (h0 : hstate) (rows : list dentries) (it : siter) (c : ctx) (hv : hstate)
  : outcome ctx xfail hstate :=
  match io_rows_d_v hv c rows with
  | Some (inl (hv', c')) => cdrain_v f it c' hv'
  | Some (inr hv') => Stop hv'
  | None => Stop (crashed_v h0)
  end.

Lemma handler_v_resume : forall hv w l c,
  handler_v hv (w, l) c =
  match io_rows_d_v hv c (remaining [source_row w l]) with
  | Some r => r
  | None => inr (crashed_v hv)
  end.
Proof.
  intros hv w l c. unfold handler_v. cbn [fst snd]. rewrite io_rows_v_as_d.
  unfold RunRefine.remaining. cbn [flat_map]. rewrite app_nil_r.
  rewrite (ExpandProof.spec_rows_gen_checked tc (source_row w l) eq_refl). reflexivity.
Qed.

Lemma drain_v_yield : forall f it c hv w l it' c',
  snext f it c = NYield w l it' c' ->
  cdrain_v (S f) it c hv = resume_v f hv (remaining [source_row w l]) it' c' hv.
Proof.
  intros f it c hv w l it' c' Hn.
  rewrite cdrain_v_S, Hn, handler_v_resume. unfold resume_v.
  destruct (io_rows_d_v hv c' (remaining [source_row w l])) as [[[h2 c2]|h2]|]; reflexivity.
Qed.

Lemma resume_v_nil : forall f h0 it c hv, resume_v f h0 [] it c hv = cdrain_v f it c hv.
Proof. reflexivity. Qed.

Lemma vars_of_not_oof : forall (o : outcome ctx xfail hstate) x, vars_of o = Some x -> o <> OutOfFuel.
Proof. intros o x H E. subst o. discriminate H. Qed.

Lemma cdrain_v_mono : forall f it c hv x, vars_of (cdrain_v f it c hv) = Some x ->
  forall f', f <= f' -> cdrain_v f' it c hv = cdrain_v f it c hv.
Proof.
  intros f it c hv x H f' Hle. unfold cdrain_v in *.
  eapply drain_e_mono; [reflexivity| |exact Hle]. eapply vars_of_not_oof; exact H.
Qed.

Lemma resume_v_mono : forall f h0 rows it c hv x, vars_of (resume_v f h0 rows it c hv) = Some x ->
  forall f', f <= f' -> resume_v f' h0 rows it c hv = resume_v f h0 rows it c hv.
Proof.
  intros f h0 rows it c hv x H f' Hle. unfold resume_v in *.
  destruct (io_rows_d_v hv c rows) as [[[h2 c2]|h2]|]; try reflexivity.
  eapply cdrain_v_mono; [exact H|exact Hle].
Qed.

(* with a non-empty cache get_row does not move the context, so the variables after the item are
   those before it (part (2)) *)
Lemma inext_nonempty_vars : forall fuel st st1,
  i_cache st <> [] -> next_state (inext fuel st) = Some st1 -> cvars (i_ctx st1) = cvars (i_ctx st).
Proof.
  intros fuel st st1 Hne Hn.
  assert (Hg : get_row fuel st = finish_row tc st).
  { rewrite IterLogProof.get_row_unfold. destruct (i_cache st); [contradiction|reflexivity]. }
  pose proof (finish_row_inv tc st) as Hf.
  destruct (finish_row tc st) as [st2|er st2|x st2|s|] eqn:Ef; try contradiction.
  - destruct Hf as [Hc _].
    destruct (vars_unchanged_when_called G DE D w_default tc _ _ _ _ _ Hg Hn) as [Hv _]. congruence.
  - exfalso. unfold Iter.inext in Hn. rewrite Hg in Hn. discriminate Hn.
  - exfalso. unfold Iter.inext in Hn. rewrite Hg in Hn. discriminate Hn.
Qed.

(* RunRefineE.inext_io_row_e with the tag: the item is tagged with the variables after it *)
Lemma inext_io_row_v : forall fuel st top cache' sn tr n,
  i_cache st <> [] -> prepare_cache tc (i_cache st) = Ok (top :: cache') ->
  let r := io_row_v (h_of st sn (S n), tr) (i_ctx st) (de_entries top) (de_line top) (de_update_output top) in
  match inext fuel st with
  | ItRow row st1 =>
      r = Some (if Nat.eqb n 0 then inr (h_of st1 (sn ++ [SRow DE row]) n, tr ++ [cvars (i_ctx st1)])
                else inl ((h_of st1 (sn ++ [SRow DE row]) n, tr ++ [cvars (i_ctx st1)]), i_ctx st1)) /\
      i_cache st1 = cache' /\ i_iter st1 = i_iter st
  | ItErr e st1 =>
      r = Some (if Nat.eqb n 0 then inr (h_of st1 (sn ++ [SErr DE e]) n, tr ++ [cvars (i_ctx st1)])
                else inl ((h_of st1 (sn ++ [SErr DE e]) n, tr ++ [cvars (i_ctx st1)]), i_ctx st1)) /\
      i_cache st1 = cache' /\ i_iter st1 = i_iter st
  | ItNone _ => False
  | ItPanic _ | ItOOF => r = None
  end.
Proof.
  intros fuel st top cache' sn tr n Hne Hprep. cbv zeta.
  pose proof (inext_io_row_e G DE D w_default tc fuel st top cache' sn n Hne Hprep) as Hk. cbv zeta in Hk.
  pose proof (inext_nonempty_vars fuel st) as Hv.
  unfold io_row_v. cbn [fst snd].
  destruct (inext fuel st) as [st1|row st1|e st1|s|]; try exact Hk.
  - destruct Hk as (Hk & Hc1 & Hi1). rewrite Hk, (Hv st1 Hne eq_refl).
    split; [|auto]. destruct (Nat.eqb n 0); reflexivity.
  - destruct Hk as (Hk & Hc1 & Hi1). rewrite Hk, (Hv st1 Hne eq_refl).
    split; [|auto]. destruct (Nat.eqb n 0); reflexivity.
  - rewrite Hk. reflexivity.
  - rewrite Hk. reflexivity.
Qed.

Lemma on_err_v_h_of : forall st sn tr n x it' c',
  let st1 := with_iter_ctx st it' c' [] in
  on_err_v (h_of st sn (S n), tr) (XFErr x) c' =
  if Nat.eqb n 0 then inr (h_of st1 (sn ++ [SErr DE (IE_Runtime (RT_Expr x))]) n, tr ++ [cvars c'])
  else inl ((h_of st1 (sn ++ [SErr DE (IE_Runtime (RT_Expr x))]) n, tr ++ [cvars c']), c').
Proof. intros st sn tr n x it' c'. destruct n; reflexivity. Qed.

Definition fwd_v_at (fuel n : nat) (st : istate) : Prop :=
  forall sn tr items st',
  collect_e fuel (S n) st = (items, Some st') ->
  exists f, forall h0,
    vars_of (resume_v f h0 (remaining (i_cache st)) (i_iter st) (i_ctx st) (h_of st sn (S n), tr))
    = Some (tr ++ vars_trace fuel (S n) st).

(* what follows an item that left the caller in state st1 with n calls to go *)
Lemma fwd_v_step : forall fuel n,
  (forall m, n = S m -> forall st, fwd_v_at fuel m st) ->
  forall (st st1 : istate) (sn : list (seen DE)) (tr : vtrace) (s : seen DE) top l st',
  collect_e fuel n st1 = (l, Some st') ->
  io_row_v (h_of st sn (S n), tr) (i_ctx st) (de_entries top) (de_line top) (de_update_output top)
    = Some (if Nat.eqb n 0 then inr (h_of st1 (sn ++ [s]) n, tr ++ [cvars (i_ctx st1)])
            else inl ((h_of st1 (sn ++ [s]) n, tr ++ [cvars (i_ctx st1)]), i_ctx st1)) ->
  exists f, forall h0,
    vars_of (resume_v f h0 (top :: remaining (i_cache st1)) (i_iter st1) (i_ctx st) (h_of st sn (S n), tr))
    = Some (tr ++ cvars (i_ctx st1) :: vars_trace fuel n st1).
Proof.
  intros fuel n IH st st1 sn tr s top l st' Hcol1 Hk.
  destruct n as [|m].
  - exists 0. intro h0. unfold resume_v. cbn [io_rows_d_v]. rewrite Hk. cbn [Nat.eqb vars_of snd].
    unfold vars_trace. cbn [VarsRunProof.steps_e map]. reflexivity.
  - destruct (IH m eq_refl st1 (sn ++ [s]) (tr ++ [cvars (i_ctx st1)]) l st' Hcol1) as (f & Hs).
    exists f. intro h0. specialize (Hs h0). rewrite <- app_assoc in Hs. cbn [app] in Hs.
    unfold resume_v in *. cbn [io_rows_d_v]. rewrite Hk. cbn [Nat.eqb]. exact Hs.
Qed.

Lemma fwd_v_nonempty : forall fuel n,
  (forall m, n = S m -> forall st, fwd_v_at fuel m st) ->
  forall st, i_cache st <> [] -> fwd_v_at fuel n st.
Proof.
  intros fuel n IH st Hne sn tr items st' Hcol.
  destruct (i_cache st) as [|row rest] eqn:Hc; [contradiction|].
  destruct (ExpandProof.prepare_step tc row rest) as (top & mid & Hp & Hg). rewrite <- Hc in Hp.
  assert (Hne' : i_cache st <> []) by (rewrite Hc; discriminate).
  pose proof (inext_io_row_v fuel st top (mid ++ rest) sn tr n Hne' Hp) as Hk. cbv zeta in Hk.
  assert (Hrem : remaining (row :: rest) = top :: remaining (mid ++ rest)).
  { unfold RunRefine.remaining. cbn [flat_map]. rewrite Hg, flat_map_app. reflexivity. }
  rewrite Hrem, vars_trace_S. rewrite collect_e_S in Hcol.
  destruct (inext fuel st) as [st1|r st1|e st1|s|]; try contradiction; try discriminate Hcol.
  - destruct Hk as (Hk & Hc1 & Hi1).
    destruct (collect_e fuel n st1) as [l so] eqn:Hcol1. inversion Hcol; subst items so.
    rewrite <- Hc1, <- Hi1.
    exact (fwd_v_step fuel n IH st st1 sn tr (SRow DE r) top l st' Hcol1 Hk).
  - destruct Hk as (Hk & Hc1 & Hi1).
    destruct (collect_e fuel n st1) as [l so] eqn:Hcol1. inversion Hcol; subst items so.
    rewrite <- Hc1, <- Hi1.
    exact (fwd_v_step fuel n IH st st1 sn tr (SErr DE e) top l st' Hcol1 Hk).
Qed.

Lemma fwd_v_any : forall fuel n,
  (forall m, n = S m -> forall st, fwd_v_at fuel m st) ->
  (forall st, i_cache st <> [] -> fwd_v_at fuel n st) -> forall st, fwd_v_at fuel n st.
Proof.
  intros fuel n IH HA st.
  destruct (i_cache st) as [|row rest] eqn:Hc; [|apply HA; rewrite Hc; discriminate].
  intros sn tr items st' Hcol. rewrite Hc. cbn [RunRefine.remaining flat_map].
  destruct (snext fuel (i_iter st) (i_ctx st)) as [w l it' c'|it' c'|[x|s] it' c'|s|] eqn:Hn.
  - rewrite collect_e_S, (inext_refill G DE D w_default tc fuel st w l it' c' Hc Hn), <- collect_e_S in Hcol.
    rewrite vars_trace_S, (inext_refill G DE D w_default tc fuel st w l it' c' Hc Hn), <- vars_trace_S.
    destruct (HA (with_iter_ctx st it' c' [source_row w l]) ltac:(cbn [with_iter_ctx i_cache]; discriminate) sn tr _ _ Hcol)
      as (f & Hs).
    cbn [with_iter_ctx i_cache i_iter i_ctx] in Hs.
    change (RunRefine.h_of DE _ sn (S n)) with (h_of st sn (S n)) in Hs.
    exists (S (Nat.max f fuel)). intro h0. rewrite resume_v_nil.
    assert (Hn' : snext (Nat.max f fuel) (i_iter st) (i_ctx st) = NYield w l it' c').
    { unfold Iter.snext in *. eapply next_mono; [exact Hn|discriminate|lia]. }
    rewrite (drain_v_yield _ _ _ _ _ _ _ _ Hn').
    specialize (Hs (h_of st sn (S n), tr)).
    rewrite (resume_v_mono _ _ _ _ _ _ _ Hs (Nat.max f fuel) ltac:(lia)). exact Hs.
  - rewrite vars_trace_S. unfold Iter.inext. rewrite IterLogProof.get_row_unfold, Hc, Hn.
    exists (S fuel). intro h0. rewrite resume_v_nil, cdrain_v_S, Hn. reflexivity.
  - (* an error item of the program: on_err_v, then what follows *)
    rewrite collect_e_S, (inext_stmt_err G DE D w_default tc fuel st x it' c' Hc Hn) in Hcol.
    rewrite vars_trace_S, (inext_stmt_err G DE D w_default tc fuel st x it' c' Hc Hn).
    pose proof (on_err_v_h_of st sn tr n x it' c') as Hoe. cbv zeta in Hoe.
    set (st1 := with_iter_ctx st it' c' []) in *.
    change (cvars (i_ctx st1)) with (cvars c').
    destruct n as [|m].
    + exists (S fuel). intro h0.
      rewrite resume_v_nil, cdrain_v_S, Hn, Hoe. cbn [Nat.eqb vars_of snd].
      unfold vars_trace. cbn [VarsRunProof.steps_e map]. reflexivity.
    + destruct (collect_e fuel (S m) st1) as [l so] eqn:Hcol1. inversion Hcol; subst items so.
      destruct (IH m eq_refl st1 (sn ++ [SErr DE (IE_Runtime (RT_Expr x))]) (tr ++ [cvars c']) l st' Hcol1)
        as (f & Hs).
      exists (S (Nat.max f fuel)). intro h0.
      specialize (Hs h0). rewrite <- app_assoc in Hs. cbn [app] in Hs.
      unfold st1 in Hs at 1 2 3. cbn [with_iter_ctx i_cache i_iter i_ctx RunRefine.remaining flat_map] in Hs.
      rewrite resume_v_nil in Hs. fold st1 in Hs.
      assert (Hn' : snext (Nat.max f fuel) (i_iter st) (i_ctx st) = NErr (XFErr x) it' c').
      { unfold Iter.snext in *. eapply next_mono; [exact Hn|discriminate|lia]. }
      rewrite resume_v_nil, cdrain_v_S, Hn', Hoe. cbn [Nat.eqb].
      etransitivity; [|exact Hs]. apply (f_equal vars_of).
      eapply cdrain_v_mono; [exact Hs|lia].
  - rewrite collect_e_S in Hcol. unfold Iter.inext in Hcol.
    rewrite IterLogProof.get_row_unfold, Hc, Hn in Hcol. discriminate Hcol.
  - rewrite collect_e_S in Hcol. unfold Iter.inext in Hcol.
    rewrite IterLogProof.get_row_unfold, Hc, Hn in Hcol. discriminate Hcol.
  - rewrite collect_e_S in Hcol. unfold Iter.inext in Hcol.
    rewrite IterLogProof.get_row_unfold, Hc, Hn in Hcol. discriminate Hcol.
Qed.

Lemma collect_e_resume_v : forall fuel n st, fwd_v_at fuel n st.
Proof.
  intros fuel n. induction n as [|n IH].
  - assert (I0 : forall m, 0 = S m -> forall st, fwd_v_at fuel m st) by (intros m Hm; discriminate Hm).
    apply fwd_v_any; [exact I0|]. apply fwd_v_nonempty. exact I0.
  - assert (I1 : forall m, S n = S m -> forall st, fwd_v_at fuel m st)
      by (intros m Hm; inversion Hm; subst m; exact IH).
    apply fwd_v_any; [exact I1|]. apply fwd_v_nonempty. exact I1.
Qed.

Lemma run_spec_v_is_cexec_v : forall fuel n st0, i_prev st0 = None ->
  run_spec_v fuel n st0 = cexec_v fuel (tc_stmts tc) (i_ctx st0) (h_of st0 [] n, []).
Proof. intros fuel n st0 Hp. unfold run_spec_v, RunRefine.h_of. rewrite Hp. reflexivity. Qed.

(* (4) THE THEOREM: along any run of the continuing caller from try_new, the variables after
   each item (and after the final None) are, in order, the tags of the sequential reading *)
Theorem vars_agree_with_sequential_reading : forall fuel n st0 items st',
  try_new = NewOk st0 -> n >= 1 ->
  collect_e fuel n st0 = (items, Some st') ->
  exists fuel', vars_of (run_spec_v fuel' n st0) = Some (vars_trace fuel n st0).
Proof.
  intros fuel n st0 items st' Hnew Hn Hcol.
  destruct (try_new_fresh DE D tc st0 Hnew) as (Hc & Hp & Hi).
  destruct n as [|n]; [lia|].
  destruct (collect_e_resume_v fuel n st0 [] [] items st' Hcol) as (f & Hs).
  specialize (Hs (h_of st0 [] (S n), [])). rewrite Hc, Hi in Hs.
  cbn [RunRefine.remaining flat_map app] in Hs. rewrite resume_v_nil in Hs.
  destruct (sequential_reading_refines_iterator_through_errors _ _ _ _ _ _ _ _ _ _ _ _ _ _ _ _ _ _
              eq_refl (vars_of_not_oof _ _ Hs)) as [fuel' He].
  exists fuel'. rewrite (run_spec_v_is_cexec_v _ _ _ Hp). unfold cexec_v.
  etransitivity; [|exact Hs]. apply (f_equal vars_of). exact He.
Qed.

(* the reading with tags at a fuel that is large enough is stable *)
Lemma run_spec_v_mono : forall f n st0 x, vars_of (run_spec_v f n st0) = Some x ->
  forall f', f <= f' -> run_spec_v f' n st0 = run_spec_v f n st0.
Proof.
  intros f n st0 x H f' Hle. unfold run_spec_v, cexec_v in *.
  eapply exec_e_mono; [reflexivity| |exact Hle]. eapply vars_of_not_oof; exact H.
Qed.

(* (4) together with theorem T through errors: ONE run of the sequential reading gives the items,
   the driver log and, item by item, the variables of the iterator's run *)
Theorem vars_and_items_agree_with_sequential_reading : forall fuel n st0 items st',
  try_new = NewOk st0 -> n >= 1 ->
  collect_e fuel n st0 = (items, Some st') ->
  exists fuel' sn,
    seen_of_e DE (run_spec_e G DE D w_default tc fuel' n st0) = Some (sn, i_log st') /\
    items = map view_of_seen sn /\
    proj_outcome ctx xfail hstate rstate fst (run_spec_v fuel' n st0) = run_spec_e G DE D w_default tc fuel' n st0 /\
    vars_of (run_spec_v fuel' n st0) = Some (vars_trace fuel n st0) /\
    length (vars_trace fuel n st0) = length items.
Proof.
  intros fuel n st0 items st' Hnew Hn Hcol.
  destruct (vars_agree_with_sequential_reading _ _ _ _ _ Hnew Hn Hcol) as [f1 Hv].
  destruct (T_run_refines_sequential_reading_through_errors G DE D w_default tc _ _ _ _ _ Hnew Hn Hcol)
    as (f2 & sn & lg & Hs & Hit & Hlg).
  exists (Nat.max f1 f2), sn.
  assert (E2 : run_spec_e G DE D w_default tc (Nat.max f1 f2) n st0 = run_spec_e G DE D w_default tc f2 n st0).
  { unfold run_spec_e. eapply exec_e_mono; [reflexivity| |lia].
    eapply seen_of_e_not_oof. exact Hs. }
  rewrite (run_spec_v_mono _ _ _ _ Hv (Nat.max f1 f2) ltac:(lia)).
  split; [rewrite E2, Hlg; exact Hs|]. split; [exact Hit|].
  split; [rewrite <- (run_spec_v_mono _ _ _ _ Hv (Nat.max f1 f2) ltac:(lia)); apply run_spec_v_is_run_spec_e|].
  split; [exact Hv|].
  unfold vars_trace. rewrite map_length.
  rewrite <- (map_length (step_item DE)), (steps_e_items G DE D w_default tc), Hcol. reflexivity.
Qed.

(* ... item by item: the k-th step of the run yields the k-th item and leaves the k-th tag *)
Corollary vars_after_kth_item : forall fuel n st0 items st',
  try_new = NewOk st0 -> n >= 1 ->
  collect_e fuel n st0 = (items, Some st') ->
  exists fuel' tags,
    vars_of (run_spec_v fuel' n st0) = Some tags /\
    forall k s, nth_error (steps_e fuel n st0) k = Some s ->
      nth_error items k = Some (step_item DE s) /\
      nth_error tags k = Some (cvars (i_ctx (step_post DE s))) /\
      (* ... and vars() shows exactly the bindings of that map, innermost winning *)
      forall x, assoc x (ctx_vars (i_ctx (step_post DE s))) = fm_get (cvars (i_ctx (step_post DE s))) x.
Proof.
  intros fuel n st0 items st' Hnew Hn Hcol.
  destruct (vars_agree_with_sequential_reading _ _ _ _ _ Hnew Hn Hcol) as [f1 Hv].
  exists f1, (vars_trace fuel n st0). split; [exact Hv|]. intros k s Hk.
  split.
  { pose proof (steps_e_items G DE D w_default tc fuel n st0) as Hi. rewrite Hcol in Hi. cbn [fst] in Hi.
    rewrite <- Hi. apply map_nth_error. exact Hk. }
  split; [unfold vars_trace; apply (map_nth_error (fun s => cvars (i_ctx (step_post DE s)))); exact Hk|].
  pose proof (vars_after_each_item G DE D w_default tc fuel n st0 Hnew) as Hall.
  rewrite Forall_forall in Hall. destruct (Hall s (nth_error_In _ _ Hk)) as [_ [_ [_ Hr]]]. exact Hr.
Qed.

End SEQ.

(* ------------------------------------------------------------------ non-vacuity *)

(* A test with an input B, an output Y and a declared signal v = Y + 1.  The program binds a
   VARIABLE named Y (= 9), binds t = 5, rebinds t inside a loop (t = i + 7: a new binding in the
   loop's frame, shadowing the outer t), fails in a let after the loop, and sends the variable Y
   as B.  The scripted driver answers call number k with Y = 5 + k. *)
Module Example_vars_run.
  Import Coq.Strings.String.
  Import RunRefine.Example_run.
  Import OutputsRunProof.Example_outputs_run.

  Definition sigs3 := [sA; sB; sY4].
  Definition sc3 (tbl : list (list outval)) : Script.script :=
    {| Script.sc_layout := [2]; Script.sc_table := tbl; Script.sc_echo := false; Script.sc_faults := [] |}.
  Definition tbl_ok : list (list outval) := [[OVal 5%Z]; [OVal 6%Z]; [OVal 7%Z]; [OVal 8%Z]; [OVal 9%Z]].
  (* the answer to call number 2 (the second pass of the loop) is Y = Z *)
  Definition tbl_z : list (list outval) := [[OVal 5%Z]; [OVal 6%Z]; [OZ]; [OVal 8%Z]; [OVal 9%Z]].
  Definition src_vars : string :=
    ("A B Y" ++ nl ++ "declare v = Y + 1;" ++ nl ++ "let Y = 9;" ++ nl ++ "let t = 5;" ++ nl ++
     "loop(i,2)" ++ nl ++ "let t = i+7;" ++ nl ++ "0 (t) X" ++ nl ++ "end loop" ++ nl ++
     "let k = 1/0;" ++ nl ++ "1 (Y) X" ++ nl)%string.
  Definition nT : name := s2n "t".
  Definition nI : name := s2n "i".

  Definition on_run (tbl : list (list outval)) (leaf : testcase -> driver N -> istate -> Prop) : Prop :=
    match Parser.parse (s2n src_vars) with
    | Ok p =>
        match with_signals p sigs3 with
        | Ok tc =>
            let D := Script.script_driver sigs3 (sc3 tbl) in
            match try_new N D tc with
            | NewOk st0 => leaf tc D st0
            | _ => False
            end
        | _ => False
        end
    | _ => False
    end.

  (* what the caller gets and what vars() shows after each item: (inputs A B, outputs Y v) *)
  Definition observed (tbl : list (list outval)) (n : nat)
      (ob : list (short_item * list (name * Z))) : Prop :=
    on_run tbl (fun tc D st0 =>
      map (fun s => (short (step_item N s), ctx_vars (i_ctx (step_post N s))))
          (steps_e G N D false tc 50 n st0) = ob).

  (* - inside the loop vars() shows the inner t (7, 8) and the counter i, and the variable Y;
     - the declared signal v is the DRIVER's Y plus 1 (7 = 6 + 1, 8 = 7 + 1, 9 = 8 + 1): the
       variable Y = 9 is invisible to it, although the row entry (Y) of the last row reads 9;
     - after the loop i is gone and t is 5 again; the failing let binds nothing; the error item
       and None leave the variables as they are *)
  Example vars_through_a_run :
    observed tbl_ok 10
      [ (SRowI [IVal 0; IVal 7] [OVal 6; OVal 7], [(nT, 7%Z); (nI, 0%Z); (nY, 9%Z)]);
        (SRowI [IVal 0; IVal 8] [OVal 7; OVal 8], [(nT, 8%Z); (nI, 1%Z); (nY, 9%Z)]);
        (SErrI (IE_Runtime (RT_Expr XE_DivisionByZero)), [(nT, 5%Z); (nY, 9%Z)]);
        (SRowI [IVal 1; IVal 9] [OVal 8; OVal 9], [(nT, 5%Z); (nY, 9%Z)]);
        (SNoneI, [(nT, 5%Z); (nY, 9%Z)]) ].
  Proof. vm_compute. reflexivity. Qed.

  (* the declared signal reads a Z: the row of the second pass is an error item; the variables
     after it are those of the second pass (t = 8, i = 1): nothing was lost in the swap *)
  Example declared_signal_reads_Z :
    observed tbl_z 10
      [ (SRowI [IVal 0; IVal 7] [OVal 6; OVal 7], [(nT, 7%Z); (nI, 0%Z); (nY, 9%Z)]);
        (SErrI (IE_Runtime (RT_Expr (XE_UnexpectedValueForSignal nY OZ))), [(nT, 8%Z); (nI, 1%Z); (nY, 9%Z)]);
        (SErrI (IE_Runtime (RT_Expr XE_DivisionByZero)), [(nT, 5%Z); (nY, 9%Z)]);
        (SRowI [IVal 1; IVal 9] [OVal 8; OVal 9], [(nT, 5%Z); (nY, 9%Z)]);
        (SNoneI, [(nT, 5%Z); (nY, 9%Z)]) ].
  Proof. vm_compute. reflexivity. Qed.

  (* (4): the tags of the sequential reading are the variable maps of the iterator's run, for
     the whole run and for a budget that ends inside it, with and without the failing answer *)
  Definition reading_agrees (tbl : list (list outval)) (n k : nat) : Prop :=
    on_run tbl (fun tc D st0 =>
      vars_of N (run_spec_v G N D false tc 60 n st0) = Some (vars_trace G N D false tc 50 n st0) /\
      List.length (vars_trace G N D false tc 50 n st0) = k).

  Example reading_agrees_whole_run : reading_agrees tbl_ok 10 5.
  Proof. vm_compute. split; reflexivity. Qed.
  Example reading_agrees_budget_2 : reading_agrees tbl_ok 2 2.
  Proof. vm_compute. split; reflexivity. Qed.
  Example reading_agrees_through_the_Z : reading_agrees tbl_z 10 5.
  Proof. vm_compute. split; reflexivity. Qed.
End Example_vars_run.

(* ------------------------------------------------------------------ delivered *)

Check snext_wf.
Check get_row_wf.
Check inext_wf.
Check try_new_vars_inv.
Check inext_vars_inv.
Check reach_vars_inv.
Check reachable_vars_inv.
Check steps_e_items.
Check steps_e_final.
Check steps_e_head.
Check steps_e_chain.
Check steps_e_inv.
Check vars_after_each_item.
Check vars_after_run.
Check vars_after_run_collect.
Check vars_in_every_reachable_state.
Check vars_in_every_reachable_state_any_fuel.
Check vars_unchanged_by_io_and_errors.
Check vars_unchanged_when_called.
Check no_call_no_io.
Check vars_unchanged_by_io_and_errors_run.
Check calt_empty_in_every_reachable_state.
Check calt_empty_in_every_reachable_state_any_fuel.
Check calt_empty_after_run.
Check expected_entries_sigs.
Check try_new_decl_inv.
Check step_decl_inv.
Check inext_declared_values.
Check declared_values_of_every_row.
Check inext_declared_values_no_random.
Check answer_error_step.
Check declared_failure_is_error_item.
Check declared_ZX_is_error_item.
Check exec_e_proj.
Check run_spec_v_is_run_spec_e.
Check run_spec_v_seen.
Check collect_e_resume_v.
Check vars_agree_with_sequential_reading.
Check vars_and_items_agree_with_sequential_reading.
Check vars_after_kth_item.
Check Example_vars_run.vars_through_a_run.
Check Example_vars_run.declared_signal_reads_Z.
Check Example_vars_run.reading_agrees_whole_run.

Print Assumptions snext_wf.
Print Assumptions inext_wf.
Print Assumptions inext_vars_inv.
Print Assumptions reachable_vars_inv.
Print Assumptions steps_e_chain.
Print Assumptions steps_e_final.
Print Assumptions vars_after_each_item.
Print Assumptions vars_after_run.
Print Assumptions vars_after_run_collect.
Print Assumptions vars_in_every_reachable_state.
Print Assumptions vars_in_every_reachable_state_any_fuel.
Print Assumptions vars_unchanged_by_io_and_errors.
Print Assumptions vars_unchanged_when_called.
Print Assumptions no_call_no_io.
Print Assumptions vars_unchanged_by_io_and_errors_run.
Print Assumptions calt_empty_in_every_reachable_state.
Print Assumptions calt_empty_in_every_reachable_state_any_fuel.
Print Assumptions calt_empty_after_run.
Print Assumptions inext_declared_values.
Print Assumptions declared_values_of_every_row.
Print Assumptions inext_declared_values_no_random.
Print Assumptions declared_failure_is_error_item.
Print Assumptions declared_ZX_is_error_item.
Print Assumptions exec_e_proj.
Print Assumptions run_spec_v_is_run_spec_e.
Print Assumptions vars_agree_with_sequential_reading.
Print Assumptions vars_and_items_agree_with_sequential_reading.
Print Assumptions vars_after_kth_item.
Print Assumptions Example_vars_run.vars_through_a_run.
Print Assumptions Example_vars_run.declared_signal_reads_Z.
Print Assumptions Example_vars_run.reading_agrees_whole_run.
Print Assumptions Example_vars_run.reading_agrees_budget_2.
Print Assumptions Example_vars_run.reading_agrees_through_the_Z.
