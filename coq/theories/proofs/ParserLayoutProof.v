(* Property C20, parser half: layout is irrelevant to the parser.
   The parser looks at the kinds and the texts of the tokens only; spans (and the length of the
   input) are copied into error locations and into the span fields of the three bookkeeping
   lists, nothing else.
     block_layout       running parse_block_loop on two token lists with the same view (kinds
                        and texts) from related states gives the same statements -- line fields
                        included -- and related states, or errors of the same kind, or the same
                        panic / fuel exhaustion
     C20_parse_layout   two texts whose headers declare the same signals and end on the same
                        line, and whose bodies lex to the same view, parse to the same test
   The first is a logical-relations ("parametricity") argument: [prel R m1 m2] says that the
   monadic computations m1, m2 map related states to related outcomes with R-related values;
   there is one rule per primitive and a tactic that walks through two copies of a function
   body in lockstep. *)
From Coq Require Import String Sorted.
From DTR Require Import Prelude Ast FramedMap Lexer Parser.
From DTR.proofs Require Import LexerProof ParserProof ParserLinesProof.
Open Scope N_scope.

(* ================================================================== related tokens and states *)

Definition tok_eqv (t1 t2 : token) : Prop := tkind t1 = tkind t2 /\ ttext t1 = ttext t2.

Lemma view_cons_inv : forall t1 r1 l2, view (t1 :: r1) = view l2 ->
  exists t2 r2, l2 = t2 :: r2 /\ tok_eqv t1 t2 /\ view r1 = view r2.
Proof.
  intros t1 r1 [|t2 r2] H; [discriminate H|]. cbn [view map] in H. injection H as Hk Ht Hr.
  exists t2, r2. split; [reflexivity|]. split; [split; assumption | exact Hr].
Qed.

Lemma view_nil_inv : forall l2, view [] = view l2 -> l2 = [].
Proof. intros [|t2 r2] H; [reflexivity | discriminate H]. Qed.

(* the virtual-signal table without its spans *)
Definition virt_view (l : list (name * (span * expr))) : list (name * expr) :=
  map (fun v => (fst v, snd (snd v))) l.

Definition st_eqv (s1 s2 : pstate) : Prop :=
  view (toks s1) = view (toks s2) /\ pline s1 = pline s2 /\ pvars s1 = pvars s2 /\
  virt_view (pvirtuals s1) = virt_view (pvirtuals s2) /\
  map fst (pexp_inputs s1) = map fst (pexp_inputs s2) /\
  map fst (pexp_outputs s1) = map fst (pexp_outputs s2).

Definition res_eqv {A B} (RA : A -> B -> Prop) (r1 : R perr (A * pstate)) (r2 : R perr (B * pstate)) : Prop :=
  match r1, r2 with
  | Ok (a1, s1), Ok (a2, s2) => RA a1 a2 /\ st_eqv s1 s2
  | Err e1, Err e2 => pe_kind e1 = pe_kind e2
  | Panic n1, Panic n2 => n1 = n2
  | OOF, OOF => True
  | _, _ => False
  end.

Definition prel {A B} (RA : A -> B -> Prop) (m1 : P A) (m2 : P B) : Prop :=
  forall s1 s2, st_eqv s1 s2 -> res_eqv RA (m1 s1) (m2 s2).

Definition any_rel {A B} (_ : A) (_ : B) : Prop := True.

(* ------------------------------------------------------------------ association lists *)

Lemma assoc_mem_fst : forall B (k : name) (l : list (name * B)),
  assoc_mem k l = existsb (fun n => name_eqb n k) (map fst l).
Proof. intros B k l. unfold assoc_mem. induction l as [|e l IH]; simpl; [reflexivity | rewrite IH; reflexivity]. Qed.

Lemma or_insert_fst : forall B C (k : name) (v1 : B) (v2 : C) l1 l2, map fst l1 = map fst l2 ->
  map fst (or_insert k v1 l1) = map fst (or_insert k v2 l2).
Proof.
  intros B C k v1 v2 l1 l2 H. unfold or_insert. rewrite !assoc_mem_fst, H.
  destruct (existsb _ _); [exact H|]. rewrite !map_app, H. reflexivity.
Qed.

Lemma assoc_get_virt : forall nm l1 l2, virt_view l1 = virt_view l2 ->
  match assoc_get nm l1, assoc_get nm l2 with
  | Some _, Some _ | None, None => True
  | _, _ => False
  end.
Proof.
  intros nm l1. unfold assoc_get. induction l1 as [|[n1 [s1 e1]] l1 IH]; intros [|[n2 [s2 e2]] l2] H;
    try discriminate H; [exact I|].
  cbn [virt_view map fst snd] in H. injection H as Hn He Hr. subst n2. cbn [find fst].
  destruct (name_eqb n1 nm); [exact I|]. apply IH. exact Hr.
Qed.

(* ================================================================== rules *)

Section REL.
Variables il1 il2 : N.      (* the lengths of the two inputs *)
Variable hdr : list name.

Lemma prel_ret : forall A B (RA : A -> B -> Prop) a1 a2, RA a1 a2 -> prel RA (ret a1) (ret a2).
Proof. intros A B RA a1 a2 H s1 s2 Hs. split; assumption. Qed.

Lemma prel_bind : forall A1 A2 B1 B2 (RA : A1 -> A2 -> Prop) (RB : B1 -> B2 -> Prop)
  (m1 : P A1) (m2 : P A2) (k1 : A1 -> P B1) (k2 : A2 -> P B2),
  prel RA m1 m2 -> (forall a1 a2, RA a1 a2 -> prel RB (k1 a1) (k2 a2)) ->
  prel RB (bind m1 k1) (bind m2 k2).
Proof.
  intros A1 A2 B1 B2 RA RB m1 m2 k1 k2 Hm Hk s1 s2 Hs. unfold bind. specialize (Hm s1 s2 Hs).
  unfold res_eqv in Hm.
  destruct (m1 s1) as [[a1 s1']| | |]; destruct (m2 s2) as [[a2 s2']| | |]; try contradiction;
    try exact Hm.
  destruct Hm as [Ha Hs']. apply Hk; assumption.
Qed.

Lemma prel_fail : forall A B (RA : A -> B -> Prop) e1 e2, pe_kind e1 = pe_kind e2 ->
  prel RA (fail e1) (fail e2).
Proof. intros A B RA e1 e2 H s1 s2 Hs. exact H. Qed.

Lemma prel_tok_error : forall A B (RA : A -> B -> Prop) t1 t2 k1 k2, k1 = k2 ->
  prel RA (tok_error t1 k1) (tok_error t2 k2).
Proof. intros A B RA t1 t2 k1 k2 H s1 s2 Hs. exact H. Qed.

Lemma prel_ppanic : forall A B (RA : A -> B -> Prop) n, prel RA (ppanic n) (ppanic n).
Proof. intros A B RA n s1 s2 Hs. reflexivity. Qed.

Lemma prel_poof : forall A B (RA : A -> B -> Prop), prel RA poof poof.
Proof. intros A B RA s1 s2 Hs. exact I. Qed.

(* what two related states show at the head of their token lists *)
Lemma heads : forall s1 s2, st_eqv s1 s2 ->
  (toks s1 = [] /\ toks s2 = []) \/
  (exists t1 r1 t2 r2, toks s1 = t1 :: r1 /\ toks s2 = t2 :: r2 /\ tok_eqv t1 t2 /\ view r1 = view r2).
Proof.
  intros s1 s2 [H _]. destruct (toks s1) as [|t1 r1].
  - left. split; [reflexivity | apply view_nil_inv; exact H].
  - right. destruct (view_cons_inv _ _ _ H) as [t2 [r2 [E [Ht Hr]]]]. exists t1, r1, t2, r2. auto.
Qed.

Lemma st_eqv_set_toks : forall s1 s2 r1 r2 l1 l2, st_eqv s1 s2 -> view r1 = view r2 -> l1 = l2 ->
  st_eqv (set_toks s1 r1 l1) (set_toks s2 r2 l2).
Proof. intros s1 s2 r1 r2 l1 l2 (H1 & H2 & H3 & H4 & H5 & H6) Hr Hl. repeat split; assumption. Qed.

Lemma prel_peek : prel eq peek peek.
Proof.
  intros s1 s2 Hs. unfold peek.
  destruct (heads _ _ Hs) as [[-> ->]|[t1 [r1 [t2 [r2 [-> [-> [[Hk _] _]]]]]]]]; [reflexivity|].
  split; assumption.
Qed.

Lemma prel_peek_span : prel any_rel peek_span peek_span.
Proof.
  intros s1 s2 Hs. unfold peek_span.
  destruct (heads _ _ Hs) as [[-> ->]|[t1 [r1 [t2 [r2 [-> [-> _]]]]]]]; [reflexivity|].
  split; [exact I | assumption].
Qed.

Lemma prel_at : forall k, prel eq (at_ k) (at_ k).
Proof.
  intro k. unfold at_. eapply prel_bind; [apply prel_peek|]. intros a1 a2 <-. apply prel_ret. reflexivity.
Qed.

Lemma prel_get : prel tok_eqv (get il1) (get il2).
Proof.
  intros s1 s2 Hs. unfold get. pose proof Hs as (_ & Hl & _).
  destruct (heads _ _ Hs) as [[-> ->]|[t1 [r1 [t2 [r2 [-> [-> [Ht Hr]]]]]]]]; [reflexivity|].
  split; [exact Ht|]. apply st_eqv_set_toks; [exact Hs | exact Hr|].
  destruct Ht as [-> _]. rewrite Hl. reflexivity.
Qed.

Lemma prel_skip : prel eq (skip il1) (skip il2).
Proof.
  intros s1 s2 Hs. unfold skip. pose proof (prel_get s1 s2 Hs) as H. unfold res_eqv in *.
  destruct (get il1 s1) as [[a1 s1']| | |]; destruct (get il2 s2) as [[a2 s2']| | |]; try contradiction;
    try exact H; try reflexivity.
  split; [reflexivity | apply H].
Qed.

Lemma prel_expect : forall k, prel tok_eqv (expect il1 k) (expect il2 k).
Proof.
  intro k. unfold expect. eapply prel_bind; [apply prel_get|]. intros t1 t2 [Hk Ht]. rewrite <- Hk.
  destruct (tk_beq (tkind t1) k).
  - apply prel_ret. split; assumption.
  - apply prel_tok_error. reflexivity.
Qed.

Lemma prel_parse_number : prel eq (parse_number il1) (parse_number il2).
Proof.
  unfold parse_number. eapply prel_bind; [apply prel_get|]. intros t1 t2 [Hk Ht]. rewrite <- Hk, <- Ht.
  destruct (tkind t1); try (apply prel_tok_error; reflexivity);
    match goal with |- context[from_str_radix ?a ?b] => destruct (from_str_radix a b) end;
    first [apply prel_ret; reflexivity | apply prel_tok_error; reflexivity].
Qed.

Lemma prel_get_line : prel eq get_line get_line.
Proof. intros s1 s2 Hs. split; [apply Hs | exact Hs]. Qed.

Lemma prel_get_vars : prel eq get_vars get_vars.
Proof. intros s1 s2 Hs. split; [apply Hs | exact Hs]. Qed.

Lemma prel_put_vars : forall v, prel eq (put_vars v) (put_vars v).
Proof. intros v s1 s2 (H1 & H2 & H3 & H4 & H5 & H6). split; [reflexivity|]. repeat split; assumption. Qed.

Lemma prel_modify_vars : forall f, prel eq (modify_vars f) (modify_vars f).
Proof.
  intros f s1 s2 (H1 & H2 & H3 & H4 & H5 & H6). split; [reflexivity|].
  repeat split; try assumption. cbn [pvars set_vars]. rewrite H3. reflexivity.
Qed.

Lemma prel_note_read_output : forall x sp1 sp2, prel eq (note_read_output x sp1) (note_read_output x sp2).
Proof.
  intros x sp1 sp2 s1 s2 Hs. pose proof Hs as (H1 & H2 & H3 & H4 & H5 & H6).
  unfold note_read_output. rewrite H3.
  destruct (fs_contains (pvars s2) x); (split; [reflexivity|]); [exact Hs|].
  repeat split; try assumption. cbn [pexp_outputs]. apply or_insert_fst. exact H6.
Qed.

Lemma prel_note_expected_input : forall x sp1 sp2,
  prel eq (note_expected_input x sp1) (note_expected_input x sp2).
Proof.
  intros x sp1 sp2 s1 s2 (H1 & H2 & H3 & H4 & H5 & H6). split; [reflexivity|].
  repeat split; try assumption. cbn [pexp_inputs]. apply or_insert_fst. exact H5.
Qed.

Lemma prel_add_virtual : forall nm sp1 sp2 e, prel eq (add_virtual nm sp1 e) (add_virtual nm sp2 e).
Proof.
  intros nm sp1 sp2 e s1 s2 (H1 & H2 & H3 & H4 & H5 & H6). unfold add_virtual.
  pose proof (assoc_get_virt nm _ _ H4) as Hg.
  destruct (assoc_get nm (pvirtuals s1)) as [[p1 e1]|]; destruct (assoc_get nm (pvirtuals s2)) as [[p2 e2]|];
    try contradiction; [reflexivity|].
  split; [reflexivity|]. repeat split; try assumption. cbn [pvirtuals].
  unfold virt_view in *. rewrite !map_app, H4. reflexivity.
Qed.

(* ------------------------------------------------------------------ walking two bodies in lockstep *)

(* make the right-hand copy mention the left-hand values wherever they are known to agree *)
Ltac p_norm :=
  cbv beta zeta;
  repeat match goal with
  | H : tok_eqv _ _ |- _ => destruct H
  | H : any_rel _ _ |- _ => clear H
  | H : tkind ?a = tkind ?b |- context[tkind ?b] => rewrite <- H
  | H : ttext ?a = ttext ?b |- context[ttext ?b] => rewrite <- H
  end;
  cbn [tk_beq is_binary_op is_row_start binop_of_token unop_of_token fst snd].

Ltac p_prim :=
  first [ apply prel_peek | apply prel_peek_span | apply prel_at | apply prel_get | apply prel_skip
        | apply prel_expect | apply prel_parse_number | apply prel_get_line | apply prel_get_vars
        | apply prel_put_vars | apply prel_modify_vars | apply prel_note_read_output
        | apply prel_note_expected_input | apply prel_add_virtual
        | apply prel_poof | apply prel_ppanic
        | apply prel_tok_error; reflexivity
        | apply prel_fail; reflexivity
        | apply prel_ret; first [reflexivity | exact I] ].

Ltac p_step :=
  lazymatch goal with
  | |- prel _ (bind _ _) (bind _ _) =>
      eapply prel_bind;
      [ solve [repeat p_step]
      | let a1 := fresh "a" in let a2 := fresh "b" in let Ha := fresh "Ha" in
        intros a1 a2 Ha; cbv beta in Ha;
        lazymatch type of Ha with
        | _ = _ => subst a2
        | _ => idtac
        end; p_norm ]
  | |- prel _ (if tk_beq (tkind ?t) ?k then _ else _) _ => destruct (tk_beq (tkind t) k); p_norm
  | |- prel _ (match ?x with _ => _ end) _ =>
      lazymatch x with
      | context[tkind ?t] => destruct (tkind t)
      | _ => destruct x
      end; p_norm
  | |- prel _ _ _ => first [ p_prim | match goal with H : _ |- _ => apply H end ]
  end.

Ltac p_go := p_norm; repeat p_step.

Lemma prel_expr : forall fuel,
  prel eq (parse_expr il1 fuel) (parse_expr il2 fuel) /\
  (forall tree, prel eq (parse_expr_loop il1 fuel tree) (parse_expr_loop il2 fuel tree)) /\
  prel eq (parse_factor il1 fuel) (parse_factor il2 fuel) /\
  (forall acc, prel eq (parse_args il1 fuel acc) (parse_args il2 fuel acc)).
Proof.
  induction fuel as [|f [IHe [IHl [IHf IHa]]]].
  - repeat split; intros; apply prel_poof.
  - split; [|split; [|split]].
    + rewrite !parse_expr_S. p_go.
    + intro tree. rewrite !parse_expr_loop_S. p_go.
    + rewrite !parse_factor_S. p_go.
    + intro acc. rewrite !parse_args_S. p_go.
Qed.

Lemma prel_row : forall fuel data idx,
  prel eq (parse_row_loop il1 hdr fuel data idx) (parse_row_loop il2 hdr fuel data idx).
Proof.
  induction fuel as [|f IH]; intros data idx; [apply prel_poof|].
  pose proof (proj1 (prel_expr f)) as He.
  rewrite !parse_row_loop_S. p_go.
Qed.

Lemma prel_data_row : forall f, prel eq (parse_data_row il1 hdr f) (parse_data_row il2 hdr f).
Proof.
  intro f. pose proof (prel_row f) as Hr. rewrite !parse_data_row_eq. p_go.
Qed.

Lemma prel_block : forall fuel end_token block,
  prel eq (parse_block_loop il1 hdr fuel end_token block) (parse_block_loop il2 hdr fuel end_token block).
Proof.
  induction fuel as [|f IH]; intros end_token block; [apply prel_poof|].
  pose proof (proj1 (prel_expr f)) as He. pose proof (prel_data_row f) as Hd.
  rewrite !parse_block_loop_S. unfold block_arm, block_post. p_go.
Qed.

End REL.

(* the statement for token lists, unfolded *)
Theorem block_layout : forall il1 il2 hdr fuel end_token block st1 st2, st_eqv st1 st2 ->
  res_eqv eq (parse_block_loop il1 hdr fuel end_token block st1)
             (parse_block_loop il2 hdr fuel end_token block st2).
Proof. intros. apply prel_block. assumption. Qed.

(* ================================================================== the final sort is the identity *)

(* Parser::finish sorts the three bookkeeping lists by the start of the recorded span.  Every
   entry is recorded from a token that stands later in the token list than the tokens of all
   entries recorded before it (or_insert and add_virtual only append), and span starts do not
   decrease along the token list.  So the lists are sorted when the sort begins, and a stable
   sort leaves them alone. *)

Section SORT_ID.
Context {A : Type} (key : A -> N).

Definition sorted_by (l : list A) : Prop := StronglySorted (fun a b => key a <= key b) l.

Lemma insert_sorted_last : forall x acc, Forall (fun y => key y <= key x) acc ->
  insert_sorted key x acc = acc ++ [x].
Proof.
  intros x acc H. induction H as [|y acc Hy H IH]; [reflexivity|].
  cbn [insert_sorted app]. apply N.leb_le in Hy. rewrite Hy, IH. reflexivity.
Qed.

Lemma sorted_app_inv : forall a x r, sorted_by (a ++ x :: r) -> Forall (fun y => key y <= key x) a.
Proof.
  induction a as [|y a IH]; intros x r H; [constructor|].
  cbn [app] in H. inversion H as [|? ? Hs Hall]; subst. constructor; [|eapply IH; exact Hs].
  rewrite Forall_forall in Hall. apply Hall. apply in_or_app. right. left. reflexivity.
Qed.

Lemma sort_by_key_sorted : forall l, sorted_by l -> sort_by_key key l = l.
Proof.
  intros l H. unfold sort_by_key.
  assert (G : forall l acc, sorted_by (acc ++ l) ->
                fold_left (fun acc x => insert_sorted key x acc) l acc = acc ++ l).
  { clear l H. induction l as [|x r IH]; intros acc H; cbn [fold_left]; [rewrite app_nil_r; reflexivity|].
    rewrite (insert_sorted_last x acc (sorted_app_inv _ _ _ H)).
    rewrite IH; rewrite <- app_assoc; [reflexivity | exact H]. }
  apply (G l []). exact H.
Qed.

Lemma sorted_snoc : forall l x, sorted_by l -> Forall (fun y => key y <= key x) l -> sorted_by (l ++ [x]).
Proof.
  intros l x H Hx. induction H as [|y l Hs IH Hall]; cbn [app]; [repeat constructor|].
  inversion Hx; subst. constructor; [apply IH; assumption|].
  apply Forall_app. split; [exact Hall | constructor; [assumption | constructor]].
Qed.
End SORT_ID.

Local Open Scope nat_scope.

Section ORDER.
Variable all : list token.
Variable input_len : N.
Variable hdr : list name.
(* span starts do not decrease along the token list *)
Hypothesis starts_mono : forall i j ti tj, i <= j -> nth_error all i = Some ti -> nth_error all j = Some tj ->
  (fst (tspan ti) <= fst (tspan tj))%N.

Definition kv (v : name * (span * expr)) : N := fst (fst (snd v)).
Definition ki (v : name * span) : N := fst (snd v).

(* k is at most the span start of every token from position p on *)
Definition start_le (k : N) (p : nat) : Prop :=
  forall i t, p <= i -> nth_error all i = Some t -> (k <= fst (tspan t))%N.

Lemma start_le_mono : forall k p p', start_le k p -> p <= p' -> start_le k p'.
Proof. intros k p p' H Hle i t Hi Ht. apply (H i t); [lia | exact Ht]. Qed.

Lemma start_le_tok : forall i t, nth_error all i = Some t -> start_le (fst (tspan t)) i.
Proof. intros i t Ht j tj Hj Htj. eapply starts_mono; eassumption. Qed.

(* the tokens left are those from position n on; the virtual signals were recorded from tokens
   at positions up to pv, the expected inputs and read outputs from positions up to pb *)
Definition sinv (n pv pb : nat) (st : pstate) : Prop :=
  toks st = skipn n all /\ pv <= n /\ pb <= n /\
  Forall (fun v => start_le (kv v) pv) (pvirtuals st) /\
  Forall (fun v => start_le (ki v) pb) (pexp_inputs st) /\
  Forall (fun v => start_le (ki v) pb) (pexp_outputs st) /\
  sorted_by kv (pvirtuals st) /\ sorted_by ki (pexp_inputs st) /\ sorted_by ki (pexp_outputs st).

Lemma sinv_le1 : forall n pv pb st, sinv n pv pb st -> pv <= n.
Proof. intros n pv pb st H. apply H. Qed.
Lemma sinv_le2 : forall n pv pb st, sinv n pv pb st -> pb <= n.
Proof. intros n pv pb st H. apply H. Qed.

Lemma sinv_head : forall n pv pb st t r, sinv n pv pb st -> toks st = t :: r -> nth_error all n = Some t.
Proof.
  intros n pv pb st t r [H1 _] Ht. rewrite H1 in Ht.
  clear - Ht. revert n Ht. induction all as [|x l IH]; intros n Ht; [destruct n; discriminate Ht|].
  destruct n as [|n]; [cbn in Ht; injection Ht as <- _; reflexivity | apply IH; exact Ht].
Qed.

Lemma skipn_S_tail : forall A (l : list A) n t r, skipn n l = t :: r -> skipn (S n) l = r.
Proof.
  induction l as [|x l IH]; intros n t r H; [destruct n; discriminate H|].
  destruct n as [|n]; [cbn in H; injection H as _ <-; reflexivity | apply (IH n t r); exact H].
Qed.

Lemma sinv_step : forall n pv pb st t r ln, sinv n pv pb st -> toks st = t :: r ->
  sinv (S n) pv pb (set_toks st r ln).
Proof.
  intros n pv pb st t r ln (H1 & H2 & H3 & H4) Ht. rewrite H1 in Ht. apply skipn_S_tail in Ht.
  split; [symmetry; exact Ht|]. split; [lia|]. split; [lia|]. exact H4.
Qed.

Lemma Forall_start_le_mono : forall A (key : A -> N) p p' (l : list A),
  Forall (fun v => start_le (key v) p) l -> p <= p' -> Forall (fun v => start_le (key v) p') l.
Proof.
  intros A key p p' l H Hle. eapply Forall_impl; [|exact H].
  intros v Hv. cbv beta in Hv. exact (start_le_mono _ _ _ Hv Hle).
Qed.

(* or_insert with a span that starts where the token at position i starts *)
Lemma or_insert_ok : forall (x : name) (sp : span) i t pb l,
  nth_error all i = Some t -> fst sp = fst (tspan t) -> pb <= i ->
  Forall (fun v => start_le (ki v) pb) l -> sorted_by ki l ->
  Forall (fun v => start_le (ki v) i) (or_insert x sp l) /\ sorted_by ki (or_insert x sp l).
Proof.
  intros x sp i t pb l Ht Hsp Hle Hall Hs. unfold or_insert. destruct (assoc_mem x l).
  - split; [eapply Forall_start_le_mono; eassumption | exact Hs].
  - split.
    + apply Forall_app. split; [eapply Forall_start_le_mono; eassumption|].
      constructor; [|constructor]. unfold ki. cbn [snd]. rewrite Hsp. apply start_le_tok. exact Ht.
    + apply sorted_snoc; [exact Hs|]. eapply Forall_impl; [|exact Hall].
      intros v Hv. cbv beta in Hv. unfold ki at 2. cbn [snd]. rewrite Hsp. apply (Hv i t); [exact Hle | exact Ht].
Qed.

(* ------------------------------------------------------------------ rules for the primitives *)

Notation wps := (wp True True no_claim).

Lemma wps_peek : forall (Q : tk -> pstate -> Prop) n pv pb st, sinv n pv pb st ->
  (forall t, nth_error all n = Some t -> Q (tkind t) st) -> wps peek Q st.
Proof.
  unfold wp, peek. intros Q n pv pb st Hl HQ. destruct (toks st) as [|t r] eqn:E; [exact I|].
  apply HQ. eapply sinv_head; eassumption.
Qed.

Lemma wps_peek_span : forall (Q : span -> pstate -> Prop) n pv pb st, sinv n pv pb st ->
  (forall t, nth_error all n = Some t -> Q (tspan t) st) -> wps peek_span Q st.
Proof.
  unfold wp, peek_span. intros Q n pv pb st Hl HQ. destruct (toks st) as [|t r] eqn:E; [exact I|].
  apply HQ. eapply sinv_head; eassumption.
Qed.

Lemma wps_at : forall k (Q : bool -> pstate -> Prop) n pv pb st, sinv n pv pb st ->
  (forall t, nth_error all n = Some t -> Q (tk_beq (tkind t) k) st) -> wps (at_ k) Q st.
Proof.
  unfold wp, at_, bind, peek, ret. intros k Q n pv pb st Hl HQ.
  destruct (toks st) as [|t r] eqn:E; [exact I|]. apply HQ. eapply sinv_head; eassumption.
Qed.

Lemma wps_get : forall (Q : token -> pstate -> Prop) n pv pb st, sinv n pv pb st ->
  (forall t st', nth_error all n = Some t -> sinv (S n) pv pb st' -> Q t st') ->
  wps (get input_len) Q st.
Proof.
  unfold wp, get. intros Q n pv pb st Hl HQ. destruct (toks st) as [|t r] eqn:E; [exact I|].
  apply HQ; [eapply sinv_head; eassumption | eapply sinv_step; eassumption].
Qed.

Lemma wps_skip : forall (Q : unit -> pstate -> Prop) n pv pb st, sinv n pv pb st ->
  (forall t st', nth_error all n = Some t -> sinv (S n) pv pb st' -> Q tt st') ->
  wps (skip input_len) Q st.
Proof.
  intros Q n pv pb st Hl HQ. pose proof (wps_get (fun t st' => Q tt st') n pv pb st Hl HQ) as H.
  unfold wp, skip in *. destruct (get input_len st) as [[a st']| | |]; auto.
Qed.

Lemma wps_expect : forall k (Q : token -> pstate -> Prop) n pv pb st, sinv n pv pb st ->
  (forall t st', nth_error all n = Some t -> tkind t = k -> sinv (S n) pv pb st' -> Q t st') ->
  wps (expect input_len k) Q st.
Proof.
  intros k Q n pv pb st Hl HQ. unfold expect. apply wp_bind. eapply wps_get; [exact Hl|].
  intros t st' Hn Hl'. destruct (tk_beq (tkind t) k) eqn:E; [|exact I].
  apply wp_ret. apply HQ; try assumption. apply tk_beq_true. exact E.
Qed.

Lemma wps_parse_number : forall (Q : Z -> pstate -> Prop) n pv pb st, sinv n pv pb st ->
  (forall t st' z, nth_error all n = Some t -> sinv (S n) pv pb st' -> Q z st') ->
  wps (parse_number input_len) Q st.
Proof.
  intros Q n pv pb st Hl HQ. unfold parse_number. apply wp_bind. eapply wps_get; [exact Hl|].
  intros t st' Hn Hl'.
  destruct (tkind t) eqn:Hk; try exact I;
    match goal with |- context[from_str_radix ?a ?b] => destruct (from_str_radix a b) end;
    try exact I; apply wp_ret; eapply HQ; eassumption.
Qed.

Lemma wps_put_vars : forall v (Q : unit -> pstate -> Prop) n pv pb st, sinv n pv pb st ->
  (forall st', sinv n pv pb st' -> Q tt st') -> wps (put_vars v) Q st.
Proof. intros v Q n pv pb st H HQ. apply HQ. exact H. Qed.

Lemma wps_modify_vars : forall f (Q : unit -> pstate -> Prop) n pv pb st, sinv n pv pb st ->
  (forall st', sinv n pv pb st' -> Q tt st') -> wps (modify_vars f) Q st.
Proof. intros f Q n pv pb st H HQ. apply HQ. exact H. Qed.

Lemma sinv_raise : forall n pv pb pb' st, sinv n pv pb st -> pb <= pb' -> pb' <= n -> sinv n pv pb' st.
Proof.
  intros n pv pb pb' st (H1 & H2 & H3 & H4 & H5 & H6 & H7) Hle Hn.
  split; [exact H1|]. split; [exact H2|]. split; [exact Hn|]. split; [exact H4|].
  split; [eapply Forall_start_le_mono; eassumption|]. split; [eapply Forall_start_le_mono; eassumption|].
  exact H7.
Qed.

Lemma wps_note_read_output : forall x t i (Q : unit -> pstate -> Prop) n pv pb st, sinv n pv pb st ->
  nth_error all i = Some t -> pb <= i -> i <= n ->
  (forall st', sinv n pv i st' -> Q tt st') -> wps (note_read_output x (tspan t)) Q st.
Proof.
  intros x t i Q n pv pb st H Ht Hle Hn HQ. unfold wp, note_read_output.
  destruct (fs_contains (pvars st) x); apply HQ; [eapply sinv_raise; eassumption|].
  destruct H as (H1 & H2 & H3 & H4 & H5 & H6 & H7 & H8 & H9).
  destruct (or_insert_ok x (tspan t) i t pb _ Ht eq_refl Hle H6 H9) as [G1 G2].
  split; [exact H1|]. split; [exact H2|]. split; [exact Hn|]. split; [exact H4|].
  split; [eapply Forall_start_le_mono; eassumption|]. split; [exact G1|].
  split; [exact H7|]. split; [exact H8 | exact G2].
Qed.

Lemma wps_note_expected_input : forall x t i (Q : unit -> pstate -> Prop) n pv pb st, sinv n pv pb st ->
  nth_error all i = Some t -> pb <= i -> i <= n ->
  (forall st', sinv n pv i st' -> Q tt st') -> wps (note_expected_input x (tspan t)) Q st.
Proof.
  intros x t i Q n pv pb st H Ht Hle Hn HQ. unfold wp, note_expected_input. apply HQ.
  destruct H as (H1 & H2 & H3 & H4 & H5 & H6 & H7 & H8 & H9).
  destruct (or_insert_ok x (tspan t) i t pb _ Ht eq_refl Hle H5 H8) as [G1 G2].
  split; [exact H1|]. split; [exact H2|]. split; [exact Hn|]. split; [exact H4|].
  split; [exact G1|]. split; [eapply Forall_start_le_mono; eassumption|].
  split; [exact H7|]. split; [exact G2 | exact H9].
Qed.

Lemma wps_add_virtual : forall nm t sp_end e i (Q : unit -> pstate -> Prop) n pv pb st, sinv n pv pb st ->
  nth_error all i = Some t -> pv <= i -> i <= n ->
  (forall st', sinv n i pb st' -> Q tt st') -> wps (add_virtual nm (fst (tspan t), sp_end) e) Q st.
Proof.
  intros nm t sp_end e i Q n pv pb st H Ht Hle Hn HQ. unfold wp, add_virtual.
  destruct (assoc_get nm (pvirtuals st)) as [[ps pe]|]; [exact I|]. apply HQ.
  destruct H as (H1 & H2 & H3 & H4 & H5 & H6 & H7 & H8 & H9).
  split; [exact H1|]. split; [exact Hn|]. split; [exact H3|]. cbn [pvirtuals pexp_inputs pexp_outputs].
  split; [|split; [exact H5|split; [exact H6|split; [|split; [exact H8 | exact H9]]]]].
  - apply Forall_app. split; [eapply Forall_start_le_mono; eassumption|].
    constructor; [|constructor]. unfold kv. cbn [fst snd]. apply start_le_tok. exact Ht.
  - apply sorted_snoc; [exact H7|]. eapply Forall_impl; [|exact H4].
    intros v Hv. cbv beta in Hv. unfold kv at 2. cbn [fst snd]. apply (Hv i t); [exact Hle | exact Ht].
Qed.

(* ------------------------------------------------------------------ the sweep of this pass *)

Ltac s_hook :=
  repeat match goal with
  | H : _ /\ _ |- _ => destruct H
  | H : exists _, _ |- _ => destruct H
  | H1 : nth_error all ?n = Some ?t, H2 : nth_error all ?n = Some ?t' |- _ =>
      rewrite H1 in H2; injection H2 as H2; first [subst t' | subst t | clear H2]
  | H : tk_beq _ _ = true |- _ => apply tk_beq_true in H
  end.

Ltac s_lia :=
  repeat match goal with
  | H : sinv ?n ?pv ?pb _ |- _ =>
      lazymatch goal with
      | _ : pv <= n, _ : pb <= n |- _ => fail
      | _ => pose proof (sinv_le1 _ _ _ _ H); pose proof (sinv_le2 _ _ _ _ H)
      end
  end; lia.

Ltac s_in := intros; s_hook; norm_goal.

Ltac s_step side_pre hook :=
  lazymatch goal with
  | |- wp _ _ _ (bind _ _) _ _ => apply wp_bind
  | |- wp _ _ _ (ret _) _ _ => apply wp_ret; norm_goal
  | |- wp _ _ _ (fail _) _ _ => exact I
  | |- wp _ _ _ (tok_error _ _) _ _ => exact I
  | |- wp _ _ _ (ppanic _) _ _ => exact I
  | |- wp _ _ _ peek _ _ => eapply wps_peek; [ eassumption | s_in ]
  | |- wp _ _ _ peek_span _ _ => eapply wps_peek_span; [ eassumption | s_in ]
  | |- wp _ _ _ (at_ _) _ _ => eapply wps_at; [ eassumption | s_in ]
  | |- wp _ _ _ (get _) _ _ => eapply wps_get; [ eassumption | s_in ]
  | |- wp _ _ _ (skip _) _ _ => eapply wps_skip; [ eassumption | s_in ]
  | |- wp _ _ _ (expect _ _) _ _ => eapply wps_expect; [ eassumption | s_in ]
  | |- wp _ _ _ (parse_number _) _ _ => eapply wps_parse_number; [ eassumption | s_in ]
  | |- wp _ _ _ get_line _ _ => apply wp_get_line; norm_goal
  | |- wp _ _ _ get_vars _ _ => apply wp_get_vars; norm_goal
  | |- wp _ _ _ (put_vars _) _ _ => eapply wps_put_vars; [ eassumption | s_in ]
  | |- wp _ _ _ (modify_vars _) _ _ => eapply wps_modify_vars; [ eassumption | s_in ]
  | |- wp _ _ _ (note_read_output _ _) _ _ =>
      eapply wps_note_read_output; [ eassumption | eassumption | s_lia | s_lia | s_in ]
  | |- wp _ _ _ (note_expected_input _ _) _ _ =>
      eapply wps_note_expected_input; [ eassumption | eassumption | s_lia | s_lia | s_in ]
  | |- wp _ _ _ (add_virtual _ _ _) _ _ =>
      eapply wps_add_virtual; [ eassumption | eassumption | s_lia | s_lia | s_in ]
  | |- wp _ _ _ (if tk_beq (tkind ?t) ?k then _ else _) _ _ =>
      let E := fresh "E" in destruct (tk_beq (tkind t) k) eqn:E; s_hook; norm_goal
  | |- wp _ _ _ (match ?x with _ => _ end) _ _ =>
      lazymatch x with
      | context[tkind ?t] => destruct (tkind t) eqn:?
      | _ => tryif is_var x then destruct x else destruct x eqn:?
      end; s_hook; norm_goal
  | |- wp _ _ _ _ _ _ =>
      eapply wp_conseq; [ find_call side_pre | cbv beta; intros ? ? ?; hook; norm_goal ]
  end.

(* expressions and rows leave the virtual signals alone *)
Definition spost {A} (n pv pb : nat) (_ : A) (st' : pstate) : Prop :=
  exists n' pb', n <= n' /\ pb <= pb' /\ sinv n' pv pb' st'.
(* blocks *)
Definition sbpost {A} (n pv pb : nat) (_ : A) (st' : pstate) : Prop :=
  exists n' pv' pb', n <= n' /\ pv <= pv' /\ pb <= pb' /\ sinv n' pv' pb' st'.

Ltac sp_hook' := repeat match goal with
                        | H : spost _ _ _ _ _ |- _ => unfold spost in H
                        | H : sbpost _ _ _ _ _ |- _ => unfold sbpost in H
                        end; s_hook.
Ltac s_sweep := repeat (s_step eassumption sp_hook'; sp_hook').
Ltac s_fin := unfold spost; do 2 eexists; (split; [|split; [|eassumption]]); s_lia.
Ltac sb_fin := unfold sbpost; do 3 eexists; (split; [|split; [|split; [|eassumption]]]); s_lia.

Lemma expr_so : forall fuel,
  (forall n pv pb st, sinv n pv pb st -> wps (parse_expr input_len fuel) (spost n pv pb) st) /\
  (forall tree n pv pb st, sinv n pv pb st -> wps (parse_expr_loop input_len fuel tree) (spost n pv pb) st) /\
  (forall n pv pb st, sinv n pv pb st -> wps (parse_factor input_len fuel) (spost n pv pb) st) /\
  (forall acc n pv pb st, sinv n pv pb st -> wps (parse_args input_len fuel acc) (spost n pv pb) st).
Proof.
  induction fuel as [|f [IHe [IHl [IHf IHa]]]].
  - repeat split; intros; exact I.
  - split; [|split; [|split]].
    + intros n pv pb st Hl. rewrite parse_expr_S. s_sweep; s_fin.
    + intros tree n pv pb st Hl. rewrite parse_expr_loop_S. s_sweep; s_fin.
    + intros n pv pb st Hl. rewrite parse_factor_S. s_sweep; s_fin.
    + intros acc n pv pb st Hl. rewrite parse_args_S. s_sweep; s_fin.
Qed.

Lemma row_so : forall fuel data idx n pv pb st, sinv n pv pb st ->
  wps (parse_row_loop input_len hdr fuel data idx) (spost n pv pb) st.
Proof.
  induction fuel as [|f IH]; intros data idx n pv pb st Hl; [exact I|].
  pose proof (proj1 (expr_so f)) as He.
  rewrite parse_row_loop_S. s_sweep; s_fin.
Qed.

Lemma data_row_so : forall f n pv pb st, sinv n pv pb st ->
  wps (parse_data_row input_len hdr f) (spost n pv pb) st.
Proof.
  intros f n pv pb st Hl. pose proof (row_so f) as Hr.
  rewrite parse_data_row_eq. s_sweep; s_fin.
Qed.

Lemma block_so : forall fuel end_token block n pv pb st, sinv n pv pb st ->
  wps (parse_block_loop input_len hdr fuel end_token block) (sbpost n pv pb) st.
Proof.
  induction fuel as [|f IH]; intros end_token block n pv pb st Hl; [exact I|].
  pose proof (proj1 (expr_so f)) as He. pose proof (data_row_so f) as Hd.
  rewrite parse_block_loop_S. unfold block_arm, block_post. s_sweep; sb_fin.
Qed.

End ORDER.

Local Close Scope nat_scope.

(* the bookkeeping lists of a successful run over a lexed token list are sorted *)
Lemma lexed_starts_mono : forall pos s ts, lex_body pos s = Some ts ->
  forall i j ti tj, (i <= j)%nat -> nth_error ts i = Some ti -> nth_error ts j = Some tj ->
  fst (tspan ti) <= fst (tspan tj).
Proof.
  intros pos s ts H i j ti tj Hle Hi Hj.
  destruct (Nat.eq_dec i j) as [->|Hne].
  - rewrite Hi in Hj. injection Hj as <-. apply N.le_refl.
  - destruct (nth_error_two_split _ _ _ _ _ _ Hi Hj ltac:(lia)) as [pre [mid [post Hts]]].
    pose proof (lex_body_spans_ordered _ _ _ H _ _ _ _ _ Hts) as Ho.
    pose proof (lex_body_span_bounds _ _ _ ti H (nth_error_In _ _ Hi)) as [_ [Hb _]]. lia.
Qed.

Theorem block_lists_sorted : forall pos s ts input_len hdr fuel end_token block line vars stmts st',
  lex_body pos s = Some ts ->
  parse_block_loop input_len hdr fuel end_token block
    {| toks := ts; pline := line; pvars := vars; pvirtuals := []; pexp_inputs := []; pexp_outputs := [] |}
    = Ok (stmts, st') ->
  sorted_by kv (pvirtuals st') /\ sorted_by ki (pexp_inputs st') /\ sorted_by ki (pexp_outputs st').
Proof.
  intros pos s ts input_len hdr fuel end_token block line vars stmts st' Hlex H.
  match type of H with parse_block_loop _ _ _ _ _ ?st = _ =>
    assert (Hinv : sinv ts 0 0 0 st) by (repeat split; try constructor; lia);
    pose proof (block_so ts input_len hdr (lexed_starts_mono _ _ _ Hlex) fuel end_token block 0 0 0 st Hinv) as Hw
  end.
  unfold wp in Hw. rewrite H in Hw. destruct Hw as (n' & pv' & pb' & _ & _ & _ & Hs).
  destruct Hs as (_ & _ & _ & _ & _ & _ & H7 & H8 & H9). auto.
Qed.

(* ================================================================== C20 for whole texts *)

Lemma view_length : forall ts1 ts2, view ts1 = view ts2 -> length ts1 = length ts2.
Proof. intros ts1 ts2 H. apply (f_equal (@length _)) in H. unfold view in H. rewrite !map_length in H. exact H. Qed.

Theorem C20_parse_layout : forall s1 s2 h1 h2, parse_header s1 = Ok h1 -> parse_header s2 = Ok h2 ->
  h_names h1 = h_names h2 -> h_line h1 = h_line h2 -> lex_view (h_rest h1) = lex_view (h_rest h2) ->
  match parse s1, parse s2 with
  | Ok p1, Ok p2 =>
      p_stmts p1 = p_stmts p2 /\ p_signals p1 = p_signals p2 /\
      map fst (p_expected_inputs p1) = map fst (p_expected_inputs p2) /\
      map fst (p_read_outputs p1) = map fst (p_read_outputs p2) /\
      map (fun v => fst v) (p_virtuals p1) = map (fun v => fst v) (p_virtuals p2)
  | Err e1, Err e2 => pe_kind e1 = pe_kind e2
  | _, _ => False
  end.
Proof.
  intros s1 s2 h1 h2 Eh1 Eh2 Hn Hl Hv.
  pose proof (parse_never_panics s1) as Np1. pose proof (parse_never_panics s2) as Np2.
  pose proof (parse_never_oof s1) as No1. pose proof (parse_never_oof s2) as No2.
  unfold parse in *. rewrite Eh1, Eh2 in *.
  destruct (lex_body (h_pos h1) (h_rest h1)) as [ts1|] eqn:El1; [|congruence].
  destruct (lex_body (h_pos h2) (h_rest h2)) as [ts2|] eqn:El2; [|congruence].
  assert (Hview : view ts1 = view ts2).
  { rewrite (lex_view_spec _ _ _ El1), (lex_view_spec _ _ _ El2). exact Hv. }
  rewrite <- (view_length _ _ Hview), <- Hn, <- Hl in *.
  match goal with |- context[parse_block_loop ?a1 ?b ?c ?d ?e ?st1] =>
    match goal with |- context[parse_block_loop (text_bytes s2) b c d e ?st2] =>
      assert (Hst : st_eqv st1 st2) by (repeat split; exact Hview);
      pose proof (block_layout a1 (text_bytes s2) b c d e st1 st2 Hst) as Hrel;
      pose proof (block_lists_sorted (h_pos h1) (h_rest h1) ts1 a1 b c d e (h_line h1) fm_new) as Hs1;
      pose proof (block_lists_sorted (h_pos h2) (h_rest h2) ts2 (text_bytes s2) b c d e (h_line h1) fm_new) as Hs2;
      specialize (fun stmts st' => Hs1 stmts st' El1); specialize (fun stmts st' => Hs2 stmts st' El2);
      destruct (parse_block_loop a1 b c d e st1) as [[stmts1 st1']| | |];
      destruct (parse_block_loop (text_bytes s2) b c d e st2) as [[stmts2 st2']| | |]
    end
  end; cbn [res_eqv] in Hrel; try contradiction; try exact Hrel; try congruence.
  destruct Hrel as [<- (_ & _ & _ & Hvv & Hii & Hoo)].
  destruct (Hs1 _ _ eq_refl) as (A1 & A2 & A3). destruct (Hs2 _ _ eq_refl) as (B1 & B2 & B3).
  cbn [p_stmts p_signals p_expected_inputs p_read_outputs p_virtuals].
  fold kv ki. rewrite !sort_by_key_sorted by assumption.
  split; [reflexivity|]. split; [reflexivity|]. split; [exact Hii|]. split; [exact Hoo|].
  rewrite !map_map. cbn [fst]. exact Hvv.
Qed.

Print Assumptions block_layout.
Print Assumptions block_lists_sorted.
Print Assumptions C20_parse_layout.
