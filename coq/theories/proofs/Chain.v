(* End-to-end compositions: from source text to a run that never panics (C09 + C11 + C10). *)
From DTR Require Import Prelude I64 Ast FramedMap Lexer Parser Bind Eval Stmt Iter WfSpec.
From DTR.proofs Require Import ParserProof BindProof NoPanicProof.
Local Open Scope nat_scope.

(* any text that parses, bound to any signal list that binding accepts (virtual signals supplied
   by the caller well-formed - the public API cannot build others), against ANY driver, ANY
   generator, with or without an overridden write_input, for ANY number of next() calls: no panic *)
Theorem accepted_test_never_panics : forall s p sigs0 tc,
  parse s = Ok p -> wf_signals sigs0 -> with_signals p sigs0 = Ok tc ->
  forall G DE (D : driver DE) w_default,
    (forall site, try_new DE D tc <> NewPanic DE site) /\
    (forall st0, try_new DE D tc = NewOk DE st0 ->
       forall fuels : list nat, ~ run_panics tc G DE D w_default fuels st0).
Proof.
  intros s p sigs0 tc Hp Hs Hb G DE D w.
  assert (Hwf : wf_tc tc (length (p_signals p))).
  { eapply C11_bound_is_wf; eauto. eapply parse_wf; eauto. }
  split.
  - intros site. eapply try_new_no_panic; eauto.
  - intros st0 Hn fuels. eapply C10_run_never_panics; eauto.
Qed.

(* ... and for a caller that keeps calling next() after ERROR items of every kind (driver errors, deviating
   answers, failing virtual signals, evaluation errors of the program itself) and after None *)
Theorem accepted_test_never_panics_through_errors : forall s p sigs0 tc,
  parse s = Ok p -> wf_signals sigs0 -> with_signals p sigs0 = Ok tc ->
  forall G DE (D : driver DE) w_default st0, try_new DE D tc = NewOk DE st0 ->
  forall fuels : list nat, ~ run_panics_e tc G DE D w_default fuels st0.
Proof.
  intros s p sigs0 tc Hp Hs Hb G DE D w st0 Hn fuels.
  assert (Hwf : wf_tc tc (length (p_signals p))).
  { eapply C11_bound_is_wf; eauto. eapply parse_wf; eauto. }
  eapply run_through_errors_never_panics; eauto.
Qed.

(* also after next() has returned None, and with any fuel at each call *)
Theorem accepted_test_reachable_never_panics : forall s p sigs0 tc,
  parse s = Ok p -> wf_signals sigs0 -> with_signals p sigs0 = Ok tc ->
  forall G DE (D : driver DE) w_default st0, try_new DE D tc = NewOk DE st0 ->
  forall st, reachable tc G DE D w_default st0 st ->
  forall fuel site, inext G DE D w_default tc fuel st <> ItPanic DE site.
Proof.
  intros s p sigs0 tc Hp Hs Hb G DE D w st0 Hn st Hr fuel site.
  eapply C10_reachable_never_panics; eauto.
  eapply C11_bound_is_wf; eauto. eapply parse_wf; eauto.
Qed.

(* parsing + binding themselves: a test or an error, never a panic, never out of fuel *)
Theorem load_is_total : forall s,
  (forall site, parse s <> Panic site) /\ parse s <> OOF /\
  (forall p sigs0, (forall site, with_signals p sigs0 <> Panic site) /\ with_signals p sigs0 <> OOF).
Proof.
  intros s. split; [intros; apply parse_never_panics|]. split; [apply parse_never_oof|].
  intros p sigs0. split; [intros; apply C11_bind_never_panics | apply C11_bind_never_oof].
Qed.
