(* Property C12: malformed programs are rejected, never silently accepted.
   Part 1 sweeps the parser once more (ParserProof's calculus) with the invariant "the tokens
   consumed so far are derivable in the nonterminal of the running function" and concludes that
   an accepted text is a program of Grammar.v.  Part 2 derives from the grammar alone what such
   a program can never be. *)
From Coq Require Import String.
From DTR Require Import Prelude Ast FramedMap Lexer Eval WfSpec Parser.
From DTR Require Import RadixProof LexerProof ParserProof Grammar.
Open Scope N_scope.

(* ================================================================== tokens as (kind, text) *)

Definition tv (t : token) : tok := (tkind t, ttext t).

Lemma view_nil : view [] = [].
Proof. reflexivity. Qed.
Lemma view_cons : forall t l, view (t :: l) = tv t :: view l.
Proof. reflexivity. Qed.
Lemma view_app : forall a b, view (a ++ b) = view a ++ view b.
Proof. intros. unfold view. apply map_app. Qed.
Lemma tv_kind : forall t k, tkind t = k -> tv t = (k, ttext t).
Proof. intros t k H. unfold tv. rewrite H. reflexivity. Qed.

Lemma number_value_literal : forall t, number_value (tv t) = literal_value t.
Proof. reflexivity. Qed.

(* the rule for parse_number that remembers the value *)
Lemma wp_parse_number_val : forall input_len (Q : Z -> pstate -> Prop) st,
  (forall t r ln n, toks st = t :: r -> number_value (tv t) = Some n -> Q n (set_toks st r ln)) ->
  wp True True no_claim (parse_number input_len) Q st.
Proof.
  intros input_len Q st H. unfold wp.
  destruct (toks st) as [|t r] eqn:Ht.
  - rewrite (parse_number_eof _ _ Ht). exact I.
  - destruct (is_number_kind (tkind t)) eqn:Hk.
    + rewrite (parse_number_literal_value _ _ _ _ Ht Hk).
      destruct (literal_value t) as [n|] eqn:Hv; [|exact I].
      apply (H t r (pline st) n); [reflexivity | rewrite number_value_literal; exact Hv].
    + rewrite (parse_number_not_a_number _ _ _ _ Ht Hk). exact I.
Qed.

(* ================================================================== derived productions *)

Lemma loop_step : forall k x f l2,
  is_binary_op k = true -> G_factor f -> (forall e, G_expr e -> G_expr (e ++ l2)) ->
  forall e, G_expr e -> G_expr (e ++ (k, x) :: f ++ l2).
Proof.
  intros k x f l2 Hk Hf Hl e He.
  replace (e ++ (k, x) :: f ++ l2) with ((e ++ (k, x) :: f) ++ l2)
    by (rewrite <- app_assoc; reflexivity).
  apply Hl. apply E_binop; assumption.
Qed.

Lemma loop_done : forall e, G_expr e -> G_expr (e ++ []).
Proof. intros e He. rewrite app_nil_r. exact He. Qed.

Lemma expr_of_factor_loop : forall f l,
  G_factor f -> (forall e, G_expr e -> G_expr (e ++ l)) -> G_expr (f ++ l).
Proof. intros f l Hf Hl. apply Hl. apply E_factor. exact Hf. Qed.

Lemma G_row_nonempty : forall k l, G_row k l -> l <> [].
Proof.
  assert (He : forall k l, G_entry k l -> l <> []) by (intros k l H; inversion H; discriminate).
  intros k l H. induction H as [k e H|k e m r H _ _].
  - eapply He; eassumption.
  - intro E. apply app_eq_nil in E. destruct E as [E _]. revert E. eapply He; eassumption.
Qed.

(* a possibly empty sequence of entries *)
Definition rowopt (k : nat) (l : list tok) : Prop := (l = [] /\ k = 0%nat) \/ G_row k l.

Lemma rowopt_nil : rowopt 0 [].
Proof. left. split; reflexivity. Qed.

Lemma rowopt_cons : forall k e m r, G_entry k e -> rowopt m r -> rowopt (k + m) (e ++ r).
Proof.
  intros k e m r He [[Hr Hm]|Hr]; right.
  - subst. rewrite app_nil_r, Nat.add_0_r. apply R_one. exact He.
  - apply R_more; assumption.
Qed.

Lemma row_num : forall t v m r, number_value t = Some v -> rowopt m r -> rowopt (1 + m) (t :: r).
Proof. intros t v m r Hv Hr. apply (rowopt_cons 1 [t]); [eapply N_number; eassumption | exact Hr]. Qed.

Lemma row_cxz : forall x m r, In x cxz_names -> rowopt m r -> rowopt (1 + m) ((TIdent, x) :: r).
Proof. intros x m r Hx Hr. apply (rowopt_cons 1 [(TIdent, x)]); [apply N_cxz; exact Hx | exact Hr]. Qed.

Lemma row_paren : forall a e b m r, G_expr e -> rowopt m r ->
  rowopt (1 + m) ((TLParen, a) :: e ++ (TRParen, b) :: r).
Proof.
  intros a e b m r He Hr.
  replace ((TLParen, a) :: e ++ (TRParen, b) :: r) with (((TLParen, a) :: e ++ [(TRParen, b)]) ++ r)
    by (cbn [app]; rewrite <- app_assoc; reflexivity).
  apply rowopt_cons; [apply N_expr; exact He | exact Hr].
Qed.

Lemma row_bits : forall a b t v c e d m r,
  number_value t = Some v -> (v <= 64)%Z -> G_expr e -> rowopt m r ->
  rowopt (Z.to_nat v + m) ((TBits, a) :: (TLParen, b) :: t :: (TComma, c) :: e ++ (TRParen, d) :: r).
Proof.
  intros a b t v c e d m r Hv Hle He Hr.
  replace ((TBits, a) :: (TLParen, b) :: t :: (TComma, c) :: e ++ (TRParen, d) :: r)
    with (((TBits, a) :: (TLParen, b) :: t :: (TComma, c) :: e ++ [(TRParen, d)]) ++ r)
    by (cbn [app]; rewrite <- app_assoc; reflexivity).
  apply rowopt_cons; [eapply N_bits; eassumption | exact Hr].
Qed.

Lemma is_cxz_names : forall nm lo up,
  is_cxz nm lo up = true ->
  (lo = 99 /\ up = 67) \/ (lo = 120 /\ up = 88) \/ (lo = 122 /\ up = 90) -> In nm cxz_names.
Proof.
  intros nm lo up H Hc. unfold is_cxz in H. destruct nm as [|c [|c' nm]]; try discriminate.
  apply orb_true_iff in H. unfold cxz_names. cbn.
  destruct H as [H|H]; apply N.eqb_eq in H; subst c;
    destruct Hc as [[-> ->]|[[-> ->]|[-> ->]]]; tauto.
Qed.

Lemma is_cxz_c : forall nm, is_cxz nm 99 67 = true -> In nm cxz_names.
Proof. intros nm H. eapply is_cxz_names; [exact H | tauto]. Qed.
Lemma is_cxz_x : forall nm, is_cxz nm 120 88 = true -> In nm cxz_names.
Proof. intros nm H. eapply is_cxz_names; [exact H | tauto]. Qed.
Lemma is_cxz_z : forall nm, is_cxz nm 122 90 = true -> In nm cxz_names.
Proof. intros nm H. eapply is_cxz_names; [exact H | tauto]. Qed.

Lemma factor_call : forall fn a args b n ar (res : list expr),
  func_arity fn = Some ar -> G_args n args -> length res = (length (@nil expr) + n)%nat ->
  Nlen res = ar -> G_factor ((TIdent, fn) :: (TLParen, a) :: args ++ [(TRParen, b)]).
Proof.
  intros fn a args b n ar res Hf Ha Hl Hn. eapply F_call; [|exact Ha].
  rewrite Hf. unfold Nlen in Hn. rewrite Hl in Hn. cbn [length Nat.add] in Hn. congruence.
Qed.

Lemma in_unary_ops : In TMinus unary_ops /\ In TLogicalNot unary_ops /\ In TBinaryNot unary_ops.
Proof. unfold unary_ops. cbn. tauto. Qed.

(* ================================================================== part 1: the sweep *)

(* [prefix_of l rest]: the term c with l = c ++ rest, read off the shape of l *)
Ltac prefix_of l rest :=
  lazymatch l with
  | rest => constr:(@nil token)
  | ?x :: ?l' => let c := prefix_of l' rest in constr:(x :: c)
  | ?a ++ ?l' => let c := prefix_of l' rest in constr:(a ++ c)
  end.

Ltac list_eq :=
  repeat first [ rewrite <- app_assoc | rewrite <- app_comm_cons | rewrite app_nil_r | rewrite app_nil_l ];
  reflexivity.

(* express the goal's token lists through the list variables of the context *)
Ltac toks_norm :=
  st_cbn;
  repeat match goal with
  | H : toks ?st = _ |- context[toks ?st] => is_var st; rewrite H
  end.

Ltac view_norm :=
  repeat first [ progress (rewrite view_app in * ) | progress (rewrite view_cons in * )
               | progress (rewrite view_nil in * ) | rewrite app_nil_r ];
  repeat match goal with H : tkind ?t = ?k |- _ => progress (rewrite (tv_kind t k H) in * ) end.

(* the hypotheses a call leaves behind: split them, and solve the equations between token lists *)
Ltac g_eqs :=
  repeat match goal with
  | H : False |- _ => contradiction
  | H : _ /\ _ |- _ => destruct H
  | H : exists _, _ |- _ => destruct H
  | H : tk_beq _ _ = true |- _ => apply tk_beq_true in H
  | H : negb _ = false |- _ => apply negb_false_iff in H
  | H : (_ =? _)%N = true |- _ => apply N.eqb_eq in H
  | H : (_ <? _)%Z = false |- _ => apply Z.ltb_ge in H
  | H : _ :: _ = _ :: _ |- _ => injection H as ? ?; subst
  | H : ?v = _ ++ _ |- _ => is_var v; subst v
  | H : ?v = _ :: _ |- _ => is_var v; subst v
  | H : toks ?st = ?c ++ _, H0 : toks ?st = _ :: ?r |- _ =>
      is_var st; is_var c; is_var r; rewrite H0 in H; destruct c; cbn [app] in H;
      [ symmetry in H; try rewrite H in * | ]
  | H : toks ?st = _ :: _ ++ _, H0 : toks ?st = _ :: ?r |- _ =>
      is_var st; is_var r; rewrite H0 in H
  end.

Create HintDb gdb.
#[export] Hint Constructors G_expr G_factor G_args G_entry G_row G_stmt G_block G_program : gdb.
#[export] Hint Resolve loop_step loop_done expr_of_factor_loop rowopt_nil row_num row_cxz row_paren row_bits
  factor_call is_cxz_c is_cxz_x is_cxz_z : gdb.
#[export] Hint Extern 1 (In _ unary_ops) => (unfold unary_ops; cbn; tauto) : gdb.

Section GRAM.
Variable input_len : N.
Variable hdr : list name.
Hypothesis hdr_nonempty : hdr <> [].

Notation wpG := (wp True True no_claim).
Notation w := (length hdr).

Definition expr_pG (st : pstate) (_ : expr) (st' : pstate) : Prop :=
  exists c, toks st = c ++ toks st' /\ G_expr (view c).
Definition loop_pG (st : pstate) (_ : expr) (st' : pstate) : Prop :=
  exists c, toks st = c ++ toks st' /\ forall e, G_expr e -> G_expr (e ++ view c).
Definition factor_pG (st : pstate) (_ : expr) (st' : pstate) : Prop :=
  exists c, toks st = c ++ toks st' /\ G_factor (view c).
(* parse_args first skips the '(' or ',' its caller has seen *)
Definition args_pG (acc : list expr) (st : pstate) (res : list expr) (st' : pstate) : Prop :=
  exists sep c n, toks st = sep :: c ++ toks st' /\ G_args n (view c) /\
                  length res = (length acc + n)%nat.

Ltac g_hook :=
  repeat match goal with
  | H : expr_pG _ _ _ |- _ => unfold expr_pG in H; st_cbn_in H
  | H : loop_pG _ _ _ |- _ => unfold loop_pG in H; st_cbn_in H
  | H : factor_pG _ _ _ |- _ => unfold factor_pG in H; st_cbn_in H
  | H : args_pG _ _ _ _ |- _ => unfold args_pG in H; st_cbn_in H
  | _ => progress g_eqs
  end.

Ltac g_number :=
  lazymatch goal with
  | |- wp _ _ _ (parse_number _) _ _ =>
      apply wp_parse_number_val;
      (let t := fresh "t" in let r := fresh "r" in let ln := fresh "ln" in let n := fresh "n" in
       let H := fresh "Ht" in let Hv := fresh "Hval" in
       intros t r ln n H Hv; norm_tok H; g_hook; norm_goal)
  end.

Ltac g_sweep :=
  repeat first [ g_number | wp_step wf_side_panic no_err ltac:(idtac) g_hook ].

Ltac g_exists :=
  toks_norm;
  lazymatch goal with
  | |- exists c, ?l = c ++ ?rest /\ _ =>
      let c := prefix_of l rest in exists c; split; [list_eq | view_norm]
  end.

Lemma expr_G : forall fuel,
  (forall st, wpG (parse_expr input_len fuel) (expr_pG st) st) /\
  (forall tree st, wpG (parse_expr_loop input_len fuel tree) (loop_pG st) st) /\
  (forall st, wpG (parse_factor input_len fuel) (factor_pG st) st) /\
  (forall acc st, wpG (parse_args input_len fuel acc) (args_pG acc st) st).
Proof.
  induction fuel as [|f [IHe [IHl [IHf IHa]]]].
  - repeat split; intros; exact I.
  - split; [|split; [|split]].
    + intros st. rewrite parse_expr_S. g_sweep. unfold expr_pG. g_exists. eauto with gdb.
    + intros tree st. rewrite parse_expr_loop_S. g_sweep; unfold loop_pG; g_exists; eauto with gdb.
    + intros st. rewrite parse_factor_S. g_sweep; unfold factor_pG; g_exists; eauto with gdb.
    + intros acc st. rewrite parse_args_S. g_sweep; unfold args_pG; toks_norm; do 3 eexists;
        (split; [ lazymatch goal with |- _ :: ?l = _ :: ?c ++ ?rest =>
                    let c' := prefix_of l rest in unify c c' end; list_eq | view_norm ]);
        (split; [ eauto with gdb | rewrite ?app_length in *; cbn [length] in *; lia ]).
Qed.

(* ------------------------------------------------------------------ rows *)

Definition row_pG (idx : N) (st : pstate) (res : list dentry * N) (st' : pstate) : Prop :=
  exists c k, toks st = c ++ toks st' /\ rowopt k (view c) /\ snd res = idx + N.of_nat k.
Definition data_pG (st : pstate) (_ : list dentry) (st' : pstate) : Prop :=
  exists c, toks st = c ++ toks st' /\ G_row w (view c).

Ltac g_hook2 :=
  repeat match goal with
  | H : row_pG _ _ _ _ |- _ => unfold row_pG in H; st_cbn_in H; cbn [fst snd] in H
  | H : data_pG _ _ _ |- _ => unfold data_pG in H; st_cbn_in H
  | _ => progress g_hook
  end.

Ltac g_number2 :=
  lazymatch goal with
  | |- wp _ _ _ (parse_number _) _ _ =>
      apply wp_parse_number_val;
      (let t := fresh "t" in let r := fresh "r" in let ln := fresh "ln" in let n := fresh "n" in
       let H := fresh "Ht" in let Hv := fresh "Hval" in
       intros t r ln n H Hv; norm_tok H; g_hook2; norm_goal)
  end.

Ltac g_sweep2 :=
  repeat first [ g_number2 | wp_step wf_side_panic no_err ltac:(idtac) g_hook2 ].

Lemma row_G : forall fuel data idx st,
  wpG (parse_row_loop input_len hdr fuel data idx) (row_pG idx st) st.
Proof.
  induction fuel as [|f IH]; intros data idx st; [exact I|].
  pose proof (proj1 (expr_G f)) as He.
  rewrite parse_row_loop_S. g_sweep2; unfold row_pG; toks_norm; cbn [fst snd].
  all: eexists; eexists; split;
        [ lazymatch goal with |- ?l = ?c ++ ?rest => let c' := prefix_of l rest in unify c c' end; list_eq
        | view_norm ].
  all: (split; [ eauto with gdb | try lia ]).
Qed.

Lemma rowopt_full : forall k l n, rowopt k l -> n = 0 + N.of_nat k -> n = Nlen hdr -> G_row w l.
Proof.
  intros k l n [[Hl Hk]|Hr] Hn Hh; unfold Nlen in Hh.
  - subst. destruct hdr; [contradiction | discriminate].
  - replace w with k by lia. exact Hr.
Qed.

Lemma data_row_G : forall f st, wpG (parse_data_row input_len hdr f) (data_pG st) st.
Proof.
  intros f st. pose proof (row_G f) as Hr.
  rewrite parse_data_row_eq. g_sweep2; unfold data_pG; g_exists.
  all: cbn [snd] in *;
    match goal with H : rowopt _ _ |- _ => eapply (rowopt_full _ _ _ H); eassumption end.
Qed.

(* ------------------------------------------------------------------ blocks *)

(* what the tokens consumed by the block loop amount to when it returns: inside loop/while a
   block and its `end <kind>`; at top level a whole program -- where the final Eof has been
   consumed, or is the next token (the loop returns in front of it after a statement) *)
Definition closing (et : option tk) (l : list tok) (rest : list token) : Prop :=
  match et with
  | Some kind => exists body a b, l = body ++ [(TEnd, a); (kind, b)] /\ G_block w body
  | None => G_program w l \/
            exists t r, rest = t :: r /\ tkind t = TEof /\ G_program w (l ++ [tv t])
  end.

Definition line_start (pre : list tok) : Prop := pre = [] \/ G_stmt w pre.

Lemma closing_step : forall et pre n l rest,
  line_start pre -> closing et l rest -> closing et (pre ++ (TEol, n) :: l) rest.
Proof.
  intros et pre n l rest Hpre Hc. destruct et as [kind|]; cbn [closing] in *.
  - destruct Hc as [body [a [b [Hl Hb]]]]. subst l.
    exists (pre ++ (TEol, n) :: body), a, b. split; [rewrite <- app_assoc; reflexivity|].
    destruct Hpre as [->|Hs]; [apply B_eol | apply B_stmt]; assumption.
  - destruct Hc as [Hp|[t [r [Hr [Hk Hp]]]]].
    + left. destruct Hpre as [->|Hs]; [apply P_eol | apply P_stmt]; assumption.
    + right. exists t, r. split; [exact Hr|]. split; [exact Hk|].
      rewrite <- app_assoc. cbn [app].
      destruct Hpre as [->|Hs]; [apply P_eol | apply P_stmt]; assumption.
Qed.

Lemma closing_last : forall pre t r,
  line_start pre -> tkind t = TEof -> closing None pre (t :: r).
Proof.
  intros pre t r Hpre Hk. right. exists t, r. split; [reflexivity|]. split; [exact Hk|].
  rewrite (tv_kind _ _ Hk). destruct Hpre as [->|Hs]; [apply P_eof | apply P_last; exact Hs].
Qed.

Definition blk_pG (et : option tk) (st : pstate) (_ : list stmt) (st' : pstate) : Prop :=
  exists c, toks st = c ++ toks st' /\ closing et (view c) (toks st').
Definition arm_pG (et : option tk) (st : pstate) (arm : arm_result) (st' : pstate) : Prop :=
  exists c, toks st = c ++ toks st' /\
    match arm with
    | ArmContinue _ => line_start (view c)
    | ArmBreak _ => closing et (view c) (toks st')
    end.
Definition post_pG (et : option tk) (arm : arm_result) (st : pstate) (_ : list stmt) (st' : pstate) : Prop :=
  exists c, toks st = c ++ toks st' /\
    match arm with
    | ArmContinue _ => forall pre, line_start pre -> closing et (pre ++ view c) (toks st')
    | ArmBreak _ => c = []
    end.

Ltac g_hook3 :=
  repeat match goal with
  | H : blk_pG _ _ _ _ |- _ => unfold blk_pG in H; st_cbn_in H
  | H : closing (Some _) _ _ |- _ => cbn [closing] in H
  | _ => progress g_hook2
  end.

Ltac g_number3 :=
  lazymatch goal with
  | |- wp _ _ _ (parse_number _) _ _ =>
      apply wp_parse_number_val;
      (let t := fresh "t" in let r := fresh "r" in let ln := fresh "ln" in let n := fresh "n" in
       let H := fresh "Ht" in let Hv := fresh "Hval" in
       intros t r ln n H Hv; norm_tok H; g_hook3; norm_goal)
  end.

Ltac g_sweep3 :=
  repeat first [ g_number3 | wp_step wf_side_panic no_err ltac:(st_cbn; eassumption) g_hook3 ].

(* inside loop/while the block loop, finding Eof, fails: whatever is claimed of its result holds *)
Lemma block_at_eof_G : forall f kind block st t r Q,
  toks st = t :: r -> tkind t = TEof ->
  wpG (parse_block_loop input_len hdr f (Some kind) block) Q st.
Proof.
  intros f kind block st t r Q Ht Hk. destruct f as [|f]; [exact I|].
  rewrite parse_block_loop_S. unfold block_arm. g_sweep3.
Qed.

Section BLOCK_STEP.
Variable f : nat.
Hypothesis IH : forall end_token block st,
  wpG (parse_block_loop input_len hdr f end_token block) (blk_pG end_token st) st.

Lemma post_G : forall et arm st,
  wpG (block_post input_len hdr f et arm) (post_pG et arm st) st.
Proof.
  intros et arm st. pose proof (fun f kind block st t r => block_at_eof_G f kind block st t r (fun _ _ => False)) as Heof. unfold block_post.
  g_sweep3; unfold post_pG; try g_exists; try reflexivity; intros pre Hpre.
  - apply closing_step; assumption.
  - rewrite app_nil_r. apply closing_last; assumption.
Qed.

Lemma arm_G : forall et block st t r, toks st = t :: r ->
  wpG (block_arm input_len hdr f et block (tkind t)) (arm_pG et st) st.
Proof.
  intros et block st t r Ht.
  pose proof (proj1 (expr_G f)) as He. pose proof (data_row_G f) as Hd.
  unfold block_arm. g_sweep3; unfold arm_pG; g_exists;
    repeat match goal with H : view ?c = _ |- _ => rewrite H in *; clear H end.
  all: try solve [left; reflexivity].
  all: try solve [right; eauto with gdb].
  - cbn [closing]. exists []. do 2 eexists. split; [reflexivity | apply B_nil].
  - left. apply P_eof.
Qed.

End BLOCK_STEP.

Lemma block_G : forall fuel end_token block st,
  wpG (parse_block_loop input_len hdr fuel end_token block) (blk_pG end_token st) st.
Proof.
  induction fuel as [|f IH]; intros end_token block st; [exact I|].
  rewrite parse_block_loop_S.
  apply wp_bind. apply wp_peek; [intro; exact I|]. intros t r Ht. cbv beta.
  apply wp_bind. eapply wp_conseq; [apply (arm_G f IH _ _ _ _ _ Ht)|].
  intros arm st1 [c1 [Hc1 Harm]]. eapply wp_conseq; [apply (post_G f IH)|].
  intros b st2 [c2 [Hc2 Hpost]]. exists (c1 ++ c2). split.
  - rewrite Hc1, Hc2, app_assoc. reflexivity.
  - rewrite view_app. destruct arm as [b'|b'].
    + apply Hpost. exact Harm.
    + subst c2. cbn [app] in Hc2. rewrite view_nil, app_nil_r, <- Hc2. exact Harm.
Qed.

End GRAM.

(* ------------------------------------------------------------------ the whole text *)

Lemma G_program_ends_eof : forall w l, G_program w l -> exists l' x, l = l' ++ [(TEof, x)].
Proof.
  intros w l H. induction H as [x|s x Hs|n p Hp [l' [x ->]]|s n p Hs Hp [l' [x ->]]].
  - exists [], x. reflexivity.
  - exists s, x. reflexivity.
  - exists ((TEol, n) :: l'), x. reflexivity.
  - exists (s ++ (TEol, n) :: l'), x. rewrite <- app_assoc. reflexivity.
Qed.

Lemma tokens_ok_after_eof : forall a t b,
  ParserProof.tokens_ok (a ++ t :: b) -> tkind t = TEof -> b = [].
Proof.
  induction a as [|x a IHa]; intros t b Hok Hk; cbn [app] in Hok.
  - eapply tokens_ok_eof; eassumption.
  - destruct (tk_eq_dec (tkind x) TEof) as [Hx|Hx].
    + apply (tokens_ok_eof _ _ Hok) in Hx. destruct a; discriminate.
    + eapply IHa; [|exact Hk]. eapply tokens_ok_tail; eassumption.
Qed.

Lemma view_snoc_inv : forall c l' x, view c = l' ++ [(TEof, x)] ->
  exists c' t, c = c' ++ [t] /\ tkind t = TEof.
Proof.
  intros c l' x H. destruct (exists_last (l := c)) as [c' [t Hc]].
  - intro E. subst c. destruct l'; discriminate.
  - exists c', t. split; [exact Hc|]. subst c. rewrite view_app in H. cbn in H.
    apply app_inj_tail in H. destruct H as [_ H]. unfold tv in H. congruence.
Qed.

Lemma parse_header_loop_nonempty : forall fuel pos line names spans s h,
  parse_header_loop fuel pos line names spans s = Ok h -> h_names h <> [].
Proof.
  induction fuel as [|f IH]; intros pos line names spans s h H; simpl in H; [discriminate|].
  destruct (hlex_one s) as [[[k wd] r]|]; [|discriminate].
  destruct k as [[|]|].
  - destruct (position (name_eqb wd) names); [discriminate | eapply IH; exact H].
  - destruct names as [|n0 names']; [eapply IH; exact H|].
    inversion H; subst. simpl. discriminate.
  - eapply IH; exact H.
Qed.

Theorem parse_block_grammatical : forall input_len hdr fuel stmts st st',
  hdr <> [] -> ParserProof.tokens_ok (toks st) ->
  parse_block_loop input_len hdr fuel None [] st = Ok (stmts, st') ->
  G_program (length hdr) (view (toks st)).
Proof.
  intros input_len hdr fuel stmts st st' Hh Hok H.
  pose proof (block_G input_len hdr Hh fuel None [] st) as HG.
  unfold wp in HG. rewrite H in HG. destruct HG as [c [Hc Hcl]]. cbn [closing] in Hcl.
  destruct Hcl as [Hp|[t [r [Hr [Hk Hp]]]]].
  - destruct (G_program_ends_eof _ _ Hp) as [l' [x Hl]].
    destruct (view_snoc_inv _ _ _ Hl) as [c' [t [Hc' Hk]]].
    rewrite Hc in Hok. subst c. rewrite <- app_assoc in Hok. cbn [app] in Hok.
    apply tokens_ok_after_eof in Hok; [|exact Hk]. rewrite Hc, Hok, app_nil_r. exact Hp.
  - rewrite Hc, Hr in Hok. apply tokens_ok_after_eof in Hok; [|exact Hk]. subst r.
    rewrite Hc, Hr, view_app. exact Hp.
Qed.

Theorem C12_accepted_implies_grammatical : forall s p h ts,
  parse s = Ok p -> parse_header s = Ok h -> lex_body (h_pos h) (h_rest h) = Some ts ->
  G_program (length (h_names h)) (view ts).
Proof.
  intros s p h ts H Hh Hl. unfold parse in H. rewrite Hh, Hl in H.
  match type of H with context[parse_block_loop ?a ?b ?c ?d ?e ?st] =>
    destruct (parse_block_loop a b c d e st) as [[stmts st']| | |] eqn:Eb end; try discriminate.
  apply parse_block_grammatical in Eb.
  - exact Eb.
  - unfold parse_header in Hh. eapply parse_header_loop_nonempty; exact Hh.
  - cbn [toks]. eapply ParserProof.lex_body_tokens_ok; exact Hl.
Qed.

(* ================================================================== part 2: what the grammar excludes *)

Scheme G_expr_mind := Minimality for G_expr Sort Prop
  with G_factor_mind := Minimality for G_factor Sort Prop
  with G_args_mind := Minimality for G_args Sort Prop.
Combined Scheme G_expr_mutind from G_expr_mind, G_factor_mind, G_args_mind.

Scheme G_stmt_mind := Minimality for G_stmt Sort Prop
  with G_block_mind := Minimality for G_block Sort Prop.
Combined Scheme G_stmt_mutind from G_stmt_mind, G_block_mind.

Local Open Scope nat_scope.

(* ------------------------------------------------------------------ the tokens of expressions and rows *)

(* the kinds of the tokens that are spelled out in the rules for expressions and rows *)
Definition flat_kind (k : tk) : bool :=
  is_binary_op k ||
  match k with
  | TLogicalNot | TBinaryNot | TIdent | TLParen | TRParen | TComma | TBits => true
  | _ => false
  end.

Lemma number_value_kind : forall t v, number_value t = Some v -> is_number_kind (fst t) = true.
Proof. intros [k x] v H. unfold number_value in H. cbn [fst snd] in *. destruct k; try discriminate; reflexivity. Qed.

Lemma binary_flat : forall k, is_binary_op k = true -> flat_kind k = true.
Proof. intros k H. unfold flat_kind. rewrite H. reflexivity. Qed.

Lemma unary_flat : forall k, In k unary_ops -> flat_kind k = true.
Proof. intros k [<-|[<-|[<-|[]]]]; reflexivity. Qed.

Section FORALL.
Variable P : tok -> Prop.
Hypothesis P_number : forall t v, number_value t = Some v -> P t.
Hypothesis P_flat : forall k x, flat_kind k = true -> P (k, x).

Ltac fa :=
  repeat first [ apply Forall_nil | assumption
               | apply Forall_cons | (apply Forall_app; split)
               | (apply P_flat; first [reflexivity | apply binary_flat; assumption | apply unary_flat; assumption])
               | (eapply P_number; eassumption) ].

Lemma G_expr_Forall :
  (forall e, G_expr e -> Forall P e) /\ (forall f, G_factor f -> Forall P f) /\
  (forall n a, G_args n a -> Forall P a).
Proof. apply G_expr_mutind; intros; fa. Qed.

Lemma G_entry_Forall : forall k e, G_entry k e -> Forall P e.
Proof.
  pose proof (proj1 G_expr_Forall) as He.
  intros k e H. destruct H; fa; apply He; assumption.
Qed.

Lemma G_row_Forall : forall k r, G_row k r -> Forall P r.
Proof.
  intros k r H. induction H as [k e H|k e m r H _ IH].
  - eapply G_entry_Forall; eassumption.
  - apply Forall_app. split; [eapply G_entry_Forall; eassumption | exact IH].
Qed.
End FORALL.

(* ------------------------------------------------------------------ loop/while ... end *)

Definition neutral (k : tk) : bool := match k with TEnd | TLoop | TWhile => false | _ => true end.
Definition neutral_tok (t : tok) : Prop := neutral (fst t) = true.

(* [l] opens no block that it does not close, and closes none that it did not open *)
Definition balanced (l : list tok) : Prop := forall s r, scan s (map fst l ++ r) = scan s r.

Lemma balanced_nil : balanced [].
Proof. intros s r. reflexivity. Qed.

Lemma balanced_app : forall a b, balanced a -> balanced b -> balanced (a ++ b).
Proof. intros a b Ha Hb s r. rewrite map_app, <- app_assoc, Ha, Hb. reflexivity. Qed.

Lemma balanced_neutral_cons : forall t l, neutral_tok t -> balanced l -> balanced (t :: l).
Proof.
  intros [k x] l Hk Hl s r. unfold neutral_tok in Hk. cbn [map fst app] in *.
  destruct k; try discriminate Hk; cbn [scan]; apply Hl.
Qed.

Lemma balanced_neutral : forall l, Forall neutral_tok l -> balanced l.
Proof.
  induction l as [|t l IH]; intro H; [apply balanced_nil|].
  inversion H; subst. apply balanced_neutral_cons; auto.
Qed.

Lemma balanced_block : forall k a head body y z,
  k = TLoop \/ k = TWhile -> Forall neutral_tok head -> balanced body ->
  balanced ((k, a) :: head ++ body ++ [(TEnd, y); (k, z)]).
Proof.
  intros k a head body y z Hk Hh Hb s r.
  assert (E : scan s (map fst ((k, a) :: head ++ body ++ [(TEnd, y); (k, z)]) ++ r)
              = scan (k :: s) (map fst (head ++ body ++ [(TEnd, y); (k, z)]) ++ r))
    by (destruct Hk; subst k; reflexivity).
  rewrite E. clear E.
  rewrite !map_app, <- !app_assoc. rewrite (balanced_neutral _ Hh), Hb.
  cbn [map fst app scan]. rewrite tk_beq_refl. reflexivity.
Qed.

Lemma flat_neutral : forall k x, flat_kind k = true -> neutral_tok (k, x).
Proof. intros k x H. unfold neutral_tok. destruct k; try discriminate H; reflexivity. Qed.

Lemma number_neutral : forall t v, number_value t = Some v -> neutral_tok t.
Proof.
  intros t v H. apply number_value_kind in H. unfold neutral_tok. destruct (fst t); try discriminate H; reflexivity.
Qed.

Lemma G_expr_neutral : forall e, G_expr e -> Forall neutral_tok e.
Proof. apply (G_expr_Forall neutral_tok number_neutral flat_neutral). Qed.

Lemma G_row_neutral : forall k r, G_row k r -> Forall neutral_tok r.
Proof. apply (G_row_Forall neutral_tok number_neutral flat_neutral). Qed.

Ltac nt :=
  repeat first [ apply Forall_nil | (apply G_expr_neutral; assumption) | (eapply G_row_neutral; eassumption)
               | (apply Forall_cons; [reflexivity|]) | (apply Forall_app; split) ].

Lemma G_stmt_balanced : forall w,
  (forall l, G_stmt w l -> balanced l) /\ (forall l, G_block w l -> balanced l).
Proof.
  intro w. apply G_stmt_mutind.
  - intros r Hr. apply balanced_neutral. nt.
  - intros a x b e c He. apply balanced_neutral. nt.
  - intros a b. apply balanced_neutral. nt.
  - intros a x b e c He. apply balanced_neutral. nt.
  - intros a b e c r He Hr. apply balanced_neutral. nt.
  - intros a b x c e d n body y z He _ Hb.
    replace ((TLoop, a) :: (TLParen, b) :: (TIdent, x) :: (TComma, c) :: e ++
             (TRParen, d) :: (TEol, n) :: body ++ [(TEnd, y); (TLoop, z)])
      with ((TLoop, a) :: ((TLParen, b) :: (TIdent, x) :: (TComma, c) :: e ++ [(TRParen, d); (TEol, n)])
            ++ body ++ [(TEnd, y); (TLoop, z)])
      by (cbn [app]; rewrite <- app_assoc; reflexivity).
    apply balanced_block; [tauto | nt | exact Hb].
  - intros a b e d n body y z He _ Hb.
    replace ((TWhile, a) :: (TLParen, b) :: e ++
             (TRParen, d) :: (TEol, n) :: body ++ [(TEnd, y); (TWhile, z)])
      with ((TWhile, a) :: ((TLParen, b) :: e ++ [(TRParen, d); (TEol, n)])
            ++ body ++ [(TEnd, y); (TWhile, z)])
      by (cbn [app]; rewrite <- app_assoc; reflexivity).
    apply balanced_block; [tauto | nt | exact Hb].
  - apply balanced_nil.
  - intros n b _ Hb. apply balanced_neutral_cons; [reflexivity | exact Hb].
  - intros s n b _ Hs _ Hb. apply balanced_app; [exact Hs|].
    apply balanced_neutral_cons; [reflexivity | exact Hb].
Qed.

(* a program is a balanced body and the Eof token *)
Lemma G_program_balanced : forall w l, G_program w l ->
  exists body x, l = body ++ [(TEof, x)] /\ balanced body.
Proof.
  intros w l H. induction H as [x|s x Hs|n p Hp [body [x [-> Hb]]]|s n p Hs Hp [body [x [-> Hb]]]].
  - exists [], x. split; [reflexivity | apply balanced_nil].
  - exists s, x. split; [reflexivity | apply (proj1 (G_stmt_balanced w)); exact Hs].
  - exists ((TEol, n) :: body), x. split; [reflexivity|].
    apply balanced_neutral_cons; [reflexivity | exact Hb].
  - exists (s ++ (TEol, n) :: body), x. split; [rewrite <- app_assoc; reflexivity|].
    apply balanced_app; [apply (proj1 (G_stmt_balanced w)); exact Hs|].
    apply balanced_neutral_cons; [reflexivity | exact Hb].
Qed.

(* every loop/while of a program is closed by its own `end loop`/`end while`, properly nested,
   and no `end` stands at top level *)
Theorem G_blocks_matched : forall w l, G_program w l -> blocks_ok (map fst l) = true.
Proof.
  intros w l H. destruct (G_program_balanced _ _ H) as [body [x [-> Hb]]].
  unfold blocks_ok. rewrite map_app. cbn [map fst]. rewrite Hb. reflexivity.
Qed.

(* a token list cut off inside a block (or containing a stray or mismatched `end`) does not
   become a program by the Eof token that the lexer appends *)
Theorem G_open_blocks_closed : forall w l x,
  G_program w (l ++ [(TEof, x)]) -> scan [] (map fst l) = Some [].
Proof.
  intros w l x H. destruct (G_program_balanced _ _ H) as [body [y [E Hb]]].
  apply app_inj_tail in E. destruct E as [-> _].
  rewrite <- (app_nil_r (map fst body)). rewrite Hb. reflexivity.
Qed.

Theorem G_truncation_rejected : forall w l x,
  depth_after (map fst l) > 0 -> ~ G_program w (l ++ [(TEof, x)]).
Proof.
  intros w l x Hd H. apply G_open_blocks_closed in H. unfold depth_after in Hd.
  rewrite H in Hd. cbn in Hd. lia.
Qed.

Theorem G_unbalanced_rejected : forall w l x,
  blocks_ok (map fst l) = false -> ~ G_program w (l ++ [(TEof, x)]).
Proof.
  intros w l x Hb H. apply G_open_blocks_closed in H. unfold blocks_ok in Hb.
  rewrite H in Hb. discriminate.
Qed.

(* ------------------------------------------------------------------ rows have exactly w columns *)

Lemma columns_inside : forall d k x r, k <> TLParen -> k <> TRParen ->
  row_columns (S d) ((k, x) :: r) = row_columns (S d) r.
Proof. intros d k x r H1 H2. cbn [row_columns]. destruct k; try reflexivity; contradiction. Qed.

Lemma columns_inside_number : forall d t v r, number_value t = Some v ->
  row_columns (S d) (t :: r) = row_columns (S d) r.
Proof.
  intros d [k x] v r H. apply number_value_kind in H. cbn [fst] in H.
  apply columns_inside; intro E; subst k; discriminate.
Qed.

(* the tokens of an expression, inside parentheses, fill no column *)
Lemma G_expr_columns :
  (forall e, G_expr e -> forall d r, row_columns (S d) (e ++ r) = row_columns (S d) r) /\
  (forall f, G_factor f -> forall d r, row_columns (S d) (f ++ r) = row_columns (S d) r) /\
  (forall n a, G_args n a -> forall d r, row_columns (S d) (a ++ r) = row_columns (S d) r).
Proof.
  apply G_expr_mutind.
  - intros f _ IH d r. apply IH.
  - intros e k x f _ IHe Hk _ IHf d r. rewrite <- app_assoc, IHe. cbn [app].
    rewrite columns_inside; [apply IHf | |]; intro E; subst k; discriminate.
  - intros t v Hv d r. cbn [app]. eapply columns_inside_number; eassumption.
  - intros x d r. reflexivity.
  - intros fn a args b n _ _ IH d r. cbn [app]. rewrite <- app_assoc.
    cbn [row_columns]. rewrite IH. reflexivity.
  - intros k x f Hk _ IH d r. cbn [app].
    rewrite columns_inside; [apply IH | |]; intro E; subst k;
      destruct Hk as [Hk|[Hk|[Hk|[]]]]; discriminate.
  - intros a e b _ IH d r. cbn [app]. rewrite <- app_assoc. cbn [row_columns]. rewrite IH. reflexivity.
  - intros e _ IH d r. apply IH.
  - intros e c n args _ IHe _ IHa d r. rewrite <- app_assoc, IHe. cbn [app].
    rewrite columns_inside; [apply IHa | |]; discriminate.
Qed.

Lemma G_entry_columns : forall k e, G_entry k e ->
  forall r, row_columns 0 (e ++ r) = k + row_columns 0 r.
Proof.
  pose proof (proj1 G_expr_columns) as He.
  intros k e H r. destruct H as [t v Hv|x Hx|a e b Hexp|a b t v c e d Hv Hle Hexp]; cbn [app].
  - destruct t as [kd x]. apply number_value_kind in Hv. cbn [fst] in Hv.
    destruct kd; try discriminate Hv; reflexivity.
  - reflexivity.
  - rewrite <- app_assoc. cbn [row_columns]. rewrite He by assumption. reflexivity.
  - rewrite <- app_assoc. cbn [row_columns]. rewrite Hv. cbn [app].
    rewrite He by assumption. reflexivity.
Qed.

(* a row(w) fills exactly w columns: a data row with too few or too many entries is no row(w) *)
Theorem G_row_width_exact : forall w r, G_row w r -> row_columns 0 r = w.
Proof.
  intros w r H. induction H as [k e H|k e m r H _ IH].
  - rewrite <- (app_nil_r e). rewrite (G_entry_columns _ _ H). cbn [row_columns]. lia.
  - rewrite (G_entry_columns _ _ H), IH. reflexivity.
Qed.

(* a statement that begins like a row is a row(w) *)
Theorem G_stmt_row_inv : forall w t l,
  G_stmt w (t :: l) -> is_row_start (fst t) = true -> G_row w (t :: l).
Proof.
  intros w t l H Hk. inversion H; subst; try assumption; cbn in Hk; discriminate.
Qed.

Corollary G_stmt_row_width : forall w t l,
  G_stmt w (t :: l) -> is_row_start (fst t) = true -> row_columns 0 (t :: l) = w.
Proof. intros w t l H Hk. apply G_row_width_exact. eapply G_stmt_row_inv; eassumption. Qed.

(* ------------------------------------------------------------------ calls, literals, bits *)

(* an identifier followed by '(' is a call of a known function with the right number of arguments *)
Theorem G_calls_well_formed : forall fn a rest,
  G_factor ((TIdent, fn) :: (TLParen, a) :: rest) ->
  exists args b n, rest = args ++ [(TRParen, b)] /\ func_arity fn = Some (N.of_nat n) /\ G_args n args.
Proof.
  intros fn a rest H. inversion H; subst.
  - exists args, b, n. auto.
  - match goal with Hk : In TIdent unary_ops |- _ => destruct Hk as [Hk|[Hk|[Hk|[]]]]; discriminate end.
Qed.

(* a number token in factor position has a value that fits in an i64 *)
Theorem G_factor_number_inv : forall t l,
  G_factor (t :: l) -> is_number_kind (fst t) = true -> l = [] /\ exists v, number_value t = Some v.
Proof.
  intros t l H Hk. inversion H; subst; cbn in Hk; try discriminate.
  - split; [reflexivity | eauto].
  - match goal with Hu : In _ unary_ops |- _ => destruct Hu as [Hu|[Hu|[Hu|[]]]]; subst; discriminate end.
Qed.

(* `bits` is followed by '(' and a number not above 64, which is the width of the entry *)
Theorem G_bits_width_le_64 : forall k a l,
  G_entry k ((TBits, a) :: l) ->
  exists b t v c e d, l = (TLParen, b) :: t :: (TComma, c) :: e ++ [(TRParen, d)] /\
    number_value t = Some v /\ (v <= 64)%Z /\ k = Z.to_nat v /\ G_expr e.
Proof.
  intros k a l H. inversion H; subst.
  - match goal with Hv : number_value (TBits, _) = Some _ |- _ => discriminate Hv end.
  - repeat eexists; eauto.
Qed.

(* every number token of a program has a value that fits in an i64 *)
Definition literal_fits (t : tok) : Prop := is_number_kind (fst t) = true -> number_value t <> None.

Lemma literal_fits_number : forall t v, number_value t = Some v -> literal_fits t.
Proof. intros t v H _. congruence. Qed.

Lemma literal_fits_other : forall k x, is_number_kind k = false -> literal_fits (k, x).
Proof. intros k x H Hk. cbn [fst] in Hk. congruence. Qed.

Lemma literal_fits_flat : forall k x, flat_kind k = true -> literal_fits (k, x).
Proof. intros k x H. apply literal_fits_other. destruct k; try discriminate H; reflexivity. Qed.

Ltac lf :=
  repeat first [ apply Forall_nil | assumption
               | (apply (proj1 (G_expr_Forall _ literal_fits_number literal_fits_flat)); assumption)
               | (eapply (G_row_Forall _ literal_fits_number literal_fits_flat); eassumption)
               | (apply Forall_cons; [apply literal_fits_other; reflexivity|]) | (apply Forall_app; split) ].

Lemma G_stmt_literals : forall w,
  (forall l, G_stmt w l -> Forall literal_fits l) /\ (forall l, G_block w l -> Forall literal_fits l).
Proof. intro w. apply G_stmt_mutind; intros; lf. Qed.

Theorem G_literals_fit : forall w l, G_program w l ->
  forall t, In t l -> is_number_kind (fst t) = true -> exists v, number_value t = Some v.
Proof.
  intros w l H. assert (HF : Forall literal_fits l).
  { induction H; pose proof (proj1 (G_stmt_literals w)); lf; auto. }
  intros t Hin Hk. rewrite Forall_forall in HF. specialize (HF t Hin Hk).
  destruct (number_value t) as [v|]; [eauto | contradiction].
Qed.

Local Close Scope nat_scope.

(* ================================================================== C12 on texts *)

Lemma parse_Ok_inv : forall s p, parse s = Ok p ->
  exists h ts, parse_header s = Ok h /\ lex_body (h_pos h) (h_rest h) = Some ts /\
               p_signals p = h_names h.
Proof.
  intros s p H. unfold parse in H.
  destruct (parse_header s) as [h| | |]; try discriminate.
  destruct (lex_body (h_pos h) (h_rest h)) as [ts|] eqn:El; [|discriminate].
  exists h, ts. split; [reflexivity|]. split; [exact El|].
  match type of H with context[parse_block_loop ?a ?b ?c ?d ?e ?st] =>
    destruct (parse_block_loop a b c d e st) as [[stmts st']| | |] end; try discriminate.
  inversion H; subst. reflexivity.
Qed.

Lemma kinds_view : forall ts, map fst (view ts) = map tkind ts.
Proof. intro ts. unfold view. rewrite map_map. reflexivity. Qed.

(* an accepted text has all its loop/while blocks closed by the matching `end`: a text cut off
   inside a block, or with a wrongly terminated block, or with `end` at top level is rejected *)
Theorem C12_unterminated_block_rejected : forall s p h ts,
  parse s = Ok p -> parse_header s = Ok h -> lex_body (h_pos h) (h_rest h) = Some ts ->
  blocks_ok (map tkind ts) = true.
Proof.
  intros s p h ts H Hh Hl. rewrite <- kinds_view. eapply G_blocks_matched.
  eapply C12_accepted_implies_grammatical; eassumption.
Qed.

(* the same, contrapositive and with the cut made explicit: if the tokens before the final Eof
   leave a block open, the text is not accepted *)
Theorem C12_truncated_text_rejected : forall s h pre eof,
  parse_header s = Ok h -> lex_body (h_pos h) (h_rest h) = Some (pre ++ [eof]) ->
  (0 < depth_after (map tkind pre))%nat -> forall p, parse s <> Ok p.
Proof.
  intros s h pre eof Hh Hl Hd p H.
  pose proof (C12_accepted_implies_grammatical _ _ _ _ H Hh Hl) as HG.
  pose proof (ParserProof.lex_body_tokens_ok _ _ _ Hl) as [pre' [e' [E [_ Hk]]]].
  apply app_inj_tail in E. destruct E as [_ <-].
  rewrite view_app in HG. cbn [view map] in HG. rewrite Hk in HG.
  apply G_truncation_rejected in HG; [exact HG|]. rewrite kinds_view. exact Hd.
Qed.

(* everything the property lists, for an accepted text, in one statement *)
Theorem C12_accepted_text : forall s p, parse s = Ok p ->
  exists h ts,
    parse_header s = Ok h /\ lex_body (h_pos h) (h_rest h) = Some ts /\
    (* the body is a program of the grammar: statements complete, rows of header width, calls
       well-formed, literals in range, bits widths at most 64 *)
    G_program (length (h_names h)) (view ts) /\
    (* blocks closed and matched *)
    blocks_ok (map tkind ts) = true /\
    (* the header line is followed by a line break *)
    (exists u, s = u ++ 10 :: h_rest h) /\
    (* no duplicated header name, no duplicated declare name *)
    NoDup (h_names h) /\ NoDup (map (fun v => fst (fst v)) (p_virtuals p)).
Proof.
  intros s p H. destruct (parse_Ok_inv _ _ H) as [h [ts [Hh [Hl Hs]]]].
  exists h, ts. split; [exact Hh|]. split; [exact Hl|].
  split; [eapply C12_accepted_implies_grammatical; eassumption|].
  split; [eapply C12_unterminated_block_rejected; eassumption|].
  split; [apply header_ends_with_newline; exact Hh|].
  pose proof (parse_wf _ _ H) as Hwf. unfold wf_parsed in Hwf.
  rewrite <- Hs. tauto.
Qed.

Theorem C12_header_followed_by_newline : forall s h, parse_header s = Ok h ->
  exists u, s = u ++ 10 :: h_rest h.
Proof. exact header_ends_with_newline. Qed.

(* ------------------------------------------------------------------ the checker at work *)

(* "loop(i,2) NL 1 NL" and nothing more: the block is still open at the end *)
Example cut_inside_loop :
  depth_after [TLoop; TLParen; TIdent; TComma; TDecInt; TRParen; TEol; TDecInt; TEol] = 1%nat.
Proof. reflexivity. Qed.
(* "loop(i,2) NL 1 NL end while NL": closed by the wrong keyword *)
Example wrong_end :
  blocks_ok [TLoop; TLParen; TIdent; TComma; TDecInt; TRParen; TEol; TDecInt; TEol; TEnd; TWhile; TEol; TEof] = false.
Proof. reflexivity. Qed.
(* "1 NL end loop NL": `end` at top level *)
Example end_at_top_level : blocks_ok [TDecInt; TEol; TEnd; TLoop; TEol; TEof] = false.
Proof. reflexivity. Qed.
(* "while(a) NL loop(i,2) NL 1 NL end loop NL end while": nested and matched *)
Example nested_ok :
  blocks_ok [TWhile; TLParen; TIdent; TRParen; TEol; TLoop; TLParen; TIdent; TComma; TDecInt; TRParen; TEol;
             TDecInt; TEol; TEnd; TLoop; TEol; TEnd; TWhile; TEof] = true.
Proof. reflexivity. Qed.

Print Assumptions C12_accepted_implies_grammatical.
Print Assumptions G_blocks_matched.
Print Assumptions G_truncation_rejected.
Print Assumptions G_row_width_exact.
Print Assumptions G_calls_well_formed.
Print Assumptions G_literals_fit.
Print Assumptions G_bits_width_le_64.
Print Assumptions C12_unterminated_block_rejected.
Print Assumptions C12_truncated_text_rejected.
Print Assumptions C12_accepted_text.
