(* Property C09, rendering half: every location attached to a returned error lies within the
   source text on character boundaries (and so do the locations a successful parse records).
     parse_error_spans_on_boundaries     both ends of every span of a returned error are byte
                                         offsets of a split s = u ++ v, and start <= end
     parse_error_spans_are_pieces        so each such span is a piece w of s = u ++ w ++ v
     parse_recorded_spans_on_boundaries  both ends of every span stored in a parsed test (expected
                                         inputs, read outputs, signal names, virtual signals) are
                                         such offsets
     parse_recorded_spans_ordered        and start <= end for them as well
   "Byte offset b is on a character boundary of s" is [boundary s b]: b is the number of bytes of
   a prefix of s made of whole code points.
   The token-level part is a sixth pass of the sweep of ParserProof.v, done for an abstract set
   of offsets [B] and an abstract property [T] of token spans: if both ends of every token span
   are in B, every token span has T, and the length of the input is in B, then both ends of every
   span in the parser state (the declared virtual signals, the expected inputs, the read outputs)
   and of every returned error are in B, and the spans of the expected inputs and read outputs
   (which are token spans) have T.  The lexer and the header parser supply the premises for
   B = boundary s and T = "start <= end".  That start <= end holds for the spans assembled from
   two tokens (errors, virtual signals) is taken from the fourth pass of ParserProof.v. *)
From Coq Require Import String.
From DTR Require Import Prelude Ast FramedMap Lexer Parser.
From DTR.proofs Require Import LexerProof ParserProof.
Open Scope N_scope.

(* ================================================================== character boundaries *)

Definition boundary (s : text) (b : N) : Prop := exists u v, s = u ++ v /\ b = text_bytes u.

Lemma boundary_0 : forall s, boundary s 0.
Proof. intro s. exists [], s. split; reflexivity. Qed.

Lemma boundary_end : forall s, boundary s (text_bytes s).
Proof. intro s. exists s, []. split; [rewrite app_nil_r; reflexivity | reflexivity]. Qed.

Lemma boundary_prefix : forall u v, boundary (u ++ v) (text_bytes u).
Proof. intros u v. exists u, v. split; reflexivity. Qed.

(* a boundary is inside the text *)
Lemma boundary_le : forall s b, boundary s b -> b <= text_bytes s.
Proof. intros s b [u [v [-> ->]]]. rewrite LexerProof.text_bytes_app. lia. Qed.

(* two ordered boundaries cut a piece out of the text *)
Lemma boundary_piece : forall s a b, boundary s a -> boundary s b -> a <= b ->
  exists u w v, s = u ++ w ++ v /\ a = text_bytes u /\ b = text_bytes u + text_bytes w.
Proof.
  intros s a b [u1 [v1 [Hs1 Ha]]] [u2 [v2 [Hs2 Hb]]] Hle. subst a b.
  rewrite Hs1 in Hs2. apply app_eq_app in Hs2. destruct Hs2 as [w [[Hu Hv]|[Hu Hv]]].
  - (* the second prefix is the shorter one: then they are equal *)
    assert (Hw : w = []).
    { destruct w as [|c w]; [reflexivity|]. exfalso.
      assert (H1 : 1 <= text_bytes (c :: w)) by (apply text_bytes_pos; discriminate).
      rewrite Hu, LexerProof.text_bytes_app in Hle. lia. }
    subst w. rewrite app_nil_r in Hu. subst u1. exists u2, [], v1.
    split; [exact Hs1|]. split; [reflexivity | simpl; lia].
  - exists u1, w, v2. subst u2 v1. split; [exact Hs1|]. split; [reflexivity|].
    apply LexerProof.text_bytes_app.
Qed.

(* ================================================================== pass 6: offsets in B, token spans in T *)

Definition spanB (B : N -> Prop) (sp : span) : Prop := B (fst sp) /\ B (snd sp).
Definition errB (B : N -> Prop) (l : list span) : Prop := Forall (spanB B) l.
Definition toksB (B : N -> Prop) (T : span -> Prop) (ts : list token) : Prop :=
  Forall (fun t => spanB B (tspan t) /\ T (tspan t)) ts.
Definition virtB (B : N -> Prop) (l : list (name * (span * expr))) : Prop :=
  Forall (fun v => spanB B (fst (snd v))) l.
Definition tabB (B : N -> Prop) (T : span -> Prop) (l : list (name * span)) : Prop :=
  Forall (fun v => spanB B (snd v) /\ T (snd v)) l.

(* the invariant of the pass *)
Definition binv (B : N -> Prop) (T : span -> Prop) (st : pstate) : Prop :=
  toksB B T (toks st) /\ virtB B (pvirtuals st) /\
  tabB B T (pexp_inputs st) /\ tabB B T (pexp_outputs st).
Definition bpost {A} (B : N -> Prop) (T : span -> Prop) (_ : A) (st' : pstate) : Prop := binv B T st'.

Lemma toksB_cons_inv : forall (B : N -> Prop) (T : span -> Prop) t r, toksB B T (t :: r) ->
  B (fst (tspan t)) /\ B (snd (tspan t)) /\ T (tspan t) /\ toksB B T r.
Proof. intros B T t r H. inversion H as [|? ? [[H1 H2] H4] H3]; subst. auto. Qed.

Lemma toksB_cons : forall (B : N -> Prop) (T : span -> Prop) t r,
  B (fst (tspan t)) -> B (snd (tspan t)) -> T (tspan t) -> toksB B T r -> toksB B T (t :: r).
Proof. intros B T t r H1 H2 H4 H3. constructor; [split; [split|]; assumption | exact H3]. Qed.

Lemma assoc_get_B : forall (B : N -> Prop) nm l prev e0,
  virtB B l -> assoc_get nm l = Some (prev, e0) -> spanB B prev.
Proof.
  intros B nm l prev e0 Hl H. unfold assoc_get in H.
  destruct (find (fun e => name_eqb (fst e) nm) l) as [[k [sp e]]|] eqn:E; [|discriminate H].
  simpl in H. injection H as <- <-. apply find_some in E. destruct E as [Hin _].
  unfold virtB in Hl. rewrite Forall_forall in Hl. exact (Hl _ Hin).
Qed.

Lemma virtB_snoc : forall (B : N -> Prop) l nm a b e, virtB B l -> B a -> B b -> virtB B (l ++ [(nm, ((a, b), e))]).
Proof. intros B l nm a b e Hl Ha Hb. apply Forall_snoc; [exact Hl | split; assumption]. Qed.

Lemma tabB_or_insert : forall (B : N -> Prop) (T : span -> Prop) x sp l,
  tabB B T l -> B (fst sp) -> B (snd sp) -> T sp -> tabB B T (or_insert x sp l).
Proof.
  intros B T x sp l Hl Ha Hb Ht. unfold or_insert. match goal with |- context[if ?b then _ else _] => destruct b end; [exact Hl|].
  apply Forall_snoc; [exact Hl | split; [split|]; assumption].
Qed.

(* the rule of ParserProof.v for note_read_output forgets what is recorded; here it matters *)
Lemma wp_note_read_output_rec : forall F G EA x sp (Q : unit -> pstate -> Prop) st,
  Q tt (set_outputs st (or_insert x sp (pexp_outputs st))) -> Q tt st ->
  wp F G EA (note_read_output x sp) Q st.
Proof.
  unfold wp, note_read_output. intros F G EA x sp Q st H1 H2.
  destruct (fs_contains (pvars st) x); [exact H2 | exact H1].
Qed.

Ltac b_hook :=
  repeat match goal with
  | H : _ /\ _ |- _ => destruct H
  | H : bpost _ _ _ _ |- _ => unfold bpost in H
  | H : binv _ _ _ |- _ => unfold binv in H; st_cbn_in H
  | H : toksB _ _ (toks ?st), E : toks ?st = _ |- _ => rewrite E in H
  | H : toksB _ _ (_ :: _) |- _ => apply toksB_cons_inv in H
  end.

Ltac b_leaf :=
  first [ assumption
        | solve [apply toksB_cons; assumption]
        | solve [apply tabB_or_insert; assumption]
        | solve [apply virtB_snoc; assumption] ].

Ltac b_span :=
  first [ solve [eapply assoc_get_B; eassumption]
        | solve [unfold spanB; cbn [fst snd]; split; assumption] ].
Ltac b_side_err :=
  unfold errB; cbn [fst snd];
  repeat first [ apply Forall_nil | apply Forall_cons; [b_span|] ].
Ltac b_side_pre :=
  unfold bpost, binv; st_cbn; cbn [fst snd];
  try match goal with H0 : toks ?st = _ :: _ |- _ => rewrite H0 end;
  repeat match goal with |- _ /\ _ => split end; b_leaf.
Ltac b_step :=
  lazymatch goal with
  | |- wp _ _ _ (note_read_output _ _) _ _ => apply wp_note_read_output_rec; norm_goal
  | _ => wp_step wf_side_panic b_side_err b_side_pre b_hook
  end.
Ltac b_sweep := repeat b_step.
Ltac b_fin := try b_side_pre.

Section BPASS.
Variable B : N -> Prop.
Variable T : span -> Prop.
Variable input_len : N.
Variable hdr : list name.
Hypothesis B_len : B input_len.

Notation wp6 := (wp True True (errB B)).

Lemma expr_b : forall fuel,
  (forall st, binv B T st -> wp6 (parse_expr input_len fuel) (bpost B T) st) /\
  (forall tree st, binv B T st -> wp6 (parse_expr_loop input_len fuel tree) (bpost B T) st) /\
  (forall st, binv B T st -> wp6 (parse_factor input_len fuel) (bpost B T) st) /\
  (forall acc st, binv B T st -> wp6 (parse_args input_len fuel acc) (bpost B T) st).
Proof.
  induction fuel as [|f [IHe [IHl [IHf IHa]]]].
  - repeat split; intros; exact I.
  - split; [|split; [|split]].
    + intros st Hinv. rewrite parse_expr_S. b_hook. b_sweep; b_fin.
    + intros tree st Hinv. rewrite parse_expr_loop_S. b_hook. b_sweep; b_fin.
    + intros st Hinv. rewrite parse_factor_S. b_hook. b_sweep; b_fin.
    + intros acc st Hinv. rewrite parse_args_S. b_hook. b_sweep; b_fin.
Qed.

Lemma row_b : forall fuel data idx st, binv B T st ->
  wp6 (parse_row_loop input_len hdr fuel data idx) (bpost B T) st.
Proof.
  induction fuel as [|f IH]; intros data idx st Hinv; [exact I|].
  pose proof (proj1 (expr_b f)) as He.
  rewrite parse_row_loop_S. b_hook. b_sweep; b_fin.
Qed.

Lemma data_row_b : forall f st, binv B T st ->
  wp6 (parse_data_row input_len hdr f) (bpost B T) st.
Proof.
  intros f st Hinv. pose proof (row_b f) as Hr.
  rewrite parse_data_row_eq. b_hook. b_sweep; b_fin.
Qed.

Section BLOCK_STEP.
Variable f : nat.
Hypothesis IH : forall end_token block st, binv B T st ->
  wp6 (parse_block_loop input_len hdr f end_token block) (bpost B T) st.

Lemma post_b : forall end_token arm st, binv B T st ->
  wp6 (block_post input_len hdr f end_token arm) (bpost B T) st.
Proof.
  intros end_token arm st Hinv. unfold block_post. b_hook. b_sweep; b_fin.
Qed.

Lemma arm_b : forall end_token block k st, binv B T st ->
  wp6 (block_arm input_len hdr f end_token block k) (bpost B T) st.
Proof.
  intros end_token block k st Hinv.
  pose proof (proj1 (expr_b f)) as He. pose proof (data_row_b f) as Hd.
  unfold block_arm. b_hook. b_sweep; b_fin.
Qed.
End BLOCK_STEP.

Lemma block_b : forall fuel end_token block st, binv B T st ->
  wp6 (parse_block_loop input_len hdr fuel end_token block) (bpost B T) st.
Proof.
  induction fuel as [|f IH]; intros end_token block st Hinv; [exact I|].
  rewrite parse_block_loop_S.
  apply wp_bind. apply wp_peek; [intro; exact I|]. intros t r Ht. cbv beta.
  apply wp_bind. eapply wp_conseq; [apply (arm_b f IH); exact Hinv|].
  intros arm st' Hinv'. apply (post_b f IH). exact Hinv'.
Qed.

End BPASS.

(* ================================================================== the lexer's spans *)

Definition ordered (sp : span) : Prop := fst sp <= snd sp.

(* both ends of every token span are boundaries of the whole text, when the statement lexer
   starts at a boundary *)
Lemma lex_body_boundaries : forall u0 rest ts,
  lex_body (text_bytes u0) rest = Some ts -> toksB (boundary (u0 ++ rest)) ordered ts.
Proof.
  intros u0 rest ts H. unfold toksB. rewrite Forall_forall. intros t Hin.
  apply in_split in Hin. destruct Hin as [pre [post Hts]].
  destruct (lex_body_spans _ _ _ H _ _ _ Hts) as [u [v [Hs [Hsp _]]]].
  rewrite Hsp, Hs. split; [split|]; cbn [fst snd].
  - exists (u0 ++ u), (ttext t ++ v). split; [rewrite app_assoc; reflexivity|].
    rewrite LexerProof.text_bytes_app. reflexivity.
  - exists (u0 ++ u ++ ttext t), v. split; [rewrite <- !app_assoc; reflexivity|].
    rewrite !LexerProof.text_bytes_app. lia.
  - unfold ordered. cbn [fst snd]. lia.
Qed.

(* ================================================================== the header's spans *)

Definition hspan (total : text) (sp : span) : Prop := spanB (boundary total) sp /\ ordered sp.

(* the header parser walks over the text piece by piece; every span it records, every span it
   reports, and the offset at which it hands over are boundaries *)
Lemma parse_header_loop_boundaries : forall fuel total u0 s pos line names spans,
  total = u0 ++ s -> pos = text_bytes u0 -> Forall (hspan total) spans ->
  match parse_header_loop fuel pos line names spans s with
  | Ok h => Forall (hspan total) (h_spans h) /\
            exists u, total = u ++ h_rest h /\ h_pos h = text_bytes u
  | Err e => errB (boundary total) (pe_at e)
  | _ => True
  end.
Proof.
  induction fuel as [|f IH]; intros total u0 s pos line names spans Htot Hpos Hsp; [exact I|].
  rewrite parse_header_loop_S.
  destruct (hlex_one s) as [[[k w] r]|] eqn:E.
  - cbv zeta. destruct (hlex_one_progress _ _ _ _ E) as [Hs _]. subst s.
    assert (Htot' : total = (u0 ++ w) ++ r) by (rewrite <- app_assoc; exact Htot).
    assert (Hpos' : pos + text_bytes w = text_bytes (u0 ++ w))
      by (rewrite LexerProof.text_bytes_app, Hpos; reflexivity).
    assert (Hnew : hspan total (pos, pos + text_bytes w)).
    { split; [split|]; cbn [fst snd].
      - exists u0, (w ++ r). split; assumption.
      - exists (u0 ++ w), r. split; assumption.
      - unfold ordered. cbn [fst snd]. lia. }
    destruct k as [[|]|].
    + destruct (position (name_eqb w) names) as [i|].
      * cbn [pe_at]. constructor; [|constructor; [exact (proj1 Hnew) | constructor]].
        destruct (nth_in_or_default i spans (0, 0)) as [Hin|Hd].
        -- rewrite Forall_forall in Hsp. exact (proj1 (Hsp _ Hin)).
        -- rewrite Hd. split; apply boundary_0.
      * eapply IH; [exact Htot' | exact Hpos' | apply Forall_snoc; assumption].
    + destruct names as [|n names].
      * eapply IH; [exact Htot' | exact Hpos' | exact Hsp].
      * cbn [h_spans h_rest h_pos]. split; [exact Hsp|]. exists (u0 ++ w). split; assumption.
    + eapply IH; [exact Htot' | exact Hpos' | exact Hsp].
  - cbn [pe_at]. constructor; [|constructor]. split; cbn [fst snd]; exists u0, s; split; assumption.
Qed.

Lemma parse_header_boundaries : forall s,
  match parse_header s with
  | Ok h => Forall (hspan s) (h_spans h) /\
            exists u, s = u ++ h_rest h /\ h_pos h = text_bytes u
  | Err e => errB (boundary s) (pe_at e)
  | _ => True
  end.
Proof.
  intro s. unfold parse_header.
  apply (parse_header_loop_boundaries (S (length s)) s [] s 0 1 [] []);
    [reflexivity | reflexivity | constructor].
Qed.

(* ================================================================== the parser's spans *)

(* the parser proper: the final state and the returned error *)
Lemma parse_block_boundaries : forall s h ts,
  parse_header s = Ok h -> lex_body (h_pos h) (h_rest h) = Some ts ->
  let st0 := {| toks := ts; pline := h_line h; pvars := fm_new; pvirtuals := [];
                pexp_inputs := []; pexp_outputs := [] |} in
  match parse_block_loop (text_bytes s) (h_names h) (parser_fuel (length ts)) None [] st0 with
  | Ok (_, st) => binv (boundary s) ordered st
  | Err e => errB (boundary s) (pe_at e)
  | _ => True
  end.
Proof.
  intros s h ts Eh El st0.
  pose proof (parse_header_boundaries s) as Hh. rewrite Eh in Hh.
  destruct Hh as [_ [u [Hs Hp]]].
  assert (Htoks : toksB (boundary s) ordered ts).
  { rewrite Hp in El. rewrite Hs at 1. apply lex_body_boundaries. exact El. }
  assert (Hinv : binv (boundary s) ordered st0).
  { unfold binv, st0. cbn [toks pvirtuals pexp_inputs pexp_outputs].
    split; [exact Htoks|]. split; [constructor|]. split; constructor. }
  pose proof (block_b (boundary s) ordered (text_bytes s) (h_names h) (boundary_end s)
                (parser_fuel (length ts)) None [] st0 Hinv) as Hb.
  unfold wp in Hb.
  destruct (parse_block_loop (text_bytes s) (h_names h) (parser_fuel (length ts)) None [] st0)
    as [[stmts st]| | |]; exact Hb.
Qed.

(* the recorded span of a declare runs from its first token to the token after it: that it is
   ordered is part of the fourth pass of ParserProof.v *)
Lemma parse_block_virtuals_ordered : forall s h ts stmts st,
  parse_header s = Ok h -> lex_body (h_pos h) (h_rest h) = Some ts ->
  parse_block_loop (text_bytes s) (h_names h) (parser_fuel (length ts)) None []
    {| toks := ts; pline := h_line h; pvars := fm_new; pvirtuals := [];
       pexp_inputs := []; pexp_outputs := [] |} = Ok (stmts, st) ->
  Forall (fun v => ordered (fst (snd v))) (pvirtuals st).
Proof.
  intros s h ts stmts st Eh El Eb.
  pose proof (parse_header_loop_spans (S (length s)) (text_bytes s) 0 1 [] [] s eq_refl
                (Forall_nil _)) as Hh.
  fold (parse_header s) in Hh. rewrite Eh in Hh.
  apply lex_body_from_spans in El. rewrite Hh in El.
  match type of Eb with parse_block_loop ?a ?b ?c ?d ?e ?st0 = _ =>
    pose proof (block_sp a b c d e (h_pos h) st0 El (Forall_nil _)) as Hb end.
  unfold wp in Hb. rewrite Eb in Hb. destruct Hb as [_ Hv].
  eapply Forall_impl; [|exact Hv]. intros v [Hle _]. exact Hle.
Qed.

Lemma parse_error_boundaries : forall s e, parse s = Err e -> errB (boundary s) (pe_at e).
Proof.
  intros s e H. unfold parse in H.
  pose proof (parse_header_boundaries s) as Hh.
  destruct (parse_header s) as [h| | |] eqn:Eh; try discriminate H.
  - destruct (lex_body (h_pos h) (h_rest h)) as [ts|] eqn:El; [|discriminate H].
    pose proof (parse_block_boundaries s h ts Eh El) as Hb. cbv zeta in Hb.
    match type of H with context[parse_block_loop ?a ?b ?c ?d ?e ?st] =>
      destruct (parse_block_loop a b c d e st) as [[stmts st']| | |] end; try discriminate H.
    injection H as <-. exact Hb.
  - injection H as <-. exact Hh.
Qed.

(* ------------------------------------------------------------------ C09: error locations *)

Theorem parse_error_spans_on_boundaries : forall s e, parse s = Err e ->
  Forall (fun sp => boundary s (fst sp) /\ boundary s (snd sp) /\ (fst sp <= snd sp)%N) (pe_at e).
Proof.
  intros s e H.
  pose proof (parse_error_boundaries s e H) as Hb.
  pose proof (parse_error_spans_in_text s e H) as Hle.
  unfold errB in Hb. rewrite Forall_forall in *. intros sp Hin.
  destruct (Hb sp Hin) as [H1 H2]. destruct (Hle sp Hin) as [H3 _]. auto.
Qed.

(* every location of an error can be rendered: it is a piece of the text between two
   character boundaries *)
Corollary parse_error_spans_are_pieces : forall s e, parse s = Err e ->
  Forall (fun sp => exists u w v, s = u ++ w ++ v /\ fst sp = text_bytes u /\
                                  snd sp = text_bytes u + text_bytes w) (pe_at e).
Proof.
  intros s e H. pose proof (parse_error_spans_on_boundaries s e H) as Hb.
  eapply Forall_impl; [|exact Hb]. intros sp [Ha [Hb' Hle]].
  apply boundary_piece; assumption.
Qed.

(* ------------------------------------------------------------------ the recorded locations *)

Lemma Forall_insert_sorted : forall A (key : A -> N) (Q : A -> Prop) x l,
  Q x -> Forall Q l -> Forall Q (insert_sorted key x l).
Proof.
  intros A key Q x l Hx. induction l as [|y l IH]; intro Hl; cbn [insert_sorted].
  - constructor; [exact Hx | constructor].
  - inversion Hl as [|? ? Hy Hl']; subst.
    destruct (key y <=? key x); constructor; auto.
Qed.

Lemma Forall_sort_by_key : forall A (key : A -> N) (Q : A -> Prop) l,
  Forall Q l -> Forall Q (sort_by_key key l).
Proof.
  intros A key Q l. unfold sort_by_key.
  assert (Hgen : forall acc, Forall Q acc -> Forall Q l ->
            Forall Q (fold_left (fun acc x => insert_sorted key x acc) l acc)).
  { induction l as [|x l IH]; intros acc Hacc Hl; cbn [fold_left]; [exact Hacc|].
    inversion Hl as [|? ? Hx Hl']; subst.
    apply IH; [apply Forall_insert_sorted; assumption | exact Hl']. }
  apply Hgen. constructor.
Qed.

(* a span that can be rendered *)
Definition piece_span (s : text) (sp : span) : Prop :=
  boundary s (fst sp) /\ boundary s (snd sp) /\ fst sp <= snd sp.

Lemma parse_recorded_spans : forall s p, parse s = Ok p ->
  Forall (fun x => piece_span s (snd x)) (p_expected_inputs p) /\
  Forall (fun x => piece_span s (snd x)) (p_read_outputs p) /\
  Forall (piece_span s) (p_signal_spans p) /\
  Forall (fun x => piece_span s (snd x)) (p_virtuals p).
Proof.
  intros s p H. unfold parse in H.
  pose proof (parse_header_boundaries s) as Hh.
  destruct (parse_header s) as [h| | |] eqn:Eh; try discriminate H.
  destruct (lex_body (h_pos h) (h_rest h)) as [ts|] eqn:El; [|discriminate H].
  pose proof (parse_block_boundaries s h ts Eh El) as Hb. cbv zeta in Hb.
  pose proof (parse_block_virtuals_ordered s h ts) as Hv.
  match type of H with context[parse_block_loop ?a ?b ?c ?d ?e ?st] =>
    destruct (parse_block_loop a b c d e st) as [[stmts st']| | |] end; try discriminate H.
  specialize (Hv stmts st' Eh El eq_refl).
  injection H as <-. cbn [p_expected_inputs p_read_outputs p_signal_spans p_virtuals].
  destruct Hb as [_ [Hvirt [Hin Hout]]]. destruct Hh as [Hsp _].
  assert (Htab : forall l, tabB (boundary s) ordered l ->
            Forall (fun x : name * span => piece_span s (snd x)) l).
  { intros l Hl. eapply Forall_impl; [|exact Hl]. intros x [[H1 H2] H3].
    split; [exact H1|]. split; [exact H2 | exact H3]. }
  split; [apply Forall_sort_by_key, Htab; exact Hin|].
  split; [apply Forall_sort_by_key, Htab; exact Hout|].
  split.
  - eapply Forall_impl; [|exact Hsp]. intros sp [[H1 H2] H3].
    split; [exact H1|]. split; [exact H2 | exact H3].
  - rewrite Forall_forall. intros x Hx. apply in_map_iff in Hx.
    destruct Hx as [v [<- Hv']]. cbn [fst snd].
    assert (Hall : Forall (fun v => piece_span s (fst (snd v))) (pvirtuals st')).
    { unfold virtB in Hvirt. rewrite Forall_forall in *. intros v0 Hv0.
      destruct (Hvirt v0 Hv0) as [H1 H2]. split; [exact H1|]. split; [exact H2|].
      exact (Hv v0 Hv0). }
    apply (Forall_sort_by_key _ (fun v => fst (fst (snd v)))) in Hall.
    rewrite Forall_forall in Hall. exact (Hall v Hv').
Qed.

Theorem parse_recorded_spans_on_boundaries : forall s p, parse s = Ok p ->
  Forall (fun x => boundary s (fst (snd x)) /\ boundary s (snd (snd x))) (p_expected_inputs p) /\
  Forall (fun x => boundary s (fst (snd x)) /\ boundary s (snd (snd x))) (p_read_outputs p) /\
  Forall (fun sp => boundary s (fst sp) /\ boundary s (snd sp)) (p_signal_spans p) /\
  Forall (fun x => boundary s (fst (snd x)) /\ boundary s (snd (snd x))) (p_virtuals p).
Proof.
  intros s p H. destruct (parse_recorded_spans s p H) as [H1 [H2 [H3 H4]]].
  repeat split; (eapply Forall_impl; [|eassumption]); intros x [Ha [Hb _]]; split; assumption.
Qed.

Theorem parse_recorded_spans_ordered : forall s p, parse s = Ok p ->
  Forall (fun x => fst (snd x) <= snd (snd x)) (p_expected_inputs p) /\
  Forall (fun x => fst (snd x) <= snd (snd x)) (p_read_outputs p) /\
  Forall (fun sp => fst sp <= snd sp) (p_signal_spans p) /\
  Forall (fun x => fst (snd x) <= snd (snd x)) (p_virtuals p).
Proof.
  intros s p H. destruct (parse_recorded_spans s p H) as [H1 [H2 [H3 H4]]].
  repeat split; (eapply Forall_impl; [|eassumption]); intros x [_ [_ Hc]]; exact Hc.
Qed.

Print Assumptions parse_error_spans_on_boundaries.
Print Assumptions parse_recorded_spans_on_boundaries.
Print Assumptions parse_recorded_spans_ordered.
