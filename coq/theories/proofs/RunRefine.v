(* Theorem T: the iterator model IS the sequential reading.
   Whatever the first n calls of next() on the model of DataRowIterator (Iter.inext: resumable
   statement iterator, LIFO cache, re-expansion of the top of the cache at every call) yield, and
   whatever calls the driver receives, is exactly what RunSpec.run_spec says: the sequential
   reading of the program (StmtSpec.exec) with the row handler RunSpec.run_handler.
     T_run_refines_sequential_reading : iterator  ==> sequential reading (no hypothesis on tc);
     T_sequential_reading_refines_run : sequential reading ==> iterator (under wf_tc, which
                                        excludes the panics of the model).
   Route: Stmt.next is drained by a caller that hands every yielded row to run_handler
   (StmtRefine.drain); `resume` is that caller in the middle of a source row (the rows still in
   the cache are the remaining rows of ExpandSpec.expand_spec: ExpandProof.prepare_step); one
   next() with a non-empty cache is one RunSpec.io_row (inext_io_row); drain <=> exec is
   StmtRefine's refinement theorem. *)
From DTR Require Import Prelude I64 Ast FramedMap Parser Bind Eval Stmt StmtSpec Iter ExpandSpec WfSpec RunSpec Script.
From DTR.proofs Require Import StmtRefine StmtCorollaries ExpandProof IterLogProof NoPanicProof.
Local Open Scope nat_scope.

Local Arguments NYield {C F W} w line it c.
Local Arguments NDone {C F W} it c.
Local Arguments NErr {C F W} f it c.
Local Arguments NPanic {C F W} site.
Local Arguments NOOF {C F W}.
Local Arguments ItNone {DE} st.
Local Arguments ItRow {DE} row st.
Local Arguments ItErr {DE} e st.
Local Arguments ItPanic {DE} s.
Local Arguments ItOOF {DE}.
Local Arguments SRow {DE} row.
Local Arguments SErr {DE} e.
Local Arguments SNone {DE}.

Definition view_of_seen {DE : Type} (s : seen DE) : item_view DE :=
  match s with SRow r => VRow r | SErr e => VErr e | SNone => VNone end.

Section RUNREFINE.
Variable G : gen.
Variable DE : Type.
Variable D : driver DE.
Variable w_default : bool.
Variable tc : testcase.

Local Notation snext := (Iter.snext G).
Local Notation inext := (Iter.inext G DE D w_default tc).
Local Notation collect := (IterLogProof.collect G DE D w_default tc).
Local Notation rstate := (RunSpec.rstate DE).
Local Notation io_row := (RunSpec.io_row G DE D w_default tc).
Local Notation io_rows := (RunSpec.io_rows G DE D w_default tc).
Local Notation handler := (RunSpec.run_handler G DE D w_default tc).
Local Notation cdrain := (StmtCorollaries.cdrain G rstate handler).
Local Notation cexec := (StmtCorollaries.cexec G rstate handler).
Local Notation outcome := (StmtSpec.outcome ctx xfail rstate).
Local Notation seen_of := (RunSpec.seen_of DE).
Local Notation spec_rows_gen := (ExpandProof.spec_rows_gen tc).

(* ------------------------------------------------------------------ the abstraction *)

(* the handler state that an iterator state stands for; sn = what the caller has been handed,
   n = the calls of next() it will still make *)
Definition h_of (st : istate) (sn : list (seen DE)) (n : nat) : rstate :=
  {| r_seen := sn; r_log := i_log st; r_prev := i_prev st; r_outidx := i_outidx st;
     r_nout := i_nout st; r_budget := n |}.

(* the rows that the successive calls of next() will pop off a cache *)
Definition remaining (cache : list dentries) : list dentries := flat_map spec_rows_gen cache.

(* RunSpec.io_rows over rows that carry their own line and flag *)
Fixpoint io_rows_d (h : rstate) (c : ctx) (rows : list dentries) : option ((rstate * ctx) + rstate) :=
  match rows with
  | [] => Some (inl (h, c))
  | d :: rest =>
      match io_row h c (de_entries d) (de_line d) (de_update_output d) with
      | Some (inl (h', c')) => io_rows_d h' c' rest
      | other => other
      end
  end.

Lemma io_rows_as_d : forall es l h c,
  io_rows h c es l =
  io_rows_d h c (map (fun p => {| de_entries := fst p; de_line := l; de_update_output := snd p |}) es).
Proof.
  induction es as [|[e b] es IH]; intros l h c; [reflexivity|].
  cbn [RunSpec.io_rows io_rows_d map fst snd de_entries de_line de_update_output].
  destruct (io_row h c e l b) as [[[h' c']|h']|]; [apply IH|reflexivity|reflexivity].
Qed.

(* the caller of the statement iterator in the middle of a source row: first the rows that are
   left of it, then go on draining.  h0 = the handler state when the source row was yielded. *)
Definition resume (f : nat) (h0 : rstate) (rows : list dentries) (it : siter) (c : ctx) (h : rstate)
  : outcome :=
  match io_rows_d h c rows with
  | Some (inl (h', c')) => cdrain f it c' h'
  | Some (inr h') => Stop h'
  | None => Stop (crashed DE h0)
  end.

Definition source_row (w : list dentry) (l : N) : dentries :=
  {| de_entries := w; de_line := l; de_update_output := true |}.

Lemma handler_resume : forall h w l c,
  handler h (w, l) c =
  match io_rows_d h c (remaining [source_row w l]) with
  | Some r => r
  | None => inr (crashed DE h)
  end.
Proof.
  intros h w l c. unfold RunSpec.run_handler. cbn [fst snd]. rewrite io_rows_as_d.
  unfold remaining. cbn [flat_map]. rewrite app_nil_r.
  rewrite (spec_rows_gen_checked tc (source_row w l) eq_refl). reflexivity.
Qed.

Lemma drain_yield : forall f it c h w l it' c',
  snext f it c = NYield w l it' c' ->
  cdrain (S f) it c h = resume f h (remaining [source_row w l]) it' c' h.
Proof.
  intros f it c h w l it' c' Hn. unfold Iter.snext in Hn.
  unfold StmtCorollaries.cdrain. rewrite drain_S, Hn, handler_resume. unfold resume.
  destruct (io_rows_d h c' (remaining [source_row w l])) as [[[h2 c2]|h2]|]; reflexivity.
Qed.

Lemma resume_nil : forall f h0 it c h, resume f h0 [] it c h = cdrain f it c h.
Proof. reflexivity. Qed.

Lemma seen_of_not_oof : forall (o : outcome) x, seen_of o = Some x -> o <> OutOfFuel.
Proof. intros o x H E. subst o. discriminate H. Qed.

Lemma resume_mono : forall f h0 rows it c h x, seen_of (resume f h0 rows it c h) = Some x ->
  forall f', f <= f' -> resume f' h0 rows it c h = resume f h0 rows it c h.
Proof.
  intros f h0 rows it c h x H f' Hle. unfold resume in *.
  destruct (io_rows_d h c rows) as [[[h2 c2]|h2]|]; try reflexivity.
  unfold StmtCorollaries.cdrain in *. eapply drain_mono; [reflexivity| |exact Hle].
  eapply seen_of_not_oof; exact H.
Qed.

(* ------------------------------------------------------------------ one next() = one io_row *)

(* with a non-empty cache, next() pops the first of the remaining rows and does with it exactly
   what RunSpec.io_row says *)
Lemma inext_io_row : forall fuel st top cache' sn n,
  i_cache st <> [] -> prepare_cache tc (i_cache st) = Ok (top :: cache') ->
  let r := io_row (h_of st sn (S n)) (i_ctx st) (de_entries top) (de_line top) (de_update_output top) in
  match inext fuel st with
  | ItRow row st1 =>
      r = Some (if Nat.eqb n 0 then inr (h_of st1 (sn ++ [SRow row]) n)
                else inl (h_of st1 (sn ++ [SRow row]) n, i_ctx st1)) /\
      i_cache st1 = cache' /\ i_iter st1 = i_iter st
  | ItErr e st1 => r = Some (inr (h_of st1 (sn ++ [SErr e]) n))
  | ItNone _ => False
  | ItPanic _ | ItOOF => r = None
  end.
Proof.
  intros fuel st top cache' sn n Hne Hprep. cbv zeta.
  unfold Iter.inext. rewrite IterLogProof.get_row_unfold.
  destruct (i_cache st) as [|d0 rest0] eqn:Hc; [contradiction|].
  unfold finish_row. rewrite Hc, Hprep. cbv zeta.
  unfold RunSpec.io_row. cbn [h_of r_prev r_log r_outidx r_nout r_budget r_seen].
  destruct (generate_input_entries tc (de_entries top)
              (check_changed_entries (i_prev st) (de_entries top))) as [inputs|e|s|];
    try reflexivity.
  destruct (generate_expected_entries tc (de_entries top)) as [expected|e|s|]; try reflexivity.
  cbn [er_update_output er_inputs i_log i_ctx i_nout i_outidx].
  destruct (de_update_output top).
  - destruct (D (i_log st) (RW, inputs)) as [e|outs]; [reflexivity|].
    destruct (extract_output_values G tc (i_nout st) (i_outidx st) outs
                (ctx_set_outputs (i_ctx st) (outs_map outs))) as [c2 [vals|r|s|]];
      try reflexivity.
    cbn. destruct n; cbn; auto.
  - destruct (D (i_log st) (if w_default then RW else WO, inputs)) as [e|outs]; [reflexivity|].
    cbn. destruct n; cbn; auto.
Qed.

(* with an empty cache, next() first asks the statement iterator *)
Lemma inext_refill : forall fuel st w l it' c',
  i_cache st = [] -> snext fuel (i_iter st) (i_ctx st) = NYield w l it' c' ->
  inext fuel st = inext fuel (with_iter_ctx st it' c' [source_row w l]).
Proof.
  intros fuel st w l it' c' Hc Hn. unfold Iter.inext.
  rewrite !IterLogProof.get_row_unfold, Hc, Hn. reflexivity.
Qed.

Lemma collect_S : forall fuel n st, collect fuel (S n) st =
  match inext fuel st with
  | ItRow row st' => let (l, s) := collect fuel n st' in (VRow row :: l, s)
  | ItErr e st' => ([VErr e], Some st')
  | ItNone st' => ([VNone], Some st')
  | ItPanic _ | ItOOF => ([], None)
  end.
Proof. reflexivity. Qed.

(* ------------------------------------------------------------------ iterator ==> reading *)

Definition fwd_at (fuel n : nat) (st : istate) : Prop :=
  forall sn items st',
  collect fuel (S n) st = (items, Some st') ->
  exists f sn', items = map view_of_seen sn' /\
    forall h0, seen_of (resume f h0 (remaining (i_cache st)) (i_iter st) (i_ctx st) (h_of st sn (S n)))
               = Some (sn ++ sn', i_log st').

(* a state with a non-empty cache: one io_row, then what follows *)
Lemma fwd_nonempty : forall fuel n,
  (forall m, n = S m -> forall st, fwd_at fuel m st) ->
  forall st, i_cache st <> [] -> fwd_at fuel n st.
Proof.
  intros fuel n IH st Hne sn items st' Hcol.
  destruct (i_cache st) as [|row rest] eqn:Hc; [contradiction|].
  destruct (prepare_step tc row rest) as (top & mid & Hp & Hg). rewrite <- Hc in Hp.
  assert (Hne' : i_cache st <> []) by (rewrite Hc; discriminate).
  pose proof (inext_io_row fuel st top (mid ++ rest) sn n Hne' Hp) as Hk. cbv zeta in Hk.
  assert (Hrem : remaining (row :: rest) = top :: remaining (mid ++ rest)).
  { unfold remaining. cbn [flat_map]. rewrite Hg, flat_map_app. reflexivity. }
  rewrite Hrem. rewrite collect_S in Hcol.
  destruct (inext fuel st) as [st1|r st1|e st1|s|]; try contradiction; try discriminate Hcol.
  - destruct Hk as (Hk & Hc1 & Hi1). destruct n as [|m].
    + (* the budget is used up *)
      cbn [IterLogProof.collect] in Hcol. inversion Hcol; subst items st'.
      exists 0, [SRow r]. split; [reflexivity|]. intro h0.
      unfold resume. cbn [io_rows_d]. rewrite Hk. reflexivity.
    + destruct (collect fuel (S m) st1) as [l s] eqn:Hcol1. inversion Hcol; subst items s.
      destruct (IH m eq_refl st1 (sn ++ [SRow r]) l st' Hcol1) as (f & sn' & Hl & Hs).
      exists f, (SRow r :: sn'). split; [cbn [map view_of_seen]; rewrite Hl; reflexivity|]. intro h0.
      specialize (Hs h0). rewrite Hc1, Hi1 in Hs. rewrite <- app_assoc in Hs. cbn [app] in Hs.
      unfold resume in *. cbn [io_rows_d]. rewrite Hk. cbn [Nat.eqb]. exact Hs.
  - inversion Hcol; subst items st'. exists 0, [SErr e]. split; [reflexivity|]. intro h0.
    unfold resume. cbn [io_rows_d]. rewrite Hk. reflexivity.
Qed.

(* any state: with an empty cache the statement iterator is asked first *)
Lemma fwd_any : forall fuel n,
  (forall st, i_cache st <> [] -> fwd_at fuel n st) -> forall st, fwd_at fuel n st.
Proof.
  intros fuel n HA st.
  destruct (i_cache st) as [|row rest] eqn:Hc; [|apply HA; rewrite Hc; discriminate].
  intros sn items st' Hcol. rewrite Hc. cbn [remaining flat_map].
  destruct (snext fuel (i_iter st) (i_ctx st)) as [w l it' c'|it' c'|[x|s] it' c'|s|] eqn:Hn.
  - rewrite collect_S, (inext_refill fuel st w l it' c' Hc Hn), <- collect_S in Hcol.
    destruct (HA (with_iter_ctx st it' c' [source_row w l]) ltac:(cbn; discriminate) sn _ _ Hcol)
      as (f & sn' & Hl & Hs).
    cbn [with_iter_ctx i_cache i_iter i_ctx] in Hs.
    change (h_of _ sn (S n)) with (h_of st sn (S n)) in Hs.
    exists (S (Nat.max f fuel)), sn'. split; [exact Hl|]. intro h0. rewrite resume_nil.
    assert (Hn' : snext (Nat.max f fuel) (i_iter st) (i_ctx st) = NYield w l it' c').
    { unfold Iter.snext in *. eapply next_mono; [exact Hn|discriminate|lia]. }
    rewrite (drain_yield _ _ _ _ _ _ _ _ Hn').
    specialize (Hs (h_of st sn (S n))).
    rewrite (resume_mono _ _ _ _ _ _ _ Hs (Nat.max f fuel) ltac:(lia)). exact Hs.
  - rewrite collect_S in Hcol. unfold Iter.inext in Hcol.
    rewrite IterLogProof.get_row_unfold, Hc, Hn in Hcol. inversion Hcol; subst items st'.
    exists (S fuel), [SNone]. split; [reflexivity|]. intro h0. rewrite resume_nil.
    unfold Iter.snext in Hn. unfold StmtCorollaries.cdrain. rewrite drain_S, Hn. reflexivity.
  - rewrite collect_S in Hcol. unfold Iter.inext in Hcol.
    rewrite IterLogProof.get_row_unfold, Hc, Hn in Hcol. inversion Hcol; subst items st'.
    exists (S fuel), [SErr (IE_Runtime (RT_Expr x))]. split; [reflexivity|]. intro h0. rewrite resume_nil.
    unfold Iter.snext in Hn. unfold StmtCorollaries.cdrain. rewrite drain_S, Hn. reflexivity.
  - rewrite collect_S in Hcol. unfold Iter.inext in Hcol.
    rewrite IterLogProof.get_row_unfold, Hc, Hn in Hcol. discriminate Hcol.
  - rewrite collect_S in Hcol. unfold Iter.inext in Hcol.
    rewrite IterLogProof.get_row_unfold, Hc, Hn in Hcol. discriminate Hcol.
  - rewrite collect_S in Hcol. unfold Iter.inext in Hcol.
    rewrite IterLogProof.get_row_unfold, Hc, Hn in Hcol. discriminate Hcol.
Qed.

Lemma collect_resume : forall fuel n st, fwd_at fuel n st.
Proof.
  intros fuel n. induction n as [|n IH]; apply fwd_any, fwd_nonempty.
  - intros m Hm. discriminate Hm.
  - intros m Hm. inversion Hm; subst m. exact IH.
Qed.

(* the state the constructor builds *)
Definition fresh (st0 : istate) : Prop :=
  i_cache st0 = [] /\ i_prev st0 = None /\ i_iter st0 = SI (tc_stmts tc) Iterate.

Lemma try_new_fresh : forall st0, try_new DE D tc = NewOk DE st0 -> fresh st0.
Proof.
  intros st0 H. unfold try_new in H.
  destruct (generate_default_input_entries tc) as [ins|r|s|]; try discriminate H.
  cbv zeta in H. destruct (D [] (RW, ins)) as [e|outs]; [discriminate H|].
  destruct (build_output_indices tc outs) as [oi|r|s|]; try discriminate H.
  inversion H; subst st0. repeat split.
Qed.

Lemma run_spec_is_cexec : forall fuel n st0, i_prev st0 = None ->
  run_spec G DE D w_default tc fuel n st0 = cexec fuel (tc_stmts tc) (i_ctx st0) (h_of st0 [] n).
Proof. intros fuel n st0 Hp. unfold run_spec, StmtCorollaries.cexec, h_of. rewrite Hp. reflexivity. Qed.

Theorem T_run_refines_sequential_reading_fresh : forall fuel n st0 items st',
  fresh st0 -> n >= 1 ->
  collect fuel n st0 = (items, Some st') ->
  exists fuel' sn lg,
    seen_of (run_spec G DE D w_default tc fuel' n st0) = Some (sn, lg) /\
    items = map view_of_seen sn /\ i_log st' = lg.
Proof.
  intros fuel n st0 items st' (Hc & Hp & Hi) Hn Hcol.
  destruct n as [|n]; [lia|].
  destruct (collect_resume fuel n st0 [] items st' Hcol) as (f & sn & Hl & Hs).
  specialize (Hs (h_of st0 [] (S n))). rewrite Hc, Hi in Hs. cbn [remaining flat_map app] in Hs.
  rewrite resume_nil in Hs.
  destruct (concrete_iterator_refined_by G rstate handler _ _ _ _ _ eq_refl (seen_of_not_oof _ _ Hs))
    as [fuel' He].
  exists fuel', sn, (i_log st'). rewrite (run_spec_is_cexec _ _ _ Hp), He. auto.
Qed.

Theorem T_run_refines_sequential_reading : forall fuel n st0 items st',
  try_new DE D tc = NewOk DE st0 -> n >= 1 ->
  collect fuel n st0 = (items, Some st') ->
  exists fuel' sn lg,
    seen_of (run_spec G DE D w_default tc fuel' n st0) = Some (sn, lg) /\
    items = map view_of_seen sn /\ i_log st' = lg.
Proof.
  intros fuel n st0 items st' Hnew. apply T_run_refines_sequential_reading_fresh.
  apply try_new_fresh. exact Hnew.
Qed.

(* ------------------------------------------------------------------ reading ==> iterator *)

Section CONVERSE.
Variable width : nat.
Hypothesis Hwf : wf_tc tc width.

Local Notation Inv := (NoPanicProof.Inv tc width).

(* with a non-empty cache next() does not look at its fuel *)
Lemma inext_nonempty_fuel : forall F st, i_cache st <> [] -> inext F st = inext 0 st.
Proof.
  intros F st Hne. unfold Iter.inext. rewrite !IterLogProof.get_row_unfold.
  destruct (i_cache st); [contradiction|reflexivity].
Qed.

Lemma inext_nonempty_no_oof : forall F st, Inv st -> i_cache st <> [] -> inext F st <> ItOOF.
Proof.
  intros F st HI Hne. destruct HI as (_ & _ & I3 & _).
  unfold Iter.inext. rewrite IterLogProof.get_row_unfold.
  destruct (i_cache st) as [|row rest] eqn:Hc; [contradiction|]. unfold finish_row. rewrite Hc.
  destruct (prepare_step tc row rest) as (top & mid & Hp & _). rewrite Hp. cbv zeta.
  destruct (generate_input_entries tc (de_entries top)
              (check_changed_entries (i_prev st) (de_entries top))) as [inputs|e|s|];
    try discriminate.
  destruct (generate_expected_entries tc (de_entries top)) as [expected|e|s|]; try discriminate.
  cbn [er_update_output er_inputs i_log i_ctx i_nout i_outidx].
  destruct (de_update_output top).
  - destruct (D (i_log st) (RW, inputs)) as [e|outs]; [discriminate|].
    destruct (extract_output_values G tc (i_nout st) (i_outidx st) outs
                (ctx_set_outputs (i_ctx st) (outs_map outs))) as [c2 r] eqn:E.
    destruct (extract_output_values_ok tc width Hwf G _ _ _ _ _ _ I3 E) as (_ & _ & K).
    destruct r; try discriminate. exact (fun _ => K).
  - destruct (D (i_log st) (if w_default then RW else WO, inputs)) as [e|outs]; discriminate.
Qed.

Lemma Inv_refill : forall F st w l it' c', Inv st ->
  snext F (i_iter st) (i_ctx st) = NYield w l it' c' ->
  Inv (with_iter_ctx st it' c' [source_row w l]).
Proof.
  intros F st w l it' c' (I1 & I2 & I3 & I4 & [own I5] & I6 & I7) Hn.
  pose proof (snext_post tc width G F (i_iter st) (i_ctx st) own [] I6 I4 I5) as Hp.
  rewrite Hn in Hp. cbn [post] in Hp. destruct Hp as (W' & C' & Ok' & Gw & own' & _ & F').
  unfold NoPanicProof.Inv, with_iter_ctx. cbn [i_cache i_prev i_outidx i_iter i_ctx].
  split; [constructor; [exact Gw|constructor]|]. split; [exact I2|]. split; [exact I3|].
  split; [exact Ok'|]. split; [exists own'; exact F'|]. split; [exact W'|]. congruence.
Qed.

Definition bwd_at (n : nat) (st : istate) : Prop :=
  forall f h0 sn x lg,
  seen_of (resume f h0 (remaining (i_cache st)) (i_iter st) (i_ctx st) (h_of st sn (S n))) = Some (x, lg) ->
  exists sn' st', x = sn ++ sn' /\ i_log st' = lg /\
    forall F, f <= F -> collect F (S n) st = (map view_of_seen sn', Some st').

Lemma bwd_nonempty : forall n,
  (forall m, n = S m -> forall st, Inv st -> bwd_at m st) ->
  forall st, Inv st -> i_cache st <> [] -> bwd_at n st.
Proof.
  intros n IH st HI Hne f h0 sn x lg Hs.
  destruct (i_cache st) as [|row rest] eqn:Hc; [contradiction|].
  destruct (prepare_step tc row rest) as (top & mid & Hp & Hg). rewrite <- Hc in Hp.
  assert (Hne' : i_cache st <> []) by (rewrite Hc; discriminate).
  pose proof (inext_io_row 0 st top (mid ++ rest) sn n Hne' Hp) as Hk. cbv zeta in Hk.
  assert (Hrem : remaining (row :: rest) = top :: remaining (mid ++ rest)).
  { unfold remaining. cbn [flat_map]. rewrite Hg, flat_map_app. reflexivity. }
  rewrite Hrem in Hs. unfold resume in Hs. cbn [io_rows_d] in Hs.
  pose proof (inext_no_panic tc width Hwf G DE D w_default st HI 0) as Hnp.
  pose proof (inext_nonempty_no_oof 0 st HI Hne') as Hno.
  pose proof (NoPanicProof.inext_inv tc width Hwf G DE D w_default st 0 HI) as HI1.
  assert (Hfuel : forall F, inext F st = inext 0 st)
    by (intro F; apply inext_nonempty_fuel; exact Hne').
  destruct (inext 0 st) as [st1|r st1|e st1|s|] eqn:Hi;
    [contradiction| | |exfalso; exact (Hnp s eq_refl)|exfalso; exact (Hno eq_refl)].
  - destruct Hk as (Hk & Hc1 & Hi1). rewrite Hk in Hs. destruct n as [|m]; cbn [Nat.eqb] in Hs.
    + cbn in Hs. inversion Hs; subst x lg. exists [SRow r], st1. split; [reflexivity|].
      split; [reflexivity|]. intros F _. rewrite collect_S, Hfuel. reflexivity.
    + rewrite <- Hc1, <- Hi1 in Hs.
      destruct (IH m eq_refl st1 HI1 f h0 (sn ++ [SRow r]) x lg Hs) as (sn' & st' & Hx & Hl & Hcol).
      exists (SRow r :: sn'), st'. split; [rewrite Hx, <- app_assoc; reflexivity|].
      split; [exact Hl|]. intros F HF. rewrite collect_S, Hfuel, (Hcol F HF). reflexivity.
  - rewrite Hk in Hs. cbn in Hs. inversion Hs; subst x lg. exists [SErr e], st1.
    split; [reflexivity|]. split; [reflexivity|]. intros F _. rewrite collect_S, Hfuel. reflexivity.
Qed.

Lemma bwd_any : forall n,
  (forall st, Inv st -> i_cache st <> [] -> bwd_at n st) -> forall st, Inv st -> bwd_at n st.
Proof.
  intros n HA st HI.
  destruct (i_cache st) as [|row rest] eqn:Hc; [|apply HA; [exact HI|rewrite Hc; discriminate]].
  intros f h0 sn x lg Hs. rewrite Hc in Hs. cbn [remaining flat_map] in Hs. rewrite resume_nil in Hs.
  destruct f as [|f]; [discriminate Hs|].
  assert (Hmono : forall r, snext f (i_iter st) (i_ctx st) = r -> r <> NOOF ->
                  forall F, S f <= F -> snext F (i_iter st) (i_ctx st) = r).
  { intros r Hr Hno F HF. unfold Iter.snext in *. eapply next_mono; [exact Hr|exact Hno|lia]. }
  destruct (snext f (i_iter st) (i_ctx st)) as [w l it' c'|it' c'|[e|s] it' c'|s|] eqn:Hn.
  - rewrite (drain_yield _ _ _ _ _ _ _ _ Hn) in Hs.
    pose proof (Inv_refill f st w l it' c' HI Hn) as HI1.
    destruct (HA _ HI1 ltac:(cbn; discriminate) f (h_of st sn (S n)) sn x lg Hs)
      as (sn' & st' & Hx & Hl & Hcol).
    exists sn', st'. split; [exact Hx|]. split; [exact Hl|]. intros F HF.
    rewrite collect_S, (inext_refill F st w l it' c' Hc (Hmono _ eq_refl ltac:(discriminate) F HF)),
      <- collect_S.
    apply Hcol. lia.
  - unfold StmtCorollaries.cdrain in Hs. rewrite drain_S in Hs.
    pose proof Hn as Hn0. unfold Iter.snext in Hn0. rewrite Hn0 in Hs. cbn in Hs.
    inversion Hs; subst x lg. exists [SNone], (with_iter_ctx st it' c' []).
    split; [reflexivity|]. split; [reflexivity|]. intros F HF.
    rewrite collect_S. unfold Iter.inext.
    rewrite IterLogProof.get_row_unfold, Hc, (Hmono _ eq_refl ltac:(discriminate) F HF). reflexivity.
  - unfold StmtCorollaries.cdrain in Hs. rewrite drain_S in Hs.
    pose proof Hn as Hn0. unfold Iter.snext in Hn0. rewrite Hn0 in Hs. cbn in Hs.
    inversion Hs; subst x lg. exists [SErr (IE_Runtime (RT_Expr e))], (with_iter_ctx st it' c' []).
    split; [reflexivity|]. split; [reflexivity|]. intros F HF.
    rewrite collect_S. unfold Iter.inext.
    rewrite IterLogProof.get_row_unfold, Hc, (Hmono _ eq_refl ltac:(discriminate) F HF). reflexivity.
  - unfold StmtCorollaries.cdrain in Hs. rewrite drain_S in Hs.
    unfold Iter.snext in Hn. rewrite Hn in Hs. discriminate Hs.
  - unfold StmtCorollaries.cdrain in Hs. rewrite drain_S in Hs.
    unfold Iter.snext in Hn. rewrite Hn in Hs. discriminate Hs.
  - unfold StmtCorollaries.cdrain in Hs. rewrite drain_S in Hs.
    unfold Iter.snext in Hn. rewrite Hn in Hs. discriminate Hs.
Qed.

Lemma resume_collect : forall n st, Inv st -> bwd_at n st.
Proof.
  induction n as [|n IH]; apply bwd_any, bwd_nonempty.
  - intros m Hm. discriminate Hm.
  - intros m Hm. inversion Hm; subst m. exact IH.
Qed.

Theorem T_sequential_reading_refines_run : forall fuel' n st0 sn lg,
  try_new DE D tc = NewOk DE st0 -> n >= 1 ->
  seen_of (run_spec G DE D w_default tc fuel' n st0) = Some (sn, lg) ->
  exists fuel st',
    collect fuel n st0 = (map view_of_seen sn, Some st') /\ i_log st' = lg.
Proof.
  intros fuel' n st0 sn lg Hnew Hn Hs.
  destruct (try_new_fresh st0 Hnew) as (Hc & Hp & Hi).
  pose proof (try_new_inv tc width Hwf DE D st0 Hnew) as HI.
  destruct n as [|n]; [lia|].
  rewrite (run_spec_is_cexec _ _ _ Hp) in Hs.
  destruct (concrete_iterator_refines G rstate handler _ _ _ _ _ eq_refl (seen_of_not_oof _ _ Hs))
    as [f Hd].
  rewrite <- Hd, <- Hi in Hs.
  destruct (resume_collect n st0 HI f (h_of st0 [] (S n)) [] sn lg) as (sn' & st' & Hx & Hl & Hcol).
  { rewrite Hc. exact Hs. }
  cbn [app] in Hx. subst sn'. exists f, st'. split; [apply Hcol; lia|exact Hl].
Qed.

End CONVERSE.

End RUNREFINE.

(* ------------------------------------------------------------------ non-vacuity *)

(* a program with a let, a loop whose row holds an X and a C in input columns (2 passes x 2
   assignments x clock triple = 12 rows) and a plain row; the scripted driver of Script.v *)
Module Example_run.
  Import Coq.Strings.String.
  Definition nl : string := String (Ascii.ascii_of_nat 10) EmptyString.
  Definition src : string :=
    ("A B CK Y" ++ nl ++ "let a = 1;" ++ nl ++ "loop(i,2)" ++ nl ++ "X (i+a) C X" ++ nl ++
     "end loop" ++ nl ++ "1 0 0 1" ++ nl)%string.
  Definition sA := {| sname := s2n "A"; sbits := 1%N; styp := TyInput (IVal 0%Z) |}.
  Definition sB := {| sname := s2n "B"; sbits := 4%N; styp := TyInput (IVal 0%Z) |}.
  Definition sCK := {| sname := s2n "CK"; sbits := 1%N; styp := TyInput (IVal 0%Z) |}.
  Definition sY := {| sname := s2n "Y"; sbits := 1%N; styp := TyOutput |}.
  Definition sigs := [sA; sB; sCK; sY].
  Definition G : gen := fun _ _ => 0%Z.
  Definition sc (faults : list (nat * Script.fault)) : Script.script :=
    {| Script.sc_layout := [3]; Script.sc_table := [[OVal 1%Z]; [OVal 0%Z]]; Script.sc_echo := false;
       Script.sc_faults := faults |}.

  (* the first n calls of next() yield k items, and they and the driver log are those of run_spec *)
  Definition agrees (faults : list (nat * Script.fault)) (wd : bool) (fuel n k : nat) : Prop :=
    match Parser.parse (s2n src) with
    | Ok p =>
        match with_signals p sigs with
        | Ok tc =>
            let D := Script.script_driver sigs (sc faults) in
            match try_new N D tc with
            | NewOk _ st0 =>
                match IterLogProof.collect G N D wd tc fuel n st0,
                      RunSpec.seen_of N (run_spec G N D wd tc fuel n st0) with
                | (items, Some st'), Some (sn, lg) =>
                    items = map view_of_seen sn /\ i_log st' = lg /\ List.length items = k
                | _, _ => False
                end
            | _ => False
            end
        | _ => False
        end
    | _ => False
    end.

  Example run_1 : agrees [] false 50 1 1.
  Proof. vm_compute. repeat split. Qed.
  Example run_3 : agrees [] true 50 3 3.
  Proof. vm_compute. repeat split. Qed.
  (* 12 + 1 rows and the final None *)
  Example run_20 : agrees [] false 50 20 14.
  Proof. vm_compute. repeat split. Qed.
  (* the driver fails at its call number 5 (the constructor's call is number 0) *)
  Example run_driver_error : agrees [(5, Script.FErr 9%N)] false 50 20 5.
  Proof. vm_compute. repeat split. Qed.
  (* an answer without its output at call number 6 (a checked row): an error item *)
  Example run_bad_answer : agrees [(6, Script.FDrop 0)] false 50 20 6.
  Proof. vm_compute. repeat split. Qed.
End Example_run.

Print Assumptions T_sequential_reading_refines_run.
Print Assumptions T_run_refines_sequential_reading.
