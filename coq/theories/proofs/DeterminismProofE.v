(* Property C15, item 5 continued: the static run previews every dynamic run
     (1) also when the test declares VIRTUAL signals (DeterminismProof.v assumed `no_virtual`), and
     (2) also for a caller that KEEPS CALLING next() after error items (RunRefineE.collect_e).

   Virtual signals.  A virtual signal `declare v = e;` is an expected column whose "output" is
   the value of e, evaluated by extract_output_values after every read-write call, over the
   context with the program variables swapped away (the alternate map, always empty) and the
   device outputs of that call.  In the static run the outputs are empty, so e sees nothing at
   all: every identifier it reaches is an UnknownVariable error -- the case `no_unknown`
   excludes.  Otherwise (DeterminismProof.eval_preview) e takes the same path and has the same
   value, error and random draws in both runs.  The state relation strel_v therefore demands,
   position by position of the output indices, either "static OINone / dynamic not virtual" or
   "OIVirtual e on both sides, same e", and that the alternate maps agree.

   What is NOT true with virtual signals is the letter of DeterminismProof.sim_items: its clause
   for a device failure in the dynamic run (driver error, unusable answer) demands a ROW at that
   place of the static run.  With a virtual signal whose expression fails (1/0) the static run
   has an evaluation-error item there (the error is raised after the -- static, empty -- answer
   was read) while a dynamic run whose device fails at that call has the device's error.
   c15v_counterexample / C15_static_equals_dynamic_v_refuted is that witness; sim_items_v is
   sim_items with that clause widened ("a row or an evaluation error"), and it is proved.

   Through errors.  sim_items_e go: the comparison goes on after an evaluation error (the same
   on both sides); after a device failure in the dynamic run it stops (go = false) or goes on
   (go = true).  It may go on whenever no virtual signal mentions random(): then the two states
   are still related after the failure.  If a virtual signal draws random numbers they are not
   (the static run has drawn, the dynamic run has not): c15v_random_counterexample. *)
From Coq Require Import String.
From DTR Require Import Prelude I64 Ast FramedMap Lexer Parser Bind Eval Stmt Iter WfSpec Script Static.
From DTR.proofs Require Import EvalProof StmtRefine IterLogProof NoPanicProof OutputsProof
                               RunRefineE IterLogProofE DeterminismProof.
Local Open Scope nat_scope.

Local Arguments NYield {C F W} w line it c.
Local Arguments NDone {C F W} it c.
Local Arguments NErr {C F W} f it c.
Local Arguments NPanic {C F W} site.
Local Arguments NOOF {C F W}.
Local Arguments ItNone {DE} st.
Local Arguments ItRow {DE} row st.
Local Arguments ItErr {DE} e st.
Local Arguments ItPanic {DE} s.
Local Arguments ItOOF {DE}.
Local Arguments NewOk {DE} st.
Local Arguments NewErr {DE} e log.
Local Arguments NewPanic {DE} s.

(* ================================================================== the relations *)

(* an output index of the static iterator against the one of a dynamic iterator at the same
   expected column: the static driver answers with no outputs, so nothing is ever found in the
   static run; a virtual signal is virtual, with the same expression, on both sides *)
Definition oirel (o o' : out_index) : Prop :=
  match o with
  | OINone => oi_novirt o'
  | OIVirtual e => o' = OIVirtual e
  | OIOutput _ => False
  end.

(* the state of the static iterator and the state of a dynamic one, virtual signals allowed *)
Definition strel_v (st st' : istate) : Prop :=
  srel (i_ctx st) (i_ctx st') /\ calt (i_ctx st) = calt (i_ctx st') /\
  i_iter st = i_iter st' /\ i_prev st = i_prev st' /\ i_cache st = i_cache st' /\
  Forall2 oirel (i_outidx st) (i_outidx st') /\
  i_nout st = 0.

(* the old relation is the special case without virtual signals *)
Lemma strel_strel_v : forall st st', strel st st' -> calt (i_ctx st) = calt (i_ctx st') -> strel_v st st'.
Proof.
  intros st st' (Hc & Hi & Hp & Hca & Ho1 & Ho2 & Hl & Hn) Ha. unfold strel_v.
  repeat split; try assumption; try (destruct Hc as [H1 [H2 H3]]; assumption).
  revert Ho1 Ho2 Hl. generalize (i_outidx st) as a, (i_outidx st') as b.
  induction a as [|x a IH]; intros [|y b] H1 H2 Hl; try discriminate Hl; constructor.
  - inversion H1; subst. inversion H2; subst. unfold oi_none in *. subst x. assumption.
  - inversion H1; subst. inversion H2; subst. apply IH; try assumption. injection Hl as Hl. exact Hl.
Qed.

Lemma oirel_no_random : forall oi oi', Forall2 oirel oi oi' ->
  no_random_entries oi' = true -> no_random_entries oi = true.
Proof.
  intros oi oi' H. induction H as [|o o' oi oi' Ho _ IH]; intro Hn; [reflexivity|].
  destruct o as [|n|e]; cbn [oirel] in Ho.
  - cbn [no_random_entries]. apply IH. destruct o' as [|n'|e']; cbn [no_random_entries] in Hn; try exact Hn.
    apply andb_true_iff in Hn. exact (proj2 Hn).
  - contradiction.
  - subst o'. cbn [no_random_entries] in *. apply andb_true_iff in Hn. destruct Hn as [H1 H2].
    rewrite H1, (IH H2). reflexivity.
Qed.

(* ================================================================== get_row *)

Section PREVIEW_ROWS_V.
Variable G : gen.
Variable tc : testcase.

Lemma finish_row_sim_v : forall st1 st1', strel_v st1 st1' ->
  match finish_row tc st1 with
  | GRNone s => exists s', finish_row tc st1' = GRNone s' /\ strel_v s s'
  | GRRow er s => exists s', finish_row tc st1' = GRRow er s' /\ strel_v s s'
  | GRErr x s => if is_unk x then True
                 else exists s', finish_row tc st1' = GRErr x s' /\ strel_v s s'
  | _ => True
  end.
Proof.
  intros st1 st1' (Hc & Ha & Hi & Hp & Hca & Ho & Hn). unfold finish_row.
  rewrite <- Hca, <- Hp.
  destruct (prepare_cache tc (i_cache st1)) as [[|row rest]|e|s|]; try exact I.
  cbv zeta.
  destruct (generate_input_entries tc (de_entries row)
              (check_changed_entries (i_prev st1) (de_entries row))) as [inputs|e|s|]; try exact I.
  destruct (generate_expected_entries tc (de_entries row)) as [expected|e|s|]; try exact I.
  eexists. split; [reflexivity|]. unfold strel_v. cbn. auto 10.
Qed.

Lemma get_row_sim_v : forall fuel st st', strel_v st st' ->
  match get_row G tc fuel st with
  | GRNone s => exists s', get_row G tc fuel st' = GRNone s' /\ strel_v s s'
  | GRRow er s => exists s', get_row G tc fuel st' = GRRow er s' /\ strel_v s s'
  | GRErr x s => if is_unk x then True
                 else exists s', get_row G tc fuel st' = GRErr x s' /\ strel_v s s'
  | _ => True
  end.
Proof.
  intros fuel st st' Hst. rewrite !get_row_unfold.
  pose proof Hst as (Hc & Ha & Hi & Hp & Hca & Ho & Hn). rewrite <- Hca, <- Hi.
  destruct (i_cache st) as [|d rest] eqn:Ecache.
  - pose proof (snext_sim G fuel (i_iter st) _ _ Hc) as Hs.
    pose proof (snext_preserves G fuel (i_iter st) (i_ctx st) _ eq_refl) as P1.
    pose proof (snext_preserves G fuel (i_iter st) (i_ctx st') _ eq_refl) as P2.
    destruct (snext G fuel (i_iter st) (i_ctx st)) as [w l it1 c1|it1 c1|[x|s] c1|s|];
      cbn [sim_nres unk_f] in Hs; try exact I.
    + destruct Hs as [c1' [E Hs1]]. rewrite E in P2 |- *. apply finish_row_sim_v.
      unfold strel_v. cbn. destruct P1 as [_ P1]. destruct P2 as [_ P2].
      repeat split; try assumption; try (destruct Hs1 as [H1 [H2 H3]]; assumption). congruence.
    + destruct Hs as [c1' [E Hs1]]. rewrite E in P2 |- *. eexists. split; [reflexivity|].
      unfold strel_v. cbn. destruct P1 as [_ P1]. destruct P2 as [_ P2].
      repeat split; try assumption; try (destruct Hs1 as [H1 [H2 H3]]; assumption). congruence.
    + destruct (is_unk x); [exact I|]. destruct Hs as [c1' [E Hs1]]. rewrite E in P2 |- *.
      eexists. split; [reflexivity|].
      unfold strel_v. cbn. destruct P1 as [_ P1]. destruct P2 as [_ P2].
      repeat split; try assumption; try (destruct Hs1 as [H1 [H2 H3]]; assumption). congruence.
  - apply finish_row_sim_v. exact Hst.
Qed.

End PREVIEW_ROWS_V.

(* ================================================================== reading an answer *)

Definition xres := (ctx * R rterr (list outval))%type.

(* the dynamic run cannot use the device's answer (or the model panics: excluded by C10) *)
Definition dev_fail (r : R rterr (list outval)) : Prop :=
  match r with Ok _ => False | Err (RT_Expr _) => False | _ => True end.

(* extract_output_values of the static run (p) against the one of a dynamic run (p') *)
Definition xsim (p p' : xres) : Prop :=
  dev_fail (snd p') \/
  match snd p with
  | Ok vals => exists vals', snd p' = Ok vals' /\ length vals' = length vals /\ srel (fst p) (fst p')
  | Err (RT_Expr x) => if is_unk x then True else snd p' = Err (RT_Expr x) /\ srel (fst p) (fst p')
  | _ => True
  end.

Definition consr (v : outval) (p : xres) : xres :=
  let (c2, r) := p in
  match r with
  | Ok vs => (c2, Ok (v :: vs))
  | Err e => (c2, Err e)
  | Panic s => (c2, Panic s)
  | OOF => (c2, OOF)
  end.

Lemma xsim_consr : forall v v' p p', xsim p p' -> xsim (consr v p) (consr v' p').
Proof.
  intros v v' [c r] [c' r'] [H|H]; unfold xsim, consr in *; cbn [fst snd] in *.
  - left. destruct r' as [vs'|e|s|]; cbn [fst snd dev_fail] in *; try exact I; try contradiction. exact H.
  - destruct r as [vs|e|s|]; cbn [fst snd].
    + destruct H as [vals' [-> [Hl Hs]]]. right. exists (v' :: vals'). cbn [length fst snd]. auto.
    + destruct e as [| | |x]; try (right; exact I).
      destruct (is_unk x) eqn:Eu; [right; exact I|].
      destruct H as [-> Hs]. right. cbn [fst snd]. auto.
    + right. exact I.
    + right. exact I.
Qed.

Section EXTRACT_V.
Variable G : gen.
Variable tc : testcase.

Lemma extract_loop_cons : forall ei oi r outs c,
  extract_loop G tc ((ei, oi) :: r) outs c =
  match oi with
  | OINone => consr OX (extract_loop G tc r outs c)
  | OIOutput n =>
      match get_signal tc (ei_signal_index ei) with
      | Ok sg =>
          match nth_error outs n with
          | None => (c, Err RT_WrongOutputOrder)
          | Some o => if signal_eqb sg (oe_sig o) then consr (oe_val o) (extract_loop G tc r outs c)
                      else (c, Err RT_WrongOutputOrder)
          end
      | Err e => (c, Err e) | Panic s => (c, Panic s) | OOF => (c, OOF)
      end
  | OIVirtual e =>
      match ctx_eval G c e with
      | (c1, Ok n) => consr (OVal n) (extract_loop G tc r outs c1)
      | (c1, Err x) => (c1, Err (RT_Expr x))
      | (c1, Panic s) => (c1, Panic s)
      | (c1, OOF) => (c1, OOF)
      end
  end.
Proof.
  intros ei oi r outs c. cbn [extract_loop]. destruct oi as [|n|e].
  - reflexivity.
  - destruct (get_signal tc (ei_signal_index ei)) as [sg|e|s|]; try reflexivity.
    destruct (nth_error outs n) as [o|]; [|reflexivity].
    destruct (signal_eqb sg (oe_sig o)); reflexivity.
  - destruct (ctx_eval G c e) as [c1 [n|x|s|]]; reflexivity.
Qed.

(* the loop over the expected columns: the static run (empty answer) against a dynamic run *)
Lemma extract_loop_sim_v : forall oi oi', Forall2 oirel oi oi' ->
  forall eis outs c c', srel c c' ->
  xsim (extract_loop G tc (combine eis oi) [] c) (extract_loop G tc (combine eis oi') outs c').
Proof.
  intros oi oi' H. induction H as [|o o' oi oi' Ho _ IH]; intros eis outs c c' Hs.
  - rewrite !combine_nil_r. cbn [extract_loop]. right. cbn [fst snd]. exists []. auto.
  - destruct eis as [|ei eis].
    { cbn [combine extract_loop]. right. cbn [fst snd]. exists []. auto. }
    cbn [combine]. rewrite !extract_loop_cons.
    destruct o as [|n|e]; cbn [oirel] in Ho.
    + destruct o' as [|n'|e'].
      * apply xsim_consr. apply IH. exact Hs.
      * unfold get_signal. destruct (nth_error (signals tc) (ei_signal_index ei)) as [sg|];
          [|left; exact I].
        destruct (nth_error outs n') as [o|]; [|left; exact I].
        destruct (signal_eqb sg (oe_sig o)); [|left; exact I].
        apply xsim_consr. apply IH. exact Hs.
      * exfalso. exact (Ho e' eq_refl).
    + contradiction.
    + subst o'. destruct (ctx_eval G c e) as [c1 v] eqn:E.
      destruct (unk_r v) eqn:Hu.
      { destruct v as [z|x|s|]; try discriminate Hu. right. cbn [fst snd]. cbn [unk_r] in Hu.
        rewrite Hu. exact I. }
      destruct (ctx_eval_preview G _ _ _ _ _ Hs E Hu) as [c1' [E' Hs1]]. rewrite E'.
      destruct v as [z|x|s|].
      * apply xsim_consr. apply IH. exact Hs1.
      * right. cbn [fst snd]. cbn [unk_r] in Hu. rewrite Hu. auto.
      * right. exact I.
      * right. exact I.
Qed.

Lemma srel_swap : forall c c', srel c c' -> calt c = calt c' -> srel (ctx_swap_vars c) (ctx_swap_vars c').
Proof. intros c c' [H1 [H2 H3]] Ha. repeat split; assumption. Qed.

(* extract_output_values: nout = 0 and the empty answer on the static side *)
Lemma extract_sim_v : forall oi oi' nout' outs c c', Forall2 oirel oi oi' ->
  srel c c' -> calt c = calt c' ->
  xsim (extract_output_values G tc 0 oi [] c) (extract_output_values G tc nout' oi' outs c').
Proof.
  intros oi oi' nout' outs c c' Ho Hs Ha. unfold extract_output_values.
  cbn [length Nat.eqb negb].
  destruct (negb (Nat.eqb (length outs) nout')); [left; exact I|].
  pose proof (extract_loop_sim_v _ _ Ho (tc_expected_indices tc) outs _ _ (srel_swap _ _ Hs Ha)) as X.
  destruct (extract_loop G tc (combine (tc_expected_indices tc) oi) [] (ctx_swap_vars c)) as [c1 r] eqn:E1.
  destruct (extract_loop G tc (combine (tc_expected_indices tc) oi') outs (ctx_swap_vars c')) as [c1' r'] eqn:E1'.
  apply extract_loop_rng_only in E1. apply extract_loop_rng_only in E1'.
  destruct E1 as [_ [A1 _]]. destruct E1' as [_ [A1' _]]. cbn [ctx_swap_vars calt] in A1, A1'.
  assert (Hsw : srel c1 c1' -> srel (ctx_swap_vars c1) (ctx_swap_vars c1')).
  { intro K. apply srel_swap; [exact K|]. destruct Hs as [_ [Hv _]]. congruence. }
  destruct X as [X|X]; [left; exact X|]. right. cbn [fst snd] in *.
  destruct r as [vals|e|s|]; try exact I.
  - destruct X as [vals' [-> [Hl K]]]. exists vals'. auto.
  - destruct e as [| | |x]; try exact I. destruct (is_unk x); [exact I|].
    destruct X as [-> K]. auto.
Qed.

(* without random() in the virtual signals the context comes back unchanged *)
Lemma ctx_eval_no_random : forall c e, mentions_random e = false -> fst (ctx_eval G c e) = c.
Proof.
  intros c e H. unfold ctx_eval. pose proof (eval_no_random_no_draw G e c (crng c) H) as K.
  destruct (eval G c e (crng c)) as [r rng']. cbn [snd fst] in *. subst rng'. destruct c; reflexivity.
Qed.

Lemma consr_fst : forall v p, fst (consr v p) = fst p.
Proof. intros v [c [vs|e|s|]]; reflexivity. Qed.

Lemma extract_loop_no_random : forall oi eis outs c, no_random_entries oi = true ->
  fst (extract_loop G tc (combine eis oi) outs c) = c.
Proof.
  induction oi as [|o oi IH]; intros eis outs c H.
  - rewrite combine_nil_r. reflexivity.
  - destruct eis as [|ei eis]; [reflexivity|]. cbn [combine]. rewrite extract_loop_cons.
    destruct o as [|n|e]; cbn [no_random_entries] in H.
    + rewrite consr_fst. apply IH. exact H.
    + destruct (get_signal tc (ei_signal_index ei)) as [sg|e|s|]; try reflexivity.
      destruct (nth_error outs n) as [o|]; [|reflexivity].
      destruct (signal_eqb sg (oe_sig o)); [|reflexivity]. rewrite consr_fst. apply IH. exact H.
    + apply andb_true_iff in H. destruct H as [H1 H2]. apply negb_true_iff in H1.
      pose proof (ctx_eval_no_random c e H1) as K.
      destruct (ctx_eval G c e) as [c1 [z|x|s|]]; cbn [fst] in K; subst c1; try reflexivity.
      rewrite consr_fst. apply IH. exact H2.
Qed.

Lemma extract_no_random : forall nout oi outs c, no_random_entries oi = true ->
  fst (extract_output_values G tc nout oi outs c) = c.
Proof.
  intros nout oi outs c H. unfold extract_output_values.
  destruct (negb (Nat.eqb (length outs) nout)); [reflexivity|].
  pose proof (extract_loop_no_random oi (tc_expected_indices tc) outs (ctx_swap_vars c) H) as K.
  destruct (extract_loop G tc (combine (tc_expected_indices tc) oi) outs (ctx_swap_vars c)) as [c1 r].
  cbn [fst] in *. subst c1. apply ctx_swap_swap.
Qed.

(* the static run reads the empty answer: no layout error is possible *)
Definition static_ok (r : R rterr (list outval)) : Prop :=
  match r with Err (RT_Expr _) => True | Err _ => False | _ => True end.

Lemma static_ok_consr : forall v p, static_ok (snd p) -> static_ok (snd (consr v p)).
Proof. intros v [c [vs|e|s|]] H; exact H. Qed.

Lemma extract_loop_static_ok : forall oi oi', Forall2 oirel oi oi' ->
  forall eis c, static_ok (snd (extract_loop G tc (combine eis oi) [] c)).
Proof.
  intros oi oi' H. induction H as [|o o' oi oi' Ho _ IH]; intros eis c.
  - rewrite combine_nil_r. exact I.
  - destruct eis as [|ei eis]; [exact I|]. cbn [combine]. rewrite extract_loop_cons.
    destruct o as [|n|e]; cbn [oirel] in Ho.
    + apply static_ok_consr. apply IH.
    + contradiction.
    + destruct (ctx_eval G c e) as [c1 [z|x|s|]]; try exact I. apply static_ok_consr. apply IH.
Qed.

Lemma extract_static_ok : forall oi oi' c, Forall2 oirel oi oi' ->
  static_ok (snd (extract_output_values G tc 0 oi [] c)).
Proof.
  intros oi oi' c H. unfold extract_output_values. cbn [length Nat.eqb negb].
  pose proof (extract_loop_static_ok _ _ H (tc_expected_indices tc) (ctx_swap_vars c)) as K.
  destruct (extract_loop G tc (combine (tc_expected_indices tc) oi) [] (ctx_swap_vars c)) as [c1 r].
  exact K.
Qed.

End EXTRACT_V.

(* ================================================================== one next() *)

Section STEP_V.
Variable G : gen.
Variable tc : testcase.
Variable DE : Type.
Variable D : driver DE.
Variable w_default : bool.

(* after a device failure in the dynamic run (the static run went on evaluating the virtual
   signals, the dynamic run did not) the two states are still related provided no virtual
   signal draws random numbers *)
Definition after_fail (s s' : istate) : Prop :=
  no_random_entries (i_outidx s') = true -> strel_v s s'.

(* one next(): the static iterator's item against the dynamic iterator's *)
Definition sim_item_v (rs : item N) (rd : item DE) : Prop :=
  match rs with
  | ItNone s => exists s', rd = ItNone s' /\ strel_v s s'
  | ItRow row s =>
      match rd with
      | ItRow row' s' => static_row row' = static_row row /\ strel_v s s'
      | ItErr (IE_Runtime (RT_Expr _)) _ => False
      | ItErr _ s' => after_fail s s'             (* the device failed or answered wrongly *)
      | ItNone _ => False
      | ItPanic _ | ItOOF => True                 (* excluded by C10 on well-formed tests *)
      end
  | ItErr (IE_Runtime (RT_Expr x)) s =>
      if is_unk x then True else
      match rd with
      | ItErr (IE_Runtime (RT_Expr x')) s' => x' = x /\ strel_v s s'
      | ItErr _ s' => after_fail s s'             (* only when x arose in a virtual signal *)
      | ItPanic _ | ItOOF => True
      | ItRow _ _ | ItNone _ => False
      end
  | ItErr _ _ => False
  | ItPanic _ | ItOOF => True
  end.

Lemma strel_v_io : forall s s' c c' lg lg',
  strel_v s s' -> srel c c' -> calt c = calt c' -> strel_v (with_ctx_log s c lg) (with_ctx_log s' c' lg').
Proof.
  intros s s' c c' lg lg' (Hc & Ha & Hi & Hp & Hca & Ho & Hn) H Hal. unfold strel_v. cbn. auto 10.
Qed.

Lemma srel_set_outputs : forall c c' o', srel c c' -> srel (ctx_set_outputs c []) (ctx_set_outputs c' o').
Proof. intros c c' o' [H1 [H2 H3]]. repeat split; assumption. Qed.

Theorem inext_sim_v : forall fuel st st', strel_v st st' ->
  sim_item_v (inext G N static_driver true tc fuel st) (inext G DE D w_default tc fuel st').
Proof.
  intros fuel st st' Hst. unfold inext. pose proof (get_row_sim_v G tc fuel st st' Hst) as Hg.
  destruct (get_row G tc fuel st) as [s1|er s1|x s1|p|]; try exact I.
  - destruct Hg as [s1' [-> Hs1]]. cbn. eauto.
  - destruct Hg as [s1' [-> Hs1]].
    pose proof Hs1 as (Hc & Ha & Hi & Hp & Hca & Ho & Hn).
    destruct (er_update_output er).
    + unfold static_driver at 1. cbv zeta. rewrite Hn.
      change (outs_map []) with (@nil (name * outval)).
      set (c1 := ctx_set_outputs (i_ctx s1) []).
      pose proof (extract_static_ok G tc _ _ c1 Ho) as SO.
      pose proof (extract_no_random G tc 0 (i_outidx s1) [] c1) as NR.
      assert (X : forall outs, xsim (extract_output_values G tc 0 (i_outidx s1) [] c1)
                    (extract_output_values G tc (i_nout s1') (i_outidx s1') outs
                       (ctx_set_outputs (i_ctx s1') (outs_map outs)))).
      { intro outs. apply extract_sim_v; [exact Ho | apply srel_set_outputs; exact Hc | exact Ha]. }
      destruct (extract_output_values G tc 0 (i_outidx s1) [] c1) as [c2 r] eqn:Ex.
      pose proof (extract_output_values_rng_only G tc _ _ _ _ _ _ Ex) as [_ [A2 _]].
      cbn [fst snd] in *.
      (* the states after a device failure, when the virtual signals do not draw *)
      assert (AF : forall c' lg lg', cvars c' = cvars (i_ctx s1') -> calt c' = calt (i_ctx s1') ->
                     crng c' = crng (i_ctx s1') ->
                     after_fail (with_ctx_log s1 c2 lg) (with_ctx_log s1' c' lg')).
      { intros c' lg lg' K1 K2 K3 Hnr. cbn [with_ctx_log i_outidx] in Hnr.
        rewrite (NR (oirel_no_random _ _ Ho Hnr)). apply strel_v_io; [exact Hs1| |].
        - destruct Hc as [H1 [H2 H3]]. unfold c1. repeat split; cbn; congruence.
        - unfold c1. cbn. congruence. }
      destruct (D (i_log s1') (RW, er_inputs er)) as [e|outs].
      * destruct r as [vals|[| | |x]|s|]; cbn [sim_item_v]; try exact I; try contradiction.
        -- apply AF; reflexivity.
        -- destruct (is_unk x); [exact I|]. apply AF; reflexivity.
      * specialize (X outs).
        pose proof (extract_no_random G tc (i_nout s1') (i_outidx s1') outs
                      (ctx_set_outputs (i_ctx s1') (outs_map outs))) as NR'.
        destruct (extract_output_values G tc (i_nout s1') (i_outidx s1') outs
                    (ctx_set_outputs (i_ctx s1') (outs_map outs))) as [c2' r'] eqn:Ex'.
        pose proof (extract_output_values_rng_only G tc _ _ _ _ _ _ Ex') as [_ [A2' _]].
        cbn [fst snd ctx_set_outputs calt] in *.
        assert (AF' : after_fail (with_ctx_log s1 c2 (i_log s1 ++ [(RW, er_inputs er)]))
                                 (with_ctx_log s1' c2' (i_log s1' ++ [(RW, er_inputs er)]))).
        { intro Hnr. cbn [with_ctx_log i_outidx] in Hnr. specialize (NR' Hnr). subst c2'.
          apply AF; try reflexivity. exact Hnr. }
        assert (Hal : srel c2 c2' -> strel_v (with_ctx_log s1 c2 (i_log s1 ++ [(RW, er_inputs er)]))
                                             (with_ctx_log s1' c2' (i_log s1' ++ [(RW, er_inputs er)]))).
        { intro K. apply strel_v_io; [exact Hs1 | exact K |].
          unfold c1 in A2. cbn [ctx_set_outputs calt] in A2. congruence. }
        unfold xsim in X. cbn [fst snd] in X.
        destruct r as [vals|[| | |x]|s|]; cbn [sim_item_v]; try exact I; try contradiction.
        -- destruct r' as [vals'|[| | |x']|s'|]; try exact I; try exact AF'.
           ++ destruct X as [X|[v' [Ev [Hl K]]]]; [contradiction|]. injection Ev as <-. split; [|exact (Hal K)].
              rewrite !static_row_into, Hl. reflexivity.
           ++ destruct X as [X|[v' [Ev _]]]; [contradiction | discriminate Ev].
        -- destruct (is_unk x) eqn:Eu; [exact I|].
           destruct r' as [vals'|[| | |x']|s'|]; try exact I; try exact AF'.
           ++ destruct X as [X|[Ev _]]; [contradiction | discriminate Ev].
           ++ destruct X as [X|[Ev K]]; [contradiction|]. injection Ev as ->. split; [reflexivity | exact (Hal K)].
    + unfold static_driver at 1. cbv zeta. cbn [sim_item_v].
      destruct (D (i_log s1') ((if w_default then RW else WO), er_inputs er)) as [e|outs].
      * intros _. apply strel_v_io; assumption.
      * split; [reflexivity|]. apply strel_v_io; assumption.
  - cbn [sim_item_v]. destruct (is_unk x); [exact I|]. destruct Hg as [s1' [-> Hs1]]. auto.
Qed.

End STEP_V.

(* ================================================================== n calls of next() *)

(* sim_items with the device-failure clause widened: where the dynamic run stops because the
   device failed or answered wrongly, the static run has a row OR an evaluation error (of a
   virtual signal: it is raised after the answer was read) *)
Fixpoint sim_items_v {DE} (s : list (item_view N)) (d : list (item_view DE)) {struct d} : Prop :=
  match d with
  | [] => True
  | VRow r' :: d' =>
      match s with VRow r :: s' => static_row r' = static_row r /\ sim_items_v s' d' | _ => False end
  | VNone :: d' => match s with VNone :: s' => sim_items_v s' d' | _ => False end
  | VErr (IE_Runtime (RT_Expr x)) :: d' =>
      d' = [] /\ match s with VErr (IE_Runtime (RT_Expr x')) :: _ => x' = x | _ => False end
  | VErr _ :: d' =>
      d' = [] /\ match s with
                 | VRow _ :: _ | VErr (IE_Runtime (RT_Expr _)) :: _ => True
                 | _ => False
                 end
  end.

(* the same through errors: after an evaluation error (the same on both sides) the comparison
   goes on; after a device failure in the dynamic run it stops (go = false) or goes on (go = true) *)
Fixpoint sim_items_e {DE} (go : bool) (s : list (item_view N)) (d : list (item_view DE)) {struct d} : Prop :=
  match d with
  | [] => True
  | VRow r' :: d' =>
      match s with VRow r :: s' => static_row r' = static_row r /\ sim_items_e go s' d' | _ => False end
  | VNone :: d' => match s with VNone :: s' => sim_items_e go s' d' | _ => False end
  | VErr (IE_Runtime (RT_Expr x)) :: d' =>
      match s with
      | VErr (IE_Runtime (RT_Expr x')) :: s' => x' = x /\ sim_items_e go s' d'
      | _ => False
      end
  | VErr _ :: d' =>
      match s with
      | VRow _ :: s' | VErr (IE_Runtime (RT_Expr _)) :: s' => if go then sim_items_e go s' d' else True
      | _ => False
      end
  end.

(* the old relation implies the new one; they coincide when the static run has no error item *)
Lemma sim_items_sim_items_v : forall DE (s : list (item_view N)) (d : list (item_view DE)),
  sim_items s d -> sim_items_v s d.
Proof.
  intros DE s d. revert s. induction d as [|v d IH]; intros s H; [exact I|].
  destruct v as [r'|e|]; cbn [sim_items sim_items_v] in *.
  - destruct s as [|[r|e|] s]; try contradiction. destruct H as [H1 H2]. split; [exact H1 | apply IH; exact H2].
  - destruct e as [e|[| | |x]]; try exact H;
      (destruct H as [H1 H2]; split; [exact H1|]; destruct s as [|[r|e0|] s]; try contradiction; exact I).
  - destruct s as [|[r|e|] s]; try contradiction. apply IH. exact H.
Qed.

Lemma sim_items_v_no_static_error : forall DE (s : list (item_view N)) (d : list (item_view DE)),
  sim_items_v s d -> (forall e, ~ In (VErr e) s) -> sim_items s d.
Proof.
  intros DE s d. revert s. induction d as [|v d IH]; intros s H Hn; [exact I|].
  destruct v as [r'|e|]; cbn [sim_items sim_items_v] in *.
  - destruct s as [|[r|e|] s]; try contradiction. destruct H as [H1 H2]. split; [exact H1|].
    apply IH; [exact H2|]. intros e Hin. apply (Hn e). right. exact Hin.
  - destruct e as [e|[| | |x]]; try exact H;
      (destruct H as [H1 H2]; split; [exact H1|]; destruct s as [|[r|e0|] s]; try contradiction;
       try exact I; exfalso; apply (Hn e0); left; reflexivity).
  - destruct s as [|[r|e|] s]; try contradiction. apply IH; [exact H|].
    intros e Hin. apply (Hn e). right. exact Hin.
Qed.

Section PREVIEW_RUN_V.
Variable G : gen.
Variable tc : testcase.
Variable DE : Type.
Variable D : driver DE.
Variable w_default : bool.

Lemma no_unknown_tl : forall (v : item_view N) l, no_unknown (v :: l) -> no_unknown l.
Proof. intros v l H x Hin. apply (H x). right. exact Hin. Qed.

(* GOAL 1: the caller that stops at the first error item *)
Theorem C15_static_previews_dynamic_v : forall fuel n st st' items_s end_s,
  strel_v st st' ->
  collect G N static_driver true tc fuel n st = (items_s, Some end_s) ->
  no_unknown items_s ->
  sim_items_v items_s (fst (collect G DE D w_default tc fuel n st')).
Proof.
  intros fuel n. induction n as [|n IH]; intros st st' items_s end_s Hst Hc Hu; [cbn; exact I|].
  cbn [collect] in *. pose proof (inext_sim_v G tc DE D w_default fuel st st' Hst) as Hs.
  destruct (inext G N static_driver true tc fuel st) as [s1|row s1|e s1|p|]; try discriminate Hc.
  - destruct Hs as [s1' [-> _]]. injection Hc as <- _. exact I.
  - destruct (collect G N static_driver true tc fuel n s1) as [l s] eqn:Hcol.
    injection Hc as <- ->. cbn [sim_item_v] in Hs.
    destruct (inext G DE D w_default tc fuel st') as [s1'|row' s1'|e' s1'|p'|]; try exact I.
    + contradiction.
    + destruct Hs as [Hrow Hst1].
      specialize (IH _ _ _ _ Hst1 Hcol (no_unknown_tl _ _ Hu)).
      destruct (collect G DE D w_default tc fuel n s1') as [l' s']. cbn [fst sim_items_v] in *.
      split; assumption.
    + cbn [fst sim_items_v]. destruct e' as [e'|[| | |x]]; try (split; [reflexivity | exact I]). contradiction.
  - injection Hc as <- _. cbn [sim_item_v] in Hs.
    destruct e as [e|[| | |x]]; try contradiction.
    destruct (is_unk x) eqn:Hx.
    + exfalso. destruct x; try discriminate Hx. eapply Hu. left. reflexivity.
    + destruct (inext G DE D w_default tc fuel st') as [s1'|row' s1'|e' s1'|p'|]; try exact I; try contradiction.
      cbn [fst sim_items_v]. destruct e' as [e'|[| | |x']]; try (split; [reflexivity | exact I]).
      destruct Hs as [-> _]. split; reflexivity.
Qed.

Lemma sim_items_v_rows : forall (s : list (item_view N)) (d : list (item_view DE)),
  sim_items_v s d ->
  exists rest, map static_row (view_rows s) = map static_row (view_rows d) ++ rest.
Proof.
  intros s d. revert s. induction d as [|v d IH]; intros s H; [eexists; reflexivity|].
  destruct v as [r'|e|].
  - destruct s as [|[r|e|] s]; try contradiction. destruct H as [Hr H].
    destruct (IH _ H) as [rest Hrest]. exists rest. cbn. rewrite Hr. f_equal. exact Hrest.
  - assert (Hd : d = []) by (destruct e as [e|[| | |x]]; exact (proj1 H)). subst d.
    exists (map static_row (view_rows s)). reflexivity.
  - destruct s as [|[r|e|] s]; try contradiction. cbn in H |- *. apply IH. exact H.
Qed.

Corollary C15_static_rows_cover_dynamic_v0 : forall fuel n st st' items_s end_s,
  strel_v st st' ->
  collect G N static_driver true tc fuel n st = (items_s, Some end_s) ->
  no_unknown items_s ->
  exists rest,
    map static_row (view_rows items_s) =
    map static_row (view_rows (fst (collect G DE D w_default tc fuel n st'))) ++ rest.
Proof.
  intros. apply sim_items_v_rows. eapply C15_static_previews_dynamic_v; eassumption.
Qed.

(* GOAL 2: the caller that goes on after error items.  go = true needs the virtual signals not
   to draw random numbers *)
Theorem C15_static_previews_dynamic_e_gen : forall go fuel n st st' items_s end_s,
  strel_v st st' ->
  (go = true -> no_random_entries (i_outidx st') = true) ->
  collect_e G N static_driver true tc fuel n st = (items_s, Some end_s) ->
  no_unknown items_s ->
  sim_items_e go items_s (fst (collect_e G DE D w_default tc fuel n st')).
Proof.
  intros go fuel n. induction n as [|n IH]; intros st st' items_s end_s Hst Hgo Hc Hu; [cbn; exact I|].
  rewrite collect_e_S in *. pose proof (inext_sim_v G tc DE D w_default fuel st st' Hst) as Hs.
  pose proof (inext_nout G DE D w_default tc fuel st') as Hidx.
  destruct (inext G N static_driver true tc fuel st) as [s1|row s1|e s1|p|]; try discriminate Hc.
  - destruct Hs as [s1' [-> _]]. injection Hc as <- _. exact I.
  - destruct (collect_e G N static_driver true tc fuel n s1) as [l s] eqn:Hcol.
    injection Hc as <- ->. cbn [sim_item_v] in Hs.
    destruct (inext G DE D w_default tc fuel st') as [s1'|row' s1'|e' s1'|p'|]; try exact I.
    + contradiction.
    + destruct Hs as [Hrow Hst1]. destruct Hidx as [_ Hidx]. rewrite <- Hidx in Hgo.
      specialize (IH _ _ _ _ Hst1 Hgo Hcol (no_unknown_tl _ _ Hu)).
      destruct (collect_e G DE D w_default tc fuel n s1') as [l' s']. cbn [fst sim_items_e] in *.
      split; assumption.
    + destruct Hidx as [_ Hidx]. rewrite <- Hidx in Hgo.
      assert (K : after_fail s1 s1' -> forall e'', (forall y, e'' <> IE_Runtime (RT_Expr y)) ->
                    sim_items_e go (VRow row :: l)
                    (fst (let (l0, s0) := collect_e G DE D w_default tc fuel n s1' in (VErr e'' :: l0, s0)))).
      { intros Haf e'' Hne.
        assert (Hrest : if go then sim_items_e go l (fst (collect_e G DE D w_default tc fuel n s1')) else True).
        { destruct go; [|exact I]. apply (IH _ _ _ _ (Haf (Hgo eq_refl)) Hgo Hcol (no_unknown_tl _ _ Hu)). }
        destruct (collect_e G DE D w_default tc fuel n s1') as [l' s']. cbn [fst] in *.
        destruct e'' as [e''|[| | |y]]; cbn [sim_items_e]; try exact Hrest.
        exfalso. exact (Hne y eq_refl). }
      destruct e' as [e'|[| | |x]]; try (apply K; [exact Hs | intros y Hy; discriminate Hy]). contradiction.
  - destruct (collect_e G N static_driver true tc fuel n s1) as [l s] eqn:Hcol.
    injection Hc as <- ->. cbn [sim_item_v] in Hs.
    destruct e as [e|[| | |x]]; try contradiction.
    destruct (is_unk x) eqn:Hx.
    + exfalso. destruct x; try discriminate Hx. eapply Hu. left. reflexivity.
    + destruct (inext G DE D w_default tc fuel st') as [s1'|row' s1'|e' s1'|p'|]; try exact I; try contradiction.
      destruct Hidx as [_ Hidx]. rewrite <- Hidx in Hgo.
      assert (K : after_fail s1 s1' -> forall e'', (forall y, e'' <> IE_Runtime (RT_Expr y)) ->
                    sim_items_e go (VErr (IE_Runtime (RT_Expr x)) :: l)
                    (fst (let (l0, s0) := collect_e G DE D w_default tc fuel n s1' in (VErr e'' :: l0, s0)))).
      { intros Haf e'' Hne.
        assert (Hrest : if go then sim_items_e go l (fst (collect_e G DE D w_default tc fuel n s1')) else True).
        { destruct go; [|exact I]. apply (IH _ _ _ _ (Haf (Hgo eq_refl)) Hgo Hcol (no_unknown_tl _ _ Hu)). }
        destruct (collect_e G DE D w_default tc fuel n s1') as [l' s']. cbn [fst] in *.
        destruct e'' as [e''|[| | |y]]; cbn [sim_items_e]; try exact Hrest.
        exfalso. exact (Hne y eq_refl). }
      destruct e' as [e'|[| | |x']]; try (apply K; [exact Hs | intros y Hy; discriminate Hy]).
      destruct Hs as [-> Hst1].
      specialize (IH _ _ _ _ Hst1 Hgo Hcol (no_unknown_tl _ _ Hu)).
      destruct (collect_e G DE D w_default tc fuel n s1') as [l' s']. cbn [fst sim_items_e] in *.
      split; [reflexivity | exact IH].
Qed.

End PREVIEW_RUN_V.

(* ================================================================== the two constructors *)

Lemma map_r_Forall2 : forall A B (f f' : A -> R rterr B) (Q : B -> B -> Prop) l ys ys',
  map_r f l = Ok ys -> map_r f' l = Ok ys' ->
  (forall x y y', f x = Ok y -> f' x = Ok y' -> Q y y') -> Forall2 Q ys ys'.
Proof.
  intros A B f f' Q. induction l as [|x r IH]; intros ys ys' H H' HQ; cbn [map_r] in H, H'.
  - injection H as <-. injection H' as <-. constructor.
  - destruct (f x) as [y|e|s|] eqn:Ex; cbn [rbind] in H; try discriminate H.
    destruct (map_r f r) as [zs|e|s|] eqn:Er; cbn [rbind] in H; try discriminate H.
    destruct (f' x) as [y'|e|s|] eqn:Ex'; cbn [rbind] in H'; try discriminate H'.
    destruct (map_r f' r) as [zs'|e|s|] eqn:Er'; cbn [rbind] in H'; try discriminate H'.
    injection H as <-. injection H' as <-. constructor; [eapply HQ; eassumption|].
    apply IH; [reflexivity | reflexivity | exact HQ].
Qed.

Lemma Forall2_map_fst : forall A B (Q : A -> A -> Prop) (l l' : list (A * B)),
  Forall2 (fun y y' => Q (fst y) (fst y')) l l' -> Forall2 Q (map fst l) (map fst l').
Proof. intros A B Q l l' H. induction H; cbn [map]; constructor; assumption. Qed.

(* the output indices the static constructor builds (empty answer) against those a dynamic
   constructor builds from the device's first answer *)
Lemma build_output_indices_rel : forall tc outs oi oi',
  build_output_indices tc [] = Ok oi -> build_output_indices tc outs = Ok oi' -> Forall2 oirel oi oi'.
Proof.
  intros tc outs oi oi' H H'. unfold build_output_indices in H, H'.
  match type of H with rbind (map_r ?f ?l) _ = _ => destruct (map_r f l) as [ys|e|s|] eqn:E end;
    cbn [rbind] in H; try discriminate H.
  match type of H with rbind ?m _ = _ => destruct m as [miss|e|s|] end;
    cbn [rbind] in H; try discriminate H.
  destruct (concat miss); [|discriminate H]. injection H as <-.
  match type of H' with rbind (map_r ?f ?l) _ = _ => destruct (map_r f l) as [ys'|e|s|] eqn:E' end;
    cbn [rbind] in H'; try discriminate H'.
  match type of H' with rbind ?m _ = _ => destruct m as [miss'|e|s|] end;
    cbn [rbind] in H'; try discriminate H'.
  destruct (concat miss'); [|discriminate H']. injection H' as <-.
  apply Forall2_map_fst. eapply map_r_Forall2; [exact E | exact E' |].
  intros idx y y' Hy Hy'. cbv beta in Hy, Hy'. unfold get_signal in Hy, Hy'.
  destruct (nth_error (signals tc) (ei_signal_index idx)) as [sg|]; cbn [rbind] in Hy, Hy';
    [|discriminate Hy].
  destruct (styp sg) as [dv| |dv|e].
  - cbn [position] in Hy. injection Hy as <-.
    destruct (position (fun o => signal_eqb (oe_sig o) sg) outs); injection Hy' as <-;
      cbn [fst oirel]; intros e' He'; discriminate He'.
  - cbn [position] in Hy. injection Hy as <-.
    destruct (position (fun o => signal_eqb (oe_sig o) sg) outs); injection Hy' as <-;
      cbn [fst oirel]; intros e' He'; discriminate He'.
  - cbn [position] in Hy. injection Hy as <-.
    destruct (position (fun o => signal_eqb (oe_sig o) sg) outs); injection Hy' as <-;
      cbn [fst oirel]; intros e' He'; discriminate He'.
  - injection Hy as <-. injection Hy' as <-. reflexivity.
Qed.

(* no virtual signal mentions random() *)
Definition virtuals_no_random (tc : testcase) : Prop :=
  Forall (fun s => match styp s with TyVirtual e => mentions_random e = false | _ => True end)
         (tc_signals tc).

Lemma no_virtual_no_random : forall tc, no_virtual tc -> virtuals_no_random tc.
Proof.
  intros tc H. unfold no_virtual, virtuals_no_random in *. eapply Forall_impl; [|exact H].
  intros s Hs. cbv beta in *. destruct (styp s) as [dv| |dv|e]; try exact I.
  exfalso. exact (Hs e eq_refl).
Qed.

Lemma build_output_indices_no_random : forall tc outs oi, virtuals_no_random tc ->
  build_output_indices tc outs = Ok oi -> no_random_entries oi = true.
Proof.
  intros tc outs oi Hnr H. unfold build_output_indices in H.
  match type of H with rbind (map_r ?f ?l) _ = _ => destruct (map_r f l) as [ys|e|s|] eqn:E end;
    cbn [rbind] in H; try discriminate H.
  match type of H with rbind ?m _ = _ => destruct m as [miss|e|s|] end;
    cbn [rbind] in H; try discriminate H.
  destruct (concat miss); [|discriminate H]. injection H as <-.
  destruct (map_r_Ok_inv _ _ _
              (fun y : out_index * option nat =>
                 match fst y with OIVirtual e => mentions_random e = false | _ => True end)
              _ _ E) as [_ Hf].
  { intros idx y Hy. unfold get_signal in Hy.
    destruct (nth_error (signals tc) (ei_signal_index idx)) as [sg|] eqn:En; cbn [rbind] in Hy;
      [|discriminate Hy].
    apply nth_error_In in En. unfold virtuals_no_random in Hnr. rewrite Forall_forall in Hnr.
    specialize (Hnr sg En).
    destruct (styp sg) as [dv| |dv|e];
      try (destruct (position (fun o => signal_eqb (oe_sig o) sg) outs); injection Hy as <-; exact I).
    injection Hy as <-. exact Hnr. }
  clear E. induction Hf as [|y ys Hy _ IH]; [reflexivity|].
  cbn [map no_random_entries]. destruct (fst y) as [|n|e]; try exact IH.
  rewrite Hy, IH. reflexivity.
Qed.

Theorem C15_static_dynamic_start_v : forall tc DE (D : driver DE) st st',
  try_iter_static tc = StaticOk st -> try_new DE D tc = NewOk st' -> strel_v st st'.
Proof.
  intros tc DE D st st' Hs Hd. unfold try_iter_static in Hs.
  destruct (tc_read_outputs tc); [|destruct (read_output_names _ _); discriminate Hs].
  unfold try_new in *.
  destruct (generate_default_input_entries tc) as [ins|e|s|]; try discriminate Hd.
  cbv zeta in *. unfold static_driver at 1 in Hs.
  destruct (build_output_indices tc []) as [oi|e|s|] eqn:Eo; try discriminate Hs.
  injection Hs as <-.
  destruct (D [] (RW, ins)) as [e|outs]; [discriminate Hd|].
  destruct (build_output_indices tc outs) as [oi'|e|s|] eqn:Eo'; try discriminate Hd.
  injection Hd as <-.
  pose proof (build_output_indices_rel _ _ _ _ Eo Eo') as Hrel.
  unfold strel_v, srel. cbn. repeat split; auto.
Qed.

Theorem C15_static_start_no_random : forall tc DE (D : driver DE) st',
  virtuals_no_random tc -> try_new DE D tc = NewOk st' -> no_random_entries (i_outidx st') = true.
Proof.
  intros tc DE D st' Hnr Hd. unfold try_new in Hd.
  destruct (generate_default_input_entries tc) as [ins|e|s|]; try discriminate Hd.
  cbv zeta in Hd. destruct (D [] (RW, ins)) as [e|outs]; [discriminate Hd|].
  destruct (build_output_indices tc outs) as [oi'|e|s|] eqn:Eo'; try discriminate Hd.
  injection Hd as <-. cbn [i_outidx]. eapply build_output_indices_no_random; eassumption.
Qed.

(* ================================================================== the headlines *)

(* GOAL 1: C15_static_equals_dynamic without `no_virtual tc`, with sim_items_v for sim_items *)
Theorem C15_static_equals_dynamic_v : forall G tc DE (D : driver DE) w_default fuel n st st' items_s end_s,
  try_iter_static tc = StaticOk st -> try_new DE D tc = NewOk st' ->
  collect G N static_driver true tc fuel n st = (items_s, Some end_s) ->
  no_unknown items_s ->
  sim_items_v items_s (fst (collect G DE D w_default tc fuel n st')).
Proof.
  intros G tc DE D w_default fuel n st st' items_s end_s Hs Hd Hc Hu.
  eapply C15_static_previews_dynamic_v; [|eassumption|assumption].
  eapply C15_static_dynamic_start_v; eassumption.
Qed.

(* ... and to the letter (sim_items) when the static run has no error item *)
Corollary C15_static_equals_dynamic_v_rows_only : forall G tc DE (D : driver DE) w_default fuel n st st' items_s end_s,
  try_iter_static tc = StaticOk st -> try_new DE D tc = NewOk st' ->
  collect G N static_driver true tc fuel n st = (items_s, Some end_s) ->
  (forall e, ~ In (VErr e) items_s) ->
  sim_items items_s (fst (collect G DE D w_default tc fuel n st')).
Proof.
  intros G tc DE D w_default fuel n st st' items_s end_s Hs Hd Hc Hu.
  apply sim_items_v_no_static_error; [|exact Hu].
  eapply C15_static_equals_dynamic_v; try eassumption. intros x Hin. exact (Hu _ Hin).
Qed.

Theorem C15_static_rows_cover_dynamic_v : forall G tc DE (D : driver DE) w_default fuel n st st' items_s end_s,
  try_iter_static tc = StaticOk st -> try_new DE D tc = NewOk st' ->
  collect G N static_driver true tc fuel n st = (items_s, Some end_s) ->
  no_unknown items_s ->
  exists rest,
    map static_row (view_rows items_s) =
    map static_row (view_rows (fst (collect G DE D w_default tc fuel n st'))) ++ rest.
Proof.
  intros. apply sim_items_v_rows. eapply C15_static_equals_dynamic_v; eassumption.
Qed.

(* GOAL 2: through errors; the comparison stops at a device failure of the dynamic run *)
Theorem C15_static_previews_dynamic_e : forall G tc DE (D : driver DE) w_default fuel n st st' items_s end_s,
  strel_v st st' ->
  collect_e G N static_driver true tc fuel n st = (items_s, Some end_s) ->
  no_unknown items_s ->
  sim_items_e false items_s (fst (collect_e G DE D w_default tc fuel n st')).
Proof.
  intros. eapply C15_static_previews_dynamic_e_gen; try eassumption. intro K. discriminate K.
Qed.

(* the stronger statement: the comparison goes on after device failures too, when no virtual
   signal draws random numbers (in particular when there are no virtual signals) *)
Theorem C15_static_previews_dynamic_ee : forall G tc DE (D : driver DE) w_default fuel n st st' items_s end_s,
  strel_v st st' -> no_random_entries (i_outidx st') = true ->
  collect_e G N static_driver true tc fuel n st = (items_s, Some end_s) ->
  no_unknown items_s ->
  sim_items_e true items_s (fst (collect_e G DE D w_default tc fuel n st')).
Proof.
  intros. eapply C15_static_previews_dynamic_e_gen; try eassumption. intros _. assumption.
Qed.

(* the old relation: no virtual signals at all *)
Corollary C15_static_previews_dynamic_ee_strel : forall G tc DE (D : driver DE) w_default fuel n st st' items_s end_s,
  strel st st' -> calt (i_ctx st) = calt (i_ctx st') ->
  collect_e G N static_driver true tc fuel n st = (items_s, Some end_s) ->
  no_unknown items_s ->
  sim_items_e true items_s (fst (collect_e G DE D w_default tc fuel n st')).
Proof.
  intros G tc DE D w_default fuel n st st' items_s end_s Hst Ha Hc Hu.
  eapply C15_static_previews_dynamic_ee; try eassumption; [apply strel_strel_v; assumption|].
  destruct Hst as (_ & _ & _ & _ & _ & Ho2 & _). clear - Ho2.
  induction Ho2 as [|o l Ho _ IH]; [reflexivity|].
  destruct o as [|n|e]; cbn [no_random_entries]; try exact IH. exfalso. exact (Ho e eq_refl).
Qed.

(* from the two constructors on *)
Theorem C15_static_equals_dynamic_e : forall G tc DE (D : driver DE) w_default fuel n st st' items_s end_s,
  try_iter_static tc = StaticOk st -> try_new DE D tc = NewOk st' ->
  collect_e G N static_driver true tc fuel n st = (items_s, Some end_s) ->
  no_unknown items_s ->
  sim_items_e false items_s (fst (collect_e G DE D w_default tc fuel n st')).
Proof.
  intros G tc DE D w_default fuel n st st' items_s end_s Hs Hd Hc Hu.
  eapply C15_static_previews_dynamic_e; [|eassumption|assumption].
  eapply C15_static_dynamic_start_v; eassumption.
Qed.

Theorem C15_static_equals_dynamic_ee : forall G tc DE (D : driver DE) w_default fuel n st st' items_s end_s,
  virtuals_no_random tc ->
  try_iter_static tc = StaticOk st -> try_new DE D tc = NewOk st' ->
  collect_e G N static_driver true tc fuel n st = (items_s, Some end_s) ->
  no_unknown items_s ->
  sim_items_e true items_s (fst (collect_e G DE D w_default tc fuel n st')).
Proof.
  intros G tc DE D w_default fuel n st st' items_s end_s Hnr Hs Hd Hc Hu.
  eapply C15_static_previews_dynamic_ee; [| |eassumption|assumption].
  - eapply C15_static_dynamic_start_v; eassumption.
  - eapply C15_static_start_no_random; eassumption.
Qed.

(* ================================================================== the letter of sim_items fails with virtual signals *)

(* Signals: A (input, 1 bit, default 0).  The virtual signal v is not a column of the table; it
   is an expected column all the same (expected value X), and its expression is evaluated
   after every read-write call.
       A
       declare v = 1/0;
       1
   The static run: the row is sent to the static driver, the empty answer is read, v fails:
   the first item is Err(DivisionByZero).  A run against a device that fails at that call:
   the first item is the device's error.  sim_items wants a ROW in the static run there. *)
Definition c15v_text : text :=
  (s2n "A" ++ [10%N] ++ s2n "declare v = 1/0;" ++ [10%N] ++ s2n "1" ++ [10%N])%list.

Definition c15v_tc : option testcase :=
  match parse c15v_text with
  | Ok p => match with_signals p [c15_sig_A] with Ok tc => Some tc | _ => None end
  | _ => None
  end.

(* a device that answers the constructor's call and fails from then on *)
Definition c15v_device : driver N := fun log _ => match log with [] => DrvOk [] | _ => DrvErr 7%N end.

Example c15v_counterexample :
  match c15v_tc with
  | Some tc =>
      tc_read_outputs tc = [] /\
      match try_iter_static tc, try_new N c15v_device tc with
      | StaticOk st, NewOk st' =>
          (exists end_s, collect c15_gen N static_driver true tc 20 2 st =
                         ([VErr (IE_Runtime (RT_Expr XE_DivisionByZero))], Some end_s)) /\
          fst (collect c15_gen N c15v_device true tc 20 2 st') = [VErr (IE_Driver 7%N)]
      | _, _ => False
      end
  | None => False
  end.
Proof. vm_compute. split; [reflexivity|]. split; [eexists; reflexivity | reflexivity]. Qed.

(* C15_static_equals_dynamic with `no_virtual tc` simply dropped is false *)
Theorem C15_static_equals_dynamic_v_refuted :
  ~ (forall G tc DE (D : driver DE) w_default fuel n st st' items_s end_s,
       try_iter_static tc = StaticOk st -> try_new DE D tc = NewOk st' ->
       collect G N static_driver true tc fuel n st = (items_s, Some end_s) ->
       no_unknown items_s ->
       sim_items items_s (fst (collect G DE D w_default tc fuel n st'))).
Proof.
  intro H. pose proof c15v_counterexample as C.
  destruct c15v_tc as [tc|]; [|contradiction]. destruct C as [_ C].
  destruct (try_iter_static tc) as [st| |] eqn:Es; try contradiction.
  destruct (try_new N c15v_device tc) as [st'| |] eqn:Ed; try contradiction.
  destruct C as [[end_s C1] C2].
  specialize (H c15_gen tc N c15v_device true 20 2 st st' _ end_s Es Ed C1).
  rewrite C2 in H. cbn [sim_items] in H.
  assert (Hu : no_unknown [@VErr N (IE_Runtime (RT_Expr XE_DivisionByZero))]).
  { intros x [Hx|[]]. discriminate Hx. }
  destruct (H Hu) as [_ []].
Qed.

(* the same witness obeys sim_items_v, as it must *)
Example c15v_counterexample_sim_items_v :
  sim_items_v [@VErr N (IE_Runtime (RT_Expr XE_DivisionByZero))] [@VErr N (IE_Driver 7%N)].
Proof. cbn. auto. Qed.

(* ================================================================== going on after a device failure needs `no random in virtual signals` *)

(*     A
       declare v = random(10);
       1
       (random(10))
   The device fails at the first row (the second call) and works again afterwards; the caller
   goes on.  The static run has drawn a number for v at the first row, the dynamic run has not:
   at the second row the two runs are at different places of the random sequence and send
   different inputs (here: the generator returns the number of draws so far). *)
Definition c15v_text2 : text :=
  (s2n "A" ++ [10%N] ++ s2n "declare v = random(10);" ++ [10%N] ++ s2n "1" ++ [10%N] ++
   s2n "(random(10))" ++ [10%N])%list.

Definition c15v_tc2 : option testcase :=
  match parse c15v_text2 with
  | Ok p => match with_signals p [c15_sig_A] with Ok tc => Some tc | _ => None end
  | _ => None
  end.

Definition c15v_device2 : driver N := fun log _ => match log with [_] => DrvErr 7%N | _ => DrvOk [] end.
Definition c15v_gen : gen := fun rng _ => Z.of_nat (length rng).

Example c15v_random_counterexample :
  match c15v_tc2 with
  | Some tc =>
      tc_read_outputs tc = [] /\
      match try_iter_static tc, try_new N c15v_device2 tc with
      | StaticOk st, NewOk st' =>
          let s := collect_e c15v_gen N static_driver true tc 20 3 st in
          let d := collect_e c15v_gen N c15v_device2 true tc 20 3 st' in
          (exists end_s, snd s = Some end_s) /\ no_unknown (fst s) /\
          map (fun v => match v with VRow r => map ie_val (dr_inputs r) | _ => [] end) (fst s)
            = [[IVal 1%Z]; [IVal 1%Z]; []] /\
          map (fun v => match v with VRow r => map ie_val (dr_inputs r) | _ => [] end) (fst d)
            = [[]; [IVal 0%Z]; []] /\
          match fst d with VErr (IE_Driver 7%N) :: VRow _ :: VNone :: nil => True | _ => False end /\
          sim_items_e false (fst s) (fst d) /\ ~ sim_items_e true (fst s) (fst d)
      | _, _ => False
      end
  | None => False
  end.
Proof.
  vm_compute. split; [reflexivity|]. split; [eexists; reflexivity|].
  split; [intros x [K|[K|[K|[]]]]; discriminate K|].
  split; [reflexivity|]. split; [reflexivity|]. split; [exact I|]. split; [exact I|].
  intros [H _]. discriminate H.
Qed.

(* the through-errors theorem with go = true and the hypothesis on random() dropped is false *)
Theorem C15_static_equals_dynamic_ee_needs_no_random :
  ~ (forall G tc DE (D : driver DE) w_default fuel n st st' items_s end_s,
       try_iter_static tc = StaticOk st -> try_new DE D tc = NewOk st' ->
       collect_e G N static_driver true tc fuel n st = (items_s, Some end_s) ->
       no_unknown items_s ->
       sim_items_e true items_s (fst (collect_e G DE D w_default tc fuel n st'))).
Proof.
  intro H. pose proof c15v_random_counterexample as C.
  destruct c15v_tc2 as [tc|]; [|contradiction]. destruct C as [_ C].
  destruct (try_iter_static tc) as [st| |] eqn:Es; try contradiction.
  destruct (try_new N c15v_device2 tc) as [st'| |] eqn:Ed; try contradiction.
  cbv zeta in C. destruct C as [[end_s C1] [C2 [_ [_ [_ [_ C3]]]]]].
  destruct (collect_e c15v_gen N static_driver true tc 20 3 st) as [items_s so] eqn:Ec.
  cbn [fst snd] in *. subst so.
  apply C3. exact (H c15v_gen tc N c15v_device2 true 20 3 st st' items_s end_s Es Ed Ec C2).
Qed.

Local Close Scope nat_scope.

Check strel_v.
Check inext_sim_v.
Check C15_static_dynamic_start_v.
Check C15_static_start_no_random.
Check C15_static_previews_dynamic_v.
Check C15_static_equals_dynamic_v.
Check C15_static_equals_dynamic_v_rows_only.
Check C15_static_rows_cover_dynamic_v.
Check C15_static_equals_dynamic_v_refuted.
Check c15v_counterexample.
Check C15_static_previews_dynamic_e_gen.
Check C15_static_previews_dynamic_e.
Check C15_static_previews_dynamic_ee.
Check C15_static_previews_dynamic_ee_strel.
Check C15_static_equals_dynamic_e.
Check C15_static_equals_dynamic_ee.
Check c15v_random_counterexample.
Check C15_static_equals_dynamic_ee_needs_no_random.

Print Assumptions inext_sim_v.
Print Assumptions C15_static_dynamic_start_v.
Print Assumptions C15_static_start_no_random.
Print Assumptions C15_static_previews_dynamic_v.
Print Assumptions C15_static_equals_dynamic_v.
Print Assumptions C15_static_equals_dynamic_v_rows_only.
Print Assumptions C15_static_rows_cover_dynamic_v.
Print Assumptions C15_static_equals_dynamic_v_refuted.
Print Assumptions c15v_counterexample.
Print Assumptions C15_static_previews_dynamic_e_gen.
Print Assumptions C15_static_previews_dynamic_e.
Print Assumptions C15_static_previews_dynamic_ee.
Print Assumptions C15_static_previews_dynamic_ee_strel.
Print Assumptions C15_static_equals_dynamic_e.
Print Assumptions C15_static_equals_dynamic_ee.
Print Assumptions c15v_random_counterexample.
Print Assumptions C15_static_equals_dynamic_ee_needs_no_random.
