(* FramedMap (src/framed_map.rs) refines the obvious abstract structure: a
   non-empty stack of frames, innermost first, each frame an association list
   with distinct keys.  `abs` cuts the flat vector at the frame offsets; every
   operation of the flat representation commutes with `abs`. *)
From Coq Require Import List Arith Lia Bool Sorted ZArith.
From DTR Require Import Prelude FramedMap.
Import ListNotations.

Section FramedMapProof.
Context {V : Type}.

(* ------------------------------------------------------------------ *)
(* The abstract model                                                  *)
(* ------------------------------------------------------------------ *)

(* innermost first; never empty for a reachable map *)
Definition frames := list (list (name * V)).

(* association-list lookup: first entry with that key *)
Fixpoint assoc (k : name) (l : list (name * V)) : option V :=
  match l with
  | [] => None
  | (k', v') :: r => if name_eqb k' k then Some v' else assoc k r
  end.

(* innermost binding wins *)
Fixpoint lookup (fr : frames) (k : name) : option V :=
  match fr with
  | [] => None
  | f :: r => match assoc k f with Some v => Some v | None => lookup r k end
  end.

(* update the binding of k if there is one, else add it at the end *)
Fixpoint set_assoc (k : name) (v : V) (l : list (name * V)) : list (name * V) :=
  match l with
  | [] => [(k, v)]
  | (k', v') :: r =>
      if name_eqb k' k then (k, v) :: r else (k', v') :: set_assoc k v r
  end.

(* update the binding in the innermost frame if it has one, else add it to the
   innermost frame; on [] behave like on [[]] *)
Definition set_frames (fr : frames) (k : name) (v : V) : frames :=
  match fr with
  | [] => [set_assoc k v []]
  | f :: r => set_assoc k v f :: r
  end.

Definition push_frames (fr : frames) : frames := [] :: fr.

(* dropping the innermost frame uncovers the next one; popping the outermost
   (global) frame leaves one empty frame *)
Definition pop_frames (fr : frames) : frames :=
  match fr with
  | _ :: (g :: r) => g :: r
  | _ => [[]]
  end.

(* abstraction function: cut fvalues at the offsets of fstack *)
Fixpoint abs_from (vals : list (name * V)) (stack : list nat) : frames :=
  match stack with
  | [] => [vals]
  | n :: st => skipn n vals :: abs_from (firstn n vals) st
  end.

Definition abs (m : fmap V) : frames := abs_from (fvalues m) (fstack m).

Definition keys_distinct (f : list (name * V)) : Prop := NoDup (map fst f).

(* representation invariant: the offsets are weakly decreasing from the head,
   none exceeds the length of the vector, and inside every frame the keys are
   distinct *)
Definition wf (m : fmap V) : Prop :=
  StronglySorted ge (fstack m) /\
  Forall (fun n => n <= length (fvalues m)) (fstack m) /\
  Forall keys_distinct (abs m).

(* the same invariant, by recursion on the stack (the form the proofs use) *)
Fixpoint wf_from (vals : list (name * V)) (stack : list nat) : Prop :=
  match stack with
  | [] => keys_distinct vals
  | n :: st =>
      n <= length vals /\ keys_distinct (skipn n vals) /\ wf_from (firstn n vals) st
  end.

Lemma wf_from_iff : forall (st : list nat) (vals : list (name * V)),
  wf_from vals st <->
  (StronglySorted ge st /\
   Forall (fun n => n <= length vals) st /\
   Forall keys_distinct (abs_from vals st)).
Proof.
  induction st as [|n st IH]; intros vals; simpl.
  - split.
    + intros H. repeat split; constructor; auto.
    + intros (_ & _ & H). inversion H; auto.
  - rewrite IH. split.
    + intros (Hn & Hd & Hs & Hle & Hfr).
      assert (Hle' : Forall (fun n' => n' <= n) st).
      { eapply Forall_impl; [|exact Hle]. cbv beta. intros a Ha.
        rewrite firstn_length_le in Ha by exact Hn. exact Ha. }
      split; [|split].
      * constructor; [exact Hs|].
        eapply Forall_impl; [|exact Hle']. cbv beta. intros a Ha. unfold ge. exact Ha.
      * constructor; [exact Hn|].
        eapply Forall_impl; [|exact Hle']. cbv beta. intros a Ha. lia.
      * constructor; assumption.
    + intros (Hs & Hle & Hfr).
      inversion Hs as [|n0 st0 Hs' Hge]; subst.
      inversion Hle as [|n0 st0 Hn Hle']; subst.
      inversion Hfr as [|f0 fr0 Hd Hfr']; subst.
      split; [exact Hn|]. split; [exact Hd|]. split; [exact Hs'|]. split; [|exact Hfr'].
      eapply Forall_impl; [|exact Hge]. cbv beta. intros a Ha.
      rewrite firstn_length_le by exact Hn. unfold ge in Ha. exact Ha.
Qed.

Lemma wf_iff : forall m : fmap V, wf m <-> wf_from (fvalues m) (fstack m).
Proof. intros m. unfold wf, abs. symmetry. apply wf_from_iff. Qed.

(* ------------------------------------------------------------------ *)
(* List lemmas                                                         *)
(* ------------------------------------------------------------------ *)

Lemma assoc_app : forall (k : name) (a b : list (name * V)),
  assoc k (a ++ b) = match assoc k a with Some v => Some v | None => assoc k b end.
Proof.
  intros k a b. induction a as [|[k' v'] a IH]; simpl; [reflexivity|].
  destruct (name_eqb k' k); [reflexivity|exact IH].
Qed.

Lemma assoc_None_iff : forall (k : name) (l : list (name * V)),
  assoc k l = None <-> ~ In k (map fst l).
Proof.
  intros k l. induction l as [|[k' v'] l IH]; simpl.
  - split; [intros _ H; exact H|reflexivity].
  - destruct (name_eqb k' k) eqn:E.
    + apply name_eqb_eq in E. split; [discriminate|]. intros H. exfalso. apply H. left. exact E.
    + apply name_eqb_neq in E. rewrite IH. split.
      * intros H [H1|H1]; [exact (E H1)|exact (H H1)].
      * intros H H1. apply H. right. exact H1.
Qed.

Lemma find_last_app : forall {A} (p : A -> bool) (a b : list A),
  find_last p (a ++ b) =
  match find_last p b with Some y => Some y | None => find_last p a end.
Proof.
  intros A p a b. induction a as [|x a IH]; simpl.
  - destruct (find_last p b); reflexivity.
  - rewrite IH. destruct (find_last p b); reflexivity.
Qed.

Lemma find_last_Some : forall {A} (p : A -> bool) (l : list A) (y : A),
  find_last p l = Some y -> In y l /\ p y = true.
Proof.
  intros A p l y. induction l as [|x l IH]; simpl; [discriminate|].
  destruct (find_last p l) as [z|] eqn:E.
  - intros H. inversion H; subst. destruct (IH eq_refl) as [H1 H2]. split; [right; exact H1|exact H2].
  - destruct (p x) eqn:Px; [|discriminate].
    intros H. inversion H; subst. split; [left; reflexivity|exact Px].
Qed.

Definition get_in (k : name) (l : list (name * V)) : option V :=
  option_map snd (find_last (fun kv => name_eqb (fst kv) k) l).

(* the last entry with key k, found by scanning the reversed list from the front *)
Lemma assoc_rev : forall (k : name) (l : list (name * V)),
  assoc k (rev l) = get_in k l.
Proof.
  intros k l. unfold get_in. induction l as [|[k' v'] l IH]; simpl; [reflexivity|].
  rewrite assoc_app, IH. simpl.
  destruct (find_last (fun kv => name_eqb (fst kv) k) l) as [y|]; simpl; [reflexivity|].
  destruct (name_eqb k' k); reflexivity.
Qed.

(* with distinct keys the last entry with key k is also the first *)
Lemma get_in_assoc : forall (k : name) (l : list (name * V)),
  keys_distinct l -> get_in k l = assoc k l.
Proof.
  intros k l. unfold get_in, keys_distinct.
  induction l as [|[k' v'] l IH]; simpl; intros Hnd; [reflexivity|].
  inversion Hnd as [|x xs Hnotin Hnd']; subst.
  destruct (name_eqb k' k) eqn:E.
  - apply name_eqb_eq in E. subst k'.
    destruct (find_last (fun kv => name_eqb (fst kv) k) l) as [y|] eqn:F; [|reflexivity].
    exfalso. apply find_last_Some in F. destruct F as [Hin Hp].
    apply name_eqb_eq in Hp. apply Hnotin. rewrite <- Hp. apply in_map. exact Hin.
  - rewrite <- (IH Hnd').
    destruct (find_last (fun kv => name_eqb (fst kv) k) l); reflexivity.
Qed.

Lemma get_in_app : forall (k : name) (a b : list (name * V)),
  get_in k (a ++ b) = match get_in k b with Some v => Some v | None => get_in k a end.
Proof.
  intros k a b. unfold get_in. rewrite find_last_app.
  destruct (find_last (fun kv => name_eqb (fst kv) k) b); reflexivity.
Qed.

(* update_first followed by the append fallback is set_assoc *)
Lemma update_first_set_assoc : forall (k : name) (v : V) (l : list (name * V)),
  match update_first k v l with Some l' => l' | None => l ++ [(k, v)] end = set_assoc k v l.
Proof.
  intros k v l. induction l as [|[k' v'] l IH]; simpl; [reflexivity|].
  destruct (name_eqb k' k) eqn:E.
  - apply name_eqb_eq in E. subst k'. reflexivity.
  - destruct (update_first k v l) as [l'|]; rewrite <- IH; reflexivity.
Qed.

Lemma set_assoc_keys_in : forall (k : name) (v : V) (l : list (name * V)) (x : name),
  In x (map fst (set_assoc k v l)) -> x = k \/ In x (map fst l).
Proof.
  intros k v l x. induction l as [|[k' v'] l IH]; simpl.
  - intros [H|[]]. left. symmetry. exact H.
  - destruct (name_eqb k' k) eqn:E; simpl.
    + intros [H|H]; [left; symmetry; exact H|right; right; exact H].
    + intros [H|H]; [right; left; exact H|].
      destruct (IH H) as [H1|H1]; [left; exact H1|right; right; exact H1].
Qed.

Lemma set_assoc_distinct : forall (k : name) (v : V) (l : list (name * V)),
  keys_distinct l -> keys_distinct (set_assoc k v l).
Proof.
  intros k v l. unfold keys_distinct.
  induction l as [|[k' v'] l IH]; simpl; intros Hnd.
  - constructor; [intros []|constructor].
  - inversion Hnd as [|x xs Hnotin Hnd']; subst.
    destruct (name_eqb k' k) eqn:E; simpl.
    + apply name_eqb_eq in E. subst k'. constructor; assumption.
    + apply name_eqb_neq in E. constructor; [|exact (IH Hnd')].
      intros Hin. apply set_assoc_keys_in in Hin. destruct Hin as [H|H].
      * exact (E H).
      * exact (Hnotin H).
Qed.

Lemma assoc_set_assoc_same : forall (k : name) (v : V) (l : list (name * V)),
  assoc k (set_assoc k v l) = Some v.
Proof.
  intros k v l. induction l as [|[k' v'] l IH]; simpl.
  - rewrite name_eqb_refl. reflexivity.
  - destruct (name_eqb k' k) eqn:E; simpl.
    + rewrite name_eqb_refl. reflexivity.
    + rewrite E. exact IH.
Qed.

Lemma assoc_set_assoc_other : forall (k k' : name) (v : V) (l : list (name * V)),
  k' <> k -> assoc k' (set_assoc k v l) = assoc k' l.
Proof.
  intros k k' v l Hne. induction l as [|[k0 v0] l IH]; simpl.
  - assert (E : name_eqb k k' = false) by (apply name_eqb_neq; congruence).
    rewrite E. reflexivity.
  - destruct (name_eqb k0 k) eqn:E; simpl.
    + apply name_eqb_eq in E. subst k0.
      assert (E : name_eqb k k' = false) by (apply name_eqb_neq; congruence).
      rewrite E. reflexivity.
    + rewrite IH. reflexivity.
Qed.

(* ------------------------------------------------------------------ *)
(* What fm_set does to the vector                                      *)
(* ------------------------------------------------------------------ *)

Lemma fm_set_stack : forall (m : fmap V) (k : name) (v : V),
  fstack (fm_set m k v) = fstack m.
Proof.
  intros m k v. unfold fm_set.
  destruct (update_first k v (skipn (frame_start m) (fvalues m))); reflexivity.
Qed.

Lemma fm_set_values : forall (m : fmap V) (k : name) (v : V),
  fvalues (fm_set m k v) =
  firstn (frame_start m) (fvalues m) ++ set_assoc k v (skipn (frame_start m) (fvalues m)).
Proof.
  intros m k v. unfold fm_set.
  rewrite <- update_first_set_assoc.
  destruct (update_first k v (skipn (frame_start m) (fvalues m))) as [cur'|]; simpl.
  - reflexivity.
  - rewrite app_assoc, firstn_skipn. reflexivity.
Qed.

Lemma firstn_app_exact : forall {A} (n : nat) (a b : list A),
  length a = n -> firstn n (a ++ b) = a.
Proof.
  intros A n a b Hlen. subst n.
  rewrite firstn_app, Nat.sub_diag, firstn_all. simpl. apply app_nil_r.
Qed.

Lemma skipn_app_exact : forall {A} (n : nat) (a b : list A),
  length a = n -> skipn n (a ++ b) = b.
Proof.
  intros A n a b Hlen. subst n.
  rewrite skipn_app, Nat.sub_diag, skipn_all. reflexivity.
Qed.

(* ------------------------------------------------------------------ *)
(* The refinement theorems                                             *)
(* ------------------------------------------------------------------ *)

Lemma abs_from_nonempty : forall (st : list nat) (vals : list (name * V)),
  abs_from vals st <> [].
Proof. intros [|n st] vals; simpl; discriminate. Qed.

Lemma abs_nonempty : forall m : fmap V, abs m <> [].
Proof. intros m. apply abs_from_nonempty. Qed.

Lemma wf_new : wf (@fm_new V).
Proof. apply wf_iff. simpl. constructor. Qed.

Lemma abs_new : abs (@fm_new V) = [[]].
Proof. reflexivity. Qed.

Lemma wf_push : forall m : fmap V, wf m -> wf (fm_push_frame m).
Proof.
  intros m Hwf. apply wf_iff in Hwf. apply wf_iff. simpl.
  rewrite skipn_all, firstn_all.
  split; [lia|]. split; [constructor|exact Hwf].
Qed.

Lemma abs_push : forall m : fmap V, wf m -> abs (fm_push_frame m) = push_frames (abs m).
Proof.
  intros m _. unfold abs, push_frames. simpl. rewrite skipn_all, firstn_all. reflexivity.
Qed.

Lemma wf_pop : forall m : fmap V, wf m -> wf (fm_pop_frame m).
Proof.
  intros m Hwf. apply wf_iff in Hwf. apply wf_iff. unfold fm_pop_frame.
  destruct (fstack m) as [|n st]; simpl in *.
  - constructor.
  - destruct Hwf as (_ & _ & H). exact H.
Qed.

Lemma abs_pop : forall m : fmap V, wf m -> abs (fm_pop_frame m) = pop_frames (abs m).
Proof.
  intros m _. unfold abs, fm_pop_frame.
  destruct (fstack m) as [|n st]; simpl.
  - reflexivity.
  - destruct (abs_from (firstn n (fvalues m)) st) as [|g r] eqn:E; [|reflexivity].
    exfalso. exact (abs_from_nonempty _ _ E).
Qed.

Lemma wf_set : forall (m : fmap V) (k : name) (v : V), wf m -> wf (fm_set m k v).
Proof.
  intros m k v Hwf. apply wf_iff in Hwf. apply wf_iff.
  rewrite fm_set_stack, fm_set_values. unfold frame_start.
  destruct (fstack m) as [|n st]; simpl in *.
  - apply set_assoc_distinct. exact Hwf.
  - destruct Hwf as (Hn & Hd & Hrest).
    assert (Hlen : length (firstn n (fvalues m)) = n) by (apply firstn_length_le; exact Hn).
    split; [rewrite app_length; lia|].
    rewrite (skipn_app_exact n _ _ Hlen), (firstn_app_exact n _ _ Hlen).
    split; [apply set_assoc_distinct; exact Hd|exact Hrest].
Qed.

Lemma abs_set : forall (m : fmap V) (k : name) (v : V),
  wf m -> abs (fm_set m k v) = set_frames (abs m) k v.
Proof.
  intros m k v Hwf. apply wf_iff in Hwf. unfold abs.
  rewrite fm_set_stack, fm_set_values. unfold frame_start.
  destruct (fstack m) as [|n st]; simpl in *.
  - reflexivity.
  - destruct Hwf as (Hn & _ & _).
    assert (Hlen : length (firstn n (fvalues m)) = n) by (apply firstn_length_le; exact Hn).
    rewrite (skipn_app_exact n _ _ Hlen), (firstn_app_exact n _ _ Hlen). reflexivity.
Qed.

Lemma get_in_abs_from : forall (k : name) (st : list nat) (vals : list (name * V)),
  wf_from vals st -> get_in k vals = lookup (abs_from vals st) k.
Proof.
  intros k. induction st as [|n st IH]; intros vals Hwf; simpl in *.
  - rewrite (get_in_assoc k vals Hwf). destruct (assoc k vals); reflexivity.
  - destruct Hwf as (Hn & Hd & Hrest).
    rewrite <- (firstn_skipn n vals) at 1. rewrite get_in_app.
    rewrite (get_in_assoc k _ Hd), (IH _ Hrest). reflexivity.
Qed.

Lemma get_abs : forall (m : fmap V) (k : name), wf m -> fm_get m k = lookup (abs m) k.
Proof.
  intros m k Hwf. apply wf_iff in Hwf. exact (get_in_abs_from k _ _ Hwf).
Qed.

(* flatten: keys already seen are dropped, otherwise the first occurrence wins *)
Lemma existsb_name_in : forall (k : name) (seen : list name),
  existsb (name_eqb k) seen = true <-> In k seen.
Proof.
  intros k seen. rewrite existsb_exists. split.
  - intros (x & Hin & E). apply name_eqb_eq in E. subst x. exact Hin.
  - intros Hin. exists k. split; [exact Hin|apply name_eqb_refl].
Qed.

Lemma assoc_dedup_keys : forall (k : name) (l : list (name * V)) (seen : list name),
  assoc k (dedup_keys seen l) = if existsb (name_eqb k) seen then None else assoc k l.
Proof.
  intros k. induction l as [|[k' v'] l IH]; intros seen; simpl.
  - destruct (existsb (name_eqb k) seen); reflexivity.
  - destruct (existsb (name_eqb k') seen) eqn:Ek'.
    + rewrite IH. destruct (existsb (name_eqb k) seen) eqn:Ek; [reflexivity|].
      destruct (name_eqb k' k) eqn:E; [|reflexivity].
      apply name_eqb_eq in E. subst k'. congruence.
    + simpl. rewrite IH. simpl.
      destruct (name_eqb k' k) eqn:E.
      * apply name_eqb_eq in E. subst k'. rewrite Ek'. reflexivity.
      * assert (E' : name_eqb k k' = false).
        { apply name_eqb_neq. apply name_eqb_neq in E. congruence. }
        rewrite E'. reflexivity.
Qed.

Lemma flatten_get : forall (m : fmap V) (k : name), assoc k (fm_flatten m) = fm_get m k.
Proof.
  intros m k. unfold fm_flatten. rewrite assoc_dedup_keys. simpl. apply assoc_rev.
Qed.

Lemma flatten_abs : forall m : fmap V, wf m ->
  forall k : name, assoc k (fm_flatten m) = lookup (abs m) k.
Proof. intros m Hwf k. rewrite flatten_get. apply get_abs. exact Hwf. Qed.

Lemma dedup_keys_nodup : forall (l : list (name * V)) (seen : list name),
  NoDup (map fst (dedup_keys seen l)) /\
  (forall x, In x (map fst (dedup_keys seen l)) -> ~ In x seen).
Proof.
  induction l as [|[k' v'] l IH]; intros seen; simpl.
  - split; [constructor|intros x []].
  - destruct (existsb (name_eqb k') seen) eqn:Ek'.
    + apply IH.
    + destruct (IH (k' :: seen)) as [Hnd Hnotin]. simpl. split.
      * constructor; [|exact Hnd]. intros Hin. apply (Hnotin _ Hin). left. reflexivity.
      * intros x [Hx|Hx].
        -- subst x. intros Hin. apply existsb_name_in in Hin. congruence.
        -- intros Hin. apply (Hnotin _ Hx). right. exact Hin.
Qed.

Lemma flatten_nodup : forall m : fmap V, NoDup (map fst (fm_flatten m)).
Proof. intros m. unfold fm_flatten. apply dedup_keys_nodup. Qed.

(* ------------------------------------------------------------------ *)
(* User-level corollaries                                              *)
(* ------------------------------------------------------------------ *)

Definition set_all (m : fmap V) (ops : list (name * V)) : fmap V :=
  fold_left (fun acc kv => fm_set acc (fst kv) (snd kv)) ops m.

(* a run of sets only touches the innermost frame *)
Lemma set_all_inner : forall (ops : list (name * V)) (m : fmap V) (f : list (name * V)) (r : frames),
  wf m -> abs m = f :: r ->
  wf (set_all m ops) /\ exists f', abs (set_all m ops) = f' :: r.
Proof.
  induction ops as [|[k v] ops IH]; intros m f r Hwf Habs; simpl.
  - split; [exact Hwf|]. exists f. exact Habs.
  - apply (IH (fm_set m k v) (set_assoc k v f) r).
    + apply wf_set. exact Hwf.
    + rewrite (abs_set m k v Hwf), Habs. reflexivity.
Qed.

(* pop after push restores the map exactly, whatever was set in between in that frame *)
Lemma pop_push_sets : forall m : fmap V, wf m -> forall ops : list (name * V),
  abs (fm_pop_frame (fold_left (fun acc kv => fm_set acc (fst kv) (snd kv)) ops (fm_push_frame m)))
  = abs m.
Proof.
  intros m Hwf ops.
  destruct (set_all_inner ops (fm_push_frame m) [] (abs m) (wf_push m Hwf) (abs_push m Hwf))
    as [Hwf' [f' Habs']].
  unfold set_all in Hwf', Habs'.
  rewrite (abs_pop _ Hwf'), Habs'. simpl.
  destruct (abs m) as [|g r] eqn:E; [|reflexivity].
  exfalso. exact (abs_nonempty m E).
Qed.

Lemma get_set_same : forall (m : fmap V) (k : name) (v : V),
  wf m -> fm_get (fm_set m k v) k = Some v.
Proof.
  intros m k v Hwf.
  rewrite (get_abs _ k (wf_set m k v Hwf)), (abs_set m k v Hwf).
  destruct (abs m) as [|f r]; simpl.
  - rewrite name_eqb_refl. reflexivity.
  - rewrite assoc_set_assoc_same. reflexivity.
Qed.

Lemma get_set_other : forall (m : fmap V) (k k' : name) (v : V),
  wf m -> k' <> k -> fm_get (fm_set m k v) k' = fm_get m k'.
Proof.
  intros m k k' v Hwf Hne.
  rewrite (get_abs _ k' (wf_set m k v Hwf)), (abs_set m k v Hwf), (get_abs m k' Hwf).
  destruct (abs m) as [|f r] eqn:E.
  - exfalso. exact (abs_nonempty m E).
  - simpl. rewrite (assoc_set_assoc_other k k' v f Hne). reflexivity.
Qed.

Lemma get_push : forall (m : fmap V) (k : name),
  wf m -> fm_get (fm_push_frame m) k = fm_get m k.
Proof. intros m k _. reflexivity. Qed.

End FramedMapProof.

(* shadowing: set a 1; push; set a 2; set b 3; then pop *)
Section Example.
Let a : name := [97%N].
Let b : name := [98%N].
Let m1 : fmap Z := fm_set fm_new a 1%Z.
Let m2 : fmap Z := fm_set (fm_set (fm_push_frame m1) a 2%Z) b 3%Z.
Let m3 : fmap Z := fm_pop_frame m2.

Example shadowing :
  fm_get m2 a = Some 2%Z /\ fm_get m2 b = Some 3%Z /\
  fm_get m3 a = Some 1%Z /\ fm_get m3 b = None /\
  abs m2 = [[(a, 2%Z); (b, 3%Z)]; [(a, 1%Z)]] /\ abs m3 = abs m1.
Proof. vm_compute. repeat split; reflexivity. Qed.
End Example.

Print Assumptions get_abs.
Print Assumptions flatten_abs.
Print Assumptions abs_set.
Print Assumptions abs_pop.
