(* PRINT-THEN-PARSE: the Display output of the syntax trees (Show.v) parses back to the trees.

   Stage B  show_expr_round_trip: lexing the text of a printable expression (followed by one of
            ) , ;) and running parse_expr on the tokens returns the expression.
   Stage C  show_row_round_trip, show_stmt_round_trip: the same for a data row (through
            parse_data_row) and for any statement on one or several lines (through the arm of
            parse_stmt_block).
   Stage D  print_then_parse: behind any header text with w names, the printed form of a
            printable statement list parses to that list, up to the line numbers recorded in the
            rows (strip_lines).  header_line_is_header: names separated by single blanks and
            followed by a newline are such a header text.
            parse_printable: every accepted text yields a printable statement list, hence
            projection: printing the statements of an accepted program behind its own header text
            gives a text that parses to the same statements.

   printable (ShowLex.printable_prog w): every number literal is in 0 .. 2^63-1; every variable,
   let-name and loop variable is an identifier lexeme that is not a keyword; every call is to
   random/ite/signExt with the right number of arguments (at least one); a bits(k, e) entry has
   k <= 64; every row is non-empty and fills exactly w columns (bits(k, e) fills k).  The
   spellings X, Z, C need no special care: a row entry that is an expression is printed in
   parentheses. *)
From Coq Require Import String.
From DTR Require Import Prelude Ast FramedMap Lexer Parser Show.
From DTR Require Import I64 Bind Eval Stmt Iter WfSpec.
From DTR Require Import RadixProof LexerProof ParserProof BinOpTreeProof Grammar GrammarProof ExprRoundTrip
                        GrammarComplete ShowLex ShowParse ShowPrintable.
Open Scope N_scope.

(* ================================================================== stage B: expressions from text *)

Lemma lex_split : forall s1 s2 vs1 pos ts,
  (forall vs, Lex s2 vs -> Lex (s1 ++ s2) (vs1 ++ vs)) ->
  lex_body pos (s1 ++ s2) = Some ts ->
  exists c1 c2, ts = c1 ++ c2 /\ view c1 = vs1 /\ view c2 = lex_view s2.
Proof.
  intros s1 s2 vs1 pos ts HL Hts.
  pose proof (HL _ (Lex_of_lex_view s2)) as H.
  pose proof (lex_body_Lex _ _ _ Hts) as H'.
  pose proof (Lex_det _ _ H' _ H) as Hv.
  destruct (view_app_inv _ _ _ Hv) as (c1 & c2 & -> & H1 & H2). exists c1, c2. timeout 20 auto.
Qed.

(* the first token of a text that starts with ) , ; *)
Lemma lex_view_closer : forall c r, c = 41 \/ c = 44 \/ c = 59 ->
  exists k, lex_view (c :: r) = (k, [c]) :: lex_view r /\ In k [TRParen; TComma; TSemi].
Proof.
  intros c r Hc.
  destruct Hc as [->|[->| ->]].
  - exists TRParen. split; [|cbn [In]; timeout 20 tauto]. apply Lex_lex_view. apply Lex_rp. apply Lex_of_lex_view.
  - exists TComma. split; [|cbn [In]; timeout 20 tauto]. apply Lex_lex_view. apply Lex_comma. apply Lex_of_lex_view.
  - exists TSemi. split; [|cbn [In]; timeout 20 tauto]. apply Lex_lex_view. apply Lex_semi. apply Lex_of_lex_view.
Qed.

(* STAGE B.  The text of a printable expression, followed by ) , or ; and anything: the lexer
   yields the expected tokens, parse_expr returns the expression and stops in front of the
   closing token. *)
Theorem show_expr_round_trip : forall e c r pos ts input_len st fuel,
  printable e -> c = 41 \/ c = 44 \/ c = 59 ->
  lex_body pos (show_expr e ++ c :: r) = Some ts -> toks st = ts ->
  (2 * length ts + 2 <= fuel)%nat ->
  exists st', parse_expr input_len fuel st = Ok (e, st') /\ view (toks st') = lex_view (c :: r).
Proof.
  intros e c r pos ts il st fuel Hp Hc Hts Hst Hfuel.
  destruct (lex_split (show_expr e) (c :: r) (tok_expr e) pos ts) as (c1 & c2 & -> & Hv1 & Hv2).
  { intros vs H. apply Lex_show_expr; [exact Hp | apply closer_cons; timeout 20 tauto | exact H]. }
  { exact Hts. }
  destruct (lex_view_closer c r Hc) as (k & Hk & Hin). rewrite Hk in Hv2.
  destruct (view_cons_inv _ _ _ Hv2) as (t & c3 & -> & Hkt & _ & _). cbn [fst] in Hkt.
  destruct (expr_run il e c1 st (t :: c3) fuel Hp Hv1 Hst) as (st' & E & X).
  - apply stop_expr_closer. rewrite Hkt. cbn [In] in *. timeout 20 tauto.
  - rewrite app_length in Hfuel. timeout 20 lia.
  - exists st'. split; [exact E|]. rewrite (proj1 X), Hk. exact Hv2.
Qed.

(* ================================================================== stage C: rows and statements from text *)

Lemma lex_view_nl : forall r, lex_view (10 :: r) = (TEol, [10]) :: lex_view r.
Proof. intros r. apply Lex_lex_view. apply Lex_nl. apply Lex_of_lex_view. Qed.

(* STAGE C, rows.  The printed row followed by a line break: parse_data_row returns the entries
   and stops in front of the Eol token. *)
Theorem show_row_round_trip : forall hdr data r pos ts input_len st fuel,
  printable_row (length hdr) data ->
  lex_body pos (show_row data ++ 10 :: r) = Some ts -> toks st = ts ->
  (1 + 4 * length ts <= fuel)%nat ->
  exists st', parse_data_row input_len hdr fuel st = Ok (data, st') /\
              view (toks st') = lex_view (10 :: r).
Proof.
  intros hdr data r pos ts il st fuel Hp Hts Hst Hfuel.
  destruct (lex_split (show_row data) (10 :: r) (tok_row data) pos ts) as (c1 & c2 & -> & Hv1 & Hv2).
  { intros vs H. apply Lex_show_row; [exact (proj1 (proj2 Hp)) | exact H]. }
  { exact Hts. }
  pose proof Hv2 as Hv2'. rewrite lex_view_nl in Hv2'.
  destruct (view_cons_inv _ _ _ Hv2') as (t & c3 & -> & Hkt & _ & _). cbn [fst] in Hkt.
  destruct (data_row_run il hdr data c1 st (t :: c3) fuel Hp Hv1 Hst) as (st' & E & X).
  - exists t, c3. timeout 20 auto.
  - rewrite Hst. exact Hfuel.
  - exists st'. split; [exact E|]. rewrite (proj1 X). exact Hv2.
Qed.

(* STAGE C/D, statements (simple ones, and loop/while blocks over several lines).  The printed
   statement followed by a line break: the arm of parse_stmt_block that the first token selects
   appends the statement (with some line number in its rows) and stops in front of the Eol. *)
Theorem show_stmt_round_trip : forall hdr s r pos ts input_len st fuel end_token block,
  printable_stmt (length hdr) s ->
  lex_body pos (show_stmt s ++ 10 :: r) = Some ts -> toks st = ts ->
  (1 + 4 * length ts <= fuel)%nat ->
  exists s' st', block_arm input_len hdr fuel end_token block (hd_kind ts) st =
                   Ok (ArmContinue (block ++ [s']), st') /\
                 strip_line s' = strip_line s /\ view (toks st') = lex_view (10 :: r).
Proof.
  intros hdr s r pos ts il st fuel et block Hp Hts Hst Hfuel.
  destruct (lex_split (show_stmt s) (10 :: r) (tok_stmt s) pos ts) as (c1 & c2 & -> & Hv1 & Hv2).
  { intros vs H. apply (Lex_show_stmt (length hdr)); [exact Hp | exact H]. }
  { exact Hts. }
  pose proof Hv2 as Hv2'. rewrite lex_view_nl in Hv2'.
  destruct (view_cons_inv _ _ _ Hv2') as (t & c3 & -> & Hkt & _ & _). cbn [fst] in Hkt.
  destruct (stmt_run il hdr s Hp c1 st (t :: c3) fuel et block Hv1 Hst) as (s' & st' & E & Hs & T).
  - exists t, c3. timeout 20 auto.
  - rewrite Hst. exact Hfuel.
  - exists s', st'. split; [|split; [exact Hs | rewrite T; exact Hv2]].
    assert (Hhd : hd_kind (c1 ++ t :: c3) = hd_kind c1).
    { destruct c1 as [|t0 c1]; [|reflexivity]. exfalso.
      eapply tok_stmt_nonempty; [exact Hp | symmetry; exact Hv1]. }
    rewrite Hhd. exact E.
Qed.

(* ================================================================== headers *)

(* a header text for the names: whatever follows it, parse_header reads exactly these names and
   hands over exactly the rest *)
Definition is_header (hdr : text) (names : list name) : Prop :=
  forall body, exists h, parse_header (hdr ++ body) = Ok h /\ h_names h = names /\ h_rest h = body.

(* hlex_one looks at most one character beyond the lexeme *)
Lemma hlex_one_stable : forall s k w d r', hlex_one s = Some (k, w, d :: r') ->
  forall x, hlex_one (w ++ d :: x) = Some (k, w, d :: x).
Proof.
  intros [|c r] k w d r' H x; [discriminate H|]. unfold hlex_one in H.
  destruct (is_ws c) eqn:Hws.
  { destruct (span_while is_ws r) as [a b] eqn:E. injection H as <- <- ->.
    cbn [app]. unfold hlex_one. rewrite Hws.
    rewrite (sw_app is_ws a (d :: x) (sw_all _ _ _ _ E)); [reflexivity|].
    exact (sw_rest _ _ _ _ E). }
  destruct (is_nl c) eqn:Hnl.
  { injection H as <- <- ->. cbn [app]. unfold hlex_one. rewrite Hws, Hnl. reflexivity. }
  destruct (span_while is_name_char r) as [a b] eqn:E. injection H as <- <- ->.
  cbn [app]. unfold hlex_one. rewrite Hws, Hnl.
  rewrite (sw_app is_name_char a (d :: x) (sw_all _ _ _ _ E)); [reflexivity|].
  exact (sw_rest _ _ _ _ E).
Qed.

Definition with_rest (h : header) (body : text) : header :=
  {| h_names := h_names h; h_spans := h_spans h; h_line := h_line h; h_pos := h_pos h; h_rest := body |}.

(* the header parser reads a prefix of the text and does not depend on what follows it *)
Lemma header_loop_prefix : forall f pos line names spans s h,
  parse_header_loop f pos line names spans s = Ok h ->
  exists pre, s = pre ++ h_rest h /\ pre <> [] /\
    forall body f', (length (pre ++ body) < f')%nat ->
      parse_header_loop f' pos line names spans (pre ++ body) = Ok (with_rest h body).
Proof.
  induction f as [|f IH]; intros pos line names spans s h H; [discriminate H|].
  rewrite parse_header_loop_S in H.
  destruct (hlex_one s) as [[[k w] r]|] eqn:E; [|discriminate H]. cbv zeta in H.
  destruct (hlex_one_progress _ _ _ _ E) as [-> Hw].
  assert (Hrec : forall line' names' spans',
            parse_header_loop f (pos + text_bytes w) line' names' spans' r = Ok h ->
            (forall f'' r2, hlex_one (w ++ r2) = Some (k, w, r2) ->
               parse_header_loop (S f'') pos line names spans (w ++ r2) =
               parse_header_loop f'' (pos + text_bytes w) line' names' spans' r2) ->
            exists pre, w ++ r = pre ++ h_rest h /\ pre <> [] /\
              forall body f', (length (pre ++ body) < f')%nat ->
                parse_header_loop f' pos line names spans (pre ++ body) = Ok (with_rest h body)).
  { intros line' names' spans' Hr Hstep.
    destruct (IH _ _ _ _ _ _ Hr) as (pre' & Hs & Hne & Hall).
    exists (w ++ pre'). split; [rewrite Hs at 1; rewrite app_assoc; reflexivity|].
    split; [destruct w; [timeout 20 congruence | discriminate]|].
    intros body f' Hlen. destruct f' as [|f'']; [timeout 20 lia|].
    rewrite <- app_assoc.
    destruct pre' as [|d p'']; [timeout 20 congruence|].
    assert (E' : hlex_one (w ++ (d :: p'') ++ body) = Some (k, w, (d :: p'') ++ body)).
    { cbn [app]. eapply hlex_one_stable. rewrite Hs in E. cbn [app] in E. exact E. }
    rewrite (Hstep f'' _ E'). apply Hall.
    rewrite <- app_assoc in Hlen. rewrite app_length in Hlen.
    destruct w; [timeout 20 congruence|]. cbn [length] in Hlen. timeout 20 lia. }
  destruct k as [[|]|].
  - destruct (position (name_eqb w) names) eqn:Epos; [discriminate H|].
    eapply Hrec; [exact H|]. intros f'' r2 E2.
    rewrite parse_header_loop_S, E2. cbv zeta. rewrite Epos. reflexivity.
  - destruct names as [|n names].
    + eapply Hrec; [exact H|]. intros f'' r2 E2.
      rewrite parse_header_loop_S, E2. reflexivity.
    + injection H as <-. cbn [h_rest]. exists w. split; [reflexivity|]. split; [exact Hw|].
      intros body f' Hlen. destruct f' as [|f'']; [timeout 20 lia|].
      pose proof (hlex_one_eol _ _ _ E) as ->.
      rewrite parse_header_loop_S. cbn [app]. reflexivity.
  - eapply Hrec; [exact H|]. intros f'' r2 E2.
    rewrite parse_header_loop_S, E2. reflexivity.
Qed.

(* the header text of a text: what parse_header consumes *)
Definition header_text_of (s : text) : text :=
  match parse_header s with
  | Ok h => firstn (length s - length (h_rest h)) s
  | _ => []
  end.

Theorem header_text_of_spec : forall s h, parse_header s = Ok h ->
  s = header_text_of s ++ h_rest h /\ is_header (header_text_of s) (h_names h).
Proof.
  intros s h H. unfold header_text_of. rewrite H.
  unfold parse_header in H.
  destruct (header_loop_prefix _ _ _ _ _ _ _ H) as (pre & Hs & _ & Hall).
  assert (Hpre : firstn (length s - length (h_rest h)) s = pre).
  { rewrite Hs at 2. rewrite Hs at 1. rewrite app_length.
    replace (length pre + length (h_rest h) - length (h_rest h))%nat with (length pre + 0)%nat by (timeout 20 lia).
    rewrite firstn_app_2. cbn [firstn]. apply app_nil_r. }
  rewrite Hpre. split; [exact Hs|].
  intros body. exists (with_rest h body). split; [|split; reflexivity].
  unfold parse_header. apply Hall. timeout 20 lia.
Qed.

(* ================================================================== stage D: programs *)

(* MAIN THEOREM.  Behind a header text with the names [names], the printed form of a statement
   list that is printable for that many columns parses, and the parser returns the same
   statements up to the line numbers recorded in the rows. *)
Theorem print_then_parse : forall hdr names ss,
  is_header hdr names -> printable_prog (length names) ss ->
  exists p, parse (hdr ++ show_prog ss) = Ok p /\
            strip_lines (p_stmts p) = strip_lines ss /\ p_signals p = names.
Proof.
  intros hdr names ss Hh Hp.
  destruct (Hh (show_prog ss)) as (h & Hph & Hn & Hr).
  unfold parse. rewrite Hph.
  destruct (lex_body_total (h_pos h) (h_rest h)) as [ts Hts]. rewrite Hts.
  rewrite Hr in Hts. pose proof (lex_body_show_prog _ ss _ ts Hp Hts) as Hv.
  rewrite <- Hn in Hp.
  match goal with |- context [parse_block_loop ?a ?b ?c None [] ?st0] =>
    destruct (prog_run a b ss Hp ts st0 [] c [] Hv) as (ss' & st' & E & Hs)
  end.
  - cbn [toks]. rewrite app_nil_r. reflexivity.
  - cbn [toks]. unfold parser_fuel. timeout 20 lia.
  - rewrite E. eexists. split; [reflexivity|]. cbn [p_stmts p_signals app].
    split; [exact Hs | exact Hn].
Qed.

(* ------------------------------------------------------------------ the usual header line *)

(* names separated by single blanks, followed by a newline *)
Definition header_line (names : list name) : text := join_with [32] names ++ [10].

(* a header name: not empty, no blank or line break in it *)
Definition name_ok (n : name) : Prop := n <> [] /\ Forall (fun c => is_name_char c = true) n.

Lemma position_none : forall A (p : A -> bool) l, (forall x, In x l -> p x = false) -> position p l = None.
Proof.
  induction l as [|a l IH]; intros H; [reflexivity|]. cbn [position].
  rewrite (H a) by (left; reflexivity). rewrite IH; [reflexivity|].
  intros x Hx. apply H. right. exact Hx.
Qed.

Lemma hlex_name : forall n c rest, name_ok n -> is_name_char c = false ->
  hlex_one (n ++ c :: rest) = Some (Some HName, n, c :: rest).
Proof.
  intros [|d w] c rest [Hne Hall] Hc; [timeout 20 congruence|]. inversion Hall as [|? ? Hd Hw]; subst.
  unfold is_name_char in Hd. apply negb_true_iff in Hd. apply orb_false_iff in Hd. destruct Hd as [Hws Hnl].
  cbn [app]. unfold hlex_one. rewrite Hws, Hnl.
  rewrite (sw_app is_name_char w (c :: rest) Hw Hc). reflexivity.
Qed.

Lemma hlex_blank : forall c rest, is_ws c = false ->
  hlex_one (32 :: c :: rest) = Some (None, [32], c :: rest).
Proof.
  intros c rest Hc. unfold hlex_one. change (is_ws 32) with true. cbv iota.
  cbn [span_while]. rewrite Hc. reflexivity.
Qed.

Lemma join_with_cons : forall sep (m : text) rest,
  join_with sep (m :: rest) = m ++ match rest with [] => [] | _ => sep ++ join_with sep rest end.
Proof. intros sep m [|m' rest]; [cbn [join_with]; rewrite app_nil_r; reflexivity | reflexivity]. Qed.

Lemma name_ok_head : forall n, name_ok n -> exists c w, n = c :: w /\ is_ws c = false.
Proof.
  intros [|c w] [Hne Hall]; [timeout 20 congruence|]. exists c, w. split; [reflexivity|].
  inversion Hall as [|? ? Hd _]; subst. unfold is_name_char in Hd.
  apply negb_true_iff in Hd. apply orb_false_iff in Hd. exact (proj1 Hd).
Qed.

Lemma header_eol_step : forall f pos line (names : list name) spans body, names <> [] ->
  parse_header_loop (S f) pos line names spans (10 :: body) =
  Ok {| h_names := names; h_spans := spans; h_line := line + 1; h_pos := pos + text_bytes [10]; h_rest := body |}.
Proof.
  intros f pos line names spans body Hne. rewrite parse_header_loop_S.
  change (hlex_one (10 :: body)) with (Some (Some HEol, [10], body)). cbv zeta.
  destruct names; [timeout 20 congruence | reflexivity].
Qed.

Lemma header_line_loop : forall names acc spans f pos line body,
  names <> [] -> Forall name_ok names -> NoDup (acc ++ names) ->
  Nat.lt (length (join_with [32] names ++ 10 :: body)) f ->
  exists h, parse_header_loop f pos line acc spans (join_with [32] names ++ 10 :: body) = Ok h /\
            h_names h = acc ++ names /\ h_rest h = body.
Proof.
  induction names as [|n names IH]; intros acc spans f pos line body Hne Hok Hnd Hlen; [timeout 20 congruence|].
  inversion Hok as [|? ? Hn Hok']; subst.
  assert (Hpos : position (name_eqb n) acc = None).
  { apply position_none. intros x Hx. apply name_eqb_neq. intros ->.
    apply NoDup_remove_2 in Hnd. apply Hnd. apply in_or_app. left. exact Hx. }
  destruct names as [|m names].
  - cbn [join_with] in *. destruct f as [|f]; [timeout 20 lia|].
    rewrite parse_header_loop_S, (hlex_name n 10 body Hn eq_refl). cbv zeta. rewrite Hpos.
    destruct f as [|f]; [rewrite app_length in Hlen; cbn [length] in Hlen; destruct Hn as [Hn0 _]; destruct n; [timeout 20 congruence | cbn [length] in Hlen; timeout 20 lia]|].
    rewrite header_eol_step by (intro E; eapply app_cons_not_nil; symmetry; exact E).
    eexists. split; [reflexivity|]. split; reflexivity.
  - rewrite join_with_cons in Hlen |- *. rewrite <- app_assoc in Hlen |- *.
    change (([32] ++ join_with [32] (m :: names)) ++ 10 :: body)
      with (32 :: (join_with [32] (m :: names) ++ 10 :: body)) in Hlen |- *.
    inversion Hok' as [|? ? Hm _]; subst.
    destruct (name_ok_head m Hm) as (c & w & -> & Hc).
    assert (Hhd : exists tl, join_with [32] (((c :: w) : name) :: names) ++ 10 :: body = c :: tl).
    { rewrite join_with_cons. cbn [app]. eexists. reflexivity. }
    destruct Hhd as (tl & Htl).
    destruct f as [|f]; [timeout 20 lia|].
    rewrite parse_header_loop_S, (hlex_name n 32 _ Hn eq_refl). cbv zeta. rewrite Hpos.
    assert (Hlen1 : Nat.lt (length (32 :: join_with [32] (((c :: w) : name) :: names) ++ 10 :: body)) f).
    { rewrite app_length in Hlen. destruct Hn as [Hn0 _]. destruct n; [timeout 20 congruence|]. cbn [length] in *. timeout 20 lia. }
    destruct f as [|f]; [cbn [length] in Hlen1; timeout 20 lia|].
    rewrite parse_header_loop_S. rewrite Htl. rewrite (hlex_blank c tl Hc). cbv zeta.
    rewrite <- Htl.
    destruct (IH (acc ++ [n]) (spans ++ [(pos, pos + text_bytes n)]) f (pos + text_bytes n + text_bytes [32])
                 line body) as (h & Hh & Hnames & Hrest).
    + discriminate.
    + exact Hok'.
    + rewrite <- app_assoc. exact Hnd.
    + apply Nat.succ_lt_mono. exact Hlen1.
    + exists h. split; [exact Hh|]. split; [rewrite Hnames, <- app_assoc; reflexivity | exact Hrest].
Qed.

(* the usual header line is a header text for its names *)
Theorem header_line_is_header : forall names,
  names <> [] -> NoDup names -> Forall name_ok names -> is_header (header_line names) names.
Proof.
  intros names Hne Hnd Hok body. unfold header_line, parse_header. rewrite <- app_assoc.
  change ([10] ++ body) with (10 :: body).
  destruct (header_line_loop names [] [] (S (length (join_with [32] names ++ 10 :: body))) 0 1 body
              Hne Hok Hnd) as (h & Hh & Hn & Hr); [timeout 20 lia|].
  exists h. timeout 20 auto.
Qed.

(* the main theorem for the usual header line *)
Corollary print_then_parse_line : forall names ss,
  names <> [] -> NoDup names -> Forall name_ok names -> printable_prog (length names) ss ->
  exists p, parse (header_line names ++ show_prog ss) = Ok p /\
            strip_lines (p_stmts p) = strip_lines ss /\ p_signals p = names.
Proof.
  intros names ss Hne Hnd Hok Hp. apply print_then_parse; [|exact Hp].
  apply header_line_is_header; assumption.
Qed.

(* ================================================================== the projection property *)

(* HEADLINE COROLLARY.  Every accepted text is projected by print-after-parse onto a text that
   parses back to the same program: the statements of an accepted program, printed behind the
   header text of the original, parse to the same statements (up to the recorded line numbers)
   under the same signal names. *)
Theorem projection : forall s p, parse s = Ok p ->
  exists p', parse (header_text_of s ++ show_prog (p_stmts p)) = Ok p' /\
             strip_lines (p_stmts p') = strip_lines (p_stmts p) /\ p_signals p' = p_signals p.
Proof.
  intros s p H. destruct (parse_Ok_inv _ _ H) as (h & ts & Hh & _ & Hsig).
  destruct (header_text_of_spec s h Hh) as [_ Hhdr].
  pose proof (parse_printable s p H) as Hp. rewrite Hsig in *.
  exact (print_then_parse (header_text_of s) (h_names h) (p_stmts p) Hhdr Hp).
Qed.

(* ... and a second round changes nothing more: the printed text is a fixed point of
   parse-then-print (as far as the statements are concerned) *)
Corollary projection_idempotent : forall s p, parse s = Ok p ->
  exists p', parse (header_text_of s ++ show_prog (p_stmts p)) = Ok p' /\
             show_prog (p_stmts p') = show_prog (p_stmts p).
Proof.
  intros s p H. destruct (projection s p H) as (p' & Hp' & Hs & _).
  exists p'. split; [exact Hp'|].
  assert (EL : forall body, Forall (fun s0 => show_stmt s0 = show_stmt (strip_line s0)) body ->
                show_lines body = show_lines (map strip_line body)).
  { intros body HF. induction HF as [|a l Ha _ IHl]; [reflexivity|].
    cbn [map]. rewrite !show_lines_cons, Ha, IHl. reflexivity. }
  assert (E1 : forall s0, show_stmt s0 = show_stmt (strip_line s0)).
  { induction s0 as [x e|data ln|v max body IH|c body IH|] using stmt_ind_nested; try reflexivity.
    - cbn [strip_line]. rewrite !show_stmt_loop, (EL body IH). reflexivity.
    - cbn [strip_line]. rewrite !show_stmt_while, (EL body IH). reflexivity. }
  assert (E : forall ss, show_prog ss = show_prog (strip_lines ss)).
  { intros ss. unfold show_prog, strip_lines. apply EL. apply Forall_forall. intros a _. apply E1. }
  rewrite (E (p_stmts p')), (E (p_stmts p)), Hs. reflexivity.
Qed.

Check show_expr_round_trip.
Check show_row_round_trip.
Check show_stmt_round_trip.
Check header_text_of_spec.
Check header_line_is_header.
Check print_then_parse.
Check print_then_parse_line.
Check parse_printable.
Check projection.
Check projection_idempotent.
Print Assumptions show_expr_round_trip.
Print Assumptions show_row_round_trip.
Print Assumptions show_stmt_round_trip.
Print Assumptions header_text_of_spec.
Print Assumptions header_line_is_header.
Print Assumptions print_then_parse.
Print Assumptions print_then_parse_line.
Print Assumptions parse_printable.
Print Assumptions projection.
Print Assumptions projection_idempotent.
