(* Property C11: binding a parsed test to a signal list (ParsedTestCase::with_signals)
   succeeds exactly when the two fit together (WfSpec.fits); it never panics; and what it
   returns satisfies everything the running code relies on (WfSpec.wf_tc). *)
From DTR Require Import Prelude I64 Ast FramedMap Parser Bind Eval Stmt Iter WfSpec.
From DTR.proofs Require Import ByNameProof.
Local Open Scope nat_scope.

(* ------------------------------------------------------------------ results that are Ok or Err *)

(* `decides r b`: r is a value when b holds and a returned error when it does not
   (in particular r is neither a panic nor out-of-fuel) *)
Definition decides {A} (r : R serr A) (b : bool) : Prop :=
  if b then exists a, r = Ok a else exists e, r = Err e.

Lemma decides_bind : forall A B (r : R serr A) (k : A -> R serr B) b b',
  decides r b -> (forall a, r = Ok a -> decides (k a) b') -> decides (rbind r k) (b && b').
Proof.
  intros A B r k b b' Hr Hk. destruct b; cbn [decides andb] in *.
  - destruct Hr as [a Ha]. specialize (Hk a Ha). rewrite Ha. exact Hk.
  - destruct Hr as [e He]. rewrite He. exists e. reflexivity.
Qed.

Lemma decides_ok_iff : forall A (r : R serr A) b, decides r b -> ((exists a, r = Ok a) <-> b = true).
Proof.
  intros A r b H. destruct b; cbn [decides] in H; split; intro G; auto; try discriminate.
  destruct H as [e He]. destruct G as [a Ha]. congruence.
Qed.

Lemma decides_err_iff : forall A (r : R serr A) b, decides r b -> ((exists e, r = Err e) <-> b = false).
Proof.
  intros A r b H. destruct b; cbn [decides] in H; split; intro G; auto; try discriminate.
  destruct H as [a Ha]. destruct G as [e He]. congruence.
Qed.

Lemma decides_no_panic : forall A (r : R serr A) b, decides r b -> (forall s, r <> Panic s) /\ r <> OOF.
Proof.
  intros A r b H. destruct b; cbn [decides] in H; destruct H as [x Hx]; rewrite Hx;
    split; try intro s; discriminate.
Qed.

Lemma decides_ext : forall A (r : R serr A) b b', b = b' -> decides r b -> decides r b'.
Proof. intros; subst; assumption. Qed.

(* ------------------------------------------------------------------ list facts *)

Lemma existsb_name_In : forall n l, existsb (name_eqb n) l = true <-> In n l.
Proof.
  intros n l. rewrite existsb_exists. split.
  - intros [x [Hin Hx]]. apply name_eqb_eq in Hx. subst. exact Hin.
  - intro Hin. exists n. split; [exact Hin|apply name_eqb_refl].
Qed.

Lemma names_distinct_NoDup : forall l, names_distinct l = true <-> NoDup l.
Proof.
  induction l as [|n r IH]; cbn [names_distinct].
  - split; [constructor|reflexivity].
  - rewrite andb_true_iff, negb_true_iff, IH. split.
    + intros [H1 H2]. constructor; [|exact H2].
      intro Hin. apply existsb_name_In in Hin. congruence.
    + intro H. inversion H as [|x l' Hn Hr]; subst. split; [|exact Hr].
      destruct (existsb (name_eqb n) r) eqn:E; [|reflexivity].
      apply existsb_name_In in E. contradiction.
Qed.

Lemma NoDup_app_intro : forall A (l1 l2 : list A),
  NoDup l1 -> NoDup l2 -> (forall x, In x l1 -> ~ In x l2) -> NoDup (l1 ++ l2).
Proof.
  induction l1 as [|a l1 IH]; intros l2 H1 H2 Hd; cbn [app]; [exact H2|].
  inversion H1 as [|x l' Hn Hr]; subst. constructor.
  - rewrite in_app_iff. intros [Hi|Hi]; [contradiction|].
    apply (Hd a); [left; reflexivity|exact Hi].
  - apply IH; auto. intros x Hx. apply Hd. right. exact Hx.
Qed.

Lemma position_None_iff : forall A (f : A -> bool) l, position f l = None <-> existsb f l = false.
Proof.
  induction l as [|x r IH]; cbn [position existsb]; [split; reflexivity|].
  destruct (f x); cbn [orb]; [split; discriminate|].
  rewrite <- IH. destruct (position f r); cbn [option_map]; split; congruence.
Qed.

Lemma position_Some_first : forall A (f : A -> bool) l i,
  position f l = Some i -> forall k x, k < i -> nth_error l k = Some x -> f x = false.
Proof.
  induction l as [|y r IH]; cbn [position]; intros i H k x Hk Hx; [discriminate|].
  destruct (f y) eqn:Fy.
  - inversion H; subst. lia.
  - destruct (position f r) as [i'|] eqn:E; cbn [option_map] in H; [|discriminate].
    inversion H; subst. destruct k as [|k]; cbn [nth_error] in Hx.
    + inversion Hx; subst. exact Fy.
    + apply (IH i' eq_refl k x); [lia|exact Hx].
Qed.

(* in a list without duplicates, the first position of a name is its position *)
Lemma position_name_NoDup : forall (l : list name) j c,
  NoDup l -> nth_error l j = Some c -> position (name_eqb c) l = Some j.
Proof.
  induction l as [|y r IH]; intros j c Hnd Hj; [destruct j; discriminate|].
  inversion Hnd as [|x l' Hn Hr]; subst. cbn [position]. destruct j as [|j]; cbn [nth_error] in Hj.
  - inversion Hj; subst. rewrite name_eqb_refl. reflexivity.
  - destruct (name_eqb c y) eqn:E.
    + apply name_eqb_eq in E. subst y. exfalso. apply Hn. eapply nth_error_In. exact Hj.
    + rewrite (IH j c Hr Hj). reflexivity.
Qed.

Lemma position_name_nth : forall (l : list name) j c,
  position (name_eqb c) l = Some j -> nth_error l j = Some c.
Proof.
  intros l j c H. destruct (position_Some_nth _ _ _ _ H) as [x [Hx Ex]].
  apply name_eqb_eq in Ex. subst x. exact Hx.
Qed.

Lemma header_pos_nth : forall p c j, header_pos p c = Some j -> nth_error (p_signals p) j = Some c.
Proof. intros p c j H. apply position_name_nth. exact H. Qed.

Lemma header_pos_lt : forall p c j, header_pos p c = Some j -> j < length (p_signals p).
Proof. intros p c j H. eapply position_Some_lt. exact H. Qed.

Lemma header_pos_NoDup : forall p c j,
  NoDup (p_signals p) -> nth_error (p_signals p) j = Some c -> header_pos p c = Some j.
Proof. intros p c j Hnd H. apply position_name_NoDup; assumption. Qed.

(* ------------------------------------------------------------------ check_duplicate_signals *)

Lemma first_duplicate_None : forall sigs seen,
  first_duplicate seen sigs = None <->
  NoDup (map sname sigs) /\ (forall s, In s sigs -> ~ In (sname s) seen).
Proof.
  induction sigs as [|s r IH]; intro seen; cbn [first_duplicate map].
  - split; [intros _; split; [constructor|intros s []]|reflexivity].
  - destruct (existsb (name_eqb (sname s)) seen) eqn:E.
    + split; [discriminate|]. intros [_ H]. apply existsb_name_In in E.
      exfalso. apply (H s); [left; reflexivity|exact E].
    + rewrite IH. split.
      * intros [Hnd Hs]. split.
        -- constructor; [|exact Hnd]. intro Hin. apply in_map_iff in Hin.
           destruct Hin as [s' [Hn Hi]]. apply (Hs s' Hi). left. symmetry. exact Hn.
        -- intros s' [Hs'|Hs'].
           ++ subst s'. intro Hin. apply existsb_name_In in Hin. congruence.
           ++ intro Hin. apply (Hs s' Hs'). right. exact Hin.
      * intros [Hnd Hs]. inversion Hnd as [|x l' Hn Hr]; subst. split; [exact Hr|].
        intros s' Hs' [Hin|Hin].
        -- apply Hn. rewrite Hin. apply in_map. exact Hs'.
        -- apply (Hs s'); [right; exact Hs'|exact Hin].
Qed.

Lemma first_duplicate_names_distinct : forall sigs,
  first_duplicate [] sigs = None <-> names_distinct (map sname sigs) = true.
Proof.
  intro sigs. rewrite first_duplicate_None, names_distinct_NoDup. split; [tauto|].
  intro H. split; [exact H|]. intros s _ [].
Qed.

Definition virtual_clash (sigs0 : list signal) (v : name * expr * span) : bool :=
  existsb (fun s => name_eqb (sname s) (fst (fst v))) sigs0.

Lemma find_None_forallb : forall A (f : A -> bool) l,
  find f l = None <-> forallb (fun x => negb (f x)) l = true.
Proof.
  induction l as [|x r IH]; cbn [find forallb]; [split; reflexivity|].
  destruct (f x); cbn [negb andb]; [split; discriminate|exact IH].
Qed.

Definition dup_ok (p : parsed) (sigs0 : list signal) : bool :=
  names_distinct (map sname sigs0)
  && forallb (fun v => negb (existsb (fun s => name_eqb (sname s) (fst (fst v))) sigs0)) (p_virtuals p).

Lemma check_duplicate_signals_decides : forall p sigs0,
  decides (check_duplicate_signals p sigs0) (dup_ok p sigs0).
Proof.
  intros p sigs0. unfold check_duplicate_signals, dup_ok.
  destruct (first_duplicate [] sigs0) as [n|] eqn:Fd.
  - destruct (names_distinct (map sname sigs0)) eqn:Nd.
    + apply first_duplicate_names_distinct in Nd. congruence.
    + cbn [andb decides]. eexists. reflexivity.
  - apply first_duplicate_names_distinct in Fd. rewrite Fd. cbn [andb].
    destruct (find (fun v => existsb (fun s => name_eqb (sname s) (fst (fst v))) sigs0) (p_virtuals p))
      as [[[n e] sp]|] eqn:Fv.
    + destruct (forallb (fun v => negb (existsb (fun s => name_eqb (sname s) (fst (fst v))) sigs0))
                  (p_virtuals p)) eqn:Fb.
      * apply (find_None_forallb _ (fun v => existsb (fun s => name_eqb (sname s) (fst (fst v))) sigs0)) in Fb.
        congruence.
      * cbn [decides]. eexists. reflexivity.
    + apply find_None_forallb in Fv. rewrite Fv. cbn [decides]. eexists. reflexivity.
Qed.

(* ------------------------------------------------------------------ build_indices *)

Definition opt_is (o : option nat) (j : nat) : bool :=
  match o with Some e => Nat.eqb e j | None => false end.

Lemma ei_indexes_mk_index : forall pos i j, ei_indexes (mk_index pos i) j = opt_is pos j.
Proof. intros [e|] i j; reflexivity. Qed.

(* the header column a signal is driven from / compared with *)
Definition in_col (p : parsed) (s : signal) : option nat :=
  if is_input s then header_pos p (sname s) else None.
Definition exp_col (p : parsed) (s : signal) : option nat :=
  match styp s with
  | TyInput _ => None
  | TyBidir _ => header_pos p (sname s ++ out_suffix)
  | TyOutput | TyVirtual _ => header_pos p (sname s)
  end.

Lemma build_indices_from_columns : forall p j sigs i ins exps,
  build_indices_from p i sigs = (ins, exps) ->
  existsb (fun e => ei_indexes e j) ins = existsb (fun s => opt_is (in_col p s) j) sigs
  /\ existsb (fun e => ei_indexes e j) exps = existsb (fun s => opt_is (exp_col p s) j) sigs.
Proof.
  intros p j. induction sigs as [|s r IH]; intros i ins exps Hb; cbn [build_indices_from] in Hb.
  - inversion Hb; subst. split; reflexivity.
  - destruct (build_indices_from p (S i) r) as [ins' exps'] eqn:Hb'.
    destruct (IH _ _ _ Hb') as [IHi IHx]. cbn [existsb]. unfold in_col, exp_col, is_input.
    destruct (styp s) as [d| |d|e]; inversion Hb; subst ins exps; cbn [existsb opt_is];
      rewrite ?ei_indexes_mk_index, IHi, IHx; split; reflexivity.
Qed.

(* where the entries of the index vectors come from *)
Lemma build_indices_from_In : forall p sigs i ins exps,
  build_indices_from p i sigs = (ins, exps) ->
  (forall idx, In idx ins -> exists k s, nth_error sigs k = Some s /\ is_input s = true
                              /\ idx = mk_index (header_pos p (sname s)) (i + k))
  /\ (forall idx, In idx exps -> exists k s c, nth_error sigs k = Some s
                              /\ idx = mk_index (header_pos p c) (i + k)).
Proof.
  intros p. induction sigs as [|s r IH]; intros i ins exps Hb; cbn [build_indices_from] in Hb.
  - inversion Hb; subst. split; intros idx [].
  - destruct (build_indices_from p (S i) r) as [ins' exps'] eqn:Hb'.
    destruct (IH _ _ _ Hb') as [IHi IHx].
    assert (Hi' : forall idx, In idx ins' -> exists k s0, nth_error (s :: r) k = Some s0
               /\ is_input s0 = true /\ idx = mk_index (header_pos p (sname s0)) (i + k)).
    { intros idx Hin. destruct (IHi idx Hin) as [k [s0 [Hk [Hs0 E]]]].
      exists (S k), s0. cbn [nth_error]. repeat split; auto. rewrite E. f_equal. lia. }
    assert (Hx' : forall idx, In idx exps' -> exists k s0 c, nth_error (s :: r) k = Some s0
               /\ idx = mk_index (header_pos p c) (i + k)).
    { intros idx Hin. destruct (IHx idx Hin) as [k [s0 [c [Hk E]]]].
      exists (S k), s0, c. cbn [nth_error]. split; auto. rewrite E. f_equal. lia. }
    assert (HI0 : is_input s = true ->
               forall idx, In idx (mk_index (header_pos p (sname s)) i :: ins') ->
               exists k s0, nth_error (s :: r) k = Some s0
               /\ is_input s0 = true /\ idx = mk_index (header_pos p (sname s0)) (i + k)).
    { intros Hin idx [E|Hidx]; [|apply Hi'; exact Hidx]. subst idx.
      exists 0, s. cbn [nth_error]. repeat split; auto; f_equal; lia. }
    assert (HX0 : forall c idx, In idx (mk_index (header_pos p c) i :: exps') ->
               exists k s0 c', nth_error (s :: r) k = Some s0
               /\ idx = mk_index (header_pos p c') (i + k)).
    { intros c idx [E|Hidx]; [|apply Hx'; exact Hidx]. subst idx.
      exists 0, s, c. cbn [nth_error]. split; auto; f_equal; lia. }
    unfold is_input in HI0.
    destruct (styp s) as [d| |d|e] eqn:Ty; inversion Hb; subst ins exps; split;
      try exact Hi'; try exact Hx'; try (apply HI0; reflexivity); try apply HX0.
Qed.

(* the signal indices in both vectors are strictly increasing, hence distinct *)
Lemma build_indices_from_NoDup : forall p sigs i ins exps,
  build_indices_from p i sigs = (ins, exps) ->
  (Forall (fun idx => i <= ei_signal_index idx) ins /\ NoDup (map ei_signal_index ins))
  /\ (Forall (fun idx => i <= ei_signal_index idx) exps /\ NoDup (map ei_signal_index exps)).
Proof.
  intros p. induction sigs as [|s r IH]; intros i ins exps Hb; cbn [build_indices_from] in Hb.
  - inversion Hb; subst. cbn [map]. repeat split; constructor.
  - destruct (build_indices_from p (S i) r) as [ins' exps'] eqn:Hb'.
    destruct (IH _ _ _ Hb') as [[Fi Ni] [Fx Nx]].
    assert (W : forall l, Forall (fun idx => S i <= ei_signal_index idx) l ->
                          Forall (fun idx => i <= ei_signal_index idx) l).
    { intros l F. eapply Forall_impl; [|exact F]. cbn beta. intros; lia. }
    assert (C : forall l c, Forall (fun idx => S i <= ei_signal_index idx) l ->
                NoDup (map ei_signal_index l) ->
                Forall (fun idx => i <= ei_signal_index idx) (mk_index (header_pos p c) i :: l)
                /\ NoDup (map ei_signal_index (mk_index (header_pos p c) i :: l))).
    { intros l c F N. split.
      - constructor; [rewrite ei_signal_index_mk_index; lia|apply W; exact F].
      - cbn [map]. rewrite ei_signal_index_mk_index. constructor; [|exact N].
        intro Hin. apply in_map_iff in Hin. destruct Hin as [idx [E Hin]].
        rewrite Forall_forall in F. specialize (F idx Hin). lia. }
    destruct (styp s) as [d| |d|e]; inversion Hb; subst ins exps; split; auto.
Qed.

(* ------------------------------------------------------------------ check_missing_signals *)

Fixpoint all_from (g : nat -> bool) (i : nat) (l : list name) : bool :=
  match l with [] => true | _ :: r => g i && all_from g (S i) r end.

Lemma all_from_iff : forall g l i,
  all_from g i l = true <-> (forall k, k < length l -> g (i + k) = true).
Proof.
  intros g. induction l as [|c r IH]; intro i; cbn [all_from length].
  - split; [intros _ k Hk; lia|reflexivity].
  - rewrite andb_true_iff, IH. split.
    + intros [H0 Hr] k Hk. destruct k as [|k]; [rewrite Nat.add_0_r; exact H0|].
      replace (i + S k) with (S i + k) by lia. apply Hr. lia.
    + intro H. split; [rewrite <- (Nat.add_0_r i); apply H; lia|].
      intros k Hk. replace (S i + k) with (i + S k) by lia. apply H. lia.
Qed.

Lemma missing_nil : forall (g : nat -> bool) l i,
  flat_map (fun x : list name => x) (mapi_aux (fun (j : nat) (nm : name) => if g j then @nil name else [nm]) i l) = []
  <-> all_from g i l = true.
Proof.
  intros g. induction l as [|c r IH]; intro i; cbn [mapi_aux flat_map all_from]; [split; reflexivity|].
  destruct (g i); cbn [app andb]; [apply IH|split; discriminate].
Qed.

Definition covered (ins exps : list entry_index) (j : nat) : bool :=
  existsb (fun e => ei_indexes e j) (ins ++ exps).

Definition all_covered (p : parsed) (ins exps : list entry_index) : bool :=
  all_from (covered ins exps) 0 (p_signals p).

Lemma check_missing_signals_decides : forall p ins exps,
  decides (check_missing_signals p ins exps) (all_covered p ins exps).
Proof.
  intros p ins exps. unfold check_missing_signals, all_covered, mapi.
  pose proof (missing_nil (covered ins exps) (p_signals p) 0) as M. unfold covered in *.
  destruct (flat_map (fun x : list name => x) _) as [|m ms].
  - rewrite (proj1 M eq_refl). cbn [decides]. eexists. reflexivity.
  - destruct (all_from _ 0 (p_signals p)).
    + destruct M as [_ M]. specialize (M eq_refl). discriminate.
    + cbn [decides]. eexists. reflexivity.
Qed.

(* a column is covered exactly when some signal is driven from it or compared with it *)
Lemma covered_iff : forall p sigs i ins exps j,
  build_indices_from p i sigs = (ins, exps) ->
  (covered ins exps j = true <->
   exists s, In s sigs /\ (header_pos p (sname s) = Some j
                          \/ (exists d, styp s = TyBidir d) /\ header_pos p (sname s ++ out_suffix) = Some j)).
Proof.
  intros p sigs i ins exps j Hb. unfold covered.
  destruct (build_indices_from_columns p j _ _ _ _ Hb) as [Hi Hx].
  rewrite existsb_app, Hi, Hx, orb_true_iff, !existsb_exists.
  assert (OI : forall o, opt_is o j = true <-> o = Some j).
  { intros [e|]; cbn [opt_is]; [rewrite Nat.eqb_eq|]; split; congruence. }
  split.
  - intros [[s [Hin H]]|[s [Hin H]]]; exists s; (split; [exact Hin|]); apply OI in H.
    + unfold in_col in H. destruct (is_input s); [left; exact H|discriminate].
    + unfold exp_col in H. destruct (styp s) as [d| |d|e]; try discriminate; auto.
      right. split; [exists d; reflexivity|exact H].
  - intros [s [Hin [H|[[d Ty] H]]]].
    + destruct (is_input s) eqn:I.
      * left. exists s. split; [exact Hin|]. apply OI. unfold in_col. rewrite I. exact H.
      * right. exists s. split; [exact Hin|]. apply OI. unfold exp_col. unfold is_input in I.
        destruct (styp s); try discriminate; exact H.
    + right. exists s. split; [exact Hin|]. apply OI. unfold exp_col. rewrite Ty. exact H.
Qed.

Lemma column_fits_iff : forall p sigs0 c,
  column_fits p sigs0 c = true <->
  exists s, In s (all_sigs p sigs0) /\ (sname s = c \/ (exists d, styp s = TyBidir d) /\ sname s ++ out_suffix = c).
Proof.
  intros p sigs0 c. unfold column_fits. rewrite existsb_exists. split.
  - intros [s [Hin H]]. exists s. split; [exact Hin|]. apply orb_true_iff in H. destruct H as [H|H].
    + left. apply name_eqb_eq. exact H.
    + destruct (styp s) as [d| |d|e]; try discriminate. right. split; [exists d; reflexivity|].
      apply name_eqb_eq. exact H.
  - intros [s [Hin H]]. exists s. split; [exact Hin|]. apply orb_true_iff. destruct H as [H|[[d Ty] H]].
    + left. apply name_eqb_eq. exact H.
    + right. rewrite Ty. apply name_eqb_eq. exact H.
Qed.

(* if every column is covered, every column names a signal, and the header has no duplicates *)
Lemma all_covered_fits : forall p sigs0 i ins exps,
  build_indices_from p i (all_sigs p sigs0) = (ins, exps) ->
  all_covered p ins exps = true ->
  forallb (column_fits p sigs0) (p_signals p) = true /\ NoDup (p_signals p).
Proof.
  intros p sigs0 i ins exps Hb Hc. unfold all_covered in Hc. rewrite all_from_iff in Hc.
  assert (K : forall j c, nth_error (p_signals p) j = Some c ->
            header_pos p c = Some j /\ column_fits p sigs0 c = true).
  { intros j c Hj. assert (Hlt : j < length (p_signals p)) by (apply nth_error_Some; congruence).
    specialize (Hc j Hlt). cbn [Nat.add] in Hc.
    apply (covered_iff p _ _ _ _ j Hb) in Hc. destruct Hc as [s [Hin [H|[Ty H]]]].
    - pose proof (header_pos_nth _ _ _ H) as Hn. rewrite Hj in Hn. inversion Hn; subst c.
      split; [exact H|]. apply column_fits_iff. exists s. auto.
    - pose proof (header_pos_nth _ _ _ H) as Hn. rewrite Hj in Hn. inversion Hn; subst c.
      split; [exact H|]. apply column_fits_iff. exists s. auto. }
  split.
  - apply forallb_forall. intros c Hin. apply In_nth_error in Hin. destruct Hin as [j Hj].
    apply (K j c Hj).
  - apply NoDup_nth_error. intros a b Ha E.
    destruct (nth_error (p_signals p) a) as [c|] eqn:Ea; [|apply nth_error_Some in Ha; congruence].
    symmetry in E. destruct (K a c Ea) as [Pa _]. destruct (K b c E) as [Pb _]. congruence.
Qed.

Lemma fits_all_covered : forall p sigs0 i ins exps,
  build_indices_from p i (all_sigs p sigs0) = (ins, exps) ->
  NoDup (p_signals p) ->
  forallb (column_fits p sigs0) (p_signals p) = true ->
  all_covered p ins exps = true.
Proof.
  intros p sigs0 i ins exps Hb Hnd Hf. unfold all_covered. rewrite all_from_iff.
  intros j Hlt. cbn [Nat.add]. rewrite forallb_forall in Hf.
  destruct (nth_error (p_signals p) j) as [c|] eqn:Ej; [|apply nth_error_Some in Hlt; congruence].
  specialize (Hf c (nth_error_In _ _ Ej)). apply column_fits_iff in Hf.
  destruct Hf as [s [Hin H]]. apply (covered_iff p _ _ _ _ j Hb). exists s. split; [exact Hin|].
  destruct H as [H|[Ty H]]; [left|right; split; [exact Ty|]]; rewrite H;
    apply header_pos_NoDup; assumption.
Qed.

(* ------------------------------------------------------------------ check_expected_inputs, build_read_outputs *)

Definition inputs_ok (sigs : list signal) (l : list (name * span)) : bool :=
  forallb (fun ne => existsb (fun s => name_eqb (sname s) (fst ne) && is_input s) sigs) l.
Definition outputs_ok (sigs : list signal) (l : list (name * span)) : bool :=
  forallb (fun ne => existsb (fun s => name_eqb (sname s) (fst ne) && is_output s) sigs) l.

Lemma check_expected_inputs_decides : forall p sigs l,
  decides (check_expected_inputs p sigs l) (inputs_ok sigs l).
Proof.
  intros p sigs. induction l as [|[n at_] r IH]; cbn [check_expected_inputs inputs_ok forallb fst].
  - eexists. reflexivity.
  - destruct (existsb (fun s => name_eqb (sname s) n && is_input s) sigs); cbn [andb]; [exact IH|].
    destruct (header_pos p n); cbn [decides]; eexists; reflexivity.
Qed.

Lemma build_read_outputs_decides : forall p sigs l,
  decides (build_read_outputs p sigs l) (outputs_ok sigs l).
Proof.
  intros p sigs. induction l as [|[n at_] r IH]; cbn [build_read_outputs outputs_ok forallb fst].
  - eexists. reflexivity.
  - destruct (position (fun s => name_eqb (sname s) n && is_output s) sigs) as [i|] eqn:P.
    + destruct (existsb (fun s => name_eqb (sname s) n && is_output s) sigs) eqn:E.
      * cbn [andb]. fold (outputs_ok sigs r).
        destruct (outputs_ok sigs r); cbn [decides] in *.
        -- destruct IH as [a Ha]. rewrite Ha. eexists. reflexivity.
        -- destruct IH as [e He]. rewrite He. eexists. reflexivity.
      * apply position_None_iff in E. congruence.
    + apply position_None_iff in P. rewrite P. cbn [andb decides].
      destruct (header_pos p n); eexists; reflexivity.
Qed.

Lemma build_read_outputs_sound : forall p sigs l reads,
  build_read_outputs p sigs l = Ok reads ->
  Forall (fun i => exists s, nth_error sigs i = Some s /\ is_output s = true) reads.
Proof.
  intros p sigs. induction l as [|[n at_] r IH]; intros reads H; cbn [build_read_outputs] in H.
  - inversion H; subst. constructor.
  - destruct (position (fun s => name_eqb (sname s) n && is_output s) sigs) as [i|] eqn:P.
    + destruct (build_read_outputs p sigs r) as [rest|e|site|]; cbn [rbind] in H; try discriminate.
      inversion H; subst. constructor; [|apply IH; reflexivity].
      destruct (position_Some_nth _ _ _ _ P) as [s [Hs Hp]]. exists s. split; [exact Hs|].
      apply andb_true_iff in Hp. apply Hp.
    + destruct (header_pos p n); discriminate.
Qed.

(* ------------------------------------------------------------------ with_signals decides *)

(* the condition the code checks, stage by stage *)
Definition code_ok (p : parsed) (sigs0 : list signal) : bool :=
  dup_ok p sigs0
  && (all_covered p (fst (build_indices p (all_sigs p sigs0))) (snd (build_indices p (all_sigs p sigs0)))
  && (inputs_ok (all_sigs p sigs0) (p_expected_inputs p)
  && (outputs_ok (all_sigs p sigs0) (p_read_outputs p) && true))).

Lemma with_signals_decides : forall p sigs0, decides (with_signals p sigs0) (code_ok p sigs0).
Proof.
  intros p sigs0. unfold with_signals, code_ok. fold (all_sigs p sigs0).
  apply decides_bind; [apply check_duplicate_signals_decides|]. intros _ _.
  destruct (build_indices p (all_sigs p sigs0)) as [ins exps]. cbn [fst snd].
  apply decides_bind; [apply check_missing_signals_decides|]. intros _ _.
  apply decides_bind; [apply check_expected_inputs_decides|]. intros _ _.
  apply decides_bind; [apply build_read_outputs_decides|]. intros reads _.
  cbn [decides]. eexists. reflexivity.
Qed.

Lemma fits_unfold : forall p sigs0,
  fits p sigs0 = dup_ok p sigs0 && forallb (column_fits p sigs0) (p_signals p)
                 && inputs_ok (all_sigs p sigs0) (p_expected_inputs p)
                 && outputs_ok (all_sigs p sigs0) (p_read_outputs p).
Proof. reflexivity. Qed.

(* the code's condition implies the specification's, and that the header has no duplicates *)
Lemma code_ok_fits : forall p sigs0,
  code_ok p sigs0 = true -> fits p sigs0 = true /\ NoDup (p_signals p).
Proof.
  intros p sigs0 H. unfold code_ok in H. rewrite !andb_true_iff in H.
  destruct H as [H1 [H2 [H3 [H4 _]]]].
  destruct (build_indices p (all_sigs p sigs0)) as [ins exps] eqn:Hb. cbn [fst snd] in H2.
  destruct (all_covered_fits p sigs0 0 ins exps Hb H2) as [Hf Hnd].
  split; [|exact Hnd]. rewrite fits_unfold, H1, Hf, H3, H4. reflexivity.
Qed.

Lemma fits_code_ok : forall p sigs0,
  NoDup (p_signals p) -> fits p sigs0 = true -> code_ok p sigs0 = true.
Proof.
  intros p sigs0 Hnd H. rewrite fits_unfold, !andb_true_iff in H.
  destruct H as [[[H1 H2] H3] H4]. unfold code_ok.
  destruct (build_indices p (all_sigs p sigs0)) as [ins exps] eqn:Hb. cbn [fst snd].
  rewrite H1, H3, H4, (fits_all_covered p sigs0 0 ins exps Hb Hnd H2). reflexivity.
Qed.

Lemma code_ok_eq_fits : forall p sigs0, NoDup (p_signals p) -> code_ok p sigs0 = fits p sigs0.
Proof.
  intros p sigs0 Hnd. destruct (fits p sigs0) eqn:F.
  - apply fits_code_ok; assumption.
  - destruct (code_ok p sigs0) eqn:C; [|reflexivity].
    apply code_ok_fits in C. destruct C as [C _]. congruence.
Qed.

(* ================================================================== C11 *)

(* binding never panics and never runs out of fuel: for every parsed test and signal list *)
Theorem C11_bind_never_panics : forall p sigs0 s, with_signals p sigs0 <> Panic s.
Proof. intros p sigs0. apply (decides_no_panic _ _ _ (with_signals_decides p sigs0)). Qed.

Theorem C11_bind_never_oof : forall p sigs0, with_signals p sigs0 <> OOF.
Proof. intros p sigs0. apply (decides_no_panic _ _ _ (with_signals_decides p sigs0)). Qed.

(* with no hypothesis at all: binding succeeds exactly when the two fit together AND the
   header has no repeated column name (the header parser rejects repeated names) *)
Theorem C11_bind_iff_fits_exact : forall p sigs0,
  (exists tc, with_signals p sigs0 = Ok tc) <-> fits p sigs0 = true /\ NoDup (p_signals p).
Proof.
  intros p sigs0. rewrite (decides_ok_iff _ _ _ (with_signals_decides p sigs0)). split.
  - apply code_ok_fits.
  - intros [F Hnd]. apply fits_code_ok; assumption.
Qed.

(* success implies fitting, for every parsed test *)
Theorem C11_bind_ok_fits : forall p sigs0 tc, with_signals p sigs0 = Ok tc -> fits p sigs0 = true.
Proof.
  intros p sigs0 tc H. apply (C11_bind_iff_fits_exact p sigs0). exists tc. exact H.
Qed.

(* not fitting implies a returned error, for every parsed test *)
Theorem C11_bind_unfit_err : forall p sigs0, fits p sigs0 = false -> exists e, with_signals p sigs0 = Err e.
Proof.
  intros p sigs0 F. apply (decides_err_iff _ _ _ (with_signals_decides p sigs0)).
  destruct (code_ok p sigs0) eqn:C; [|reflexivity].
  apply code_ok_fits in C. destruct C as [C _]. congruence.
Qed.

Theorem C11_bind_iff_fits : forall p sigs0, NoDup (p_signals p) ->
  ((exists tc, with_signals p sigs0 = Ok tc) <-> fits p sigs0 = true).
Proof.
  intros p sigs0 Hnd. rewrite C11_bind_iff_fits_exact. tauto.
Qed.

Theorem C11_bind_error_iff : forall p sigs0, NoDup (p_signals p) ->
  ((exists e, with_signals p sigs0 = Err e) <-> fits p sigs0 = false).
Proof.
  intros p sigs0 Hnd. rewrite (decides_err_iff _ _ _ (with_signals_decides p sigs0)).
  rewrite (code_ok_eq_fits p sigs0 Hnd). tauto.
Qed.

(* ------------------------------------------------------------------ what a bound test satisfies *)

Lemma with_signals_inv_full : forall p sigs0 tc,
  with_signals p sigs0 = Ok tc ->
  check_duplicate_signals p sigs0 = Ok tt
  /\ tc_signals tc = all_sigs p sigs0
  /\ tc_stmts tc = p_stmts p
  /\ build_indices_from p 0 (tc_signals tc) = (tc_input_indices tc, tc_expected_indices tc)
  /\ check_expected_inputs p (tc_signals tc) (p_expected_inputs p) = Ok tt
  /\ build_read_outputs p (tc_signals tc) (p_read_outputs p) = Ok (tc_read_outputs tc).
Proof.
  intros p sigs0 tc H. unfold with_signals in H. fold (all_sigs p sigs0) in H.
  destruct (check_duplicate_signals p sigs0) as [[]|e|site|] eqn:Hd; cbn [rbind] in H; try discriminate.
  unfold build_indices in H.
  destruct (build_indices_from p 0 (all_sigs p sigs0)) as [ins exps] eqn:Hb.
  destruct (check_missing_signals p ins exps) as [u1|e|site|]; cbn [rbind] in H; try discriminate.
  destruct (check_expected_inputs p (all_sigs p sigs0) (p_expected_inputs p))
    as [[]|e|site|] eqn:Hc; cbn [rbind] in H; try discriminate.
  destruct (build_read_outputs p (all_sigs p sigs0) (p_read_outputs p))
    as [reads|e|site|] eqn:Hr; cbn [rbind] in H; try discriminate.
  inversion H; subst tc; clear H.
  cbn [tc_signals tc_stmts tc_input_indices tc_expected_indices tc_read_outputs].
  repeat split; auto.
Qed.

Theorem C11_signals_distinct : forall p sigs0 tc,
  NoDup (map (fun v => fst (fst v)) (p_virtuals p)) ->
  with_signals p sigs0 = Ok tc -> NoDup (map sname (tc_signals tc)).
Proof.
  intros p sigs0 tc Hv H.
  destruct (with_signals_inv_full p sigs0 tc H) as [Hd [Hs _]]. rewrite Hs. unfold all_sigs.
  pose proof (check_duplicate_signals_decides p sigs0) as D.
  destruct (dup_ok p sigs0) eqn:Dk; cbn [decides] in D; [|destruct D as [e He]; congruence].
  unfold dup_ok in Dk. apply andb_true_iff in Dk. destruct Dk as [Dn Dv].
  apply names_distinct_NoDup in Dn. rewrite map_app, map_map. cbn [virtual_signal sname].
  apply NoDup_app_intro; [exact Dn|exact Hv|].
  intros x Hx Hx'. apply in_map_iff in Hx. destruct Hx as [s [Es Hs0]].
  apply in_map_iff in Hx'. destruct Hx' as [v [Ev Hv0]].
  rewrite forallb_forall in Dv. specialize (Dv v Hv0). apply negb_true_iff in Dv.
  assert (T : existsb (fun s => name_eqb (sname s) (fst (fst v))) sigs0 = true); [|congruence].
  apply existsb_exists. exists s. split; [exact Hs0|]. apply name_eqb_eq. congruence.
Qed.

Theorem C11_read_outputs_are_outputs : forall p sigs0 tc,
  with_signals p sigs0 = Ok tc ->
  Forall (fun i => exists s, nth_error (tc_signals tc) i = Some s /\ is_output s = true)
         (tc_read_outputs tc).
Proof.
  intros p sigs0 tc H.
  destruct (with_signals_inv_full p sigs0 tc H) as [_ [_ [_ [_ [_ Hr]]]]].
  eapply build_read_outputs_sound. exact Hr.
Qed.

Theorem C11_expected_indices_distinct : forall p sigs0 tc,
  with_signals p sigs0 = Ok tc ->
  NoDup (map ei_signal_index (tc_expected_indices tc))
  /\ NoDup (map ei_signal_index (tc_input_indices tc)).
Proof.
  intros p sigs0 tc H.
  destruct (with_signals_inv_full p sigs0 tc H) as [_ [_ [_ [Hb _]]]].
  destruct (build_indices_from_NoDup p _ _ _ _ Hb) as [[_ Ni] [_ Nx]]. split; assumption.
Qed.

(* every input index belongs to an input-capable signal, every index to an existing signal,
   and every column index lies inside the header *)
Theorem C11_indices_ok : forall p sigs0 tc,
  with_signals p sigs0 = Ok tc ->
  Forall (index_ok tc (length (p_signals p)) true) (tc_input_indices tc)
  /\ Forall (index_ok tc (length (p_signals p)) false) (tc_expected_indices tc).
Proof.
  intros p sigs0 tc H.
  destruct (with_signals_inv_full p sigs0 tc H) as [_ [_ [_ [Hb _]]]].
  destruct (build_indices_from_In p _ _ _ _ Hb) as [Hi Hx].
  assert (W : forall c k, match mk_index (header_pos p c) k with
                          | EIEntry e _ => e < length (p_signals p) | EIDefault _ => True end).
  { intros c k. destruct (header_pos p c) as [e|] eqn:E; cbn [mk_index]; [|exact I].
    eapply header_pos_lt. exact E. }
  split; apply Forall_forall; intros idx Hin.
  - destruct (Hi idx Hin) as [k [s [Hk [Hs E]]]]. subst idx. split; [apply W|].
    rewrite ei_signal_index_mk_index. cbn [Nat.add]. exists s. split; [exact Hk|].
    intros _. destruct (is_input_default s Hs) as [v Hv]. congruence.
  - destruct (Hx idx Hin) as [k [s [c [Hk E]]]]. subst idx. split; [apply W|].
    rewrite ei_signal_index_mk_index. cbn [Nat.add]. exists s. split; [exact Hk|].
    intro; discriminate.
Qed.

(* a column whose name was recorded by the parser as holding C is an input column *)
Theorem C11_c_columns_are_inputs : forall p sigs0 tc j nm,
  NoDup (p_signals p) ->
  with_signals p sigs0 = Ok tc ->
  nth_error (p_signals p) j = Some nm -> In nm (map fst (p_expected_inputs p)) ->
  entry_is_input tc j = true.
Proof.
  intros p sigs0 tc j nm Hnd H Hj Hin.
  destruct (with_signals_inv_full p sigs0 tc H) as [_ [_ [_ [Hb [Hc _]]]]].
  pose proof (check_expected_inputs_decides p (tc_signals tc) (p_expected_inputs p)) as D.
  destruct (inputs_ok (tc_signals tc) (p_expected_inputs p)) eqn:Ik; cbn [decides] in D;
    [|destruct D as [e He]; congruence].
  unfold inputs_ok in Ik. rewrite forallb_forall in Ik.
  apply in_map_iff in Hin. destruct Hin as [[n at_] [En Hne]]. cbn [fst] in En. subst n.
  specialize (Ik _ Hne). cbn [fst] in Ik. apply existsb_exists in Ik.
  destruct Ik as [s [Hs Hp]]. apply andb_true_iff in Hp. destruct Hp as [Hn Hi].
  apply name_eqb_eq in Hn.
  unfold entry_is_input. rewrite (proj1 (build_indices_from_columns p j _ _ _ _ Hb)).
  apply existsb_exists. exists s. split; [exact Hs|]. unfold in_col. rewrite Hi, Hn.
  rewrite (header_pos_NoDup p nm j Hnd Hj). cbn [opt_is]. apply Nat.eqb_refl.
Qed.

(* the caller's signal list: a virtual signal in it carries a well-formed expression.
   (In the Rust API `VirtualExpr` has a private field and no constructor, so a caller can only
   obtain one from a parsed test, whose expressions are well-formed.) *)
Definition wf_signals (sigs : list signal) : Prop :=
  Forall (fun s => match styp s with TyVirtual e => wf_expr e | _ => True end) sigs.

Theorem C11_bound_is_wf : forall p sigs0 tc,
  wf_parsed p -> wf_signals sigs0 ->
  with_signals p sigs0 = Ok tc ->
  wf_tc tc (length (p_signals p)).
Proof.
  intros p sigs0 tc [Hnd [Hrows [Hex [Hvx _]]]] Hs0 H.
  destruct (with_signals_inv_full p sigs0 tc H) as [_ [Hs [Hst _]]].
  destruct (C11_indices_ok p sigs0 tc H) as [Ii Ix].
  unfold wf_tc. rewrite Hst. repeat split; auto.
  - pose proof (C11_read_outputs_are_outputs p sigs0 tc H) as Hr.
    eapply Forall_impl; [|exact Hr]. cbn beta. intros i [s [Hi _]].
    apply nth_error_Some. congruence.
  - apply (Hrows data H0).
  - intros j Hj. destruct (Hrows data H0) as [_ Hc]. destruct (Hc j Hj) as [nm [Hn Hin]].
    eapply C11_c_columns_are_inputs; eassumption.
  - rewrite Hs. unfold all_sigs. apply Forall_app. split; [exact Hs0|].
    apply Forall_forall. intros s Hin. apply in_map_iff in Hin. destruct Hin as [v [Ev Hv]].
    subst s. cbn [virtual_signal styp]. rewrite Forall_forall in Hvx. apply (Hvx v Hv).
Qed.

(* the hypothesis on the caller's list is needed: see Example caller_virtual_not_wf below *)

(* ================================================================== examples (non-vacuity) *)

Module Example_bind.
  Import Coq.Strings.String.
  Definition nA := s2n "A"%string. Definition nB := s2n "B"%string.
  Definition nY := s2n "Y"%string. Definition nV := s2n "V"%string.
  Definition nQ := s2n "Q"%string.
  Definition sA := {| sname := nA; sbits := 4%N; styp := TyInput (IVal 0%Z) |}.
  Definition sB := {| sname := nB; sbits := 8%N; styp := TyBidir IZ |}.
  Definition sY := {| sname := nY; sbits := 4%N; styp := TyOutput |}.
  Definition sigs := [sA; sB; sY].
  Definition vexpr := EBin Plus (EVar nY) (ENum 1%Z).

  (* header in another order than the signal list; B used as input `B` and as output `B_out`;
     one declared virtual signal V, which also has a column; column A holds C in the row;
     the virtual signal's expression reads output Y *)
  Definition p : parsed :=
    {| p_stmts := [SRow [DNum 1%Z; DZ; DNum 2%Z; DX; DC] 3%N];
       p_signals := [nY; nB ++ out_suffix; nV; nB; nA];
       p_signal_spans := [(0,1); (2,7); (8,9); (10,11); (12,13)]%N;
       p_virtuals := [(nV, vexpr, (20,21)%N)];
       p_expected_inputs := [(nA, (40,41)%N)];
       p_read_outputs := [(nY, (30,31)%N)] |}.

  Definition bound : testcase :=
    {| tc_stmts := p_stmts p;
       tc_signals := [sA; sB; sY; virtual_signal (nV, vexpr, (20,21)%N)];
       tc_input_indices := [EIEntry 4 0; EIEntry 3 1];
       tc_expected_indices := [EIEntry 1 1; EIEntry 0 2; EIEntry 2 3];
       tc_read_outputs := [2] |}.

  Example fit_ok : with_signals p sigs = Ok bound.
  Proof. vm_compute. reflexivity. Qed.
  Example fit_fits : fits p sigs = true.
  Proof. vm_compute. reflexivity. Qed.

  Example fit_wf_parsed : wf_parsed p.
  Proof.
    unfold wf_parsed. repeat split.
    - apply names_distinct_NoDup. vm_compute. reflexivity.
    - cbn in H. destruct H as [H|[]]. subst data. vm_compute. reflexivity.
    - intros j Hj. cbn in H. destruct H as [H|[]]. subst data.
      cbn in Hj. destruct Hj as [Hj|[]]. subst j. exists nA. split; [reflexivity|left; reflexivity].
    - cbn. repeat constructor.
    - cbn. repeat constructor.
    - apply names_distinct_NoDup. vm_compute. reflexivity.
  Qed.

  (* the hypotheses of C11_bound_is_wf are satisfiable, and its conclusion applies to `bound` *)
  Example fit_bound_wf : wf_tc bound 5.
  Proof.
    apply (C11_bound_is_wf p sigs bound fit_wf_parsed); [repeat constructor|exact fit_ok].
  Qed.

  Definition with_header (h : list name) : parsed :=
    {| p_stmts := p_stmts p; p_signals := h; p_signal_spans := p_signal_spans p;
       p_virtuals := p_virtuals p; p_expected_inputs := p_expected_inputs p;
       p_read_outputs := p_read_outputs p |}.
  Definition with_expected_inputs (l : list (name * span)) : parsed :=
    {| p_stmts := p_stmts p; p_signals := p_signals p; p_signal_spans := p_signal_spans p;
       p_virtuals := p_virtuals p; p_expected_inputs := l; p_read_outputs := p_read_outputs p |}.
  Definition with_read_outputs (l : list (name * span)) : parsed :=
    {| p_stmts := p_stmts p; p_signals := p_signals p; p_signal_spans := p_signal_spans p;
       p_virtuals := p_virtuals p; p_expected_inputs := p_expected_inputs p; p_read_outputs := l |}.

  (* 1: two signals with the same name *)
  Example unfit_duplicate_signal :
    with_signals p [sA; sB; sY; sA] = Err (SE_DuplicateSignal nA) /\ fits p [sA; sB; sY; sA] = false.
  Proof. split; vm_compute; reflexivity. Qed.

  (* 2: a signal with the name of a declared virtual signal *)
  Definition sV := {| sname := nV; sbits := 1%N; styp := TyOutput |}.
  Example unfit_virtual_clash :
    with_signals p [sA; sB; sY; sV] = Err (SE_SignalIsVirtual nV (20,21)%N)
    /\ fits p [sA; sB; sY; sV] = false.
  Proof. split; vm_compute; reflexivity. Qed.

  (* 3: a header column that names no signal (Q in column 2; `A_out` for a plain input) *)
  Example unfit_unknown_column :
    with_signals (with_header [nY; nB ++ out_suffix; nQ; nB; nA]) sigs
      = Err (SE_UnknownSignals [nQ] [(8,9)%N])
    /\ fits (with_header [nY; nB ++ out_suffix; nQ; nB; nA]) sigs = false.
  Proof. split; vm_compute; reflexivity. Qed.
  Example unfit_out_of_input :
    with_signals (with_header [nY; nA ++ out_suffix; nV; nB; nA]) sigs
      = Err (SE_UnknownSignals [nA ++ out_suffix] [(2,7)%N])
    /\ fits (with_header [nY; nA ++ out_suffix; nV; nB; nA]) sigs = false.
  Proof. split; vm_compute; reflexivity. Qed.

  (* 4: C in an output column *)
  Example unfit_c_in_output :
    with_signals (with_expected_inputs [(nY, (40,41)%N)]) sigs
      = Err (SE_NotAnInput nY (40,41)%N (0,1)%N)
    /\ fits (with_expected_inputs [(nY, (40,41)%N)]) sigs = false.
  Proof. split; vm_compute; reflexivity. Qed.

  (* 5: an expression reads an input, or a name that is neither variable nor signal *)
  Example unfit_read_input :
    with_signals (with_read_outputs [(nA, (30,31)%N)]) sigs
      = Err (SE_NotAnOutput nA (30,31)%N (12,13)%N)
    /\ fits (with_read_outputs [(nA, (30,31)%N)]) sigs = false.
  Proof. split; vm_compute; reflexivity. Qed.
  Example unfit_read_unknown :
    with_signals (with_read_outputs [(nQ, (30,31)%N)]) sigs
      = Err (SE_UnknownVariableOrSignal nQ (30,31)%N)
    /\ fits (with_read_outputs [(nQ, (30,31)%N)]) sigs = false.
  Proof. split; vm_compute; reflexivity. Qed.

  (* Why C11_bind_iff_fits assumes a header without repeated names: `header_pos` finds the FIRST
     column of a name, so the second column `A` is reported as unknown although it names signal A.
     (`parse` never produces such a header.) *)
  Example repeated_header_name :
    with_signals (with_header [nY; nB ++ out_suffix; nV; nB; nA; nA]) sigs
      = Err (SE_UnknownSignals [nA] [(12,13)%N])
    /\ fits (with_header [nY; nB ++ out_suffix; nV; nB; nA; nA]) sigs = true.
  Proof. split; vm_compute; reflexivity. Qed.

  (* Why C11_bound_is_wf assumes wf_signals of the caller's list: bind does not look inside a
     virtual signal handed in by the caller. *)
  Definition sBad := {| sname := nQ; sbits := 64%N; styp := TyVirtual (EFunc (s2n "nosuch"%string) []) |}.
  Definition p0 : parsed :=
    {| p_stmts := []; p_signals := []; p_signal_spans := []; p_virtuals := [];
       p_expected_inputs := []; p_read_outputs := [] |}.
  Example caller_virtual_not_wf :
    exists tc, with_signals p0 [sBad] = Ok tc /\ wf_parsed p0 /\ ~ wf_tc tc 0.
  Proof.
    eexists. split; [vm_compute; reflexivity|]. split.
    - unfold wf_parsed. cbn. repeat split; try contradiction; constructor.
    - intros [_ [_ [_ [_ [_ W]]]]]. cbn in W. inversion W as [|x l Hx Hl]; subst.
      cbn in Hx. destruct Hx as [Hx _]. vm_compute in Hx. discriminate.
  Qed.
End Example_bind.

Print Assumptions C11_bind_iff_fits.
Print Assumptions C11_bind_iff_fits_exact.
Print Assumptions C11_bind_error_iff.
Print Assumptions C11_bind_never_panics.
Print Assumptions C11_bind_never_oof.
Print Assumptions C11_bound_is_wf.
