(* C10: running an accepted test never panics.
   For every generator, every driver (whatever it answers, whatever its history), both
   write_input variants, from a testcase satisfying wf_tc:
   - the constructor never panics (try_new_no_panic) and establishes the invariant Inv (try_new_inv);
   - every call of Iterator::next preserves Inv and reaches no modelled panic site: 20 (loop
     variable without a value, snext_post), 10/11 (eval), 30-37, 39, the OOF-as-panic conversions
     (inext_no_panic, inext_inv, C10_reachable_never_panics, C10_run_never_panics);
   - the error items next can produce are the driver's errors, expression errors,
     WrongNumberOfOutputs and WrongOutputOrder (inext_error_items).
   - Inv also holds of the state that comes with an ERROR item (inext_inv_all): for an expression
     error that state holds the statement iterator as the failed call left it (Stmt.v, NErr) - a
     loop that was open stays open with its frame and loop variable, nothing was popped - so a
     caller that goes on after errors does not panic either (reachable_e_never_panics,
     run_through_errors_never_panics).
   History: outputs[n] in extract_output_values (former site 38) used to be reachable for a driver
   whose first answer listed a matched output at a position >= the number of matched outputs; the
   crate now uses outputs.get(n) and reports WrongOutputOrder, and the model follows. *)
From DTR Require Import Prelude I64 Ast FramedMap Parser Bind Eval Stmt Iter WfSpec.
From DTR.proofs Require Import FramedMapProof ExpandProof EvalProof StmtRefine.
From Coq Require Import Lia.
Local Open Scope nat_scope.

Local Arguments NYield {C F W} w line it c.
Local Arguments NDone {C F W} it c.
Local Arguments NErr {C F W} f it c.
Local Arguments NPanic {C F W} site.
Local Arguments NOOF {C F W}.
Local Arguments ItNone {DE} st.
Local Arguments ItRow {DE} row st.
Local Arguments ItErr {DE} e st.
Local Arguments ItPanic {DE} s.
Local Arguments ItOOF {DE}.
Local Arguments NewOk {DE} st.
Local Arguments NewErr {DE} e log.
Local Arguments NewPanic {DE} s.

(* ------------------------------------------------------------------ small list facts *)

Lemma nth_error_app_lt : forall A (a b : list A) n, n < length a -> nth_error (a ++ b) n = nth_error a n.
Proof. intros. apply nth_error_app1. assumption. Qed.

Lemma map_r_ok : forall A B (P : A -> B -> Prop) (f : A -> R rterr B) (l : list A),
  Forall (fun x => exists y, f x = Ok y /\ P x y) l ->
  exists ys, map_r f l = Ok ys /\ Forall2 P l ys.
Proof.
  intros A B P f l H. induction H as [|x l [y [Hy Py]] _ IH].
  - exists []. split; [reflexivity|constructor].
  - destruct IH as [ys [Hys Pys]]. exists (y :: ys). split.
    + cbn [map_r]. rewrite Hy. cbn [rbind]. rewrite Hys. reflexivity.
    + constructor; assumption.
Qed.

Lemma Forall2_len : forall A B (P : A -> B -> Prop) l l', Forall2 P l l' -> length l = length l'.
Proof. intros A B P l l' H. induction H; cbn [length]; congruence. Qed.

(* ------------------------------------------------------------------ evaluated entries *)

Definition evald (d : dentry) : Prop :=
  match d with DNum _ | DX | DZ | DC => True | DExpr _ | DBits _ _ => False end.

Lemma bits_entries_length : forall k v, length (bits_entries k v) = k.
Proof. induction k; intro v; simpl; [reflexivity|]. rewrite IHk. reflexivity. Qed.

Lemma bits_entries_num : forall k v d, In d (bits_entries k v) -> exists n, d = DNum n.
Proof.
  induction k; intros v d H; simpl in H; [contradiction|].
  destruct H as [H|H]; [eexists; symmetry; exact H|]. eapply IHk; exact H.
Qed.

Section EVALROW.
Variable G : gen.

Lemma ctx_eval_fields : forall c e c1 r, ctx_eval G c e = (c1, r) ->
  cvars c1 = cvars c /\ calt c1 = calt c /\ couts c1 = couts c.
Proof.
  intros c e c1 r H. unfold ctx_eval in H. destruct (eval G c e (crng c)) as [r0 rng'].
  inversion H; subst. repeat split.
Qed.

Lemma ctx_eval_no_panic : forall c e c1 r, wf_expr e -> ctx_eval G c e = (c1, r) ->
  (forall s, r <> Panic s) /\ r <> OOF.
Proof.
  intros c e c1 r We H. unfold ctx_eval in H.
  pose proof (eval_never_panics G e We c (crng c)) as Hp.
  pose proof (eval_never_oof G e c (crng c)) as Ho.
  destruct (eval G c e (crng c)) as [r0 rng']. simpl in Hp, Ho. inversion H; subst. split; assumption.
Qed.

(* one entry *)
Lemma entry_eval_ok : forall c d c1 r, Forall wf_expr (entry_exprs d) -> entry_eval G c d = (c1, r) ->
  cvars c1 = cvars c /\ calt c1 = calt c /\ couts c1 = couts c /\
  match r with
  | Ok es => length es = entry_width d /\ Forall evald es /\ (In DC es -> d = DC)
  | Err _ => True
  | Panic _ | OOF => False
  end.
Proof.
  intros c d c1 r Hw H.
  assert (Hlit : entry_width d = 1 -> evald d -> (c, @Ok xerr _ [d]) = (c1, r) ->
    cvars c1 = cvars c /\ calt c1 = calt c /\ couts c1 = couts c /\
    match r with
    | Ok es => length es = entry_width d /\ Forall evald es /\ (In DC es -> d = DC)
    | Err _ => True
    | Panic _ | OOF => False
    end).
  { intros W0 V0 X. inversion X; subst. split; [reflexivity|]. split; [reflexivity|]. split; [reflexivity|].
    split; [symmetry; exact W0|]. split; [repeat constructor; exact V0|].
    intros [Y|[]]. exact Y. }
  destruct d as [n|e|k e| | |]; cbn [entry_eval] in H;
    [ apply (Hlit eq_refl I H) | | | apply (Hlit eq_refl I H)
    | apply (Hlit eq_refl I H) | apply (Hlit eq_refl I H) ]; clear Hlit.
  - destruct (ctx_eval G c e) as [c2 r2] eqn:E. inversion H; subst c1 r. clear H.
    inversion Hw as [|? ? We _]; subst.
    destruct (ctx_eval_fields _ _ _ _ E) as (A & B & C).
    destruct (ctx_eval_no_panic _ _ _ _ We E) as (P & O).
    split; [exact A|]. split; [exact B|]. split; [exact C|].
    destruct r2 as [v|x|s|]; [|exact I|exact (P s eq_refl)|exact (O eq_refl)].
    split; [reflexivity|]. split; [repeat constructor|]. intros [X|[]]. discriminate.
  - destruct (ctx_eval G c e) as [c2 r2] eqn:E. inversion H; subst c1 r. clear H.
    inversion Hw as [|? ? We _]; subst.
    destruct (ctx_eval_fields _ _ _ _ E) as (A & B & C).
    destruct (ctx_eval_no_panic _ _ _ _ We E) as (P & O).
    split; [exact A|]. split; [exact B|]. split; [exact C|].
    destruct r2 as [v|x|s|]; [|exact I|exact (P s eq_refl)|exact (O eq_refl)].
    split; [apply bits_entries_length|]. split.
    + apply Forall_forall. intros d Hd. destruct (bits_entries_num _ _ _ Hd) as [n ->]. exact I.
    + intro Hd. destruct (bits_entries_num _ _ _ Hd) as [n X]. discriminate.
Qed.

Lemma row_eval_cons : forall c d r, row_eval G c (d :: r) =
  match entry_eval G c d with
  | (c1, Ok es) => match row_eval G c1 r with (c2, Ok es') => (c2, Ok (es ++ es')) | other => other end
  | (c1, Err x) => (c1, Err x) | (c1, Panic s) => (c1, Panic s) | (c1, OOF) => (c1, OOF)
  end.
Proof. reflexivity. Qed.

(* a whole row; i is the column of the first entry *)
Lemma row_eval_ok : forall data c c' r i, Forall wf_expr (flat_map entry_exprs data) ->
  row_eval G c data = (c', r) ->
  cvars c' = cvars c /\ calt c' = calt c /\ couts c' = couts c /\
  match r with
  | Ok es => length es = row_width data /\ Forall evald es /\
      (forall j, nth_error es j = Some DC -> In (i + j) (c_columns_from i data)) /\
      (forall j, In j (c_columns_from i data) -> i <= j /\ nth_error es (j - i) = Some DC)
  | Err _ => True
  | Panic _ | OOF => False
  end.
Proof.
  induction data as [|d data IH]; intros c c' r i Hw H.
  - cbn in H. inversion H; subst. split; [reflexivity|]. split; [reflexivity|]. split; [reflexivity|].
    split; [reflexivity|]. split; [constructor|]. split.
    + intros j X. destruct j; discriminate.
    + intros j [].
  - rewrite row_eval_cons in H. cbn [flat_map] in Hw. apply Forall_app in Hw. destruct Hw as [Hd Hr].
    destruct (entry_eval G c d) as [c1 r1] eqn:E1.
    destruct (entry_eval_ok _ _ _ _ Hd E1) as (A1 & B1 & C1 & K1).
    destruct r1 as [es1|x|s|]; [|inversion H; subst; auto|contradiction|contradiction].
    destruct K1 as (L1 & F1 & D1).
    destruct (row_eval G c1 data) as [c2 r2] eqn:E2.
    destruct (IH _ _ _ (i + entry_width d) Hr E2) as (A2 & B2 & C2 & K2).
    destruct r2 as [es2|x|s|]; [|inversion H; subst; repeat split; congruence|contradiction|contradiction].
    inversion H; subst c' r. clear H.
    split; [congruence|]. split; [congruence|]. split; [congruence|].
    destruct K2 as (L2 & F2 & D2 & D2').
    split; [rewrite app_length; cbn [row_width]; lia|].
    split; [apply Forall_app; split; assumption|]. split.
    + intros j Hj.
      destruct (Nat.lt_ge_cases j (length es1)) as [Hlt|Hge].
      * rewrite nth_error_app1 in Hj by assumption.
        assert (d = DC) by (apply D1; eapply nth_error_In; eassumption). subst d.
        cbn in L1. cbn [c_columns_from]. assert (j = 0) by lia. subst j. left. lia.
      * rewrite nth_error_app2 in Hj by assumption. apply D2 in Hj.
        replace (i + entry_width d + (j - length es1)) with (i + j) in Hj by lia.
        destruct d; cbn [c_columns_from]; try exact Hj.
        right. cbn [entry_width] in Hj. replace (S i) with (i + 1) by lia. exact Hj.
    + intros j Hj.
      assert (Hcase : (d = DC /\ j = i) \/ In j (c_columns_from (i + entry_width d) data)).
      { destruct d; cbn [c_columns_from] in Hj; try (right; exact Hj).
        destruct Hj as [Hj|Hj]; [left; split; [reflexivity|symmetry; exact Hj]|].
        right. cbn [entry_width]. replace (i + 1) with (S i) by lia. exact Hj. }
      destruct Hcase as [[-> ->]|Hin].
      * split; [lia|]. cbn [entry_eval] in E1. inversion E1; subst. rewrite Nat.sub_diag. reflexivity.
      * apply D2' in Hin. destruct Hin as [Hle Hn]. split; [lia|].
        rewrite nth_error_app2 by lia. rewrite <- Hn. f_equal. lia.
Qed.

End EVALROW.

(* ================================================================== the iterator *)

Section NOPANIC.
Variable tc : testcase.
Variable width : nat.
Hypothesis Hwf : wf_tc tc width.

Local Notation inp := (entry_is_input tc).

(* ------------------------------------------------------------------ (i) rows in the cache *)

(* an evaluated row of the right width; C only in input columns *)
Definition good_entries (es : list dentry) : Prop :=
  length es = width /\
  forall j d, nth_error es j = Some d -> evald d /\ (d = DC -> inp j = true).

Definition good_row (row : dentries) : Prop := good_entries (de_entries row).

(* a row that can be handed to the driver: no X and no C left in input columns *)
Definition ready_entries (es : list dentry) : Prop :=
  good_entries es /\
  forall j d, nth_error es j = Some d -> inp j = true -> d <> DX /\ d <> DC.

Lemma good_mapi : forall (F : nat -> dentry -> dentry) es,
  (forall j x, evald x -> (x = DC -> inp j = true) -> evald (F j x) /\ (F j x = DC -> inp j = true)) ->
  good_entries es -> good_entries (mapi F es).
Proof.
  intros F es HF [Hl Hg]. split; [rewrite mapi_length; exact Hl|].
  intros j d Hn. rewrite mapi_nth in Hn. destruct (nth_error es j) as [x|] eqn:E; [|discriminate].
  cbn in Hn. inversion Hn; subst. destruct (Hg j x E) as [A B]. apply HF; assumption.
Qed.

Lemma good_set_num : forall es i n, good_entries es -> good_entries (list_set es i (DNum n)).
Proof.
  intros es i n H. rewrite list_set_mapi. apply good_mapi; [|exact H].
  intros j x A B. destruct (Nat.eqb j i); [split; [exact I|discriminate]|split; assumption].
Qed.

Lemma good_set_all_num : forall es cs n, good_entries es -> good_entries (Iter.set_all es cs (DNum n)).
Proof.
  intros es cs n H. rewrite set_all_mapi. apply good_mapi; [|exact H].
  intros j x A B. destruct (memb j cs); [split; [exact I|discriminate]|split; assumption].
Qed.

Lemma good_blank : forall es, good_entries es -> good_entries (blank_expected tc es).
Proof.
  intros es H. rewrite blank_expected_blank. unfold ExpandSpec.blank. apply good_mapi; [|exact H].
  intros j x A B. destruct (pure_expected_col tc j); [split; [exact I|discriminate]|split; assumption].
Qed.

Lemma expand_x_good : forall f cache cache', Forall good_row cache ->
  expand_x tc f cache = Ok cache' -> Forall good_row cache'.
Proof.
  induction f as [|f IH]; intros cache cache' Hg H; [discriminate|].
  destruct cache as [|row rest]; [discriminate|]. rewrite expand_x_S_cons in H.
  destruct (find_x_from tc 0 (de_entries row)) as [i|].
  - apply IH in H; [exact H|]. inversion Hg; subst.
    constructor; [|constructor]; try assumption; unfold good_row, set_entry; cbn [de_entries];
      apply good_set_num; assumption.
  - inversion H; subst. exact Hg.
Qed.

Lemma dentry_eqb_DX : forall d, dentry_eqb d DX = false -> d <> DX.
Proof. intros d H E. subst. discriminate. Qed.
Lemma dentry_eqb_DC : forall d, dentry_eqb d DC = false -> d <> DC.
Proof. intros d H E. subst. discriminate. Qed.

Lemma expand_c_good : forall top rest,
  Forall good_row (top :: rest) ->
  ExpandSpec.cols_holding inp DX (de_entries top) = [] ->
  exists first rest', expand_c tc (top :: rest) = Ok (first :: rest') /\
    Forall good_row rest' /\ ready_entries (de_entries first).
Proof.
  intros top rest Hg Hx. inversion Hg as [|? ? Gt Gr]; subst.
  pose proof (proj1 (cols_nil_iff tc DX _) Hx) as Hx'.
  unfold expand_c. rewrite c_indices_cols.
  destruct (ExpandSpec.cols_holding inp DC (de_entries top)) as [|c0 cs0] eqn:Ec.
  - exists top, rest. split; [reflexivity|]. split; [exact Gr|]. split; [exact Gt|].
    pose proof (proj1 (cols_nil_iff tc DC _) Ec) as Hc'.
    intros j d Hn Hi. specialize (Hx' j d Hn). specialize (Hc' j d Hn).
    rewrite Hi, andb_true_r in Hx', Hc'. split; [apply dentry_eqb_DX|apply dentry_eqb_DC]; assumption.
  - rewrite <- Ec. set (cs := ExpandSpec.cols_holding inp DC (de_entries top)) in *.
    eexists. eexists. split; [reflexivity|].
    assert (G0 : good_entries (Iter.set_all (de_entries top) cs (DNum 0)))
      by (apply good_set_all_num; exact Gt).
    assert (G1 : good_entries (Iter.set_all (blank_expected tc (Iter.set_all (de_entries top) cs (DNum 0))) cs (DNum 1)))
      by (apply good_set_all_num, good_blank; exact G0).
    assert (G2 : good_entries (Iter.set_all (Iter.set_all (blank_expected tc (Iter.set_all (de_entries top) cs (DNum 0))) cs (DNum 1)) cs (DNum 0)))
      by (apply good_set_all_num; exact G1).
    split; [constructor; [exact G1|constructor; [exact G0|exact Gr]]|].
    cbn [de_entries]. split; [exact G2|].
    intros j d Hn Hi.
    rewrite blank_expected_blank in Hn. unfold ExpandSpec.blank in Hn.
    rewrite !set_all_mapi in Hn. rewrite !mapi_nth in Hn.
    destruct (nth_error (de_entries top) j) as [x|] eqn:En; [|discriminate]. cbn in Hn.
    destruct (memb j cs) eqn:Em; [inversion Hn; subst; split; discriminate|].
    assert (Hp : pure_expected_col tc j = false) by (unfold pure_expected_col; rewrite Hi; apply andb_false_r).
    rewrite Hp in Hn. inversion Hn; subst d.
    specialize (Hx' j x En). rewrite Hi, andb_true_r in Hx'.
    unfold cs in Em. rewrite cols_memb, En, Hi, andb_true_r in Em.
    split; [apply dentry_eqb_DX|apply dentry_eqb_DC]; assumption.
Qed.

Lemma prepare_cache_good : forall row rest, Forall good_row (row :: rest) ->
  exists top rest', prepare_cache tc (row :: rest) = Ok (top :: rest') /\
    Forall good_row rest' /\ ready_entries (de_entries top).
Proof.
  intros row rest Hg. unfold prepare_cache.
  destruct (expand_x_spec tc (S (length (de_entries row))) row rest) as (t & m & He & _ & Hx & _).
  - pose proof (cols_from_length_le tc DX (de_entries row) 0). unfold ExpandSpec.cols_holding. lia.
  - rewrite He. cbn [rbind]. apply expand_c_good; [|exact Hx].
    eapply expand_x_good; [exact Hg|exact He].
Qed.

(* ------------------------------------------------------------------ entries for the driver *)

Lemma wf_inputs : Forall (index_ok tc width true) (tc_input_indices tc).
Proof. exact (proj1 Hwf). Qed.
Lemma wf_expected : Forall (index_ok tc width false) (tc_expected_indices tc).
Proof. exact (proj1 (proj2 Hwf)). Qed.

Lemma input_index_is_input : forall e s, In (EIEntry e s) (tc_input_indices tc) -> inp e = true.
Proof.
  intros e s H. unfold entry_is_input. apply existsb_exists. exists (EIEntry e s).
  split; [exact H|]. cbn. apply Nat.eqb_refl.
Qed.

Lemma check_changed_length : forall prev es,
  match prev with Some p => length p = length es | None => True end ->
  length (check_changed_entries prev es) = length es.
Proof.
  intros [p|] es H; unfold check_changed_entries; rewrite map_length; [|reflexivity].
  rewrite combine_length. lia.
Qed.

Lemma nth_error_lt_Some : forall A (l : list A) n, n < length l -> exists x, nth_error l n = Some x.
Proof.
  intros A l n H. destruct (nth_error l n) as [x|] eqn:E; [exists x; reflexivity|].
  apply nth_error_None in E. lia.
Qed.

Lemma default_entry_ok : forall si s, nth_error (tc_signals tc) si = Some s -> default_value s <> None ->
  exists y, default_entry tc si = Ok y.
Proof.
  intros si s Hs Hd. unfold default_entry, get_signal, signals. rewrite Hs. cbn [rbind].
  destruct (default_value s) as [v|]; [eexists; reflexivity|congruence].
Qed.

Lemma generate_input_entries_ok : forall es changed, ready_entries es -> length changed = width ->
  exists ins, generate_input_entries tc es changed = Ok ins.
Proof.
  intros es changed [[Hl Hg] Hr] Hc. unfold generate_input_entries.
  match goal with |- exists ins, map_r ?f ?l = _ =>
    destruct (map_r_ok _ _ (fun _ _ => True) f l) as [ys [Hys _]]; [|exists ys; exact Hys] end.
  apply Forall_forall. intros idx Hin.
  pose proof (proj1 (Forall_forall _ _) wf_inputs idx Hin) as [Hlt [s [Hs Hd]]].
  specialize (Hd eq_refl).
  destruct idx as [e si|si]; cbn [ei_signal_index] in Hs.
  - unfold get_signal, signals. rewrite Hs. cbn [rbind].
    destruct (nth_error_lt_Some _ es e ltac:(lia)) as [d Hn]. rewrite Hn.
    destruct (nth_error_lt_Some _ changed e ltac:(lia)) as [ch Hch]. rewrite Hch.
    destruct (Hg e d Hn) as [Hv _].
    destruct (Hr e d Hn (input_index_is_input e si Hin)) as [Nx Nc].
    destruct d; try contradiction; try congruence; cbn [rbind]; (eexists; split; [reflexivity|exact I]).
  - destruct (default_entry_ok si s Hs Hd) as [y Hy]. exists y. split; [exact Hy|exact I].
Qed.

Lemma generate_expected_entries_ok : forall es, ready_entries es ->
  exists xs, generate_expected_entries tc es = Ok xs.
Proof.
  intros es [[Hl Hg] Hr]. unfold generate_expected_entries.
  match goal with |- exists ins, map_r ?f ?l = _ =>
    destruct (map_r_ok _ _ (fun _ _ => True) f l) as [ys [Hys _]]; [|exists ys; exact Hys] end.
  apply Forall_forall. intros idx Hin.
  pose proof (proj1 (Forall_forall _ _) wf_expected idx Hin) as [Hlt [s [Hs _]]].
  destruct idx as [e si|si]; cbn [ei_signal_index] in Hs; unfold get_signal, signals; rewrite Hs; cbn [rbind].
  - destruct (nth_error_lt_Some _ es e ltac:(lia)) as [d Hn]. rewrite Hn.
    destruct (Hg e d Hn) as [Hv Hc].
    destruct d; try contradiction; try (eexists; split; [reflexivity|exact I]).
    exfalso. destruct (Hr e DC Hn (Hc eq_refl)) as [_ Nc]. congruence.
  - eexists; split; [reflexivity|exact I].
Qed.

(* ------------------------------------------------------------------ the constructor *)

Lemma generate_default_input_entries_ok : exists ins, generate_default_input_entries tc = Ok ins.
Proof.
  unfold generate_default_input_entries.
  match goal with |- exists ins, map_r ?f ?l = _ =>
    destruct (map_r_ok _ _ (fun _ _ => True) f l) as [ys [Hys _]]; [|exists ys; exact Hys] end.
  apply Forall_forall. intros idx Hin.
  pose proof (proj1 (Forall_forall _ _) wf_inputs idx Hin) as [_ [s [Hs Hd]]].
  destruct (default_entry_ok _ s Hs (Hd eq_refl)) as [y Hy]. exists y. split; [exact Hy|exact I].
Qed.

Lemma wf_virtual_signals : forall i s e, nth_error (tc_signals tc) i = Some s -> styp s = TyVirtual e -> wf_expr e.
Proof.
  intros i s e Hs Ht. destruct Hwf as (_ & _ & _ & _ & _ & Hv).
  pose proof (proj1 (Forall_forall _ _) Hv s (nth_error_In _ _ Hs)) as H. cbv beta in H. rewrite Ht in H. exact H.
Qed.

Definition oi_ok (o : out_index) : Prop :=
  match o with OIVirtual e => wf_expr e | _ => True end.

(* what the constructor establishes about every index, for the answer `outs` it was given *)
Definition oi_ok_for (outs : list out_entry) (o : out_index) : Prop :=
  match o with OIVirtual e => wf_expr e | OIOutput n => n < length outs | OINone => True end.

Lemma build_output_indices_ok : forall outs,
  match build_output_indices tc outs with
  | Ok oi => length oi = length (tc_expected_indices tc) /\ Forall (oi_ok_for outs) oi
  | Err _ => True
  | Panic _ | OOF => False
  end.
Proof.
  intro outs. unfold build_output_indices.
  match goal with |- match rbind (map_r ?f ?l) _ with _ => _ end =>
    destruct (map_r_ok _ _ (fun _ (y : out_index * option nat) => oi_ok_for outs (fst y)) f l) as [ys [Hys Pys]] end.
  { apply Forall_forall. intros idx Hin.
    pose proof (proj1 (Forall_forall _ _) wf_expected idx Hin) as [_ [s [Hs _]]].
    unfold get_signal, signals. rewrite Hs. cbn [rbind].
    destruct (styp s) as [dv| |dv|e] eqn:Et;
      try (destruct (position (fun o => signal_eqb (oe_sig o) s) outs) eqn:Ep;
           (eexists; split; [reflexivity|]); cbn; try exact I;
           eapply position_Some_lt; exact Ep).
    eexists; split; [reflexivity|]. cbn. eapply wf_virtual_signals; eassumption. }
  rewrite Hys. cbn [rbind].
  match goal with |- match rbind (map_r ?f ?l) _ with _ => _ end =>
    destruct (map_r_ok _ _ (fun _ _ => True) f l) as [ms [Hms _]] end.
  { apply Forall_forall. intros rd Hin.
    destruct Hwf as (_ & _ & Hrd & _).
    pose proof (proj1 (Forall_forall _ _) Hrd rd Hin) as Hlt.
    destruct (nth_error_lt_Some _ (tc_signals tc) rd Hlt) as [s Hs].
    destruct (existsb (Nat.eqb rd) _); [eexists; split; [reflexivity|exact I]|].
    unfold get_signal, signals. rewrite Hs. cbn [rbind]. eexists; split; [reflexivity|exact I]. }
  rewrite Hms. cbn [rbind]. destruct (concat ms); [|exact I].
  split.
  - rewrite map_length. symmetry. eapply Forall2_len; exact Pys.
  - clear Hys Hms. induction Pys; cbn [map]; constructor; assumption.
Qed.

(* ------------------------------------------------------------------ (iii),(iv) reading the answer *)

Definition outidx_ok (oi : list out_index) : Prop :=
  length oi = length (tc_expected_indices tc) /\
  Forall oi_ok oi.

(* the runtime errors that can occur once the iterator has been constructed *)
Definition rterr_after_new (e : rterr) : Prop :=
  match e with
  | RT_Expr _ | RT_WrongNumberOfOutputs _ _ | RT_WrongOutputOrder => True
  | RT_MissingOutputs _ => False
  end.

(* no panic, no fuel exhaustion, and only those errors *)
Definition panic_free {A} (r : R rterr A) : Prop :=
  match r with Ok _ => True | Err e => rterr_after_new e | Panic _ | OOF => False end.

Section EXTRACT.
Variable G : gen.

Lemma extract_loop_ok : forall pairs outs c c' r,
  (forall idx o, In (idx, o) pairs -> index_ok tc width false idx /\ oi_ok o) ->
  extract_loop G tc pairs outs c = (c', r) ->
  cvars c' = cvars c /\ calt c' = calt c /\ panic_free r.
Proof.
  unfold panic_free.
  induction pairs as [|[idx o] pairs IH]; intros outs c c' r Hp H.
  - cbn in H. inversion H; subst. repeat split.
  - destruct (Hp idx o (or_introl eq_refl)) as ([_ [s [Hs _]]] & Ho).
    assert (Hp' : forall idx o, In (idx, o) pairs -> index_ok tc width false idx /\ oi_ok o)
      by (intros; apply Hp; right; assumption).
    cbn [extract_loop] in H.
    destruct o as [|n|e].
    + destruct (extract_loop G tc pairs outs c) as [c2 r2] eqn:E2.
      destruct (IH _ _ _ _ Hp' E2) as (A & B & K).
      destruct r2; inversion H; subst; (split; [assumption|split; [assumption|exact K]]).
    + unfold get_signal, signals in H. rewrite Hs in H.
      destruct (nth_error outs n) as [oe|] eqn:Hoe.
      2:{ (* outputs.get(n) = None: an error item, no longer a panic *)
          inversion H; subst. split; [reflexivity|]. split; [reflexivity|exact I]. }
      destruct (signal_eqb s (oe_sig oe)).
      * destruct (extract_loop G tc pairs outs c) as [c2 r2] eqn:E2.
        destruct (IH _ _ _ _ Hp' E2) as (A & B & K).
        destruct r2; inversion H; subst; (split; [assumption|split; [assumption|exact K]]).
      * inversion H; subst. repeat split.
    + destruct (ctx_eval G c e) as [c1 v] eqn:E1.
      destruct (ctx_eval_fields _ _ _ _ _ E1) as (A1 & B1 & _).
      destruct (ctx_eval_no_panic _ _ _ _ _ Ho E1) as (P1 & O1).
      destruct v as [z|x|sp|]; [|inversion H; subst; repeat split; assumption
                                |exfalso; exact (P1 sp eq_refl)|exfalso; exact (O1 eq_refl)].
      destruct (extract_loop G tc pairs outs c1) as [c2 r2] eqn:E2.
      destruct (IH _ _ _ _ Hp' E2) as (A & B & K).
      destruct r2; inversion H; subst; (split; [congruence|split; [congruence|exact K]]).
Qed.

Lemma extract_output_values_ok : forall nout oi outs c c' r, outidx_ok oi ->
  extract_output_values G tc nout oi outs c = (c', r) ->
  cvars c' = cvars c /\ calt c' = calt c /\ panic_free r.
Proof.
  intros nout oi outs c c' r (Hl & Hv) H. unfold extract_output_values in H.
  destruct (Nat.eqb (length outs) nout) eqn:El; cbn [negb] in H.
  - destruct (extract_loop G tc (combine (tc_expected_indices tc) oi) outs (ctx_swap_vars c)) as [c1 r1] eqn:E.
    inversion H; subst c' r. clear H.
    assert (Hp : forall idx o, In (idx, o) (combine (tc_expected_indices tc) oi) ->
              index_ok tc width false idx /\ oi_ok o).
    { intros idx o Hin. split.
      * exact (proj1 (Forall_forall _ _) wf_expected idx (in_combine_l _ _ _ _ Hin)).
      * exact (proj1 (Forall_forall _ _) Hv o (in_combine_r _ _ _ _ Hin)). }
    destruct (extract_loop_ok _ _ _ _ _ Hp E) as (A & B & K).
    cbn [ctx_swap_vars cvars calt] in *. repeat split; assumption.
  - inversion H; subst. repeat split.
Qed.

End EXTRACT.

(* ------------------------------------------------------------------ (v) the statement iterator *)

(* the bodies of loop and while statements, seen through the walkers of WfSpec *)
Lemma loop_rows_go : forall body,
  (fix go (l : list stmt) : list (list dentry) :=
     match l with [] => [] | x :: r => stmt_rows x ++ go r end) body = rows_of body.
Proof. induction body as [|x r IH]; [reflexivity|]. unfold rows_of in *. cbn [flat_map]. rewrite <- IH. reflexivity. Qed.

Lemma loop_exprs_go : forall body,
  (fix go (l : list stmt) : list expr :=
     match l with [] => [] | x :: r => stmt_exprs x ++ go r end) body = exprs_of body.
Proof. induction body as [|x r IH]; [reflexivity|]. unfold exprs_of in *. cbn [flat_map]. rewrite <- IH. reflexivity. Qed.

Definition rows_ok (rows : list (list dentry)) : Prop :=
  forall data, In data rows -> row_width data = width /\ forall j, In j (c_columns data) -> inp j = true.

Definition stmts_ok (ss : list stmt) : Prop :=
  Forall wf_expr (exprs_of ss) /\ rows_ok (rows_of ss).

Lemma stmts_ok_tc : stmts_ok (tc_stmts tc).
Proof. destruct Hwf as (_ & _ & _ & Hr & He & _). split; [exact He|exact Hr]. Qed.

Lemma stmts_ok_nil : stmts_ok [].
Proof. split; [constructor|]. intros d []. Qed.

Lemma stmts_ok_cons : forall s r, stmts_ok (s :: r) ->
  (Forall wf_expr (stmt_exprs s) /\ rows_ok (stmt_rows s)) /\ stmts_ok r.
Proof.
  intros s r [He Hr]. unfold exprs_of, rows_of in *. cbn [flat_map] in *.
  apply Forall_app in He. destruct He as [He1 He2].
  split; split; try assumption; intros d Hd; apply Hr; apply in_or_app; [left|right]; exact Hd.
Qed.

Definition row_ok (d : list dentry) : Prop :=
  Forall wf_expr (flat_map entry_exprs d) /\ row_width d = width /\
  forall j, In j (c_columns d) -> inp j = true.

Lemma stmts_ok_let : forall x e r, stmts_ok (SLet x e :: r) -> wf_expr e /\ stmts_ok r.
Proof.
  intros x e r H. apply stmts_ok_cons in H. destruct H as [[He _] Hr]. split; [|exact Hr].
  cbn in He. inversion He; assumption.
Qed.

Lemma stmts_ok_row : forall d l r, stmts_ok (SRow d l :: r) -> row_ok d /\ stmts_ok r.
Proof.
  intros d l r H. apply stmts_ok_cons in H. destruct H as [[He Hd] Hr]. split; [|exact Hr].
  cbn [stmt_exprs stmt_rows] in *. split; [exact He|]. apply Hd. left. reflexivity.
Qed.

Lemma stmts_ok_loop : forall v e body r, stmts_ok (SLoop v e body :: r) ->
  wf_expr e /\ stmts_ok body /\ stmts_ok r.
Proof.
  intros v e body r H. apply stmts_ok_cons in H. destruct H as [[He Hd] Hr].
  cbn [stmt_exprs stmt_rows] in *. rewrite loop_exprs_go in He. rewrite loop_rows_go in Hd.
  inversion He; subst. split; [assumption|]. split; [|exact Hr]. split; assumption.
Qed.

Lemma stmts_ok_while : forall e body r, stmts_ok (SWhile e body :: r) ->
  wf_expr e /\ stmts_ok body /\ stmts_ok r.
Proof.
  intros e body r H. apply stmts_ok_cons in H. destruct H as [[He Hd] Hr].
  cbn [stmt_exprs stmt_rows] in *. rewrite loop_exprs_go in He. rewrite loop_rows_go in Hd.
  inversion He; subst. split; [assumption|]. split; [|exact Hr]. split; assumption.
Qed.

Lemma stmts_ok_reset : forall r, stmts_ok (SReset :: r) -> stmts_ok r.
Proof. intros r H. apply stmts_ok_cons in H. exact (proj2 H). Qed.

(* every statement the iterator still holds is well-formed *)
Fixpoint it_ok (it : siter) : Prop :=
  match it with SI rest st =>
    stmts_ok rest /\
    match st with
    | Iterate => True
    | StartLoop ls | StartInner ls | EndInner ls => stmts_ok (lbody ls)
    | IterInner inner ls => stmts_ok (lbody ls) /\ it_ok inner
    | StartWhile ws => wf_expr (wcond ws) /\ stmts_ok (wbody ws)
    | WhileInner inner ws => wf_expr (wcond ws) /\ stmts_ok (wbody ws) /\ it_ok inner
    end
  end.

(* the loop variables of the loops that are open (a frame has been pushed for each),
   outermost first *)
Fixpoint loopvars (it : siter) : list name :=
  match it with SI _ st =>
    match st with
    | Iterate | StartLoop _ | StartWhile _ => []
    | StartInner ls | EndInner ls => [lvar ls]
    | IterInner inner ls => lvar ls :: loopvars inner
    | WhileInner inner _ => loopvars inner
    end
  end.

Definition frame := list (name * Z).
Definition binds (g : frame) (x : name) : Prop := In x (map fst g).
Definition ext (f f' : frame) : Prop := forall x, binds f x -> binds f' x.

Lemma ext_refl : forall f, ext f f.
Proof. intros f x H. exact H. Qed.
Lemma ext_trans : forall f g h, ext f g -> ext g h -> ext f h.
Proof. intros f g h A B x H. apply B, A, H. Qed.

Lemma set_assoc_keys : forall (k : name) (v : Z) (l : frame) y,
  In y (map fst (set_assoc k v l)) <-> y = k \/ In y (map fst l).
Proof.
  induction l as [|[k' v'] l IH]; intro y; cbn [set_assoc map fst In].
  - split; [intros [H|[]]; left; symmetry; exact H|intros [H|[]]; left; symmetry; exact H].
  - destruct (name_eqb k' k) eqn:E; cbn [map fst In].
    + apply name_eqb_eq in E. subst k'. split.
      * intros [H|H]; [left; symmetry; exact H|right; right; exact H].
      * intros [H|[H|H]]; [left; symmetry; exact H|left; exact H|right; exact H].
    + rewrite IH. tauto.
Qed.

Lemma binds_set_same : forall g x v, binds (set_assoc x v g) x.
Proof. intros. apply set_assoc_keys. left. reflexivity. Qed.
Lemma ext_set : forall g x v, ext g (set_assoc x v g).
Proof. intros g x v y H. apply set_assoc_keys. right. exact H. Qed.

(* the frames of the context, innermost first: one frame for each open loop, binding its
   loop variable; then the frame `own` in which the iterator itself runs; then `base` *)
Definition frames_ok (it : siter) (c : ctx) (own : frame) (base : list frame) : Prop :=
  exists fr, abs (cvars c) = fr ++ own :: base /\ Forall2 binds fr (rev (loopvars it)).

Lemma frames_ok_cvars : forall it c c' own base, cvars c' = cvars c ->
  frames_ok it c own base -> frames_ok it c' own base.
Proof. intros it c c' own base E [fr H]. exists fr. rewrite E. exact H. Qed.

Section SNEXT.
Variable G : gen.

Lemma lift_eval_ok : forall c e c1 r, wf_expr e -> lift_eval G c e = (c1, r) ->
  cvars c1 = cvars c /\ calt c1 = calt c /\
  match r with inr (XFPanic _) => False | _ => True end.
Proof.
  intros c e c1 r We H. unfold lift_eval in H. destruct (ctx_eval G c e) as [c2 r2] eqn:E.
  destruct (ctx_eval_fields _ _ _ _ _ E) as (A & B & _).
  destruct (ctx_eval_no_panic _ _ _ _ _ We E) as (P & O).
  inversion H; subst. split; [exact A|]. split; [exact B|].
  destruct r2 as [v|x|s|]; [exact I|exact I|exact (P s eq_refl)|exact (O eq_refl)].
Qed.

Lemma lift_row_eval_ok : forall c d c1 r, row_ok d -> lift_row_eval G c d = (c1, r) ->
  cvars c1 = cvars c /\ calt c1 = calt c /\
  match r with inl w => good_entries w | inr (XFPanic _) => False | inr (XFErr _) => True end.
Proof.
  intros c d c1 r (We & Hwd & Hc) H. unfold lift_row_eval in H.
  destruct (row_eval G c d) as [c2 r2] eqn:E.
  destruct (row_eval_ok G d c c2 r2 0 We E) as (A & B & _ & K).
  inversion H; subst. split; [exact A|]. split; [exact B|].
  destruct r2 as [es|x|s|]; [|exact I|exact K|exact K].
  destruct K as (L & F & D & _). split; [congruence|].
  intros j e Hn. split.
  - exact (proj1 (Forall_forall _ _) F e (nth_error_In _ _ Hn)).
  - intros ->. apply Hc. exact (D j Hn).
Qed.

Definition post (c : ctx) (own : frame) (base : list frame) (r : nres ctx xfail (list dentry)) : Prop :=
  match r with
  | NYield w l it' c' =>
      wf (cvars c') /\ calt c' = calt c /\ it_ok it' /\ good_entries w /\
      exists own', ext own own' /\ frames_ok it' c' own' base
  | NDone it' c' =>
      wf (cvars c') /\ calt c' = calt c /\ it_ok it' /\ loopvars it' = [] /\
      exists own', ext own own' /\ abs (cvars c') = own' :: base
  (* an evaluation error: the iterator the failed call leaves behind (Stmt.v) still holds
     well-formed statements only and nothing was popped: every open loop still owns its
     frame and that frame still binds the loop variable *)
  | NErr (XFErr _) it' c' =>
      wf (cvars c') /\ calt c' = calt c /\ it_ok it' /\
      exists own', ext own own' /\ frames_ok it' c' own' base
  | NErr (XFPanic _) _ _ => False
  | NPanic _ => False
  | NOOF => True
  end.

Lemma post_weaken : forall c c2 own own2 base r,
  calt c2 = calt c -> ext own own2 -> post c2 own2 base r -> post c own base r.
Proof.
  intros c c2 own own2 base r Hc He H. destruct r as [w l it' c'|it' c'|x it' c'|s|]; cbn [post] in *; try exact H.
  - destruct H as (A & B & C & D & own' & E & F).
    split; [exact A|]. split; [congruence|]. split; [exact C|]. split; [exact D|].
    exists own'. split; [eapply ext_trans; eassumption|exact F].
  - destruct H as (A & B & C & D & own' & E & F).
    split; [exact A|]. split; [congruence|]. split; [exact C|]. split; [exact D|].
    exists own'. split; [eapply ext_trans; eassumption|exact F].
  - destruct x as [xe|sp]; [|exact H].
    destruct H as (A & B & C & own' & E & F).
    split; [exact A|]. split; [congruence|]. split; [exact C|].
    exists own'. split; [eapply ext_trans; eassumption|exact F].
Qed.

Lemma frames_nil : forall it c own base, frames_ok it c own base -> loopvars it = [] ->
  abs (cvars c) = own :: base.
Proof. intros it c own base [fr [Ha Hb]] E. rewrite E in Hb. inversion Hb; subst. exact Ha. Qed.

Lemma frames_nil_intro : forall it c own base, loopvars it = [] -> abs (cvars c) = own :: base ->
  frames_ok it c own base.
Proof. intros it c own base E Ha. exists []. rewrite E. split; [exact Ha|constructor]. Qed.

Lemma frames_one : forall it c own base x, frames_ok it c own base -> loopvars it = [x] ->
  exists g, binds g x /\ abs (cvars c) = g :: own :: base.
Proof.
  intros it c own base x [fr [Ha Hb]] E. rewrite E in Hb. cbn in Hb.
  inversion Hb as [|g ? fr' ? Hg Hr]; subst. inversion Hr; subst. exists g. split; [exact Hg|exact Ha].
Qed.

Lemma frames_one_intro : forall it c own base x g, loopvars it = [x] -> binds g x ->
  abs (cvars c) = g :: own :: base -> frames_ok it c own base.
Proof.
  intros it c own base x g E Hg Ha. exists [g]. rewrite E. split; [exact Ha|].
  cbn. constructor; [exact Hg|constructor].
Qed.

(* the context operations, on the abstract frames *)
Lemma ctx_set_frames : forall c x v top rest, wf (cvars c) -> abs (cvars c) = top :: rest ->
  wf (cvars (ctx_set c x v)) /\ calt (ctx_set c x v) = calt c /\
  abs (cvars (ctx_set c x v)) = set_assoc x v top :: rest.
Proof.
  intros c x v top rest Hw Ha. cbn [ctx_set ctx_with_vars cvars calt].
  split; [apply wf_set; exact Hw|]. split; [reflexivity|].
  rewrite (abs_set _ x v Hw), Ha. reflexivity.
Qed.

Lemma ctx_push_frames : forall c, wf (cvars c) ->
  wf (cvars (ctx_push_frame c)) /\ calt (ctx_push_frame c) = calt c /\
  abs (cvars (ctx_push_frame c)) = [] :: abs (cvars c).
Proof.
  intros c Hw. cbn [ctx_push_frame ctx_with_vars cvars calt].
  split; [apply wf_push; exact Hw|]. split; [reflexivity|]. rewrite (abs_push _ Hw). reflexivity.
Qed.

Lemma ctx_pop_frames : forall c g own base, wf (cvars c) -> abs (cvars c) = g :: own :: base ->
  wf (cvars (ctx_pop_frame c)) /\ calt (ctx_pop_frame c) = calt c /\
  abs (cvars (ctx_pop_frame c)) = own :: base.
Proof.
  intros c g own base Hw Ha. cbn [ctx_pop_frame ctx_with_vars cvars calt].
  split; [apply wf_pop; exact Hw|]. split; [reflexivity|]. rewrite (abs_pop _ Hw), Ha. reflexivity.
Qed.

Lemma loop_var_present : forall c x g rest, wf (cvars c) -> abs (cvars c) = g :: rest -> binds g x ->
  exists v, loop_var_value c x = Some v.
Proof.
  intros c x g rest Hw Ha Hb. unfold loop_var_value, ctx_get.
  rewrite (get_abs _ x Hw), Ha. cbn [lookup].
  destruct (assoc x g) as [v|] eqn:E; [exists v; reflexivity|].
  apply assoc_None_iff in E. contradiction.
Qed.

(* an evaluation error in a state without open loops of its own (Iterate, StartWhile):
   only the generator of the context has moved *)
Lemma post_err_here : forall c c1 own base xe it',
  wf (cvars c) -> cvars c1 = cvars c -> calt c1 = calt c ->
  it_ok it' -> loopvars it' = [] -> abs (cvars c) = own :: base ->
  post c own base (NErr (XFErr xe) it' c1).
Proof.
  intros c c1 own base xe it' Hw A B Hok Hl Ha. cbn [post].
  split; [rewrite A; exact Hw|]. split; [exact B|]. split; [exact Hok|].
  exists own. split; [apply ext_refl|]. apply frames_nil_intro; [exact Hl|rewrite A; exact Ha].
Qed.

(* SITE 20 and the evaluation sites inside the statement iterator *)
Lemma snext_post : forall fuel it c own base,
  wf (cvars c) -> it_ok it -> frames_ok it c own base ->
  post c own base (snext G fuel it c).
Proof.
  induction fuel as [|f IH]; intros it c own base Hw Hok Hfr; [exact I|].
  unfold snext. rewrite next_S. fold (snext G).
  destruct it as [rest st]. destruct st as [|ls|ls|inner ls|ls|ws|inner ws]; cbn [it_ok] in Hok.
  - (* Iterate *)
    destruct Hok as [Hrest _].
    pose proof (frames_nil _ _ _ _ Hfr eq_refl) as Ha.
    destruct rest as [|s r].
    + cbn [post]. split; [exact Hw|]. split; [reflexivity|]. split; [split; [exact stmts_ok_nil|exact I]|]. split; [reflexivity|].
      exists own. split; [apply ext_refl|exact Ha].
    + destruct s as [x e|d l|v e body|e body|].
      * apply stmts_ok_let in Hrest. destruct Hrest as [We Hr].
        destruct (lift_eval G c e) as [c1 r1] eqn:E.
        destruct (lift_eval_ok _ _ _ _ We E) as (A & B & K).
        destruct r1 as [z|[xe|sp]]; [| |exact K].
        2:{ apply post_err_here; try assumption; [cbn [it_ok]; split; [exact Hr|exact I]|reflexivity]. }
        rewrite <- A in Hw, Ha.
        destruct (ctx_set_frames c1 x z _ _ Hw Ha) as (W2 & C2 & A2).
        eapply post_weaken; [| |apply (IH (SI r Iterate) _ (set_assoc x z own) base W2)].
        -- congruence.
        -- apply ext_set.
        -- cbn [it_ok]. split; [exact Hr|exact I].
        -- apply frames_nil_intro; [reflexivity|exact A2].
      * apply stmts_ok_row in Hrest. destruct Hrest as [Wd Hr].
        destruct (lift_row_eval G c d) as [c1 r1] eqn:E.
        destruct (lift_row_eval_ok _ _ _ _ Wd E) as (A & B & K).
        destruct r1 as [w|[xe|sp]]; [| |exact K].
        2:{ apply post_err_here; try assumption; [cbn [it_ok]; split; [exact Hr|exact I]|reflexivity]. }
        cbn [post]. rewrite A. split; [exact Hw|]. split; [exact B|]. split; [split; [exact Hr|exact I]|].
        split; [exact K|]. exists own. split; [apply ext_refl|]. apply frames_nil_intro; [reflexivity|]. rewrite A. exact Ha.
      * apply stmts_ok_loop in Hrest. destruct Hrest as (We & Hb & Hr).
        destruct (lift_eval G c e) as [c1 r1] eqn:E.
        destruct (lift_eval_ok _ _ _ _ We E) as (A & B & K).
        destruct r1 as [z|[xe|sp]]; [| |exact K].
        2:{ apply post_err_here; try assumption; [cbn [it_ok]; split; [exact Hr|exact I]|reflexivity]. }
        rewrite <- A in Hw, Ha.
        eapply post_weaken; [exact B|apply ext_refl|]. apply IH; [exact Hw| |].
        -- cbn [it_ok lbody]. split; assumption.
        -- apply frames_nil_intro; [reflexivity|exact Ha].
      * apply stmts_ok_while in Hrest. destruct Hrest as (We & Hb & Hr).
        apply IH; [exact Hw| |].
        -- cbn [it_ok wcond wbody]. repeat (split; try assumption).
        -- apply frames_nil_intro; [reflexivity|exact Ha].
      * apply stmts_ok_reset in Hrest.
        eapply post_weaken with (c2 := ctx_reset_random_seed c); [reflexivity|apply ext_refl|].
        apply IH; [exact Hw| |].
        -- cbn [it_ok]. split; [exact Hrest|exact I].
        -- apply frames_nil_intro; [reflexivity|exact Ha].
  - (* StartLoop *)
    destruct Hok as [Hrest Hbody].
    pose proof (frames_nil _ _ _ _ Hfr eq_refl) as Ha.
    destruct (0 <? lmax ls)%Z.
    + destruct (ctx_push_frames c Hw) as (W1 & C1 & A1). rewrite Ha in A1.
      destruct (ctx_set_frames _ (lvar ls) 0%Z _ _ W1 A1) as (W2 & C2 & A2).
      eapply post_weaken; [| apply ext_refl | apply (IH (SI rest (StartInner ls)) _ own base W2)].
      * congruence.
      * cbn [it_ok]. split; assumption.
      * eapply frames_one_intro; [reflexivity| |exact A2]. apply binds_set_same.
    + apply IH; [exact Hw| |].
      * cbn [it_ok]. split; [exact Hrest|exact I].
      * apply frames_nil_intro; [reflexivity|exact Ha].
  - (* StartInner *)
    destruct Hok as [Hrest Hbody].
    apply IH; [exact Hw| |].
    + cbn [it_ok]. repeat (split; try assumption).
    + destruct Hfr as [fr H]. exists fr. exact H.
  - (* IterInner *)
    destruct Hok as (Hrest & Hbody & Hinner).
    destruct Hfr as [fr [Ha Hb]]. cbn [loopvars rev] in Hb.
    apply Forall2_app_inv_r in Hb. destruct Hb as (fr1 & fr2 & Hb1 & Hb2 & ->).
    inversion Hb2 as [|g ? fr2' ? Hg Hnil]; subst. inversion Hnil; subst.
    rewrite <- app_assoc in Ha. cbn [app] in Ha.
    assert (Hfi : frames_ok inner c g (own :: base)) by (exists fr1; split; assumption).
    pose proof (IH inner c g (own :: base) Hw Hinner Hfi) as Hp.
    destruct (snext G f inner c) as [w l inner' c'|it'' c'|x inner' c'|s|]; cbn [post] in Hp.
    + destruct Hp as (W' & C' & Ok' & Gw & g' & Eg & fr1' & Ha' & Hb').
      cbn [post]. split; [exact W'|]. split; [exact C'|].
      split; [cbn [it_ok]; split; [exact Hrest|split; [exact Hbody|exact Ok']]|]. split; [exact Gw|].
      exists own. split; [apply ext_refl|]. exists (fr1' ++ [g']). split.
      * rewrite <- app_assoc. exact Ha'.
      * cbn [loopvars rev]. apply Forall2_app; [exact Hb'|]. constructor; [apply Eg; exact Hg|constructor].
    + destruct Hp as (W' & C' & Ok' & Lv & g' & Eg & Ha').
      eapply post_weaken; [exact C'|apply ext_refl|]. apply IH; [exact W'| |].
      * cbn [it_ok]. split; assumption.
      * eapply frames_one_intro; [reflexivity|apply Eg; exact Hg|exact Ha'].
    + (* the body failed: the loop stays open around what is left of the body; its frame is
         still there (nothing was popped) and still binds the loop variable *)
      destruct x as [xe|sp]; [|exact Hp].
      destruct Hp as (W' & C' & Ok' & g' & Eg & fr1' & Ha' & Hb').
      cbn [post]. split; [exact W'|]. split; [exact C'|].
      split; [cbn [it_ok]; split; [exact Hrest|split; [exact Hbody|exact Ok']]|].
      exists own. split; [apply ext_refl|]. exists (fr1' ++ [g']). split.
      * rewrite <- app_assoc. exact Ha'.
      * cbn [loopvars rev]. apply Forall2_app; [exact Hb'|]. constructor; [apply Eg; exact Hg|constructor].
    + exact Hp.
    + exact I.
  - (* EndInner: the loop variable is bound in the frame of its loop *)
    destruct Hok as [Hrest Hbody].
    destruct (frames_one _ _ _ _ _ Hfr eq_refl) as (g & Hg & Ha).
    destruct (loop_var_present c (lvar ls) g _ Hw Ha Hg) as [v Hv]. rewrite Hv.
    destruct (wadd v 1 <? lmax ls)%Z.
    + destruct (ctx_set_frames c (lvar ls) (wadd v 1) _ _ Hw Ha) as (W2 & C2 & A2).
      eapply post_weaken; [exact C2|apply ext_refl|]. apply IH; [exact W2| |].
      * cbn [it_ok]. split; assumption.
      * eapply frames_one_intro; [reflexivity| |exact A2]. apply binds_set_same.
    + destruct (ctx_pop_frames c g own base Hw Ha) as (W2 & C2 & A2).
      eapply post_weaken; [exact C2|apply ext_refl|]. apply IH; [exact W2| |].
      * cbn [it_ok]. split; [exact Hrest|exact I].
      * apply frames_nil_intro; [reflexivity|exact A2].
  - (* StartWhile *)
    destruct Hok as (Hrest & We & Hbody).
    pose proof (frames_nil _ _ _ _ Hfr eq_refl) as Ha.
    destruct (lift_eval G c (wcond ws)) as [c1 r1] eqn:E.
    destruct (lift_eval_ok _ _ _ _ We E) as (A & B & K).
    destruct r1 as [z|[xe|sp]]; [| |exact K].
    2:{ apply post_err_here; try assumption; [|reflexivity].
        cbn [it_ok]. split; [exact Hrest|split; [exact We|exact Hbody]]. }
    rewrite <- A in Hw, Ha.
    destruct (z =? 0)%Z; (eapply post_weaken; [exact B|apply ext_refl|]); (apply IH; [exact Hw| |]).
    + cbn [it_ok]. split; [exact Hrest|exact I].
    + apply frames_nil_intro; [reflexivity|exact Ha].
    + cbn [it_ok]. repeat (split; try assumption).
    + apply frames_nil_intro; [reflexivity|exact Ha].
  - (* WhileInner *)
    destruct Hok as (Hrest & We & Hbody & Hinner).
    assert (Hfi : frames_ok inner c own base) by (destruct Hfr as [fr H]; exists fr; exact H).
    pose proof (IH inner c own base Hw Hinner Hfi) as Hp.
    destruct (snext G f inner c) as [w l inner' c'|it'' c'|x inner' c'|s|]; cbn [post] in Hp.
    + destruct Hp as (W' & C' & Ok' & Gw & own' & Eo & fr' & Hf').
      cbn [post]. split; [exact W'|]. split; [exact C'|].
      split; [cbn [it_ok]; split; [exact Hrest|split; [exact We|split; [exact Hbody|exact Ok']]]|]. split; [exact Gw|].
      exists own'. split; [exact Eo|]. exists fr'. exact Hf'.
    + destruct Hp as (W' & C' & Ok' & Lv & own' & Eo & Ha').
      eapply post_weaken; [exact C'|exact Eo|]. apply IH; [exact W'| |].
      * cbn [it_ok]. repeat (split; try assumption).
      * apply frames_nil_intro; [reflexivity|exact Ha'].
    + destruct x as [xe|sp]; [|exact Hp].
      destruct Hp as (W' & C' & Ok' & own' & Eo & fr' & Hf').
      cbn [post]. split; [exact W'|]. split; [exact C'|].
      split; [cbn [it_ok]; split; [exact Hrest|split; [exact We|split; [exact Hbody|exact Ok']]]|].
      exists own'. split; [exact Eo|]. exists fr'. exact Hf'.
    + exact Hp.
    + exact I.
Qed.

End SNEXT.

(* ------------------------------------------------------------------ the invariant *)

(* the invariant of reachable iterator states *)
Definition Inv (st : istate) : Prop :=
  (* (i) the cache holds evaluated rows of the right width, C only in input columns *)
  Forall good_row (i_cache st) /\
  (* (ii) the previous row has the right width *)
  match i_prev st with Some p => length p = width | None => True end /\
  (* (iii),(iv) one output index per expected signal; virtual signals are well-formed
     expressions (a recorded position beyond the end of a later answer is an error item) *)
  outidx_ok (i_outidx st) /\
  (* (v) the statement iterator holds well-formed statements only, and every open loop owns
     a frame that binds its loop variable *)
  it_ok (i_iter st) /\
  (exists own, frames_ok (i_iter st) (i_ctx st) own []) /\
  (* (vi) *)
  wf (cvars (i_ctx st)) /\
  calt (i_ctx st) = fm_new.

Lemma Inv_with_ctx_log : forall st c log,
  cvars c = cvars (i_ctx st) -> calt c = calt (i_ctx st) -> Inv st -> Inv (with_ctx_log st c log).
Proof.
  intros st c log Hv Ha (I1 & I2 & I3 & I4 & [own I5] & I6 & I7).
  unfold Inv, with_ctx_log. cbn [i_cache i_prev i_outidx i_iter i_ctx].
  split; [exact I1|]. split; [exact I2|]. split; [exact I3|]. split; [exact I4|].
  split; [exists own; eapply frames_ok_cvars; [exact Hv|exact I5]|].
  split; [rewrite Hv; exact I6|]. rewrite Ha. exact I7.
Qed.

Section MAIN.
Variable G : gen.
Variable DE : Type.
Variable D : driver DE.
Variable w_default : bool.

(* the second half of get_row: expand the top of the cache and hand it out *)
Definition phase2 (st1 : istate) : getrow_result :=
  match prepare_cache tc (i_cache st1) with
  | Ok [] => GRPanic 37%N
  | Ok (row :: rest) =>
      let changed := check_changed_entries (i_prev st1) (de_entries row) in
      match generate_input_entries tc (de_entries row) changed with
      | Ok inputs =>
          match generate_expected_entries tc (de_entries row) with
          | Ok expected =>
              GRRow {| er_line := de_line row; er_inputs := inputs; er_expected := expected;
                       er_update_output := de_update_output row |}
                    {| i_ctx := i_ctx st1; i_iter := i_iter st1; i_outidx := i_outidx st1;
                       i_nout := i_nout st1;
                       i_prev := Some (de_entries row); i_cache := rest; i_log := i_log st1 |}
          | Panic s => GRPanic s
          | _ => GRPanic 0%N
          end
      | Panic s => GRPanic s
      | _ => GRPanic 0%N
      end
  | Panic s => GRPanic s
  | Err _ => GRPanic 0%N
  | OOF => GROOF
  end.

Lemma get_row_unfold : forall fuel st, get_row G tc fuel st =
  match i_cache st with
  | [] =>
      match snext G fuel (i_iter st) (i_ctx st) with
      | NYield w l it' c' =>
          phase2 (with_iter_ctx st it' c' [ {| de_entries := w; de_line := l; de_update_output := true |} ])
      | NDone it' c' => GRNone (with_iter_ctx st it' c' [])
      | NErr (XFErr x) it' c' => GRErr x (with_iter_ctx st it' c' [])
      | NErr (XFPanic s) _ _ => GRPanic s
      | NPanic s => GRPanic s
      | NOOF => GROOF
      end
  | _ => phase2 st
  end.
Proof.
  intros fuel [c it oi no pv [|r0 rest0] lg]; unfold get_row, phase2; cbn [i_cache i_iter i_ctx]; [|reflexivity].
  destruct (snext G fuel it c) as [w l it' c'|it' c'|[x|s] it' c'|s|]; reflexivity.
Qed.

Definition gr_post (r : getrow_result) : Prop :=
  match r with
  | GRNone st' | GRRow _ st' => Inv st'
  (* also the state after an evaluation error: next() can be called again on it *)
  | GRErr _ st' => Inv st'
  | GRPanic _ => False
  | GROOF => True
  end.

Lemma phase2_post : forall st1, Inv st1 -> i_cache st1 <> [] -> gr_post (phase2 st1).
Proof.
  intros st1 (I1 & I2 & I3 & I4 & I5 & I6 & I7) Hne. unfold phase2.
  destruct (i_cache st1) as [|row rest] eqn:Ec; [contradiction|].
  destruct (prepare_cache_good row rest I1) as (top & rest' & Hp & Gr & Rd).
  rewrite Hp. cbv zeta.
  destruct (generate_input_entries_ok (de_entries top)
              (check_changed_entries (i_prev st1) (de_entries top)) Rd) as [ins Hi].
  { rewrite check_changed_length; [exact (proj1 (proj1 Rd))|].
    destruct (i_prev st1) as [p|]; [|exact I]. rewrite I2. symmetry. exact (proj1 (proj1 Rd)). }
  rewrite Hi. destruct (generate_expected_entries_ok (de_entries top) Rd) as [xs Hx]. rewrite Hx.
  cbn [gr_post]. unfold Inv. cbn [i_cache i_prev i_outidx i_iter i_ctx].
  split; [exact Gr|]. split; [exact (proj1 (proj1 Rd))|]. split; [exact I3|]. split; [exact I4|].
  split; [exact I5|]. split; [exact I6|exact I7].
Qed.

Lemma get_row_post : forall fuel st, Inv st -> gr_post (get_row G tc fuel st).
Proof.
  intros fuel st HI. rewrite get_row_unfold.
  destruct (i_cache st) as [|r0 rest0] eqn:Ec.
  2:{ apply phase2_post; [exact HI|]. rewrite Ec. discriminate. }
  destruct HI as (I1 & I2 & I3 & I4 & [own I5] & I6 & I7).
  pose proof (snext_post G fuel (i_iter st) (i_ctx st) own [] I6 I4 I5) as Hp.
  destruct (snext G fuel (i_iter st) (i_ctx st)) as [w l it' c'|it' c'|[x|s] it' c'|s|]; cbn [post] in Hp;
    try exact I; try contradiction.
  - destruct Hp as (W' & C' & Ok' & Gw & own' & _ & F').
    apply phase2_post; [|cbn; discriminate].
    unfold Inv, with_iter_ctx. cbn [i_cache i_prev i_outidx i_iter i_ctx].
    split; [constructor; [exact Gw|constructor]|]. split; [exact I2|]. split; [exact I3|].
    split; [exact Ok'|]. split; [exists own'; exact F'|]. split; [exact W'|]. congruence.
  - destruct Hp as (W' & C' & Ok' & Lv & own' & _ & A').
    cbn [gr_post]. unfold Inv, with_iter_ctx. cbn [i_cache i_prev i_outidx i_iter i_ctx].
    split; [constructor|]. split; [exact I2|]. split; [exact I3|].
    split; [exact Ok'|]. split; [exists own'; apply frames_nil_intro; assumption|].
    split; [exact W'|]. congruence.
  - (* error item: the cache is empty, the iterator and the context are those of post *)
    destruct Hp as (W' & C' & Ok' & own' & _ & F').
    cbn [gr_post]. unfold Inv, with_iter_ctx. cbn [i_cache i_prev i_outidx i_iter i_ctx].
    split; [constructor|]. split; [exact I2|]. split; [exact I3|].
    split; [exact Ok'|]. split; [exists own'; exact F'|]. split; [exact W'|]. congruence.
Qed.

(* the error items Iterator::next can produce *)
Definition ierr_after_new (e : ierr DE) : Prop :=
  match e with IE_Driver _ => True | IE_Runtime r => rterr_after_new r end.

Definition it_post (r : item DE) : Prop :=
  match r with
  | ItNone st' | ItRow _ st' => Inv st'
  (* the state that comes with an error item satisfies the invariant too: whatever the
     caller does with the iterator after an error, it does not panic *)
  | ItErr e st' => ierr_after_new e /\ Inv st'
  | ItPanic _ => False
  | ItOOF => True
  end.

Lemma inext_post : forall fuel st, Inv st -> it_post (inext G DE D w_default tc fuel st).
Proof.
  intros fuel st HI. unfold inext.
  pose proof (get_row_post fuel st HI) as Hp.
  destruct (get_row G tc fuel st) as [st1|row st1|x st1|s|]; cbn [gr_post] in Hp;
    try exact I; try contradiction; try exact Hp.
  2:{ cbn [it_post]. split; [exact I|exact Hp]. }
  destruct (er_update_output row).
  - destruct (D (i_log st1) (RW, er_inputs row)) as [e|outs].
    { cbn [it_post]. split; [exact I|]. apply Inv_with_ctx_log; [reflexivity|reflexivity|exact Hp]. }
    destruct (extract_output_values G tc (i_nout st1) (i_outidx st1) outs
                (ctx_set_outputs (i_ctx st1) (outs_map outs))) as [c2 r] eqn:E.
    destruct (extract_output_values_ok G _ _ _ _ _ _ (proj1 (proj2 (proj2 Hp))) E) as (A & B & K).
    cbn [ctx_set_outputs cvars calt] in A, B.
    destruct r as [vals|e|s|]; [| |contradiction|contradiction].
    + cbn [it_post]. apply Inv_with_ctx_log; assumption.
    + cbn [it_post]. split; [exact K|]. apply Inv_with_ctx_log; assumption.
  - destruct (D (i_log st1) (if w_default then RW else WO, er_inputs row)) as [e|outs].
    { cbn [it_post]. split; [exact I|]. apply Inv_with_ctx_log; [reflexivity|reflexivity|exact Hp]. }
    cbn [it_post]. apply Inv_with_ctx_log; [reflexivity|reflexivity|exact Hp].
Qed.

(* ------------------------------------------------------------------ the constructor *)

Definition new_post (r : new_result DE) : Prop :=
  match r with
  | NewOk st => Inv st
  | NewErr _ _ => True
  | NewPanic _ => False
  end.

Lemma try_new_post : new_post (try_new DE D tc).
Proof.
  unfold try_new. destruct generate_default_input_entries_ok as [ins Hi]. rewrite Hi.
  destruct (D [] (RW, ins)) as [e|outs] eqn:Ed; [exact I|].
  pose proof (build_output_indices_ok outs) as Hb.
  destruct (build_output_indices tc outs) as [oi|e|s|] eqn:Eb; try exact I; try contradiction.
  destruct Hb as [Hl Hf]. cbn [new_post].
  unfold Inv. cbn [i_cache i_prev i_outidx i_iter i_ctx].
  split; [constructor|]. split; [exact I|]. split.
  { split; [exact Hl|].
    eapply Forall_impl; [|exact Hf]. intros o Ho. destruct o; try exact I. exact Ho. }
  split; [unfold siter_new; cbn [it_ok]; split; [exact stmts_ok_tc|exact I]|].
  split; [exists []; apply frames_nil_intro; [reflexivity|]; cbn [ctx_new cvars]; apply abs_new|].
  split; [cbn [ctx_new cvars]; apply wf_new|reflexivity].
Qed.

(* ------------------------------------------------------------------ main theorems *)

Theorem try_new_no_panic : forall s, try_new DE D tc <> NewPanic s.
Proof. intros s E. pose proof try_new_post as H. rewrite E in H. exact H. Qed.

Theorem try_new_inv : forall st, try_new DE D tc = NewOk st -> Inv st.
Proof. intros st E. pose proof try_new_post as H. rewrite E in H. exact H. Qed.

Theorem inext_no_panic : forall st, Inv st -> forall fuel s, inext G DE D w_default tc fuel st <> ItPanic s.
Proof. intros st HI fuel s E. pose proof (inext_post fuel st HI) as H. rewrite E in H. exact H. Qed.

(* which error items are possible: the driver's own errors, expression errors, and the two
   complaints about the shape of an answer; never MissingOutputs (only the constructor reports it) *)
Theorem inext_error_items : forall st, Inv st -> forall fuel e st',
  inext G DE D w_default tc fuel st = ItErr e st' ->
  (exists d, e = IE_Driver d) \/
  (exists x, e = IE_Runtime (RT_Expr x)) \/
  (exists a b, e = IE_Runtime (RT_WrongNumberOfOutputs a b)) \/
  e = IE_Runtime RT_WrongOutputOrder.
Proof.
  intros st HI fuel e st' E. pose proof (inext_post fuel st HI) as H. rewrite E in H. cbn [it_post] in H.
  destruct H as [H _].
  destruct e as [d|r]; [left; exists d; reflexivity|]. right.
  destruct r as [a b| |names|x]; cbn in H.
  - right. left. exists a, b. reflexivity.
  - right. right. reflexivity.
  - contradiction.
  - left. exists x. reflexivity.
Qed.

Theorem inext_inv : forall st fuel, Inv st ->
  match inext G DE D w_default tc fuel st with
  | ItRow _ st' | ItNone st' => Inv st'
  | _ => True
  end.
Proof.
  intros st fuel HI. pose proof (inext_post fuel st HI) as H.
  destruct (inext G DE D w_default tc fuel st); try exact I; exact H.
Qed.

(* EVERY step preserves the invariant: also the one that returns an error item.  The state
   that comes with the item is the iterator as the failed call left it (for an expression
   error: the statement iterator of Stmt.v's NErr - the failing statement consumed, or the
   while condition still to be evaluated, or the loop still open around what is left of its
   body, with its frames and loop variables intact because nothing was popped). *)
Theorem inext_inv_all : forall st fuel, Inv st ->
  match inext G DE D w_default tc fuel st with
  | ItRow _ st' | ItNone st' | ItErr _ st' => Inv st'
  | ItPanic _ => False
  | ItOOF => True
  end.
Proof.
  intros st fuel HI. pose proof (inext_post fuel st HI) as H.
  destruct (inext G DE D w_default tc fuel st); cbn [it_post] in H; try exact H. exact (proj2 H).
Qed.

Theorem inext_inv_after_error : forall st fuel e st', Inv st ->
  inext G DE D w_default tc fuel st = ItErr e st' -> Inv st'.
Proof.
  intros st fuel e st' HI E. pose proof (inext_inv_all st fuel HI) as H. rewrite E in H. exact H.
Qed.

(* the states a caller can reach by calling next again and again (each call with any fuel),
   going on after a row and also after None *)
Inductive reachable (st0 : istate) : istate -> Prop :=
| reach_start : reachable st0 st0
| reach_row : forall st fuel row st', reachable st0 st ->
    inext G DE D w_default tc fuel st = ItRow row st' -> reachable st0 st'
| reach_none : forall st fuel st', reachable st0 st ->
    inext G DE D w_default tc fuel st = ItNone st' -> reachable st0 st'.

Theorem reachable_inv : forall st0 st, Inv st0 -> reachable st0 st -> Inv st.
Proof.
  intros st0 st H0 Hr. induction Hr as [|st fuel row st' _ IH E|st fuel st' _ IH E]; [exact H0| |].
  - pose proof (inext_post fuel st IH) as H. rewrite E in H. exact H.
  - pose proof (inext_post fuel st IH) as H. rewrite E in H. exact H.
Qed.

(* the same, for a caller that also goes on after error items *)
Inductive reachable_e (st0 : istate) : istate -> Prop :=
| reache_start : reachable_e st0 st0
| reache_row : forall st fuel row st', reachable_e st0 st ->
    inext G DE D w_default tc fuel st = ItRow row st' -> reachable_e st0 st'
| reache_none : forall st fuel st', reachable_e st0 st ->
    inext G DE D w_default tc fuel st = ItNone st' -> reachable_e st0 st'
| reache_err : forall st fuel e st', reachable_e st0 st ->
    inext G DE D w_default tc fuel st = ItErr e st' -> reachable_e st0 st'.

Lemma reachable_reachable_e : forall st0 st, reachable st0 st -> reachable_e st0 st.
Proof.
  intros st0 st Hr. induction Hr as [|st fuel row st' _ IH E|st fuel st' _ IH E].
  - apply reache_start.
  - eapply reache_row; eassumption.
  - eapply reache_none; eassumption.
Qed.

Theorem reachable_e_inv : forall st0 st, Inv st0 -> reachable_e st0 st -> Inv st.
Proof.
  intros st0 st H0 Hr.
  induction Hr as [|st fuel row st' _ IH E|st fuel st' _ IH E|st fuel e st' _ IH E]; [exact H0| | |];
    pose proof (inext_inv_all st fuel IH) as H; rewrite E in H; exact H.
Qed.

Theorem reachable_e_never_panics : forall st0, try_new DE D tc = NewOk st0 ->
  forall st, reachable_e st0 st -> forall fuel s, inext G DE D w_default tc fuel st <> ItPanic s.
Proof.
  intros st0 E st Hr. apply inext_no_panic. eapply reachable_e_inv; [|exact Hr].
  apply try_new_inv. exact E.
Qed.

Theorem C10_reachable_never_panics : forall st0, try_new DE D tc = NewOk st0 ->
  forall st, reachable st0 st -> forall fuel s, inext G DE D w_default tc fuel st <> ItPanic s.
Proof.
  intros st0 E st Hr. apply inext_no_panic. eapply reachable_inv; [|exact Hr].
  apply try_new_inv. exact E.
Qed.

(* the same for a run: call next once for every element of `fuels`, going on after a row;
   run_panics says that some call of the run panics *)
Fixpoint run_panics (fuels : list nat) (st : istate) : Prop :=
  match fuels with
  | [] => False
  | f :: r =>
      match inext G DE D w_default tc f st with
      | ItPanic _ => True
      | ItRow _ st' => run_panics r st'
      | _ => False
      end
  end.

Lemma run_from_inv : forall fuels st, Inv st -> ~ run_panics fuels st.
Proof.
  induction fuels as [|f r IH]; intros st HI; cbn [run_panics]; [tauto|].
  pose proof (inext_post f st HI) as H.
  destruct (inext G DE D w_default tc f st); cbn [it_post] in H; try tauto. apply IH. exact H.
Qed.

(* a run that goes on after error items as well *)
Fixpoint run_panics_e (fuels : list nat) (st : istate) : Prop :=
  match fuels with
  | [] => False
  | f :: r =>
      match inext G DE D w_default tc f st with
      | ItPanic _ => True
      | ItRow _ st' | ItErr _ st' | ItNone st' => run_panics_e r st'
      | ItOOF => False
      end
  end.

Lemma run_e_from_inv : forall fuels st, Inv st -> ~ run_panics_e fuels st.
Proof.
  induction fuels as [|f r IH]; intros st HI; cbn [run_panics_e]; [tauto|].
  pose proof (inext_inv_all st f HI) as H.
  destruct (inext G DE D w_default tc f st); try tauto; apply IH; exact H.
Qed.

Theorem run_through_errors_never_panics : forall st0, try_new DE D tc = NewOk st0 ->
  forall fuels, ~ run_panics_e fuels st0.
Proof. intros st0 E fuels. apply run_e_from_inv. apply try_new_inv. exact E. Qed.

Theorem C10_run_never_panics : forall st0, try_new DE D tc = NewOk st0 ->
  forall fuels, ~ run_panics fuels st0.
Proof. intros st0 E fuels. apply run_from_inv. apply try_new_inv. exact E. Qed.

(* n calls, all with the same fuel *)
Corollary C10_run_never_panics_n : forall st0, try_new DE D tc = NewOk st0 ->
  forall n fuel, ~ run_panics (repeat fuel n) st0.
Proof. intros st0 E n fuel. apply C10_run_never_panics. exact E. Qed.

End MAIN.

End NOPANIC.

Print Assumptions try_new_no_panic.
Print Assumptions try_new_inv.
Print Assumptions inext_no_panic.
Print Assumptions inext_inv.
Print Assumptions C10_reachable_never_panics.
Print Assumptions C10_run_never_panics.
Print Assumptions inext_error_items.
Print Assumptions C10_run_never_panics_n.
Print Assumptions inext_inv_all.
Print Assumptions reachable_e_never_panics.
Print Assumptions run_through_errors_never_panics.
