(* Property C19, parser half: each data row reports the physical source line on which its
   first token stands.
     block_lines        (token level) the line recorded in a row is the parser's line counter at the
                        row's first token = start line + Eol tokens before that token; rows are
                        recorded at strictly increasing token positions
     C19_row_line_ordered, C19_row_line
                        (text level) the line is 1 + the number of '\n' characters of the source
                        text in front of the row's first token, and successive rows (at any nesting
                        depth, the single row of a repeat included) come from strictly longer
                        prefixes of the text
   The token-level part is a fifth pass of the sweep of ParserProof.v.  It has its own rules for
   the primitives, because here the line counter matters: the state is described by
   [linv n st]: "the tokens left are the input tokens from position n on, and the line counter is
   the start line plus the number of Eol tokens among the first n tokens". *)
From Coq Require Import String Sorted.
From DTR Require Import Prelude Ast FramedMap Lexer Parser.
From DTR.proofs Require Import LexerProof ParserProof.
Open Scope N_scope.

(* ================================================================== the lines of a program *)

(* the recorded lines of all data rows, in program order, at any depth *)
Fixpoint stmt_lines (s : stmt) : list N :=
  match s with
  | SRow _ ln => [ln]
  | SLoop _ _ body | SWhile _ body =>
      (fix go (l : list stmt) : list N :=
         match l with [] => [] | x :: r => stmt_lines x ++ go r end) body
  | _ => []
  end.

Definition row_lines (ss : list stmt) : list N := flat_map stmt_lines ss.

Lemma stmt_lines_loop : forall v max body, stmt_lines (SLoop v max body) = row_lines body.
Proof. intros. simpl. induction body as [|x r IH]; simpl; [reflexivity | rewrite IH; reflexivity]. Qed.
Lemma stmt_lines_while : forall c body, stmt_lines (SWhile c body) = row_lines body.
Proof. intros. simpl. induction body as [|x r IH]; simpl; [reflexivity | rewrite IH; reflexivity]. Qed.
Lemma row_lines_snoc : forall b s, row_lines (b ++ [s]) = row_lines b ++ stmt_lines s.
Proof. intros. unfold row_lines. apply flat_map_snoc. Qed.

(* ================================================================== positions in a token list *)

Local Open Scope nat_scope.

Lemma skipn_cons_inv : forall A (l : list A) n t r, skipn n l = t :: r ->
  nth_error l n = Some t /\ skipn (S n) l = r /\ firstn (S n) l = firstn n l ++ [t].
Proof.
  induction l as [|x l IH]; intros n t r H.
  - destruct n; discriminate H.
  - destruct n as [|n].
    + simpl in H. injection H as <- <-. auto.
    + cbn [skipn] in H. destruct (IH _ _ _ H) as [H1 [H2 H3]].
      split; [exact H1|]. split; [exact H2|]. cbn [firstn] in *. rewrite H3. reflexivity.
Qed.

Lemma count_eol_snoc : forall l t,
  count_eol (l ++ [t]) = count_eol l + (if tk_beq (tkind t) TEol then 1 else 0).
Proof.
  intros. rewrite count_eol_app. f_equal. unfold count_eol. cbn [filter].
  destruct (tk_beq (tkind t) TEol); reflexivity.
Qed.

Section LINES.
Variable all : list token.     (* the tokens the parser starts with *)
Variable line0 : N.            (* the line counter it starts with *)
Variable input_len : N.
Variable hdr : list name.

Definition linv (n : nat) (st : pstate) : Prop :=
  toks st = skipn n all /\ pline st = (line0 + N.of_nat (count_eol (firstn n all)))%N.

Lemma linv_head : forall n st t r, linv n st -> toks st = t :: r -> nth_error all n = Some t.
Proof.
  intros n st t r [H1 _] Ht. rewrite H1 in Ht. apply skipn_cons_inv in Ht. tauto.
Qed.

Lemma linv_step : forall n st t r, linv n st -> toks st = t :: r ->
  linv (S n) (set_toks st r (if tk_beq (tkind t) TEol then pline st + 1 else pline st)%N).
Proof.
  intros n st t r [H1 H2] Ht. rewrite H1 in Ht. apply skipn_cons_inv in Ht.
  destruct Ht as [_ [Hs Hf]]. split; cbn [toks pline set_toks]; [symmetry; exact Hs|].
  rewrite Hf, count_eol_snoc, H2. destruct (tk_beq (tkind t) TEol); lia.
Qed.

Lemma linv_same : forall n st st', linv n st -> toks st' = toks st -> pline st' = pline st -> linv n st'.
Proof. intros n st st' [H1 H2] Ht Hp. split; congruence. Qed.

(* ------------------------------------------------------------------ rules for the primitives *)

Notation wpl := (wp True True no_claim).

Lemma wpl_peek : forall (Q : tk -> pstate -> Prop) n st, linv n st ->
  (forall t, nth_error all n = Some t -> Q (tkind t) st) -> wpl peek Q st.
Proof.
  unfold wp, peek. intros Q n st Hl HQ. destruct (toks st) as [|t r] eqn:E; [exact I|].
  apply HQ. eapply linv_head; eassumption.
Qed.

Lemma wpl_peek_span : forall (Q : span -> pstate -> Prop) n st, linv n st ->
  (forall t, nth_error all n = Some t -> Q (tspan t) st) -> wpl peek_span Q st.
Proof.
  unfold wp, peek_span. intros Q n st Hl HQ. destruct (toks st) as [|t r] eqn:E; [exact I|].
  apply HQ. eapply linv_head; eassumption.
Qed.

Lemma wpl_at : forall k (Q : bool -> pstate -> Prop) n st, linv n st ->
  (forall t, nth_error all n = Some t -> Q (tk_beq (tkind t) k) st) -> wpl (at_ k) Q st.
Proof.
  unfold wp, at_, bind, peek, ret. intros k Q n st Hl HQ. destruct (toks st) as [|t r] eqn:E; [exact I|].
  apply HQ. eapply linv_head; eassumption.
Qed.

Lemma wpl_get : forall (Q : token -> pstate -> Prop) n st, linv n st ->
  (forall t st', nth_error all n = Some t -> linv (S n) st' ->
     (tkind t <> TEol -> pline st' = pline st) -> Q t st') ->
  wpl (get input_len) Q st.
Proof.
  unfold wp, get. intros Q n st Hl HQ. destruct (toks st) as [|t r] eqn:E; [exact I|].
  apply HQ; [eapply linv_head; eassumption | apply linv_step; assumption |].
  intro Hk. cbn [pline set_toks]. destruct (tk_beq (tkind t) TEol) eqn:Eb; [|reflexivity].
  apply tk_beq_true in Eb. contradiction.
Qed.

Lemma wpl_skip : forall (Q : unit -> pstate -> Prop) n st, linv n st ->
  (forall t st', nth_error all n = Some t -> linv (S n) st' ->
     (tkind t <> TEol -> pline st' = pline st) -> Q tt st') ->
  wpl (skip input_len) Q st.
Proof.
  intros Q n st Hl HQ. pose proof (wpl_get (fun t st' => Q tt st') n st Hl HQ) as H.
  unfold wp, skip in *. destruct (get input_len st) as [[a st']| | |]; auto.
Qed.

Lemma wpl_expect : forall k (Q : token -> pstate -> Prop) n st, linv n st ->
  (forall t st', nth_error all n = Some t -> tkind t = k -> linv (S n) st' ->
     (tkind t <> TEol -> pline st' = pline st) -> Q t st') ->
  wpl (expect input_len k) Q st.
Proof.
  intros k Q n st Hl HQ. unfold expect. apply wp_bind. eapply wpl_get; [exact Hl|].
  intros t st' Hn Hl' Hp. destruct (tk_beq (tkind t) k) eqn:E; [|exact I].
  apply wp_ret. apply HQ; try assumption. apply tk_beq_true. exact E.
Qed.

Lemma wpl_parse_number : forall (Q : Z -> pstate -> Prop) n st, linv n st ->
  (forall t st' z, nth_error all n = Some t -> is_num_kind (tkind t) -> linv (S n) st' ->
     pline st' = pline st -> Q z st') ->
  wpl (parse_number input_len) Q st.
Proof.
  intros Q n st Hl HQ. unfold parse_number. apply wp_bind. eapply wpl_get; [exact Hl|].
  intros t st' Hn Hl' Hp. unfold is_num_kind in HQ.
  destruct (tkind t) eqn:Hk; try exact I;
    match goal with |- context[from_str_radix ?a ?b] => destruct (from_str_radix a b) end;
    try exact I; apply wp_ret; eapply HQ; try eassumption; try tauto;
    apply Hp; discriminate.
Qed.

(* the primitives that leave the tokens and the line counter alone *)
Definition quiet {A} (m : P A) : Prop :=
  forall st, match m st with
             | Ok (_, st') => toks st' = toks st /\ pline st' = pline st
             | _ => True
             end.

Lemma wpl_quiet : forall A (m : P A) (Q : A -> pstate -> Prop) n st, quiet m -> linv n st ->
  (forall a st', linv n st' -> pline st' = pline st -> Q a st') -> wpl m Q st.
Proof.
  intros A m Q n st Hq Hl HQ. specialize (Hq st). unfold wp.
  destruct (m st) as [[a st']| | |]; try exact I. destruct Hq as [H1 H2].
  apply HQ; [eapply linv_same; eassumption | exact H2].
Qed.

Lemma quiet_modify_vars : forall f, quiet (modify_vars f).
Proof. intros f st. simpl. auto. Qed.
Lemma quiet_put_vars : forall v, quiet (put_vars v).
Proof. intros v st. simpl. auto. Qed.
Lemma quiet_note_read_output : forall x sp, quiet (note_read_output x sp).
Proof. intros x sp st. unfold note_read_output. destruct (fs_contains (pvars st) x); simpl; auto. Qed.
Lemma quiet_note_expected_input : forall x sp, quiet (note_expected_input x sp).
Proof. intros x sp st. simpl. auto. Qed.
Lemma quiet_add_virtual : forall nm sp e, quiet (add_virtual nm sp e).
Proof.
  intros nm sp e st. unfold add_virtual. destruct (assoc_get nm (pvirtuals st)) as [[ps pe]|]; simpl; auto.
Qed.

(* ------------------------------------------------------------------ the sweep of this pass *)

Ltac l_hook :=
  repeat match goal with
  | H : _ /\ _ |- _ => destruct H
  | H : exists _, _ |- _ => destruct H
  | H1 : nth_error all ?n = Some ?t, H2 : nth_error all ?n = Some ?t' |- _ =>
      rewrite H1 in H2; injection H2 as H2; first [subst t' | subst t | clear H2]
  | H : tkind ?t <> TEol -> _, Hk : tkind ?t = _ |- _ =>
      first [ specialize (H ltac:(rewrite Hk; discriminate)) | clear H ]
  | H : tkind ?t <> TEol -> _, Hk : tkind ?t <> TEol |- _ => specialize (H Hk)
  | H : tkind ?t <> TEol -> _, Hk : is_num_kind (tkind ?t) |- _ =>
      specialize (H ltac:(unfold is_num_kind in Hk; intuition congruence))
  | H : tk_beq _ _ = true |- _ => apply tk_beq_true in H
  end.

Ltac l_tok := (let t := fresh "t" in let H := fresh "Hn" in intros t H; l_hook; norm_goal).
Ltac l_st :=
  (let t := fresh "t" in let st' := fresh "st" in let Hn := fresh "Hn" in
   let Hl := fresh "Hl" in let Hp := fresh "Hp" in
   intros t st' Hn Hl Hp; l_hook; norm_goal).
Ltac l_quiet lem :=
  eapply wpl_quiet; [ apply lem | eassumption
                    | (let st' := fresh "st" in let Hl := fresh "Hl" in let Hp := fresh "Hp" in
                       intros ? st' Hl Hp; norm_goal) ].

Ltac l_step side_pre :=
  lazymatch goal with
  | |- wp _ _ _ (bind _ _) _ _ => apply wp_bind
  | |- wp _ _ _ (ret _) _ _ => apply wp_ret; norm_goal
  | |- wp _ _ _ (fail _) _ _ => exact I
  | |- wp _ _ _ (tok_error _ _) _ _ => exact I
  | |- wp _ _ _ (ppanic _) _ _ => exact I
  | |- wp _ _ _ peek _ _ => eapply wpl_peek; [ eassumption | l_tok ]
  | |- wp _ _ _ peek_span _ _ => eapply wpl_peek_span; [ eassumption | l_tok ]
  | |- wp _ _ _ (at_ _) _ _ => eapply wpl_at; [ eassumption | l_tok ]
  | |- wp _ _ _ (get _) _ _ => eapply wpl_get; [ eassumption | l_st ]
  | |- wp _ _ _ (skip _) _ _ => eapply wpl_skip; [ eassumption | l_st ]
  | |- wp _ _ _ (expect _ _) _ _ =>
      eapply wpl_expect;
      [ eassumption
      | (let t := fresh "t" in let st' := fresh "st" in let Hn := fresh "Hn" in let Hk := fresh "Hk" in
         let Hl := fresh "Hl" in let Hp := fresh "Hp" in
         intros t st' Hn Hk Hl Hp; l_hook; norm_goal) ]
  | |- wp _ _ _ (parse_number _) _ _ =>
      eapply wpl_parse_number;
      [ eassumption
      | (let t := fresh "t" in let st' := fresh "st" in let z := fresh "z" in let Hn := fresh "Hn" in
         let Hk := fresh "Hnum" in let Hl := fresh "Hl" in let Hp := fresh "Hp" in
         intros t st' z Hn Hk Hl Hp; l_hook; norm_goal) ]
  | |- wp _ _ _ get_line _ _ => apply wp_get_line; norm_goal
  | |- wp _ _ _ get_vars _ _ => apply wp_get_vars; norm_goal
  | |- wp _ _ _ (put_vars _) _ _ => l_quiet quiet_put_vars
  | |- wp _ _ _ (modify_vars _) _ _ => l_quiet quiet_modify_vars
  | |- wp _ _ _ (note_read_output _ _) _ _ => l_quiet quiet_note_read_output
  | |- wp _ _ _ (note_expected_input _ _) _ _ => l_quiet quiet_note_expected_input
  | |- wp _ _ _ (add_virtual _ _ _) _ _ => l_quiet quiet_add_virtual
  | |- wp _ _ _ (if tk_beq (tkind ?t) ?k then _ else _) _ _ =>
      let E := fresh "E" in destruct (tk_beq (tkind t) k) eqn:E; l_hook; norm_goal
  | |- wp _ _ _ (match ?x with _ => _ end) _ _ =>
      lazymatch x with
      | context[tkind ?t] => destruct (tkind t) eqn:?
      | _ => tryif is_var x then destruct x else destruct x eqn:?
      end; l_hook; norm_goal
  | |- wp _ _ _ _ _ _ =>
      eapply wp_conseq; [ find_call side_pre | cbv beta; intros ? ? ?; l_hook; norm_goal ]
  end.

Ltac l_side_pre := first [ eassumption | congruence ].
Ltac l_sweep := repeat (l_step l_side_pre).

(* expressions: the position moves on, the line counter stays *)
Definition epost {A} (n : nat) (st : pstate) (_ : A) (st' : pstate) : Prop :=
  exists n', n <= n' /\ linv n' st' /\ pline st' = pline st.

Ltac e_hook := repeat match goal with H : epost _ _ _ _ |- _ => unfold epost in H end; l_hook.
Ltac e_fin := unfold epost; eexists; (split; [|split; [eassumption|]]); [lia | congruence].

Lemma expr_ln : forall fuel,
  (forall n st, linv n st -> wpl (parse_expr input_len fuel) (epost n st) st) /\
  (forall tree n st, linv n st -> wpl (parse_expr_loop input_len fuel tree) (epost n st) st) /\
  (forall n st, linv n st -> wpl (parse_factor input_len fuel) (epost n st) st) /\
  (forall acc n st t, linv n st -> nth_error all n = Some t -> tkind t <> TEol ->
     wpl (parse_args input_len fuel acc) (epost n st) st).
Proof.
  induction fuel as [|f [IHe [IHl [IHf IHa]]]].
  - repeat split; intros; exact I.
  - split; [|split; [|split]].
    + intros n st Hl. rewrite parse_expr_S. repeat (l_step l_side_pre; e_hook); e_fin.
    + intros tree n st Hl. rewrite parse_expr_loop_S. repeat (l_step l_side_pre; e_hook); e_fin.
    + intros n st Hl. rewrite parse_factor_S. repeat (l_step l_side_pre; e_hook); e_fin.
    + intros acc n st t Hl Hn Hk. rewrite parse_args_S. repeat (l_step l_side_pre; e_hook); e_fin.
Qed.

(* ------------------------------------------------------------------ rows *)

Definition row_head (n : nat) : Prop :=
  exists t, nth_error all n = Some t /\ is_row_start (tkind t) = true.

(* the loop of parse_data_row either sees a row-start token first and consumes it, or
   returns at once what it was given; it never consumes an Eol token *)
Definition rpost (n : nat) (st : pstate) (data : list dentry) (idx : N)
  (r : list dentry * N) (st' : pstate) : Prop :=
  exists n', n <= n' /\ linv n' st' /\ pline st' = pline st /\
             ((n < n' /\ row_head n) \/ r = (data, idx)).

Ltac r_hook := repeat match goal with
                      | H : epost _ _ _ _ |- _ => unfold epost in H
                      | H : rpost _ _ _ _ _ _ |- _ => unfold rpost in H
                      end; l_hook.
Ltac r_fin :=
  unfold rpost; eexists; (split; [|split; [eassumption | split]]);
  [ lia | congruence
  | first [ right; reflexivity
          | left; split; [lia | eexists; split; [eassumption|];
                                match goal with Hk : tkind _ = _ |- _ => rewrite Hk; reflexivity end] ] ].

Lemma row_ln : forall fuel data idx n st, linv n st ->
  wpl (parse_row_loop input_len hdr fuel data idx) (rpost n st data idx) st.
Proof.
  induction fuel as [|f IH]; intros data idx n st Hl; [exact I|].
  pose proof (proj1 (expr_ln f)) as He.
  rewrite parse_row_loop_S. repeat (l_step l_side_pre; r_hook); r_fin.
Qed.

Definition dpost {A} (n : nat) (st : pstate) (_ : A) (st' : pstate) : Prop :=
  exists n', n < n' /\ linv n' st' /\ pline st' = pline st /\ row_head n.

Hypothesis hdr_nonempty : hdr <> [].

Lemma data_row_ln : forall f n st, linv n st ->
  wpl (parse_data_row input_len hdr f) (dpost n st) st.
Proof.
  intros f n st Hl. pose proof (row_ln f) as Hr.
  rewrite parse_data_row_eq. repeat (l_step l_side_pre; r_hook).
  match goal with H : _ \/ _ |- _ => destruct H as [[Hlt Hh]|Heq] end.
  - unfold dpost. eexists. split; [|split; [eassumption | split; [congruence | assumption]]]. lia.
  - exfalso. injection Heq as -> ->.
    match goal with H : negb _ = false |- _ => apply negb_false_iff, N.eqb_eq in H; rename H into Hz end.
    unfold Nlen in Hz. destruct hdr; [congruence | discriminate Hz].
Qed.

(* ------------------------------------------------------------------ recorded lines *)

(* a row whose first token is the token at position n records this line *)
Definition row_at (n : nat) (line : N) : Prop :=
  row_head n /\ line = (line0 + N.of_nat (count_eol (firstn n all)))%N.

(* the lines were recorded at strictly increasing positions in [lo, hi) *)
Inductive lines_in : nat -> nat -> list N -> Prop :=
| li_nil : forall lo hi, lo <= hi -> lines_in lo hi []
| li_cons : forall lo hi n line lines, lo <= n -> row_at n line -> lines_in (S n) hi lines ->
    lines_in lo hi (line :: lines).

Lemma li_le : forall lo hi l, lines_in lo hi l -> lo <= hi.
Proof. induction 1; lia. Qed.

Lemma li_weaken : forall lo hi l, lines_in lo hi l -> forall lo' hi', lo' <= lo -> hi <= hi' ->
  lines_in lo' hi' l.
Proof.
  induction 1 as [lo hi Hle|lo hi n line lines Hn Hr Hl IH]; intros lo' hi' H1 H2.
  - constructor. lia.
  - eapply li_cons; [|exact Hr|apply IH; lia]. lia.
Qed.

Lemma li_app : forall lo mid l1, lines_in lo mid l1 -> forall hi l2, lines_in mid hi l2 ->
  lines_in lo hi (l1 ++ l2).
Proof.
  induction 1 as [lo mid Hle|lo mid n line lines Hn Hr Hl IH]; intros hi l2 H2; cbn [app].
  - eapply li_weaken; [exact H2 | exact Hle | lia].
  - eapply li_cons; [exact Hn | exact Hr | apply IH; exact H2].
Qed.

Lemma li_single : forall n hi line, n < hi -> row_at n line -> lines_in n hi [line].
Proof. intros. eapply li_cons; [apply Nat.le_refl | eassumption | constructor; lia]. Qed.

Lemma li_snoc : forall lo n l m hi st line,
  lines_in lo n l -> n <= m -> m < hi -> linv m st -> row_head m -> line = pline st ->
  lines_in lo hi (l ++ [line]).
Proof.
  intros lo n l m hi st line Hl H1 H2 [_ Hp] Hh ->.
  eapply li_app; [eapply li_weaken; [exact Hl | apply Nat.le_refl | exact H1]|].
  apply li_single; [exact H2|]. split; [exact Hh | exact Hp].
Qed.

Lemma li_nil_refl : forall n, lines_in n n (row_lines []).
Proof. intro n. constructor. lia. Qed.

(* ------------------------------------------------------------------ blocks *)

Definition bpost (lo n : nat) (b : list stmt) (st' : pstate) : Prop :=
  exists n', n <= n' /\ linv n' st' /\ lines_in lo n' (row_lines b).
Definition apost (lo n : nat) (arm : arm_result) (st' : pstate) : Prop :=
  bpost lo n (arm_block arm) st'.

Ltac b_hook := repeat match goal with
                      | H : epost _ _ _ _ |- _ => unfold epost in H
                      | H : dpost _ _ _ _ |- _ => unfold dpost in H
                      | H : bpost _ _ _ _ |- _ => unfold bpost in H
                      | H : apost _ _ _ _ |- _ => unfold apost in H; cbn [arm_block] in H
                      end; l_hook.
Ltac b_side_pre :=
  first [ eassumption | congruence | apply li_nil_refl
        | eapply li_weaken; [eassumption | apply Nat.le_refl | lia] ].

(* the lines of the block that is returned *)
Ltac li_old := eapply li_weaken; [eassumption | apply Nat.le_refl | lia].
Ltac li_row :=
  match goal with
  | Hh : row_head ?m, Hl : linv ?m ?stm |- lines_in _ _ (_ ++ [_]) =>
      eapply (li_snoc _ _ _ m _ stm); [eassumption | lia | lia | exact Hl | exact Hh | congruence]
  end.
Ltac li_solve :=
  rewrite ?row_lines_snoc, ?stmt_lines_loop, ?stmt_lines_while; cbn [stmt_lines row_lines flat_map app];
  rewrite ?app_nil_r;
  first [ li_old
        | li_row
        | eapply li_weaken; [eapply li_app; [|eassumption]; li_old | apply Nat.le_refl | lia] ].
Ltac b_fin :=
  unfold apost, bpost; cbn [arm_block]; eexists; (split; [|split; [eassumption|]]); [lia | li_solve].

Section BLOCK_STEP.
Variable f : nat.
Hypothesis IH : forall end_token block lo n st, linv n st -> lines_in lo n (row_lines block) ->
  wpl (parse_block_loop input_len hdr f end_token block) (bpost lo n) st.

Lemma post_ln : forall end_token arm lo n st, linv n st -> lines_in lo n (row_lines (arm_block arm)) ->
  wpl (block_post input_len hdr f end_token arm) (bpost lo n) st.
Proof.
  intros end_token arm lo n st Hl Hb. unfold block_post. destruct arm as [b|b]; cbn [arm_block] in Hb.
  all: repeat (l_step b_side_pre; b_hook); b_fin.
Qed.

Lemma arm_ln : forall end_token block t lo n st, linv n st -> lines_in lo n (row_lines block) ->
  nth_error all n = Some t ->
  wpl (block_arm input_len hdr f end_token block (tkind t)) (apost lo n) st.
Proof.
  intros end_token block t lo n st Hl Hb Hn.
  pose proof (proj1 (expr_ln f)) as He. pose proof (data_row_ln f) as Hd.
  unfold block_arm. repeat (l_step b_side_pre; b_hook); b_fin.
Qed.
End BLOCK_STEP.

Lemma block_ln : forall fuel end_token block lo n st, linv n st -> lines_in lo n (row_lines block) ->
  wpl (parse_block_loop input_len hdr fuel end_token block) (bpost lo n) st.
Proof.
  induction fuel as [|f IH]; intros end_token block lo n st Hl Hb; [exact I|].
  rewrite parse_block_loop_S.
  apply wp_bind. eapply wpl_peek; [exact Hl|]. intros t Hn. cbv beta.
  apply wp_bind. eapply wp_conseq; [apply (arm_ln f IH); eassumption|].
  intros arm st' [n' [Hle [Hl' Hb']]]. eapply wp_conseq; [apply (post_ln f IH); eassumption|].
  intros b st'' [n'' [Hle' [Hl'' Hb'']]]. exists n''. split; [lia|]. split; assumption.
Qed.

End LINES.

(* ================================================================== the token-level statement *)

Theorem block_lines : forall input_len hdr fuel end_token st stmts st', hdr <> [] ->
  parse_block_loop input_len hdr fuel end_token [] st = Ok (stmts, st') ->
  exists hi, lines_in (toks st) (pline st) 0 hi (row_lines stmts).
Proof.
  intros input_len hdr fuel end_token st stmts st' Hh H.
  assert (Hl : linv (toks st) (pline st) 0 st).
  { split; [reflexivity|]. cbn [firstn]. unfold count_eol. cbn. lia. }
  pose proof (block_ln (toks st) (pline st) input_len hdr Hh fuel end_token [] 0 0 st Hl
                (li_nil_refl _ _ 0)) as Hw.
  unfold wp in Hw. rewrite H in Hw. destruct Hw as [hi [_ [_ Hli]]]. exists hi. exact Hli.
Qed.

(* ================================================================== from tokens to text *)

(* the token at position n of the token list of s is the piece of s that follows the prefix u *)
Definition piece (pos : N) (s : text) (ts : list token) (n : nat) (u : text) : Prop :=
  exists t v, nth_error ts n = Some t /\ s = u ++ ttext t ++ v /\
    lex_one (ttext t ++ v) = Some (Some (tkind t), ttext t, v) /\
    count_eol (firstn n ts) = count_nl u /\
    tspan t = (pos + text_bytes u, pos + text_bytes u + text_bytes (ttext t))%N.

Lemma Lexes_piece : forall pos s ts, Lexes pos s ts ->
  forall n t, nth_error ts n = Some t -> tkind t <> TEof -> exists u, piece pos s ts n u.
Proof.
  intros pos s ts H. induction H as [pos|pos s w r ts E H IH|pos s k w r ts E H IH]; intros n t Hn Hk.
  - destruct n as [|n]; [injection Hn as <-; cbn in Hk; congruence | destruct n; discriminate Hn].
  - destruct (IH _ _ Hn Hk) as [u [t' [v [H1 [H2 [H3 [H4 H5]]]]]]].
    destruct (lex_one_progress _ _ _ _ E) as [-> _].
    exists (w ++ u), t', v. split; [exact H1|]. split; [rewrite H2, <- app_assoc; reflexivity|].
    split; [exact H3|]. split.
    + rewrite count_nl_app, (lex_one_nl _ _ _ _ E). exact H4.
    + rewrite H5, LexerProof.text_bytes_app. f_equal; lia.
  - destruct (lex_one_progress _ _ _ _ E) as [-> _]. destruct n as [|n].
    + injection Hn as <-. exists [], {| tkind := k; tspan := (pos, (pos + text_bytes w)%N); ttext := w |}, r.
      cbn [tkind ttext tspan app firstn text_bytes]. repeat split; try assumption. f_equal; lia.
    + cbn [nth_error] in Hn. destruct (IH _ _ Hn Hk) as [u [t' [v [H1 [H2 [H3 [H4 H5]]]]]]].
      exists (w ++ u), t', v. split; [exact H1|]. split; [rewrite H2, <- app_assoc; reflexivity|].
      split; [exact H3|]. split.
      * cbn [firstn]. rewrite count_nl_app, (lex_one_nl _ _ _ _ E), count_eol_cons. cbn [tkind].
        rewrite H4. destruct k; reflexivity.
      * rewrite H5, LexerProof.text_bytes_app. f_equal; lia.
Qed.

Lemma nth_error_two_split : forall A (l : list A) n1 n2 a b,
  nth_error l n1 = Some a -> nth_error l n2 = Some b -> n1 < n2 ->
  exists pre mid post, l = pre ++ a :: mid ++ b :: post.
Proof.
  intros A l n1 n2 a b H1 H2 Hlt.
  destruct (nth_error_split l n1 H1) as [l1 [l2 [-> Hlen]]].
  rewrite nth_error_app2 in H2 by lia.
  replace (n2 - length l1) with (S (n2 - length l1 - 1)) in H2 by lia. cbn [nth_error] in H2.
  destruct (nth_error_split l2 _ H2) as [mid [post [-> _]]].
  exists l1, mid, post. reflexivity.
Qed.

Definition strict_prefix (u u' : text) : Prop := exists w, w <> [] /\ u' = u ++ w.

Lemma prefix_bytes_lt : forall u1 v1 u2 v2, u1 ++ v1 = u2 ++ v2 ->
  (text_bytes u1 < text_bytes u2)%N -> strict_prefix u1 u2.
Proof.
  induction u1 as [|c u1 IH]; intros v1 u2 v2 H Hlt.
  - exists u2. split; [|reflexivity]. intros ->. cbn in Hlt. lia.
  - destruct u2 as [|c' u2]; [cbn in Hlt; lia|]. cbn [app] in H. injection H as <- H.
    cbn [text_bytes] in Hlt. destruct (IH v1 u2 v2 H) as [w [Hw ->]]; [lia|].
    exists w. split; [exact Hw | reflexivity].
Qed.

Lemma piece_mono : forall pos s ts n1 n2 u1 u2, Lexes pos s ts ->
  piece pos s ts n1 u1 -> piece pos s ts n2 u2 -> n1 < n2 -> strict_prefix u1 u2.
Proof.
  intros pos s ts n1 n2 u1 u2 HL [t1 [v1 [A1 [A2 [A3 [_ A5]]]]]] [t2 [v2 [B1 [B2 [_ [_ B5]]]]]] Hlt.
  destruct (nth_error_two_split _ _ _ _ _ _ A1 B1 Hlt) as [pre [mid [post Hts]]].
  pose proof (Lexes_ordered _ _ _ HL _ _ _ _ _ Hts) as Hord. rewrite A5, B5 in Hord. cbn [fst snd] in Hord.
  pose proof (text_bytes_pos _ (proj2 (lex_one_progress _ _ _ _ A3))) as Hpos.
  eapply prefix_bytes_lt; [rewrite <- A2; exact B2 | lia].
Qed.

Definition row_starts_here (v : text) : Prop :=
  exists k w r, lex_one v = Some (Some k, w, r) /\ is_row_start k = true.

(* what a recorded line says about the text the tokens came from *)
Definition line_of_text (s : text) (line0 : N) (line : N) (u : text) : Prop :=
  exists v, s = u ++ v /\ line = (line0 + N.of_nat (count_nl u))%N /\ row_starts_here v.

Lemma lines_in_text : forall pos s ts line0, Lexes pos s ts ->
  forall lo hi lines, lines_in ts line0 lo hi lines ->
  exists us, Forall2 (line_of_text s line0) lines us /\ StronglySorted strict_prefix us /\
             Forall (fun u => forall m um, m < lo -> piece pos s ts m um -> strict_prefix um u) us.
Proof.
  intros pos s ts line0 HL lo hi lines H.
  induction H as [lo hi Hle|lo hi n line lines Hn [[t [Ht Hrs]] Hline] Hl [us [IH1 [IH2 IH3]]]].
  - exists []. repeat constructor.
  - destruct (Lexes_piece _ _ _ HL n t Ht) as [u Hp]; [intro E; rewrite E in Hrs; discriminate Hrs|].
    exists (u :: us). split; [|split].
    + constructor; [|exact IH1]. destruct Hp as [t' [v [P1 [P2 [P3 [P4 _]]]]]].
      rewrite Ht in P1. injection P1 as <-.
      exists (ttext t ++ v). split; [exact P2|]. split; [rewrite Hline, P4; reflexivity|].
      exists (tkind t), (ttext t), v. split; [exact P3 | exact Hrs].
    + constructor; [exact IH2|]. eapply Forall_impl; [|exact IH3].
      intros u' Hu'. cbv beta in Hu'. apply (Hu' n u); [lia | exact Hp].
    + constructor.
      * intros m um Hm Hpm. eapply piece_mono; [exact HL | exact Hpm | exact Hp | lia].
      * eapply Forall_impl; [|exact IH3]. intros u' Hu' m um Hm Hpm. apply (Hu' m um); [lia | exact Hpm].
Qed.

(* ================================================================== C19 *)

Lemma parse_header_names_nonempty : forall fuel pos line names spans s h,
  parse_header_loop fuel pos line names spans s = Ok h -> h_names h <> [].
Proof.
  induction fuel as [|f IH]; intros pos line names spans s h H; [discriminate H|].
  rewrite parse_header_loop_S in H. destruct (hlex_one s) as [[[k w] r]|]; [|discriminate H].
  cbv zeta in H. destruct k as [[|]|].
  - destruct (position (name_eqb w) names); [discriminate H | eapply IH; exact H].
  - destruct names as [|n0 names]; [eapply IH; exact H|]. injection H as <-. discriminate.
  - eapply IH; exact H.
Qed.

Lemma strict_prefix_app : forall a u u', strict_prefix u u' -> strict_prefix (a ++ u) (a ++ u').
Proof. intros a u u' [w [Hw ->]]. exists w. split; [exact Hw | apply app_assoc]. Qed.

(* Each data row of a parsed test, at any nesting depth, records 1 + the number of newline
   characters in front of its first token; the rows come in source order. *)
Theorem C19_row_line_ordered : forall s p, parse s = Ok p ->
  exists us : list text,
    Forall2 (fun line u => exists v, s = u ++ v /\ line = N.of_nat (1 + count_nl u) /\ row_starts_here v)
            (row_lines (p_stmts p)) us /\
    StronglySorted strict_prefix us.
Proof.
  intros s p H. unfold parse in H.
  destruct (parse_header s) as [h| | |] eqn:Eh; try discriminate.
  destruct (lex_body (h_pos h) (h_rest h)) as [ts|] eqn:El; [|discriminate].
  match type of H with context[parse_block_loop ?a ?b ?c ?d ?e ?st] =>
    destruct (parse_block_loop a b c d e st) as [[stmts st']| | |] eqn:Eb end; try discriminate.
  injection H as <-. cbn [p_stmts].
  apply block_lines in Eb; [|eapply parse_header_names_nonempty; exact Eh].
  cbn [toks pline] in Eb. destruct Eb as [hi Hli].
  destruct (lines_in_text _ _ _ _ (lex_body_Lexes _ _ _ El) _ _ _ Hli) as [us [H1 [H2 _]]].
  destruct (header_lines _ _ Eh) as [uh [Hs [_ Hline]]].
  exists (map (app uh) us). split.
  - clear H2 Hli. induction H1 as [|line u lines us [v [Hv [Hl Hr]]] _ IH]; cbn [map]; [constructor|].
    constructor; [|exact IH]. exists v. split; [rewrite Hs, Hv, app_assoc; reflexivity|]. split; [|exact Hr].
    rewrite Hl, Hline, count_nl_app. lia.
  - clear H1. induction H2 as [|u us Hss IH Hall]; cbn [map]; [constructor|].
    constructor; [exact IH|]. apply Forall_map. eapply Forall_impl; [|exact Hall]. intros u'. apply strict_prefix_app.
Qed.

Theorem C19_row_line : forall s p, parse s = Ok p ->
  Forall (fun line => exists u v, s = u ++ v /\ line = N.of_nat (1 + count_nl u) /\ row_starts_here v)
         (row_lines (p_stmts p)).
Proof.
  intros s p H. destruct (C19_row_line_ordered s p H) as [us [H1 _]].
  induction H1 as [|line u lines us [v Hv] _ IH]; [constructor|].
  constructor; [|exact IH]. exists u, v. exact Hv.
Qed.

Print Assumptions block_lines.
Print Assumptions C19_row_line_ordered.
Print Assumptions C19_row_line.
