(* Properties of the statement lexer (Lexer.lex_one / lex_body) and of the header
   lexer as used by Parser.parse_header:
   (a) progress, totality, fuel monotonicity;
   (b) shape of the token list: non-Eof tokens then exactly one Eof; no empty token;
       Error tokens are single characters;
   (c) spans are offsets of character boundaries of the text, in order;
   (d) C19: the Eol tokens are exactly the newline characters, so "number of Eol
       tokens before a token" = "number of newlines before it in the text"; the same
       for the line counter the header parser hands over;
   (e) C20: the token sequence (kinds and lexemes, spans aside) does not depend on
       the amount of blank space where there is some, on blank space next to a line
       end or at the start/end of the text, or on comments. *)
From DTR Require Import Prelude Ast Lexer Parser.
Open Scope N_scope.

Local Arguments N.add : simpl never.
Local Arguments N.ltb : simpl never.
Local Arguments N.leb : simpl never.
Local Arguments N.eqb : simpl never.

(* ------------------------------------------------------------------ span_while *)

Definition starts (p : N -> bool) (s : text) : bool :=
  match s with c :: _ => p c | [] => false end.

Lemma sw_eq : forall p s a b, span_while p s = (a, b) -> s = a ++ b.
Proof.
  intros p s. induction s as [|c s IH]; intros a b H.
  - injection H as <- <-. reflexivity.
  - cbn [span_while] in H. destruct (p c).
    + destruct (span_while p s) as [a' b'] eqn:E. injection H as <- <-.
      cbn [app]. f_equal. apply IH. reflexivity.
    + injection H as <- <-. reflexivity.
Qed.

Lemma sw_all : forall p s a b, span_while p s = (a, b) -> Forall (fun x => p x = true) a.
Proof.
  intros p s. induction s as [|c s IH]; intros a b H.
  - injection H as <- <-. constructor.
  - cbn [span_while] in H. destruct (p c) eqn:Hc.
    + destruct (span_while p s) as [a' b'] eqn:E. injection H as <- <-.
      constructor; [exact Hc|]. eapply IH. reflexivity.
    + injection H as <- <-. constructor.
Qed.

Lemma sw_rest : forall p s a b, span_while p s = (a, b) -> starts p b = false.
Proof.
  intros p s. induction s as [|c s IH]; intros a b H.
  - injection H as <- <-. reflexivity.
  - cbn [span_while] in H. destruct (p c) eqn:Hc.
    + destruct (span_while p s) as [a' b'] eqn:E. injection H as <- <-. eapply IH. reflexivity.
    + injection H as <- <-. exact Hc.
Qed.

(* the longest prefix is determined: all of a satisfies p, b does not start with one *)
Lemma sw_app : forall p a b, Forall (fun x => p x = true) a -> starts p b = false ->
  span_while p (a ++ b) = (a, b).
Proof.
  intros p a b Ha Hb. induction Ha as [|c a Hc Ha IH].
  - cbn [app]. destruct b as [|d b]; [reflexivity|]. cbn [starts] in Hb.
    cbn [span_while]. rewrite Hb. reflexivity.
  - cbn [app span_while]. rewrite Hc, IH. reflexivity.
Qed.

(* span_while over a concatenation, no side condition *)
Lemma sw_app_gen : forall p u t,
  span_while p (u ++ t) =
    match span_while p u with
    | (a, []) => let (a', b') := span_while p t in (a ++ a', b')
    | (a, b) => (a, b ++ t)
    end.
Proof.
  intros p u t. induction u as [|c u IH].
  - cbn [app span_while]. destruct (span_while p t); reflexivity.
  - cbn [app span_while]. destruct (p c) eqn:Hc; [|reflexivity].
    rewrite IH. destruct (span_while p u) as [a [|d b]].
    + destruct (span_while p t); reflexivity.
    + reflexivity.
Qed.

(* if the continuation does not start with a character of the class, the result is
   that of the prefix alone *)
Lemma sw_app_stop : forall p u t, starts p t = false ->
  span_while p (u ++ t) = let (a, b) := span_while p u in (a, b ++ t).
Proof.
  intros p u t Ht. rewrite sw_app_gen. destruct (span_while p u) as [a [|d b]]; [|reflexivity].
  destruct t as [|d t]; [cbn [span_while]; rewrite !app_nil_r; reflexivity|].
  cbn [starts] in Ht. cbn [span_while]. rewrite Ht, app_nil_r. reflexivity.
Qed.

(* a prefix wholly in the class is absorbed *)
Lemma sw_app_all : forall p w v, Forall (fun x => p x = true) w ->
  span_while p (w ++ v) = let (a, b) := span_while p v in (w ++ a, b).
Proof.
  intros p w v Hw. induction Hw as [|c w Hc Hw IH].
  - cbn [app]. destruct (span_while p v); reflexivity.
  - cbn [app span_while]. rewrite Hc, IH. destruct (span_while p v); reflexivity.
Qed.

Lemma sw_length : forall p s a b, span_while p s = (a, b) -> (length b <= length s)%nat.
Proof.
  intros p s a b H. apply sw_eq in H. subst s. rewrite app_length. lia.
Qed.

(* ------------------------------------------------------------------ bytes, newlines *)

Lemma utf8_len_pos : forall c, 1 <= utf8_len c.
Proof. intro c. unfold utf8_len. repeat destruct (_ <? _); lia. Qed.

Lemma text_bytes_app : forall a b, text_bytes (a ++ b) = text_bytes a + text_bytes b.
Proof. induction a as [|c a IH]; intro b; cbn [app text_bytes]; [lia|]. rewrite IH. lia. Qed.

Lemma text_bytes_pos : forall w, w <> [] -> 1 <= text_bytes w.
Proof.
  intros [|c w] H; [congruence|]. cbn [text_bytes]. pose proof (utf8_len_pos c). lia.
Qed.

Definition count_nl (s : text) : nat := length (filter (fun c => N.eqb c 10) s).
Definition count_eol (ts : list token) : nat :=
  length (filter (fun t => tk_beq (tkind t) TEol) ts).

Lemma count_nl_app : forall a b, count_nl (a ++ b) = (count_nl a + count_nl b)%nat.
Proof. intros a b. unfold count_nl. rewrite filter_app, app_length. reflexivity. Qed.

Lemma count_eol_app : forall a b, count_eol (a ++ b) = (count_eol a + count_eol b)%nat.
Proof. intros a b. unfold count_eol. rewrite filter_app, app_length. reflexivity. Qed.

Definition no_nl (w : text) : Prop := Forall (fun x => is_nl x = false) w.

Lemma count_nl_no_nl : forall w, no_nl w -> count_nl w = O.
Proof.
  intros w H. induction H as [|c w Hc H IH]; [reflexivity|].
  unfold count_nl in *. cbn [filter]. unfold is_nl in Hc. rewrite Hc. exact IH.
Qed.

Lemma no_nl_class : forall (p : N -> bool) w, p 10 = false ->
  Forall (fun x => p x = true) w -> no_nl w.
Proof.
  intros p w H10 Hw. unfold no_nl. eapply Forall_impl; [|exact Hw].
  intros x Hx. cbn beta in Hx. unfold is_nl. destruct (N.eqb_spec x 10) as [->|]; [congruence|reflexivity].
Qed.

(* ------------------------------------------------------------------ one step of the scanner *)

Lemma is_ws_cases : forall c, is_ws c = true -> c = 32 \/ c = 9 \/ c = 13 \/ c = 12.
Proof.
  intros c H. unfold is_ws in H.
  destruct (N.eqb_spec c 32); [auto|]. destruct (N.eqb_spec c 9); [auto|].
  destruct (N.eqb_spec c 13); [auto|]. destruct (N.eqb_spec c 12); [auto|]. discriminate H.
Qed.

Lemma is_nl_eq : forall c, is_nl c = true -> c = 10.
Proof. intros c H. apply N.eqb_eq. exact H. Qed.

Lemma is_ws_not_nl : forall c, is_ws c = true -> is_nl c = false.
Proof. intros c H. destruct (is_ws_cases c H) as [->|[->|[-> | ->]]]; reflexivity. Qed.

(* kinds of words *)
Definition word_kind (k : tk) : bool :=
  match k with
  | TEnd | TLoop | TRepeat | TBits | TLet | TResetRandom | TWhile | TDeclare
  | TProgram | TInit | TMemory | TDef | TCall | TIdent => true
  | _ => false
  end.

Lemma keyword_or_ident_kind : forall w, word_kind (keyword_or_ident w) = true.
Proof.
  intro w. unfold keyword_or_ident.
  destruct (find (fun kw => name_eqb (fst kw) w) keywords) as [[n k]|] eqn:E; [|reflexivity].
  apply find_some in E. destruct E as [Hin _]. unfold keywords in Hin.
  repeat (destruct Hin as [Hin|Hin]; [injection Hin as _ <-; reflexivity|]).
  destruct Hin.
Qed.

Lemma ident_kind_kind : forall w rest, word_kind (ident_kind w rest) = true.
Proof.
  intros w [|d rest]; unfold ident_kind; [apply keyword_or_ident_kind|].
  destruct ((128 <=? d) && is_nd_lead (utf8_lead d)); [reflexivity|apply keyword_or_ident_kind].
Qed.

Definition punct_kind (k : tk) : bool :=
  match k with
  | TComma | TSemi | TPlus | TMinus | TTimes | TDivide | TReminder | TLogicalNot | TBinaryNot
  | TXor | TAnd | TOr | TShiftLeft | TShiftRight | TEqual | TNotEqual | TLessThanOrEqual
  | TGreaterThanOrEqual | TLessThan | TGreaterThan | TLParen | TRParen => true
  | _ => false
  end.

Lemma punct1_kind : forall c k, punct1 c = Some k -> punct_kind k = true.
Proof.
  intros c k H. unfold punct1 in H.
  repeat (destruct (_ =? _); [injection H as <-; reflexivity|]). discriminate H.
Qed.

Lemma punct2_inv : forall c d k, punct2 c d = Some k ->
  punct_kind k = true /\ (d = 60 \/ d = 61 \/ d = 62).
Proof.
  intros c d k H. unfold punct2 in H.
  destruct (N.eqb_spec d 60) as [->|]; [|destruct (N.eqb_spec d 61) as [->|];
    [|destruct (N.eqb_spec d 62) as [->|]]].
  - split; [|auto]. repeat (destruct (_ && _); [injection H as <-; reflexivity|]). discriminate H.
  - split; [|auto]. repeat (destruct (_ && _); [injection H as <-; reflexivity|]). discriminate H.
  - split; [|auto]. repeat (destruct (_ && _); [injection H as <-; reflexivity|]). discriminate H.
  - rewrite !andb_false_r in H. discriminate H.
Qed.

(* what one step can produce from the text c :: r *)
Definition one_ok (c : N) (r : text) (k : option tk) (w r' : text) : Prop :=
  exists w', w = c :: w' /\ r = w' ++ r' /\
    ((k = Some TEol /\ c = 10 /\ w' = []) \/
     (k <> Some TEol /\ k <> Some TEof /\ no_nl (c :: w') /\ (k = Some TError -> w' = []))).

Lemma one_ok_span : forall (p : N -> bool) c r a b k,
  span_while p r = (a, b) -> p 10 = false -> is_nl c = false ->
  k <> Some TEol -> k <> Some TEof -> k <> Some TError ->
  one_ok c r k (c :: a) b.
Proof.
  intros p c r a b k E H10 Hc K1 K2 K3. exists a. split; [reflexivity|].
  split; [exact (sw_eq _ _ _ _ E)|]. right. repeat split; try assumption.
  - constructor; [exact Hc|]. eapply no_nl_class; [exact H10|]. eapply sw_all. exact E.
  - intro K. congruence.
Qed.

Lemma one_ok_single : forall c r k, is_nl c = false -> k <> Some TEol -> k <> Some TEof ->
  one_ok c r k [c] r.
Proof.
  intros c r k Hc K1 K2. exists []. split; [reflexivity|]. split; [reflexivity|]. right.
  repeat split; try assumption. constructor; [exact Hc|constructor].
Qed.

Lemma punct_kind_ok : forall k, punct_kind k = true ->
  Some k <> Some TEol /\ Some k <> Some TEof /\ Some k <> Some TError.
Proof. intros k H. repeat split; intro E; injection E as ->; discriminate H. Qed.

Lemma word_kind_ok : forall k, word_kind k = true ->
  Some k <> Some TEol /\ Some k <> Some TEof /\ Some k <> Some TError.
Proof. intros k H. repeat split; intro E; injection E as ->; discriminate H. Qed.

Lemma lex_one_punct_ok : forall c r k w r', is_nl c = false ->
  match punct1 c with Some k => Some (Some k, [c], r) | None => Some (Some TError, [c], r) end
    = Some (k, w, r') -> one_ok c r k w r'.
Proof.
  intros c r k w r' Hc H. destruct (punct1 c) as [k1|] eqn:P1; injection H as <- <- <-.
  - destruct (punct_kind_ok _ (punct1_kind _ _ P1)) as [K1 [K2 _]].
    apply one_ok_single; assumption.
  - apply one_ok_single; [exact Hc|discriminate|discriminate].
Qed.

Lemma lex_one_inv : forall c r k w r', lex_one (c :: r) = Some (k, w, r') -> one_ok c r k w r'.
Proof.
  intros c r k w r' H. unfold lex_one in H.
  destruct (is_ws c) eqn:Hws.
  { destruct (span_while is_ws r) as [a b] eqn:E. injection H as <- <- <-.
    eapply one_ok_span; [exact E|reflexivity|apply is_ws_not_nl; exact Hws|discriminate..]. }
  destruct (N.eqb_spec c 35) as [->|Hh].
  { destruct (span_while (fun x => negb (is_nl x)) r) as [a b] eqn:E. injection H as <- <- <-.
    eapply one_ok_span; [exact E|reflexivity|reflexivity|discriminate..]. }
  destruct (is_nl c) eqn:Hnl.
  { injection H as <- <- <-. exists []. split; [reflexivity|]. split; [reflexivity|]. left.
    split; [reflexivity|]. split; [apply is_nl_eq; exact Hnl|reflexivity]. }
  destruct (is_ident_start c) eqn:Hid.
  { destruct (span_while is_ident_cont r) as [a b] eqn:E. injection H as <- <- <-.
    destruct (word_kind_ok _ (ident_kind_kind (c :: a) b)) as [K1 [K2 K3]].
    eapply one_ok_span; [exact E|vm_compute; reflexivity|exact Hnl|assumption..]. }
  destruct (is_dec_start c) eqn:Hds.
  { destruct (span_while is_dec_digit r) as [a b] eqn:E. injection H as <- <- <-.
    eapply one_ok_span; [exact E|reflexivity|exact Hnl|discriminate..]. }
  destruct (N.eqb_spec c 48) as [->|H0].
  { assert (Hoct : (let (w0, r0) := span_while is_oct_digit r in Some (Some TOctInt, 48 :: w0, r0))
                    = Some (k, w, r') -> one_ok 48 r k w r').
    { intro Ho. destruct (span_while is_oct_digit r) as [a b] eqn:E. injection Ho as <- <- <-.
      eapply one_ok_span; [exact E|reflexivity|reflexivity|discriminate..]. }
    cbv zeta in H. destruct r as [|x r1]; [exact (Hoct H)|].
    destruct ((x =? 120) || (x =? 88)) eqn:Hx.
    { destruct (span_while is_hex_digit r1) as [h r2] eqn:E. destruct h as [|h0 h]; [exact (Hoct H)|].
      injection H as <- <- <-. exists (x :: h0 :: h). split; [reflexivity|].
      split; [cbn [app]; f_equal; exact (sw_eq _ _ _ _ E)|]. right.
      repeat split; try discriminate.
      constructor; [reflexivity|]. constructor.
      - apply orb_true_iff in Hx. destruct Hx as [Hx|Hx]; apply N.eqb_eq in Hx; subst x; reflexivity.
      - eapply (no_nl_class is_hex_digit); [reflexivity|]. eapply sw_all. exact E. }
    destruct ((x =? 98) || (x =? 66)) eqn:Hb.
    { destruct (span_while is_bin_digit r1) as [h r2] eqn:E. destruct h as [|h0 h]; [exact (Hoct H)|].
      injection H as <- <- <-. exists (x :: h0 :: h). split; [reflexivity|].
      split; [cbn [app]; f_equal; exact (sw_eq _ _ _ _ E)|]. right.
      repeat split; try discriminate.
      constructor; [reflexivity|]. constructor.
      - apply orb_true_iff in Hb. destruct Hb as [Hb|Hb]; apply N.eqb_eq in Hb; subst x; reflexivity.
      - eapply (no_nl_class is_bin_digit); [reflexivity|]. eapply sw_all. exact E. }
    exact (Hoct H). }
  destruct r as [|d r1]; [apply lex_one_punct_ok; assumption|].
  destruct (punct2 c d) as [k2|] eqn:P2; [|apply lex_one_punct_ok; assumption].
  injection H as <- <- <-. destruct (punct2_inv _ _ _ P2) as [Hk Hd].
  destruct (punct_kind_ok _ Hk) as [K1 [K2 K3]].
  exists [d]. split; [reflexivity|]. split; [reflexivity|]. right.
  repeat split; try assumption.
  - constructor; [exact Hnl|]. constructor; [|constructor].
    destruct Hd as [->|[-> | ->]]; reflexivity.
  - intro K. congruence.
Qed.

Lemma lex_one_nil : forall s, lex_one s = None <-> s = [].
Proof.
  intro s. split; [|intros ->; reflexivity].
  destruct s as [|c r]; [reflexivity|]. intro H. exfalso.
  unfold lex_one in H.
  repeat match type of H with
  | (let (_, _) := span_while ?p ?r in _) = _ => destruct (span_while p r)
  | (if ?b then _ else _) = _ => destruct b
  | match ?x with _ => _ end = _ => destruct x
  end; discriminate H.
Qed.

Lemma lex_one_progress : forall s k w r, lex_one s = Some (k, w, r) -> s = w ++ r /\ w <> [].
Proof.
  intros [|c s] k w r H; [discriminate H|].
  destruct (lex_one_inv _ _ _ _ _ H) as [w' [-> [-> _]]]. split; [reflexivity|discriminate].
Qed.

(* newlines and kinds of one step *)
Lemma lex_one_nl : forall s k w r, lex_one s = Some (k, w, r) ->
  count_nl w = (match k with Some TEol => 1 | _ => 0 end)%nat.
Proof.
  intros [|c s] k w r H; [discriminate H|].
  destruct (lex_one_inv _ _ _ _ _ H) as [w' [-> [_ [[-> [-> ->]]|[K1 [_ [Hn _]]]]]]]; [reflexivity|].
  rewrite (count_nl_no_nl _ Hn). destruct k as [[]|]; try reflexivity. congruence.
Qed.

Lemma lex_one_not_eof : forall s w r, lex_one s <> Some (Some TEof, w, r).
Proof.
  intros [|c s] w r H; [discriminate H|].
  destruct (lex_one_inv _ _ _ _ _ H) as [w' [_ [_ [[K _]|[_ [K _]]]]]]; congruence.
Qed.

Lemma lex_one_error : forall s w r, lex_one s = Some (Some TError, w, r) -> length w = 1%nat.
Proof.
  intros [|c s] w r H; [discriminate H|].
  destruct (lex_one_inv _ _ _ _ _ H) as [w' [-> [_ [[K _]|[_ [_ [_ K]]]]]]]; [discriminate K|].
  rewrite (K eq_refl). reflexivity.
Qed.

Lemma lex_one_eol : forall s w r, lex_one s = Some (Some TEol, w, r) -> w = [10].
Proof.
  intros [|c s] w r H; [discriminate H|].
  destruct (lex_one_inv _ _ _ _ _ H) as [w' [-> [_ [[_ [-> ->]]|[K _]]]]]; [reflexivity|congruence].
Qed.

(* ------------------------------------------------------------------ (a) totality *)

Lemma lex_body_from_S : forall f pos s,
  lex_body_from (S f) pos s =
    match lex_one s with
    | None => Some [ {| tkind := TEof; tspan := (pos, pos); ttext := [] |} ]
    | Some (k, w, r) =>
      match lex_body_from f (pos + text_bytes w) r with
      | None => None
      | Some ts =>
        match k with
        | None => Some ts
        | Some kind => Some ({| tkind := kind; tspan := (pos, pos + text_bytes w); ttext := w |} :: ts)
        end
      end
    end.
Proof. reflexivity. Qed.

Lemma lex_body_from_total : forall f s pos, (length s < f)%nat ->
  exists ts, lex_body_from f pos s = Some ts.
Proof.
  induction f as [|f IH]; intros s pos Hlen; [lia|].
  rewrite lex_body_from_S. destruct (lex_one s) as [[[k w] r]|] eqn:E; [|eexists; reflexivity].
  destruct (lex_one_progress _ _ _ _ E) as [-> Hw].
  destruct (IH r (pos + text_bytes w)) as [ts Hts].
  { rewrite app_length in Hlen. destruct w; [congruence|]. cbn [length] in Hlen. lia. }
  rewrite Hts. destruct k; eexists; reflexivity.
Qed.

Theorem lex_body_total : forall pos s, exists ts, lex_body pos s = Some ts.
Proof. intros pos s. apply lex_body_from_total. lia. Qed.

Theorem lex_body_mono : forall f f' pos s ts,
  lex_body_from f pos s = Some ts -> (f <= f')%nat -> lex_body_from f' pos s = Some ts.
Proof.
  induction f as [|f IH]; intros f' pos s ts H Hle; [discriminate H|].
  destruct f' as [|f']; [lia|]. rewrite lex_body_from_S in *.
  destruct (lex_one s) as [[[k w] r]|]; [|exact H].
  destruct (lex_body_from f (pos + text_bytes w) r) as [ts'|] eqn:E; [|discriminate H].
  rewrite (IH f' _ _ _ E) by lia. exact H.
Qed.

(* the fuel-free description of what lex_body computes *)
Inductive Lexes : N -> text -> list token -> Prop :=
| Lexes_eof : forall pos, Lexes pos [] [ {| tkind := TEof; tspan := (pos, pos); ttext := [] |} ]
| Lexes_skip : forall pos s w r ts,
    lex_one s = Some (None, w, r) -> Lexes (pos + text_bytes w) r ts -> Lexes pos s ts
| Lexes_tok : forall pos s k w r ts,
    lex_one s = Some (Some k, w, r) -> Lexes (pos + text_bytes w) r ts ->
    Lexes pos s ({| tkind := k; tspan := (pos, pos + text_bytes w); ttext := w |} :: ts).

Lemma lex_body_from_Lexes : forall f pos s ts, lex_body_from f pos s = Some ts -> Lexes pos s ts.
Proof.
  induction f as [|f IH]; intros pos s ts H; [discriminate H|].
  rewrite lex_body_from_S in H. destruct (lex_one s) as [[[k w] r]|] eqn:E.
  - destruct (lex_body_from f (pos + text_bytes w) r) as [ts'|] eqn:E'; [|discriminate H].
    apply IH in E'. destruct k as [k|]; injection H as <-.
    + eapply Lexes_tok; eassumption.
    + eapply Lexes_skip; eassumption.
  - apply lex_one_nil in E. subst s. injection H as <-. constructor.
Qed.

Lemma lex_body_Lexes : forall pos s ts, lex_body pos s = Some ts -> Lexes pos s ts.
Proof. intros pos s ts. apply lex_body_from_Lexes. Qed.

(* ------------------------------------------------------------------ (b) shape *)

Definition tokens_ok (ts : list token) : Prop :=
  exists pre eof, ts = pre ++ [eof] /\ tkind eof = TEof /\ Forall (fun t => tkind t <> TEof) pre.

(* with the facts about the single tokens: the Eof token is empty, no other token is;
   an Error token is one character; an Eol token is the newline character.  (The kinds
   WS and Comment of the Rust lexer do not exist in tk: skipped pieces yield no token.) *)
Definition tokens_shape (ts : list token) : Prop :=
  exists pre eof, ts = pre ++ [eof] /\ tkind eof = TEof /\ ttext eof = [] /\
    Forall (fun t => tkind t <> TEof /\ ttext t <> [] /\
                     (tkind t = TError -> length (ttext t) = 1%nat) /\
                     (tkind t = TEol -> ttext t = [10])) pre.

Lemma tokens_shape_ok : forall ts, tokens_shape ts -> tokens_ok ts.
Proof.
  intros ts [pre [eof [H1 [H2 [_ H3]]]]]. exists pre, eof. split; [exact H1|]. split; [exact H2|].
  eapply Forall_impl; [|exact H3]. intros t Ht. exact (proj1 Ht).
Qed.

Lemma Lexes_tokens_shape : forall pos s ts, Lexes pos s ts -> tokens_shape ts.
Proof.
  intros pos s ts H. induction H as [pos|pos s w r ts E H IH|pos s k w r ts E H IH].
  - exists [], {| tkind := TEof; tspan := (pos, pos); ttext := [] |}.
    repeat split. constructor.
  - exact IH.
  - destruct IH as [pre [eof [-> [Hk [Ht Hpre]]]]].
    exists ({| tkind := k; tspan := (pos, pos + text_bytes w); ttext := w |} :: pre), eof.
    split; [reflexivity|]. split; [exact Hk|]. split; [exact Ht|].
    constructor; [|exact Hpre]. cbn [tkind ttext]. repeat split.
    + intros ->. exact (lex_one_not_eof _ _ _ E).
    + exact (proj2 (lex_one_progress _ _ _ _ E)).
    + intros ->. exact (lex_one_error _ _ _ E).
    + intros ->. exact (lex_one_eol _ _ _ E).
Qed.

Theorem lex_body_tokens_shape : forall pos s ts, lex_body pos s = Some ts -> tokens_shape ts.
Proof. intros pos s ts H. eapply Lexes_tokens_shape. apply lex_body_Lexes. exact H. Qed.

Theorem lex_body_tokens_ok : forall pos s ts, lex_body pos s = Some ts -> tokens_ok ts.
Proof. intros pos s ts H. apply tokens_shape_ok. eapply lex_body_tokens_shape. exact H. Qed.

(* ------------------------------------------------------------------ (c) spans, (d) line ends *)

Lemma count_eol_cons : forall t ts,
  count_eol (t :: ts) = ((match tkind t with TEol => 1 | _ => 0 end) + count_eol ts)%nat.
Proof. intros t ts. unfold count_eol. cbn [filter]. destruct (tkind t); reflexivity. Qed.

(* each token is a piece of the text; its span gives the byte offsets of the piece;
   the Eol tokens before it are the newlines before it *)
Lemma Lexes_pieces : forall pos s ts, Lexes pos s ts ->
  forall pre t post, ts = pre ++ t :: post ->
    exists u v, s = u ++ ttext t ++ v /\
      tspan t = (pos + text_bytes u, pos + text_bytes u + text_bytes (ttext t)) /\
      count_eol pre = count_nl u /\
      (tkind t = TEof -> v = []).
Proof.
  intros pos s ts H. induction H as [pos|pos s w r ts E H IH|pos s k w r ts E H IH];
    intros pre t post Hts.
  - destruct pre as [|t0 pre].
    + injection Hts as <- _. exists [], []. cbn [ttext tspan text_bytes app].
      repeat split. f_equal; lia.
    + destruct pre; discriminate Hts.
  - destruct (IH _ _ _ Hts) as [u [v [Hs [Hsp [Hn Hv]]]]].
    destruct (lex_one_progress _ _ _ _ E) as [-> _].
    exists (w ++ u), v. split; [rewrite Hs, <- app_assoc; reflexivity|].
    split; [rewrite Hsp, text_bytes_app; f_equal; lia|]. split; [|exact Hv].
    rewrite count_nl_app, (lex_one_nl _ _ _ _ E). exact Hn.
  - destruct (lex_one_progress _ _ _ _ E) as [-> _].
    destruct pre as [|t0 pre].
    + injection Hts as <- _. exists [], r. cbn [ttext tspan tkind text_bytes app].
      repeat split; [f_equal; lia|]. intros ->. exfalso. exact (lex_one_not_eof _ _ _ E).
    + injection Hts as <- Hts. destruct (IH _ _ _ Hts) as [u [v [Hs [Hsp [Hn Hv]]]]].
      exists (w ++ u), v. split; [rewrite Hs, <- app_assoc; reflexivity|].
      split; [rewrite Hsp, text_bytes_app; f_equal; lia|]. split; [|exact Hv].
      rewrite count_nl_app, (lex_one_nl _ _ _ _ E), count_eol_cons. cbn [tkind].
      rewrite Hn. destruct k; reflexivity.
Qed.

Theorem lex_body_spans : forall pos s ts, lex_body pos s = Some ts ->
  forall pre t post, ts = pre ++ t :: post ->
    exists u v, s = u ++ ttext t ++ v /\
      tspan t = (pos + text_bytes u, pos + text_bytes u + text_bytes (ttext t)) /\
      (tkind t = TEof -> v = []).
Proof.
  intros pos s ts H pre t post Hts.
  destruct (Lexes_pieces _ _ _ (lex_body_Lexes _ _ _ H) _ _ _ Hts) as [u [v [H1 [H2 [_ H3]]]]].
  exists u, v. auto.
Qed.

Corollary lex_body_span_bounds : forall pos s ts t, lex_body pos s = Some ts -> In t ts ->
  pos <= fst (tspan t) /\ fst (tspan t) <= snd (tspan t) /\ snd (tspan t) <= pos + text_bytes s.
Proof.
  intros pos s ts t H Hin. apply in_split in Hin. destruct Hin as [pre [post Hts]].
  destruct (lex_body_spans _ _ _ H _ _ _ Hts) as [u [v [-> [-> _]]]].
  cbn [fst snd]. rewrite !text_bytes_app. lia.
Qed.

(* the pieces come in text order *)
Lemma Lexes_ordered : forall pos s ts, Lexes pos s ts ->
  forall pre t1 mid t2 post, ts = pre ++ t1 :: mid ++ t2 :: post ->
    snd (tspan t1) <= fst (tspan t2).
Proof.
  intros pos s ts H. induction H as [pos|pos s w r ts E H IH|pos s k w r ts E H IH];
    intros pre t1 mid t2 post Hts.
  - destruct pre as [|? pre]; [destruct mid; discriminate Hts|destruct pre; discriminate Hts].
  - eapply IH. exact Hts.
  - destruct pre as [|t0 pre].
    + injection Hts as <- Hts. cbn [tspan snd].
      destruct (Lexes_pieces _ _ _ H _ _ _ Hts) as [u [v [_ [-> _]]]]. cbn [fst]. lia.
    + injection Hts as _ Hts. eapply IH. exact Hts.
Qed.

Corollary lex_body_spans_ordered : forall pos s ts, lex_body pos s = Some ts ->
  forall pre t1 mid t2 post, ts = pre ++ t1 :: mid ++ t2 :: post ->
    snd (tspan t1) <= fst (tspan t2).
Proof. intros pos s ts H. apply (Lexes_ordered _ _ _ (lex_body_Lexes _ _ _ H)). Qed.

(* C19 *)
Theorem eol_tokens_are_newlines : forall pos s ts, lex_body pos s = Some ts ->
  forall pre t post, ts = pre ++ t :: post ->
    exists u v, s = u ++ ttext t ++ v /\ fst (tspan t) = pos + text_bytes u /\
                count_eol pre = count_nl u.
Proof.
  intros pos s ts H pre t post Hts.
  destruct (Lexes_pieces _ _ _ (lex_body_Lexes _ _ _ H) _ _ _ Hts) as [u [v [H1 [H2 [H3 _]]]]].
  exists u, v. rewrite H2. auto.
Qed.

Corollary count_eol_count_nl : forall pos s ts, lex_body pos s = Some ts ->
  count_eol ts = count_nl s.
Proof.
  intros pos s ts H. destruct (lex_body_tokens_shape _ _ _ H) as [pre [eof [Hts [Hk [Ht _]]]]].
  destruct (Lexes_pieces _ _ _ (lex_body_Lexes _ _ _ H) pre eof [] Hts) as [u [v [Hs [_ [Hn Hv]]]]].
  rewrite (Hv Hk), Ht in Hs. cbn [app] in Hs. rewrite app_nil_r in Hs. subst u.
  rewrite Hts, count_eol_app, Hn. unfold count_eol. cbn [filter]. rewrite Hk. cbn. lia.
Qed.

(* a token is an Eol token exactly when its text is the newline character, and no other
   token contains one *)
Corollary eol_token_iff : forall pos s ts t, lex_body pos s = Some ts -> In t ts ->
  (tkind t = TEol -> ttext t = [10]) /\ (tkind t <> TEol -> count_nl (ttext t) = O).
Proof.
  intros pos s ts t H Hin. apply lex_body_Lexes in H. revert Hin.
  induction H as [pos|pos s w r ts E H IH|pos s k w r ts E H IH]; intro Hin.
  - destruct Hin as [<-|[]]. cbn [tkind ttext]. split; [discriminate|reflexivity].
  - exact (IH Hin).
  - destruct Hin as [<-|Hin]; [|exact (IH Hin)]. cbn [tkind ttext]. split.
    + intros ->. exact (lex_one_eol _ _ _ E).
    + intro K. rewrite (lex_one_nl _ _ _ _ E). destruct k; try reflexivity. congruence.
Qed.

(* ------------------------------------------------------------------ the header *)

Definition hone_ok (c : N) (r : text) (k : option htk) (w r' : text) : Prop :=
  exists w', w = c :: w' /\ r = w' ++ r' /\
    ((k = Some HEol /\ c = 10 /\ w' = []) \/ (k <> Some HEol /\ no_nl (c :: w'))).

Lemma hlex_one_inv : forall c r k w r', hlex_one (c :: r) = Some (k, w, r') -> hone_ok c r k w r'.
Proof.
  intros c r k w r' H. unfold hlex_one in H.
  destruct (is_ws c) eqn:Hws.
  { destruct (span_while is_ws r) as [a b] eqn:E. injection H as <- <- <-.
    exists a. split; [reflexivity|]. split; [exact (sw_eq _ _ _ _ E)|]. right.
    split; [discriminate|]. constructor; [apply is_ws_not_nl; exact Hws|].
    eapply (no_nl_class is_ws); [reflexivity|]. eapply sw_all. exact E. }
  destruct (is_nl c) eqn:Hnl.
  { injection H as <- <- <-. exists []. split; [reflexivity|]. split; [reflexivity|]. left.
    split; [reflexivity|]. split; [apply is_nl_eq; exact Hnl|reflexivity]. }
  destruct (span_while is_name_char r) as [a b] eqn:E. injection H as <- <- <-.
  exists a. split; [reflexivity|]. split; [exact (sw_eq _ _ _ _ E)|]. right.
  split; [discriminate|]. constructor; [exact Hnl|].
  eapply (no_nl_class is_name_char); [reflexivity|]. eapply sw_all. exact E.
Qed.

Lemma hlex_one_progress : forall s k w r, hlex_one s = Some (k, w, r) -> s = w ++ r /\ w <> [].
Proof.
  intros [|c s] k w r H; [discriminate H|].
  destruct (hlex_one_inv _ _ _ _ _ H) as [w' [-> [-> _]]]. split; [reflexivity|discriminate].
Qed.

Lemma hlex_one_nl : forall s k w r, hlex_one s = Some (k, w, r) ->
  count_nl w = (match k with Some HEol => 1 | _ => 0 end)%nat.
Proof.
  intros [|c s] k w r H; [discriminate H|].
  destruct (hlex_one_inv _ _ _ _ _ H) as [w' [-> [_ [[-> [-> ->]]|[K1 Hn]]]]]; [reflexivity|].
  rewrite (count_nl_no_nl _ Hn). destruct k as [[]|]; try reflexivity. congruence.
Qed.

Lemma hlex_one_eol : forall s w r, hlex_one s = Some (Some HEol, w, r) -> w = [10].
Proof.
  intros [|c s] w r H; [discriminate H|].
  destruct (hlex_one_inv _ _ _ _ _ H) as [w' [-> [_ [[_ [-> ->]]|[K _]]]]]; [reflexivity|congruence].
Qed.

Lemma parse_header_loop_S : forall f pos line names spans s,
  parse_header_loop (S f) pos line names spans s =
    match hlex_one s with
    | None => Err {| pe_kind := PE_UnexpectedEof; pe_at := [(pos, pos)] |}
    | Some (k, w, r) =>
      let pos' := pos + text_bytes w in
      match k with
      | None => parse_header_loop f pos' line names spans r
      | Some HName =>
          match position (name_eqb w) names with
          | Some i =>
              Err {| pe_kind := PE_DuplicateSignal w;
                     pe_at := [nth i spans (0, 0); (pos, pos')] |}
          | None => parse_header_loop f pos' line (names ++ [w]) (spans ++ [(pos, pos')]) r
          end
      | Some HEol =>
          match names with
          | [] => parse_header_loop f pos' (line + 1) names spans r
          | _ => Ok {| h_names := names; h_spans := spans; h_line := line + 1; h_pos := pos'; h_rest := r |}
          end
      end
    end.
Proof. reflexivity. Qed.

Lemma parse_header_loop_lines : forall f pos line names spans s h,
  parse_header_loop f pos line names spans s = Ok h ->
  exists u, s = u ++ h_rest h /\ h_pos h = pos + text_bytes u /\
            h_line h = line + N.of_nat (count_nl u) /\
            (* the header ends with its line break *)
            exists u', u = u' ++ [10].
Proof.
  induction f as [|f IH]; intros pos line names spans s h H; [discriminate H|].
  rewrite parse_header_loop_S in H.
  destruct (hlex_one s) as [[[k w] r]|] eqn:E; [|discriminate H]. cbv zeta in H.
  destruct (hlex_one_progress _ _ _ _ E) as [-> _]. pose proof (hlex_one_nl _ _ _ _ E) as Hn.
  assert (Hrec : forall line' names' spans',
            parse_header_loop f (pos + text_bytes w) line' names' spans' r = Ok h ->
            line' = line + N.of_nat (count_nl w) ->
            exists u, w ++ r = u ++ h_rest h /\ h_pos h = pos + text_bytes u /\
                      h_line h = line + N.of_nat (count_nl u) /\ exists u', u = u' ++ [10]).
  { intros line' names' spans' Hr Hl. destruct (IH _ _ _ _ _ _ Hr) as [u [Hs [Hp [Hli [u' Hu]]]]].
    exists (w ++ u). split; [rewrite Hs at 1; rewrite app_assoc; reflexivity|].
    split; [rewrite Hp, text_bytes_app; lia|]. split; [rewrite Hli, count_nl_app; lia|].
    exists (w ++ u'). rewrite Hu, app_assoc. reflexivity. }
  destruct k as [[|]|].
  - destruct (position (name_eqb w) names); [discriminate H|].
    eapply Hrec; [exact H|]. rewrite Hn. lia.
  - destruct names as [|n names].
    + eapply Hrec; [exact H|]. rewrite Hn. lia.
    + injection H as <-. cbn [h_rest h_pos h_line]. exists w. split; [reflexivity|].
      split; [reflexivity|]. split; [rewrite Hn; lia|]. exists [].
      exact (hlex_one_eol _ _ _ E).
  - eapply Hrec; [exact H|]. rewrite Hn. lia.
Qed.

(* C19 for the header: the line counter handed to the statement parser is one more than
   the number of newlines consumed (blank lines before the header included, the
   header's own line break included) *)
Theorem header_lines : forall s h, parse_header s = Ok h ->
  exists u, s = u ++ h_rest h /\ h_pos h = text_bytes u /\ h_line h = N.of_nat (1 + count_nl u).
Proof.
  intros s h H. destruct (parse_header_loop_lines _ _ _ _ _ _ _ H) as [u [Hs [Hp [Hl _]]]].
  exists u. split; [exact Hs|]. split; [rewrite Hp; lia|]. rewrite Hl. lia.
Qed.

Theorem header_ends_with_newline : forall s h, parse_header s = Ok h ->
  exists u', s = u' ++ 10 :: h_rest h.
Proof.
  intros s h H. destruct (parse_header_loop_lines _ _ _ _ _ _ _ H) as [u [Hs [_ [_ [u' Hu]]]]].
  exists u'. rewrite Hs, Hu, <- app_assoc. reflexivity.
Qed.

(* ------------------------------------------------------------------ (e) C20: layout *)

(* tokens without their spans *)
Definition view (ts : list token) : list (tk * text) := map (fun t => (tkind t, ttext t)) ts.

(* the token sequence of a text, positions aside *)
Inductive Lex : text -> list (tk * text) -> Prop :=
| Lex_eof : Lex [] [(TEof, [])]
| Lex_skip : forall s w r vs, lex_one s = Some (None, w, r) -> Lex r vs -> Lex s vs
| Lex_tok : forall s k w r vs, lex_one s = Some (Some k, w, r) -> Lex r vs -> Lex s ((k, w) :: vs).

Lemma Lexes_Lex : forall pos s ts, Lexes pos s ts -> Lex s (view ts).
Proof.
  intros pos s ts H. induction H as [pos|pos s w r ts E H IH|pos s k w r ts E H IH].
  - constructor.
  - eapply Lex_skip; eassumption.
  - cbn [view map tkind ttext]. eapply Lex_tok; eassumption.
Qed.

Lemma lex_body_Lex : forall pos s ts, lex_body pos s = Some ts -> Lex s (view ts).
Proof. intros pos s ts H. eapply Lexes_Lex. apply lex_body_Lexes. exact H. Qed.

Definition emit (k : option tk) (w : text) (vs : list (tk * text)) : list (tk * text) :=
  match k with None => vs | Some k => (k, w) :: vs end.

Lemma Lex_step : forall s k w r vs, lex_one s = Some (k, w, r) -> Lex r vs -> Lex s (emit k w vs).
Proof.
  intros s [k|] w r vs E H; cbn [emit]; [eapply Lex_tok|eapply Lex_skip]; eassumption.
Qed.

Lemma Lex_step_inv : forall s k w r vs, lex_one s = Some (k, w, r) -> Lex s vs ->
  exists vs', Lex r vs' /\ vs = emit k w vs'.
Proof.
  intros s k w r vs E H. inversion H as [Hs|s' w' r' vs' E' H'|s' k' w' r' vs' E' H']; subst.
  - discriminate E.
  - rewrite E in E'. injection E' as -> -> ->. exists vs. split; [exact H'|reflexivity].
  - rewrite E in E'. injection E' as -> -> ->. exists vs'. split; [exact H'|reflexivity].
Qed.

Lemma Lex_det : forall s vs1, Lex s vs1 -> forall vs2, Lex s vs2 -> vs1 = vs2.
Proof.
  intros s vs1 H. induction H as [|s w r vs E H IH|s k w r vs E H IH]; intros vs2 H2.
  - inversion H2 as [Hs|s' w' r' vs' E' H'|s' k' w' r' vs' E' H']; subst;
      [reflexivity|discriminate E'|discriminate E'].
  - destruct (Lex_step_inv _ _ _ _ _ E H2) as [vs' [H' ->]]. cbn [emit]. apply IH. exact H'.
  - destruct (Lex_step_inv _ _ _ _ _ E H2) as [vs' [H' ->]]. cbn [emit]. f_equal. apply IH. exact H'.
Qed.

(* s2 has the token sequence of s1 (an equivalence, since Lex is total and functional) *)
Definition Lsub (s1 s2 : text) : Prop := forall vs, Lex s1 vs -> Lex s2 vs.

Lemma Lsub_refl : forall s, Lsub s s.
Proof. intros s vs H. exact H. Qed.

Lemma Lsub_trans : forall s1 s2 s3, Lsub s1 s2 -> Lsub s2 s3 -> Lsub s1 s3.
Proof. intros s1 s2 s3 H12 H23 vs H. apply H23, H12, H. Qed.

Lemma Lsub_view : forall s1 s2 p1 p2 ts1 ts2, Lsub s1 s2 ->
  lex_body p1 s1 = Some ts1 -> lex_body p2 s2 = Some ts2 -> view ts1 = view ts2.
Proof.
  intros s1 s2 p1 p2 ts1 ts2 Hsub H1 H2.
  apply lex_body_Lex in H1. apply lex_body_Lex in H2. apply Hsub in H1.
  exact (Lex_det _ _ H1 _ H2).
Qed.

Lemma Lsub_sym : forall s1 s2, Lsub s1 s2 -> Lsub s2 s1.
Proof.
  intros s1 s2 H vs H2. destruct (lex_body_total 0 s1) as [ts1 H1]. apply lex_body_Lex in H1.
  rewrite (Lex_det _ _ H2 _ (H _ H1)). exact H1.
Qed.

(* same kind, same lexeme unless skipped, related rests *)
Lemma Lsub_step : forall s1 s2 k w1 w2 r1 r2,
  lex_one s1 = Some (k, w1, r1) -> lex_one s2 = Some (k, w2, r2) ->
  (k = None \/ w1 = w2) -> Lsub r1 r2 -> Lsub s1 s2.
Proof.
  intros s1 s2 k w1 w2 r1 r2 E1 E2 Hk Hr vs H.
  destruct (Lex_step_inv _ _ _ _ _ E1 H) as [vs' [H' ->]].
  replace (emit k w1 vs') with (emit k w2 vs') by (destruct Hk as [->| ->]; reflexivity).
  eapply Lex_step; [exact E2|]. apply Hr. exact H'.
Qed.

Definition notnl (x : N) : bool := negb (is_nl x).

Lemma lex_one_ws : forall c r, is_ws c = true ->
  lex_one (c :: r) = let (a, b) := span_while is_ws r in Some (None, c :: a, b).
Proof. intros c r H. unfold lex_one. rewrite H. reflexivity. Qed.

Lemma lex_one_comment : forall r,
  lex_one (35 :: r) = let (a, b) := span_while notnl r in Some (None, 35 :: a, b).
Proof. intro r. reflexivity. Qed.

(* leading blank space does not matter *)
Lemma Lsub_skip_ws : forall s, Lsub s (snd (span_while is_ws s)) /\ Lsub (snd (span_while is_ws s)) s.
Proof.
  intros [|c r]; [split; apply Lsub_refl|]. cbn [span_while].
  destruct (is_ws c) eqn:Hc; [|split; apply Lsub_refl].
  pose proof (lex_one_ws c r Hc) as E. destruct (span_while is_ws r) as [a b]. cbn [snd]. split.
  - intros vs H. destruct (Lex_step_inv _ _ _ _ _ E H) as [vs' [H' ->]]. exact H'.
  - intros vs H. exact (Lex_step _ _ _ _ _ E H).
Qed.

(* characters at which every token other than blank space and comments stops *)
Definition stops (t : text) : bool :=
  match t with [] => true | d :: _ => is_ws d || is_nl d || (d =? 35) end.

Lemma stops_cases : forall d t, stops (d :: t) = true ->
  d = 32 \/ d = 9 \/ d = 13 \/ d = 12 \/ d = 10 \/ d = 35.
Proof.
  intros d t H. cbn [stops] in H. apply orb_true_iff in H. destruct H as [H|H].
  - apply orb_true_iff in H. destruct H as [H|H].
    + destruct (is_ws_cases d H) as [->|[->|[-> | ->]]]; auto.
    + apply is_nl_eq in H. auto 6.
  - apply N.eqb_eq in H. auto 6.
Qed.

Lemma stops_starts : forall (p : N -> bool) t,
  p 32 = false -> p 9 = false -> p 13 = false -> p 12 = false -> p 10 = false -> p 35 = false ->
  stops t = true -> starts p t = false.
Proof.
  intros p [|d t] H1 H2 H3 H4 H5 H6 H; [reflexivity|]. cbn [starts].
  destruct (stops_cases d t H) as [->|[->|[->|[->|[-> | ->]]]]]; assumption.
Qed.

Lemma punct2_stops : forall c d t, stops (d :: t) = true -> punct2 c d = None.
Proof.
  intros c d t H.
  assert (Hd : (d =? 60) = false /\ (d =? 61) = false /\ (d =? 62) = false).
  { destruct (stops_cases d t H) as [->|[->|[->|[->|[-> | ->]]]]]; repeat split; reflexivity. }
  destruct Hd as [H0 [H1 H2]]. unfold punct2. rewrite H0, H1, H2, !andb_false_r. reflexivity.
Qed.

(* the kind of a word looks at the next character only if it is not ASCII *)
Lemma ident_kind_app_stop : forall w b t, stops t = true -> ident_kind w (b ++ t) = ident_kind w b.
Proof.
  intros w [|e b] t Ht; [|reflexivity]. cbn [app]. destruct t as [|d t]; [reflexivity|].
  assert (Hd : (128 <=? d) = false).
  { destruct (stops_cases d t Ht) as [->|[->|[->|[->|[-> | ->]]]]]; reflexivity. }
  unfold ident_kind. rewrite Hd. reflexivity.
Qed.

Definition extend (t : text) (o : option (option tk * text * text)) :=
  match o with Some (k, x, r) => Some (k, x, r ++ t) | None => None end.

(* a token that does not start with blank space or # is determined by the text up to
   the next stopping character *)
Lemma lex_one_app_stop : forall c u t, is_ws c = false -> c <> 35 -> stops t = true ->
  lex_one ((c :: u) ++ t) = extend t (lex_one (c :: u)).
Proof.
  intros c u t Hws Hh Ht. unfold lex_one. cbn [app]. rewrite Hws.
  destruct (N.eqb_spec c 35) as [|_]; [contradiction|].
  destruct (is_nl c); [reflexivity|].
  destruct (is_ident_start c).
  { rewrite sw_app_stop by (apply stops_starts; try exact Ht; vm_compute; reflexivity).
    destruct (span_while is_ident_cont u) as [a b]. cbn [extend].
    rewrite (ident_kind_app_stop _ _ _ Ht). reflexivity. }
  destruct (is_dec_start c).
  { rewrite sw_app_stop by (apply stops_starts; try exact Ht; reflexivity).
    destruct (span_while is_dec_digit u); reflexivity. }
  destruct (c =? 48).
  { assert (Hoct : forall u0,
      (let (w, r') := span_while is_oct_digit (u0 ++ t) in Some (Some TOctInt, c :: w, r')) =
      extend t (let (w, r') := span_while is_oct_digit u0 in Some (Some TOctInt, c :: w, r'))).
    { intro u0. rewrite sw_app_stop by (apply stops_starts; try exact Ht; reflexivity).
      destruct (span_while is_oct_digit u0); reflexivity. }
    cbv zeta. destruct u as [|x u1].
    - cbn [app]. destruct t as [|d t']; [reflexivity|].
      destruct (stops_cases d t' Ht) as [->|[->|[->|[->|[-> | ->]]]]]; reflexivity.
    - cbn [app]. destruct ((x =? 120) || (x =? 88)).
      { rewrite sw_app_stop by (apply stops_starts; try exact Ht; reflexivity).
        destruct (span_while is_hex_digit u1) as [[|h0 h] r2]; [|reflexivity].
        exact (Hoct (x :: u1)). }
      destruct ((x =? 98) || (x =? 66)).
      { rewrite sw_app_stop by (apply stops_starts; try exact Ht; reflexivity).
        destruct (span_while is_bin_digit u1) as [[|h0 h] r2]; [|reflexivity].
        exact (Hoct (x :: u1)). }
      exact (Hoct (x :: u1)). }
  destruct u as [|d u1].
  - cbn [app]. destruct t as [|d t'].
    + destruct (punct1 c); reflexivity.
    + rewrite (punct2_stops c d t' Ht). destruct (punct1 c); reflexivity.
  - cbn [app]. destruct (punct2 c d); [reflexivity|]. destruct (punct1 c); reflexivity.
Qed.

(* The context lemma.  T1 and T2 are two continuations that both begin with a stopping
   character (or are empty) and that yield the same tokens after absorbing leading
   blank space, resp. the rest of a comment.  Then any text u in front of them yields
   the same tokens. *)
Lemma Lsub_skip_class : forall (p : N -> bool) c u T1 T2,
  (forall r, lex_one (c :: r) = let (a, b) := span_while p r in Some (None, c :: a, b)) ->
  Lsub (snd (span_while p T1)) (snd (span_while p T2)) ->
  (forall b, (length b <= length u)%nat -> Lsub (b ++ T1) (b ++ T2)) ->
  Lsub ((c :: u) ++ T1) ((c :: u) ++ T2).
Proof.
  intros p c u T1 T2 Hone HT IH. cbn [app].
  pose proof (Hone (u ++ T1)) as E1. pose proof (Hone (u ++ T2)) as E2.
  rewrite sw_app_gen in E1, E2.
  destruct (span_while p u) as [a0 [|e b0]] eqn:E0.
  - destruct (span_while p T1) as [a1 b1]. destruct (span_while p T2) as [a2 b2].
    cbn [snd] in HT. eapply Lsub_step; [exact E1|exact E2|left; reflexivity|exact HT].
  - eapply Lsub_step; [exact E1|exact E2|right; reflexivity|].
    apply IH. eapply sw_length. exact E0.
Qed.

Lemma Lsub_context : forall T1 T2, stops T1 = true -> stops T2 = true ->
  Lsub (snd (span_while is_ws T1)) (snd (span_while is_ws T2)) ->
  Lsub (snd (span_while notnl T1)) (snd (span_while notnl T2)) ->
  forall u, Lsub (u ++ T1) (u ++ T2).
Proof.
  intros T1 T2 S1 S2 Hw Hc.
  assert (H0 : Lsub T1 T2).
  { eapply Lsub_trans; [apply (proj1 (Lsub_skip_ws T1))|].
    eapply Lsub_trans; [exact Hw|apply (proj2 (Lsub_skip_ws T2))]. }
  assert (Hn : forall n u, (length u <= n)%nat -> Lsub (u ++ T1) (u ++ T2)).
  { induction n as [|n IH]; intros u Hlen.
    - destruct u; [exact H0|cbn [length] in Hlen; lia].
    - destruct u as [|c u]; [exact H0|]. cbn [length] in Hlen.
      destruct (is_ws c) eqn:Hws.
      { apply (Lsub_skip_class is_ws); [intro r; apply lex_one_ws; exact Hws|exact Hw|].
        intros b Hb. apply IH. lia. }
      destruct (N.eq_dec c 35) as [->|Hh].
      { apply (Lsub_skip_class notnl); [exact lex_one_comment|exact Hc|].
        intros b Hb. apply IH. lia. }
      pose proof (lex_one_app_stop c u T1 Hws Hh S1) as E1.
      pose proof (lex_one_app_stop c u T2 Hws Hh S2) as E2.
      destruct (lex_one (c :: u)) as [[[k x] r]|] eqn:E; [|apply lex_one_nil in E; discriminate E].
      cbn [extend] in E1, E2. eapply Lsub_step; [exact E1|exact E2|right; reflexivity|].
      apply IH. destruct (lex_one_progress _ _ _ _ E) as [Hs Hx].
      apply (f_equal (@length N)) in Hs. rewrite app_length in Hs. cbn [length] in Hs.
      destruct x; [congruence|]. cbn [length] in Hs. lia. }
  intro u. apply (Hn (length u)). lia.
Qed.

(* blank space: spaces, tabs, carriage returns, form feeds *)
Definition all_ws (w : text) : Prop := Forall (fun c => is_ws c = true) w.
Definition blank (w : text) : Prop := w <> [] /\ all_ws w.

Lemma all_ws_notnl : forall w, all_ws w -> Forall (fun c => notnl c = true) w.
Proof.
  intros w H. eapply Forall_impl; [|exact H]. intros c Hc. cbn beta in Hc.
  unfold notnl. rewrite (is_ws_not_nl c Hc). reflexivity.
Qed.

Lemma blank_stops : forall w v, blank w -> stops (w ++ v) = true.
Proof.
  intros w v [Hne Hw]. destruct w as [|c w]; [congruence|]. inversion Hw as [|? ? Hc _]; subst.
  cbn [app stops]. rewrite Hc. reflexivity.
Qed.

(* General form: w1 and w2 are possibly empty runs of blanks, and what follows u begins,
   in both texts, with a stopping character (or is empty). *)
Lemma Lsub_blank : forall u w1 w2 v, all_ws w1 -> all_ws w2 ->
  stops (w1 ++ v) = true -> stops (w2 ++ v) = true -> Lsub (u ++ w1 ++ v) (u ++ w2 ++ v).
Proof.
  intros u w1 w2 v H1 H2 S1 S2. apply Lsub_context; [exact S1|exact S2| |].
  - rewrite !sw_app_all by assumption. destruct (span_while is_ws v). apply Lsub_refl.
  - rewrite !sw_app_all by (apply all_ws_notnl; assumption).
    destruct (span_while notnl v). apply Lsub_refl.
Qed.

(* changing the amount of blank space where there is some *)
Theorem blank_run_irrelevant : forall u w1 w2 v p1 p2 ts1 ts2, blank w1 -> blank w2 ->
  lex_body p1 (u ++ w1 ++ v) = Some ts1 -> lex_body p2 (u ++ w2 ++ v) = Some ts2 ->
  view ts1 = view ts2.
Proof.
  intros u w1 w2 v p1 p2 ts1 ts2 B1 B2. apply Lsub_view.
  apply Lsub_blank; [exact (proj2 B1)|exact (proj2 B2)|apply blank_stops; exact B1|apply blank_stops; exact B2].
Qed.

Definition is_sep (c : N) : bool := is_ws c || is_nl c.

Lemma is_sep_stops : forall c v, is_sep c = true -> stops (c :: v) = true.
Proof. intros c v H. cbn [stops]. unfold is_sep in H. rewrite H. reflexivity. Qed.

Lemma Lsub_blank_front : forall w v, all_ws w -> Lsub (w ++ v) v.
Proof.
  intros w v Hw. eapply Lsub_trans; [apply (proj1 (Lsub_skip_ws (w ++ v)))|].
  rewrite sw_app_all by exact Hw. pose proof (proj2 (Lsub_skip_ws v)) as H.
  destruct (span_while is_ws v). exact H.
Qed.

(* inserting blank space at the start or end of the text, next to a line end, or next to
   blank space *)
Lemma Lsub_blank_insert : forall u w v, all_ws w ->
  (u = [] \/ exists u' c, u = u' ++ [c] /\ is_sep c = true) \/
  (v = [] \/ exists c v', v = c :: v' /\ is_sep c = true) ->
  Lsub (u ++ w ++ v) (u ++ v).
Proof.
  intros u w v Hw [[->|[u' [c [-> Hc]]]]|Hv].
  - cbn [app]. apply Lsub_blank_front. exact Hw.
  - rewrite <- !app_assoc. cbn [app]. unfold is_sep in Hc. apply orb_true_iff in Hc.
    destruct Hc as [Hc|Hc].
    + apply (Lsub_blank u' (c :: w) [c] v).
      * constructor; assumption.
      * constructor; [exact Hc|constructor].
      * cbn [app stops]. rewrite Hc. reflexivity.
      * cbn [app stops]. rewrite Hc. reflexivity.
    + apply is_nl_eq in Hc. subst c.
      assert (Hsub : Lsub (10 :: w ++ v) (10 :: v)).
      { eapply Lsub_step; [reflexivity|reflexivity|right; reflexivity|].
        apply Lsub_blank_front. exact Hw. }
      apply Lsub_context; [reflexivity|reflexivity|exact Hsub|exact Hsub].
  - assert (Sv : stops v = true).
    { destruct Hv as [->|[c [v' [-> Hc]]]]; [reflexivity|apply is_sep_stops; exact Hc]. }
    apply (Lsub_blank u w [] v); [exact Hw|constructor| |exact Sv].
    destruct w as [|d w]; [exact Sv|]. inversion Hw as [|? ? Hd _]; subst.
    cbn [app stops]. rewrite Hd. reflexivity.
Qed.

Theorem blank_insert_at_boundary : forall u w v p1 p2 ts1 ts2, blank w ->
  (u = [] \/ exists u' c, u = u' ++ [c] /\ (is_ws c = true \/ is_nl c = true)) \/
  (v = [] \/ exists c v', v = c :: v' /\ (is_ws c = true \/ is_nl c = true)) ->
  lex_body p1 (u ++ w ++ v) = Some ts1 -> lex_body p2 (u ++ v) = Some ts2 ->
  view ts1 = view ts2.
Proof.
  intros u w v p1 p2 ts1 ts2 B H. apply Lsub_view. apply Lsub_blank_insert; [exact (proj2 B)|].
  unfold is_sep. destruct H as [[H|[u' [c [H1 H2]]]]|[H|[c [v' [H1 H2]]]]].
  - left. left. exact H.
  - left. right. exists u', c. split; [exact H1|]. apply orb_true_iff. exact H2.
  - right. left. exact H.
  - right. right. exists c, v'. split; [exact H1|]. apply orb_true_iff. exact H2.
Qed.

(* comments: # up to, not including, the next newline or the end of the text *)
Lemma Lsub_comment : forall u cs t, Forall (fun c => is_nl c = false) cs ->
  (t = [] \/ exists v, t = 10 :: v) -> Lsub (u ++ 35 :: cs ++ t) (u ++ t).
Proof.
  intros u cs t Hcs Ht.
  assert (St : starts notnl t = false) by (destruct Ht as [->|[v ->]]; reflexivity).
  assert (Hcs' : Forall (fun c => notnl c = true) cs).
  { eapply Forall_impl; [|exact Hcs]. intros c Hc. cbn beta in Hc. unfold notnl. rewrite Hc. reflexivity. }
  assert (E : lex_one (35 :: cs ++ t) = Some (None, 35 :: cs, t)).
  { rewrite lex_one_comment, sw_app by assumption. reflexivity. }
  assert (H0 : Lsub (35 :: cs ++ t) t).
  { intros vs H. destruct (Lex_step_inv _ _ _ _ _ E H) as [vs' [H' ->]]. exact H'. }
  apply Lsub_context.
  - reflexivity.
  - destruct Ht as [->|[v ->]]; reflexivity.
  - assert (Ew : span_while is_ws t = ([], t)) by (destruct Ht as [->|[v ->]]; reflexivity).
    rewrite Ew. exact H0.
  - change (35 :: cs ++ t) with ((35 :: cs) ++ t). rewrite sw_app_all by (constructor; [reflexivity|exact Hcs']).
    destruct (span_while notnl t). apply Lsub_refl.
Qed.

Theorem comment_irrelevant : forall u cs v p1 p2 ts1 ts2, Forall (fun c => is_nl c = false) cs ->
  lex_body p1 (u ++ 35 :: cs ++ 10 :: v) = Some ts1 -> lex_body p2 (u ++ 10 :: v) = Some ts2 ->
  view ts1 = view ts2.
Proof.
  intros u cs v p1 p2 ts1 ts2 Hcs. apply Lsub_view. apply Lsub_comment; [exact Hcs|].
  right. exists v. reflexivity.
Qed.

Theorem comment_irrelevant_at_end : forall u cs p1 p2 ts1 ts2, Forall (fun c => is_nl c = false) cs ->
  lex_body p1 (u ++ 35 :: cs) = Some ts1 -> lex_body p2 u = Some ts2 ->
  view ts1 = view ts2.
Proof.
  intros u cs p1 p2 ts1 ts2 Hcs H1 H2. revert H1 H2. rewrite <- (app_nil_r u) at 2.
  rewrite <- (app_nil_r cs). apply Lsub_view. apply Lsub_comment; [exact Hcs|]. left. reflexivity.
Qed.

(* the same facts for the total function "tokens of a text" *)
Definition lex_view (s : text) : list (tk * text) :=
  match lex_body 0 s with Some ts => view ts | None => [] end.

Lemma lex_view_spec : forall pos s ts, lex_body pos s = Some ts -> view ts = lex_view s.
Proof.
  intros pos s ts H. unfold lex_view. destruct (lex_body_total 0 s) as [ts0 H0]. rewrite H0.
  eapply Lsub_view; [apply Lsub_refl|exact H|exact H0].
Qed.

Lemma Lsub_lex_view : forall s1 s2, Lsub s1 s2 -> lex_view s1 = lex_view s2.
Proof.
  intros s1 s2 H. destruct (lex_body_total 0 s1) as [ts1 H1]. destruct (lex_body_total 0 s2) as [ts2 H2].
  rewrite <- (lex_view_spec _ _ _ H1), <- (lex_view_spec _ _ _ H2).
  eapply Lsub_view; eassumption.
Qed.

Theorem lex_view_blank_run : forall u w1 w2 v, blank w1 -> blank w2 ->
  lex_view (u ++ w1 ++ v) = lex_view (u ++ w2 ++ v).
Proof.
  intros u w1 w2 v B1 B2. apply Lsub_lex_view.
  apply Lsub_blank; [exact (proj2 B1)|exact (proj2 B2)|apply blank_stops; exact B1|apply blank_stops; exact B2].
Qed.

Theorem lex_view_blank_insert : forall u w v, all_ws w ->
  (u = [] \/ exists u' c, u = u' ++ [c] /\ is_sep c = true) \/
  (v = [] \/ exists c v', v = c :: v' /\ is_sep c = true) ->
  lex_view (u ++ w ++ v) = lex_view (u ++ v).
Proof. intros u w v Hw H. apply Lsub_lex_view. apply Lsub_blank_insert; assumption. Qed.

Theorem lex_view_comment : forall u cs v, Forall (fun c => is_nl c = false) cs ->
  lex_view (u ++ 35 :: cs ++ 10 :: v) = lex_view (u ++ 10 :: v) /\
  lex_view (u ++ 35 :: cs) = lex_view u.
Proof.
  intros u cs v Hcs. split; apply Lsub_lex_view.
  - apply Lsub_comment; [exact Hcs|]. right. exists v. reflexivity.
  - rewrite <- (app_nil_r u) at 2. rewrite <- (app_nil_r cs).
    apply Lsub_comment; [exact Hcs|]. left. reflexivity.
Qed.

(* blank space may also be inserted in front of a comment *)
Theorem lex_view_blank_insert_before_stop : forall u w v, all_ws w -> stops v = true ->
  lex_view (u ++ w ++ v) = lex_view (u ++ v).
Proof.
  intros u w v Hw Sv. apply Lsub_lex_view.
  apply (Lsub_blank u w [] v); [exact Hw|constructor| |exact Sv].
  destruct w as [|d w]; [exact Sv|]. inversion Hw as [|? ? Hd _]; subst.
  cbn [app stops]. rewrite Hd. reflexivity.
Qed.

(* the side condition of blank_insert_at_boundary is needed: blank space between two
   characters that are neither blank nor a line end can separate tokens *)
Example blank_separates_words : lex_view [97; 32; 98] <> lex_view [97; 98].          (* "a b" / "ab" *)
Proof. vm_compute. discriminate. Qed.
Example blank_separates_shift : lex_view [60; 32; 60] <> lex_view [60; 60].          (* "< <" / "<<" *)
Proof. vm_compute. discriminate. Qed.
Example blank_separates_number : lex_view [48; 32; 120; 49] <> lex_view [48; 120; 49].  (* "0 x1" / "0x1" *)
Proof. vm_compute. discriminate. Qed.

Print Assumptions lex_one_progress.
Print Assumptions hlex_one_progress.
Print Assumptions lex_body_total.
Print Assumptions lex_body_mono.
Print Assumptions lex_body_tokens_ok.
Print Assumptions lex_body_tokens_shape.
Print Assumptions lex_body_spans.
Print Assumptions lex_body_span_bounds.
Print Assumptions lex_body_spans_ordered.
Print Assumptions eol_tokens_are_newlines.
Print Assumptions count_eol_count_nl.
Print Assumptions eol_token_iff.
Print Assumptions header_lines.
Print Assumptions header_ends_with_newline.
Print Assumptions blank_run_irrelevant.
Print Assumptions blank_insert_at_boundary.
Print Assumptions comment_irrelevant.
Print Assumptions comment_irrelevant_at_end.
Print Assumptions lex_view_blank_run.
Print Assumptions lex_view_blank_insert.
Print Assumptions lex_view_blank_insert_before_stop.
Print Assumptions lex_view_comment.
