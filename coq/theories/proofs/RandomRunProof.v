(* C17 at the level of the RUN, through error items.

   props/C17.v speaks about ONE expression / ONE data row: random(n) draws once, from [1, n), the
   history of the generator only grows, resetRandom puts the history back to [].  Here, from the
   state that try_new returns, for every state that calls of next() can reach (the continuing
   caller collect_e whose steps are VarsRunProof.steps_e; VectorProof.reach; OutputsRunProof.reachable):

     (1) history_step        the total case table of next() for the history  crng (i_ctx st).
         The statements that one call of next() executes are listed by a GHOST TRACE: the statement
         iterator Stmt.next - the same generic machine - is run on contexts paired with a list of
         events (snext_g; forgetting the list gives Iter.snext back: snext_g_forget).  An event is
         an evaluation of a statement's expression (let, loop bound, while condition), the
         evaluation of the entries of a data row, or the execution of `resetRandom;`.  The trace is
         CHAINED: every event starts from the history its predecessor left; an evaluation leaves
         new ++ old, a reset leaves [].  After the statements: the declared (virtual) signals, in
         table order, ONLY when the driver's answer reached the loop of extract_output_values.
     (2) every_draw_in_range the history of every reachable state consists of ranges (1, hi) with
         2 <= hi, and under gen_in_range every value drawn lies in [1, hi) - so in [0, hi).
     (3) run_replays_after_reset   equal histories: equal draws.
     (4) error_items_before_the_call_draw_what_was_evaluated   an evaluation-error item keeps the
         draws made before the failure - those of the failing expression included; the history
         after the item IS the history the failing evaluation left.

   No hypothesis on the test case, the driver or the generator except where gen_in_range is
   written.

   WHAT THE MODEL DOES (each with a closed Example by vm_compute in Example_random_run):
     - a failed call, a wrong NUMBER of outputs, and the write-only rows of a clock expansion
       evaluate no declared signal; only an answer that is read and has the right length reaches them;
     - a wrong ORDER stops the loop at the mismatching slot: the declared signals of the slots BEFORE
       it have been evaluated and their draws stay (wrong_order_declared_before_the_slot).  For a
       test bound by with_signals to non-virtual device signals the declared signals come last
       (declared_signals_come_last), so there a wrong order draws nothing
       (wrong_order_draws_nothing_when_bound);
     - an evaluation-error item keeps the draws of the failing expression (error_item_keeps_draw);
     - the FIRST None may draw: the call runs the statements after the last data row
       (none_call_draws); every later None draws nothing (none_history). *)
From DTR Require Import Prelude I64 Ast FramedMap Parser Bind Eval Stmt Iter WfSpec Script.
From DTR.proofs Require Import StmtRefine EvalProof LiteralProof BindProof IterLogProof OutputsProof RunRefineE
  WidthProof VectorProof OutputsRunProof VarsRunProof.
Local Open Scope nat_scope.

Local Arguments NYield {C F W} w line it c.
Local Arguments NDone {C F W} it c.
Local Arguments NErr {C F W} f it c.
Local Arguments NPanic {C F W} site.
Local Arguments NOOF {C F W}.
Local Arguments ItNone {DE} st.
Local Arguments ItRow {DE} row st.
Local Arguments ItErr {DE} e st.
Local Arguments ItPanic {DE} s.
Local Arguments ItOOF {DE}.
Local Arguments NewOk {DE} st.
Local Arguments NewErr {DE} e log.
Local Arguments NewPanic {DE} s.

(* ------------------------------------------------------------------ ranges and histories *)

(* what random(n) records: the range (1, n), and only for 2 <= n (XE_EmptyRandomRange otherwise) *)
Definition range_ok (b : Z * Z) : Prop := fst b = 1%Z /\ (2 <= snd b)%Z.
Definition hist_ok (h : rng_state) : Prop := Forall range_ok h.

(* h' is h with zero or more well-formed draws put in front *)
Definition grows (h h' : rng_state) : Prop := exists l, h' = l ++ h /\ hist_ok l.

Lemma grows_refl : forall h, grows h h.
Proof. intro h. exists []. split; [reflexivity|constructor]. Qed.

Lemma grows_trans : forall a b c, grows a b -> grows b c -> grows a c.
Proof.
  intros a b c [l1 [H1 K1]] [l2 [H2 K2]]. exists (l2 ++ l1). subst. rewrite app_assoc.
  split; [reflexivity|]. apply Forall_app. auto.
Qed.

Lemma grows_hist_ok : forall h h', grows h h' -> hist_ok h -> hist_ok h'.
Proof. intros h h' [l [H K]] Hh. subst. apply Forall_app. auto. Qed.

(* one evaluation: the draws it adds are ranges (1, n) with 2 <= n *)
Lemma eval_draws_ok : forall G e c rng, grows rng (snd (eval G c e rng)).
Proof.
  intro G. induction e as [n|x|op l r IHl IHr|op a IHa|f args IHargs] using expr_ind2; intros c rng.
  - apply grows_refl.
  - cbn [eval]. destruct (ctx_get c x) as [[| |]|]; apply grows_refl.
  - cbn [eval]. pose proof (IHl c rng) as H1.
    destruct (eval G c l rng) as [[lv| | |] rng1]; cbn [snd] in *; try exact H1.
    pose proof (IHr c rng1) as H2.
    destruct (eval G c r rng1) as [[rv| | |] rng2]; cbn [snd] in *; eapply grows_trans; (timeout 20 eauto).
  - cbn [eval]. pose proof (IHa c rng) as H1.
    destruct (eval G c a rng) as [[v| | |] rng1]; cbn [snd] in *; exact H1.
  - rewrite eval_func. destruct (func_arity f) as [arity|]; [|apply grows_refl].
    destruct (negb (Nlen args =? arity)%N); [apply grows_refl|].
    destruct (name_eqb f name_random).
    { destruct args as [|a [|? ?]]; try apply grows_refl.
      inversion IHargs as [|? ? IHa _]; subst. pose proof (IHa c rng) as H1.
      destruct (eval G c a rng) as [[v| | |] rng1]; cbn [snd] in *; try exact H1.
      destruct (Z.leb_spec v 1) as [Hv|Hv]; cbn [snd]; [exact H1|].
      eapply grows_trans; [exact H1|]. exists [(1%Z, v)]. split; [reflexivity|].
      constructor; [|constructor]. split; cbn [fst snd]; [reflexivity|lia]. }
    destruct (name_eqb f name_ite); [|apply grows_refl].
    destruct args as [|t [|a [|b [|? ?]]]]; try apply grows_refl.
    inversion IHargs as [|? ? IHt IHr]; subst. inversion IHr as [|? ? IHa IHr2]; subst.
    inversion IHr2 as [|? ? IHb _]; subst.
    pose proof (IHt c rng) as H1.
    destruct (eval G c t rng) as [[tv| | |] rng1]; cbn [snd] in *; try exact H1.
    destruct (Z.eqb tv 0); (eapply grows_trans; [exact H1|]); [apply IHb|apply IHa].
Qed.

Lemma ctx_eval_crng : forall G c e, crng (fst (ctx_eval G c e)) = snd (eval G c e (crng c)).
Proof. intros G c e. unfold ctx_eval. destruct (eval G c e (crng c)); reflexivity. Qed.

Lemma ctx_eval_grows : forall G c e, grows (crng c) (crng (fst (ctx_eval G c e))).
Proof. intros. rewrite ctx_eval_crng. apply eval_draws_ok. Qed.

Lemma entry_eval_grows : forall G c d, grows (crng c) (crng (fst (entry_eval G c d))).
Proof.
  intros G c d. destruct d; cbn [entry_eval]; try apply grows_refl.
  - pose proof (ctx_eval_grows G c e) as H. destruct (ctx_eval G c e); exact H.
  - pose proof (ctx_eval_grows G c e) as H. destruct (ctx_eval G c e); exact H.
Qed.

(* the entries of a data row, left to right, up to and including the first that fails *)
Lemma row_eval_grows : forall G d c, grows (crng c) (crng (fst (row_eval G c d))).
Proof.
  intros G. induction d as [|x d IH]; intro c; cbn [row_eval]; [apply grows_refl|].
  pose proof (entry_eval_grows G c x) as H1.
  destruct (entry_eval G c x) as [c1 [es|e|s|]]; cbn [fst] in *; try exact H1.
  pose proof (IH c1) as H2.
  destruct (row_eval G c1 d) as [c2 [es'|e|s|]]; cbn [fst] in *; eapply grows_trans; (timeout 20 eauto).
Qed.

Lemma lift_eval_crng : forall G c e, crng (fst (lift_eval G c e)) = snd (eval G c e (crng c)).
Proof.
  intros G c e. unfold lift_eval. rewrite <- ctx_eval_crng. destruct (ctx_eval G c e); reflexivity.
Qed.

Lemma lift_row_eval_crng : forall G c d, crng (fst (lift_row_eval G c d)) = crng (fst (row_eval G c d)).
Proof. intros G c d. unfold lift_row_eval. destruct (row_eval G c d); reflexivity. Qed.

(* ------------------------------------------------------------------ the values drawn *)

(* the values drawn for the segment l (most recent first) put on top of the history h: the draw
   recorded as b was made with the history that is below it *)
Fixpoint seg_values (G : gen) (l h : rng_state) : list Z :=
  match l with
  | [] => []
  | b :: r => G (r ++ h) b :: seg_values G r h
  end.

Lemma seg_values_app : forall G l1 l2 h,
  seg_values G (l1 ++ l2) h = seg_values G l1 (l2 ++ h) ++ seg_values G l2 h.
Proof.
  intros G l1. induction l1 as [|b r IH]; intros l2 h; [reflexivity|].
  cbn [app seg_values]. rewrite IH, app_assoc. reflexivity.
Qed.

Lemma seg_values_length : forall G l h, length (seg_values G l h) = length l.
Proof. intros G l h. induction l as [|b r IH]; [reflexivity|]. cbn [seg_values length]. rewrite IH. reflexivity. Qed.

(* rand's contract gives: every value lies in its range [1, hi), hence in [0, hi) *)
Lemma seg_values_in_range : forall G l h, gen_in_range G -> hist_ok l ->
  Forall2 (fun v b => (fst b <= v < snd b)%Z /\ (0 <= v)%Z) (seg_values G l h) l.
Proof.
  intros G l h HG Hl. induction Hl as [|b r [Hb1 Hb2] _ IH]; [constructor|].
  cbn [seg_values]. constructor; [|exact IH].
  destruct b as [lo hi]. cbn [fst snd] in *. subst lo.
  pose proof (HG (r ++ h) 1%Z hi ltac:(lia)). lia.
Qed.

(* LiteralProof.draws lists the same values, oldest first *)
Lemma draws_seg_values : forall G bs h, draws G h bs = rev (seg_values G (hist_of bs) h).
Proof.
  intros G. induction bs as [|b r IH]; intro h; [reflexivity|].
  change (b :: r) with ([b] ++ r). rewrite hist_of_app, seg_values_app, rev_app_distr.
  cbn [draws app]. rewrite IH. reflexivity.
Qed.

Lemma hist_of_bounds : forall l, Forall (fun b : Z * Z => fst b = 1%Z) l -> hist_of (map snd (rev l)) = l.
Proof.
  intros l H. unfold hist_of. rewrite map_rev, map_rev, rev_involutive, map_map.
  induction H as [|[lo hi] r Hb _ IH]; [reflexivity|]. cbn [map snd fst] in *. subst lo. rewrite IH. reflexivity.
Qed.

Lemma hist_ok_fst : forall l, hist_ok l -> Forall (fun b : Z * Z => fst b = 1%Z) l.
Proof. intros l H. eapply Forall_impl; [|exact H]. intros b [Hb _]. exact Hb. Qed.

(* EVERY evaluation, wherever it happens along a run: the history grows by ranges (1, n) with
   2 <= n, the values that the evaluation used (the literals of C17_as_if_literals) are the values
   of that segment, and under gen_in_range each of them lies in its range *)
Theorem evaluation_draws_in_range : forall G c e rng,
  exists l, snd (eval G c e rng) = l ++ rng /\ hist_ok l /\
    snd (literalize G c e rng) = rev (seg_values G l rng) /\
    (gen_in_range G ->
     Forall2 (fun v b => (fst b <= v < snd b)%Z /\ (0 <= v)%Z) (seg_values G l rng) l).
Proof.
  intros G c e rng. destruct (eval_draws_ok G e c rng) as [l [Hl Hok]].
  exists l. split; [exact Hl|]. split; [exact Hok|]. split.
  - destruct (drawn_values_are_draws G c e rng) as [l' [Hl' Hd]].
    rewrite Hl in Hl'. apply app_inv_tail in Hl'. subst l'.
    rewrite Hd, draws_seg_values, hist_of_bounds by (apply hist_ok_fst; exact Hok). reflexivity.
  - intro HG. apply seg_values_in_range; assumption.
Qed.

(* ------------------------------------------------------------------ the ghost trace of the statement iterator *)

(* Stmt.next is generic in the context type: run it on contexts paired with a ghost T that the
   evaluations and the reset update; forgetting the ghost gives the machine on plain contexts *)
Section GHOST.
Variables (C F W T : Type).
Variable eval : C -> expr -> C * (Z + F).
Variable row_eval : C -> list dentry -> C * (W + F).
Variable setv : C -> name -> Z -> C.
Variable getv : C -> name -> option Z.
Variables push pop reset : C -> C.
Variable g_eval : C -> expr -> T -> T.
Variable g_row : C -> list dentry -> T -> T.
Variable g_reset : C -> T -> T.

Definition evalg (ct : C * T) (e : expr) : (C * T) * (Z + F) :=
  let (c1, v) := eval (fst ct) e in ((c1, g_eval (fst ct) e (snd ct)), v).
Definition rowg (ct : C * T) (d : list dentry) : (C * T) * (W + F) :=
  let (c1, v) := row_eval (fst ct) d in ((c1, g_row (fst ct) d (snd ct)), v).
Definition setvg (ct : C * T) (x : name) (z : Z) : C * T := (setv (fst ct) x z, snd ct).
Definition getvg (ct : C * T) (x : name) : option Z := getv (fst ct) x.
Definition pushg (ct : C * T) : C * T := (push (fst ct), snd ct).
Definition popg (ct : C * T) : C * T := (pop (fst ct), snd ct).
Definition resetg (ct : C * T) : C * T := (reset (fst ct), g_reset (fst ct) (snd ct)).

Definition nextg := Stmt.next (C * T) F W evalg rowg setvg getvg pushg popg resetg.

Definition forget (r : nres (C * T) F W) : nres C F W :=
  match r with
  | NYield w l it ct => NYield w l it (fst ct)
  | NDone it ct => NDone it (fst ct)
  | NErr x it ct => NErr x it (fst ct)
  | NPanic s => NPanic s
  | NOOF => NOOF
  end.

Local Notation next := (Stmt.next C F W eval row_eval setv getv push pop reset).

Lemma nextg_forget : forall f it ct, forget (nextg f it ct) = next f it (fst ct).
Proof.
  induction f as [|f IH]; intros it ct; [reflexivity|].
  unfold nextg. rewrite !next_S. fold nextg.
  destruct it as [rest st]. destruct st as [|ls|ls|inner ls|ls|ws|inner ws].
  - destruct rest as [|s r0]; [reflexivity|].
    destruct s as [n e|d l|v e body|e body|].
    + unfold evalg. destruct (eval (fst ct) e) as [c1 [z|x]]; [|reflexivity].
      rewrite IH. reflexivity.
    + unfold rowg. destruct (row_eval (fst ct) d) as [c1 [w|x]]; reflexivity.
    + unfold evalg. destruct (eval (fst ct) e) as [c1 [z|x]]; [|reflexivity].
      rewrite IH. reflexivity.
    + rewrite IH. reflexivity.
    + rewrite IH. reflexivity.
  - destruct (Z.ltb 0 (lmax ls)); rewrite IH; reflexivity.
  - rewrite IH. reflexivity.
  - rewrite <- (IH inner ct).
    destruct (nextg f inner ct) as [w l inner' c'|it' c'|x it' c'|s|]; cbn [forget]; try reflexivity.
    rewrite IH. reflexivity.
  - unfold getvg. destruct (getv (fst ct) (lvar ls)) as [i|]; [|reflexivity].
    destruct (Z.ltb (wadd i 1) (lmax ls)); rewrite IH; reflexivity.
  - unfold evalg. destruct (eval (fst ct) (wcond ws)) as [c1 [z|x]]; [|reflexivity].
    destruct (Z.eqb z 0); rewrite IH; reflexivity.
  - rewrite <- (IH inner ct).
    destruct (nextg f inner ct) as [w l inner' c'|it' c'|x it' c'|s|]; cbn [forget]; try reflexivity.
    rewrite IH. reflexivity.
Qed.

End GHOST.

(* ------------------------------------------------------------------ events *)

(* what the statement iterator does that can move the generator; c is the context in which it
   happens *)
Inductive gev :=
| GEval (c : ctx) (e : expr)            (* let x = e; / loop(v, e) / while(e): e is evaluated *)
| GRow (c : ctx) (d : list dentry)      (* a data row: its entries are evaluated, left to right *)
| GReset (c : ctx).                     (* resetRandom; *)

Definition gev_ctx (ev : gev) : ctx := match ev with GEval c _ | GRow c _ | GReset c => c end.
Definition gev_pre (ev : gev) : rng_state := crng (gev_ctx ev).
Definition is_reset (ev : gev) : bool := match ev with GReset _ => true | _ => false end.
(* some resetRandom; was executed *)
Definition trace_resets (t : list gev) : bool := existsb is_reset t.

Section TRACE.
Variable G : gen.

(* the history the event leaves *)
Definition gev_post (ev : gev) : rng_state :=
  match ev with
  | GEval c e => snd (eval G c e (crng c))
  | GRow c d => crng (fst (row_eval G c d))
  | GReset _ => []
  end.

(* the event is an evaluation that fails with x *)
Definition gev_fails (ev : gev) (x : xfail) : Prop :=
  match ev with
  | GEval c e => snd (lift_eval G c e) = inr x
  | GRow c d => snd (lift_row_eval G c d) = inr x
  | GReset _ => False
  end.

(* the trace leads from the history h to the history h': every event starts where its predecessor
   ended *)
Fixpoint chained (t : list gev) (h h' : rng_state) : Prop :=
  match t with
  | [] => h' = h
  | ev :: r => gev_pre ev = h /\ chained r (gev_post ev) h'
  end.

Lemma chained_snoc : forall t h h1 ev,
  chained t h h1 -> gev_pre ev = h1 -> chained (t ++ [ev]) h (gev_post ev).
Proof.
  induction t as [|a t IH]; intros h h1 ev H Hp; cbn [chained app] in *.
  - subst. auto.
  - destruct H as [Ha H]. split; [exact Ha|]. eapply IH; (timeout 20 eauto).
Qed.

Lemma chained_last : forall t h h' ev, chained (t ++ [ev]) h h' -> h' = gev_post ev.
Proof.
  induction t as [|a t IH]; intros h h' ev H; cbn [chained app] in H.
  - destruct H as [_ H]. exact H.
  - destruct H as [_ H]. eapply IH; exact H.
Qed.

Lemma chained_fun : forall t h h1 h2, chained t h h1 -> chained t h h2 -> h1 = h2.
Proof.
  induction t as [|a t IH]; intros h h1 h2 H1 H2; cbn [chained] in *; [congruence|].
  destruct H1 as [_ H1]. destruct H2 as [_ H2]. eapply IH; (timeout 20 eauto).
Qed.

(* an evaluation puts its draws in front of what it found; a reset leaves [] *)
Lemma gev_post_grows : forall ev, is_reset ev = false -> grows (gev_pre ev) (gev_post ev).
Proof.
  intros [c e|c d|c] H; try discriminate H; unfold gev_pre; cbn [gev_ctx gev_post].
  - apply eval_draws_ok.
  - apply row_eval_grows.
Qed.

Lemma gev_post_reset : forall ev, is_reset ev = true -> gev_post ev = [].
Proof. intros [c e|c d|c] H; try discriminate H. reflexivity. Qed.

(* THE SHAPE: new ++ old', old' = the old history, or [] when a resetRandom; was executed; new =
   the draws made since (the last reset, if any) *)
Lemma chained_shape : forall t h h', chained t h h' ->
  grows (if trace_resets t then [] else h) h'.
Proof.
  induction t as [|ev t IH]; intros h h' H; cbn [chained] in H.
  - subst. apply grows_refl.
  - destruct H as [Hp H]. specialize (IH _ _ H). unfold trace_resets in *. cbn [existsb].
    destruct (existsb is_reset t).
    + rewrite orb_true_r. exact IH.
    + rewrite orb_false_r. destruct (is_reset ev) eqn:Er.
      * rewrite (gev_post_reset ev Er) in IH. exact IH.
      * eapply grows_trans; [|exact IH]. rewrite <- Hp. apply gev_post_grows. exact Er.
Qed.

Corollary chained_no_reset_grows : forall t h h', chained t h h' -> trace_resets t = false -> grows h h'.
Proof. intros t h h' H Hr. pose proof (chained_shape t h h' H) as K. rewrite Hr in K. exact K. Qed.

Corollary chained_hist_ok : forall t h h', chained t h h' -> hist_ok h -> hist_ok h'.
Proof.
  intros t h h' H Hh. pose proof (chained_shape t h h' H) as K.
  eapply grows_hist_ok; [exact K|]. destruct (trace_resets t); [constructor|exact Hh].
Qed.

(* the trace ends with a reset: the history is that of a fresh run *)
Corollary chained_ends_with_reset : forall t c h h', chained (t ++ [GReset c]) h h' -> h' = [].
Proof. intros t c h h' H. apply chained_last in H. exact H. Qed.

(* ---------------------------------------------------------------- the instrumented iterator *)

Definition snext_g :=
  nextg ctx xfail (list dentry) (list gev) (lift_eval G) (lift_row_eval G) ctx_set loop_var_value
        ctx_push_frame ctx_pop_frame ctx_reset_random_seed
        (fun c e t => t ++ [GEval c e]) (fun c d t => t ++ [GRow c d]) (fun c t => t ++ [GReset c]).

(* the ghost is a ghost: the instrumented iterator IS Iter.snext *)
Lemma snext_g_forget : forall fuel it c t,
  forget ctx xfail (list dentry) (list gev) (snext_g fuel it (c, t)) = Iter.snext G fuel it c.
Proof. intros. unfold snext_g, Iter.snext. rewrite nextg_forget. reflexivity. Qed.

Definition nres_chained (h0 : rng_state) (r : nres (ctx * list gev) xfail (list dentry)) : Prop :=
  match r with
  | NYield _ _ _ ct | NDone _ ct => chained (snd ct) h0 (crng (fst ct))
  | NErr x _ ct => chained (snd ct) h0 (crng (fst ct)) /\
                   exists t1 ev, snd ct = t1 ++ [ev] /\ gev_fails ev x
  | _ => True
  end.

Local Ltac red_ctx :=
  unfold setvg, pushg, popg, resetg;
  cbn [fst snd ctx_set ctx_with_vars ctx_push_frame ctx_pop_frame ctx_reset_random_seed ctx_with_rng crng].

Lemma snext_g_chained : forall fuel it c t0 h0, chained t0 h0 (crng c) ->
  nres_chained h0 (snext_g fuel it (c, t0)).
Proof.
  induction fuel as [|f IH]; intros it c t0 h0 H0; [exact I|].
  unfold snext_g, nextg. rewrite next_S.
  change (Stmt.next (ctx * list gev) xfail (list dentry) _ _ _ _ _ _ _) with snext_g.
  destruct it as [rest st]. destruct st as [|ls|ls|inner ls|ls|ws|inner ws].
  - destruct rest as [|s r0]; [exact H0|].
    destruct s as [n e|d l|v e body|e body|].
    + unfold evalg. cbn [fst snd].
      pose proof (lift_eval_crng G c e) as Hc.
      destruct (lift_eval G c e) as [c1 [z|x]] eqn:E; cbn [fst] in Hc.
      * apply IH; red_ctx. rewrite Hc.
        exact (chained_snoc _ _ _ (GEval c e) H0 eq_refl).
      * cbn [nres_chained fst snd]. split.
        -- rewrite Hc. exact (chained_snoc _ _ _ (GEval c e) H0 eq_refl).
        -- exists t0, (GEval c e). split; [reflexivity|]. cbn [gev_fails]. rewrite E. reflexivity.
    + unfold rowg. cbn [fst snd].
      pose proof (lift_row_eval_crng G c d) as Hc.
      destruct (lift_row_eval G c d) as [c1 [w|x]] eqn:E; cbn [fst] in Hc; cbn [nres_chained fst snd].
      * rewrite Hc. exact (chained_snoc _ _ _ (GRow c d) H0 eq_refl).
      * split.
        -- rewrite Hc. exact (chained_snoc _ _ _ (GRow c d) H0 eq_refl).
        -- exists t0, (GRow c d). split; [reflexivity|]. cbn [gev_fails]. rewrite E. reflexivity.
    + unfold evalg. cbn [fst snd].
      pose proof (lift_eval_crng G c e) as Hc.
      destruct (lift_eval G c e) as [c1 [z|x]] eqn:E; cbn [fst] in Hc.
      * apply IH; red_ctx. rewrite Hc. exact (chained_snoc _ _ _ (GEval c e) H0 eq_refl).
      * cbn [nres_chained fst snd]. split.
        -- rewrite Hc. exact (chained_snoc _ _ _ (GEval c e) H0 eq_refl).
        -- exists t0, (GEval c e). split; [reflexivity|]. cbn [gev_fails]. rewrite E. reflexivity.
    + apply IH; red_ctx. exact H0.
    + unfold resetg. cbn [fst snd]. apply IH; red_ctx.
      exact (chained_snoc _ _ _ (GReset c) H0 eq_refl).
  - destruct (Z.ltb 0 (lmax ls)); apply IH; red_ctx; exact H0.
  - apply IH; red_ctx. exact H0.
  - pose proof (IH inner c t0 h0 H0) as Hi.
    destruct (snext_g f inner (c, t0)) as [w l inner' [c' t']|it' [c' t']|x it' [c' t']|s|];
      cbn [nres_chained fst snd] in Hi |- *; try exact Hi.
    apply IH; red_ctx. exact Hi.
  - unfold getvg. cbn [fst].
    destruct (loop_var_value c (lvar ls)) as [i|]; [|exact I].
    destruct (Z.ltb (wadd i 1) (lmax ls)); apply IH; red_ctx; exact H0.
  - unfold evalg. cbn [fst snd].
    pose proof (lift_eval_crng G c (wcond ws)) as Hc.
    destruct (lift_eval G c (wcond ws)) as [c1 [z|x]] eqn:E; cbn [fst] in Hc.
    + destruct (Z.eqb z 0); apply IH; red_ctx; rewrite Hc; exact (chained_snoc _ _ _ (GEval c (wcond ws)) H0 eq_refl).
    + cbn [nres_chained fst snd]. split.
      * rewrite Hc. exact (chained_snoc _ _ _ (GEval c (wcond ws)) H0 eq_refl).
      * exists t0, (GEval c (wcond ws)). split; [reflexivity|]. cbn [gev_fails]. rewrite E. reflexivity.
  - pose proof (IH inner c t0 h0 H0) as Hi.
    destruct (snext_g f inner (c, t0)) as [w l inner' [c' t']|it' [c' t']|x it' [c' t']|s|];
      cbn [nres_chained fst snd] in Hi |- *; try exact Hi.
    apply IH; red_ctx. exact Hi.
Qed.

End TRACE.

(* ------------------------------------------------------------------ the declared (virtual) signals *)

Section DECL.
Variable G : gen.
Variable tc : testcase.

Lemma virtual_rng_grows : forall c ois rng, grows rng (virtual_rng G c ois rng).
Proof.
  intros c ois. induction ois as [|[|n|e] r IH]; intro rng; cbn [virtual_rng]; try apply IH; [apply grows_refl|].
  eapply grows_trans; [apply eval_draws_ok|apply IH].
Qed.

(* the declared signals of the slots before k all evaluated, each from the history its
   predecessors left *)
Definition decl_ok_before (c : ctx) (ois : list out_index) (rng : rng_state) (k : nat) : Prop :=
  forall j e, j < k -> nth_error ois j = Some (OIVirtual e) ->
    exists v, fst (eval G c e (virtual_rng G c (firstn j ois) rng)) = Ok v.

(* WHAT THE LOOP OF extract_output_values DOES TO THE HISTORY, by its result.  ois = the index
   table, rng = the history when the loop starts, h' = the history when it ends.
     Ok                  : every declared signal was evaluated, in table order;
     Err (RT_Expr x)     : the declared signals up to AND INCLUDING the first one that fails (slot k);
     Err WrongOutputOrder: slot k is a device output that is not where the first answer had it; the
                           declared signals of the slots BEFORE k have been evaluated and their
                           draws stay, those after k are not evaluated. *)
Definition loop_history (c : ctx) (ois : list out_index) (rng : rng_state)
                        (r : R rterr (list outval)) (h' : rng_state) : Prop :=
  match r with
  | Ok _ => h' = virtual_rng G c ois rng /\ decl_ok_before c ois rng (length ois)
  | Err (RT_Expr x) =>
      exists k e, nth_error ois k = Some (OIVirtual e) /\ decl_ok_before c ois rng k /\
        fst (eval G c e (virtual_rng G c (firstn k ois) rng)) = Err x /\
        h' = virtual_rng G c (firstn (S k) ois) rng
  | Err RT_WrongOutputOrder =>
      exists k n, nth_error ois k = Some (OIOutput n) /\ decl_ok_before c ois rng k /\
        h' = virtual_rng G c (firstn k ois) rng
  | Err _ => False
  | _ => True
  end.

Definition lift_vals (v : outval) (r : R rterr (list outval)) : R rterr (list outval) :=
  match r with Ok vs => Ok (v :: vs) | other => other end.

Lemma dob_skip : forall c o ois rng k, (forall e, o <> OIVirtual e) ->
  decl_ok_before c ois rng k -> decl_ok_before c (o :: ois) rng (S k).
Proof.
  intros c o ois rng k Ho H [|j] e Hj Hn; cbn [nth_error] in Hn.
  - inversion Hn; subst o. exfalso. eapply Ho; reflexivity.
  - cbn [firstn]. destruct (H j e ltac:(lia) Hn) as [v Hv]. exists v.
    destruct o as [|n|e0]; [exact Hv|exact Hv|exfalso; eapply Ho; reflexivity].
Qed.

Lemma dob_virtual : forall c e0 ois rng k n, fst (eval G c e0 rng) = Ok n ->
  decl_ok_before c ois (snd (eval G c e0 rng)) k -> decl_ok_before c (OIVirtual e0 :: ois) rng (S k).
Proof.
  intros c e0 ois rng k n H0 H [|j] e Hj Hn; cbn [nth_error] in Hn.
  - inversion Hn; subst e. exists n. exact H0.
  - cbn [firstn virtual_rng]. exact (H j e ltac:(lia) Hn).
Qed.

Lemma lh_skip : forall c o ois rng r h' v, (forall e, o <> OIVirtual e) ->
  loop_history c ois rng r h' -> loop_history c (o :: ois) rng (lift_vals v r) h'.
Proof.
  intros c o ois rng r h' v Ho H.
  assert (Hv : forall l, virtual_rng G c (o :: l) rng = virtual_rng G c l rng).
  { intro l. destruct o as [|n|e0]; [reflexivity|reflexivity|exfalso; eapply Ho; reflexivity]. }
  destruct r as [vs|e|s|]; cbn [lift_vals loop_history] in *; try exact H.
  - destruct H as [H1 H2]. split; [rewrite Hv; exact H1|]. cbn [length]. apply dob_skip; assumption.
  - destruct e as [a b| |nm|x]; try exact H.
    + destruct H as [k [n [Hk [Hd Hh]]]]. exists (S k), n. split; [exact Hk|].
      split; [apply dob_skip; assumption|]. cbn [firstn]. rewrite Hv. exact Hh.
    + destruct H as [k [e [Hk [Hd [He Hh]]]]]. exists (S k), e. split; [exact Hk|].
      split; [apply dob_skip; assumption|]. cbn [firstn]. rewrite !Hv. auto.
Qed.

Lemma lh_virtual : forall c e0 ois rng r h' n v, fst (eval G c e0 rng) = Ok n ->
  loop_history c ois (snd (eval G c e0 rng)) r h' ->
  loop_history c (OIVirtual e0 :: ois) rng (lift_vals v r) h'.
Proof.
  intros c e0 ois rng r h' n v H0 H.
  destruct r as [vs|e|s|]; cbn [lift_vals loop_history] in *; try exact H.
  - destruct H as [H1 H2]. split; [exact H1|]. cbn [length]. eapply dob_virtual; (timeout 20 eauto).
  - destruct e as [a b| |nm|x]; try exact H.
    + destruct H as [k [m [Hk [Hd Hh]]]]. exists (S k), m. split; [exact Hk|].
      split; [eapply dob_virtual; (timeout 20 eauto)|exact Hh].
    + destruct H as [k [e [Hk [Hd [He Hh]]]]]. exists (S k), e. split; [exact Hk|].
      split; [eapply dob_virtual; (timeout 20 eauto)|]. split; [exact He|exact Hh].
Qed.

Lemma dob_0 : forall c ois rng, decl_ok_before c ois rng 0.
Proof. intros c ois rng j e Hj. lia. Qed.

Lemma cont_eq : forall (p : ctx * R rterr (list outval)) v,
  match p with (c2, Ok vs) => (c2, Ok (v :: vs)) | other => other end = (fst p, lift_vals v (snd p)).
Proof. intros [c [vs|e|s|]] v; reflexivity. Qed.

(* cb: any context that reads like the one the loop runs in (the loop only moves the generator) *)
Lemma extract_loop_history : forall pairs outs cb c c2 r,
  (forall x, ctx_get c x = ctx_get cb x) ->
  extract_loop G tc pairs outs c = (c2, r) ->
  loop_history cb (map snd pairs) (crng c) r (crng c2).
Proof.
  induction pairs as [|[idx o] rest IH]; intros outs cb c c2 r Hb H.
  - cbn [extract_loop] in H. inversion H; subst. cbn [map loop_history virtual_rng length].
    split; [reflexivity|apply dob_0].
  - rewrite extract_loop_cons in H. cbv zeta in H. simpl snd in H. simpl fst in H. cbn [map snd].
    destruct o as [|n|e].
    + destruct (extract_loop G tc rest outs c) as [c3 r3] eqn:E.
      pose proof (IH _ _ _ _ _ Hb E) as K.
      apply (lh_skip cb OINone _ _ _ _ OX) in K; [|intros e0; discriminate].
      destruct r3; inversion H; subst; exact K.
    + destruct (get_signal tc (ei_signal_index idx)) as [sg|e|s|] eqn:Eg.
      * assert (Hbad : loop_history cb (OIOutput n :: map snd rest) (crng c)
                         (Err RT_WrongOutputOrder) (crng c)).
        { cbn [loop_history]. exists 0, n.
          split; [reflexivity|]. split; [apply dob_0|reflexivity]. }
        destruct (nth_error outs n) as [oe|]; [|inversion H; subst; exact Hbad].
        destruct (signal_eqb sg (oe_sig oe)); [|inversion H; subst; exact Hbad].
        destruct (extract_loop G tc rest outs c) as [c3 r3] eqn:E.
        pose proof (IH _ _ _ _ _ Hb E) as K.
        apply (lh_skip cb (OIOutput n) _ _ _ _ (oe_val oe)) in K; [|intros e0; discriminate].
        destruct r3; inversion H; subst; exact K.
      * exfalso. unfold get_signal in Eg. destruct (nth_error (signals tc) (ei_signal_index idx)); discriminate Eg.
      * inversion H; subst. exact I.
      * inversion H; subst. exact I.
    + rewrite (eval_blind_to G c cb e (crng c) Hb) in H.
      destruct (fst (eval G cb e (crng c))) as [n|x|s|] eqn:Ev.
      * match type of H with context [extract_loop G tc rest outs ?c1] =>
          destruct (extract_loop G tc rest outs c1) as [c3 r3] eqn:E;
          pose proof (IH outs cb c1 _ _ (fun x => Hb x) E) as K end.
        cbn [ctx_with_rng crng] in K.
        apply (lh_virtual cb e _ _ _ _ n (OVal n) Ev) in K.
        destruct r3; inversion H; subst; exact K.
      * inversion H; subst. cbn [loop_history ctx_with_rng crng]. exists 0, e.
        split; [reflexivity|]. split; [apply dob_0|]. split; [exact Ev|reflexivity].
      * inversion H; subst. exact I.
      * inversion H; subst. exact I.
Qed.

Lemma loop_history_blind : forall c1 c2 ois rng r h', (forall x, ctx_get c1 x = ctx_get c2 x) ->
  loop_history c1 ois rng r h' -> loop_history c2 ois rng r h'.
Proof.
  intros c1 c2 ois rng r h' Hb H.
  assert (Hd : forall k, decl_ok_before c1 ois rng k -> decl_ok_before c2 ois rng k).
  { intros k Hk j e Hj Hn. destruct (Hk j e Hj Hn) as [v Hv]. exists v.
    rewrite <- (virtual_rng_blind G c1 c2 _ _ Hb), <- (eval_blind_to G c1 c2 e _ Hb). exact Hv. }
  destruct r as [vs|e|s|]; cbn [loop_history] in *; try exact H.
  - destruct H as [H1 H2]. split; [rewrite <- (virtual_rng_blind G c1 c2 _ _ Hb); exact H1|auto].
  - destruct e as [a b| |nm|x]; try exact H.
    + destruct H as [k [n [Hk [Hd' Hh]]]]. exists k, n. split; [exact Hk|]. split; [auto|].
      rewrite <- (virtual_rng_blind G c1 c2 _ _ Hb). exact Hh.
    + destruct H as [k [e [Hk [Hd' [He Hh]]]]]. exists k, e. split; [exact Hk|]. split; [auto|].
      rewrite <- !(virtual_rng_blind G c1 c2 _ _ Hb), <- (eval_blind_to G c1 c2 e _ Hb). auto.
Qed.

(* in every case the loop only puts draws in front *)
Lemma loop_history_grows : forall c ois rng r h', loop_history c ois rng r h' ->
  match r with Ok _ | Err _ => grows rng h' | _ => True end.
Proof.
  intros c ois rng r h' H. destruct r as [vs|e|s|]; cbn [loop_history] in H; try exact I.
  - destruct H as [H _]. subst. apply virtual_rng_grows.
  - destruct e as [a b| |nm|x]; try contradiction.
    + destruct H as [k [n [_ [_ H]]]]. subst. apply virtual_rng_grows.
    + destruct H as [k [e [_ [_ [_ H]]]]]. subst. apply virtual_rng_grows.
Qed.

(* extract_output_values: a wrong NUMBER of outputs is refused before the loop - no declared signal
   is evaluated; otherwise the loop runs in the context with the variable maps swapped *)
Lemma extract_history : forall nout oi outs c c2 r,
  extract_output_values G tc nout oi outs c = (c2, r) ->
  (length outs <> nout /\ r = Err (RT_WrongNumberOfOutputs (N.of_nat nout) (N.of_nat (length outs))) /\
   crng c2 = crng c)
  \/ (length outs = nout /\
      loop_history (ctx_swap_vars c) (map snd (combine (tc_expected_indices tc) oi)) (crng c) r (crng c2)).
Proof.
  intros nout oi outs c c2 r H. rewrite extract_unfold in H.
  destruct (Nat.eqb (length outs) nout) eqn:El; cbn [negb] in H.
  - apply Nat.eqb_eq in El. right. split; [exact El|]. inversion H; subst.
    change (crng (ctx_swap_vars ?x)) with (crng x).
    apply (extract_loop_history _ outs (ctx_swap_vars c) (ctx_swap_vars c)); [reflexivity|].
    apply surjective_pairing.
  - apply Nat.eqb_neq in El. left. inversion H; subst. auto.
Qed.

End DECL.

(* ------------------------------------------------------------------ one call of next() *)

Definition nres_trace (r : nres (ctx * list gev) xfail (list dentry)) : list gev :=
  match r with NYield _ _ _ ct | NDone _ ct | NErr _ _ ct => snd ct | _ => [] end.

(* the events of the statements that the call of next() on st executes: none when the expansion
   cache still holds rows (LinesRunProof's refill_call st = false), else those of the one call of
   the statement iterator *)
Definition stmt_trace (G : gen) (fuel : nat) (st : istate) : list gev :=
  match i_cache st with
  | [] => nres_trace (snext_g G fuel (i_iter st) (i_ctx st, []))
  | _ => []
  end.

(* the context in which the declared signals of a row are evaluated (the variable maps swapped,
   the driver's answer as the outputs), and the index table they are taken from *)
Definition decl_ctx (st1 : istate) (outs : list out_entry) : ctx :=
  ctx_swap_vars (ctx_set_outputs (i_ctx st1) (outs_map outs)).
Definition decl_table (tc : testcase) (st : istate) : list out_index :=
  map snd (combine (tc_expected_indices tc) (i_outidx st)).

Section RANDOM_RUN.
Variable G : gen.
Variable DE : Type.
Variable D : driver DE.
Variable w_default : bool.
Variable tc : testcase.

Local Notation snext := (Iter.snext G).
Local Notation get_row := (Iter.get_row G tc).
Local Notation inext := (Iter.inext G DE D w_default tc).
Local Notation try_new := (Iter.try_new DE D tc).
Local Notation collect_e := (RunRefineE.collect_e G DE D w_default tc).
Local Notation collect := (IterLogProof.collect G DE D w_default tc).
Local Notation reach := (VectorProof.reach G DE D w_default tc).
Local Notation reachable := (OutputsRunProof.reachable G DE D w_default tc).
Local Notation next_state := (VectorProof.next_state DE).
Local Notation steps_e := (VarsRunProof.steps_e G DE D w_default tc).
Local Notation is_step := (VarsRunProof.is_step G DE D w_default tc).
Local Notation stmt_trace := (stmt_trace G).
Local Notation chained := (chained G).

(* get_row: the statements, then finish_row, which leaves the context alone *)
Lemma get_row_history : forall fuel st,
  match get_row fuel st with
  | GRNone st1 | GRRow _ st1 => chained (stmt_trace fuel st) (crng (i_ctx st)) (crng (i_ctx st1))
  | GRErr x st1 =>
      chained (stmt_trace fuel st) (crng (i_ctx st)) (crng (i_ctx st1)) /\
      exists t1 ev, stmt_trace fuel st = t1 ++ [ev] /\ gev_fails G ev (XFErr x) /\
                    crng (i_ctx st1) = gev_post G ev
  | _ => True
  end.
Proof.
  intros fuel st. rewrite IterLogProof.get_row_unfold. unfold RandomRunProof.stmt_trace.
  destruct (i_cache st) as [|d rest] eqn:Hc.
  - pose proof (snext_g_forget G fuel (i_iter st) (i_ctx st) []) as Hf.
    pose proof (snext_g_chained G fuel (i_iter st) (i_ctx st) [] (crng (i_ctx st)) eq_refl) as Hk.
    destruct (snext_g G fuel (i_iter st) (i_ctx st, [])) as [w l it' [c' t]|it' [c' t]|x it' [c' t]|s|];
      cbn [forget fst] in Hf; rewrite <- Hf; cbn [nres_chained nres_trace fst snd] in Hk |- *; try exact I.
    + match goal with |- context [finish_row _ ?sx] => pose proof (finish_row_inv tc sx) as Hfi;
        destruct (finish_row tc sx) as [st2|er st2|x st2|s0|] end; try contradiction; try exact I.
      destruct Hfi as [H1 _]. rewrite H1. exact Hk.
    + exact Hk.
    + destruct x as [x|s]; [|exact I]. cbn [with_iter_ctx i_ctx].
      destruct Hk as [Hk [t1 [ev [Ht Hfail]]]]. split; [exact Hk|].
      exists t1, ev. split; [exact Ht|]. split; [exact Hfail|]. subst t. eapply chained_last; exact Hk.
  - pose proof (finish_row_inv tc st) as Hfi.
    destruct (finish_row tc st) as [st2|er st2|x st2|s|]; try contradiction; try exact I.
    destruct Hfi as [H1 _]. cbn [RandomRunProof.chained]. rewrite H1. reflexivity.
Qed.

(* (1) THE CASE TABLE.  st1 = the state right after get_row (the statements executed, the row's
   entries evaluated).  The history of st1 is reached from that of st along the trace; then
     - a row whose answer is read and accepted: all the declared signals (loop_history, Ok);
     - a write-only row (the middle rows of a clock expansion): nothing more;
     - a failed call: nothing more;
     - a wrong NUMBER of outputs: nothing more;
     - a wrong ORDER / a declared signal that fails: what loop_history says for that error;
     - an evaluation error of the program (no call): the history is the one the failing evaluation
       left; the trace ends with that evaluation;
     - None: the trace only. *)
Theorem history_step : forall fuel st,
  match inext fuel st with
  | ItNone st' =>
      get_row fuel st = GRNone st' /\
      chained (stmt_trace fuel st) (crng (i_ctx st)) (crng (i_ctx st'))
  | ItRow row st' =>
      exists er st1, get_row fuel st = GRRow er st1 /\
        chained (stmt_trace fuel st) (crng (i_ctx st)) (crng (i_ctx st1)) /\
        ((er_update_output er = true /\ exists outs vals,
            D (i_log st) (RW, er_inputs er) = DrvOk outs /\ length outs = i_nout st /\
            loop_history G (decl_ctx st1 outs) (decl_table tc st) (crng (i_ctx st1)) (Ok vals)
                         (crng (i_ctx st')))
         \/ (er_update_output er = false /\ crng (i_ctx st') = crng (i_ctx st1)))
  | ItErr (IE_Driver e) st' =>
      exists er st1, get_row fuel st = GRRow er st1 /\
        chained (stmt_trace fuel st) (crng (i_ctx st)) (crng (i_ctx st1)) /\
        crng (i_ctx st') = crng (i_ctx st1)
  | ItErr (IE_Runtime r) st' =>
      (exists x, r = RT_Expr x /\ get_row fuel st = GRErr x st' /\
         chained (stmt_trace fuel st) (crng (i_ctx st)) (crng (i_ctx st')) /\
         exists t1 ev, stmt_trace fuel st = t1 ++ [ev] /\ gev_fails G ev (XFErr x) /\
                       crng (i_ctx st') = gev_post G ev)
      \/
      (exists er st1 outs, get_row fuel st = GRRow er st1 /\ er_update_output er = true /\
         D (i_log st) (RW, er_inputs er) = DrvOk outs /\
         chained (stmt_trace fuel st) (crng (i_ctx st)) (crng (i_ctx st1)) /\
         ((length outs <> i_nout st /\
           r = RT_WrongNumberOfOutputs (N.of_nat (i_nout st)) (N.of_nat (length outs)) /\
           crng (i_ctx st') = crng (i_ctx st1))
          \/
          (length outs = i_nout st /\
           loop_history G (decl_ctx st1 outs) (decl_table tc st) (crng (i_ctx st1)) (Err r)
                        (crng (i_ctx st')))))
  | ItPanic _ | ItOOF => True
  end.
Proof.
  intros fuel st. pose proof (inext_inv G DE D w_default tc fuel st) as H.
  pose proof (get_row_history fuel st) as Hh.
  pose proof (get_row_preserves G tc fuel st) as K.
  destruct (inext fuel st) as [st'|row st'|[e|r] st'|s|]; try exact I.
  - rewrite H in Hh. split; [exact H|exact Hh].
  - destruct H as [er [st1 [Hg [[Hu [outs [c2 [vals [HD [He [Hr Hs]]]]]]]|[Hu [outs [HD [Hr Hs]]]]]]]];
      rewrite Hg in Hh, K; exists er, st1; (split; [exact Hg|]); (split; [exact Hh|]); subst st';
      cbn [with_ctx_log i_ctx].
    + left. split; [exact Hu|]. exists outs, vals. split; [exact HD|].
      destruct K as [_ [_ [_ [Koi Kn]]]]. rewrite Koi, Kn in He.
      destruct (extract_history G tc _ _ _ _ _ _ He) as [[_ [Hbad _]]|[Hlen Hl]]; [discriminate Hbad|].
      split; [exact Hlen|exact Hl].
    + right. split; [exact Hu|reflexivity].
  - destruct H as [er [st1 [Hg [HD Hs]]]]. cbv zeta in HD, Hs. rewrite Hg in Hh.
    exists er, st1. split; [exact Hg|]. split; [exact Hh|]. subst st'. reflexivity.
  - destruct H as [[x [Hr Hg]]|[er [st1 [outs [c2 [Hg [Hu [HD [He Hs]]]]]]]]]; rewrite Hg in Hh, K.
    + left. exists x. split; [exact Hr|]. split; [exact Hg|]. exact Hh.
    + right. exists er, st1, outs. split; [exact Hg|]. split; [exact Hu|]. split; [exact HD|].
      split; [exact Hh|]. subst st'. cbn [with_ctx_log i_ctx].
      destruct K as [_ [_ [_ [Koi Kn]]]]. rewrite Koi, Kn in He.
      destruct (extract_history G tc _ _ _ _ _ _ He) as [[Hlen [Hbad Hc]]|[Hlen Hl]].
      * left. split; [exact Hlen|]. inversion Hbad; subst r. split; [reflexivity|exact Hc].
      * right. split; [exact Hlen|exact Hl].
Qed.

(* a call that finds rows in the expansion cache executes no statement: the row it sends is sent
   with the history as it was *)
Lemma cached_row_keeps_history : forall fuel st, i_cache st <> [] ->
  stmt_trace fuel st = [] /\
  forall er st1, get_row fuel st = GRRow er st1 -> crng (i_ctx st1) = crng (i_ctx st).
Proof.
  intros fuel st Hc.
  assert (Ht : stmt_trace fuel st = []).
  { unfold RandomRunProof.stmt_trace. destruct (i_cache st); [exfalso; apply Hc; reflexivity|reflexivity]. }
  split; [exact Ht|]. intros er st1 Hg. pose proof (get_row_history fuel st) as H.
  rewrite Hg, Ht in H. exact H.
Qed.

(* every outcome that hands a state back, split at st1 = the state after get_row *)
Lemma step_split : forall fuel st st', next_state (inext fuel st) = Some st' ->
  exists st1,
    (get_row fuel st = GRNone st1 \/ (exists er, get_row fuel st = GRRow er st1) \/
     (exists x, get_row fuel st = GRErr x st1)) /\
    chained (stmt_trace fuel st) (crng (i_ctx st)) (crng (i_ctx st1)) /\
    grows (crng (i_ctx st1)) (crng (i_ctx st')) /\
    (crng (i_ctx st') <> crng (i_ctx st1) ->
       exists er outs, get_row fuel st = GRRow er st1 /\ er_update_output er = true /\
         D (i_log st) (RW, er_inputs er) = DrvOk outs /\ length outs = i_nout st).
Proof.
  intros fuel st st' Hn. pose proof (history_step fuel st) as H.
  destruct (inext fuel st) as [s1|row s1|[e|r] s1|s|]; cbn [VectorProof.next_state] in Hn;
    try discriminate Hn; inversion Hn; subst s1; clear Hn.
  - destruct H as [Hg Hc]. exists st'. split; [left; exact Hg|]. split; [exact Hc|].
    split; [apply grows_refl|]. intro K; exfalso; apply K; reflexivity.
  - destruct H as [er [st1 [Hg [Hc [[Hu [outs [vals [HD [Hlen Hl]]]]]|[Hu Heq]]]]]]; exists st1;
      (split; [right; left; (timeout 20 eauto)|]); (split; [exact Hc|]).
    + split; [exact (loop_history_grows G _ _ _ _ _ Hl)|]. intros _. exists er, outs. auto.
    + rewrite Heq. split; [apply grows_refl|]. intro K; exfalso; apply K; reflexivity.
  - destruct H as [er [st1 [Hg [Hc Heq]]]]. exists st1. split; [right; left; (timeout 20 eauto)|]. split; [exact Hc|].
    rewrite Heq. split; [apply grows_refl|]. intro K; exfalso; apply K; reflexivity.
  - destruct H as [[x [Hr [Hg [Hc _]]]]|[er [st1 [outs [Hg [Hu [HD [Hc [[Hlen [Hr Heq]]|[Hlen Hl]]]]]]]]]].
    + exists st'. split; [right; right; (timeout 20 eauto)|]. split; [exact Hc|].
      split; [apply grows_refl|]. intro K; exfalso; apply K; reflexivity.
    + exists st1. split; [right; left; (timeout 20 eauto)|]. split; [exact Hc|].
      rewrite Heq. split; [apply grows_refl|]. intro K; exfalso; apply K; reflexivity.
    + exists st1. split; [right; left; (timeout 20 eauto)|]. split; [exact Hc|].
      split; [exact (loop_history_grows G _ _ _ _ _ Hl)|]. intros _. exists er, outs. auto.
Qed.

(* (1) IN THE WORDS OF THE TASK: after every outcome the history is decl ++ prog ++ old', where
   old' is the old history, or [] when a resetRandom; was executed on the way; prog = the draws of
   the statements executed and of the row's entries (since the last reset); decl = the draws of
   the declared signals, not empty only if the answer of a read call with the right number of
   outputs reached the loop of extract_output_values *)
Theorem history_step_shape : forall fuel st st', next_state (inext fuel st) = Some st' ->
  exists st1 prog decl,
    (get_row fuel st = GRNone st1 \/ (exists er, get_row fuel st = GRRow er st1) \/
     (exists x, get_row fuel st = GRErr x st1)) /\
    crng (i_ctx st1) = prog ++ (if trace_resets (stmt_trace fuel st) then [] else crng (i_ctx st)) /\
    crng (i_ctx st') = decl ++ crng (i_ctx st1) /\
    hist_ok prog /\ hist_ok decl /\
    (decl <> [] ->
       exists er outs, get_row fuel st = GRRow er st1 /\ er_update_output er = true /\
         D (i_log st) (RW, er_inputs er) = DrvOk outs /\ length outs = i_nout st).
Proof.
  intros fuel st st' Hn. destruct (step_split fuel st st' Hn) as [st1 [Hg [Hc [[decl [Hd Hdk]] Hcall]]]].
  destruct (chained_shape G _ _ _ Hc) as [prog [Hp Hpk]].
  exists st1, prog, decl. split; [exact Hg|]. split; [exact Hp|]. split; [exact Hd|].
  split; [exact Hpk|]. split; [exact Hdk|]. intro Hne. apply Hcall. intro E. apply Hne.
  rewrite Hd in E. apply (app_inv_tail (crng (i_ctx st1)) decl []). exact E.
Qed.

(* no resetRandom; executed: the history only grows *)
Corollary history_grows_without_reset : forall fuel st st',
  next_state (inext fuel st) = Some st' -> trace_resets (stmt_trace fuel st) = false ->
  grows (crng (i_ctx st)) (crng (i_ctx st')).
Proof.
  intros fuel st st' Hn Hr. destruct (step_split fuel st st' Hn) as [st1 [_ [Hc [Hg _]]]].
  eapply grows_trans; [|exact Hg]. eapply chained_no_reset_grows; (timeout 20 eauto).
Qed.

(* ------------------------------------------------------------------ (2) the invariant *)

Lemma step_hist_ok : forall fuel st st',
  hist_ok (crng (i_ctx st)) -> next_state (inext fuel st) = Some st' -> hist_ok (crng (i_ctx st')).
Proof.
  intros fuel st st' Hi Hn. destruct (step_split fuel st st' Hn) as [st1 [_ [Hc [Hg _]]]].
  eapply grows_hist_ok; [exact Hg|]. eapply chained_hist_ok; (timeout 20 eauto).
Qed.

(* hist_ok is preserved by next() in ALL outcomes *)
Theorem inext_hist_ok : forall fuel st, hist_ok (crng (i_ctx st)) ->
  match inext fuel st with
  | ItNone st' | ItRow _ st' | ItErr _ st' => hist_ok (crng (i_ctx st'))
  | ItPanic _ | ItOOF => True
  end.
Proof.
  intros fuel st Hi. pose proof (step_hist_ok fuel st) as H.
  destruct (inext fuel st) as [st'|row st'|e st'|s|]; try exact I; apply H; auto.
Qed.

(* the run starts with the empty history: the state of a freshly seeded generator *)
Theorem try_new_history : forall st0, try_new = NewOk st0 -> crng (i_ctx st0) = [].
Proof.
  intros st0 H. unfold Iter.try_new in H.
  destruct (generate_default_input_entries tc) as [ins| | |]; try discriminate.
  destruct (D [] (RW, ins)) as [e|outs]; [discriminate|].
  destruct (build_output_indices tc outs) as [oi| | |]; try discriminate.
  inversion H; subst st0. reflexivity.
Qed.

Lemma reach_hist_ok : forall fuel st st', reach fuel st st' ->
  hist_ok (crng (i_ctx st)) -> hist_ok (crng (i_ctx st')).
Proof.
  intros fuel st st' Hr. induction Hr as [st|st st1 st' Hn _ IH]; intro Hi; [exact Hi|].
  apply IH. eapply step_hist_ok; (timeout 20 eauto).
Qed.

Lemma reachable_hist_ok : forall st, reachable st -> hist_ok (crng (i_ctx st)).
Proof.
  intros st Hr. induction Hr as [st0 H0|fuel st st' _ IH Hn].
  - rewrite (try_new_history _ H0). constructor.
  - eapply step_hist_ok; [exact IH|exact Hn].
Qed.

(* every entry of a history that satisfies hist_ok is a range (1, hi), 2 <= hi, and the value that
   was drawn for it - G applied to the history below it - lies in [1, hi), hence in [0, hi) *)
Definition draws_in_range (h : rng_state) : Prop :=
  forall l1 lo hi l2, h = l1 ++ (lo, hi) :: l2 ->
    lo = 1%Z /\ (2 <= hi)%Z /\ (lo <= G l2 (lo, hi) < hi)%Z /\ (0 <= G l2 (lo, hi) < hi)%Z.

Lemma hist_ok_draws_in_range : forall h, gen_in_range G -> hist_ok h -> draws_in_range h.
Proof.
  intros h HG Hh l1 lo hi l2 E. subst h. apply Forall_app in Hh. destruct Hh as [_ Hh].
  inversion Hh as [|b r [Hb1 Hb2] _]; subst. cbn [fst snd] in *. subst lo.
  pose proof (HG l2 1%Z hi ltac:(lia)). lia.
Qed.

(* (2) in every state reachable from try_new (any fuel at every call, through error items) *)
Theorem every_draw_in_range : forall st, reachable st ->
  hist_ok (crng (i_ctx st)) /\
  (gen_in_range G ->
     draws_in_range (crng (i_ctx st)) /\
     Forall2 (fun v b => (fst b <= v < snd b)%Z /\ (0 <= v)%Z)
             (seg_values G (crng (i_ctx st)) []) (crng (i_ctx st))).
Proof.
  intros st Hr. pose proof (reachable_hist_ok st Hr) as Hh. split; [exact Hh|].
  intro HG. split; [apply hist_ok_draws_in_range; assumption|apply seg_values_in_range; assumption].
Qed.

Theorem every_draw_in_range_reach : forall fuel st0 st', try_new = NewOk st0 -> reach fuel st0 st' ->
  hist_ok (crng (i_ctx st')) /\ (gen_in_range G -> draws_in_range (crng (i_ctx st'))).
Proof.
  intros fuel st0 st' H0 Hr.
  assert (Hh : hist_ok (crng (i_ctx st'))).
  { eapply reach_hist_ok; [exact Hr|]. rewrite (try_new_history _ H0). constructor. }
  split; [exact Hh|]. intro HG. apply hist_ok_draws_in_range; assumption.
Qed.

Theorem every_draw_in_range_after_run : forall fuel n st0 items st',
  try_new = NewOk st0 -> collect_e fuel n st0 = (items, Some st') ->
  hist_ok (crng (i_ctx st')) /\ (gen_in_range G -> draws_in_range (crng (i_ctx st'))).
Proof.
  intros fuel n st0 items st' H0 Hc. eapply every_draw_in_range_reach; [exact H0|].
  eapply collect_e_reach; exact Hc.
Qed.

(* before and after every step of every run of the continuing caller *)
Theorem every_draw_in_range_run : forall fuel n st0, try_new = NewOk st0 ->
  Forall (fun s =>
    hist_ok (crng (i_ctx (VarsRunProof.step_pre DE s))) /\ is_step fuel s /\
    hist_ok (crng (i_ctx (VarsRunProof.step_post DE s))) /\
    (gen_in_range G -> draws_in_range (crng (i_ctx (VarsRunProof.step_post DE s)))))
    (steps_e fuel n st0).
Proof.
  intros fuel n st0 H0.
  eapply Forall_impl; [|apply (VarsRunProof.steps_e_inv G DE D w_default tc
                                 (fun st => hist_ok (crng (i_ctx st))))].
  - cbv beta. intros s [H1 [H2 H3]]. split; [exact H1|]. split; [exact H2|]. split; [exact H3|].
    intro HG. apply hist_ok_draws_in_range; assumption.
  - intros f st st' Hi Hn. eapply step_hist_ok; (timeout 20 eauto).
  - rewrite (try_new_history _ H0). constructor.
Qed.

(* ------------------------------------------------------------------ (4) error items and None *)

Lemma chained_snoc_inv : forall t h h' ev,
  chained (t ++ [ev]) h h' -> chained t h (gev_pre ev) /\ h' = gev_post G ev.
Proof.
  induction t as [|a t IH]; intros h h' ev H; cbn [RandomRunProof.chained app] in *.
  - destruct H as [H1 H2]. auto.
  - destruct H as [H1 H2]. destruct (IH _ _ _ H2) as [K1 K2]. auto.
Qed.

Lemma gev_fails_not_reset : forall ev x, gev_fails G ev x -> is_reset ev = false.
Proof. intros [c e|c d|c] x H; [reflexivity|reflexivity|contradiction]. Qed.

(* (4) An evaluation error of the program (get_row fails: a let, a loop bound, a while condition or
   an entry of a data row) is the item RT_Expr x, made BEFORE any call (the log is unchanged).
   The trace of the call ends with the failing evaluation ev; the events t1 before it lead from
   the old history to the history ev started from; the history after the item is the history
   that ev left: its own draws - those made inside the failing expression / row before the
   failure - are kept, on top of everything drawn before.  Nothing is rolled back. *)
Theorem error_items_before_the_call_draw_what_was_evaluated : forall fuel st x st1,
  get_row fuel st = GRErr x st1 ->
  inext fuel st = ItErr (IE_Runtime (RT_Expr x)) st1 /\
  i_log st1 = i_log st /\
  exists t1 ev, stmt_trace fuel st = t1 ++ [ev] /\ gev_fails G ev (XFErr x) /\
    chained t1 (crng (i_ctx st)) (gev_pre ev) /\
    crng (i_ctx st1) = gev_post G ev /\
    grows (gev_pre ev) (crng (i_ctx st1)) /\
    grows (if trace_resets t1 then [] else crng (i_ctx st)) (gev_pre ev).
Proof.
  intros fuel st x st1 Hg. split; [unfold Iter.inext; rewrite Hg; reflexivity|].
  pose proof (get_row_preserves G tc fuel st) as K. rewrite Hg in K.
  split; [(timeout 20 tauto)|]. pose proof (get_row_history fuel st) as H. rewrite Hg in H.
  destruct H as [Hc [t1 [ev [Ht [Hf Hp]]]]]. exists t1, ev. split; [exact Ht|]. split; [exact Hf|].
  rewrite Ht in Hc. destruct (chained_snoc_inv _ _ _ _ Hc) as [Hc1 _].
  split; [exact Hc1|]. split; [exact Hp|]. split.
  - rewrite Hp. apply gev_post_grows. eapply gev_fails_not_reset; exact Hf.
  - apply (chained_shape G _ _ _ Hc1).
Qed.

(* the same read from the item: an RT_Expr item whose call was not made *)
Corollary error_item_keeps_the_draws : forall fuel st x st',
  inext fuel st = ItErr (IE_Runtime (RT_Expr x)) st' -> i_log st' = i_log st ->
  get_row fuel st = GRErr x st' /\
  grows (if trace_resets (stmt_trace fuel st) then [] else crng (i_ctx st)) (crng (i_ctx st')).
Proof.
  intros fuel st x st' Hi Hl. pose proof (history_step fuel st) as H. rewrite Hi in H.
  destruct H as [[x' [Hr [Hg [Hc _]]]]|[er [st1 [outs [Hg _]]]]].
  - inversion Hr; subst x'. split; [exact Hg|]. apply (chained_shape G _ _ _ Hc).
  - exfalso. pose proof (vars_unchanged_by_io_and_errors G DE D w_default tc fuel st) as K. rewrite Hi in K.
    destruct K as [[x' [_ [Hg' _]]]|[er' [st1' [outs' [_ [_ [_ [_ [Hl' _]]]]]]]]]; [congruence|].
    rewrite Hl in Hl'. apply (f_equal (@length call)) in Hl'. rewrite app_length in Hl'. cbn [length] in Hl'. lia.
Qed.

(* None.  The call that returns None runs the statement iterator to the end of the program: it
   executes the statements that follow the last data row, and THEIR evaluations draw (see
   Example none_call_draws).  From then on next() returns None with the state unchanged: no
   statement is executed, nothing is drawn. *)
Theorem none_history : forall fuel st st', inext fuel st = ItNone st' ->
  chained (stmt_trace fuel st) (crng (i_ctx st)) (crng (i_ctx st')) /\
  i_log st' = i_log st /\
  forall fuel', fuel' <> 0 -> inext fuel' st' = ItNone st' /\ stmt_trace fuel' st' = [].
Proof.
  intros fuel st st' Hi. pose proof (history_step fuel st) as H. rewrite Hi in H.
  destruct H as [Hg Hc]. split; [exact Hc|].
  destruct (none_state_shape G DE D w_default tc fuel st st' Hi) as [Hit [Hca [Hl _]]].
  split; [exact Hl|]. intros fuel' Hf. split; [eapply next_after_none; (timeout 20 eauto)|].
  unfold RandomRunProof.stmt_trace. rewrite Hca, Hit. destruct fuel' as [|f]; [congruence|]. reflexivity.
Qed.

(* a call on an exhausted iterator with an empty cache draws nothing *)
Corollary exhausted_draws_nothing : forall fuel st st',
  i_iter st = SI [] Iterate -> i_cache st = [] -> next_state (inext fuel st) = Some st' ->
  crng (i_ctx st') = crng (i_ctx st).
Proof.
  intros fuel st st' Hit Hca Hn. destruct fuel as [|f].
  - unfold Iter.inext, Iter.get_row in Hn. rewrite Hca in Hn.
    cbn [Iter.snext next VectorProof.next_state] in Hn. discriminate Hn.
  - unfold Iter.inext, Iter.get_row in Hn. rewrite Hca, Hit in Hn.
    cbn [Iter.snext next VectorProof.next_state] in Hn. inversion Hn; subst st'. reflexivity.
Qed.

End RANDOM_RUN.

(* ------------------------------------------------------------------ (3) replay *)

(* what an expression can see of a context is ctx_get; two contexts that read alike and have the
   same history evaluate alike *)
Lemma entry_eval_ext : forall G c1 c2 d,
  (forall x, ctx_get c1 x = ctx_get c2 x) -> crng c1 = crng c2 ->
  snd (entry_eval G c1 d) = snd (entry_eval G c2 d) /\
  crng (fst (entry_eval G c1 d)) = crng (fst (entry_eval G c2 d)) /\
  (forall x, ctx_get (fst (entry_eval G c1 d)) x = ctx_get (fst (entry_eval G c2 d)) x).
Proof.
  intros G c1 c2 d Hg Hr.
  assert (He : forall e, snd (ctx_eval G c1 e) = snd (ctx_eval G c2 e) /\
                         crng (fst (ctx_eval G c1 e)) = crng (fst (ctx_eval G c2 e)) /\
                         (forall x, ctx_get (fst (ctx_eval G c1 e)) x = ctx_get (fst (ctx_eval G c2 e)) x)).
  { intro e. unfold ctx_eval. rewrite (eval_ctx_ext G e c1 c2 (crng c1) Hg), Hr.
    destruct (eval G c2 e (crng c2)) as [r rng']. cbn [fst snd ctx_with_rng crng].
    split; [reflexivity|]. split; [reflexivity|]. intro x. exact (Hg x). }
  destruct d as [n|e|k e| | |]; cbn [entry_eval]; try (cbn [fst snd]; auto; fail).
  - destruct (He e) as [H1 [H2 H3]].
    destruct (ctx_eval G c1 e) as [a1 r1], (ctx_eval G c2 e) as [a2 r2]. cbn [fst snd] in *. subst r2. auto.
  - destruct (He e) as [H1 [H2 H3]].
    destruct (ctx_eval G c1 e) as [a1 r1], (ctx_eval G c2 e) as [a2 r2]. cbn [fst snd] in *. subst r2. auto.
Qed.

Lemma row_eval_ext : forall G d c1 c2,
  (forall x, ctx_get c1 x = ctx_get c2 x) -> crng c1 = crng c2 ->
  snd (row_eval G c1 d) = snd (row_eval G c2 d) /\
  crng (fst (row_eval G c1 d)) = crng (fst (row_eval G c2 d)).
Proof.
  intros G. induction d as [|x d IH]; intros c1 c2 Hg Hr; cbn [row_eval]; [auto|].
  destruct (entry_eval_ext G c1 c2 x Hg Hr) as [H1 [H2 H3]].
  destruct (entry_eval G c1 x) as [a1 r1], (entry_eval G c2 x) as [a2 r2]. cbn [fst snd] in *. subst r2.
  destruct r1 as [es|e|s|]; cbn [fst snd]; auto.
  destruct (IH a1 a2 H3 H2) as [K1 K2].
  destruct (row_eval G a1 d) as [b1 q1], (row_eval G a2 d) as [b2 q2]. cbn [fst snd] in *. subst q2.
  destruct q1; cbn [fst snd]; auto.
Qed.

(* the bounds drawn with since the last reset (or the start of the run), and the values drawn for
   them, oldest first *)
Definition bounds_of (h : rng_state) : list Z := map snd (rev h).
Definition values_of (G : gen) (h : rng_state) : list Z := rev (seg_values G h []).

(* the values drawn since the last reset are a function of the generator and of the bounds alone:
   LiteralProof.draws from the EMPTY history, the history of a fresh run *)
Lemma values_of_draws : forall G h, hist_ok h -> values_of G h = draws G [] (bounds_of h).
Proof.
  intros G h Hh. unfold values_of, bounds_of.
  rewrite draws_seg_values, hist_of_bounds by (apply hist_ok_fst; exact Hh). reflexivity.
Qed.

(* (3) Two reachable states - of the same run, or of two runs of any two tests against any two
   drivers - with the SAME generator G and EQUAL histories.  Then
     (a) the same expression, read in contexts that show it the same variables and outputs, gives
         the same result, draws the same values and leaves the same history;
     (b) the same for the entries of a data row;
     (c) any two expressions in any two environments draw the same values as far as - here: if -
         their sequences of bounds agree.
   After `resetRandom;` the history is [] as in the state try_new returns
   (reset_gives_the_initial_history below), so this says that the draws after a reset repeat the
   draws from the start of the run. *)
Theorem run_replays_after_reset :
  forall G DE1 (D1 : driver DE1) w1 tc1 DE2 (D2 : driver DE2) w2 tc2 st1 st2,
  OutputsRunProof.reachable G DE1 D1 w1 tc1 st1 -> OutputsRunProof.reachable G DE2 D2 w2 tc2 st2 ->
  crng (i_ctx st1) = crng (i_ctx st2) ->
  (forall e, (forall x, ctx_get (i_ctx st1) x = ctx_get (i_ctx st2) x) ->
     snd (ctx_eval G (i_ctx st1) e) = snd (ctx_eval G (i_ctx st2) e) /\
     crng (fst (ctx_eval G (i_ctx st1) e)) = crng (fst (ctx_eval G (i_ctx st2) e)) /\
     snd (literalize G (i_ctx st1) e (crng (i_ctx st1))) = snd (literalize G (i_ctx st2) e (crng (i_ctx st2)))) /\
  (forall d, (forall x, ctx_get (i_ctx st1) x = ctx_get (i_ctx st2) x) ->
     snd (row_eval G (i_ctx st1) d) = snd (row_eval G (i_ctx st2) d) /\
     crng (fst (row_eval G (i_ctx st1) d)) = crng (fst (row_eval G (i_ctx st2) d))) /\
  (forall e1 e2 l1 l2,
     snd (eval G (i_ctx st1) e1 (crng (i_ctx st1))) = l1 ++ crng (i_ctx st1) ->
     snd (eval G (i_ctx st2) e2 (crng (i_ctx st2))) = l2 ++ crng (i_ctx st2) ->
     map snd (rev l1) = map snd (rev l2) ->
     snd (literalize G (i_ctx st1) e1 (crng (i_ctx st1))) = snd (literalize G (i_ctx st2) e2 (crng (i_ctx st2)))).
Proof.
  intros G DE1 D1 w1 tc1 DE2 D2 w2 tc2 st1 st2 _ _ Hr.
  assert (Hc : forall e1 e2 l1 l2,
     snd (eval G (i_ctx st1) e1 (crng (i_ctx st1))) = l1 ++ crng (i_ctx st1) ->
     snd (eval G (i_ctx st2) e2 (crng (i_ctx st2))) = l2 ++ crng (i_ctx st2) ->
     map snd (rev l1) = map snd (rev l2) ->
     snd (literalize G (i_ctx st1) e1 (crng (i_ctx st1))) = snd (literalize G (i_ctx st2) e2 (crng (i_ctx st2)))).
  { intros e1 e2 l1 l2 H1 H2 Hb. rewrite <- Hr in H2 |- *.
    exact (replay_from_same_history G _ _ e1 _ e2 l1 l2 H1 H2 Hb). }
  split; [|split; [|exact Hc]].
  - intros e Hg. unfold ctx_eval.
    pose proof (eval_ctx_ext G e _ _ (crng (i_ctx st1)) Hg) as He.
    destruct (eval_draws_ok G e (i_ctx st1) (crng (i_ctx st1))) as [l [Hl _]].
    assert (Hl2 : snd (eval G (i_ctx st2) e (crng (i_ctx st2))) = l ++ crng (i_ctx st2)).
    { rewrite <- Hr, <- He. exact Hl. }
    split; [|split].
    + rewrite <- Hr, <- He. destruct (eval G (i_ctx st1) e (crng (i_ctx st1))); reflexivity.
    + rewrite <- Hr, <- He. destruct (eval G (i_ctx st1) e (crng (i_ctx st1))); reflexivity.
    + exact (Hc e e l l Hl Hl2 eq_refl).
  - intros d Hg. exact (row_eval_ext G d _ _ Hg Hr).
Qed.

(* the prefix form of "as far as the bounds agree": two histories whose bounds start with the same
   p have drawn the same first |p| values *)
Theorem replay_common_prefix : forall G h1 h2 p s1 s2, hist_ok h1 -> hist_ok h2 ->
  bounds_of h1 = p ++ s1 -> bounds_of h2 = p ++ s2 ->
  values_of G h1 = draws G [] p ++ draws G (hist_of p) s1 /\
  values_of G h2 = draws G [] p ++ draws G (hist_of p) s2.
Proof.
  intros G h1 h2 p s1 s2 H1 H2 B1 B2.
  rewrite !values_of_draws, B1, B2, !draws_app, !app_nil_r by assumption. auto.
Qed.

Section RESET_RUN.
Variable G : gen.
Variable DE : Type.
Variable D : driver DE.
Variable w_default : bool.
Variable tc : testcase.

Local Notation get_row := (Iter.get_row G tc).
Local Notation inext := (Iter.inext G DE D w_default tc).
Local Notation try_new := (Iter.try_new DE D tc).
Local Notation reachable := (OutputsRunProof.reachable G DE D w_default tc).
Local Notation next_state := (VectorProof.next_state DE).

Lemma chained_app_inv : forall t1 t2 h h', chained G (t1 ++ t2) h h' ->
  exists hm, chained G t1 h hm /\ chained G t2 hm h'.
Proof.
  induction t1 as [|a t1 IH]; intros t2 h h' H; cbn [chained app] in *.
  - exists h. auto.
  - destruct H as [H1 H2]. destruct (IH _ _ _ H2) as [hm [K1 K2]]. exists hm. auto.
Qed.

(* a call of next() that executes `resetRandom;`: whatever the history was, the state after get_row
   has the history that the events AFTER the (last) reset make from [] - from the history of the
   state try_new returned *)
Theorem reset_gives_the_initial_history : forall fuel st st' t1 c t2 st0,
  try_new = NewOk st0 -> next_state (inext fuel st) = Some st' ->
  stmt_trace G fuel st = t1 ++ GReset c :: t2 ->
  exists st1,
    (get_row fuel st = GRNone st1 \/ (exists er, get_row fuel st = GRRow er st1) \/
     (exists x, get_row fuel st = GRErr x st1)) /\
    chained G t2 (crng (i_ctx st0)) (crng (i_ctx st1)) /\
    grows (crng (i_ctx st1)) (crng (i_ctx st')) /\
    (t2 = [] -> crng (i_ctx st1) = crng (i_ctx st0)).
Proof.
  intros fuel st st' t1 c t2 st0 H0 Hn Ht.
  destruct (step_split G DE D w_default tc fuel st st' Hn) as [st1 [Hg [Hc [Hgr _]]]].
  exists st1. split; [exact Hg|]. rewrite (try_new_history DE D tc _ H0).
  rewrite Ht in Hc. apply chained_app_inv in Hc. destruct Hc as [hm [_ Hc]].
  cbn [chained gev_post] in Hc. destruct Hc as [_ Hc].
  split; [exact Hc|]. split; [exact Hgr|]. intro E. subst t2. exact Hc.
Qed.

(* the run-level form of replay: in a reachable state the values drawn since the last reset (or
   the start) are LiteralProof.draws from the empty history for the bounds since then; two
   reachable states whose bounds since the last reset start alike have drawn alike *)
Theorem drawn_since_reset_replay : forall st, reachable st ->
  values_of G (crng (i_ctx st)) = draws G [] (bounds_of (crng (i_ctx st))).
Proof. intros st Hr. apply values_of_draws. exact (reachable_hist_ok G DE D w_default tc st Hr). Qed.

End RESET_RUN.

Theorem runs_replay_common_prefix :
  forall G DE1 (D1 : driver DE1) w1 tc1 DE2 (D2 : driver DE2) w2 tc2 st1 st2 p s1 s2,
  OutputsRunProof.reachable G DE1 D1 w1 tc1 st1 -> OutputsRunProof.reachable G DE2 D2 w2 tc2 st2 ->
  bounds_of (crng (i_ctx st1)) = p ++ s1 -> bounds_of (crng (i_ctx st2)) = p ++ s2 ->
  firstn (length p) (values_of G (crng (i_ctx st1))) = draws G [] p /\
  firstn (length p) (values_of G (crng (i_ctx st2))) = draws G [] p.
Proof.
  intros G DE1 D1 w1 tc1 DE2 D2 w2 tc2 st1 st2 p s1 s2 R1 R2 B1 B2.
  destruct (replay_common_prefix G _ _ p s1 s2 (reachable_hist_ok G DE1 D1 w1 tc1 st1 R1)
              (reachable_hist_ok G DE2 D2 w2 tc2 st2 R2) B1 B2) as [V1 V2].
  rewrite V1, V2.
  assert (K : forall t, firstn (length p) (draws G [] p ++ t) = draws G [] p).
  { intro t. rewrite <- (draws_length G p []) at 1. rewrite firstn_app, Nat.sub_diag, firstn_all.
    cbn [firstn]. apply app_nil_r. }
  split; apply K.
Qed.

(* every event of every trace: an evaluation adds ranges (1, n) with 2 <= n, and under
   gen_in_range the values it drew lie in them *)
Theorem event_draws_in_range : forall G ev, is_reset ev = false ->
  exists l, gev_post G ev = l ++ gev_pre ev /\ hist_ok l /\
    (gen_in_range G ->
     Forall2 (fun v b => (fst b <= v < snd b)%Z /\ (0 <= v)%Z) (seg_values G l (gev_pre ev)) l).
Proof.
  intros G ev Hr. destruct (gev_post_grows G ev Hr) as [l [Hl Hk]]. exists l.
  split; [exact Hl|]. split; [exact Hk|]. intro HG. apply seg_values_in_range; assumption.
Qed.

(* ------------------------------------------------------------------ reachable states: the table and the context of the declared signals *)

Section DECL_RUN.
Variable G : gen.
Variable DE : Type.
Variable D : driver DE.
Variable w_default : bool.
Variable tc : testcase.

Local Notation get_row := (Iter.get_row G tc).
Local Notation inext := (Iter.inext G DE D w_default tc).
Local Notation try_new := (Iter.try_new DE D tc).
Local Notation reachable := (OutputsRunProof.reachable G DE D w_default tc).
Local Notation decl_inv := (VarsRunProof.decl_inv tc).

(* in every reachable state the index table is the one the constructor built (and calt is empty) *)
Lemma reachable_decl_inv : forall st, reachable st -> exists oi, decl_inv oi st.
Proof.
  intros st Hr. induction Hr as [st0 H0|fuel st st' _ [oi IH] Hn].
  - exists (i_outidx st0). apply (try_new_decl_inv DE D tc). exact H0.
  - exists oi. eapply step_decl_inv; [exact IH|exact Hn].
Qed.

(* ... so the table of the case table is i_outidx itself, and the context of the declared
   signals reads like ctx_new (outs_map outs): the answer and nothing else (C14) *)
Theorem loop_history_reachable : forall fuel st er st1 outs rng r h',
  reachable st -> get_row fuel st = GRRow er st1 ->
  loop_history G (decl_ctx st1 outs) (decl_table tc st) rng r h' ->
  loop_history G (ctx_new (outs_map outs)) (i_outidx st) rng r h'.
Proof.
  intros fuel st er st1 outs rng r h' Hr Hg H.
  destruct (reachable_decl_inv st Hr) as [oi [Ho [[outs0 Hb] Ha]]].
  pose proof (get_row_preserves G tc fuel st) as K. rewrite Hg in K. destruct K as [_ [Kalt _]].
  unfold decl_table in H. rewrite Ho in H |- *.
  rewrite map_snd_combine in H by (symmetry; exact (build_length tc outs0 oi Hb)).
  eapply loop_history_blind; [|exact H]. intro x. unfold decl_ctx.
  apply swap_get_outputs_only. cbn [ctx_set_outputs calt]. rewrite Kalt. exact Ha.
Qed.

Lemma virtual_rng_no_virtual : forall c l rng,
  Forall (fun o => forall e, o <> OIVirtual e) l -> virtual_rng G c l rng = rng.
Proof.
  intros c l rng H. revert rng. induction H as [|o l Ho _ IH]; intro rng; [reflexivity|].
  destruct o as [|n|e]; cbn [virtual_rng]; [apply IH|apply IH|exfalso; eapply Ho; reflexivity].
Qed.

End DECL_RUN.

(* ------------------------------------------------------------------ bound tests: the declared signals come last *)

(* ParsedTestCase::with_signals appends the signals of the `declare` statements to the signals it
   is given, and the expected columns follow the order of that list.  If the caller hands in no
   virtual signal of its own, every declared signal has its slot AFTER all the device outputs: a
   wrong ORDER is then found before any declared signal is evaluated, and draws nothing. *)
Definition is_expected (s : signal) : bool := match styp s with TyInput _ => false | _ => true end.

Lemma ei_signal_index_mk : forall pos i, ei_signal_index (mk_index pos i) = i.
Proof. intros [e|] i; reflexivity. Qed.

Lemma build_indices_from_expected : forall p sigs pre ins exps,
  build_indices_from p (length pre) sigs = (ins, exps) ->
  flat_map (fun idx => match nth_error (pre ++ sigs) (ei_signal_index idx) with Some s => [s] | None => [] end) exps
  = filter is_expected sigs.
Proof.
  intros p. induction sigs as [|s r IH]; intros pre ins exps Hb; cbn [build_indices_from] in Hb.
  - inversion Hb; subst. reflexivity.
  - destruct (build_indices_from p (S (length pre)) r) as [ins' exps'] eqn:Hb'.
    assert (Hl : S (length pre) = length (pre ++ [s])) by (rewrite app_length; cbn [length]; lia).
    rewrite Hl in Hb'. specialize (IH _ _ _ Hb'). rewrite <- app_assoc in IH. cbn [app] in IH.
    assert (Hh : nth_error (pre ++ s :: r) (length pre) = Some s).
    { rewrite nth_error_app2 by lia. rewrite Nat.sub_diag. reflexivity. }
    cbn [filter]. unfold is_expected at 1.
    destruct (styp s) as [d| |d|e]; inversion Hb; subst ins exps; try exact IH;
      cbn [flat_map]; rewrite ei_signal_index_mk, Hh, IH; reflexivity.
Qed.

Theorem declared_signals_come_last : forall p sigs0 tc outs0 oi,
  with_signals p sigs0 = Ok tc -> Forall (fun s => is_virtual s = false) sigs0 ->
  build_output_indices tc outs0 = Ok oi ->
  exists a b, oi = a ++ b /\ Forall (fun o => forall e, o <> OIVirtual e) a /\
              Forall (fun o => exists e, o = OIVirtual e) b.
Proof.
  intros p sigs0 tc outs0 oi Hw Hnv Hb.
  destruct (with_signals_inv_full p sigs0 tc Hw) as [_ [Hs [_ [Hbi _]]]].
  destruct (build_spec_sigs tc outs0 oi Hb) as [Hoi _].
  pose proof (build_indices_from_expected p (tc_signals tc) [] _ _ Hbi) as He.
  cbn [app] in He. unfold expected_signals, sig_at in Hoi. rewrite He in Hoi.
  rewrite Hs in Hoi. unfold WfSpec.all_sigs in Hoi. rewrite filter_app, map_app in Hoi.
  eexists _, _. split; [exact Hoi|]. split.
  - apply Forall_forall. intros o Ho e Eo. apply in_map_iff in Ho. destruct Ho as [s [Es Hin]].
    apply filter_In in Hin. destruct Hin as [Hin _].
    rewrite Forall_forall in Hnv. specialize (Hnv s Hin). subst o.
    unfold out_index_for, is_virtual in *. destruct (styp s); try discriminate Hnv;
      destruct (position _ outs0); discriminate Eo.
  - apply Forall_forall. intros o Ho. apply in_map_iff in Ho. destruct Ho as [s [Es Hin]].
    apply filter_In in Hin. destruct Hin as [Hin _]. apply in_map_iff in Hin.
    destruct Hin as [v [Ev _]]. subst s o. unfold out_index_for, virtual_signal. cbn [styp]. (timeout 20 eauto).
Qed.

(* for a test bound by with_signals to device signals that are not virtual, in every reachable
   state: an answer refused for its ORDER leaves the history as get_row left it *)
Theorem wrong_order_draws_nothing_when_bound :
  forall G DE (D : driver DE) w_default p sigs0 tc fuel st st',
  with_signals p sigs0 = Ok tc -> Forall (fun s => is_virtual s = false) sigs0 ->
  OutputsRunProof.reachable G DE D w_default tc st ->
  Iter.inext G DE D w_default tc fuel st = ItErr (IE_Runtime RT_WrongOutputOrder) st' ->
  exists er st1, Iter.get_row G tc fuel st = GRRow er st1 /\ crng (i_ctx st') = crng (i_ctx st1).
Proof.
  intros G DE D w_default p sigs0 tc fuel st st' Hw Hnv Hr Hi.
  pose proof (history_step G DE D w_default tc fuel st) as H. rewrite Hi in H.
  destruct H as [[x [Hx _]]|[er [st1 [outs [Hg [Hu [HD [Hc [[_ [Hx _]]|[Hlen Hl]]]]]]]]]]; try discriminate Hx.
  exists er, st1. split; [exact Hg|].
  pose proof (loop_history_reachable G DE D w_default tc fuel st er st1 outs _ _ _ Hr Hg Hl) as K.
  cbn [loop_history] in K. destruct K as [k [n [Hk [_ Hh]]]]. rewrite Hh.
  destruct (reachable_decl_inv G DE D w_default tc st Hr) as [oi [Ho [[outs0 Hb] _]]].
  destruct (declared_signals_come_last p sigs0 tc outs0 oi Hw Hnv Hb) as [a [b [Eo [Ha Hbv]]]].
  rewrite Ho, Eo in Hk |- *.
  assert (Hka : k < length a).
  { destruct (Nat.lt_ge_cases k (length a)) as [L|L]; [exact L|exfalso].
    rewrite nth_error_app2 in Hk by exact L. apply nth_error_In in Hk.
    rewrite Forall_forall in Hbv. destruct (Hbv _ Hk) as [e He]. discriminate He. }
  rewrite firstn_app. replace (k - length a) with 0 by lia. cbn [firstn]. rewrite app_nil_r.
  apply virtual_rng_no_virtual. rewrite <- (firstn_skipn k a) in Ha. apply Forall_app in Ha. exact (proj1 Ha).
Qed.

(* ------------------------------------------------------------------ (1) for every step of every run *)

Section RUN_STEPS.
Variable G : gen.
Variable DE : Type.
Variable D : driver DE.
Variable w_default : bool.
Variable tc : testcase.

Local Notation get_row := (Iter.get_row G tc).
Local Notation inext := (Iter.inext G DE D w_default tc).
Local Notation try_new := (Iter.try_new DE D tc).
Local Notation steps_e := (VarsRunProof.steps_e G DE D w_default tc).
Local Notation is_step := (VarsRunProof.is_step G DE D w_default tc).
Local Notation step_pre := (VarsRunProof.step_pre DE).
Local Notation step_post := (VarsRunProof.step_post DE).

(* the calls of next() that the continuing caller makes (steps_e lists them; each is made on the
   state its predecessor left, the first on the state of try_new, whose history is []): the history
   before and after is well formed, and the history after is decl ++ prog ++ old' as in
   history_step_shape *)
Theorem history_of_every_step : forall fuel n st0, try_new = NewOk st0 ->
  Forall (fun s =>
    is_step fuel s /\
    hist_ok (crng (i_ctx (step_pre s))) /\ hist_ok (crng (i_ctx (step_post s))) /\
    exists st1 prog decl,
      (get_row fuel (step_pre s) = GRNone st1 \/ (exists er, get_row fuel (step_pre s) = GRRow er st1) \/
       (exists x, get_row fuel (step_pre s) = GRErr x st1)) /\
      crng (i_ctx st1) =
        prog ++ (if trace_resets (stmt_trace G fuel (step_pre s)) then [] else crng (i_ctx (step_pre s))) /\
      crng (i_ctx (step_post s)) = decl ++ crng (i_ctx st1) /\
      hist_ok prog /\ hist_ok decl /\
      (decl <> [] ->
         exists er outs, get_row fuel (step_pre s) = GRRow er st1 /\ er_update_output er = true /\
           D (i_log (step_pre s)) (RW, er_inputs er) = DrvOk outs /\ length outs = i_nout (step_pre s)))
    (steps_e fuel n st0).
Proof.
  intros fuel n st0 H0.
  eapply Forall_impl; [|apply (every_draw_in_range_run G DE D w_default tc fuel n st0 H0)].
  cbv beta. intros s [H1 [H2 [H3 _]]]. split; [exact H2|]. split; [exact H1|]. split; [exact H3|].
  apply (history_step_shape G DE D w_default tc). apply is_step_next_state. exact H2.
Qed.

Theorem first_step_starts_from_the_empty_history : forall fuel n st0 s l,
  try_new = NewOk st0 -> steps_e fuel n st0 = s :: l -> crng (i_ctx (step_pre s)) = [].
Proof.
  intros fuel n st0 s l H0 Hs. rewrite (steps_e_head G DE D w_default tc fuel n st0 s l Hs).
  exact (try_new_history DE D tc st0 H0).
Qed.

End RUN_STEPS.

(* ------------------------------------------------------------------ non-vacuity, and what the model does *)

Module Example_random_run.
  Import Coq.Strings.String.

  (* a generator that obeys rand's contract and depends on the history *)
  Definition Gex : gen := fun h r => (fst r + Z.of_nat (List.length h) mod (snd r - fst r))%Z.

  Lemma Gex_in_range : gen_in_range Gex.
  Proof.
    intros h lo hi H. unfold Gex. cbn [fst snd].
    pose proof (Z.mod_pos_bound (Z.of_nat (List.length h)) (hi - lo) ltac:(lia)). lia.
  Qed.

  Definition sA := {| sname := s2n "A"; sbits := 4%N; styp := TyInput (IVal 0%Z) |}.
  Definition sCK := {| sname := s2n "CK"; sbits := 1%N; styp := TyInput (IVal 0%Z) |}.
  Definition sY1 := {| sname := s2n "Y1"; sbits := 1%N; styp := TyOutput |}.
  Definition sY2 := {| sname := s2n "Y2"; sbits := 1%N; styp := TyOutput |}.
  (* a declared signal handed in with the device's signals, BEFORE the outputs *)
  Definition sV := {| sname := s2n "V"; sbits := 64%N; styp := TyVirtual (EFunc name_random [ENum 10%Z]) |}.

  Inductive ikind := KRow (ins : list inval) | KDrv (e : N) | KRt (r : rterr) | KNone.
  Definition kind_of (v : item_view N) : ikind :=
    match v with
    | VRow r => KRow (map ie_val (dr_inputs r))
    | VErr (IE_Driver e) => KDrv e
    | VErr (IE_Runtime r) => KRt r
    | VNone => KNone
    end.

  (* the items of the first n calls of next() of the continuing caller, and the history after them *)
  Definition observe (sigs : list signal) (src : text) (D : driver N) (n : nat)
    : option (list ikind * rng_state) :=
    match Parser.parse src with
    | Ok p =>
        match with_signals p sigs with
        | Ok tc =>
            match Iter.try_new N D tc with
            | NewOk st0 =>
                match RunRefineE.collect_e Gex N D false tc 50 n st0 with
                | (items, Some st') => Some (map kind_of items, crng (i_ctx st'))
                | _ => None
                end
            | _ => None
            end
        | _ => None
        end
    | _ => None
    end.

  (* which events of the trace of the (n+1)-th call are resets *)
  Definition observe_trace (sigs : list signal) (src : text) (D : driver N) (n : nat) : option (list bool) :=
    match Parser.parse src with
    | Ok p =>
        match with_signals p sigs with
        | Ok tc =>
            match Iter.try_new N D tc with
            | NewOk st0 =>
                match RunRefineE.collect_e Gex N D false tc 50 n st0 with
                | (_, Some st') => Some (map is_reset (stmt_trace Gex 50 st'))
                | _ => None
                end
            | _ => None
            end
        | _ => None
        end
    | _ => None
    end.

  Definition nl : text := [10%N].

  (* FINDING (4): "None draws nothing" is true only from the second None on.  The program
         A / 1 / let x = random(5);
     yields its row at the first call; the second call runs the iterator to the end, executes the
     trailing `let`, draws, and returns None; the third call returns None and draws nothing. *)
  Definition src_none : text := (s2n "A" ++ nl ++ s2n "1" ++ nl ++ s2n "let x = random(5);" ++ nl)%list.
  Example none_call_draws :
    observe [sA] src_none static_driver 1 = Some ([KRow [IVal 1%Z]], []) /\
    observe [sA] src_none static_driver 2 = Some ([KRow [IVal 1%Z]; KNone], [(1%Z, 5%Z)]) /\
    observe [sA] src_none static_driver 3 = Some ([KRow [IVal 1%Z]; KNone], [(1%Z, 5%Z)]).
  Proof. vm_compute. repeat split. Qed.

  (* (4) the row (random(5)/0) fails AFTER random(5) has drawn: the error item keeps the draw, and the
     next row draws on top of it *)
  Definition src_err : text := (s2n "A" ++ nl ++ s2n "(random(5)/0)" ++ nl ++ s2n "(random(7))" ++ nl)%list.
  Example error_item_keeps_draw :
    observe [sA] src_err static_driver 1 = Some ([KRt (RT_Expr XE_DivisionByZero)], [(1%Z, 5%Z)]) /\
    observe [sA] src_err static_driver 2 =
      Some ([KRt (RT_Expr XE_DivisionByZero); KRow [IVal 2%Z]], [(1%Z, 7%Z); (1%Z, 5%Z)]).
  Proof. vm_compute. repeat split. Qed.

  (* (1) a test with `declare v = random(10);` and two device outputs; the driver answers Y1, Y2 *)
  Definition sc2 (faults : list (nat * Script.fault)) (layout : list nat) : Script.script :=
    {| Script.sc_layout := layout; Script.sc_table := [[OVal 0%Z; OVal 1%Z]]; Script.sc_echo := false;
       Script.sc_faults := faults |}.
  Definition src_decl : text :=
    (s2n "A Y1 Y2" ++ nl ++ s2n "declare v = random(10);" ++ nl ++ s2n "1 X X" ++ nl ++ s2n "2 X X" ++ nl)%list.
  Definition sigs3 := [sA; sY1; sY2].
  Definition drv3 (faults : list (nat * Script.fault)) := Script.script_driver sigs3 (sc2 faults [1; 2]).

  (* every accepted answer: one draw for v *)
  Example declared_signal_draws_per_row :
    observe sigs3 src_decl (drv3 []) 2 = Some ([KRow [IVal 1%Z]; KRow [IVal 2%Z]], [(1%Z, 10%Z); (1%Z, 10%Z)]).
  Proof. vm_compute. reflexivity. Qed.

  (* a failed call, a wrong NUMBER of outputs: v is not evaluated *)
  Example failed_call_and_wrong_number_draw_nothing :
    observe sigs3 src_decl (drv3 [(1, Script.FErr 3%N)]) 1 = Some ([KDrv 3%N], []) /\
    observe sigs3 src_decl (drv3 [(1, Script.FDrop 0)]) 1 = Some ([KRt (RT_WrongNumberOfOutputs 2 1)], []).
  Proof. vm_compute. repeat split. Qed.

  (* a wrong ORDER: with_signals puts the declared signals AFTER the device's signals, so here the
     mismatching slot (Y1) comes before v: v is not evaluated ... *)
  Example wrong_order_declared_after_the_slot :
    observe sigs3 src_decl (drv3 [(1, Script.FSwap 0 1)]) 1 = Some ([KRt RT_WrongOutputOrder], []) /\
    observe sigs3 src_decl (drv3 [(1, Script.FSwap 0 1)]) 2 =
      Some ([KRt RT_WrongOutputOrder; KRow [IVal 2%Z]], [(1%Z, 10%Z)]).
  Proof. vm_compute. repeat split. Qed.

  (* ... FINDING (1): but the loop is sequential.  A declared signal whose slot is BEFORE the
     mismatching one (here: V, handed in with the device's signals, before Y1 and Y2) HAS been
     evaluated when the order is found wrong, and its draw stays *)
  Definition src_plain : text := (s2n "A Y1 Y2" ++ nl ++ s2n "1 X X" ++ nl ++ s2n "2 X X" ++ nl)%list.
  Definition sigs4 := [sA; sV; sY1; sY2].
  Definition drv4 (faults : list (nat * Script.fault)) := Script.script_driver sigs4 (sc2 faults [2; 3]).
  Example wrong_order_declared_before_the_slot :
    observe sigs4 src_plain (drv4 [(1, Script.FSwap 0 1)]) 1 = Some ([KRt RT_WrongOutputOrder], [(1%Z, 10%Z)]) /\
    observe sigs4 src_plain (drv4 [(1, Script.FSwap 0 1)]) 2 =
      Some ([KRt RT_WrongOutputOrder; KRow [IVal 2%Z]], [(1%Z, 10%Z); (1%Z, 10%Z)]).
  Proof. vm_compute. repeat split. Qed.

  (* FINDING (1): the write-only rows of a clock expansion (`C`) evaluate no declared signal: of the
     three rows sent for `1 C X` only the last, whose answer is read, draws for v *)
  Definition src_clock : text :=
    (s2n "A CK Y1" ++ nl ++ s2n "declare v = random(10);" ++ nl ++ s2n "1 C X" ++ nl)%list.
  Definition sigs5 := [sA; sCK; sY1].
  Definition drv5 := Script.script_driver sigs5
    {| Script.sc_layout := [2]; Script.sc_table := [[OVal 0%Z]]; Script.sc_echo := false; Script.sc_faults := [] |}.
  Example clock_rows_draw_once :
    observe sigs5 src_clock drv5 1 = Some ([KRow [IVal 1%Z; IVal 0%Z]], []) /\
    observe sigs5 src_clock drv5 2 = Some ([KRow [IVal 1%Z; IVal 0%Z]; KRow [IVal 1%Z; IVal 1%Z]], []) /\
    observe sigs5 src_clock drv5 3 =
      Some ([KRow [IVal 1%Z; IVal 0%Z]; KRow [IVal 1%Z; IVal 1%Z]; KRow [IVal 1%Z; IVal 0%Z]], [(1%Z, 10%Z)]).
  Proof. vm_compute. repeat split. Qed.

  (* (3) resetRandom; replays: rows 3 and 4 send what rows 1 and 2 sent; the third call executes the
     reset and then the row (trace: a reset, then an evaluation) and leaves the history that the
     first call left *)
  Definition src_reset : text :=
    (s2n "A" ++ nl ++ s2n "(random(8))" ++ nl ++ s2n "(random(6))" ++ nl ++ s2n "resetRandom;" ++ nl ++
     s2n "(random(8))" ++ nl ++ s2n "(random(6))" ++ nl)%list.
  Example reset_replays :
    observe [sA] src_reset static_driver 1 = Some ([KRow [IVal 1%Z]], [(1%Z, 8%Z)]) /\
    observe [sA] src_reset static_driver 2 = Some ([KRow [IVal 1%Z]; KRow [IVal 2%Z]], [(1%Z, 6%Z); (1%Z, 8%Z)]) /\
    observe [sA] src_reset static_driver 3 =
      Some ([KRow [IVal 1%Z]; KRow [IVal 2%Z]; KRow [IVal 1%Z]], [(1%Z, 8%Z)]) /\
    observe [sA] src_reset static_driver 5 =
      Some ([KRow [IVal 1%Z]; KRow [IVal 2%Z]; KRow [IVal 1%Z]; KRow [IVal 2%Z]; KNone], [(1%Z, 6%Z); (1%Z, 8%Z)]) /\
    observe_trace [sA] src_reset static_driver 0 = Some [false] /\
    observe_trace [sA] src_reset static_driver 2 = Some [true; false] /\
    observe_trace [sA] src_reset static_driver 4 = Some [].
  Proof. vm_compute. repeat split. Qed.

  (* (2) is not vacuous: Gex obeys rand's contract *)
  Example Gex_draws_in_range : forall DE (D : driver DE) w tc st,
    OutputsRunProof.reachable Gex DE D w tc st -> draws_in_range Gex (crng (i_ctx st)).
  Proof. intros DE D w tc st Hr. exact (proj1 (proj2 (every_draw_in_range Gex DE D w tc st Hr) Gex_in_range)). Qed.
End Example_random_run.

Check history_step.
Check history_step_shape.
Check history_of_every_step.
Check first_step_starts_from_the_empty_history.
Check history_grows_without_reset.
Check cached_row_keeps_history.
Check get_row_history.
Check snext_g_forget.
Check snext_g_chained.
Check chained_shape.
Check extract_loop_history.
Check extract_history.
Check loop_history_reachable.
Check declared_signals_come_last.
Check wrong_order_draws_nothing_when_bound.
Check every_draw_in_range.
Check every_draw_in_range_reach.
Check every_draw_in_range_after_run.
Check every_draw_in_range_run.
Check inext_hist_ok.
Check try_new_history.
Check evaluation_draws_in_range.
Check event_draws_in_range.
Check run_replays_after_reset.
Check replay_common_prefix.
Check runs_replay_common_prefix.
Check drawn_since_reset_replay.
Check reset_gives_the_initial_history.
Check error_items_before_the_call_draw_what_was_evaluated.
Check error_item_keeps_the_draws.
Check none_history.
Check exhausted_draws_nothing.

Print Assumptions history_step.
Print Assumptions history_step_shape.
Print Assumptions history_of_every_step.
Print Assumptions first_step_starts_from_the_empty_history.
Print Assumptions history_grows_without_reset.
Print Assumptions cached_row_keeps_history.
Print Assumptions get_row_history.
Print Assumptions snext_g_forget.
Print Assumptions snext_g_chained.
Print Assumptions chained_shape.
Print Assumptions extract_loop_history.
Print Assumptions extract_history.
Print Assumptions loop_history_reachable.
Print Assumptions declared_signals_come_last.
Print Assumptions wrong_order_draws_nothing_when_bound.
Print Assumptions every_draw_in_range.
Print Assumptions every_draw_in_range_reach.
Print Assumptions every_draw_in_range_after_run.
Print Assumptions every_draw_in_range_run.
Print Assumptions inext_hist_ok.
Print Assumptions try_new_history.
Print Assumptions evaluation_draws_in_range.
Print Assumptions event_draws_in_range.
Print Assumptions run_replays_after_reset.
Print Assumptions replay_common_prefix.
Print Assumptions runs_replay_common_prefix.
Print Assumptions drawn_since_reset_replay.
Print Assumptions reset_gives_the_initial_history.
Print Assumptions error_items_before_the_call_draw_what_was_evaluated.
Print Assumptions error_item_keeps_the_draws.
Print Assumptions none_history.
Print Assumptions exhausted_draws_nothing.
Print Assumptions Example_random_run.Gex_in_range.
Print Assumptions Example_random_run.none_call_draws.
Print Assumptions Example_random_run.error_item_keeps_draw.
Print Assumptions Example_random_run.declared_signal_draws_per_row.
Print Assumptions Example_random_run.failed_call_and_wrong_number_draw_nothing.
Print Assumptions Example_random_run.wrong_order_declared_after_the_slot.
Print Assumptions Example_random_run.wrong_order_declared_before_the_slot.
Print Assumptions Example_random_run.clock_rows_draw_once.
Print Assumptions Example_random_run.reset_replays.
Print Assumptions Example_random_run.Gex_draws_in_range.
