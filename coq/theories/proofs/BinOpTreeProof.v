(* BinOpTree (src/parser/binoptree.rs as modelled by Parser.bt_add / Parser.bt_expr):
   folding bt_add over the flat sequence  a0 (op1 a1) (op2 a2) ...  builds THE tree
   that (1) flattens back to that sequence and (2) respects the precedence table with
   left associativity; the precedence table is the one of the specification. *)
From DTR Require Import Prelude Ast Lexer Parser.
Open Scope N_scope.

(* ------------------------------------------------------------------ flattening *)

(* left-most atom *)
Fixpoint bt_first (t : btree) : expr :=
  match t with BAtom a => a | BNode _ l _ => bt_first l end.

(* the (operator, operand) pairs after it, in source order *)
Fixpoint bt_rest (t : btree) : list (binop * expr) :=
  match t with
  | BAtom _ => []
  | BNode o l r => bt_rest l ++ (o, bt_first r) :: bt_rest r
  end.

Fixpoint bt_ops (t : btree) : list binop :=
  match t with BAtom _ => [] | BNode o l r => bt_ops l ++ o :: bt_ops r end.

(* every operator in the left subtree binds at least as tightly as the node's operator
   (left associativity), every operator in the right subtree binds strictly tighter *)
Fixpoint prec_ok (t : btree) : Prop :=
  match t with
  | BAtom _ => True
  | BNode o l r =>
      prec_ok l /\ prec_ok r
      /\ Forall (fun x => precedence x <= precedence o) (bt_ops l)
      /\ Forall (fun x => precedence x < precedence o) (bt_ops r)
  end.

(* ------------------------------------------------------------------ bt_add *)

Lemma bt_ops_add : forall t op e, bt_ops (bt_add t op e) = bt_ops t ++ [op].
Proof.
  induction t as [a|o l IHl r IHr]; intros op e; simpl; [reflexivity|].
  destruct (precedence op <? precedence o); simpl.
  - rewrite IHr. rewrite <- app_assoc. reflexivity.
  - reflexivity.
Qed.

Lemma bt_first_add : forall t op e, bt_first (bt_add t op e) = bt_first t.
Proof.
  induction t as [a|o l IHl r IHr]; intros op e; simpl; [reflexivity|].
  destruct (precedence op <? precedence o); reflexivity.
Qed.

Lemma bt_rest_add : forall t op e, bt_rest (bt_add t op e) = bt_rest t ++ [(op, e)].
Proof.
  induction t as [a|o l IHl r IHr]; intros op e; simpl; [reflexivity|].
  destruct (precedence op <? precedence o); simpl.
  - rewrite IHr, bt_first_add. rewrite <- app_assoc. reflexivity.
  - reflexivity.
Qed.

Lemma bt_add_ok : forall t op e, prec_ok t -> prec_ok (bt_add t op e).
Proof.
  induction t as [a|o l IHl r IHr]; intros op e; simpl.
  - intros _. repeat split; constructor.
  - intros (Hl & Hr & Fl & Fr). destruct (precedence op <? precedence o) eqn:Hlt.
    + apply N.ltb_lt in Hlt. simpl. repeat split; auto.
      rewrite bt_ops_add. apply Forall_app; split; [exact Fr|].
      constructor; [exact Hlt|constructor].
    + apply N.ltb_ge in Hlt. simpl. split; [repeat split; auto|].
      split; [exact I|]. split; [|constructor].
      apply Forall_app; split.
      * eapply Forall_impl; [|exact Fl]. simpl; intros; lia.
      * constructor; [lia|]. eapply Forall_impl; [|exact Fr]. simpl; intros; lia.
Qed.

Lemma fold_add_gen : forall l t, prec_ok t ->
  let t' := fold_left (fun t p => bt_add t (fst p) (snd p)) l t in
  bt_first t' = bt_first t /\ bt_rest t' = bt_rest t ++ l /\ prec_ok t'.
Proof.
  induction l as [|[op e] l IH]; intros t Ht; simpl.
  - rewrite app_nil_r. auto.
  - destruct (IH (bt_add t op e) (bt_add_ok t op e Ht)) as (H1 & H2 & H3).
    rewrite bt_first_add in H1. rewrite bt_rest_add, <- app_assoc in H2. auto.
Qed.

(* the tree the parser builds flattens to the source sequence and respects precedence *)
Theorem fold_add_ok : forall a0 l,
  let t := fold_left (fun t p => bt_add t (fst p) (snd p)) l (BAtom a0) in
  bt_first t = a0 /\ bt_rest t = l /\ prec_ok t.
Proof. intros a0 l. apply (fold_add_gen l (BAtom a0) I). Qed.

(* ------------------------------------------------------------------ uniqueness *)

Lemma bt_ops_rest : forall t, bt_ops t = map fst (bt_rest t).
Proof.
  induction t as [a|o l IHl r IHr]; simpl; [reflexivity|].
  rewrite map_app. simpl. congruence.
Qed.

Lemma split_unique : forall (x1 x2 : list (binop * expr)) o1 o2 a1 a2 y1 y2,
  x1 ++ (o1, a1) :: y1 = x2 ++ (o2, a2) :: y2 ->
  Forall (fun p => precedence (fst p) <= precedence o1) x1 ->
  Forall (fun p => precedence (fst p) < precedence o1) y1 ->
  Forall (fun p => precedence (fst p) <= precedence o2) x2 ->
  Forall (fun p => precedence (fst p) < precedence o2) y2 ->
  x1 = x2 /\ o1 = o2 /\ a1 = a2 /\ y1 = y2.
Proof.
  induction x1 as [|p x1 IH]; intros x2 o1 o2 a1 a2 y1 y2 E F1 G1 F2 G2.
  - destruct x2 as [|q x2]; simpl in E.
    + inversion E; subst. auto.
    + inversion E; subst. clear E.
      inversion F2 as [|? ? Hq _]; subst. simpl in Hq.
      assert (Hin : In (o2, a2) (x2 ++ (o2, a2) :: y2)) by (apply in_or_app; right; left; reflexivity).
      rewrite Forall_forall in G1. specialize (G1 _ Hin). simpl in G1. lia.
  - destruct x2 as [|q x2]; simpl in E.
    + inversion E; subst. clear E.
      inversion F1 as [|? ? Hp _]; subst. simpl in Hp.
      assert (Hin : In (o1, a1) (x1 ++ (o1, a1) :: y1)) by (apply in_or_app; right; left; reflexivity).
      rewrite Forall_forall in G2. specialize (G2 _ Hin). simpl in G2. lia.
    + inversion E as [[Epq E']]; subst. inversion F1; inversion F2; subst.
      destruct (IH x2 o1 o2 a1 a2 y1 y2 E') as (? & ? & ? & ?); auto. subst. auto.
Qed.

Lemma Forall_ops_rest : forall (Q : binop -> Prop) t,
  Forall Q (bt_ops t) <-> Forall (fun p => Q (fst p)) (bt_rest t).
Proof. intros Q t. rewrite bt_ops_rest. rewrite Forall_map. reflexivity. Qed.

(* a precedence-respecting tree is determined by its flattening *)
Theorem prec_ok_unique : forall t1 t2, prec_ok t1 -> prec_ok t2 ->
  bt_first t1 = bt_first t2 -> bt_rest t1 = bt_rest t2 -> t1 = t2.
Proof.
  induction t1 as [a|o1 l1 IHl r1 IHr]; intros t2 H1 H2 Hf Hr.
  - destruct t2 as [b|o2 l2 r2]; simpl in *.
    + congruence.
    + destruct (bt_rest l2); discriminate.
  - destruct t2 as [b|o2 l2 r2]; simpl in *.
    + destruct (bt_rest l1); discriminate.
    + destruct H1 as (Hl1 & Hr1 & Fl1 & Fr1). destruct H2 as (Hl2 & Hr2 & Fl2 & Fr2).
      apply Forall_ops_rest in Fl1, Fr1, Fl2, Fr2.
      destruct (split_unique _ _ _ _ _ _ _ _ Hr Fl1 Fr1 Fl2 Fr2) as (E1 & E2 & E3 & E4). subst o2.
      f_equal; [apply IHl | apply IHr]; auto.
Qed.

(* consequence: any precedence-respecting tree with the source flattening IS the parser's tree *)
Corollary fold_add_is_the_parse : forall a0 l t,
  prec_ok t -> bt_first t = a0 -> bt_rest t = l ->
  t = fold_left (fun t p => bt_add t (fst p) (snd p)) l (BAtom a0).
Proof.
  intros a0 l t Ht Hf Hr. destruct (fold_add_ok a0 l) as (F1 & F2 & F3).
  apply prec_ok_unique; auto; congruence.
Qed.

(* ------------------------------------------------------------------ the precedence table *)

(* "tightest first: * / %; + -; << >>; &; ^; |; < > <= >=; = !=" *)
Definition levels : list (list binop) :=
  [[Times; Divide; Reminder]; [Plus; Minus]; [ShiftLeft; ShiftRight]; [And]; [Xor]; [Or];
   [LessThan; GreaterThan; LessThanOrEqual; GreaterThanOrEqual]; [Equal; NotEqual]].

Fixpoint level_in (op : binop) (ls : list (list binop)) (i : nat) : option nat :=
  match ls with
  | [] => None
  | c :: r => if existsb (binop_beq op) c then Some i else level_in op r (S i)
  end.

(* index of the class containing op *)
Definition level_of (op : binop) : option nat := level_in op levels O.

Theorem level_of_total : forall a, level_of a <> None.
Proof. intros a; destruct a; vm_compute; discriminate. Qed.

Theorem precedence_is_levels : forall a b i j,
  level_of a = Some i -> level_of b = Some j ->
  ((precedence a <? precedence b)%N = (i <? j)%nat) /\
  ((precedence a =? precedence b)%N = (i =? j)%nat).
Proof.
  intros a b i j Ha Hb.
  destruct a; vm_compute in Ha; injection Ha as <-;
  destruct b; vm_compute in Hb; injection Hb as <-;
  vm_compute; split; reflexivity.
Qed.

(* the classes are disjoint and list each operator once: level_of is the only index *)
Lemma level_of_spec : forall a i, level_of a = Some i <->
  exists c, nth_error levels i = Some c /\ In a c.
Proof.
  intros a i. split.
  - intros H. destruct a; vm_compute in H; injection H as <-;
      (eexists; split; [reflexivity|simpl; tauto]).
  - intros (c & Hn & Hin).
    do 8 (destruct i as [|i]; [simpl in Hn; injection Hn as <-; simpl in Hin;
          repeat (destruct Hin as [<-|Hin]; [reflexivity|]); contradiction|]).
    destruct i; discriminate.
Qed.

(* ------------------------------------------------------------------ evaluation order *)

Lemma bt_add_same_level : forall o l r op e,
  precedence op = precedence o ->
  bt_add (BNode o l r) op e = BNode op (BNode o l r) (BAtom e).
Proof. intros o l r op e H. simpl. rewrite H, N.ltb_irrefl. reflexivity. Qed.

(* a chain of operators of one precedence level is left-nested (evaluated left to right) *)
Theorem same_level_left_assoc : forall a0 l,
  (forall p q, In p l -> In q l -> precedence (fst p) = precedence (fst q)) ->
  bt_expr (fold_left (fun t p => bt_add t (fst p) (snd p)) l (BAtom a0))
  = fold_left (fun e p => EBin (fst p) e (snd p)) l a0.
Proof.
  intros a0 l Hsame.
  (* invariant: the tree is an atom, or a node whose root operator has the common level *)
  assert (G : forall l t,
    (forall p q, In p l -> In q l -> precedence (fst p) = precedence (fst q)) ->
    (forall p, In p l -> match t with BAtom _ => True
                         | BNode o _ _ => precedence (fst p) = precedence o end) ->
    bt_expr (fold_left (fun t p => bt_add t (fst p) (snd p)) l t)
    = fold_left (fun e p => EBin (fst p) e (snd p)) l (bt_expr t)).
  { clear. induction l as [|[op e] l IH]; intros t Hs Ht; [reflexivity|].
    cbn [fold_left fst snd].
    assert (Eadd : bt_add t op e = BNode op t (BAtom e)).
    { destruct t as [a|o tl tr]; [reflexivity|].
      apply bt_add_same_level. apply (Ht (op, e)). left; reflexivity. }
    rewrite Eadd. rewrite IH.
    - reflexivity.
    - intros p q Hp Hq. apply Hs; right; assumption.
    - intros p Hp. apply (Hs p (op, e)); [right; assumption|left; reflexivity]. }
  apply (G l (BAtom a0) Hsame). intros p _. exact I.
Qed.

(* ------------------------------------------------------------------ examples *)

Definition parse_flat (a0 : expr) (l : list (binop * expr)) : expr :=
  bt_expr (fold_left (fun t p => bt_add t (fst p) (snd p)) l (BAtom a0)).

(* 1 + 2 * 3 - 4  =  (1 + (2 * 3)) - 4 *)
Example ex_arith :
  parse_flat (ENum 1) [(Plus, ENum 2); (Times, ENum 3); (Minus, ENum 4)]
  = EBin Minus (EBin Plus (ENum 1) (EBin Times (ENum 2) (ENum 3))) (ENum 4).
Proof. vm_compute. reflexivity. Qed.

(* a | b ^ c & d  =  a | (b ^ (c & d)) *)
Example ex_bitwise :
  let v c := EVar [c] in
  parse_flat (v 97) [(Or, v 98); (Xor, v 99); (And, v 100)]
  = EBin Or (v 97) (EBin Xor (v 98) (EBin And (v 99) (v 100))).
Proof. vm_compute. reflexivity. Qed.

(* a - b - c = (a - b) - c ;  a < b = c  =  (a < b) = c *)
Example ex_left_assoc :
  let v c := EVar [c] in
  parse_flat (v 97) [(Minus, v 98); (Plus, v 99)] = EBin Plus (EBin Minus (v 97) (v 98)) (v 99)
  /\ parse_flat (v 97) [(LessThan, v 98); (Equal, v 99)] = EBin Equal (EBin LessThan (v 97) (v 98)) (v 99).
Proof. vm_compute. split; reflexivity. Qed.

Print Assumptions fold_add_ok.
Print Assumptions prec_ok_unique.
Print Assumptions fold_add_is_the_parse.
Print Assumptions precedence_is_levels.
Print Assumptions level_of_total.
Print Assumptions level_of_spec.
Print Assumptions same_level_left_assoc.
