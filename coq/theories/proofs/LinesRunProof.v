(* C19 lifted to the RUN, through error items: every row that an iterator hands out -- the
   DataRowIterator driven by a caller that keeps calling next() after error items, and the
   StaticDataRowIterator -- reports the line of a data row statement of the program, and all the
   rows that come from one evaluated source row (its X / C expansions) report the same line.

   THE RULE (read off Iter.get_row / Stmt.next):
     - the only place where a line enters the iterator is the NYield of the statement iterator:
       `SRow d l` yields (the evaluated d, l), with the l of the STATEMENT -- every pass of a loop
       or a while over that statement yields the same l (next_rows);
     - the yielded row is put into the empty cache with that line; expand_x / expand_c replace the
       top row of the cache by rows with the SAME de_line (prepare_cache_lines);
     - next() pops the top of the cache and reports its de_line as er_line = dr_line, whether the
       item then becomes a row or an error item (driver error, refused answer): the rest of the
       cache stays, with its lines (inext_lines).
   Hence two invariants of every state of a run:
     lines_inv P   every row in the cache and every row statement the statement iterator still
                   holds has a line in P (P = "is the line of a row statement of the program");
     uniform       all rows of the cache carry one line (the line of the source row in expansion).
   No well-formedness hypothesis anywhere: every generator, driver, test case, fuel. *)
From Coq Require Import String.
From DTR Require Import Prelude I64 Ast FramedMap Lexer Parser Bind Eval Stmt Iter Script Static Dig.
From DTR.proofs Require Import LexerProof ParserProof ParserLinesProof ShowLex StmtRefine IterLogProof
  ExpandProof RunRefine RunRefineE WidthProof VectorProof OutputsRunProof DigLinesProof.
Local Open Scope nat_scope.

Local Arguments NYield {C F W} w line it c.
Local Arguments NDone {C F W} it c.
Local Arguments NErr {C F W} f it c.
Local Arguments NPanic {C F W} site.
Local Arguments NOOF {C F W}.
Local Arguments ItNone {DE} st.
Local Arguments ItRow {DE} row st.
Local Arguments ItErr {DE} e st.
Local Arguments ItPanic {DE} s.
Local Arguments ItOOF {DE}.
Local Arguments NewOk {DE} st.
Local Arguments NewErr {DE} e log.
Local Arguments NewPanic {DE} s.

(* ------------------------------------------------------------------ *)
(* the row statements of a program, with their lines, at any depth *)

Fixpoint stmt_lrows (s : stmt) : list (list dentry * N) :=
  match s with
  | SRow d ln => [(d, ln)]
  | SLoop _ _ body | SWhile _ body =>
      (fix go (l : list stmt) : list (list dentry * N) :=
         match l with [] => [] | x :: r => stmt_lrows x ++ go r end) body
  | _ => []
  end.

Definition lrows (ss : list stmt) : list (list dentry * N) := flat_map stmt_lrows ss.

Lemma stmt_lrows_loop : forall v max body, stmt_lrows (SLoop v max body) = lrows body.
Proof.
  intros. cbn [stmt_lrows]. induction body as [|x r IH]; [reflexivity|].
  unfold lrows in *. cbn [flat_map]. rewrite IH. reflexivity.
Qed.

Lemma stmt_lrows_while : forall c body, stmt_lrows (SWhile c body) = lrows body.
Proof.
  intros. cbn [stmt_lrows]. induction body as [|x r IH]; [reflexivity|].
  unfold lrows in *. cbn [flat_map]. rewrite IH. reflexivity.
Qed.

(* the lines of ParserLinesProof.row_lines are the lines of these statements *)
Lemma stmt_lrows_lines : forall s, map snd (stmt_lrows s) = stmt_lines s.
Proof.
  induction s as [x e|data ln|v max body IH|c body IH|] using stmt_ind_nested; try reflexivity.
  - rewrite stmt_lrows_loop, stmt_lines_loop. unfold lrows, row_lines.
    induction IH as [|x r Hx _ IHr]; [reflexivity|]. cbn [flat_map]. rewrite map_app, Hx, IHr. reflexivity.
  - rewrite stmt_lrows_while, stmt_lines_while. unfold lrows, row_lines.
    induction IH as [|x r Hx _ IHr]; [reflexivity|]. cbn [flat_map]. rewrite map_app, Hx, IHr. reflexivity.
Qed.

Lemma lrows_lines : forall ss, map snd (lrows ss) = row_lines ss.
Proof.
  induction ss as [|s r IH]; [reflexivity|]. unfold lrows, row_lines in *. cbn [flat_map].
  rewrite map_app, stmt_lrows_lines, IH. reflexivity.
Qed.

Lemma lrows_line_In : forall d l ss, In (d, l) (lrows ss) -> In l (row_lines ss).
Proof. intros d l ss H. rewrite <- lrows_lines. apply (in_map snd) in H. exact H. Qed.

Lemma row_lines_In_lrows : forall l ss, In l (row_lines ss) -> exists d, In (d, l) (lrows ss).
Proof.
  intros l ss H. rewrite <- lrows_lines in H. apply in_map_iff in H.
  destruct H as [[d l'] [E H]]. cbn [snd] in E. subst l'. exists d. exact H.
Qed.

(* `SRow d l` occurs in ss, at any depth *)
Inductive occurs (d : list dentry) (l : N) : list stmt -> Prop :=
| occ_here : forall r, occurs d l (SRow d l :: r)
| occ_loop : forall v max body r, occurs d l body -> occurs d l (SLoop v max body :: r)
| occ_while : forall c body r, occurs d l body -> occurs d l (SWhile c body :: r)
| occ_later : forall s r, occurs d l r -> occurs d l (s :: r).

Lemma lrows_occurs : forall d l ss, In (d, l) (lrows ss) <-> occurs d l ss.
Proof.
  intros d l ss. split.
  - revert ss.
    assert (Hs : forall s, (forall r, In (d, l) (stmt_lrows s) -> occurs d l (s :: r))).
    { induction s as [x e|data ln|v max body IH|c body IH|] using stmt_ind_nested; intros r H;
        try (cbn in H; contradiction).
      - cbn in H. destruct H as [H|[]]. inversion H; subst. constructor.
      - rewrite stmt_lrows_loop in H. apply occ_loop. unfold lrows in H.
        induction IH as [|x r' Hx _ IHr]; [contradiction H|]. cbn [flat_map] in H.
        apply in_app_or in H. destruct H as [H|H]; [apply Hx; exact H|apply occ_later, IHr; exact H].
      - rewrite stmt_lrows_while in H. apply occ_while. unfold lrows in H.
        induction IH as [|x r' Hx _ IHr]; [contradiction H|]. cbn [flat_map] in H.
        apply in_app_or in H. destruct H as [H|H]; [apply Hx; exact H|apply occ_later, IHr; exact H]. }
    induction ss as [|s r IH]; intro H; [contradiction H|].
    unfold lrows in H. cbn [flat_map] in H. apply in_app_or in H.
    destruct H as [H|H]; [apply Hs; exact H|apply occ_later, IH; exact H].
  - intro H. induction H as [r|v max body r _ IH|c body r _ IH|s r _ IH]; unfold lrows in *; cbn [flat_map];
      apply in_or_app.
    + left. left. reflexivity.
    + left. rewrite stmt_lrows_loop. exact IH.
    + left. rewrite stmt_lrows_while. exact IH.
    + right. exact IH.
Qed.

(* every row statement of ss satisfies P *)
Definition rows_all (P : list dentry -> N -> Prop) (ss : list stmt) : Prop :=
  Forall (fun p => P (fst p) (snd p)) (lrows ss).

Lemma rows_all_cons : forall P s r,
  rows_all P (s :: r) <-> Forall (fun p => P (fst p) (snd p)) (stmt_lrows s) /\ rows_all P r.
Proof. intros P s r. unfold rows_all, lrows. cbn [flat_map]. apply Forall_app. Qed.

Lemma rows_all_nil : forall P, rows_all P [].
Proof. intro P. constructor. Qed.

Lemma rows_all_row : forall P d l r, rows_all P (SRow d l :: r) -> P d l /\ rows_all P r.
Proof.
  intros P d l r H. apply rows_all_cons in H. destruct H as [H1 H2]. split; [|exact H2].
  cbn [stmt_lrows] in H1. inversion H1; subst. assumption.
Qed.

Lemma rows_all_let : forall P x e r, rows_all P (SLet x e :: r) -> rows_all P r.
Proof. intros P x e r H. apply rows_all_cons in H. exact (proj2 H). Qed.

Lemma rows_all_reset : forall P r, rows_all P (SReset :: r) -> rows_all P r.
Proof. intros P r H. apply rows_all_cons in H. exact (proj2 H). Qed.

Lemma rows_all_loop : forall P v e body r, rows_all P (SLoop v e body :: r) -> rows_all P body /\ rows_all P r.
Proof. intros P v e body r H. apply rows_all_cons in H. rewrite stmt_lrows_loop in H. exact H. Qed.

Lemma rows_all_while : forall P e body r, rows_all P (SWhile e body :: r) -> rows_all P body /\ rows_all P r.
Proof. intros P e body r H. apply rows_all_cons in H. rewrite stmt_lrows_while in H. exact H. Qed.

(* every row statement the statement iterator still holds (the rest of its list, the body of
   the loop it is in, the inner iterator) satisfies P *)
Fixpoint it_all (P : list dentry -> N -> Prop) (it : siter) : Prop :=
  match it with SI rest st =>
    rows_all P rest /\
    match st with
    | Iterate => True
    | StartLoop ls | StartInner ls | EndInner ls => rows_all P (lbody ls)
    | IterInner inner ls => rows_all P (lbody ls) /\ it_all P inner
    | StartWhile ws => rows_all P (wbody ws)
    | WhileInner inner ws => rows_all P (wbody ws) /\ it_all P inner
    end
  end.

Lemma it_all_new : forall P ss, rows_all P ss -> it_all P (siter_new ss).
Proof. intros P ss H. split; [exact H|exact I]. Qed.

(* ------------------------------------------------------------------ *)
(* the statement iterator, generic in the evaluation *)

Section STMT_LINES.
Variables (C F W : Type).
Variable eval : C -> expr -> C * (Z + F).
Variable row_eval : C -> list dentry -> C * (W + F).
Variable setv : C -> name -> Z -> C.
Variable getv : C -> name -> option Z.
Variables push pop reset : C -> C.
Variable P : list dentry -> N -> Prop.

Local Notation next := (Stmt.next C F W eval row_eval setv getv push pop reset).

Definition nres_rows (r : nres C F W) : Prop :=
  match r with
  | NYield w l it' c' =>
      (* the row is the evaluation of a row statement `SRow d l` that the iterator held, and the
         line is that statement's *)
      (exists d c0, P d l /\ row_eval c0 d = (c', inl w)) /\ it_all P it'
  | NDone it' _ | NErr _ it' _ => it_all P it'
  | _ => True
  end.

(* whatever next() yields comes from a row statement the iterator held, and what it still holds
   afterwards it held before -- also when it returns an error (Stmt.v: the iterator object after
   the `?`) *)
Lemma next_rows : forall fuel it c, it_all P it -> nres_rows (next fuel it c).
Proof.
  induction fuel as [|f IH]; intros it c Hit; [exact I|].
  rewrite next_S. destruct it as [rest st]. cbn [it_all] in Hit. destruct Hit as [Hrest Hst].
  destruct st as [|ls|ls|inner ls|ls|ws|inner ws].
  - destruct rest as [|s r0]; [split; [exact Hrest|exact I]|].
    destruct s as [n e|d l|v e body|e body|].
    + apply rows_all_let in Hrest.
      destruct (eval c e) as [c1 [z|x]]; [apply IH|]; (split; [exact Hrest|exact I]).
    + apply rows_all_row in Hrest. destruct Hrest as [Hd Hr].
      destruct (row_eval c d) as [c1 [w|x]] eqn:E; cbn [nres_rows].
      * split; [exists d, c; auto|]. split; [exact Hr|exact I].
      * split; [exact Hr|exact I].
    + apply rows_all_loop in Hrest. destruct Hrest as [Hb Hr].
      destruct (eval c e) as [c1 [z|x]]; [apply IH|]; (split; [exact Hr|]); [exact Hb|exact I].
    + apply rows_all_while in Hrest. destruct Hrest as [Hb Hr]. apply IH. split; [exact Hr|exact Hb].
    + apply rows_all_reset in Hrest. apply IH. split; [exact Hrest|exact I].
  - destruct (Z.ltb 0 (lmax ls)); apply IH; (split; [exact Hrest|]); [exact Hst|exact I].
  - apply IH. split; [exact Hrest|]. split; [exact Hst|]. apply it_all_new. exact Hst.
  - destruct Hst as [Hb Hin]. pose proof (IH inner c Hin) as Hi.
    destruct (next f inner c) as [w l inner' c'|it' c'|x it' c'|s|]; cbn [nres_rows] in Hi |- *;
      try exact I.
    + destruct Hi as [Hy Hi]. split; [exact Hy|]. split; [exact Hrest|]. split; assumption.
    + apply IH. split; [exact Hrest|exact Hb].
    + split; [exact Hrest|]. split; assumption.
  - destruct (getv c (lvar ls)) as [i|]; [|exact I].
    destruct (Z.ltb (wadd i 1) (lmax ls)); apply IH; (split; [exact Hrest|]); [exact Hst|exact I].
  - destruct (eval c (wcond ws)) as [c1 [z|x]]; [|split; [exact Hrest|exact Hst]].
    destruct (Z.eqb z 0); apply IH; (split; [exact Hrest|]); [exact I|].
    split; [exact Hst|]. apply it_all_new. exact Hst.
  - destruct Hst as [Hb Hin]. pose proof (IH inner c Hin) as Hi.
    destruct (next f inner c) as [w l inner' c'|it' c'|x it' c'|s|]; cbn [nres_rows] in Hi |- *;
      try exact I.
    + destruct Hi as [Hy Hi]. split; [exact Hy|]. split; [exact Hrest|]. split; assumption.
    + apply IH. split; [exact Hrest|exact Hb].
    + split; [exact Hrest|]. split; assumption.
Qed.

End STMT_LINES.

(* ------------------------------------------------------------------ *)
(* the cache: expand_x / expand_c replace the top row by rows with its line *)

Section CACHE_LINES.
Variable tc : testcase.

Lemma expand_x_lines : forall f r0 rest0 cache',
  expand_x tc f (r0 :: rest0) = Ok cache' ->
  exists top new, cache' = top :: new ++ rest0 /\ de_line top = de_line r0 /\
                  Forall (fun r => de_line r = de_line r0) new.
Proof.
  induction f as [|f IH]; intros r0 rest0 cache' H; [discriminate H|].
  rewrite expand_x_S_cons in H.
  destruct (find_x_from tc 0 (de_entries r0)) as [i|].
  - apply IH in H. destruct H as [top [new [Hc [Ht Hn]]]]. cbn [set_entry de_line] in Ht, Hn.
    exists top, (new ++ [set_entry r0 i (DNum 1)]). split; [|split; [exact Ht|]].
    + rewrite Hc, <- app_assoc. reflexivity.
    + apply Forall_app. split; [exact Hn|]. constructor; [reflexivity|constructor].
  - inversion H; subst cache'. exists r0, []. split; [reflexivity|]. split; [reflexivity|constructor].
Qed.

Lemma expand_c_lines : forall r0 rest0 cache',
  expand_c tc (r0 :: rest0) = Ok cache' ->
  exists top new, cache' = top :: new ++ rest0 /\ de_line top = de_line r0 /\
                  Forall (fun r => de_line r = de_line r0) new.
Proof.
  intros r0 rest0 cache' H. unfold expand_c in H.
  destruct (c_indices tc (de_entries r0)) as [|i cs].
  - inversion H; subst cache'. exists r0, []. split; [reflexivity|]. split; [reflexivity|constructor].
  - inversion H; subst cache'. eexists _, [_; _]. split; [reflexivity|]. split; [reflexivity|].
    constructor; [reflexivity|]. constructor; [reflexivity|constructor].
Qed.

(* one prepare_cache: the rows that replace the top row carry its line, the rest of the stack is
   untouched *)
Lemma prepare_cache_lines : forall r0 rest0 cache',
  prepare_cache tc (r0 :: rest0) = Ok cache' ->
  exists top new, cache' = top :: new ++ rest0 /\ de_line top = de_line r0 /\
                  Forall (fun r => de_line r = de_line r0) new.
Proof.
  intros r0 rest0 cache' H. unfold prepare_cache in H.
  destruct (expand_x tc (S (length (de_entries r0))) (r0 :: rest0)) as [cx|e|s|] eqn:Ex;
    cbn [rbind] in H; try discriminate H.
  apply expand_x_lines in Ex. destruct Ex as [a [n1 [Hcx [Ha Hn1]]]]. subst cx.
  apply expand_c_lines in H. destruct H as [b [n2 [Hc [Hb Hn2]]]].
  exists b, (n2 ++ n1). split; [rewrite Hc, <- app_assoc; reflexivity|]. split; [congruence|].
  apply Forall_app. split; [|exact Hn1].
  eapply Forall_impl; [|exact Hn2]. cbv beta. intros r Hr. congruence.
Qed.

Lemma prepare_cache_nil : forall cache', prepare_cache tc [] <> Ok cache'.
Proof. intros cache' H. discriminate H. Qed.

(* the part of get_row after the refill: it pops a row with the line of the top of the cache *)
Lemma finish_row_lines : forall st1 er st2,
  finish_row tc st1 = GRRow er st2 ->
  exists r0 rest0 new,
    i_cache st1 = r0 :: rest0 /\ er_line er = de_line r0 /\ i_iter st2 = i_iter st1 /\
    i_cache st2 = new ++ rest0 /\ Forall (fun r => de_line r = de_line r0) new.
Proof.
  intros st1 er st2 H. unfold finish_row in H.
  destruct (i_cache st1) as [|r0 rest0] eqn:Hc; [discriminate H|].
  destruct (prepare_cache tc (r0 :: rest0)) as [[|row rest]|e|s|] eqn:Hp; try discriminate H.
  apply prepare_cache_lines in Hp. destruct Hp as [top [new [Hc' [Ht Hn]]]].
  inversion Hc'; subst top rest. cbv zeta in H.
  destruct (generate_input_entries tc (de_entries row)
              (check_changed_entries (i_prev st1) (de_entries row))) as [inputs|e|s|]; try discriminate H.
  destruct (generate_expected_entries tc (de_entries row)) as [expected|e|s|]; try discriminate H.
  inversion H; subst er st2. exists r0, rest0, new. cbn [er_line i_iter i_cache]. auto.
Qed.

End CACHE_LINES.

(* ------------------------------------------------------------------ *)
(* one next() *)

Section LINES_RUN.
Variable G : gen.
Variable DE : Type.
Variable D : driver DE.
Variable w_default : bool.
Variable tc : testcase.

Local Notation snext := (Iter.snext G).
Local Notation get_row := (Iter.get_row G tc).
Local Notation inext := (Iter.inext G DE D w_default tc).
Local Notation try_new := (Iter.try_new DE D tc).
Local Notation collect_e := (RunRefineE.collect_e G DE D w_default tc).
Local Notation collect := (IterLogProof.collect G DE D w_default tc).
Local Notation next_state := (VectorProof.next_state DE).
Local Notation reach := (VectorProof.reach G DE D w_default tc).
Local Notation item_rows := (WidthProof.item_rows DE).

Definition all_line (l : N) (cache : list dentries) : Prop := Forall (fun r => de_line r = l) cache.

(* get_row, by the cache it finds: with rows in the cache it serves the top one (a CONTINUATION
   of the source row in expansion, the statement iterator is not asked); with an empty cache it
   asks the statement iterator and serves what that yields (a REFILL) *)
Lemma get_row_lines : forall fuel st,
  match i_cache st with
  | r0 :: rest0 =>
      match get_row fuel st with
      | GRRow er st1 =>
          er_line er = de_line r0 /\ i_iter st1 = i_iter st /\
          exists new, i_cache st1 = new ++ rest0 /\ all_line (de_line r0) new
      | GRNone _ | GRErr _ _ => False
      | _ => True
      end
  | [] =>
      match get_row fuel st with
      | GRRow er st1 =>
          exists w it' c', snext fuel (i_iter st) (i_ctx st) = NYield w (er_line er) it' c' /\
            i_iter st1 = it' /\ all_line (er_line er) (i_cache st1)
      | GRNone st1 =>
          exists it' c', snext fuel (i_iter st) (i_ctx st) = NDone it' c' /\
            i_iter st1 = it' /\ i_cache st1 = []
      | GRErr x st1 =>
          exists it' c', snext fuel (i_iter st) (i_ctx st) = NErr (XFErr x) it' c' /\
            i_iter st1 = it' /\ i_cache st1 = []
      | _ => True
      end
  end.
Proof.
  intros fuel st. rewrite get_row_unfold. destruct (i_cache st) as [|r0 rest0] eqn:Hc.
  - destruct (snext fuel (i_iter st) (i_ctx st)) as [w l it' c'|it' c'|[x|s] it' c'|s|] eqn:Hn;
      try exact I.
    + match goal with |- context [finish_row tc ?sx] =>
        pose proof (finish_row_inv tc sx) as Hf; pose proof (finish_row_lines tc sx) as Hl;
        destruct (finish_row tc sx) as [st2|er st2|x st2|s0|] end; try contradiction; try exact I.
      destruct (Hl er st2 eq_refl) as [r0 [rest0 [new [Hc1 [He [Hi [Hc2 Hnew]]]]]]].
      cbn [with_iter_ctx i_cache i_iter] in Hc1, Hi. inversion Hc1; subst r0 rest0.
      cbn [de_line] in He, Hnew. rewrite He. exists w, it', c'. split; [reflexivity|]. split; [exact Hi|].
      rewrite Hc2, app_nil_r. exact Hnew.
    + exists it', c'. auto.
    + exists it', c'. auto.
  - pose proof (finish_row_inv tc st) as Hf. pose proof (finish_row_lines tc st) as Hl.
    destruct (finish_row tc st) as [st2|er st2|x st2|s0|]; try contradiction; try exact I.
    destruct (Hl er st2 eq_refl) as [r1 [rest1 [new [Hc1 [He [Hi [Hc2 Hnew]]]]]]].
    rewrite Hc in Hc1. inversion Hc1; subst r1 rest1. split; [exact He|]. split; [exact Hi|].
    exists new. auto.
Qed.

(* what an item has to do with the row get_row served *)
Lemma inext_get_row : forall fuel st,
  match inext fuel st with
  | ItNone st' => get_row fuel st = GRNone st'
  | ItRow row st' =>
      exists er st1, get_row fuel st = GRRow er st1 /\ dr_line row = er_line er /\
        i_iter st' = i_iter st1 /\ i_cache st' = i_cache st1
  | ItErr e st' =>
      (exists x, get_row fuel st = GRErr x st') \/
      (* a failed call, a refused answer: the row is lost, the rest of the cache is not *)
      (exists er st1, get_row fuel st = GRRow er st1 /\ i_iter st' = i_iter st1 /\ i_cache st' = i_cache st1)
  | ItPanic _ | ItOOF => True
  end.
Proof.
  intros fuel st. pose proof (inext_inv G DE D w_default tc fuel st) as H.
  destruct (inext fuel st) as [st'|row st'|[e|r] st'|s|]; try exact I.
  - exact H.
  - destruct H as [er [st1 [Hg [[_ [outs [c2 [vals [_ [_ [Hr Hs]]]]]]]|[_ [outs [_ [Hr Hs]]]]]]]];
      exists er, st1; subst row st'; cbn [into_data_row dr_line with_ctx_log i_iter i_cache]; auto.
  - destruct H as [er [st1 [Hg [_ Hs]]]]. right. exists er, st1. subst st'.
    cbn [with_ctx_log i_iter i_cache]. auto.
  - destruct H as [[x [_ Hg]]|[er [st1 [outs [c2 [Hg [_ [_ [_ Hs]]]]]]]]].
    + left. exists x. exact Hg.
    + right. exists er, st1. subst st'. cbn [with_ctx_log i_iter i_cache]. auto.
Qed.

(* THE CASE TABLE for lines.  Every outcome of next() that hands a state back. *)
Theorem inext_lines : forall fuel st st',
  next_state (inext fuel st) = Some st' ->
  match i_cache st with
  | r0 :: rest0 =>
      (* a continuation: the item is a row with the line of the top of the cache, or an error
         item; the rows that replace the top carry its line; the statement iterator is not asked *)
      i_iter st' = i_iter st /\
      (exists new, i_cache st' = new ++ rest0 /\ all_line (de_line r0) new) /\
      match inext fuel st with
      | ItRow row _ => dr_line row = de_line r0
      | ItNone _ => False
      | _ => True
      end
  | [] =>
      match snext fuel (i_iter st) (i_ctx st) with
      | NYield w l it' c' =>
          (* a refill: the cache now holds rows of line l only; the item is a row of line l or an
             error item *)
          i_iter st' = it' /\ all_line l (i_cache st') /\
          match inext fuel st with
          | ItRow row _ => dr_line row = l
          | ItNone _ => False
          | _ => True
          end
      | NDone it' c' =>
          i_iter st' = it' /\ i_cache st' = [] /\
          match inext fuel st with ItNone _ => True | _ => False end
      | NErr _ it' c' =>
          i_iter st' = it' /\ i_cache st' = [] /\
          match inext fuel st with ItErr _ _ => True | _ => False end
      | _ => False
      end
  end.
Proof.
  intros fuel st st' Hn. pose proof (get_row_lines fuel st) as Hg.
  pose proof (inext_get_row fuel st) as Hi.
  destruct (i_cache st) as [|r0 rest0] eqn:Hc.
  - destruct (inext fuel st) as [s1|row s1|e s1|s|]; cbn [VectorProof.next_state] in Hn; try discriminate Hn;
      inversion Hn; subst s1; clear Hn.
    + rewrite Hi in Hg. destruct Hg as [it' [c' [Hs [H1 H2]]]]. rewrite Hs. auto.
    + destruct Hi as [er [st1 [Hr [Hl [Hit Hca]]]]]. rewrite Hr in Hg.
      destruct Hg as [w [it' [c' [Hs [H1 H2]]]]]. rewrite Hs, Hit, Hca, Hl. auto.
    + destruct Hi as [[x Hr]|[er [st1 [Hr [Hit Hca]]]]]; rewrite Hr in Hg.
      * destruct Hg as [it' [c' [Hs [H1 H2]]]]. rewrite Hs. auto.
      * destruct Hg as [w [it' [c' [Hs [H1 H2]]]]]. rewrite Hs, Hit, Hca. auto.
  - destruct (inext fuel st) as [s1|row s1|e s1|s|]; cbn [VectorProof.next_state] in Hn; try discriminate Hn;
      inversion Hn; subst s1; clear Hn.
    + rewrite Hi in Hg. contradiction.
    + destruct Hi as [er [st1 [Hr [Hl [Hit Hca]]]]]. rewrite Hr in Hg.
      destruct Hg as [H1 [H2 H3]]. rewrite Hit, Hca, Hl. auto.
    + destruct Hi as [[x Hr]|[er [st1 [Hr [Hit Hca]]]]]; rewrite Hr in Hg; [contradiction|].
      destruct Hg as [H1 [H2 H3]]. rewrite Hit, Hca. auto.
Qed.

(* ---------------------------------------------------------------- invariant 1: lines of the program *)

(* every row of the cache has a line in Q, and so has every row statement that the statement
   iterator still holds *)
Definition lines_inv (Q : N -> Prop) (st : istate) : Prop :=
  Forall (fun r => Q (de_line r)) (i_cache st) /\ it_all (fun _ l => Q l) (i_iter st).

Lemma all_line_Q : forall (Q : N -> Prop) l cache, Q l -> all_line l cache -> Forall (fun r => Q (de_line r)) cache.
Proof.
  intros Q l cache Hq H. eapply Forall_impl; [|exact H]. cbv beta. intros r Hr. rewrite Hr. exact Hq.
Qed.

Lemma snext_rows : forall (P : list dentry -> N -> Prop) fuel it c, it_all P it ->
  nres_rows ctx xfail (list dentry) (lift_row_eval G) P (snext fuel it c).
Proof. intros P fuel it c H. unfold Iter.snext. apply next_rows. exact H. Qed.

Theorem inext_lines_inv : forall Q fuel st st',
  lines_inv Q st -> next_state (inext fuel st) = Some st' -> lines_inv Q st'.
Proof.
  intros Q fuel st st' [Hca Hit] Hn. pose proof (inext_lines fuel st st' Hn) as H.
  destruct (i_cache st) as [|r0 rest0] eqn:Hc.
  - pose proof (snext_rows (fun _ l => Q l) fuel (i_iter st) (i_ctx st) Hit) as Hs.
    destruct (snext fuel (i_iter st) (i_ctx st)) as [w l it' c'|it' c'|x it' c'|s|]; try contradiction;
      cbn [nres_rows] in Hs.
    + destruct H as [H1 [H2 _]]. destruct Hs as [[d [c0 [Hq _]]] Hs]. split; [|rewrite H1; exact Hs].
      eapply all_line_Q; eauto.
    + destruct H as [H1 [H2 _]]. split; [rewrite H2; constructor|rewrite H1; exact Hs].
    + destruct H as [H1 [H2 _]]. split; [rewrite H2; constructor|rewrite H1; exact Hs].
  - destruct H as [H1 [[new [H2 H3]] _]]. inversion Hca as [|? ? Hq Hrest]; subst.
    split; [|rewrite H1; exact Hit]. rewrite H2. apply Forall_app. split; [|exact Hrest].
    eapply all_line_Q; eauto.
Qed.

Theorem inext_row_line_inv : forall Q fuel st row st',
  lines_inv Q st -> inext fuel st = ItRow row st' -> Q (dr_line row).
Proof.
  intros Q fuel st row st' [Hca Hit] Hi.
  assert (Hn : next_state (inext fuel st) = Some st') by (rewrite Hi; reflexivity).
  pose proof (inext_lines fuel st st' Hn) as H. rewrite Hi in H.
  destruct (i_cache st) as [|r0 rest0] eqn:Hc.
  - pose proof (snext_rows (fun _ l => Q l) fuel (i_iter st) (i_ctx st) Hit) as Hs.
    destruct (snext fuel (i_iter st) (i_ctx st)) as [w l it' c'|it' c'|x it' c'|s|]; try contradiction;
      cbn [nres_rows] in Hs; [|exfalso; tauto|exfalso; tauto].
    destruct H as [_ [_ H]]. destruct Hs as [[d [c0 [Hq _]]] _]. rewrite H. exact Hq.
  - destruct H as [_ [_ H]]. rewrite H. inversion Hca; subst. assumption.
Qed.

Lemma try_new_state : forall st0, try_new = NewOk st0 ->
  i_cache st0 = [] /\ i_iter st0 = siter_new (tc_stmts tc).
Proof.
  intros st0 H. unfold Iter.try_new in H.
  destruct (generate_default_input_entries tc) as [inputs|e|s|]; try discriminate H.
  destruct (D [] (RW, inputs)) as [e|outs]; try discriminate H.
  destruct (build_output_indices tc outs) as [oi|e|s|]; try discriminate H.
  inversion H; subst st0. split; reflexivity.
Qed.

Definition program_line (l : N) : Prop := In l (row_lines (tc_stmts tc)).

Lemma program_lines_all : rows_all (fun _ l => program_line l) (tc_stmts tc).
Proof.
  unfold rows_all. apply Forall_forall. intros [d l] Hin. cbn [fst snd].
  eapply lrows_line_In. exact Hin.
Qed.

Theorem try_new_lines_inv : forall st0, try_new = NewOk st0 -> lines_inv program_line st0.
Proof.
  intros st0 H. destruct (try_new_state st0 H) as [Hc Hi]. split.
  - rewrite Hc. constructor.
  - rewrite Hi. apply it_all_new. exact program_lines_all.
Qed.

Lemma reach_lines_inv : forall Q fuel st st', reach fuel st st' -> lines_inv Q st -> lines_inv Q st'.
Proof.
  intros Q fuel st st' Hr. induction Hr as [st|st st1 st' Hn _ IH]; intro H; [exact H|].
  apply IH. eapply inext_lines_inv; eauto.
Qed.

(* ---------------------------------------------------------------- invariant 2: one line in the cache *)

Definition uniform (st : istate) : Prop := exists L, all_line L (i_cache st).

Lemma all_line_cons : forall L r0 rest0, all_line L (r0 :: rest0) -> de_line r0 = L /\ all_line L rest0.
Proof. intros L r0 rest0 H. inversion H; subst. auto. Qed.

Lemma all_line_app : forall L a b, all_line L a -> all_line L b -> all_line L (a ++ b).
Proof. intros L a b Ha Hb. apply Forall_app. auto. Qed.

Theorem try_new_uniform : forall st0, try_new = NewOk st0 -> uniform st0.
Proof. intros st0 H. destruct (try_new_state st0 H) as [Hc _]. exists 0%N. rewrite Hc. constructor. Qed.

(* a continuation from a cache of line L: the item (if a row) has line L, and the cache afterwards
   is still of line L -- also behind an error item *)
Lemma continuation_keeps_line : forall fuel st st' L,
  i_cache st <> [] -> all_line L (i_cache st) -> next_state (inext fuel st) = Some st' ->
  all_line L (i_cache st') /\
  match inext fuel st with ItRow row _ => dr_line row = L | ItNone _ => False | _ => True end.
Proof.
  intros fuel st st' L Hne Hall Hn. pose proof (inext_lines fuel st st' Hn) as H.
  destruct (i_cache st) as [|r0 rest0]; [contradiction|].
  apply all_line_cons in Hall. destruct Hall as [H0 Hrest]. rewrite H0 in H.
  destruct H as [_ [[new [H2 H3]] H4]]. split; [|exact H4]. rewrite H2. apply all_line_app; assumption.
Qed.

(* a row item, continuation or refill: what is left in the cache has the line of the row *)
Lemma row_leaves_its_line : forall fuel st row st',
  uniform st -> inext fuel st = ItRow row st' -> all_line (dr_line row) (i_cache st').
Proof.
  intros fuel st row st' [L HL] Hi.
  assert (Hn : next_state (inext fuel st) = Some st') by (rewrite Hi; reflexivity).
  destruct (i_cache st) as [|r0 rest0] eqn:Hc.
  - pose proof (inext_lines fuel st st' Hn) as H. rewrite Hc, Hi in H.
    destruct (snext fuel (i_iter st) (i_ctx st)) as [w l it' c'|it' c'|x it' c'|s|]; try contradiction;
      [|exfalso; tauto|exfalso; tauto].
    destruct H as [_ [H2 H3]]. rewrite H3. exact H2.
  - assert (Hne : i_cache st <> []) by (rewrite Hc; discriminate).
    rewrite <- Hc in HL.
    destruct (continuation_keeps_line fuel st st' L Hne HL Hn) as [H1 H2]. rewrite Hi in H2.
    rewrite H2. exact H1.
Qed.

Theorem inext_uniform : forall fuel st st', uniform st -> next_state (inext fuel st) = Some st' -> uniform st'.
Proof.
  intros fuel st st' [L HL] Hn. destruct (i_cache st) as [|r0 rest0] eqn:Hc.
  - pose proof (inext_lines fuel st st' Hn) as H. rewrite Hc in H.
    destruct (snext fuel (i_iter st) (i_ctx st)) as [w l it' c'|it' c'|x it' c'|s|]; try contradiction.
    + exists l. tauto.
    + exists 0%N. destruct H as [_ [H _]]. rewrite H. constructor.
    + exists 0%N. destruct H as [_ [H _]]. rewrite H. constructor.
  - exists L. rewrite <- Hc in HL. eapply continuation_keeps_line; eauto. rewrite Hc. discriminate.
Qed.

Lemma reach_uniform : forall fuel st st', reach fuel st st' -> uniform st -> uniform st'.
Proof.
  intros fuel st st' Hr. induction Hr as [st|st st1 st' Hn _ IH]; intro H; [exact H|].
  apply IH. eapply inext_uniform; eauto.
Qed.

End LINES_RUN.

(* ------------------------------------------------------------------ *)
(* the run *)

(* the line of a StaticDataRow *)
Definition static_line (r : static_data_row) : N := snd r.

(* what the caller of StaticDataRowIterator::next sees *)
Inductive static_view :=
| SVRow (r : static_data_row)
| SVErr (e : rterr)
| SVNone.

Definition static_rows (P : static_data_row -> Prop) (v : static_view) : Prop :=
  match v with SVRow r => P r | _ => True end.

(* a position in a source text at which a data row starts, and its line *)
Definition line_position (s : text) (line : N) : Prop :=
  exists u v : list N, s = u ++ v /\ line = N.of_nat (1 + count_nl u) /\ row_starts_here v.

Section RUN.
Variable G : gen.

(* the first n calls of StaticDataRowIterator::next of a caller that goes on after error items *)
Fixpoint static_collect (tc : testcase) (fuel n : nat) (st : istate) : list static_view * option istate :=
  match n with
  | O => ([], Some st)
  | S n' =>
      match static_next G tc fuel st with
      | SItRow r st' => let (l, s) := static_collect tc fuel n' st' in (SVRow r :: l, s)
      | SItErr e st' => let (l, s) := static_collect tc fuel n' st' in (SVErr e :: l, s)
      | SItNone st' => ([SVNone], Some st')
      | SItPanic _ | SItOOF => ([], None)
      end
  end.

Lemma static_collect_S : forall tc fuel n st, static_collect tc fuel (S n) st =
  match static_next G tc fuel st with
  | SItRow r st' => let (l, s) := static_collect tc fuel n st' in (SVRow r :: l, s)
  | SItErr e st' => let (l, s) := static_collect tc fuel n st' in (SVErr e :: l, s)
  | SItNone st' => ([SVNone], Some st')
  | SItPanic _ | SItOOF => ([], None)
  end.
Proof. reflexivity. Qed.

(* the static iterator IS the dynamic one over the driver that answers Ok(vec![]) *)
Definition sview (v : item_view N) : static_view :=
  match v with
  | VRow r => SVRow (static_row r)
  | VErr (IE_Runtime e) => SVErr e
  | VErr (IE_Driver _) => SVNone        (* does not occur: static_driver_never_fails *)
  | VNone => SVNone
  end.

Lemma static_driver_never_fails : forall tc fuel st e st',
  Iter.inext G N static_driver true tc fuel st <> ItErr (IE_Driver e) st'.
Proof.
  intros tc fuel st e st' H. pose proof (inext_inv G N static_driver true tc fuel st) as K.
  rewrite H in K. destruct K as [er [st1 [_ [K _]]]]. cbv zeta in K. discriminate K.
Qed.

Theorem static_collect_is_collect_e : forall tc fuel n st,
  static_collect tc fuel n st =
  (map sview (fst (RunRefineE.collect_e G N static_driver true tc fuel n st)),
   snd (RunRefineE.collect_e G N static_driver true tc fuel n st)).
Proof.
  intros tc fuel n. induction n as [|n IH]; intro st; [reflexivity|].
  rewrite static_collect_S, collect_e_S. unfold static_next, snext_static.
  pose proof (static_driver_never_fails tc fuel st) as Hnf.
  destruct (Iter.inext G N static_driver true tc fuel st) as [st'|row st'|[e|r] st'|s|]; try reflexivity.
  - rewrite IH. destruct (RunRefineE.collect_e G N static_driver true tc fuel n st') as [l s]. reflexivity.
  - exfalso. exact (Hnf e st' eq_refl).
  - rewrite IH. destruct (RunRefineE.collect_e G N static_driver true tc fuel n st') as [l s]. reflexivity.
Qed.

Lemma try_iter_static_new : forall tc st, try_iter_static tc = StaticOk st ->
  Iter.try_new N static_driver tc = NewOk st.
Proof.
  intros tc st H. unfold try_iter_static in H. destruct (tc_read_outputs tc) as [|i r].
  - destruct (Iter.try_new N static_driver tc) as [st0|e lg|s]; try discriminate H. inversion H; reflexivity.
  - destruct (read_output_names (tc_signals tc) (i :: r)); discriminate H.
Qed.

Lemma static_rows_of_views : forall (P : N -> Prop) items,
  Forall (WidthProof.item_rows N (fun row => P (dr_line row))) items ->
  Forall (static_rows (fun r => P (static_line r))) (map sview items).
Proof.
  intros P items H. apply Forall_map. eapply Forall_impl; [|exact H]. cbv beta.
  intros [r|[e|e]|] Hv; try exact I. exact Hv.
Qed.

Section DYN.
Variable DE : Type.
Variable D : driver DE.
Variable w_default : bool.

Local Notation collect_e := (RunRefineE.collect_e G DE D w_default).
Local Notation collect := (IterLogProof.collect G DE D w_default).
Local Notation inext := (Iter.inext G DE D w_default).
Local Notation item_rows := (WidthProof.item_rows DE).

(* ---------------------------------------------------------------- (1) *)

(* every state of every run -- any fuel at every call, the caller going on after error items --
   holds rows of program lines only *)
Theorem reachable_lines_inv : forall tc st,
  OutputsRunProof.reachable G DE D w_default tc st -> lines_inv (program_line tc) st.
Proof.
  intros tc st H. induction H as [st0 H0|fuel st st' _ IH Hn].
  - eapply try_new_lines_inv; exact H0.
  - eapply inext_lines_inv; [exact IH|exact Hn].
Qed.

Theorem reachable_row_line : forall tc st fuel row st',
  OutputsRunProof.reachable G DE D w_default tc st -> inext tc fuel st = ItRow row st' ->
  In (dr_line row) (row_lines (tc_stmts tc)).
Proof.
  intros tc st fuel row st' Hr Hi.
  exact (inext_row_line_inv G DE D w_default tc (program_line tc) fuel st row st' (reachable_lines_inv tc st Hr) Hi).
Qed.

(* THE THEOREM (1), dynamic: every row item of the continuing caller reports the line of a row
   statement of the program *)
Theorem every_row_line_is_a_source_row_line : forall tc fuel n st0,
  Iter.try_new DE D tc = NewOk st0 ->
  Forall (item_rows (fun row => In (dr_line row) (row_lines (tc_stmts tc)))) (fst (collect_e tc fuel n st0)).
Proof.
  intros tc fuel n st0 Hnew.
  apply (collect_e_every_row_inv G DE D w_default tc (lines_inv (program_line tc))
           (fun row => In (dr_line row) (row_lines (tc_stmts tc)))).
  - intros fuel' st st'. apply inext_lines_inv.
  - intros fuel' st row st'. apply (inext_row_line_inv G DE D w_default tc (program_line tc)).
  - eapply try_new_lines_inv. exact Hnew.
Qed.

(* ... and of the caller that stops at the first error item *)
Theorem every_row_line_is_a_source_row_line_collect : forall tc fuel n st0,
  Iter.try_new DE D tc = NewOk st0 ->
  Forall (item_rows (fun row => In (dr_line row) (row_lines (tc_stmts tc)))) (fst (collect tc fuel n st0)).
Proof.
  intros tc fuel n st0 Hnew.
  apply (collect_every_row_inv G DE D w_default tc (lines_inv (program_line tc))
           (fun row => In (dr_line row) (row_lines (tc_stmts tc)))).
  - intros fuel' st st'. apply inext_lines_inv.
  - intros fuel' st row st'. apply (inext_row_line_inv G DE D w_default tc (program_line tc)).
  - eapply try_new_lines_inv. exact Hnew.
Qed.

(* the statement behind the line: the row yielded by the statement iterator of a reachable state
   is the evaluation of a statement `SRow d l` occurring in the program (at any depth), and the
   line is that statement's -- in every pass of a loop or while over it *)
Theorem yielded_row_is_a_row_statement : forall tc st fuel w l it' c',
  OutputsRunProof.reachable G DE D w_default tc st ->
  Iter.snext G fuel (i_iter st) (i_ctx st) = NYield w l it' c' ->
  exists d c0, occurs d l (tc_stmts tc) /\ lift_row_eval G c0 d = (c', inl w).
Proof.
  intros tc st fuel w l it' c' Hr Hs.
  assert (Hinv : forall st, OutputsRunProof.reachable G DE D w_default tc st ->
            it_all (fun d l => occurs d l (tc_stmts tc)) (i_iter st)).
  { clear. intros st H. induction H as [st0 H0|fuel st st' _ IH Hn].
    - destruct (try_new_state DE D tc st0 H0) as [_ Hi]. rewrite Hi. apply it_all_new.
      unfold rows_all. apply Forall_forall. intros [d l] Hin. apply lrows_occurs. exact Hin.
    - pose proof (inext_lines G DE D w_default tc fuel st st' Hn) as H.
      destruct (i_cache st) as [|r0 rest0].
      + pose proof (snext_rows G (fun d l => occurs d l (tc_stmts tc)) fuel (i_iter st) (i_ctx st) IH) as Hs.
        destruct (Iter.snext G fuel (i_iter st) (i_ctx st)) as [w l it' c'|it' c'|x it' c'|s|];
          try contradiction; cbn [nres_rows] in Hs; destruct H as [H _]; rewrite H; tauto.
      + destruct H as [H _]. rewrite H. exact IH. }
  pose proof (snext_rows G _ fuel (i_iter st) (i_ctx st) (Hinv st Hr)) as H.
  rewrite Hs in H. cbn [nres_rows] in H. destruct H as [[d [c0 [Ho He]]] _]. exists d, c0. auto.
Qed.

(* ---------------------------------------------------------------- (3) *)

(* the calls of next() of the continuing caller, each with the mark "this call found the cache
   empty and asked the statement iterator" (a new source row) -- false: the call served the next
   expansion row of the source row evaluated before *)
Definition refill_call (st : istate) : bool := match i_cache st with [] => true | _ => false end.

Fixpoint collect_e_tagged (tc : testcase) (fuel n : nat) (st : istate) : list (bool * item_view DE) :=
  match n with
  | O => []
  | S n' =>
      match inext tc fuel st with
      | ItRow row st' => (refill_call st, VRow row) :: collect_e_tagged tc fuel n' st'
      | ItErr e st' => (refill_call st, VErr e) :: collect_e_tagged tc fuel n' st'
      | ItNone st' => [(refill_call st, VNone)]
      | ItPanic _ | ItOOF => []
      end
  end.

Lemma collect_e_tagged_S : forall tc fuel n st, collect_e_tagged tc fuel (S n) st =
  match inext tc fuel st with
  | ItRow row st' => (refill_call st, VRow row) :: collect_e_tagged tc fuel n st'
  | ItErr e st' => (refill_call st, VErr e) :: collect_e_tagged tc fuel n st'
  | ItNone st' => [(refill_call st, VNone)]
  | ItPanic _ | ItOOF => []
  end.
Proof. reflexivity. Qed.

(* the marks are ghost: the items are those of collect_e *)
Theorem collect_e_tagged_items : forall tc fuel n st,
  map snd (collect_e_tagged tc fuel n st) = fst (collect_e tc fuel n st).
Proof.
  intros tc fuel n. induction n as [|n IH]; intro st; [reflexivity|].
  rewrite collect_e_tagged_S, collect_e_S.
  destruct (inext tc fuel st) as [st'|row st'|e st'|s|]; try reflexivity.
  - cbn [map snd]. rewrite IH. destruct (collect_e tc fuel n st'); reflexivity.
  - cbn [map snd]. rewrite IH. destruct (collect_e tc fuel n st'); reflexivity.
Qed.

(* a call that is not marked does not touch the statement iterator *)
Lemma unmarked_call_keeps_iterator : forall tc fuel st st',
  refill_call st = false -> VectorProof.next_state DE (inext tc fuel st) = Some st' -> i_iter st' = i_iter st.
Proof.
  intros tc fuel st st' Hm Hn. pose proof (inext_lines G DE D w_default tc fuel st st' Hn) as H.
  unfold refill_call in Hm. destruct (i_cache st); [discriminate Hm|]. exact (proj1 H).
Qed.

Lemma tagged_suffix : forall tc fuel pre n st x rest,
  uniform st -> collect_e_tagged tc fuel n st = pre ++ x :: rest ->
  exists n' st', uniform st' /\ collect_e_tagged tc fuel n' st' = x :: rest.
Proof.
  intros tc fuel pre. induction pre as [|y pre IH]; intros n st x rest Hu H.
  - exists n, st. auto.
  - destruct n as [|n]; [discriminate H|]. rewrite collect_e_tagged_S in H.
    destruct (inext tc fuel st) as [st1|row st1|e st1|s|] eqn:Hi; try discriminate H.
    + cbn [app] in H. inversion H as [[Hy Ht]]. destruct pre; discriminate Ht.
    + cbn [app] in H. inversion H as [[Hy Ht]]. eapply IH; [|exact Ht].
      eapply inext_uniform; [exact Hu|]. rewrite Hi. reflexivity.
    + cbn [app] in H. inversion H as [[Hy Ht]]. eapply IH; [|exact Ht].
      eapply inext_uniform; [exact Hu|]. rewrite Hi. reflexivity.
Qed.

(* from a cache of line L, as long as the calls are unmarked every row has line L, whatever error
   items come between *)
Lemma continuation_run : forall tc fuel L mid n st post,
  all_line L (i_cache st) -> collect_e_tagged tc fuel n st = mid ++ post ->
  Forall (fun x => fst x = false) mid ->
  Forall (item_rows (fun r => dr_line r = L)) (map snd mid).
Proof.
  intros tc fuel L mid. induction mid as [|x mid IH]; intros n st post HL H Hm; [constructor|].
  inversion Hm as [|? ? Hx Hm']; subst.
  destruct n as [|n]; [discriminate H|]. rewrite collect_e_tagged_S in H.
  assert (Hk : forall st1, VectorProof.next_state DE (inext tc fuel st) = Some st1 -> refill_call st = false ->
             all_line L (i_cache st1) /\
             match inext tc fuel st with ItRow row _ => dr_line row = L | ItNone _ => False | _ => True end).
  { intros st1 Hn Hr. apply (continuation_keeps_line G DE D w_default tc fuel st st1 L); [|exact HL|exact Hn].
    unfold refill_call in Hr. destruct (i_cache st); [discriminate Hr|discriminate]. }
  destruct (inext tc fuel st) as [st1|row st1|e st1|s|] eqn:Hi; try discriminate H;
    cbn [app] in H; inversion H as [[Hy Ht]]; subst x; cbn [fst] in Hx.
  - destruct (Hk st1 eq_refl Hx) as [_ []].
  - destruct (Hk st1 eq_refl Hx) as [H1 H2]. cbn [map snd]. constructor; [exact H2|].
    eapply IH; eauto.
  - destruct (Hk st1 eq_refl Hx) as [H1 _]. cbn [map snd]. constructor; [exact I|].
    eapply IH; eauto.
Qed.

(* THE THEOREM (3): two row items between which the cache never ran empty -- two expansion rows
   of one evaluated source row -- report the same line, whatever error items (failed calls, refused
   answers) lie between them *)
Theorem expansions_and_passes_share_the_line_from : forall tc fuel n st pre b r1 mid r2 post,
  uniform st ->
  collect_e_tagged tc fuel n st = pre ++ (b, VRow r1) :: mid ++ (false, VRow r2) :: post ->
  Forall (fun x => fst x = false) mid ->
  dr_line r1 = dr_line r2.
Proof.
  intros tc fuel n st pre b r1 mid r2 post Hu H Hm.
  destruct (tagged_suffix tc fuel pre n st _ _ Hu H) as [n' [st' [Hu' H']]].
  destruct n' as [|n']; [discriminate H'|]. rewrite collect_e_tagged_S in H'.
  destruct (inext tc fuel st') as [st1|row st1|e st1|s|] eqn:Hi; try discriminate H';
    inversion H' as [[Hb Hr Ht]]. subst row.
  pose proof (row_leaves_its_line G DE D w_default tc fuel st' r1 st1 Hu' Hi) as HL.
  assert (Hm2 : Forall (fun x : bool * item_view DE => fst x = false) (mid ++ [(false, VRow r2)])).
  { apply Forall_app. split; [exact Hm|]. constructor; [reflexivity|constructor]. }
  assert (Ht2 : collect_e_tagged tc fuel n' st1 = (mid ++ [(false, VRow r2)]) ++ post).
  { rewrite Ht, <- app_assoc. reflexivity. }
  pose proof (continuation_run tc fuel (dr_line r1) _ n' st1 post HL Ht2 Hm2) as K.
  rewrite map_app in K. apply Forall_app in K. destruct K as [_ K]. cbn [map snd] in K.
  inversion K as [|? ? K1 _]; subst. cbn [WidthProof.item_rows] in K1. symmetry. exact K1.
Qed.

Theorem expansions_and_passes_share_the_line : forall tc fuel n st0 pre b r1 mid r2 post,
  Iter.try_new DE D tc = NewOk st0 ->
  collect_e_tagged tc fuel n st0 = pre ++ (b, VRow r1) :: mid ++ (false, VRow r2) :: post ->
  Forall (fun x => fst x = false) mid ->
  dr_line r1 = dr_line r2.
Proof.
  intros tc fuel n st0 pre b r1 mid r2 post Hnew. apply expansions_and_passes_share_the_line_from.
  eapply try_new_uniform. exact Hnew.
Qed.

(* the whole group of a source row, error items included: a marked call that made the statement
   iterator yield (w, l), and the unmarked calls that follow it -- every row among them reports l *)
Theorem source_row_group_reports_its_line : forall tc fuel n st x mid post w l it' c',
  collect_e_tagged tc fuel n st = (true, x) :: mid ++ post ->
  Forall (fun x => fst x = false) mid ->
  Iter.snext G fuel (i_iter st) (i_ctx st) = NYield w l it' c' ->
  Forall (item_rows (fun r => dr_line r = l)) (x :: map snd mid).
Proof.
  intros tc fuel n st x mid post w l it' c' H Hm Hs.
  destruct n as [|n]; [discriminate H|]. rewrite collect_e_tagged_S in H.
  assert (Hk : forall st1, VectorProof.next_state DE (inext tc fuel st) = Some st1 -> refill_call st = true ->
             all_line l (i_cache st1) /\
             match inext tc fuel st with ItRow row _ => dr_line row = l | ItNone _ => False | _ => True end).
  { intros st1 Hn Hr. pose proof (inext_lines G DE D w_default tc fuel st st1 Hn) as K.
    unfold refill_call in Hr. destruct (i_cache st); [|discriminate Hr]. rewrite Hs in K. tauto. }
  destruct (inext tc fuel st) as [st1|row st1|e st1|s|] eqn:Hi; try discriminate H;
    inversion H as [[Hb Hx Ht]].
  - destruct (Hk st1 eq_refl Hb) as [_ []].
  - destruct (Hk st1 eq_refl Hb) as [H1 H2]. constructor; [exact H2|].
    eapply continuation_run; eauto.
  - destruct (Hk st1 eq_refl Hb) as [H1 _]. constructor; [exact I|].
    eapply continuation_run; eauto.
Qed.

End DYN.

(* ---------------------------------------------------------------- (1), static *)

Theorem every_static_row_line_is_a_source_row_line : forall tc fuel n st0,
  try_iter_static tc = StaticOk st0 ->
  Forall (static_rows (fun r => In (static_line r) (row_lines (tc_stmts tc))))
         (fst (static_collect tc fuel n st0)).
Proof.
  intros tc fuel n st0 H. rewrite static_collect_is_collect_e. cbn [fst].
  apply (static_rows_of_views (fun l => In l (row_lines (tc_stmts tc)))).
  apply every_row_line_is_a_source_row_line. apply try_iter_static_new. exact H.
Qed.

(* one call, any state of a static run *)
Theorem static_next_row_line : forall tc st fuel r st',
  OutputsRunProof.reachable G N static_driver true tc st -> static_next G tc fuel st = SItRow r st' ->
  In (static_line r) (row_lines (tc_stmts tc)).
Proof.
  intros tc st fuel r st' Hr H. unfold static_next, snext_static in H.
  destruct (Iter.inext G N static_driver true tc fuel st) as [s1|row s1|[e|e] s1|s|] eqn:Hi; try discriminate H.
  inversion H; subst r s1. unfold static_line, static_row. cbn [snd].
  eapply reachable_row_line; eauto.
Qed.

(* ---------------------------------------------------------------- (3), static *)

Fixpoint static_collect_tagged (tc : testcase) (fuel n : nat) (st : istate) : list (bool * static_view) :=
  match n with
  | O => []
  | S n' =>
      match static_next G tc fuel st with
      | SItRow r st' => (refill_call st, SVRow r) :: static_collect_tagged tc fuel n' st'
      | SItErr e st' => (refill_call st, SVErr e) :: static_collect_tagged tc fuel n' st'
      | SItNone st' => [(refill_call st, SVNone)]
      | SItPanic _ | SItOOF => []
      end
  end.

Lemma static_collect_tagged_is_tagged : forall tc fuel n st,
  static_collect_tagged tc fuel n st =
  map (fun x => (fst x, sview (snd x))) (collect_e_tagged N static_driver true tc fuel n st).
Proof.
  intros tc fuel n. induction n as [|n IH]; intro st; [reflexivity|].
  rewrite collect_e_tagged_S. cbn [static_collect_tagged]. unfold static_next, snext_static.
  pose proof (static_driver_never_fails tc fuel st) as Hnf.
  destruct (Iter.inext G N static_driver true tc fuel st) as [st'|row st'|[e|r] st'|s|]; try reflexivity.
  - rewrite IH. reflexivity.
  - exfalso. exact (Hnf e st' eq_refl).
  - rewrite IH. reflexivity.
Qed.

Theorem static_expansions_share_the_line : forall tc fuel n st0 pre b r1 mid r2 post,
  try_iter_static tc = StaticOk st0 ->
  static_collect_tagged tc fuel n st0 = pre ++ (b, SVRow r1) :: mid ++ (false, SVRow r2) :: post ->
  Forall (fun x => fst x = false) mid ->
  static_line r1 = static_line r2.
Proof.
  intros tc fuel n st0 pre b r1 mid r2 post Hs H Hm.
  rewrite static_collect_tagged_is_tagged in H.
  apply map_eq_app in H. destruct H as [pre' [t1 [Hc [_ H]]]].
  apply map_eq_cons in H. destruct H as [[b1 v1] [t2 [Ht1 [Hv1 H]]]]. cbn [fst snd] in Hv1.
  apply map_eq_app in H. destruct H as [mid' [t3 [Ht2 [Hmid H]]]].
  apply map_eq_cons in H. destruct H as [[b2 v2] [post' [Ht3 [Hv2 _]]]]. cbn [fst snd] in Hv2.
  subst t1 t2 t3.
  assert (E1 : exists row1, v1 = VRow row1 /\ r1 = static_row row1).
  { destruct v1 as [row|[e|e]|]; inversion Hv1. eauto. }
  assert (E2 : b2 = false /\ exists row2, v2 = VRow row2 /\ r2 = static_row row2).
  { destruct v2 as [row|[e|e]|]; inversion Hv2. eauto. }
  destruct E1 as [row1 [-> ->]]. destruct E2 as [-> [row2 [-> ->]]].
  unfold static_line, static_row. cbn [snd].
  eapply (expansions_and_passes_share_the_line N static_driver true tc fuel n st0 pre' b1 row1 mid' row2 post').
  - apply try_iter_static_new. exact Hs.
  - exact Hc.
  - subst mid. apply Forall_map in Hm. exact Hm.
Qed.

End RUN.

(* ------------------------------------------------------------------ *)
(* (2), (4): the line is a position in the source text *)

Lemma program_line_position : forall s p sigs0 tc,
  parse s = Ok p -> with_signals p sigs0 = Ok tc ->
  forall l, In l (row_lines (tc_stmts tc)) -> line_position s l.
Proof.
  intros s p sigs0 tc Hp Hw l Hl. rewrite (with_signals_keeps_stmts _ _ _ Hw) in Hl.
  pose proof (C19_row_line s p Hp) as K. rewrite Forall_forall in K. exact (K l Hl).
Qed.

Lemma loaded_line_position : forall f k tc, load_test f k = Ok tc ->
  exists nm src, nth_error (df_tests f) k = Some (nm, src) /\
    forall l, In l (row_lines (tc_stmts tc)) -> line_position src l.
Proof.
  intros f k tc H. destruct (load_test_row_lines f k tc H) as [nm [src [Hn K]]].
  exists nm, src. split; [exact Hn|]. rewrite Forall_forall in K. exact K.
Qed.

Lemma item_rows_impl : forall DE (P Q : data_row -> Prop) items, (forall r, P r -> Q r) ->
  Forall (WidthProof.item_rows DE P) items -> Forall (WidthProof.item_rows DE Q) items.
Proof.
  intros DE P Q items HPQ H. eapply Forall_impl; [|exact H]. intros [r| |]; cbn [WidthProof.item_rows]; auto.
Qed.

Lemma static_rows_impl : forall (P Q : static_data_row -> Prop) items, (forall r, P r -> Q r) ->
  Forall (static_rows P) items -> Forall (static_rows Q) items.
Proof.
  intros P Q items HPQ H. eapply Forall_impl; [|exact H]. intros [r| |]; cbn [static_rows]; auto.
Qed.

Section POSITIONS.
Variable G : gen.
Variable DE : Type.
Variable D : driver DE.
Variable w_default : bool.

Local Notation collect_e := (RunRefineE.collect_e G DE D w_default).
Local Notation collect := (IterLogProof.collect G DE D w_default).
Local Notation item_rows := (WidthProof.item_rows DE).

(* THE THEOREM (2): the line of every row of a run of a parsed and bound test is 1 + the number of
   newline characters in front of a place of the source text at which a data row starts *)
Theorem row_line_is_its_source_position : forall s p sigs0 tc fuel n st0,
  parse s = Ok p -> with_signals p sigs0 = Ok tc -> Iter.try_new DE D tc = NewOk st0 ->
  Forall (item_rows (fun row =>
            exists u v : list N, s = u ++ v /\ dr_line row = N.of_nat (1 + count_nl u) /\ row_starts_here v))
         (fst (collect_e tc fuel n st0)).
Proof.
  intros s p sigs0 tc fuel n st0 Hp Hw Hnew.
  eapply item_rows_impl; [|eapply every_row_line_is_a_source_row_line; exact Hnew].
  intros r Hr. exact (program_line_position s p sigs0 tc Hp Hw _ Hr).
Qed.

Theorem row_line_is_its_source_position_collect : forall s p sigs0 tc fuel n st0,
  parse s = Ok p -> with_signals p sigs0 = Ok tc -> Iter.try_new DE D tc = NewOk st0 ->
  Forall (item_rows (fun row =>
            exists u v : list N, s = u ++ v /\ dr_line row = N.of_nat (1 + count_nl u) /\ row_starts_here v))
         (fst (collect tc fuel n st0)).
Proof.
  intros s p sigs0 tc fuel n st0 Hp Hw Hnew.
  eapply item_rows_impl; [|eapply every_row_line_is_a_source_row_line_collect; exact Hnew].
  intros r Hr. exact (program_line_position s p sigs0 tc Hp Hw _ Hr).
Qed.

Theorem static_row_line_is_its_source_position : forall s p sigs0 tc fuel n st0,
  parse s = Ok p -> with_signals p sigs0 = Ok tc -> try_iter_static tc = StaticOk st0 ->
  Forall (static_rows (fun r =>
            exists u v : list N, s = u ++ v /\ static_line r = N.of_nat (1 + count_nl u) /\ row_starts_here v))
         (fst (static_collect G tc fuel n st0)).
Proof.
  intros s p sigs0 tc fuel n st0 Hp Hw Hs.
  eapply static_rows_impl; [|eapply every_static_row_line_is_a_source_row_line; exact Hs].
  intros r Hr. exact (program_line_position s p sigs0 tc Hp Hw _ Hr).
Qed.

(* THE THEOREM (4): for a test loaded from a .dig document the position is in that test's own
   source text *)
Theorem loaded_test_row_line_is_its_source_position : forall f k tc fuel n st0,
  load_test f k = Ok tc -> Iter.try_new DE D tc = NewOk st0 ->
  exists nm src, nth_error (df_tests f) k = Some (nm, src) /\
    Forall (item_rows (fun row =>
              exists u v : list N, src = u ++ v /\ dr_line row = N.of_nat (1 + count_nl u) /\ row_starts_here v))
           (fst (collect_e tc fuel n st0)).
Proof.
  intros f k tc fuel n st0 Hl Hnew. destruct (loaded_line_position f k tc Hl) as [nm [src [Hn K]]].
  exists nm, src. split; [exact Hn|].
  eapply item_rows_impl; [|eapply every_row_line_is_a_source_row_line; exact Hnew].
  intros r Hr. exact (K _ Hr).
Qed.

Theorem loaded_test_static_row_line_is_its_source_position : forall f k tc fuel n st0,
  load_test f k = Ok tc -> try_iter_static tc = StaticOk st0 ->
  exists nm src, nth_error (df_tests f) k = Some (nm, src) /\
    Forall (static_rows (fun r =>
              exists u v : list N, src = u ++ v /\ static_line r = N.of_nat (1 + count_nl u) /\ row_starts_here v))
           (fst (static_collect G tc fuel n st0)).
Proof.
  intros f k tc fuel n st0 Hl Hs. destruct (loaded_line_position f k tc Hl) as [nm [src [Hn K]]].
  exists nm, src. split; [exact Hn|].
  eapply static_rows_impl; [|eapply every_static_row_line_is_a_source_row_line; exact Hs].
  intros r Hr. exact (K _ Hr).
Qed.

End POSITIONS.

(* ------------------------------------------------------------------ non-vacuity *)

(* the test of RunRefine.Example_run: the header on line 1, `let` on 2, `loop(i,2)` on 3, the row
   `X (i+a) C X` on line 4 (an X and a C in input columns: 2 x 3 expansion rows per pass), `end loop`
   on 5, the row `1 0 0 1` on line 6 *)
Module Example_lines.
  Import Coq.Strings.String.
  Import RunRefine.Example_run.

  Definition line_of {DE} (v : item_view DE) : option N :=
    match v with VRow r => Some (dr_line r) | _ => None end.
  Definition sline_of (v : static_view) : option N :=
    match v with SVRow r => Some (static_line r) | _ => None end.

  (* the lines of the row statements of the bound test, and (mark, line) of the first n calls of
     next() of the continuing caller (None: not a row item) *)
  Definition observed (faults : list (nat * Script.fault)) (n : nat) : option (list N * list (bool * option N)) :=
    match Parser.parse (s2n src) with
    | Ok p =>
        match with_signals p sigs with
        | Ok tc =>
            let D := Script.script_driver sigs (sc faults) in
            match Iter.try_new N D tc with
            | NewOk st0 => Some (row_lines (tc_stmts tc),
                 map (fun x => (fst x, line_of (snd x))) (collect_e_tagged G N D false tc 50 n st0))
            | _ => None
            end
        | _ => None
        end
    | _ => None
    end.

  Definition observed_static (n : nat) : option (list (bool * option N)) :=
    match Parser.parse (s2n src) with
    | Ok p =>
        match with_signals p sigs with
        | Ok tc =>
            match try_iter_static tc with
            | StaticOk st0 => Some (map (fun x => (fst x, sline_of (snd x))) (static_collect_tagged G tc 50 n st0))
            | _ => None
            end
        | _ => None
        end
    | _ => None
    end.

  (* two passes of the loop over the row of line 4, six expansion rows each (one marked call and
     five unmarked ones), then the row of line 6, then None *)
  Example lines_of_a_run :
    observed [] 20 = Some ([4; 6]%N,
      [(true, Some 4); (false, Some 4); (false, Some 4); (false, Some 4); (false, Some 4); (false, Some 4);
       (true, Some 4); (false, Some 4); (false, Some 4); (false, Some 4); (false, Some 4); (false, Some 4);
       (true, Some 6); (true, None)]%N).
  Proof. vm_compute. reflexivity. Qed.

  (* the driver fails at its call number 5, in the middle of the second clock triple of the first
     pass: an error item instead of that row, and the last expansion row still reports line 4 *)
  Example lines_through_an_error_item :
    observed [(5, Script.FErr 7%N)] 20 = Some ([4; 6]%N,
      [(true, Some 4); (false, Some 4); (false, Some 4); (false, Some 4); (false, None); (false, Some 4);
       (true, Some 4); (false, Some 4); (false, Some 4); (false, Some 4); (false, Some 4); (false, Some 4);
       (true, Some 6); (true, None)]%N).
  Proof. vm_compute. reflexivity. Qed.

  (* the static iterator over the same test *)
  Example lines_of_a_static_run :
    observed_static 20 = Some
      [(true, Some 4); (false, Some 4); (false, Some 4); (false, Some 4); (false, Some 4); (false, Some 4);
       (true, Some 4); (false, Some 4); (false, Some 4); (false, Some 4); (false, Some 4); (false, Some 4);
       (true, Some 6); (true, None)]%N.
  Proof. vm_compute. reflexivity. Qed.
End Example_lines.

Check every_row_line_is_a_source_row_line.
Check every_row_line_is_a_source_row_line_collect.
Check every_static_row_line_is_a_source_row_line.
Check reachable_lines_inv.
Check reachable_row_line.
Check static_next_row_line.
Check yielded_row_is_a_row_statement.
Check row_line_is_its_source_position.
Check row_line_is_its_source_position_collect.
Check static_row_line_is_its_source_position.
Check expansions_and_passes_share_the_line.
Check expansions_and_passes_share_the_line_from.
Check source_row_group_reports_its_line.
Check static_expansions_share_the_line.
Check loaded_test_row_line_is_its_source_position.
Check loaded_test_static_row_line_is_its_source_position.
Check inext_lines.
Check next_rows.
Check collect_e_tagged_items.
Check static_collect_is_collect_e.
Check static_collect_tagged_is_tagged.
Check unmarked_call_keeps_iterator.
Check lrows_lines.
Check lrows_occurs.

Print Assumptions every_row_line_is_a_source_row_line.
Print Assumptions every_row_line_is_a_source_row_line_collect.
Print Assumptions every_static_row_line_is_a_source_row_line.
Print Assumptions reachable_lines_inv.
Print Assumptions reachable_row_line.
Print Assumptions static_next_row_line.
Print Assumptions yielded_row_is_a_row_statement.
Print Assumptions row_line_is_its_source_position.
Print Assumptions row_line_is_its_source_position_collect.
Print Assumptions static_row_line_is_its_source_position.
Print Assumptions expansions_and_passes_share_the_line.
Print Assumptions expansions_and_passes_share_the_line_from.
Print Assumptions source_row_group_reports_its_line.
Print Assumptions static_expansions_share_the_line.
Print Assumptions loaded_test_row_line_is_its_source_position.
Print Assumptions loaded_test_static_row_line_is_its_source_position.
Print Assumptions inext_lines.
Print Assumptions next_rows.
Print Assumptions collect_e_tagged_items.
Print Assumptions static_collect_is_collect_e.
Print Assumptions static_collect_tagged_is_tagged.
Print Assumptions unmarked_call_keeps_iterator.
Print Assumptions lrows_lines.
Print Assumptions lrows_occurs.
Print Assumptions Example_lines.lines_of_a_run.
Print Assumptions Example_lines.lines_through_an_error_item.
Print Assumptions Example_lines.lines_of_a_static_run.
