(* What the statement iterator of Stmt.v is AFTER an evaluation error (the iterator field of
   NErr).  In the Rust, StmtIterator::next_with_context returns Err(..) via `?` after the
   object has been mutated, and the object can be called again:
   - Iterate: the failing statement (let, data row, loop header whose bound fails) has been
     consumed; the iterator goes on with the rest of the list, no frame is pushed for the loop
     (next_err_let, next_err_row, next_err_loop_bound);
   - StartWhile ws: the state is unchanged, the next call evaluates the condition again
     (next_err_while_cond);
   - IterInner / WhileInner: the outer state stays, around the inner iterator in ITS state
     after the error (next_err_inner, next_err_while_inner);
   panics and fuel exhaustion pass through the delegating states unchanged.
   All of it for every context type, evaluator and row evaluator (the parameters of Stmt.SM);
   at the end the consequences for Iter.get_row and two examples by computation. *)
From DTR Require Import Prelude I64 Ast FramedMap Parser Bind Eval Stmt Iter.
From DTR.proofs Require Import StmtRefine.
Open Scope Z_scope.

Local Arguments NYield {C F W} w line it c.
Local Arguments NDone {C F W} it c.
Local Arguments NErr {C F W} f it c.
Local Arguments NPanic {C F W} site.
Local Arguments NOOF {C F W}.

Section AFTER_ERROR.
Variables (C F W : Type).
Variable eval : C -> expr -> C * (Z + F).
Variable row_eval : C -> list dentry -> C * (W + F).
Variable setv : C -> name -> Z -> C.
Variable getv : C -> name -> option Z.
Variables push pop reset : C -> C.

Local Notation next := (Stmt.next C F W eval row_eval setv getv push pop reset).

(* `let n = e;` whose expression fails: the statement is consumed *)
Lemma next_err_let : forall f n e r c c1 x,
  eval c e = (c1, inr x) ->
  next (S f) (SI (SLet n e :: r) Iterate) c = NErr x (SI r Iterate) c1.
Proof. intros f n e r c c1 x H. cbn [Stmt.next]. rewrite H. reflexivity. Qed.

(* a data row with a failing entry: the row is consumed *)
Lemma next_err_row : forall f d l r c c1 x,
  row_eval c d = (c1, inr x) ->
  next (S f) (SI (SRow d l :: r) Iterate) c = NErr x (SI r Iterate) c1.
Proof. intros f d l r c c1 x H. cbn [Stmt.next]. rewrite H. reflexivity. Qed.

(* `loop(v, e)` whose bound fails: the whole loop is skipped, no frame is pushed
   (the context is the one the evaluation of the bound left) *)
Lemma next_err_loop_bound : forall f v e body r c c1 x,
  eval c e = (c1, inr x) ->
  next (S f) (SI (SLoop v e body :: r) Iterate) c = NErr x (SI r Iterate) c1.
Proof. intros f v e body r c c1 x H. cbn [Stmt.next]. rewrite H. reflexivity. Qed.

(* a failing `while` condition: the state is unchanged; the next call evaluates it again *)
Lemma next_err_while_cond : forall f rest ws c c1 x,
  eval c (wcond ws) = (c1, inr x) ->
  next (S f) (SI rest (StartWhile ws)) c = NErr x (SI rest (StartWhile ws)) c1.
Proof. intros f rest ws c c1 x H. cbn [Stmt.next]. rewrite H. reflexivity. Qed.

(* ... also when the condition fails on the very call that reaches the `while` statement *)
Lemma next_err_while_first : forall f e body r c c1 x,
  eval c e = (c1, inr x) ->
  next (S (S f)) (SI (SWhile e body :: r) Iterate) c
  = NErr x (SI r (StartWhile {| wcond := e; wbody := body |})) c1.
Proof.
  intros f e body r c c1 x H.
  change (next (S (S f)) (SI (SWhile e body :: r) Iterate) c)
    with (next (S f) (SI r (StartWhile {| wcond := e; wbody := body |})) c).
  apply next_err_while_cond. exact H.
Qed.

(* an error inside a loop body: the loop stays open around what is left of the body *)
Lemma next_err_inner : forall f rest inner ls c x inner' c',
  next f inner c = NErr x inner' c' ->
  next (S f) (SI rest (IterInner inner ls)) c = NErr x (SI rest (IterInner inner' ls)) c'.
Proof. intros f rest inner ls c x inner' c' H. cbn [Stmt.next]. rewrite H. reflexivity. Qed.

Lemma next_err_while_inner : forall f rest inner ws c x inner' c',
  next f inner c = NErr x inner' c' ->
  next (S f) (SI rest (WhileInner inner ws)) c = NErr x (SI rest (WhileInner inner' ws)) c'.
Proof. intros f rest inner ws c x inner' c' H. cbn [Stmt.next]. rewrite H. reflexivity. Qed.

(* a panic of the inner iterator passes through unchanged *)
Lemma next_panic_inner : forall f rest inner ls c s,
  next f inner c = NPanic s -> next (S f) (SI rest (IterInner inner ls)) c = NPanic s.
Proof. intros f rest inner ls c s H. cbn [Stmt.next]. rewrite H. reflexivity. Qed.

Lemma next_panic_while_inner : forall f rest inner ws c s,
  next f inner c = NPanic s -> next (S f) (SI rest (WhileInner inner ws)) c = NPanic s.
Proof. intros f rest inner ws c s H. cbn [Stmt.next]. rewrite H. reflexivity. Qed.

End AFTER_ERROR.

(* ------------------------------------------------------------------ the data-row iterator *)

Section GET_ROW.
Variable G : gen.
Variable tc : testcase.

(* get_row hands the statement iterator of the failed call on to the next call *)
Lemma get_row_err_iter : forall fuel st x it' c',
  i_cache st = [] ->
  snext G fuel (i_iter st) (i_ctx st) = NErr (XFErr x) it' c' ->
  get_row G tc fuel st = GRErr x (with_iter_ctx st it' c' []).
Proof.
  intros fuel st x it' c' Hc Hn. unfold get_row. rewrite Hc, Hn. reflexivity.
Qed.

Lemma get_row_err_inv : forall fuel st x st1,
  get_row G tc fuel st = GRErr x st1 ->
  i_cache st = [] /\
  snext G fuel (i_iter st) (i_ctx st) = NErr (XFErr x) (i_iter st1) (i_ctx st1).
Proof.
  intros fuel st x st1 H. unfold get_row in H.
  destruct (i_cache st) as [|d rest] eqn:Hc.
  - destruct (snext G fuel (i_iter st) (i_ctx st)) as [w l it' c'|it' c'|[y|s] it' c'|s|] eqn:Hn;
      cbv beta iota zeta in H.
    + destruct (prepare_cache tc (i_cache (with_iter_ctx st it' c'
                  [{| de_entries := w; de_line := l; de_update_output := true |}])))
        as [[|row rest]|e|s|]; try discriminate H.
      destruct (generate_input_entries tc (de_entries row) _) as [ins|e|s|]; try discriminate H.
      destruct (generate_expected_entries tc (de_entries row)) as [xs|e|s|]; discriminate H.
    + discriminate H.
    + inversion H; subst. split; reflexivity.
    + discriminate H.
    + discriminate H.
    + discriminate H.
  - cbv beta iota zeta in H.
    destruct (prepare_cache tc (i_cache st)) as [[|row rest']|e|s|]; try discriminate H.
    destruct (generate_input_entries tc (de_entries row) _) as [ins|e|s|]; try discriminate H.
    destruct (generate_expected_entries tc (de_entries row)) as [xs|e|s|]; discriminate H.
Qed.

End GET_ROW.

(* ------------------------------------------------------------------ non-vacuity, by computation *)

Section EXAMPLES.
(* a context type that counts evaluations; every expression fails with code 7, every row too *)
Let ev_fail (c : nat) (e : expr) : nat * (Z + nat) := (S c, inr 7%nat).
Let row_fail (c : nat) (d : list dentry) : nat * (unit + nat) := (S c, inr 7%nat).
(* the constant 1 as loop bound / condition, everything else fails *)
Let ev_num (c : nat) (e : expr) : nat * (Z + nat) :=
  match e with ENum z => (c, inl z) | _ => (S c, inr 7%nat) end.
Let setv (c : nat) (_ : name) (_ : Z) : nat := c.
Let getv (c : nat) (_ : name) : option Z := Some 0.
Let idc (c : nat) : nat := c.

Let nxt ev := Stmt.next nat nat unit ev row_fail setv getv idc idc idc.

(* a failing let: consumed, the next call goes on with the row behind it *)
Example ex_let_consumed : forall n e d l,
  nxt ev_fail 5%nat (SI [SLet n e; SRow d l] Iterate) O = NErr 7%nat (SI [SRow d l] Iterate) 1%nat.
Proof. reflexivity. Qed.

(* a failing while condition: the state does not move, the condition is evaluated again *)
Example ex_while_again : forall e body r,
  nxt ev_fail 5%nat (SI (SWhile e body :: r) Iterate) O
    = NErr 7%nat (SI r (StartWhile {| wcond := e; wbody := body |})) 1%nat /\
  nxt ev_fail 5%nat (SI r (StartWhile {| wcond := e; wbody := body |})) 1%nat
    = NErr 7%nat (SI r (StartWhile {| wcond := e; wbody := body |})) 2%nat.
Proof. split; reflexivity. Qed.

(* a failing row inside loop(v, 1): the loop stays open around the rest of its body *)
Example ex_inner_stays_open : forall v d l d2 l2 r,
  nxt ev_num 9%nat (SI (SLoop v (ENum 1) [SRow d l; SRow d2 l2] :: r) Iterate) O
    = NErr 7%nat
        (SI r (IterInner (SI [SRow d2 l2] Iterate)
                         {| lvar := v; lmax := 1; lbody := [SRow d l; SRow d2 l2] |})) 1%nat.
Proof. reflexivity. Qed.

(* a failing loop bound: the loop is skipped altogether *)
Example ex_loop_skipped : forall v e body d l,
  nxt ev_fail 5%nat (SI [SLoop v e body; SRow d l] Iterate) O = NErr 7%nat (SI [SRow d l] Iterate) 1%nat.
Proof. reflexivity. Qed.
End EXAMPLES.

(* the same on the real evaluation context of Iter.v, for every generator: an unassigned
   variable is the error UnknownVariable (C10), and the statement is consumed ... *)
Example ex_concrete_let_consumed : forall (G : gen) n x d l,
  snext G 5%nat (SI [SLet n (EVar x); SRow d l] Iterate) (ctx_new [])
  = NErr (XFErr (XE_UnknownVariable x)) (SI [SRow d l] Iterate) (ctx_new []).
Proof. intros. reflexivity. Qed.

(* ... a while condition is evaluated again by the next call ... *)
Example ex_concrete_while_again : forall (G : gen) x body r,
  let it1 := SI r (StartWhile {| wcond := EVar x; wbody := body |}) in
  snext G 5%nat (SI (SWhile (EVar x) body :: r) Iterate) (ctx_new [])
    = NErr (XFErr (XE_UnknownVariable x)) it1 (ctx_new []) /\
  snext G 5%nat it1 (ctx_new []) = NErr (XFErr (XE_UnknownVariable x)) it1 (ctx_new []).
Proof. intros. split; reflexivity. Qed.

(* ... and get_row keeps the iterator of the failed call, not the one it was called with *)
Example ex_concrete_get_row : forall (G : gen) tc n x d l oi no,
  let st it := {| i_ctx := ctx_new []; i_iter := it; i_outidx := oi; i_nout := no;
                  i_prev := None; i_cache := []; i_log := [] |} in
  get_row G tc 5%nat (st (SI [SLet n (EVar x); SRow d l] Iterate))
  = GRErr (XE_UnknownVariable x) (st (SI [SRow d l] Iterate)).
Proof. intros. reflexivity. Qed.

Print Assumptions next_err_let.
Print Assumptions next_err_row.
Print Assumptions next_err_loop_bound.
Print Assumptions next_err_while_cond.
Print Assumptions next_err_inner.
Print Assumptions next_err_while_inner.
Print Assumptions get_row_err_iter.
Print Assumptions get_row_err_inv.
