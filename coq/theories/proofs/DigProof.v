(* Property C16: loading a .dig document is total and faithful (model: Xml.v, Dig.v;
   specification: DigSpec.v). *)
From DTR Require Import Prelude Ast Lexer Parser Bind Xml Dig DigSpec.
From Coq Require Import String Permutation.
Local Open Scope nat_scope.

(* ================================================================== 1. HeaderParser is total *)

Lemma span_while_len : forall p s a b, span_while p s = (a, b) -> List.length b <= List.length s.
Proof.
  induction s as [|c s IH]; simpl; intros a b H.
  - inversion H; simpl; lia.
  - destruct (p c).
    + destruct (span_while p s) as [a' b'] eqn:E. inversion H; subst.
      specialize (IH _ _ eq_refl). lia.
    + inversion H; subst; simpl; lia.
Qed.

Lemma hlex_one_len : forall s k w r, hlex_one s = Some (k, w, r) -> List.length r < List.length s.
Proof.
  destruct s as [|c s]; simpl; intros k w r H; [discriminate|].
  destruct (is_ws c).
  - destruct (span_while is_ws s) as [a b] eqn:E. inversion H; subst.
    apply span_while_len in E. lia.
  - destruct (is_nl c).
    + inversion H; subst; lia.
    + destruct (span_while is_name_char s) as [a b] eqn:E. inversion H; subst.
      apply span_while_len in E. lia.
Qed.

Lemma parse_header_loop_total : forall fuel pos line names spans s,
  List.length s < fuel ->
  (forall site, parse_header_loop fuel pos line names spans s <> Panic site) /\
  parse_header_loop fuel pos line names spans s <> OOF.
Proof.
  induction fuel as [|f IH]; intros pos line names spans s Hlen; [lia|].
  simpl. destruct (hlex_one s) as [[[k w] r]|] eqn:E.
  - apply hlex_one_len in E. assert (Hr : List.length r < f) by lia.
    destruct k as [[|]|].
    + destruct (position (name_eqb w) names).
      * split; [intros site|]; discriminate.
      * apply IH; assumption.
    + destruct names.
      * apply IH; assumption.
      * split; [intros site|]; discriminate.
    + apply IH; assumption.
  - split; [intros site|]; discriminate.
Qed.

Lemma parse_header_no_panic : forall s site, parse_header s <> Panic site.
Proof. intros s. apply parse_header_loop_total. lia. Qed.

Lemma parse_header_no_oof : forall s, parse_header s <> OOF.
Proof. intros s. apply parse_header_loop_total. lia. Qed.

(* ================================================================== 2. names, sets *)

Lemma mem_In : forall x l, mem x l = true <-> In x l.
Proof.
  intros x l. unfold mem. rewrite existsb_exists. split.
  - intros [y [Hy E]]. apply name_eqb_eq in E. subst. exact Hy.
  - intros H. exists x. split; [exact H|apply name_eqb_refl].
Qed.

Lemma mem_false : forall x l, mem x l = false <-> ~ In x l.
Proof.
  intros x l. rewrite <- mem_In. destruct (mem x l); split; intro H; congruence.
Qed.

Lemma mem_app : forall x a b, mem x (a ++ b) = mem x a || mem x b.
Proof. intros. apply existsb_app. Qed.

Lemma name_eqb_sym : forall a b, name_eqb a b = name_eqb b a.
Proof.
  intros a b. destruct (name_eqb a b) eqn:E.
  - apply name_eqb_eq in E. subst. symmetry. apply name_eqb_refl.
  - destruct (name_eqb b a) eqn:E'; [|reflexivity].
    apply name_eqb_eq in E'. subst. rewrite name_eqb_refl in E. discriminate.
Qed.

Lemma bool_eq_iff : forall a b : bool, (a = true <-> b = true) -> a = b.
Proof. intros [|] [|] H; try reflexivity; [symmetry|]; apply H; reflexivity. Qed.

(* str::strip_suffix *)
Lemma strip_suffix_spec : forall nm suf x, strip_suffix nm suf = Some x <-> nm = x ++ suf.
Proof.
  intros nm suf x. unfold strip_suffix. split.
  - destruct (List.length suf <=? List.length nm) eqn:L; simpl; [|discriminate].
    destruct (name_eqb _ suf) eqn:E; [|discriminate].
    intros H. inversion H; subst. apply name_eqb_eq in E.
    rewrite <- E at 2. symmetry. apply firstn_skipn.
  - intros ->. rewrite app_length.
    replace (List.length x + List.length suf - List.length suf) with (List.length x) by lia.
    assert (L : (List.length suf <=? List.length x + List.length suf) = true)
      by (apply Nat.leb_le; lia).
    rewrite L. simpl.
    rewrite skipn_app, skipn_all, Nat.sub_diag. simpl.
    rewrite name_eqb_refl.
    rewrite firstn_app, firstn_all, Nat.sub_diag. simpl. rewrite app_nil_r. reflexivity.
Qed.

(* dedup *)
Lemma dedup_In : forall l seen x, In x (dedup seen l) <-> In x l /\ ~ In x seen.
Proof.
  induction l as [|y r IH]; simpl; intros seen x.
  - tauto.
  - destruct (mem y seen) eqn:M.
    + rewrite IH. apply mem_In in M. split.
      * intros [H1 H2]. tauto.
      * intros [[H1|H1] H2]; [subst; contradiction|tauto].
    + apply mem_false in M. simpl. rewrite IH. simpl. split.
      * intros [H|[H1 H2]]; [subst; tauto|tauto].
      * intros [[H1|H1] H2]; [tauto|].
        destruct (name_eqb y x) eqn:E.
        -- apply name_eqb_eq in E. tauto.
        -- apply name_eqb_neq in E. right. split; [exact H1|]. intros [H|H]; tauto.
Qed.

Lemma dedup_NoDup : forall l seen, NoDup (dedup seen l).
Proof.
  induction l as [|y r IH]; simpl; intros seen; [constructor|].
  destruct (mem y seen); [apply IH|].
  constructor; [|apply IH]. rewrite dedup_In. simpl. tauto.
Qed.

(* HashSet::insert one after the other = first occurrences *)
Lemma fold_insert_dedup : forall l acc seen,
  (forall x, mem x acc = mem x seen) ->
  fold_left (fun a n => set_insert n a) l acc = acc ++ dedup seen l.
Proof.
  induction l as [|y r IH]; simpl; intros acc seen H.
  - rewrite app_nil_r. reflexivity.
  - unfold set_insert at 2. rewrite H. destruct (mem y seen) eqn:M.
    + apply IH. exact H.
    + rewrite (IH (acc ++ [y]) (y :: seen)).
      * rewrite <- app_assoc. reflexivity.
      * intros x. rewrite mem_app, H. simpl. rewrite orb_false_r. apply orb_comm.
Qed.

Lemma dedup_filter : forall (p : name -> bool) l seen seen',
  (forall x, p x = true -> mem x seen = mem x seen') ->
  dedup seen (filter p l) = filter p (dedup seen' l).
Proof.
  induction l as [|y r IH]; simpl; intros seen seen' H; [reflexivity|].
  destruct (p y) eqn:P; simpl.
  - rewrite (H y P). destruct (mem y seen') eqn:M.
    + apply IH. exact H.
    + simpl. rewrite P. f_equal. apply IH.
      intros x Px. simpl. rewrite (H x Px). reflexivity.
  - destruct (mem y seen') eqn:M.
    + apply IH. exact H.
    + simpl. rewrite P. apply IH.
      intros x Px. simpl. rewrite (H x Px).
      destruct (name_eqb x y) eqn:E; [|reflexivity].
      apply name_eqb_eq in E. subst. congruence.
Qed.

Lemma filter_filter : forall A (p q : A -> bool) l,
  filter p (filter q l) = filter (fun x => q x && p x) l.
Proof.
  induction l as [|x r IH]; simpl; [reflexivity|].
  destruct (q x); simpl; [destruct (p x)|]; rewrite IH; reflexivity.
Qed.

Lemma filter_map_In : forall A B (f : A -> option B) l y,
  In y (filter_map f l) <-> exists x, In x l /\ f x = Some y.
Proof.
  induction l as [|x r IH]; simpl; intros y.
  - split; [tauto|intros [x [[] _]]].
  - destruct (f x) eqn:E; simpl; rewrite IH; split.
    + intros [H|[x' [H1 H2]]]; [subst; eauto|eauto].
    + intros [x' [[H1|H1] H2]]; [subst; left; congruence|eauto].
    + intros [x' [H1 H2]]; eauto.
    + intros [x' [[H1|H1] H2]]; [subst; congruence|eauto].
Qed.

Lemma filter_map_Forall : forall A B (f : A -> option B) (P : B -> Prop) l,
  (forall x y, f x = Some y -> P y) -> Forall P (filter_map f l).
Proof.
  intros A B f P l H. apply Forall_forall. intros y Hy.
  apply filter_map_In in Hy. destruct Hy as [x [_ E]]. eauto.
Qed.

(* ================================================================== 3. the header loop *)

Section Classify.
  Variable sigs : list signal.

  (* the guard of the match arm in the inner loop *)
  Definition out_ref (nm : name) : option name :=
    match strip_suffix nm out_suffix with
    | Some x => if negb (mem nm (map sname sigs)) && input_named sigs x then Some x else None
    | None => None
    end.

  Definition plain_ref (nm : name) : bool :=
    match out_ref nm with None => true | Some _ => false end.

  Lemma out_ref_spec : forall n x, out_ref n = Some x <-> out_side sigs n x = true.
  Proof.
    intros n x. unfold out_ref, out_side, pin_named. split.
    - destruct (strip_suffix n out_suffix) as [x'|] eqn:S; [|discriminate].
      apply strip_suffix_spec in S.
      destruct (negb (mem n (map sname sigs))) eqn:M; simpl; [|discriminate].
      destruct (input_named sigs x') eqn:I; [|discriminate].
      intros H; inversion H; subst x'. rewrite <- S, name_eqb_refl, I. reflexivity.
    - intros H. apply andb_true_iff in H. destruct H as [H I].
      apply andb_true_iff in H. destruct H as [E M]. apply name_eqb_eq in E.
      apply strip_suffix_spec in E. rewrite E, M, I. reflexivity.
  Qed.

  Lemma out_ref_none : forall n, out_ref n = None -> forall x, out_side sigs n x = false.
  Proof.
    intros n H x. destruct (out_side sigs n x) eqn:E; [|reflexivity].
    apply out_ref_spec in E. congruence.
  Qed.

  Lemma input_named_In : forall x, input_named sigs x = true ->
    exists s, In s sigs /\ sname s = x /\ is_input s = true.
  Proof.
    intros x H. unfold input_named in H. apply existsb_exists in H.
    destruct H as [s [Hs H]]. apply andb_true_iff in H. destruct H as [E I].
    apply name_eqb_eq in E. eauto.
  Qed.

  Lemma known_spec : forall n, negb (known sigs n) = plain_ref n && negb (pin_named sigs n).
  Proof.
    intros n. unfold known, plain_ref. destruct (pin_named sigs n) eqn:Pn; simpl.
    - rewrite andb_false_r. reflexivity.
    - rewrite andb_true_r. destruct (out_ref n) as [x|] eqn:O.
      + apply out_ref_spec in O. assert (O' := O).
        unfold out_side in O. apply andb_true_iff in O. destruct O as [_ I].
        apply input_named_In in I. destruct I as [s [Hs [E _]]].
        assert (X : existsb (fun s => out_side sigs n (sname s)) sigs = true).
        { apply existsb_exists. exists s. rewrite E. auto. }
        rewrite X. reflexivity.
      + assert (X : existsb (fun s => out_side sigs n (sname s)) sigs = false).
        { destruct (existsb _ sigs) eqn:X; [|reflexivity].
          apply existsb_exists in X. destruct X as [s [_ X]].
          rewrite (out_ref_none n O) in X. discriminate. }
        rewrite X. reflexivity.
  Qed.

  Lemma classify_eq : forall tsn bd nm,
    classify sigs (map sname sigs) (tsn, bd) nm =
    match out_ref nm with
    | Some x => (tsn, set_insert x bd)
    | None => (set_insert nm tsn, bd)
    end.
  Proof.
    intros. unfold classify, out_ref. destruct (strip_suffix nm out_suffix); [|reflexivity].
    destruct (negb (mem nm (map sname sigs)) && input_named sigs n); reflexivity.
  Qed.

  Lemma fold_classify : forall used tsn bd,
    fold_left (classify sigs (map sname sigs)) used (tsn, bd) =
    (fold_left (fun a n => set_insert n a) (filter plain_ref used) tsn,
     fold_left (fun a n => set_insert n a) (filter_map out_ref used) bd).
  Proof.
    induction used as [|nm r IH]; intros tsn bd; [reflexivity|].
    cbn [fold_left filter filter_map]. rewrite classify_eq. unfold plain_ref at 1.
    destruct (out_ref nm); cbn [fold_left]; apply IH.
  Qed.

  Lemma header_loop_eq : forall tests st,
    header_loop sigs (map sname sigs) tests st =
    match header_names tests with
    | Some used => Ok (fold_left (classify sigs (map sname sigs)) used st)
    | None => Err DE_EmptyTest
    end.
  Proof.
    induction tests as [|t r IH]; simpl; intros st; [reflexivity|].
    destruct (parse_header (snd t)) as [h|e|site|] eqn:E.
    - rewrite IH. destruct (header_names r); [|reflexivity].
      rewrite fold_left_app. reflexivity.
    - reflexivity.
    - exfalso. exact (parse_header_no_panic _ _ E).
    - exfalso. exact (parse_header_no_oof _ E).
  Qed.
End Classify.

(* ================================================================== 4. the final loop *)

Definition to_bidir (s : signal) : signal :=
  match styp s with
  | TyInput d => {| sname := sname s; sbits := sbits s; styp := TyBidir d |}
  | _ => s
  end.

(* [mark] for an arbitrary set of wanted names *)
Fixpoint markW (want : name -> bool) (seen : list name) (l : list signal) : list signal :=
  match l with
  | [] => []
  | s :: r =>
      match styp s with
      | TyInput d =>
          if want (sname s) && negb (mem (sname s) seen)
          then {| sname := sname s; sbits := sbits s; styp := TyBidir d |}
          else s
      | _ => s
      end :: markW want (sname s :: seen) r
  end.

Lemma mark_markW : forall sigs used l seen,
  mark sigs used seen l = markW (bidirectional sigs used) seen l.
Proof. induction l as [|s r IH]; simpl; intros seen; [reflexivity|]. rewrite IH. reflexivity. Qed.

Lemma markW_ext : forall want want' l seen,
  (forall x, ~ In x seen -> want x = want' x) ->
  markW want seen l = markW want' seen l.
Proof.
  induction l as [|s r IH]; simpl; intros seen H; [reflexivity|].
  f_equal.
  - destruct (styp s); try reflexivity.
    destruct (mem (sname s) seen) eqn:M.
    + rewrite !andb_false_r. reflexivity.
    + apply mem_false in M. rewrite (H _ M). reflexivity.
  - apply IH. intros x Hx. apply H. intro. apply Hx. right. assumption.
Qed.

(* the first signal of that name is an Input *)
Fixpoint first_input (l : list signal) (x : name) : bool :=
  match l with
  | [] => false
  | s :: r => if name_eqb (sname s) x
              then match styp s with TyInput _ => true | _ => false end
              else first_input r x
  end.

(* the effect of one iteration of `for name in bidirectional` *)
Fixpoint upd (b : name) (l : list signal) : list signal :=
  match l with
  | [] => []
  | s :: r => if name_eqb (sname s) b then to_bidir s :: r else s :: upd b r
  end.

Lemma set_bidirectional_ok : forall l b, first_input l b = true ->
  set_bidirectional l b = Ok (upd b l).
Proof.
  induction l as [|s r IH]; simpl; intros b H; [discriminate|].
  destruct (name_eqb (sname s) b).
  - unfold to_bidir. destruct (styp s); try discriminate. reflexivity.
  - rewrite (IH _ H). reflexivity.
Qed.

Lemma first_input_upd : forall l b x, x <> b -> first_input (upd b l) x = first_input l x.
Proof.
  induction l as [|s r IH]; simpl; intros b x Hx; [reflexivity|].
  destruct (name_eqb (sname s) b) eqn:E; simpl.
  - apply name_eqb_eq in E.
    assert (N : name_eqb (sname s) x = false) by (apply name_eqb_neq; congruence).
    unfold to_bidir. destruct (styp s); simpl; rewrite N; reflexivity.
  - destruct (name_eqb (sname s) x); [reflexivity|]. apply IH. exact Hx.
Qed.

Lemma markW_upd : forall B b l seen,
  ~ In b B -> ~ In b seen -> first_input l b = true ->
  markW (fun x => mem x B) seen (upd b l) = markW (fun x => mem x (b :: B)) seen l.
Proof.
  intros B b. induction l as [|s r IH]; simpl; intros seen HB Hs Hf; [reflexivity|].
  destruct (name_eqb (sname s) b) eqn:E.
  - apply name_eqb_eq in E. destruct (styp s) as [d| | |] eqn:T; try discriminate.
    unfold to_bidir. rewrite T. simpl.
    apply mem_false in Hs. rewrite <- E in Hs. rewrite Hs. simpl. f_equal.
    apply markW_ext. intros x Hx. simpl.
    destruct (name_eqb x b) eqn:Exb; [|reflexivity].
    apply name_eqb_eq in Exb. subst x. exfalso. apply Hx. left. exact E.
  - simpl. f_equal.
    apply IH; try assumption.
    apply name_eqb_neq in E. intros [H|H]; [congruence|contradiction].
Qed.

Lemma make_bidirectional_ok : forall B l,
  NoDup B -> (forall x, In x B -> first_input l x = true) ->
  make_bidirectional B l = Ok (markW (fun x => mem x B) [] l).
Proof.
  induction B as [|b B IH]; simpl; intros l ND H.
  - f_equal. clear. generalize (@nil name).
    induction l as [|s r IHl]; simpl; intros seen; [reflexivity|].
    rewrite <- IHl. destruct (styp s); reflexivity.
  - inversion ND; subst.
    rewrite (set_bidirectional_ok l b) by (apply H; left; reflexivity). simpl.
    rewrite IH; [|assumption|].
    + f_equal. apply markW_upd; [assumption|intros []|apply H; left; reflexivity].
    + intros x Hx. rewrite first_input_upd; [apply H; right; exact Hx|].
      intro; subst; contradiction.
Qed.

(* the set `bidirectional` may be iterated in any order *)
Theorem make_bidirectional_perm : forall B B' l,
  NoDup B -> (forall x, In x B -> first_input l x = true) -> Permutation B B' ->
  make_bidirectional B' l = make_bidirectional B l.
Proof.
  intros B B' l ND H P.
  rewrite (make_bidirectional_ok B l ND H).
  rewrite (make_bidirectional_ok B' l).
  - f_equal. apply markW_ext. intros x _. apply bool_eq_iff. rewrite !mem_In.
    split; intro; [apply (Permutation_in _ (Permutation_sym P))|apply (Permutation_in _ P)]; assumption.
  - apply (Permutation_NoDup P ND).
  - intros x Hx. apply H. apply (Permutation_in _ (Permutation_sym P)). exact Hx.
Qed.

(* the pins: inputs first, then outputs *)
Definition is_TyInput (s : signal) : Prop := exists d, styp s = TyInput d.
Definition is_TyOutput (s : signal) : Prop := styp s = TyOutput.

Lemma first_input_shape : forall ins outs x,
  Forall is_TyInput ins -> Forall is_TyOutput outs ->
  input_named (ins ++ outs) x = true -> first_input (ins ++ outs) x = true.
Proof.
  induction ins as [|s r IH]; simpl; intros outs x Hi Ho H.
  - exfalso. induction outs as [|o outs IHo]; simpl in H; [discriminate|].
    inversion Ho; subst. unfold is_TyOutput in H2. unfold is_input in H at 1. rewrite H2 in H.
    rewrite andb_false_r in H. simpl in H. auto.
  - inversion Hi; subst. destruct H2 as [d Hd].
    destruct (name_eqb (sname s) x) eqn:E.
    + rewrite Hd. reflexivity.
    + simpl in H. apply IH; assumption.
Qed.

(* ================================================================== 5. File::parse = resolve *)

(* File::parse after the three passes *)
Definition dig_finish (signals : list signal) (tests : list (name * text)) : R dig_err dig_file :=
  rbind (header_loop signals (map sname signals) tests ([], [])) (fun st =>
  let (test_signal_names, bidirectional) := st in
  if negb (forallb (fun n => mem n (map sname signals)) test_signal_names) then
    Err (DE_MissingSignals (filter (fun n => negb (mem n (map sname signals))) test_signal_names))
  else
    rbind (make_bidirectional bidirectional signals) (fun signals' =>
    Ok {| df_signals := signals'; df_tests := tests |})).

Lemma dig_parse_finish : forall doc, dig_parse doc = dig_finish (raw_signals doc) (test_cases doc).
Proof. reflexivity. Qed.

Lemma forallb_filter_nil : forall A (p : A -> bool) l,
  forallb p l = true <-> filter (fun x => negb (p x)) l = [].
Proof.
  induction l as [|x r IH]; simpl; [tauto|].
  destruct (p x); simpl; [exact IH|]. split; discriminate.
Qed.

Theorem dig_finish_resolve : forall ins outs tests,
  Forall is_TyInput ins -> Forall is_TyOutput outs ->
  dig_finish (ins ++ outs) tests = resolve (ins ++ outs) tests.
Proof.
  intros ins outs tests Hi Ho. set (sigs := ins ++ outs).
  unfold dig_finish, resolve. rewrite header_loop_eq.
  destruct (header_names tests) as [used|]; [|reflexivity]. simpl.
  rewrite fold_classify.
  rewrite (fold_insert_dedup _ [] []) by reflexivity.
  rewrite (fold_insert_dedup _ [] []) by reflexivity. simpl.
  (* the missing names *)
  assert (M : filter (fun n => negb (mem n (map sname sigs))) (dedup [] (filter (plain_ref sigs) used))
              = missing sigs used).
  { unfold missing.
    rewrite (dedup_filter (plain_ref sigs) used [] []) by reflexivity.
    rewrite (dedup_filter (fun n => negb (known sigs n)) used [] []) by reflexivity.
    rewrite filter_filter. apply filter_ext. intros n.
    rewrite known_spec. reflexivity. }
  destruct (forallb _ (dedup [] (filter (plain_ref sigs) used))) eqn:F; simpl.
  - apply forallb_filter_nil in F. rewrite <- M, F.
    (* the bidirectional signals *)
    rewrite make_bidirectional_ok.
    + simpl. f_equal. f_equal. rewrite mark_markW. apply markW_ext. intros x _.
      apply bool_eq_iff. rewrite mem_In, dedup_In, filter_map_In.
      unfold bidirectional. rewrite existsb_exists. split.
      * intros [[n [Hn O]] _]. exists n. split; [exact Hn|]. apply out_ref_spec. exact O.
      * intros [n [Hn O]]. split; [|intros []]. exists n. split; [exact Hn|].
        apply out_ref_spec. exact O.
    + apply dedup_NoDup.
    + intros x Hx. apply dedup_In in Hx. destruct Hx as [Hx _].
      apply filter_map_In in Hx. destruct Hx as [n [_ O]].
      apply out_ref_spec in O. unfold out_side in O. apply andb_true_iff in O.
      destruct O as [_ I]. apply first_input_shape; assumption.
  - rewrite M. destruct (missing sigs used) eqn:Mi; [|reflexivity].
    exfalso. apply forallb_filter_nil in M. congruence.
Qed.

Lemma input_signals_shape : forall doc, Forall is_TyInput (input_signals doc).
Proof.
  intros doc. apply filter_map_Forall. intros n s H. unfold input_signal_of in H.
  destruct (extract_signal_data n) as [[nm bits]|]; [|discriminate].
  inversion H; subst. eexists. reflexivity.
Qed.

Lemma output_signals_shape : forall doc, Forall is_TyOutput (output_signals doc).
Proof.
  intros doc. apply filter_map_Forall. intros n s H. unfold output_signal_of in H.
  destruct (extract_signal_data n) as [[nm bits]|]; [|discriminate].
  inversion H; subst. reflexivity.
Qed.

(* For EVERY tree: loading = resolving the test headers against the pins found in the tree. *)
Theorem dig_parse_resolve : forall doc,
  dig_parse doc = resolve (raw_signals doc) (test_cases doc).
Proof.
  intros doc. rewrite dig_parse_finish. unfold raw_signals.
  apply dig_finish_resolve; [apply input_signals_shape|apply output_signals_shape].
Qed.

(* ------------------------------------------------------------------ C16: totality *)

Theorem C16_total : forall doc s, dig_parse doc <> Panic s.
Proof.
  intros doc s. rewrite dig_parse_resolve. unfold resolve.
  destruct (header_names _); [|discriminate].
  destruct (missing _ _); discriminate.
Qed.

Theorem C16_never_oof : forall doc, dig_parse doc <> OOF.
Proof.
  intros doc. rewrite dig_parse_resolve. unfold resolve.
  destruct (header_names _); [|discriminate].
  destruct (missing _ _); discriminate.
Qed.

(* ================================================================== 6. decimal numbers *)

Lemma digit_step : forall a d acc, (d < 10)%N ->
  digits_acc a ((48 + d)%N :: acc) = digits_acc (a * 10 + d)%N acc.
Proof.
  intros a d acc H. cbn [digits_acc]. unfold is_dec_digit, in_range.
  assert (L1 : (48 <=? 48 + d)%N = true) by (apply N.leb_le; lia).
  assert (L2 : (48 + d <=? 57)%N = true) by (apply N.leb_le; lia).
  rewrite L1, L2. cbn [andb]. replace (48 + d - 48)%N with d by lia. reflexivity.
Qed.

Lemma digits_fuel_value : forall f n acc, (n < 10 ^ N.of_nat f)%N ->
  exists k, forall a, digits_acc a (digits_fuel f n acc) = digits_acc (a * 10 ^ k + n)%N acc.
Proof.
  induction f as [|f IH]; intros n acc H.
  - simpl in H. exists 0%N. intros a. simpl. f_equal. lia.
  - cbn [digits_fuel]. assert (Hm : (n mod 10 < 10)%N) by (apply N.mod_lt; lia).
    destruct (n <? 10)%N eqn:L.
    + apply N.ltb_lt in L. exists 1%N. intros a. rewrite digit_step by exact Hm.
      rewrite N.mod_small by exact L. f_equal.
    + apply N.ltb_ge in L.
      assert (Hd : (n / 10 < 10 ^ N.of_nat f)%N).
      { apply N.div_lt_upper_bound; [lia|].
        rewrite Nat2N.inj_succ, N.pow_succ_r' in H. exact H. }
      destruct (IH (n / 10)%N ((48 + n mod 10)%N :: acc) Hd) as [k Hk].
      exists (N.succ k). intros a. rewrite Hk, digit_step by exact Hm. f_equal.
      rewrite N.pow_succ_r'. pose proof (N.div_mod n 10 ltac:(lia)) as H0. clear - H0.
      generalize dependent (10 ^ k)%N. generalize dependent (n / 10)%N.
      generalize dependent (n mod 10)%N. intros. subst n. ring.
Qed.

Definition digit_head (s : text) : Prop := exists c r, s = c :: r /\ (48 <= c <= 57)%N.

Lemma digits_fuel_head : forall f n acc, f <> 0 \/ digit_head acc -> digit_head (digits_fuel f n acc).
Proof.
  induction f as [|f IH]; intros n acc H.
  - destruct H as [H|H]; [congruence|exact H].
  - cbn [digits_fuel]. assert (Hm : (n mod 10 < 10)%N) by (apply N.mod_lt; lia).
    assert (Hh : digit_head ((48 + n mod 10)%N :: acc)).
    { exists (48 + n mod 10)%N, acc. split; [reflexivity|]. generalize dependent (n mod 10)%N. intros; lia. }
    destruct (n <? 10)%N; [exact Hh|]. apply IH. right. exact Hh.
Qed.

Lemma render_N_bound : forall n, (n < 10 ^ N.of_nat (S (N.to_nat (N.log2 n))))%N.
Proof.
  intros n. rewrite Nat2N.inj_succ, N2Nat.id.
  destruct (N.eq_dec n 0) as [->|Hn]; [reflexivity|].
  destruct (N.log2_spec n) as [_ H]; [lia|].
  eapply N.lt_le_trans; [exact H|]. apply N.pow_le_mono_l. lia.
Qed.

Lemma render_N_value : forall n, digits_acc 0 (render_N n) = Some n.
Proof.
  intros n. unfold render_N.
  destruct (digits_fuel_value _ n [] (render_N_bound n)) as [k Hk].
  rewrite Hk. simpl. reflexivity.
Qed.

Lemma render_N_head : forall n, digit_head (render_N n).
Proof. intros n. apply digits_fuel_head. left. discriminate. Qed.

Lemma parse_digits_render : forall n, parse_digits (render_N n) = Some n.
Proof.
  intros n. destruct (render_N_head n) as [c [r [E _]]].
  unfold parse_digits. rewrite <- (render_N_value n). rewrite E. reflexivity.
Qed.

Lemma parse_usize_render : forall n, (n < two64)%N -> parse_usize (render_N n) = Some n.
Proof.
  intros n H. unfold parse_usize. destruct (render_N_head n) as [c [r [E Hc]]].
  pose proof (parse_digits_render n) as P. rewrite E in *.
  assert (C : (c =? 43)%N = false) by (apply N.eqb_neq; lia).
  rewrite C, P. apply N.ltb_lt in H. rewrite H. reflexivity.
Qed.

Lemma parse_i64_render : forall z, (- Z.of_N two63 <= z < Z.of_N two63)%Z ->
  parse_i64 (render_Z z) = Some z.
Proof.
  intros z H. unfold render_Z. destruct (z <? 0)%Z eqn:L.
  - apply Z.ltb_lt in L. unfold parse_i64. rewrite N.eqb_refl, parse_digits_render.
    assert (B : (Z.to_N (- z) <=? two63)%N = true) by (apply N.leb_le; lia).
    rewrite B. f_equal. lia.
  - apply Z.ltb_ge in L. unfold parse_i64.
    destruct (render_N_head (Z.to_N z)) as [c [r [E Hc]]].
    pose proof (parse_digits_render (Z.to_N z)) as P. rewrite E in *.
    assert (C1 : (c =? 45)%N = false) by (apply N.eqb_neq; lia).
    assert (C2 : (c =? 43)%N = false) by (apply N.eqb_neq; lia).
    rewrite C1, C2, P.
    assert (B : (Z.to_N z <? two63)%N = true) by (apply N.ltb_lt; lia).
    rewrite B. f_equal. lia.
Qed.

(* ================================================================== 7. the tree of a description *)

Local Arguments s2n : simpl never.

(* evaluate comparisons of closed names *)
Ltac eval_tags :=
  repeat match goal with
  | |- context [name_eqb ?a ?b] =>
      let v := eval vm_compute in (name_eqb a b) in
      match v with true => idtac | false => idtac end;
      change (name_eqb a b) with v
  end.

Lemma has_tag_elem : forall t t' a c, has_tag t (XElem t' a c) = name_eqb t' t.
Proof. reflexivity. Qed.
Lemma has_tag_text : forall t x, has_tag t (XText x) = name_eqb [] t.
Proof. reflexivity. Qed.

(* what the value of an entry must not contain *)
Definition inner_ok (m : xnode) : bool :=
  negb (has_tag (s2n "entry") m) && negb (has_tag (s2n "visualElement") m).
Definition clean (v : xnode) : bool := is_element v && forallb inner_ok (descendants v).

Lemma filter_nil : forall A (p : A -> bool) l, (forall x, In x l -> p x = false) -> filter p l = [].
Proof.
  induction l as [|x r IH]; simpl; intros H; [reflexivity|].
  rewrite (H x) by (left; reflexivity). apply IH. intros y Hy. apply H. right. exact Hy.
Qed.

Lemma clean_no_entry : forall v, clean v = true -> filter (has_tag (s2n "entry")) (descendants v) = [].
Proof.
  intros v H. apply andb_true_iff in H. destruct H as [_ H].
  apply filter_nil. intros x Hx. rewrite forallb_forall in H. specialize (H x Hx).
  unfold inner_ok in H. apply andb_true_iff in H. destruct H as [H _].
  apply negb_true_iff in H. exact H.
Qed.

Lemma clean_no_ve : forall v x, clean v = true -> In x (descendants v) ->
  has_tag (s2n "visualElement") x = false.
Proof.
  intros v x H Hx. apply andb_true_iff in H. destruct H as [_ H].
  rewrite forallb_forall in H. specialize (H x Hx).
  unfold inner_ok in H. apply andb_true_iff in H. destruct H as [_ H].
  apply negb_true_iff in H. exact H.
Qed.

Lemma entry_descendants : forall k v,
  descendants (entry_node (k, v)) =
  entry_node (k, v) :: XElem (s2n "string") [] [XText k] :: XText k :: descendants v.
Proof.
  intros. unfold entry_node. rewrite descendants_elem. cbn [flat_map fst snd].
  rewrite descendants_elem. cbn [flat_map]. rewrite descendants_text, !app_nil_r. reflexivity.
Qed.

Definition clean_entries (entries : list (name * xnode)) : Prop :=
  Forall (fun e => clean (snd e) = true) entries.

Lemma entries_filter : forall entries, clean_entries entries ->
  filter (has_tag (s2n "entry")) (flat_map descendants (map entry_node entries)) = map entry_node entries.
Proof.
  induction entries as [|[k v] r IH]; intros H; [reflexivity|].
  inversion H; subst. cbn [map flat_map]. rewrite filter_app, IH by assumption.
  rewrite entry_descendants. cbn [filter]. unfold entry_node at 1.
  rewrite !has_tag_elem, has_tag_text. eval_tags. cbn [snd] in *.
  rewrite clean_no_entry by assumption. reflexivity.
Qed.

Lemma attrib_loop_entries : forall label entries, clean_entries entries ->
  attrib_loop label (map entry_node entries) =
  option_map snd (find (fun e => name_eqb (fst e) label) entries).
Proof.
  induction entries as [|[k v] r IH]; intros H; [reflexivity|].
  inversion H; subst. cbn [map attrib_loop find fst snd] in *.
  unfold entry_node at 1. unfold first_element_child. cbn [children find is_element fst snd].
  rewrite has_tag_elem. eval_tags. cbn [node_text opt_text_is andb].
  destruct (name_eqb k label).
  - unfold last_element_child, entry_node. cbn [children find_last option_map snd].
    apply andb_true_iff in H2. destruct H2 as [E _]. rewrite E. reflexivity.
  - apply IH. assumption.
Qed.

Lemma ve_descendants : forall kind entries,
  descendants (ve_node kind entries) =
  ve_node kind entries :: XElem (s2n "elementName") [] [XText kind] :: XText kind ::
  XElem (s2n "elementAttributes") [] (map entry_node entries) ::
  flat_map descendants (map entry_node entries) ++
  [XElem (s2n "pos") [(s2n "x", s2n "0"); (s2n "y", s2n "0")] []].
Proof.
  intros. unfold ve_node. rewrite descendants_elem. cbn [flat_map].
  rewrite !descendants_elem. cbn [flat_map]. rewrite descendants_text, !app_nil_r. reflexivity.
Qed.

Lemma attrib_ve : forall kind entries label, clean_entries entries ->
  attrib (ve_node kind entries) label =
  option_map snd (find (fun e => name_eqb (fst e) label) entries).
Proof.
  intros kind entries label H. unfold attrib. rewrite ve_descendants.
  cbn [find]. unfold ve_node at 1. rewrite !has_tag_elem, has_tag_text. eval_tags. cbv iota.
  rewrite descendants_elem. cbn [filter]. rewrite has_tag_elem. eval_tags.
  rewrite entries_filter by assumption. apply attrib_loop_entries. assumption.
Qed.

Lemma is_ve_other : forall names m,
  has_tag (s2n "visualElement") m = false -> is_visual_element names m = false.
Proof. intros names m H. unfold is_visual_element. rewrite H. reflexivity. Qed.

Lemma is_ve_ve : forall names kind entries,
  is_visual_element names (ve_node kind entries) = existsb (name_eqb kind) names.
Proof.
  intros. unfold is_visual_element. rewrite ve_descendants. cbn [find].
  unfold ve_node. rewrite !has_tag_elem. eval_tags. cbv iota. cbn [negb node_text]. reflexivity.
Qed.

Lemma entries_no_ve : forall entries x, clean_entries entries ->
  In x (flat_map descendants (map entry_node entries)) -> has_tag (s2n "visualElement") x = false.
Proof.
  induction entries as [|[k v] r IH]; intros x H Hx; [destruct Hx|].
  inversion H; subst. cbn [map flat_map] in Hx. apply in_app_or in Hx. destruct Hx as [Hx|Hx].
  - rewrite entry_descendants in Hx. destruct Hx as [<-|[<-|[<-|Hx]]]; try reflexivity.
    eapply clean_no_ve; eassumption.
  - apply IH; assumption.
Qed.

Lemma filter_cons_false : forall A (p : A -> bool) x l, p x = false -> filter p (x :: l) = filter p l.
Proof. intros A p x l H. simpl. rewrite H. reflexivity. Qed.

Lemma filter_cons_eq : forall A (p : A -> bool) x l,
  filter p (x :: l) = if p x then x :: filter p l else filter p l.
Proof. reflexivity. Qed.

Lemma ve_filter : forall names kind entries, clean_entries entries ->
  filter (is_visual_element names) (descendants (ve_node kind entries)) =
  if existsb (name_eqb kind) names then [ve_node kind entries] else [].
Proof.
  intros names kind entries H. rewrite ve_descendants.
  rewrite filter_cons_eq, is_ve_ve.
  rewrite !filter_cons_false by (apply is_ve_other; reflexivity).
  rewrite filter_app. rewrite filter_cons_false by (apply is_ve_other; reflexivity).
  rewrite (filter_nil _ _ (flat_map descendants (map entry_node entries))).
  - reflexivity.
  - intros x Hx. apply is_ve_other. eapply entries_no_ve; eassumption.
Qed.

Lemma ve_filter_map : forall A (f : A -> xnode) (kind : A -> name)
  (entries : A -> list (name * xnode)) names l,
  (forall a, f a = ve_node (kind a) (entries a)) -> (forall a, clean_entries (entries a)) ->
  filter (is_visual_element names) (flat_map descendants (map f l)) =
  map f (filter (fun a => existsb (name_eqb (kind a)) names) l).
Proof.
  intros A f kind entries names l Hf Hc. induction l as [|a r IH]; [reflexivity|].
  cbn [map flat_map filter]. rewrite filter_app, IH, Hf, ve_filter by apply Hc.
  destruct (existsb (name_eqb (kind a)) names); [cbn [map]; rewrite Hf|]; reflexivity.
Qed.

Lemma clean_pin_entries : forall p, clean_entries (pin_entries p).
Proof.
  intros [k l b d]. unfold pin_entries, clean_entries. cbn [plabel pbits pdefault].
  destruct l as [|c l], b as [n|], d as [[z|]|]; repeat constructor.
Qed.

Lemma clean_test_entries : forall t, clean_entries (test_entries t).
Proof.
  intros [l s]. unfold test_entries, clean_entries. cbn [fst snd].
  destruct l as [|c l], s as [|c' s]; repeat constructor.
Qed.

Lemma visual_elements_tree : forall d names,
  visual_elements (tree_of d) names =
  map pin_node (filter (fun p => existsb (name_eqb (kind_name (pk p))) names) (d_pins d)) ++
  map test_node (filter (fun _ => existsb (name_eqb (s2n "Testcase")) names) (d_tests d)).
Proof.
  intros d names. unfold visual_elements. rewrite doc_descendants_eq. unfold tree_of.
  cbn [flat_map]. repeat (rewrite descendants_elem; cbn [flat_map]).
  rewrite descendants_text. cbn [app]. rewrite !app_nil_r.
  rewrite !filter_cons_false by (apply is_ve_other; reflexivity).
  rewrite filter_app, flat_map_app, filter_app.
  rewrite !filter_cons_false by (apply is_ve_other; reflexivity).
  cbn [filter]. rewrite app_nil_r.
  rewrite (ve_filter_map _ pin_node (fun p => kind_name (pk p)) pin_entries)
    by (reflexivity || apply clean_pin_entries).
  rewrite (ve_filter_map _ test_node (fun _ => s2n "Testcase") test_entries)
    by (reflexivity || apply clean_test_entries).
  reflexivity.
Qed.

Lemma node_text_string : forall l,
  node_text (string_node l) = match l with [] => None | _ => Some l end.
Proof. destruct l; reflexivity. Qed.

Lemma extract_signal_data_pin : forall p, wf_pin p ->
  extract_signal_data (pin_node p) = if labelled p then Some (plabel p, width p) else None.
Proof.
  intros [k l b d] [Hb _]. unfold extract_signal_data, pin_node, labelled, width.
  rewrite !attrib_ve by apply clean_pin_entries.
  unfold pin_entries. cbn [plabel pbits pdefault] in *.
  cbn [app find fst snd option_map]. eval_tags. cbv iota. cbn [option_map snd].
  rewrite node_text_string. destruct l as [|c l]; [reflexivity|].
  destruct b as [n|].
  - cbn [app find fst snd option_map]. eval_tags. cbv iota. cbn [option_map snd node_text].
    rewrite parse_usize_render by (apply Hb; reflexivity). reflexivity.
  - destruct d; cbn [app find fst snd option_map]; eval_tags; reflexivity.
Qed.

Lemma extract_input_data_pin : forall p, wf_pin p ->
  extract_input_data (pin_node p) = default_of p.
Proof.
  intros [k l b d] [_ Hd]. unfold extract_input_data, pin_node, default_of.
  rewrite !attrib_ve by apply clean_pin_entries.
  unfold pin_entries. cbn [plabel pbits pdefault] in *.
  destruct b as [n|], d as [[z|]|]; cbn [app find fst snd option_map]; eval_tags; cbv iota;
    cbn [find option_map snd fst]; eval_tags; cbv iota; cbn [option_map snd]; try reflexivity.
  - unfold value_node, attribute. cbn [find fst snd option_map]. eval_tags. cbv iota.
    cbn [option_map snd opt_text_is find fst]. eval_tags. cbv iota. cbn [option_map snd].
    rewrite parse_i64_render by (apply Hd; reflexivity). reflexivity.
  - unfold value_node, attribute. cbn [find fst snd option_map]. eval_tags. cbv iota.
    cbn [option_map snd opt_text_is find fst]. eval_tags. cbv iota. cbn [option_map snd].
    rewrite parse_i64_render by (apply Hd; reflexivity). reflexivity.
Qed.

Lemma input_signal_of_pin : forall p, wf_pin p ->
  input_signal_of (pin_node p) = if labelled p then Some (input_signal p) else None.
Proof.
  intros p H. unfold input_signal_of. rewrite extract_signal_data_pin, extract_input_data_pin by exact H.
  destruct (labelled p); reflexivity.
Qed.

Lemma output_signal_of_pin : forall p, wf_pin p ->
  output_signal_of (pin_node p) = if labelled p then Some (output_signal p) else None.
Proof.
  intros p H. unfold output_signal_of. rewrite extract_signal_data_pin by exact H.
  destruct (labelled p); reflexivity.
Qed.

Lemma test_case_of_test : forall t, test_case_of (test_node t) = Some t.
Proof.
  intros [l s]. unfold test_case_of, test_node.
  rewrite !attrib_ve by apply clean_test_entries.
  unfold test_entries. cbn [fst snd find option_map]. eval_tags. cbv iota.
  cbn [find fst snd option_map]. eval_tags. cbv iota. cbn [option_map snd].
  rewrite node_text_string. rewrite has_tag_elem. eval_tags. cbn [negb].
  unfold first_element_child. cbn [children find is_element]. rewrite has_tag_elem. eval_tags.
  cbn [negb]. destruct l, s; reflexivity.
Qed.

Lemma filter_map_map_filter : forall A B C (g : A -> B) (f : B -> option C) (h : A -> C)
  (q lab : A -> bool) (P : A -> Prop) l,
  Forall P l -> (forall a, P a -> f (g a) = if lab a then Some (h a) else None) ->
  filter_map f (map g (filter q l)) = map h (filter (fun a => q a && lab a) l).
Proof.
  intros A B C g f h q lab P l HP Hf. induction HP as [|a r Ha Hr IH]; [reflexivity|].
  cbn [filter]. destruct (q a); cbn [andb map filter_map]; [|exact IH].
  rewrite (Hf a Ha). destruct (lab a); cbn [map]; rewrite IH; reflexivity.
Qed.

Lemma raw_signals_tree : forall d, wf_descr d -> raw_signals (tree_of d) = pin_signals d.
Proof.
  intros d H. unfold raw_signals, pin_signals, input_signals, output_signals.
  rewrite !visual_elements_tree. cbn [existsb]. eval_tags. cbn [orb].
  rewrite !(filter_nil _ (fun _ => false)) by reflexivity. cbn [map]. rewrite !app_nil_r.
  f_equal.
  - rewrite (filter_map_map_filter _ _ _ pin_node input_signal_of input_signal _ labelled wf_pin)
      by (exact H || apply input_signal_of_pin).
    f_equal. apply filter_ext. intros [[| |] l b dd]; reflexivity.
  - rewrite (filter_map_map_filter _ _ _ pin_node output_signal_of output_signal _ labelled wf_pin)
      by (exact H || apply output_signal_of_pin).
    f_equal. apply filter_ext. intros [[| |] l b dd]; reflexivity.
Qed.

Lemma test_cases_tree : forall d, test_cases (tree_of d) = d_tests d.
Proof.
  intros d. unfold test_cases. rewrite visual_elements_tree.
  rewrite (filter_nil _ _ (d_pins d)) by (intros [[| |] l b dd] _; reflexivity).
  cbn [map app existsb]. eval_tags. cbn [orb].
  induction (d_tests d) as [|t r IH]; [reflexivity|].
  cbn [filter map filter_map]. rewrite test_case_of_test. f_equal. exact IH.
Qed.

(* ------------------------------------------------------------------ C16: faithfulness *)

Theorem C16_faithful : forall d, wf_descr d -> dig_parse (tree_of d) = file_of d.
Proof.
  intros d H. rewrite dig_parse_resolve, raw_signals_tree, test_cases_tree by exact H.
  reflexivity.
Qed.

(* ================================================================== 8. load_test, load_test_by_name *)

Theorem C16_load_test : forall f n,
  load_test f n =
  if n <? List.length (df_tests f) then
    rbind (rmap_err LE_ParseError (parse (snd (nth n (df_tests f) ([], [])))))
      (fun p => rmap_err LE_SignalError (with_signals p (df_signals f)))
  else Err (LE_IndexOutOfBounds n (List.length (df_tests f))).
Proof.
  intros f n. unfold load_test.
  destruct (List.length (df_tests f) <=? n) eqn:L.
  - apply Nat.leb_le in L. assert (N : (n <? List.length (df_tests f)) = false) by (apply Nat.ltb_ge; lia).
    rewrite N. reflexivity.
  - apply Nat.leb_gt in L. assert (N : (n <? List.length (df_tests f)) = true) by (apply Nat.ltb_lt; lia).
    rewrite N. rewrite (nth_error_nth' (df_tests f) (([], []) : name * text) L). reflexivity.
Qed.

Theorem C16_load_test_out_of_range : forall f n, List.length (df_tests f) <= n ->
  load_test f n = Err (LE_IndexOutOfBounds n (List.length (df_tests f))).
Proof.
  intros f n H. rewrite C16_load_test.
  assert (N : (n <? List.length (df_tests f)) = false) by (apply Nat.ltb_ge; lia).
  rewrite N. reflexivity.
Qed.

Theorem C16_by_name_first : forall f nm,
  load_test_by_name f nm =
  match position (fun t => name_eqb (fst t) nm) (df_tests f) with
  | Some n => load_test f n
  | None => Err (LE_TestNotFound nm)
  end.
Proof. reflexivity. Qed.

(* `position` is the index of the FIRST element satisfying the predicate *)
Lemma position_first : forall A (p : A -> bool) l n,
  position p l = Some n <->
  (exists x, nth_error l n = Some x /\ p x = true) /\
  (forall m y, m < n -> nth_error l m = Some y -> p y = false).
Proof.
  induction l as [|x r IH]; intros n.
  - simpl. split; [discriminate|]. intros [[y [H _]] _]. destruct n; discriminate.
  - simpl. destruct (p x) eqn:Px.
    + split.
      * intros H. inversion H; subst. split; [exists x; auto|]. intros m y Hm. lia.
      * intros [[y [Hy Py]] Hmin]. destruct n as [|n]; [reflexivity|].
        specialize (Hmin 0 x (Nat.lt_0_succ _) eq_refl). congruence.
    + split.
      * destruct (position p r) as [k|] eqn:E; simpl; [|discriminate].
        intros H. inversion H; subst. destruct (proj1 (IH k) eq_refl) as [Hx Hmin].
        split; [exact Hx|]. intros [|m] y Hm Hy; simpl in Hy.
        -- inversion Hy; subst. exact Px.
        -- apply (Hmin m); [lia|exact Hy].
      * intros [[y [Hy Py]] Hmin]. destruct n as [|n]; simpl in Hy.
        -- inversion Hy; subst. congruence.
        -- assert (E : position p r = Some n).
           { apply IH. split; [exists y; auto|]. intros m z Hm Hz. apply (Hmin (S m)); [lia|exact Hz]. }
           rewrite E. reflexivity.
Qed.

Lemma position_none : forall A (p : A -> bool) l,
  position p l = None <-> forall x, In x l -> p x = false.
Proof.
  induction l as [|x r IH]; simpl.
  - split; [intros _ x []|reflexivity].
  - destruct (p x) eqn:Px.
    + split; [discriminate|]. intros H. specialize (H x (or_introl eq_refl)). congruence.
    + destruct (position p r) eqn:E; simpl.
      * split; [discriminate|]. intros H.
        assert (X : forall y, In y r -> p y = false) by (intros y Hy; apply H; right; exact Hy).
        apply IH in X. discriminate.
      * split; [|reflexivity]. intros _ y [<-|Hy]; [exact Px|]. apply (proj1 IH eq_refl). exact Hy.
Qed.

(* by name = the first test carrying that label; an unknown name is an error *)
Theorem C16_by_name_spec : forall f nm,
  (forall n t, nth_error (df_tests f) n = Some t -> fst t = nm ->
     (forall m t', m < n -> nth_error (df_tests f) m = Some t' -> fst t' <> nm) ->
     load_test_by_name f nm = load_test f n) /\
  ((forall t, In t (df_tests f) -> fst t <> nm) ->
     load_test_by_name f nm = Err (LE_TestNotFound nm)).
Proof.
  intros f nm. rewrite C16_by_name_first. split.
  - intros n t Hn Ht Hmin.
    assert (E : position (fun t => name_eqb (fst t) nm) (df_tests f) = Some n).
    { apply position_first. split.
      - exists t. split; [exact Hn|]. apply name_eqb_eq. exact Ht.
      - intros m y Hm Hy. apply name_eqb_neq. eapply Hmin; eassumption. }
    rewrite E. reflexivity.
  - intros H.
    assert (E : position (fun t => name_eqb (fst t) nm) (df_tests f) = None).
    { apply position_none. intros t Ht. apply name_eqb_neq. apply H. exact Ht. }
    rewrite E. reflexivity.
Qed.

(* ================================================================== 9. which signals are bidirectional *)

(* a signal of the loaded file against the pin it comes from *)
Definition same_pin (s0 s : signal) : Prop :=
  sname s = sname s0 /\ sbits s = sbits s0 /\
  (styp s = styp s0 \/ exists d, styp s0 = TyInput d /\ styp s = TyBidir d).

Lemma markW_same_pin : forall want l seen, Forall2 same_pin l (markW want seen l).
Proof.
  induction l as [|s r IH]; intros seen; simpl; constructor; [|apply IH].
  unfold same_pin. destruct (styp s) as [d| | |] eqn:T; try (rewrite T; auto).
  destruct (want (sname s) && negb (mem (sname s) seen)); simpl; [|rewrite T; auto].
  repeat split; eauto.
Qed.

Definition is_bidir (s : signal) : bool := match styp s with TyBidir _ => true | _ => false end.

Lemma markW_bidir_from : forall want l seen s',
  In s' (markW want seen l) -> is_bidir s' = true ->
  want (sname s') = true \/ (In s' l).
Proof.
  induction l as [|s r IH]; simpl; intros seen s' H B; [destruct H|].
  destruct H as [H|H].
  - destruct (styp s) as [d| | |] eqn:T; try (right; left; exact H).
    destruct (want (sname s) && negb (mem (sname s) seen)) eqn:W; [|right; left; exact H].
    subst s'. simpl. apply andb_true_iff in W. left. apply W.
  - destruct (IH _ _ H B) as [W|I]; [left; exact W|right; right; exact I].
Qed.

Lemma markW_bidir_to : forall want l seen x,
  want x = true -> ~ In x seen -> first_input l x = true ->
  exists s', In s' (markW want seen l) /\ sname s' = x /\ is_bidir s' = true.
Proof.
  induction l as [|s r IH]; simpl; intros seen x W S F; [discriminate|].
  destruct (name_eqb (sname s) x) eqn:E.
  - apply name_eqb_eq in E. destruct (styp s) as [d| | |] eqn:T; try discriminate.
    apply mem_false in S. rewrite E, W, S. simpl.
    eexists. split; [left; reflexivity|]. simpl. auto.
  - destruct (IH (sname s :: seen) x W) as [s' [H1 H2]]; [|exact F|].
    + apply name_eqb_neq in E. intros [H|H]; [congruence|contradiction].
    + exists s'. split; [right; exact H1|exact H2].
Qed.

Lemma header_names_In : forall tests used n, header_names tests = Some used ->
  (In n used <-> exists t h, In t tests /\ parse_header (snd t) = Ok h /\ In n (h_names h)).
Proof.
  induction tests as [|t r IH]; simpl; intros used n H.
  - inversion H; subst. split; [intros []|intros [t [h [[] _]]]].
  - destruct (parse_header (snd t)) as [h| | |] eqn:P; try discriminate.
    destruct (header_names r) as [l|] eqn:Hr; [|discriminate].
    inversion H; subst. rewrite in_app_iff, (IH l n eq_refl). split.
    + intros [Hn|[t' [h' [H1 H2]]]]; [exists t, h; auto|exists t', h'; tauto].
    + intros [t' [h' [[<-|H1] [H2 H3]]]].
      * left. congruence.
      * right. exists t', h'. auto.
Qed.

Lemma bidirectional_spec : forall sigs used x,
  bidirectional sigs used x = true <->
  In (x ++ out_suffix) used /\ pin_named sigs (x ++ out_suffix) = false /\ input_named sigs x = true.
Proof.
  intros sigs used x. unfold bidirectional. rewrite existsb_exists. split.
  - intros [n [Hn O]]. unfold out_side in O. apply andb_true_iff in O. destruct O as [O I].
    apply andb_true_iff in O. destruct O as [E P]. apply name_eqb_eq in E. subst n.
    apply negb_true_iff in P. auto.
  - intros [Hn [P I]]. exists (x ++ out_suffix). split; [exact Hn|].
    unfold out_side. rewrite name_eqb_refl, P, I. reflexivity.
Qed.

Lemma resolve_ok : forall sigs tests f, resolve sigs tests = Ok f ->
  exists used, header_names tests = Some used /\ missing sigs used = [] /\
    f = {| df_signals := mark sigs used [] sigs; df_tests := tests |}.
Proof.
  intros sigs tests f H. unfold resolve in H.
  destruct (header_names tests) as [used|]; [|discriminate].
  destruct (missing sigs used) eqn:M; [|discriminate].
  inversion H; subst. eauto.
Qed.

(* the loaded signals are the pins of the document, in order, with the same names and
   widths; the only change is Input -> Bidirectional (same default); the tests are kept *)
Theorem C16_signals_kept : forall doc f, dig_parse doc = Ok f ->
  Forall2 same_pin (raw_signals doc) (df_signals f) /\ df_tests f = test_cases doc.
Proof.
  intros doc f H. rewrite dig_parse_resolve in H.
  apply resolve_ok in H. destruct H as [used [_ [_ ->]]]. simpl.
  split; [|reflexivity]. rewrite mark_markW. apply markW_same_pin.
Qed.

(* A name x belongs to a bidirectional signal of the loaded file exactly when x is an input
   pin, some test header has the column x_out, and no pin is labelled x_out. *)
Theorem C16_bidirectional_iff : forall doc f, dig_parse doc = Ok f ->
  forall x,
    (exists s, In s (df_signals f) /\ sname s = x /\ is_bidir s = true) <->
    (exists s0, In s0 (raw_signals doc) /\ sname s0 = x /\ is_input s0 = true) /\
    (exists t h, In t (df_tests f) /\ parse_header (snd t) = Ok h /\ In (x ++ out_suffix) (h_names h)) /\
    ~ (exists s1, In s1 (raw_signals doc) /\ sname s1 = x ++ out_suffix).
Proof.
  intros doc f H x. rewrite dig_parse_resolve in H.
  apply resolve_ok in H. destruct H as [used [Hu [_ ->]]]. simpl.
  set (sigs := raw_signals doc) in *.
  assert (Shape : forall s, In s sigs -> is_bidir s = false).
  { intros s Hs. unfold sigs, raw_signals in Hs. apply in_app_or in Hs. destruct Hs as [Hs|Hs].
    - pose proof (input_signals_shape doc) as F. rewrite Forall_forall in F.
      destruct (F s Hs) as [d Hd]. unfold is_bidir. rewrite Hd. reflexivity.
    - pose proof (output_signals_shape doc) as F. rewrite Forall_forall in F.
      specialize (F s Hs). unfold is_TyOutput in F. unfold is_bidir. rewrite F. reflexivity. }
  assert (Pn : forall n, pin_named sigs n = false <-> ~ (exists s1, In s1 sigs /\ sname s1 = n)).
  { intros n. unfold pin_named. rewrite mem_false, in_map_iff. split.
    - intros A [s1 [B C]]. apply A. exists s1. auto.
    - intros A [s1 [B C]]. apply A. exists s1. auto. }
  assert (In_named : input_named sigs x = true <->
                     exists s0, In s0 sigs /\ sname s0 = x /\ is_input s0 = true).
  { split; [apply input_named_In|]. intros [s0 [A [B C]]]. unfold input_named.
    apply existsb_exists. exists s0. split; [exact A|]. rewrite B, name_eqb_refl, C. reflexivity. }
  rewrite <- In_named, <- Pn, <- (header_names_In _ _ _ Hu).
  rewrite mark_markW. split.
  - intros [s [Hs [Hx Hb]]].
    destruct (markW_bidir_from _ _ _ _ Hs Hb) as [W|I].
    + rewrite Hx in W. apply bidirectional_spec in W. tauto.
    + rewrite (Shape s I) in Hb. discriminate.
  - intros [I [U P]].
    apply markW_bidir_to; [apply bidirectional_spec; tauto|intros []|].
    unfold sigs, raw_signals.
    apply first_input_shape; [apply input_signals_shape|apply output_signals_shape|exact I].
Qed.

(* the errors *)
Theorem C16_empty_test : forall doc,
  dig_parse doc = Err DE_EmptyTest <->
  exists t, In t (test_cases doc) /\ forall h, parse_header (snd t) <> Ok h.
Proof.
  intros doc. rewrite dig_parse_resolve. unfold resolve.
  generalize (raw_signals doc) as sigs. intros sigs.
  assert (HN : header_names (test_cases doc) = None <->
               exists t, In t (test_cases doc) /\ forall h, parse_header (snd t) <> Ok h).
  { induction (test_cases doc) as [|t r IH]; simpl.
    - split; [discriminate|intros [t [[] _]]].
    - destruct (parse_header (snd t)) as [h|e|s|] eqn:P.
      + destruct (header_names r) eqn:Hr.
        * split; [discriminate|]. intros [t' [[<-|Ht'] Hh]]; [exfalso; eapply Hh; eassumption|].
          assert (X : exists t, In t r /\ forall h, parse_header (snd t) <> Ok h) by eauto.
          apply IH in X. discriminate.
        * split; [|reflexivity]. intros _. destruct (proj1 IH eq_refl) as [t' [A B]]. eauto.
      + split; [|reflexivity]. intros _. exists t. split; [auto|]. intros h. congruence.
      + split; [|reflexivity]. intros _. exists t. split; [auto|]. intros h. congruence.
      + split; [|reflexivity]. intros _. exists t. split; [auto|]. intros h. congruence. }
  destruct (header_names (test_cases doc)) as [used|].
  - split.
    + destruct (missing sigs used); discriminate.
    + intros E. apply HN in E. discriminate.
  - split; [intros _; apply HN; reflexivity|reflexivity].
Qed.

(* the names reported missing: header columns that are neither a pin nor the output side of
   an input pin (as a set) *)
Theorem C16_missing_signals : forall doc m, dig_parse doc = Err (DE_MissingSignals m) ->
  exists used, header_names (test_cases doc) = Some used /\ m <> [] /\ NoDup m /\
    forall n, In n m <-> In n used /\ known (raw_signals doc) n = false.
Proof.
  intros doc m H. rewrite dig_parse_resolve in H. unfold resolve in H.
  destruct (header_names (test_cases doc)) as [used|]; [|discriminate].
  exists used. split; [reflexivity|].
  destruct (missing (raw_signals doc) used) as [|n0 m0] eqn:M; [discriminate|].
  inversion H; subst m. split; [discriminate|]. rewrite <- M. unfold missing. split.
  - apply dedup_NoDup.
  - intros n. rewrite dedup_In, filter_In, negb_true_iff. simpl. tauto.
Qed.

(* ================================================================== 10. examples *)

Definition mkpin (k : pin_kind) (l : string) (b : option N) (d : option inval) : pin :=
  {| pk := k; plabel := s2n l; pbits := b; pdefault := d |}.

Definition nl : text := [10%N].

(* In A (4 bits, default 3), In B (default Z), Clock C, Out Q (8 bits), Out B_out2 *)
Definition ex_pins : list pin :=
  [ mkpin PIn "A" (Some 4%N) (Some (IVal 3));
    mkpin PIn "B" None (Some IZ);
    mkpin PClock "C" None None;
    mkpin POut "Q" (Some 8%N) None;
    mkpin POut "B_out2" None None ].

Definition ex_src1 : text := s2n "A B B_out Q" ++ nl ++ s2n "1 0 Z 0" ++ nl.

Definition ex_file1 : dig_file :=
  {| df_signals :=
       [ {| sname := s2n "A"; sbits := 4; styp := TyInput (IVal 3) |};
         {| sname := s2n "B"; sbits := 1; styp := TyBidir IZ |};
         {| sname := s2n "C"; sbits := 1; styp := TyInput (IVal 0) |};
         {| sname := s2n "Q"; sbits := 8; styp := TyOutput |};
         {| sname := s2n "B_out2"; sbits := 1; styp := TyOutput |} ];
     df_tests := [(s2n "first", ex_src1)] |}.

(* the header uses B_out, B is an input and no pin is labelled B_out: B is bidirectional *)
Example ex_bidirectional :
  dig_parse (tree_of {| d_pins := ex_pins; d_tests := [(s2n "first", ex_src1)] |}) = Ok ex_file1.
Proof. vm_compute. reflexivity. Qed.

(* Q is an output, so Q_out is just an unknown name: an error, not a panic *)
Example ex_out_of_output :
  dig_parse (tree_of {| d_pins := ex_pins;
                        d_tests := [(s2n "t", s2n "A Q_out" ++ nl ++ s2n "1 1" ++ nl)] |})
  = Err (DE_MissingSignals [s2n "Q_out"]).
Proof. vm_compute. reflexivity. Qed.

(* a pin labelled C_out exists: the column C_out means that pin, C stays an input *)
Example ex_pin_named_out :
  dig_parse (tree_of {| d_pins := [mkpin PIn "C" None None; mkpin POut "C_out" None None];
                        d_tests := [(s2n "t", s2n "C C_out" ++ nl ++ s2n "1 1" ++ nl)] |})
  = Ok {| df_signals :=
            [ {| sname := s2n "C"; sbits := 1; styp := TyInput (IVal 0) |};
              {| sname := s2n "C_out"; sbits := 1; styp := TyOutput |} ];
          df_tests := [(s2n "t", s2n "C C_out" ++ nl ++ s2n "1 1" ++ nl)] |}.
Proof. vm_compute. reflexivity. Qed.

(* a test without header *)
Example ex_empty_test :
  dig_parse (tree_of {| d_pins := ex_pins; d_tests := [(s2n "t", [])] |}) = Err DE_EmptyTest.
Proof. vm_compute. reflexivity. Qed.

(* unlabelled pins are not signals; the test label may be empty *)
Example ex_unlabelled :
  dig_parse (tree_of {| d_pins := [mkpin PIn "" (Some 2%N) None; mkpin POut "Y" None None];
                        d_tests := [([], s2n "Y" ++ nl)] |})
  = Ok {| df_signals := [ {| sname := s2n "Y"; sbits := 1; styp := TyOutput |} ];
          df_tests := [([], s2n "Y" ++ nl)] |}.
Proof. vm_compute. reflexivity. Qed.

(* trees Digital would not write: no elements at all; a Testcase without Label whose
   Testdata entry is preceded by a comment; a Testcase whose data is not a testData element *)
Example ex_no_elements : dig_parse [XOther; XText (s2n "x")] = Ok {| df_signals := []; df_tests := [] |}.
Proof. vm_compute. reflexivity. Qed.

Example ex_unnamed_test :
  dig_parse
    [XElem (s2n "visualElement") []
       [XOther;
        XElem (s2n "elementName") [] [XText (s2n "Testcase")];
        XElem (s2n "elementAttributes") []
          [XElem (s2n "entry") [] [XOther; XElem (s2n "string") [] [XText (s2n "Testdata")];
                                   XText (s2n " ");
                                   XElem (s2n "testData") [] [XElem (s2n "dataString") [] [XText (s2n "X" ++ nl)]]]]];
     XElem (s2n "visualElement") []
       [XElem (s2n "elementName") [] [XText (s2n "Testcase")];
        XElem (s2n "elementAttributes") []
          [XElem (s2n "entry") [] [XElem (s2n "string") [] [XText (s2n "Testdata")];
                                   XElem (s2n "other") [] []]]]]
  = Err (DE_MissingSignals [s2n "X"]).
Proof. vm_compute. reflexivity. Qed.

Example ex_load_out_of_range : load_test ex_file1 5 = Err (LE_IndexOutOfBounds 5 1).
Proof. vm_compute. reflexivity. Qed.

Example ex_load_unknown_name :
  load_test_by_name ex_file1 (s2n "second") = Err (LE_TestNotFound (s2n "second")).
Proof. vm_compute. reflexivity. Qed.

Example ex_load_by_name :
  load_test_by_name ex_file1 (s2n "first") = load_test ex_file1 0 /\
  exists tc, load_test ex_file1 0 = Ok tc /\ tc_signals tc = df_signals ex_file1.
Proof.
  split; [reflexivity|].
  destruct (load_test ex_file1 0) as [tc| | |] eqn:E; vm_compute in E; try discriminate.
  exists tc. split; [reflexivity|]. inversion E. reflexivity.
Qed.

(* number parsing follows Rust's from_str *)
Example ex_numbers :
  parse_usize (s2n "+16") = Some 16%N /\ parse_usize (s2n "-1") = None /\
  parse_usize (s2n "") = None /\ parse_usize (s2n "+") = None /\ parse_usize (s2n " 1") = None /\
  parse_usize (s2n "18446744073709551615") = Some 18446744073709551615%N /\
  parse_usize (s2n "18446744073709551616") = None /\
  parse_i64 (s2n "-9223372036854775808") = Some (-9223372036854775808)%Z /\
  parse_i64 (s2n "9223372036854775808") = None /\ parse_i64 (s2n "+7") = Some 7%Z /\
  parse_i64 (s2n "-") = None /\ parse_i64 (s2n "0x10") = None.
Proof. vm_compute. repeat split. Qed.

(* ================================================================== assumptions *)

Print Assumptions C16_total.
Print Assumptions C16_never_oof.
Print Assumptions C16_faithful.
Print Assumptions C16_load_test.
Print Assumptions C16_by_name_first.
Print Assumptions C16_by_name_spec.
Print Assumptions C16_bidirectional_iff.
Print Assumptions C16_signals_kept.
Print Assumptions C16_empty_test.
Print Assumptions C16_missing_signals.
Print Assumptions make_bidirectional_perm.
