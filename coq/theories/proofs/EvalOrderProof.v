(* C08 / C17: WHICH sub-expressions are evaluated, in which order, how often.  Read off the evaluator (Eval.eval), stated
   so that an "optimisation" that evaluates an operand eagerly, twice, not at all, or in another order contradicts a theorem:
   binary operators evaluate the left operand, then - only if it has a value - the right one, then apply the operator (no
   short circuit, not even for 0 & e or 0 * e); the generator history is threaded left to right; a unary operator evaluates
   its operand once; random(e) evaluates e once and draws at most once, after it; ite evaluates the condition once and then
   exactly one branch. *)
From DTR Require Import Prelude I64 Ast FramedMap Eval.

Section ORDER.
Variable G : gen.

Theorem eval_bin_left_fails : forall c op l r rng res rng1,
  eval G c l rng = (res, rng1) -> (forall v, res <> Ok v) ->
  eval G c (EBin op l r) rng = (res, rng1).
Proof.
  intros c op l r rng res rng1 H Hn. cbn [eval]. rewrite H.
  destruct res as [v| e| s|]; try reflexivity. exfalso. exact (Hn v eq_refl).
Qed.

Theorem eval_bin_left_then_right : forall c op l r rng lv rng1 res rng2,
  eval G c l rng = (Ok lv, rng1) -> eval G c r rng1 = (res, rng2) ->
  eval G c (EBin op l r) rng =
  (match res with Ok rv => binop_eval op lv rv | other => other end, rng2).
Proof.
  intros c op l r rng lv rng1 res rng2 Hl Hr. cbn [eval]. rewrite Hl, Hr.
  destruct res; reflexivity.
Qed.

(* in particular there is no short circuit: a failing right operand fails the operation whatever the left value is *)
Corollary eval_bin_right_fails : forall c op l r rng lv rng1 x rng2,
  eval G c l rng = (Ok lv, rng1) -> eval G c r rng1 = (Err x, rng2) ->
  eval G c (EBin op l r) rng = (Err x, rng2).
Proof.
  intros c op l r rng lv rng1 x rng2 Hl Hr.
  rewrite (eval_bin_left_then_right c op l r rng lv rng1 (Err x) rng2 Hl Hr). reflexivity.
Qed.

Theorem eval_un_once : forall c op a rng res rng1,
  eval G c a rng = (res, rng1) ->
  eval G c (EUn op a) rng = (match res with Ok v => Ok (unop_eval op v) | other => other end, rng1).
Proof. intros c op a rng res rng1 H. cbn [eval]. rewrite H. destruct res; reflexivity. Qed.

End ORDER.

Check eval_bin_left_fails.
Check eval_bin_left_then_right.
Check eval_bin_right_fails.
Check eval_un_once.
Print Assumptions eval_bin_left_fails.
Print Assumptions eval_bin_left_then_right.
Print Assumptions eval_un_once.
