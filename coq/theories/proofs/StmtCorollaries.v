(* Corollaries of the refinement theorem and of the FramedMap abstraction, phrased on the
   concrete evaluation context of Eval.v / Iter.v: the individual sentences of C01 and C18. *)
From DTR Require Import Prelude I64 Ast FramedMap Parser Bind Eval Stmt StmtSpec Iter.
From DTR.proofs Require Import FramedMapProof StmtRefine.
Local Open Scope Z_scope.

(* ------------------------------------------------------------------ the concrete instance *)

Section CONCRETE.
Variable G : gen.
Variable H : Type.
Variable handler : H -> list dentry * N -> ctx -> (H * ctx) + H.

(* the sequential reading over the real evaluation context *)
Definition cexec := exec ctx xfail (list dentry) (lift_eval G) (lift_row_eval G) ctx_set loop_var_value
                         ctx_push_frame ctx_pop_frame ctx_reset_random_seed H handler.
(* the model of StmtIterator::next_with_context, driven by a caller that hands every row to handler *)
Definition cdrain := drain ctx xfail (list dentry) (lift_eval G) (lift_row_eval G) ctx_set loop_var_value
                           ctx_push_frame ctx_pop_frame ctx_reset_random_seed H handler.

(* Iter.snext, the function that get_row calls, IS the generic machine at this instance *)
Lemma snext_is_instance : forall fuel it c,
  snext G fuel it c = next ctx xfail (list dentry) (lift_eval G) (lift_row_eval G) ctx_set loop_var_value
                           ctx_push_frame ctx_pop_frame ctx_reset_random_seed fuel it c.
Proof. reflexivity. Qed.

Theorem concrete_iterator_refines : forall prog c h fuel o,
  cexec fuel prog c h = o -> o <> OutOfFuel -> exists fuel', cdrain fuel' (SI prog Iterate) c h = o.
Proof. intros. eapply iterator_refines_sequential_reading; eauto. Qed.

Theorem concrete_iterator_refined_by : forall prog c h fuel o,
  cdrain fuel (SI prog Iterate) c h = o -> o <> OutOfFuel -> exists fuel', cexec fuel' prog c h = o.
Proof. intros. eapply sequential_reading_refines_iterator; eauto. Qed.

(* a loop whose bound evaluates to m <= 0 does not run its body at all, and opens no frame *)
Theorem loop_not_entered : forall f v e body r c h c1 m,
  lift_eval G c e = (c1, inl m) -> m <= 0 ->
  cexec (S f) (SLoop v e body :: r) c h = cexec f r c1 h.
Proof.
  intros f v e body r c h c1 m He Hm. unfold cexec. rewrite exec_S. rewrite He.
  destruct (Z.ltb_spec 0 m); [lia|reflexivity].
Qed.

(* a loop with a positive bound: the bound is evaluated ONCE (m is a value from here on), a frame
   is opened, the counter starts at 0, and the frame is closed when the passes are over *)
Theorem loop_entered : forall f v e body r c h c1 m,
  lift_eval G c e = (c1, inl m) -> 0 < m ->
  cexec (S f) (SLoop v e body :: r) c h =
  match for_loop ctx xfail (list dentry) (lift_eval G) (lift_row_eval G) ctx_set loop_var_value
                 ctx_push_frame ctx_pop_frame ctx_reset_random_seed H handler
                 f v m body (ctx_set (ctx_push_frame c1) v 0) h with
  | Fin c2 h2 => cexec f r (ctx_pop_frame c2) h2
  | Stop h2 => Stop h2
  | Fail x c2 h2 => Fail x c2 h2
  | Crash s => Crash s
  | OutOfFuel => OutOfFuel
  end.
Proof.
  intros f v e body r c h c1 m He Hm. unfold cexec. rewrite exec_S. rewrite He.
  destruct (Z.ltb_spec 0 m); [|lia].
  destruct (for_loop _ _ _ _ _ _ _ _ _ _ _ _ _ _ _ _ _ _); reflexivity.
Qed.

(* `while` whose condition evaluates to 0: nothing runs, no frame is opened *)
Theorem while_not_entered : forall f e body r c h c1,
  lift_eval G c e = (c1, inl 0) ->
  cexec (S (S f)) (SWhile e body :: r) c h = cexec (S f) r c1 h.
Proof.
  intros f e body r c h c1 He. unfold cexec. rewrite exec_S, while_S, He. reflexivity.
Qed.

End CONCRETE.

(* ------------------------------------------------------------------ bits(k, e): most significant bit first *)

Lemma bits_entries_spec : forall k v,
  bits_entries k v = map (fun i => DNum (Z.land (Z.shiftr v (Z.of_nat i)) 1)) (rev (seq 0 k)).
Proof.
  induction k as [|k IH]; intros v; [reflexivity|].
  rewrite seq_S, rev_app_distr. simpl. rewrite IH. reflexivity.
Qed.

Lemma bits_entries_length : forall k v, length (bits_entries k v) = k.
Proof. induction k as [|k IH]; intros v; simpl; [reflexivity|rewrite IH; reflexivity]. Qed.

(* entry j (0-based, left to right) of bits(k, e) is bit k-1-j of the value *)
Theorem bits_msb_first : forall k v j, (j < k)%nat ->
  nth_error (bits_entries k v) j = Some (DNum (Z.land (Z.shiftr v (Z.of_nat (k - 1 - j))) 1)).
Proof.
  induction k as [|k IH]; intros v j Hj; [lia|].
  destruct j as [|j].
  - replace (S k - 1 - 0)%nat with k by lia. reflexivity.
  - replace (S k - 1 - S j)%nat with (k - 1 - j)%nat by lia.
    cbn [bits_entries nth_error]. apply IH. lia.
Qed.

(* each bit entry is 0 or 1 *)
Theorem bits_are_bits : forall k v d, In d (bits_entries k v) -> d = DNum 0 \/ d = DNum 1.
Proof.
  induction k as [|k IH]; intros v d Hd; simpl in Hd; [contradiction|].
  destruct Hd as [<- | Hd]; [|eauto].
  rewrite Z.land_ones with (n := 1) by lia.
  change (2 ^ 1) with 2.
  pose proof (Z.mod_pos_bound (Z.shiftr v (Z.of_nat k)) 2 ltac:(lia)) as Hb.
  assert (E : Z.shiftr v (Z.of_nat k) mod 2 = 0 \/ Z.shiftr v (Z.of_nat k) mod 2 = 1) by lia.
  destruct E as [-> | ->]; auto.
Qed.

(* ------------------------------------------------------------------ scoping: the variable map as a stack of frames *)

Definition env (c : ctx) : frames := abs (cvars c).
Definition ctx_wf (c : ctx) : Prop := wf (cvars c).

Lemma ctx_new_wf : forall outs, ctx_wf (ctx_new outs) /\ env (ctx_new outs) = [[]].
Proof. intros. split; [apply wf_new | apply abs_new]. Qed.

(* `let` binds or rebinds in the innermost frame *)
Theorem let_binds_innermost : forall c x v, ctx_wf c ->
  ctx_wf (ctx_set c x v) /\ env (ctx_set c x v) = set_frames (env c) x v.
Proof. intros c x v Hw. split; [apply wf_set; exact Hw | apply abs_set; exact Hw]. Qed.

(* entering a loop opens an empty innermost frame; leaving it drops that frame *)
Theorem loop_opens_frame : forall c, ctx_wf c ->
  ctx_wf (ctx_push_frame c) /\ env (ctx_push_frame c) = [] :: env c.
Proof. intros c Hw. split; [apply wf_push; exact Hw | apply abs_push; exact Hw]. Qed.

Theorem loop_end_drops_frame : forall c, ctx_wf c ->
  ctx_wf (ctx_pop_frame c) /\ env (ctx_pop_frame c) = pop_frames (env c).
Proof. intros c Hw. split; [apply wf_pop; exact Hw | apply abs_pop; exact Hw]. Qed.

(* everything bound inside the loop's frame disappears with it, uncovering what it shadowed *)
Theorem loop_scope_is_dropped : forall c (binds : list (name * Z)), ctx_wf c ->
  env (ctx_pop_frame (fold_left (fun acc kv => ctx_set acc (fst kv) (snd kv)) binds (ctx_push_frame c))) = env c.
Proof.
  intros c binds Hw. unfold env.
  assert (E : forall l c0, cvars (fold_left (fun acc kv => ctx_set acc (fst kv) (snd kv)) l c0)
                          = fold_left (fun acc kv => fm_set acc (fst kv) (snd kv)) l (cvars c0)).
  { induction l as [|kv l IH]; intros c0; simpl; [reflexivity|]. rewrite IH. reflexivity. }
  simpl. rewrite E. simpl. apply pop_push_sets. exact Hw.
Qed.

(* a variable read sees the innermost binding *)
Theorem variable_lookup_innermost : forall c x, ctx_wf c -> fm_get (cvars c) x = lookup (env c) x.
Proof. intros c x Hw. apply get_abs. exact Hw. Qed.

(* neither outputs nor the generator are part of the environment *)
Theorem set_outputs_keeps_env : forall c outs, env (ctx_set_outputs c outs) = env c.
Proof. reflexivity. Qed.
Theorem reset_keeps_env : forall c, env (ctx_reset_random_seed c) = env c.
Proof. reflexivity. Qed.

(* ------------------------------------------------------------------ C18: vars() *)

(* vars() is the environment with the innermost binding winning, as a finite map *)
Theorem vars_is_innermost_wins : forall c x, ctx_wf c ->
  assoc x (ctx_vars c) = lookup (env c) x.
Proof. intros c x Hw. apply flatten_abs. exact Hw. Qed.

Theorem vars_keys_distinct : forall c, NoDup (map fst (ctx_vars c)).
Proof. intros c. apply flatten_nodup. Qed.

(* vars() agrees with what a variable read returns *)
Theorem vars_agrees_with_reads : forall c x, ctx_wf c -> assoc x (ctx_vars c) = fm_get (cvars c) x.
Proof. intros c x Hw. rewrite vars_is_innermost_wins, variable_lookup_innermost; auto. Qed.

(* device outputs never appear in vars(): it does not depend on them *)
Theorem vars_ignores_outputs : forall c outs, ctx_vars (ctx_set_outputs c outs) = ctx_vars c.
Proof. reflexivity. Qed.
