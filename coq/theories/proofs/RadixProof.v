(* Integer literals: "decimal, 0x/0X hexadecimal (digits in either letter case), 0b/0B
   binary, or octal when they start with 0"; a literal that does not fit in a signed
   64-bit integer is an error.
   Part 1: Parser.from_str_radix computes the positional value of a digit string.
   Part 2: Parser.parse_number converts a number token as literal_value says.
   Part 3: Lexer.lex_one makes each spelling ONE token of the right kind, and its
           literal_value is the positional value of its digits (or None from 2^63 on). *)
From DTR Require Import Prelude Ast Lexer Parser.
Open Scope N_scope.

Local Arguments N.add : simpl never.
Local Arguments N.sub : simpl never.
Local Arguments N.mul : simpl never.
Local Arguments N.pow : simpl never.
Local Arguments N.ltb : simpl never.
Local Arguments N.leb : simpl never.
Local Arguments N.eqb : simpl never.

(* ------------------------------------------------------------------ spelling and value *)

(* positional value of digit VALUES, most significant first *)
Definition value (radix : N) (ds : list N) : N :=
  fold_left (fun acc d => acc * radix + d) ds 0.

(* '0'..'9', then 'A'.. or 'a'.. *)
Definition digit_char (upper : bool) (d : N) : N :=
  if d <? 10 then 48 + d else (if upper then 55 else 87) + d.

(* casing is as long as ds: one letter-case choice per digit *)
Definition spell (casing : list bool) (ds : list N) : list N :=
  map (fun p => digit_char (fst p) (snd p)) (combine casing ds).

Lemma two63 : 2 ^ 63 = 9223372036854775808.
Proof. reflexivity. Qed.

Lemma spell_cons : forall u casing d ds,
  spell (u :: casing) (d :: ds) = digit_char u d :: spell casing ds.
Proof. reflexivity. Qed.

Lemma spell_length : forall casing ds, length casing = length ds ->
  length (spell casing ds) = length ds.
Proof.
  intros casing ds H. unfold spell. rewrite map_length, combine_length, H.
  apply Nat.min_id.
Qed.

(* a tactic that decides all the comparisons in sight and leaves linear arithmetic *)
Ltac cmp_cases :=
  repeat match goal with
  | |- context [?a <=? ?b] => destruct (N.leb_spec a b)
  | |- context [?a <? ?b] => destruct (N.ltb_spec a b)
  | |- context [?a =? ?b] => destruct (N.eqb_spec a b)
  end.

Lemma digit_value_digit_char : forall u d, d < 36 -> digit_value (digit_char u d) = Some d.
Proof.
  intros u d Hd. unfold digit_value, digit_char, in_range.
  destruct u; cmp_cases; cbn [andb]; try lia; f_equal; lia.
Qed.

Lemma digits_value_spell : forall radix casing ds acc,
  radix <= 36 -> length casing = length ds -> Forall (fun d => d < radix) ds ->
  digits_value radix acc (spell casing ds) = Some (fold_left (fun a d => a * radix + d) ds acc).
Proof.
  intros radix casing ds. revert casing.
  induction ds as [|d ds IH]; intros casing acc Hr Hlen Hds.
  - destruct casing; reflexivity.
  - destruct casing as [|u casing]; [discriminate Hlen|].
    inversion Hds as [|? ? Hd Hds']; subst.
    rewrite spell_cons. cbn [digits_value fold_left].
    rewrite digit_value_digit_char by lia.
    destruct (N.ltb_spec d radix) as [_|Hge]; [|lia].
    apply IH; auto.
Qed.

(* from_str_radix on a well-formed digit string: its positional value, or None from 2^63 on *)
Theorem radix_value : forall radix casing ds,
  2 <= radix <= 36 -> ds <> [] -> length casing = length ds ->
  Forall (fun d => d < radix) ds ->
  from_str_radix (spell casing ds) radix
  = if value radix ds <? 2 ^ 63 then Some (Z.of_N (value radix ds)) else None.
Proof.
  intros radix casing ds Hr Hne Hlen Hds.
  rewrite two63. unfold from_str_radix.
  rewrite (digits_value_spell radix casing ds 0) by (auto; lia).
  fold (value radix ds).
  destruct ds as [|d ds]; [contradiction|].
  destruct casing as [|u casing]; [discriminate Hlen|].
  rewrite spell_cons. reflexivity.
Qed.

Lemma digits_value_bad : forall radix pre c post acc,
  (digit_value c = None \/ exists d, digit_value c = Some d /\ radix <= d) ->
  digits_value radix acc (pre ++ c :: post) = None.
Proof.
  intros radix pre c post. induction pre as [|x pre IH]; intros acc Hbad.
  - cbn [app digits_value]. destruct Hbad as [Hn|(d & Hd & Hge)].
    + rewrite Hn. reflexivity.
    + rewrite Hd. destruct (N.ltb_spec d radix); [lia|reflexivity].
  - cbn [app digits_value]. destruct (digit_value x) as [dx|]; [|reflexivity].
    destruct (dx <? radix); [|reflexivity]. apply IH. exact Hbad.
Qed.

(* one character that is not a digit of the radix, anywhere, makes the conversion fail *)
Theorem radix_bad_digit : forall radix pre c post,
  (digit_value c = None \/ exists d, digit_value c = Some d /\ radix <= d) ->
  from_str_radix (pre ++ c :: post) radix = None.
Proof.
  intros radix pre c post Hbad. unfold from_str_radix.
  rewrite digits_value_bad by exact Hbad.
  destruct (pre ++ c :: post); reflexivity.
Qed.

(* the empty digit string is an error too *)
Lemma radix_empty : forall radix, from_str_radix [] radix = None.
Proof. reflexivity. Qed.

(* which characters are digits: exactly 0-9, a-z, A-Z with the expected values *)
Lemma digit_value_spec : forall c d, digit_value c = Some d <->
  (48 <= c <= 57 /\ d = c - 48) \/ (97 <= c <= 122 /\ d = c - 87) \/ (65 <= c <= 90 /\ d = c - 55).
Proof.
  intros c d. unfold digit_value, in_range. cmp_cases; cbn [andb]; split; intros Hx;
    try discriminate Hx; try (injection Hx as <-); try lia;
    try (f_equal; lia).
Qed.

(* ------------------------------------------------------------------ parse_number *)

Definition is_number_kind (k : tk) : bool :=
  match k with TDecInt | THexInt | TOctInt | TBinInt => true | _ => false end.

(* exactly the conversion parse_number performs on the token's kind and text *)
Definition literal_value (t : token) : option Z :=
  match tkind t with
  | TDecInt => from_str_radix (ttext t) 10
  | THexInt => from_str_radix (skipn 2 (ttext t)) 16
  | TOctInt => from_str_radix (ttext t) 8
  | TBinInt => from_str_radix (skipn 2 (ttext t)) 2
  | _ => None
  end.

Lemma parse_number_literal_value : forall input_len st t r,
  toks st = t :: r -> is_number_kind (tkind t) = true ->
  parse_number input_len st =
  match literal_value t with
  | Some n => Ok (n, set_toks st r (pline st))
  | None => Err {| pe_kind := PE_NumberParseError; pe_at := [tspan t] |}
  end.
Proof.
  intros input_len st t r Ht Hk.
  unfold parse_number, bind, get, literal_value. rewrite Ht.
  destruct (tkind t); try discriminate Hk; cbn [tk_beq];
    match goal with |- context [from_str_radix ?s ?x] => destruct (from_str_radix s x) end;
    reflexivity.
Qed.

(* the other cases of parse_number, for completeness *)
Lemma parse_number_not_a_number : forall input_len st t r,
  toks st = t :: r -> is_number_kind (tkind t) = false ->
  parse_number input_len st = Err {| pe_kind := PE_ExpectedNumber (tkind t); pe_at := [tspan t] |}.
Proof.
  intros input_len st t r Ht Hk.
  unfold parse_number, bind, get. rewrite Ht.
  destruct (tkind t); try discriminate Hk; reflexivity.
Qed.

Lemma parse_number_eof : forall input_len st, toks st = [] ->
  parse_number input_len st = Err {| pe_kind := PE_UnexpectedEof; pe_at := [(input_len, input_len)] |}.
Proof. intros input_len st Ht. unfold parse_number, bind, get. rewrite Ht. reflexivity. Qed.

(* ------------------------------------------------------------------ the scanner *)

(* does the text start with a character of class p? *)
Definition starts_with (p : N -> bool) (s : text) : bool :=
  match s with c :: _ => p c | [] => false end.

Lemma starts_with_false : forall p s,
  starts_with p s = false <-> match s with [] => True | c :: _ => p c = false end.
Proof. intros p [|c s]; simpl; tauto. Qed.

Lemma span_while_app : forall p w stop,
  forallb p w = true -> starts_with p stop = false ->
  span_while p (w ++ stop) = (w, stop).
Proof.
  intros p w stop. induction w as [|c w IH]; intros Hw Hs.
  - cbn [app]. destruct stop as [|c s]; [reflexivity|].
    cbn [starts_with] in Hs. cbn [span_while]. rewrite Hs. reflexivity.
  - cbn [forallb] in Hw. apply andb_true_iff in Hw. destruct Hw as [Hc Hw].
    cbn [app span_while]. rewrite Hc, IH by assumption. reflexivity.
Qed.

(* maximal munch: what span_while leaves does not start with a character of the class *)
Lemma span_while_rest : forall p s a b, span_while p s = (a, b) -> starts_with p b = false.
Proof.
  intros p s. induction s as [|c s IH]; intros a b H.
  - injection H as <- <-. reflexivity.
  - cbn [span_while] in H. destruct (p c) eqn:Hc.
    + destruct (span_while p s) as [a' b'] eqn:E. injection H as <- <-. eapply IH. reflexivity.
    + injection H as <- <-. exact Hc.
Qed.

(* nothing taken: the text does not start with a character of the class *)
Lemma span_while_nil : forall p s b, span_while p s = ([], b) -> starts_with p s = false.
Proof.
  intros p [|c s] b H; [reflexivity|]. cbn [starts_with]. cbn [span_while] in H.
  destruct (p c); [|reflexivity]. destruct (span_while p s); discriminate H.
Qed.

Lemma forallb_spell : forall (p : N -> bool) bound casing ds,
  (forall u d, d < bound -> p (digit_char u d) = true) ->
  Forall (fun d => d < bound) ds ->
  forallb p (spell casing ds) = true.
Proof.
  intros p bound casing ds Hp. revert casing.
  induction ds as [|d ds IH]; intros casing Hds.
  - destruct casing; reflexivity.
  - destruct casing as [|u casing]; [reflexivity|].
    inversion Hds; subst. rewrite spell_cons. cbn [forallb].
    rewrite Hp by assumption. apply IH. assumption.
Qed.

Lemma dec_digit_char : forall u d, d < 10 -> is_dec_digit (digit_char u d) = true.
Proof. intros u d H. unfold digit_char. destruct (N.ltb_spec d 10); [|lia]. unfold is_dec_digit, in_range. cmp_cases; cbn [andb]; try lia; reflexivity. Qed.
Lemma oct_digit_char : forall u d, d < 8 -> is_oct_digit (digit_char u d) = true.
Proof. intros u d H. unfold digit_char. destruct (N.ltb_spec d 10); [|lia]. unfold is_oct_digit, in_range. cmp_cases; cbn [andb]; try lia; reflexivity. Qed.
Lemma bin_digit_char : forall u d, d < 2 -> is_bin_digit (digit_char u d) = true.
Proof. intros u d H. unfold digit_char. destruct (N.ltb_spec d 10); [|lia]. unfold is_bin_digit, in_range. cmp_cases; cbn [andb]; try lia; reflexivity. Qed.
Lemma hex_digit_char : forall u d, d < 16 -> is_hex_digit (digit_char u d) = true.
Proof.
  intros u d H. unfold digit_char. destruct (N.ltb_spec d 10); destruct u;
    unfold is_hex_digit, in_range; cmp_cases; cbn [andb orb]; try lia; reflexivity.
Qed.

(* a decimal digit's spelling does not depend on the casing *)
Lemma digit_char_small : forall u d, d < 10 -> digit_char u d = 48 + d.
Proof. intros u d H. unfold digit_char. destruct (N.ltb_spec d 10); [reflexivity|lia]. Qed.

(* lex_one on a text starting with 1-9 *)
Lemma lex_one_dec_start : forall c r, is_dec_start c = true ->
  lex_one (c :: r) = let (w, r') := span_while is_dec_digit r in Some (Some TDecInt, c :: w, r').
Proof.
  intros c r H. unfold is_dec_start, in_range in H. apply andb_true_iff in H.
  destruct H as [H1 H2]. apply N.leb_le in H1. apply N.leb_le in H2.
  assert (Hws : is_ws c = false).
  { unfold is_ws. cmp_cases; try lia; reflexivity. }
  assert (Hh : (c =? 35) = false) by (apply N.eqb_neq; lia).
  assert (Hnl : is_nl c = false) by (apply N.eqb_neq; lia).
  assert (Hid : is_ident_start c = false).
  { unfold is_ident_start, in_range. cmp_cases; cbn [andb orb]; try lia; reflexivity. }
  assert (Hds : is_dec_start c = true).
  { unfold is_dec_start, in_range. cmp_cases; cbn [andb]; try lia; reflexivity. }
  unfold lex_one. rewrite Hws, Hh, Hnl, Hid, Hds. reflexivity.
Qed.

(* lex_one on a text starting with 0 *)
Lemma lex_one_zero : forall r,
  lex_one (48 :: r) =
    let oct := let (w, r') := span_while is_oct_digit r in Some (Some TOctInt, 48 :: w, r') in
    match r with
    | x :: r1 =>
      if (x =? 120) || (x =? 88) then
        let (h, r2) := span_while is_hex_digit r1 in
        match h with [] => oct | _ => Some (Some THexInt, 48 :: x :: h, r2) end
      else if (x =? 98) || (x =? 66) then
        let (h, r2) := span_while is_bin_digit r1 in
        match h with [] => oct | _ => Some (Some TBinInt, 48 :: x :: h, r2) end
      else oct
    | [] => oct
    end.
Proof. intros r. reflexivity. Qed.

(* ---- decimal: 1-9 then decimal digits *)
Theorem lex_decimal : forall casing ds stop sp,
  ds <> [] -> length casing = length ds -> Forall (fun d => d < 10) ds -> hd 0 ds <> 0 ->
  starts_with is_dec_digit stop = false ->
  lex_one (spell casing ds ++ stop) = Some (Some TDecInt, spell casing ds, stop)
  /\ literal_value {| tkind := TDecInt; tspan := sp; ttext := spell casing ds |}
     = (if value 10 ds <? 2 ^ 63 then Some (Z.of_N (value 10 ds)) else None).
Proof.
  intros casing ds stop sp Hne Hlen Hds Hhd Hstop. split.
  - destruct ds as [|d ds]; [contradiction|].
    destruct casing as [|u casing]; [discriminate Hlen|].
    inversion Hds as [|? ? Hd Hds']; subst. cbn [hd] in Hhd.
    rewrite spell_cons. cbn [app].
    rewrite lex_one_dec_start.
    + rewrite span_while_app; [reflexivity| |exact Hstop].
      apply (forallb_spell is_dec_digit 10); [apply dec_digit_char|exact Hds'].
    + rewrite digit_char_small by exact Hd. unfold is_dec_start, in_range.
      cmp_cases; cbn [andb]; try lia; reflexivity.
  - unfold literal_value. cbn [tkind ttext].
    apply radix_value; auto. lia.
Qed.

(* ---- hexadecimal: 0x / 0X then hex digits in either case *)
Theorem lex_hex : forall x casing ds stop sp,
  x = 120 \/ x = 88 ->
  ds <> [] -> length casing = length ds -> Forall (fun d => d < 16) ds ->
  starts_with is_hex_digit stop = false ->
  lex_one (48 :: x :: spell casing ds ++ stop) = Some (Some THexInt, 48 :: x :: spell casing ds, stop)
  /\ literal_value {| tkind := THexInt; tspan := sp; ttext := 48 :: x :: spell casing ds |}
     = (if value 16 ds <? 2 ^ 63 then Some (Z.of_N (value 16 ds)) else None).
Proof.
  intros x casing ds stop sp Hx Hne Hlen Hds Hstop. split.
  - rewrite lex_one_zero. cbv zeta.
    replace ((x =? 120) || (x =? 88)) with true by (destruct Hx; subst; reflexivity).
    rewrite span_while_app; [| |exact Hstop].
    + destruct ds as [|d ds]; [contradiction|].
      destruct casing as [|u casing]; [discriminate Hlen|].
      rewrite spell_cons. reflexivity.
    + apply (forallb_spell is_hex_digit 16); [apply hex_digit_char|exact Hds].
  - unfold literal_value. cbn [tkind ttext skipn].
    apply radix_value; auto. lia.
Qed.

(* ---- binary: 0b / 0B then binary digits *)
Theorem lex_bin : forall x casing ds stop sp,
  x = 98 \/ x = 66 ->
  ds <> [] -> length casing = length ds -> Forall (fun d => d < 2) ds ->
  starts_with is_bin_digit stop = false ->
  lex_one (48 :: x :: spell casing ds ++ stop) = Some (Some TBinInt, 48 :: x :: spell casing ds, stop)
  /\ literal_value {| tkind := TBinInt; tspan := sp; ttext := 48 :: x :: spell casing ds |}
     = (if value 2 ds <? 2 ^ 63 then Some (Z.of_N (value 2 ds)) else None).
Proof.
  intros x casing ds stop sp Hx Hne Hlen Hds Hstop. split.
  - rewrite lex_one_zero. cbv zeta.
    replace ((x =? 120) || (x =? 88)) with false by (destruct Hx; subst; reflexivity).
    replace ((x =? 98) || (x =? 66)) with true by (destruct Hx; subst; reflexivity).
    rewrite span_while_app; [| |exact Hstop].
    + destruct ds as [|d ds]; [contradiction|].
      destruct casing as [|u casing]; [discriminate Hlen|].
      rewrite spell_cons. reflexivity.
    + apply (forallb_spell is_bin_digit 2); [apply bin_digit_char|exact Hds].
  - unfold literal_value. cbn [tkind ttext skipn].
    apply radix_value; auto. lia.
Qed.

(* ---- octal: 0 then octal digits (possibly none: the literal 0 is an octal token) *)

(* after a lone 0: an x/X followed by a hex digit, or a b/B followed by a binary digit,
   continues the token as a hex / binary literal *)
Definition radix_prefix_follows (stop : text) : bool :=
  match stop with
  | x :: s' => (((x =? 120) || (x =? 88)) && starts_with is_hex_digit s')
               || (((x =? 98) || (x =? 66)) && starts_with is_bin_digit s')
  | [] => false
  end.

Lemma value_leading_zero : forall radix ds, value radix (0 :: ds) = value radix ds.
Proof. intros radix ds. unfold value. cbn [fold_left]. reflexivity. Qed.

Theorem lex_octal : forall casing ds stop sp,
  length casing = length ds -> Forall (fun d => d < 8) ds ->
  starts_with is_oct_digit stop = false ->
  (ds = [] -> radix_prefix_follows stop = false) ->
  lex_one (48 :: spell casing ds ++ stop) = Some (Some TOctInt, 48 :: spell casing ds, stop)
  /\ literal_value {| tkind := TOctInt; tspan := sp; ttext := 48 :: spell casing ds |}
     = (if value 8 ds <? 2 ^ 63 then Some (Z.of_N (value 8 ds)) else None).
Proof.
  intros casing ds stop sp Hlen Hds Hstop Hpre. split.
  - rewrite lex_one_zero. cbv zeta.
    assert (Hoct : span_while is_oct_digit (spell casing ds ++ stop) = (spell casing ds, stop)).
    { apply span_while_app; [|exact Hstop].
      apply (forallb_spell is_oct_digit 8); [apply oct_digit_char|exact Hds]. }
    rewrite Hoct.
    destruct ds as [|d ds].
    + (* the literal is "0": stop decides *)
      destruct casing; [|discriminate Hlen]. cbn [spell combine map app] in *.
      specialize (Hpre eq_refl).
      destruct stop as [|x s']; [reflexivity|].
      cbn [radix_prefix_follows] in Hpre. apply orb_false_iff in Hpre. destruct Hpre as [Hh Hb].
      destruct ((x =? 120) || (x =? 88)) eqn:Ex.
      * cbn [andb] in Hh. destruct (span_while is_hex_digit s') as [h r2] eqn:Eh.
        destruct h as [|h0 h]; [reflexivity|exfalso].
        destruct s' as [|c0 s'']; [discriminate Eh|].
        cbn [starts_with] in Hh. cbn [span_while] in Eh. rewrite Hh in Eh. discriminate Eh.
      * destruct ((x =? 98) || (x =? 66)) eqn:Eb; [|reflexivity].
        cbn [andb] in Hb. destruct (span_while is_bin_digit s') as [h r2] eqn:Eh.
        destruct h as [|h0 h]; [reflexivity|exfalso].
        destruct s' as [|c0 s'']; [discriminate Eh|].
        cbn [starts_with] in Hb. cbn [span_while] in Eh. rewrite Hb in Eh. discriminate Eh.
    + (* the character after the 0 is an octal digit, so not x/X/b/B *)
      destruct casing as [|u casing]; [discriminate Hlen|].
      inversion Hds as [|? ? Hd _]; subst.
      rewrite spell_cons. cbn [app].
      assert (Ec : digit_char u d = 48 + d) by (apply digit_char_small; lia).
      replace ((digit_char u d =? 120) || (digit_char u d =? 88)) with false
        by (rewrite Ec; cmp_cases; try lia; reflexivity).
      replace ((digit_char u d =? 98) || (digit_char u d =? 66)) with false
        by (rewrite Ec; cmp_cases; try lia; reflexivity).
      reflexivity.
  - unfold literal_value. cbn [tkind ttext].
    change (48 :: spell casing ds) with (spell (false :: casing) (0 :: ds)).
    rewrite <- (value_leading_zero 8 ds).
    apply radix_value.
    + lia.
    + discriminate.
    + cbn [length]. congruence.
    + constructor; [lia|exact Hds].
Qed.

(* ---- the side conditions on stop are necessary (they are as weak as is true) *)

Theorem lex_decimal_stop_necessary : forall c w stop k,
  is_dec_start c = true ->
  lex_one (c :: w ++ stop) = Some (k, c :: w, stop) -> starts_with is_dec_digit stop = false.
Proof.
  intros c w stop k Hc H. rewrite lex_one_dec_start in H by exact Hc.
  destruct (span_while is_dec_digit (w ++ stop)) as [a b] eqn:E.
  injection H as _ _ <-. eapply span_while_rest. exact E.
Qed.

Theorem lex_hex_stop_necessary : forall x w stop,
  lex_one (48 :: x :: w ++ stop) = Some (Some THexInt, 48 :: x :: w, stop) ->
  starts_with is_hex_digit stop = false.
Proof.
  intros x w stop H. rewrite lex_one_zero in H. cbv zeta in H.
  destruct (span_while is_oct_digit (x :: w ++ stop)) as [ao bo].
  destruct ((x =? 120) || (x =? 88)).
  - destruct (span_while is_hex_digit (w ++ stop)) as [a b] eqn:E.
    destruct a; [discriminate H|]. injection H as _ <-. eapply span_while_rest. exact E.
  - destruct ((x =? 98) || (x =? 66)); [|discriminate H].
    destruct (span_while is_bin_digit (w ++ stop)) as [a b]. destruct a; discriminate H.
Qed.

Theorem lex_bin_stop_necessary : forall x w stop,
  lex_one (48 :: x :: w ++ stop) = Some (Some TBinInt, 48 :: x :: w, stop) ->
  starts_with is_bin_digit stop = false.
Proof.
  intros x w stop H. rewrite lex_one_zero in H. cbv zeta in H.
  destruct (span_while is_oct_digit (x :: w ++ stop)) as [ao bo].
  destruct ((x =? 120) || (x =? 88)).
  - destruct (span_while is_hex_digit (w ++ stop)) as [a b]. destruct a; discriminate H.
  - destruct ((x =? 98) || (x =? 66)); [|discriminate H].
    destruct (span_while is_bin_digit (w ++ stop)) as [a b] eqn:E.
    destruct a; [discriminate H|]. injection H as _ <-. eapply span_while_rest. exact E.
Qed.

Theorem lex_octal_stop_necessary : forall w stop,
  lex_one (48 :: w ++ stop) = Some (Some TOctInt, 48 :: w, stop) ->
  starts_with is_oct_digit stop = false /\ (w = [] -> radix_prefix_follows stop = false).
Proof.
  intros w stop H. rewrite lex_one_zero in H. cbv zeta in H.
  destruct (span_while is_oct_digit (w ++ stop)) as [ao bo] eqn:Eo.
  assert (Hrest : Some (Some TOctInt, 48 :: ao, bo) = Some (Some TOctInt, 48 :: w, stop) ->
                  starts_with is_oct_digit stop = false).
  { intros E. injection E as _ <-. eapply span_while_rest. exact Eo. }
  split.
  - destruct (w ++ stop) as [|x r1]; [auto|].
    destruct ((x =? 120) || (x =? 88)).
    + destruct (span_while is_hex_digit r1) as [a b]. destruct a; [auto|discriminate H].
    + destruct ((x =? 98) || (x =? 66)); [|auto].
      destruct (span_while is_bin_digit r1) as [a b]. destruct a; [auto|discriminate H].
  - intros ->. cbn [app] in *. destruct stop as [|x s']; [reflexivity|].
    cbn [radix_prefix_follows].
    destruct ((x =? 120) || (x =? 88)) eqn:Ex.
    + assert (Hb : (x =? 98) || (x =? 66) = false).
      { apply orb_true_iff in Ex. destruct Ex as [Ex|Ex]; apply N.eqb_eq in Ex; subst; reflexivity. }
      rewrite Hb. cbn [andb orb]. rewrite orb_false_r.
      destruct (span_while is_hex_digit s') as [a b] eqn:E.
      destruct a; [|discriminate H]. eapply span_while_nil. exact E.
    + cbn [andb orb]. destruct ((x =? 98) || (x =? 66)); [|reflexivity].
      cbn [andb]. destruct (span_while is_bin_digit s') as [a b] eqn:E.
      destruct a; [|discriminate H]. eapply span_while_nil. exact E.
Qed.

(* ------------------------------------------------------------------ examples *)

From Coq Require Import String.

Definition lex_value (s : string) : option (tk * option Z * text) :=
  match lex_one (s2n s) with
  | Some (Some k, w, r) => Some (k, literal_value {| tkind := k; tspan := (0, 0); ttext := w |}, r)
  | _ => None
  end.

Example ex_hex_upper : lex_value "0x1F" = Some (THexInt, Some 31%Z, []).
Proof. vm_compute. reflexivity. Qed.
Example ex_hex_lower : lex_value "0X1f" = Some (THexInt, Some 31%Z, []).
Proof. vm_compute. reflexivity. Qed.
Example ex_bin : lex_value "0b101" = Some (TBinInt, Some 5%Z, []).
Proof. vm_compute. reflexivity. Qed.
Example ex_bin_upper : lex_value "0B11111" = Some (TBinInt, Some 31%Z, []).
Proof. vm_compute. reflexivity. Qed.
Example ex_oct : lex_value "017" = Some (TOctInt, Some 15%Z, []).
Proof. vm_compute. reflexivity. Qed.
Example ex_oct31 : lex_value "037" = Some (TOctInt, Some 31%Z, []).
Proof. vm_compute. reflexivity. Qed.
Example ex_dec : lex_value "31" = Some (TDecInt, Some 31%Z, []).
Proof. vm_compute. reflexivity. Qed.
Example ex_zero : lex_value "0" = Some (TOctInt, Some 0%Z, []).
Proof. vm_compute. reflexivity. Qed.
(* 09 is the token 0 followed by 9; 0x without a digit is the token 0 followed by x *)
Example ex_09 : lex_value "09" = Some (TOctInt, Some 0%Z, s2n "9").
Proof. vm_compute. reflexivity. Qed.
Example ex_0x : lex_value "0x" = Some (TOctInt, Some 0%Z, s2n "x").
Proof. vm_compute. reflexivity. Qed.
Example ex_0b2 : lex_value "0b2" = Some (TOctInt, Some 0%Z, s2n "b2").
Proof. vm_compute. reflexivity. Qed.
Example ex_max : lex_value "9223372036854775807" = Some (TDecInt, Some 9223372036854775807%Z, []).
Proof. vm_compute. reflexivity. Qed.
Example ex_overflow : lex_value "9223372036854775808" = Some (TDecInt, None, []).
Proof. vm_compute. reflexivity. Qed.
Example ex_hex_max : lex_value "0x7fffffffffffffff" = Some (THexInt, Some 9223372036854775807%Z, []).
Proof. vm_compute. reflexivity. Qed.
Example ex_hex_overflow : lex_value "0x8000000000000000" = Some (THexInt, None, []).
Proof. vm_compute. reflexivity. Qed.
Example ex_spell :
  spell [false; true] [1; 15] = s2n "1F" /\ spell [false; false] [1; 15] = s2n "1f"
  /\ value 16 [1; 15] = 31 /\ value 8 [3; 7] = 31 /\ value 2 [1; 1; 1; 1; 1] = 31 /\ value 10 [3; 1] = 31.
Proof. vm_compute. repeat split; reflexivity. Qed.

Print Assumptions radix_value.
Print Assumptions radix_bad_digit.
Print Assumptions parse_number_literal_value.
Print Assumptions lex_decimal.
Print Assumptions lex_hex.
Print Assumptions lex_bin.
Print Assumptions lex_octal.
Print Assumptions lex_octal_stop_necessary.
