(* LexSpecProof: the hand-written scanners of Lexer.v (lex_one, hlex_one) are the longest-match,
   priority-ordered lexers of the rule tables of LexSpec.v, which are computed from the regular
   expressions, keywords and punctuation regenerated from src/lexer/token.rs. *)
From DTR Require Import Prelude Ast Generated GeneratedTables Lexer LexSpec.
From Coq Require Import String Ascii ZifyBool ZifyN.
Open Scope N_scope.
Local Notation length := List.length.

(* ================================================================================================ *)
(* A. span_while                                                                                      *)

Definition allp (p : N -> bool) (u : text) : Prop := Forall (fun x => p x = true) u.

(* the text is empty or its first character fails p *)
Definition stops (p : N -> bool) (r : text) : Prop :=
  match r with [] => True | d :: _ => p d = false end.

Lemma allp_nil : forall p, allp p [].
Proof. intro p. constructor. Qed.

Lemma allp_cons : forall p x u, allp p (x :: u) <-> p x = true /\ allp p u.
Proof.
  intros p x u. unfold allp. split; intro H.
  - inversion H; subst. auto.
  - destruct H. constructor; auto.
Qed.

Lemma allp_ext : forall p q u, (forall x, p x = q x) -> allp p u -> allp q u.
Proof.
  intros p q u E H. unfold allp in *. eapply Forall_impl; [|exact H].
  cbn beta. intros x Hx. rewrite <- E. exact Hx.
Qed.

Lemma allp_impl : forall (p q : N -> bool) u, (forall x, p x = true -> q x = true) -> allp p u -> allp q u.
Proof. intros p q u E H. unfold allp in *. eapply Forall_impl; [|exact H]. exact E. Qed.

Lemma span_while_stops : forall p s a b, span_while p s = (a, b) ->
  s = a ++ b /\ allp p a /\ stops p b.
Proof.
  intros p. induction s as [|c s IH]; intros a b H; cbn [span_while] in H.
  - inversion H; subst. repeat split; constructor.
  - destruct (p c) eqn:Pc.
    + destruct (span_while p s) as [a' b'] eqn:E. inversion H; subst.
      destruct (IH _ _ eq_refl) as [H1 [H2 H3]]. subst s. repeat split; auto.
      apply allp_cons. auto.
    + inversion H; subst. repeat split; [constructor | exact Pc].
Qed.

(* the statement of the span_while library asked for: the split, the class of the first part, and the
   reason the scan stopped *)
Lemma span_while_spec : forall p s a b, span_while p s = (a, b) ->
  s = a ++ b /\ Forall (fun x => p x = true) a /\
  (b = [] \/ exists d b', b = d :: b' /\ p d = false).
Proof.
  intros p s a b H. destruct (span_while_stops _ _ _ _ H) as [H1 [H2 H3]].
  repeat split; auto. destruct b as [|d b']; [left; reflexivity|].
  right. exists d, b'. split; [reflexivity | exact H3].
Qed.

(* maximality: a prefix made of p-characters is never longer than a p-run that has stopped *)
Lemma prefix_max : forall p a b u v, a ++ b = u ++ v -> allp p u -> stops p b ->
  (length u <= length a)%nat.
Proof.
  intros p. induction a as [|x a IH]; intros b u v E Hu Hb.
  - destruct u as [|y u]; [cbn; lia|]. cbn [app] in E. subst b. cbn [stops] in Hb.
    apply allp_cons in Hu. destruct Hu as [Hy _]. congruence.
  - destruct u as [|y u]; [cbn; lia|]. cbn [app] in E. inversion E; subst.
    apply allp_cons in Hu. destruct Hu as [_ Hu]. specialize (IH _ _ _ H1 Hu Hb). cbn [length]. lia.
Qed.

Lemma span_while_max : forall p s a b u v, span_while p s = (a, b) -> s = u ++ v -> allp p u ->
  (length u <= length a)%nat.
Proof.
  intros p s a b u v H E Hu. destruct (span_while_stops _ _ _ _ H) as [H1 [_ H3]].
  eapply prefix_max; [|exact Hu|exact H3]. rewrite <- H1. exact E.
Qed.

(* ================================================================================================ *)
(* B. regular expressions                                                                             *)

Lemma re_eps_inv : forall w, re_matches REps w -> w = [].
Proof. intros w H. inversion H. reflexivity. Qed.
Lemma re_char_inv : forall c w, re_matches (RChar c) w -> w = [c].
Proof. intros c w H. inversion H. reflexivity. Qed.
Lemma re_class_inv : forall neg items w, re_matches (RClass neg items) w ->
  exists c, w = [c] /\ class_in neg items c = true.
Proof. intros neg items w H. inversion H; subst. eauto. Qed.
Lemma re_cat_inv : forall a b w, re_matches (RCat a b) w ->
  exists u v, w = u ++ v /\ re_matches a u /\ re_matches b v.
Proof. intros a b w H. inversion H; subst. eauto. Qed.
Lemma re_alt_inv : forall a b w, re_matches (RAlt a b) w -> re_matches a w \/ re_matches b w.
Proof. intros a b w H. inversion H; subst; auto. Qed.
Lemma re_plus_inv : forall a w, re_matches (RPlus a) w ->
  exists u v, w = u ++ v /\ re_matches a u /\ re_matches (RStar a) v.
Proof. intros a w H. inversion H; subst. eauto. Qed.

Lemma lit_re_matches : forall w u, re_matches (lit_re w) u <-> u = w.
Proof.
  induction w as [|c w IH]; intro u; cbn [lit_re fold_right]; split; intro H.
  - apply re_eps_inv in H. exact H.
  - subst. constructor.
  - apply re_cat_inv in H. destruct H as [a [b [-> [Ha Hb]]]]. apply re_char_inv in Ha.
    apply IH in Hb. subst. reflexivity.
  - subst. change (c :: w) with ([c] ++ w). constructor; [constructor|]. apply IH. reflexivity.
Qed.

(* expressions that match exactly one character, and the class of that character *)
Fixpoint is_char_re (e : re) : bool :=
  match e with
  | RChar _ => true
  | RClass _ _ => true
  | RAlt a b => is_char_re a && is_char_re b
  | _ => false
  end.

Fixpoint char_fn (e : re) (c : N) : bool :=
  match e with
  | RChar d => c =? d
  | RClass neg items => class_in neg items c
  | RAlt a b => char_fn a c || char_fn b c
  | _ => false
  end.

Lemma char_re_spec : forall e, is_char_re e = true ->
  forall u, re_matches e u <-> exists c, u = [c] /\ char_fn e c = true.
Proof.
  induction e; cbn [is_char_re char_fn]; intro He; try discriminate; intro u.
  - split; intro H.
    + apply re_char_inv in H. subst. exists c. split; [reflexivity | apply N.eqb_refl].
    + destruct H as [d [-> Hd]]. apply N.eqb_eq in Hd. subst. constructor.
  - split; intro H.
    + apply re_class_inv in H. exact H.
    + destruct H as [d [-> Hd]]. constructor. exact Hd.
  - apply andb_true_iff in He. destruct He as [Ha Hb].
    specialize (IHe1 Ha u). specialize (IHe2 Hb u). split; intro H.
    + apply re_alt_inv in H. destruct H as [H|H].
      * apply IHe1 in H. destruct H as [c [-> Hc]]. exists c. rewrite Hc. auto.
      * apply IHe2 in H. destruct H as [c [-> Hc]]. exists c. rewrite Hc, orb_true_r. auto.
    + destruct H as [c [-> Hc]]. apply orb_true_iff in Hc. destruct Hc as [Hc|Hc].
      * apply MAltL. apply IHe1. eauto.
      * apply MAltR. apply IHe2. eauto.
Qed.

(* the star of a one-character expression matches exactly the texts whose characters are all in
   its class *)
Lemma star_char : forall e, is_char_re e = true ->
  forall w, re_matches (RStar e) w <-> allp (char_fn e) w.
Proof.
  intros e He w. split.
  - intro H. remember (RStar e) as s eqn:Es. induction H; try discriminate.
    + constructor.
    + inversion Es; subst a. apply (char_re_spec e He) in H. destruct H as [c [-> Hc]].
      cbn [app]. apply allp_cons. split; [exact Hc | apply IHre_matches2; reflexivity].
  - induction w as [|c w IH]; intro H.
    + constructor.
    + apply allp_cons in H. destruct H as [Hc Hw]. change (c :: w) with ([c] ++ w).
      apply MStarS; [|apply IH; exact Hw]. apply (char_re_spec e He). eauto.
Qed.

Lemma plus_char : forall e, is_char_re e = true ->
  forall w, re_matches (RPlus e) w <-> w <> [] /\ allp (char_fn e) w.
Proof.
  intros e He w. split; intro H.
  - apply re_plus_inv in H. destruct H as [u [v [-> [Hu Hv]]]].
    apply (char_re_spec e He) in Hu. destruct Hu as [c [-> Hc]].
    apply (star_char e He) in Hv. split; [discriminate|]. cbn [app]. apply allp_cons. auto.
  - destruct H as [Hne H]. destruct w as [|c w]; [congruence|].
    apply allp_cons in H. destruct H as [Hc Hw]. change (c :: w) with ([c] ++ w).
    constructor; [apply (char_re_spec e He); eauto | apply (star_char e He); exact Hw].
Qed.

(* e1 e2* *)
Lemma cat_star_char : forall e1 e2, is_char_re e1 = true -> is_char_re e2 = true ->
  forall w, re_matches (RCat e1 (RStar e2)) w <->
            exists c u, w = c :: u /\ char_fn e1 c = true /\ allp (char_fn e2) u.
Proof.
  intros e1 e2 H1 H2 w. split; intro H.
  - apply re_cat_inv in H. destruct H as [u [v [-> [Hu Hv]]]].
    apply (char_re_spec e1 H1) in Hu. destruct Hu as [c [-> Hc]].
    apply (star_char e2 H2) in Hv. exists c, v. auto.
  - destruct H as [c [u [-> [Hc Hu]]]]. change (c :: u) with ([c] ++ u).
    constructor; [apply (char_re_spec e1 H1); eauto | apply (star_char e2 H2); exact Hu].
Qed.

(* a e1 e2+ *)
Lemma char_cat_plus_char : forall a e1 e2, is_char_re e1 = true -> is_char_re e2 = true ->
  forall w, re_matches (RCat (RChar a) (RCat e1 (RPlus e2))) w <->
            exists x h, w = a :: x :: h /\ char_fn e1 x = true /\ h <> [] /\ allp (char_fn e2) h.
Proof.
  intros a e1 e2 H1 H2 w. split; intro H.
  - apply re_cat_inv in H. destruct H as [u [v [-> [Hu Hv]]]]. apply re_char_inv in Hu. subst u.
    apply re_cat_inv in Hv. destruct Hv as [u [h [-> [Hu Hh]]]].
    apply (char_re_spec e1 H1) in Hu. destruct Hu as [x [-> Hx]].
    apply (plus_char e2 H2) in Hh. destruct Hh as [Hne Hh]. exists x, h. auto.
  - destruct H as [x [h [-> [Hx [Hne Hh]]]]]. change (a :: x :: h) with ([a] ++ [x] ++ h).
    constructor; [constructor|]. constructor; [apply (char_re_spec e1 H1); eauto|].
    apply (plus_char e2 H2). auto.
Qed.

(* the same, with the classes given by boolean functions *)
Lemma cat_star_lang : forall e1 e2 (p1 p2 : N -> bool),
  is_char_re e1 = true -> is_char_re e2 = true ->
  (forall c, char_fn e1 c = p1 c) -> (forall c, char_fn e2 c = p2 c) ->
  forall w, re_matches (RCat e1 (RStar e2)) w <->
            exists c u, w = c :: u /\ p1 c = true /\ allp p2 u.
Proof.
  intros e1 e2 p1 p2 H1 H2 E1 E2 w. rewrite (cat_star_char e1 e2 H1 H2).
  split; intros [c [u [E [Hc Hu]]]]; exists c, u; (split; [exact E|]); split.
  - rewrite <- E1. exact Hc.
  - eapply allp_ext; [exact E2 | exact Hu].
  - rewrite E1. exact Hc.
  - eapply allp_ext; [|exact Hu]. intro x. symmetry. apply E2.
Qed.

Lemma char_cat_plus_lang : forall a e1 e2 (p1 p2 : N -> bool),
  is_char_re e1 = true -> is_char_re e2 = true ->
  (forall c, char_fn e1 c = p1 c) -> (forall c, char_fn e2 c = p2 c) ->
  forall w, re_matches (RCat (RChar a) (RCat e1 (RPlus e2))) w <->
            exists x h, w = a :: x :: h /\ p1 x = true /\ h <> [] /\ allp p2 h.
Proof.
  intros a e1 e2 p1 p2 H1 H2 E1 E2 w. rewrite (char_cat_plus_char a e1 e2 H1 H2).
  split; intros [x [h [E [Hx [Hne Hh]]]]]; exists x, h; (split; [exact E|]); split.
  - rewrite <- E1. exact Hx.
  - split; [exact Hne|]. eapply allp_ext; [exact E2 | exact Hh].
  - rewrite E1. exact Hx.
  - split; [exact Hne|]. eapply allp_ext; [|exact Hh]. intro y. symmetry. apply E2.
Qed.

Lemma plus_lang : forall e (p : N -> bool), is_char_re e = true -> (forall c, char_fn e c = p c) ->
  forall w, re_matches (RPlus e) w <-> w <> [] /\ allp p w.
Proof.
  intros e p H E w. rewrite (plus_char e H).
  split; intros [Hne Hw]; (split; [exact Hne|]).
  - eapply allp_ext; [exact E | exact Hw].
  - eapply allp_ext; [|exact Hw]. intro y. symmetry. apply E.
Qed.

(* ================================================================================================ *)
(* B2. the normal form keeps the language                                                             *)

Lemma re_iff_cat : forall a a' b b',
  (forall w, re_matches a w <-> re_matches a' w) -> (forall w, re_matches b w <-> re_matches b' w) ->
  forall w, re_matches (RCat a b) w <-> re_matches (RCat a' b') w.
Proof.
  intros a a' b b' Ha Hb w. split; intro H; apply re_cat_inv in H;
    destruct H as [u [v [-> [Hu Hv]]]]; constructor; first [apply Ha | apply Hb]; assumption.
Qed.

Lemma re_iff_alt : forall a a' b b',
  (forall w, re_matches a w <-> re_matches a' w) -> (forall w, re_matches b w <-> re_matches b' w) ->
  forall w, re_matches (RAlt a b) w <-> re_matches (RAlt a' b') w.
Proof.
  intros a a' b b' Ha Hb w. split; intro H; apply re_alt_inv in H; destruct H as [H|H];
    first [apply MAltL; apply Ha; assumption | apply MAltR; apply Hb; assumption].
Qed.

Lemma re_star_mono : forall a a', (forall w, re_matches a w -> re_matches a' w) ->
  forall w, re_matches (RStar a) w -> re_matches (RStar a') w.
Proof.
  intros a a' Ha w H. remember (RStar a) as s eqn:Es. induction H; try discriminate.
  - constructor.
  - inversion Es; subst. apply MStarS; [apply Ha; assumption | apply IHre_matches2; reflexivity].
Qed.

Lemma re_iff_star : forall a a', (forall w, re_matches a w <-> re_matches a' w) ->
  forall w, re_matches (RStar a) w <-> re_matches (RStar a') w.
Proof.
  intros a a' Ha w. split; apply re_star_mono; intros u Hu; apply Ha; exact Hu.
Qed.

Lemma re_plus_cat_star : forall a w, re_matches (RPlus a) w <-> re_matches (RCat a (RStar a)) w.
Proof.
  intros a w. split; intro H.
  - apply re_plus_inv in H. destruct H as [u [v [-> [Hu Hv]]]]. constructor; assumption.
  - apply re_cat_inv in H. destruct H as [u [v [-> [Hu Hv]]]]. constructor; assumption.
Qed.

Lemma re_cat_eps_l : forall b w, re_matches (RCat REps b) w <-> re_matches b w.
Proof.
  intros b w. split; intro H.
  - apply re_cat_inv in H. destruct H as [u [v [-> [Hu Hv]]]]. apply re_eps_inv in Hu. subst. exact Hv.
  - change w with ([] ++ w). constructor; [constructor | exact H].
Qed.

Lemma re_cat_eps_r : forall a w, re_matches (RCat a REps) w <-> re_matches a w.
Proof.
  intros a w. split; intro H.
  - apply re_cat_inv in H. destruct H as [u [v [-> [Hu Hv]]]]. apply re_eps_inv in Hv. subst.
    rewrite app_nil_r. exact Hu.
  - rewrite <- (app_nil_r w). constructor; [exact H | constructor].
Qed.

Lemma re_cat_assoc : forall a b c w,
  re_matches (RCat (RCat a b) c) w <-> re_matches (RCat a (RCat b c)) w.
Proof.
  intros a b c w. split; intro H.
  - apply re_cat_inv in H. destruct H as [uv [x [-> [Huv Hx]]]].
    apply re_cat_inv in Huv. destruct Huv as [u [v [-> [Hu Hv]]]].
    rewrite <- app_assoc. constructor; [exact Hu|]. constructor; assumption.
  - apply re_cat_inv in H. destruct H as [u [vx [-> [Hu Hvx]]]].
    apply re_cat_inv in Hvx. destruct Hvx as [v [x [-> [Hv Hx]]]].
    rewrite app_assoc. constructor; [|exact Hx]. constructor; assumption.
Qed.

Lemma cat_app_sound : forall a b w, re_matches (cat_app a b) w <-> re_matches (RCat a b) w.
Proof.
  induction a; intros b w; cbn [cat_app];
    try (destruct b; first [reflexivity | symmetry; apply re_cat_eps_r]).
  - symmetry. apply re_cat_eps_l.
  - rewrite IHa1. rewrite re_cat_assoc. apply re_iff_cat; [reflexivity|]. intro u. apply IHa2.
Qed.

(* classes *)
Lemma in_ranges_cons : forall c r rs,
  in_ranges c (r :: rs) = in_range (fst r) (snd r) c || in_ranges c rs.
Proof. reflexivity. Qed.

Lemma in_ranges_insert : forall c r rs,
  in_ranges c (insert_range r rs) = in_range (fst r) (snd r) c || in_ranges c rs.
Proof.
  intros c r. induction rs as [|r' t IH]; cbn [insert_range].
  - reflexivity.
  - destruct (fst r <=? fst r'); [reflexivity|].
    rewrite !in_ranges_cons, IH, !orb_assoc.
    rewrite (orb_comm (in_range (fst r') (snd r') c)). reflexivity.
Qed.

Lemma in_ranges_sort : forall c rs, in_ranges c (sort_ranges rs) = in_ranges c rs.
Proof.
  intros c. induction rs as [|r t IH]; [reflexivity|].
  unfold sort_ranges in *. cbn [fold_right]. rewrite in_ranges_insert, in_ranges_cons, IH. reflexivity.
Qed.

Lemma in_ranges_merge_from : forall c rs lo hi,
  in_ranges c (merge_from lo hi rs) = in_range lo hi c || in_ranges c rs.
Proof.
  intros c. induction rs as [|[lo2 hi2] t IH]; intros lo hi; cbn [merge_from].
  - reflexivity.
  - destruct ((lo <=? hi) && (lo2 <=? hi2) && (lo2 <=? hi + 1) && (lo <=? hi2 + 1)) eqn:M.
    + rewrite IH, in_ranges_cons. cbn [fst snd]. rewrite orb_assoc. f_equal.
      unfold in_range. lia.
    + rewrite !in_ranges_cons, IH. reflexivity.
Qed.

Lemma in_ranges_merge : forall c rs, in_ranges c (merge_ranges rs) = in_ranges c rs.
Proof.
  intros c rs. destruct rs as [|[lo hi] t]; [reflexivity|].
  unfold merge_ranges. rewrite in_ranges_merge_from. reflexivity.
Qed.

Lemma items_split : forall c items,
  existsb (citem_in c) items = in_ranges c (ranges_of items) || (has_nd items && is_unicode_digit c).
Proof.
  intros c. induction items as [|i t IH]; [reflexivity|].
  cbn [existsb ranges_of has_nd]. rewrite IH. destruct i as [lo hi|]; cbn [citem_in].
  - destruct (lo <=? hi) eqn:L.
    + rewrite in_ranges_cons. cbn [fst snd]. rewrite orb_assoc. reflexivity.
    + replace (in_range lo hi c) with false; [reflexivity|]. unfold in_range. lia.
  - cbn [andb]. destruct (is_unicode_digit c), (in_ranges c (ranges_of t)), (has_nd t); reflexivity.
Qed.

Lemma existsb_ranges : forall c rs,
  existsb (citem_in c) (map (fun r => CRange (fst r) (snd r)) rs) = in_ranges c rs.
Proof. intros c. induction rs as [|r t IH]; [reflexivity|]. cbn [map existsb citem_in]. rewrite IH. reflexivity. Qed.

Lemma norm_items_sound : forall c items,
  existsb (citem_in c) (norm_items items) = existsb (citem_in c) items.
Proof.
  intros c items. unfold norm_items. rewrite existsb_app, existsb_ranges, in_ranges_merge, in_ranges_sort.
  rewrite (items_split c items). f_equal.
  destruct (has_nd items); cbn [existsb citem_in andb]; [apply orb_false_r | reflexivity].
Qed.

Lemma class_in_norm : forall neg items c, class_in neg (norm_items items) c = class_in neg items c.
Proof. intros. unfold class_in. rewrite norm_items_sound. reflexivity. Qed.

Lemma re_class_iff : forall neg items w,
  re_matches (RClass neg items) w <-> exists c, w = [c] /\ class_in neg items c = true.
Proof.
  intros. split; [apply re_class_inv|]. intros [c [-> H]]. constructor. exact H.
Qed.

Lemma class_norm_sound : forall neg items w,
  re_matches (RClass neg (norm_items items)) w <-> re_matches (RClass neg items) w.
Proof.
  intros. rewrite !re_class_iff. split; intros [c [E H]]; exists c; (split; [exact E|]).
  - rewrite <- class_in_norm. exact H.
  - rewrite class_in_norm. exact H.
Qed.

Lemma mk_alt_sound : forall a b w, re_matches (mk_alt a b) w <-> re_matches (RAlt a b) w.
Proof.
  intros a b w. unfold mk_alt.
  destruct a as [| |[] ia| | | |]; try reflexivity.
  destruct b as [| |[] ib| | | |]; try reflexivity.
  rewrite class_norm_sound. split; intro H.
  - apply re_class_inv in H. destruct H as [c [-> H]]. unfold class_in in H.
    rewrite xorb_false_l, existsb_app in H. apply orb_true_iff in H. destruct H as [H|H].
    + apply MAltL. constructor. unfold class_in. rewrite xorb_false_l. exact H.
    + apply MAltR. constructor. unfold class_in. rewrite xorb_false_l. exact H.
  - apply re_alt_inv in H. destruct H as [H|H]; apply re_class_inv in H; destruct H as [c [-> H]];
      constructor; unfold class_in in *; rewrite xorb_false_l in *; rewrite existsb_app, H;
      [reflexivity | apply orb_true_r].
Qed.

Theorem norm_sound : forall e w, re_matches (norm e) w <-> re_matches e w.
Proof.
  induction e; intro w; cbn [norm].
  - reflexivity.
  - split; intro H.
    + apply re_class_inv in H. destruct H as [d [-> H]]. unfold class_in in H.
      cbn [existsb citem_in] in H. rewrite xorb_false_l, orb_false_r in H.
      unfold in_range in H. assert (d = c) by lia. subst. constructor.
    + apply re_char_inv in H. subst. constructor. unfold class_in. cbn [existsb citem_in].
      unfold in_range. lia.
  - apply class_norm_sound.
  - rewrite cat_app_sound. apply re_iff_cat; assumption.
  - rewrite mk_alt_sound. apply re_iff_alt; assumption.
  - apply re_iff_star. exact IHe.
  - rewrite cat_app_sound, re_plus_cat_star. apply re_iff_cat; [exact IHe|]. apply re_iff_star. exact IHe.
Qed.

Lemma norm_elim : forall e w, re_matches (norm e) w -> re_matches e w.
Proof. intros e w. apply norm_sound. Qed.
Lemma norm_intro : forall e w, re_matches e w -> re_matches (norm e) w.
Proof. intros e w. apply norm_sound. Qed.

(* decidable equalities *)
Lemma citem_eqb_eq : forall a b, citem_eqb a b = true -> a = b.
Proof.
  intros [l h|] [l' h'|] H; cbn [citem_eqb] in H; try discriminate; [|reflexivity].
  apply andb_true_iff in H. destruct H as [H1 H2]. apply N.eqb_eq in H1, H2. subst. reflexivity.
Qed.

Lemma list_eqb_eq : forall A (eqb : A -> A -> bool), (forall x y, eqb x y = true -> x = y) ->
  forall l1 l2, list_eqb eqb l1 l2 = true -> l1 = l2.
Proof.
  intros A eqb E. induction l1 as [|x t IH]; intros [|y t2] H; cbn [list_eqb] in H; try discriminate.
  - reflexivity.
  - apply andb_true_iff in H. destruct H as [H1 H2]. apply E in H1. apply IH in H2. subst. reflexivity.
Qed.

Lemma re_eqb_eq : forall a b, re_eqb a b = true -> a = b.
Proof.
  induction a; intros b H; destruct b; cbn [re_eqb] in H; try discriminate.
  - reflexivity.
  - apply N.eqb_eq in H. subst. reflexivity.
  - apply andb_true_iff in H. destruct H as [H1 H2]. apply eqb_prop in H1.
    apply (list_eqb_eq _ _ citem_eqb_eq) in H2. subst. reflexivity.
  - apply andb_true_iff in H. destruct H as [H1 H2]. apply IHa1 in H1. apply IHa2 in H2. subst. reflexivity.
  - apply andb_true_iff in H. destruct H as [H1 H2]. apply IHa1 in H1. apply IHa2 in H2. subst. reflexivity.
  - apply IHa in H. subst. reflexivity.
  - apply IHa in H. subst. reflexivity.
Qed.

Lemma rule_eqb_eq : forall K (keqb : K -> K -> bool), (forall x y, keqb x y = true -> x = y) ->
  forall r1 r2 : rule K, rule_eqb keqb r1 r2 = true -> r1 = r2.
Proof.
  intros K keqb E [k1 e1] [k2 e2] H. unfold rule_eqb in H. cbn [fst snd] in H.
  apply andb_true_iff in H. destruct H as [H1 H2]. apply re_eqb_eq in H2. subst.
  destruct k1 as [x|], k2 as [y|]; cbn [opt_eqb] in H1; try discriminate; [|reflexivity].
  apply E in H1. subst. reflexivity.
Qed.

Lemma incl_b_sound : forall A (eqb : A -> A -> bool), (forall x y, eqb x y = true -> x = y) ->
  forall l1 l2, incl_b eqb l1 l2 = true -> forall x, In x l1 -> In x l2.
Proof.
  intros A eqb E l1 l2 H x Hx. unfold incl_b in H. rewrite forallb_forall in H.
  specialize (H x Hx). apply existsb_exists in H. destruct H as [y [Hy Exy]].
  apply E in Exy. subst. exact Hy.
Qed.

Lemma same_rules_sound : forall K (keqb : K -> K -> bool), (forall x y, keqb x y = true -> x = y) ->
  forall l1 l2 : list (rule K), same_rules keqb l1 l2 = true ->
  forall k e, In (k, e) l1 <-> In (k, e) l2.
Proof.
  intros K keqb E l1 l2 H k e. unfold same_rules in H. apply andb_true_iff in H. destruct H as [H1 H2].
  split; apply incl_b_sound with (eqb := rule_eqb keqb); try assumption; apply rule_eqb_eq; exact E.
Qed.

Lemma tk_beq_eq : forall x y, tk_beq x y = true -> x = y.
Proof. exact internal_tk_dec_bl. Qed.

Lemma htk_eqb_eq : forall x y, htk_eqb x y = true -> x = y.
Proof. intros [] [] H; try reflexivity; discriminate. Qed.

(* ================================================================================================ *)
(* C. the languages of the rules.  re_ident ... re_hname are readable spellings of the expressions, used
   only to state what each canonical expression of LexSpec.v matches (canon_x = norm re_x is checked
   below by computation on these fixed definitions, not on the generated strings).                   *)

Definition re_ident : re :=
  RCat (RClass false [CRange 65 90; CRange 97 122; CRange 95 95])
       (RStar (RAlt (RClass false [CRange 65 90; CRange 97 122])
                    (RAlt (RChar 95) (RClass false [CNd])))).
Definition re_dec : re := RCat (RClass false [CRange 49 57]) (RStar (RClass false [CRange 48 57])).
Definition re_hex : re :=
  RCat (RChar 48) (RCat (RClass false [CRange 120 120; CRange 88 88])
                        (RPlus (RClass false [CRange 48 57; CRange 97 102; CRange 65 70]))).
Definition re_bin : re :=
  RCat (RChar 48) (RCat (RClass false [CRange 98 98; CRange 66 66])
                        (RPlus (RClass false [CRange 48 48; CRange 49 49]))).
Definition re_oct : re := RCat (RChar 48) (RStar (RClass false [CRange 48 55])).
Definition re_ws : re := RPlus (RClass false [CRange 32 32; CRange 9 9; CRange 13 13; CRange 12 12]).
Definition re_comment : re := RCat (RChar 35) (RStar (RClass true [CRange 10 10])).
Definition re_hname : re :=
  RPlus (RClass true [CRange 32 32; CRange 9 9; CRange 13 13; CRange 12 12; CRange 10 10]).

(* every regular expression of the generated tables is read by parse_re *)
Lemma parse_re_all_some :
  forallb (fun p => match parse_re (snd p) with Some _ => true | None => false end)
          (gen_regexes ++ gen_header_regexes) = true.
Proof. vm_compute. reflexivity. Qed.

(* the classes of the parsed expressions are the classes the scanner tests *)
Definition notnl (x : N) : bool := negb (is_nl x).

Ltac class_eq :=
  intro c; cbn [char_fn]; unfold class_in; rewrite ?xorb_false_l, ?xorb_true_l;
  cbn [existsb citem_in];
  unfold is_name_char, is_ident_cont, is_ident_start, is_dec_start, is_dec_digit, is_oct_digit, is_bin_digit,
         is_hex_digit, is_ws, notnl, is_nl, in_range; lia.

Lemma ident_lang : forall w, re_matches re_ident w <->
  exists c u, w = c :: u /\ is_ident_start c = true /\ allp is_ident_cont u.
Proof. apply cat_star_lang; try reflexivity; class_eq. Qed.

Lemma dec_lang : forall w, re_matches re_dec w <->
  exists c u, w = c :: u /\ is_dec_start c = true /\ allp is_dec_digit u.
Proof. apply cat_star_lang; try reflexivity; class_eq. Qed.

Lemma oct_lang : forall w, re_matches re_oct w <->
  exists c u, w = c :: u /\ (c =? 48) = true /\ allp is_oct_digit u.
Proof. apply (cat_star_lang _ _ (fun c => c =? 48)); try reflexivity; class_eq. Qed.

Lemma comment_lang : forall w, re_matches re_comment w <->
  exists c u, w = c :: u /\ (c =? 35) = true /\ allp notnl u.
Proof. apply (cat_star_lang _ _ (fun c => c =? 35)); try reflexivity; class_eq. Qed.

Lemma hex_lang : forall w, re_matches re_hex w <->
  exists x h, w = 48 :: x :: h /\ (x =? 120) || (x =? 88) = true /\ h <> [] /\ allp is_hex_digit h.
Proof. apply (char_cat_plus_lang _ _ _ (fun x => (x =? 120) || (x =? 88))); try reflexivity; class_eq. Qed.

Lemma bin_lang : forall w, re_matches re_bin w <->
  exists x h, w = 48 :: x :: h /\ (x =? 98) || (x =? 66) = true /\ h <> [] /\ allp is_bin_digit h.
Proof. apply (char_cat_plus_lang _ _ _ (fun x => (x =? 98) || (x =? 66))); try reflexivity; class_eq. Qed.

Lemma ws_lang : forall w, re_matches re_ws w <-> w <> [] /\ allp is_ws w.
Proof. apply plus_lang; try reflexivity; class_eq. Qed.

Lemma hname_lang : forall w, re_matches re_hname w <-> w <> [] /\ allp is_name_char w.
Proof. apply plus_lang; try reflexivity; class_eq. Qed.

(* ================================================================================================ *)
(* C2. the tables: same rules as the explicit canonical tables, in whatever order and spelling        *)

(* the canonical expressions are the normal forms of the readable ones *)
Definition readable_regex_rules : list (rule tk) :=
  [ (Some TIdent, re_ident); (Some TDecInt, re_dec); (Some THexInt, re_hex);
    (Some TBinInt, re_bin); (Some TOctInt, re_oct); (None, re_ws); (None, re_comment) ].

Definition norm_rule {K} (r : rule K) : rule K := (fst r, norm (snd r)).

Lemma canonical_regex_rules_norm : canonical_regex_rules = map norm_rule readable_regex_rules.
Proof. reflexivity. Qed.

Lemma canon_hname_norm : canon_hname = norm re_hname.
Proof. reflexivity. Qed.
Lemma canon_ws_norm : canon_ws = norm re_ws.
Proof. reflexivity. Qed.

(* the regex part of the statement table *)
Lemma regex_rules_canon : forall k e,
  In (k, e) (or_poison (Some TError) regex_rules) <-> In (k, e) canonical_regex_rules.
Proof. apply (same_rules_sound _ tk_beq tk_beq_eq). vm_compute. reflexivity. Qed.

(* the whole statement table *)
Theorem lex_rules_canon : forall k e, In (k, e) lex_rules <-> In (k, e) canonical_lex_rules.
Proof. apply (same_rules_sound _ tk_beq tk_beq_eq). vm_compute. reflexivity. Qed.

(* the header table *)
Theorem hlex_rules_canon : forall k e, In (k, e) hlex_rules <-> In (k, e) canonical_hlex_rules.
Proof. apply (same_rules_sound _ htk_eqb htk_eqb_eq). vm_compute. reflexivity. Qed.

(* the canonical tables are in normal form *)
Lemma canonical_rules_normal :
  forallb (fun r => re_eqb (norm (snd r)) (snd r)) canonical_regex_rules = true /\
  forallb (fun r => re_eqb (norm (snd r)) (snd r)) [(Some HName, canon_hname)] = true.
Proof. split; vm_compute; reflexivity. Qed.

(* ---- back to the expressions exactly as parse_re returns them *)
Lemma rule_matches_app : forall K (l1 l2 : list (rule K)) k w,
  rule_matches (l1 ++ l2) k w <-> rule_matches l1 k w \/ rule_matches l2 k w.
Proof.
  intros K l1 l2 k w. unfold rule_matches. split.
  - intros [e [Hin Hm]]. apply in_app_or in Hin. destruct Hin; [left | right]; eauto.
  - intros [[e [Hin Hm]]|[e [Hin Hm]]]; exists e; (split; [|exact Hm]); apply in_or_app; auto.
Qed.

Lemma rule_matches_norm_map : forall K (l : list (rule K)) k w,
  rule_matches (map norm_rule l) k w <-> rule_matches l k w.
Proof.
  intros K l k w. unfold rule_matches. split.
  - intros [e [Hin Hm]]. apply in_map_iff in Hin. destruct Hin as [[k0 e0] [E Hin]].
    unfold norm_rule in E. cbn [fst snd] in E. inversion E; subst. apply norm_elim in Hm. eauto.
  - intros [e [Hin Hm]]. exists (norm e). split; [|apply norm_intro; exact Hm].
    apply (in_map norm_rule) in Hin. exact Hin.
Qed.

Lemma regex_rules_of_norm : forall K (kind : string -> option (option K)) l,
  regex_rules_of norm kind l = option_map (map norm_rule) (regex_rules_of raw kind l).
Proof.
  intros K kind. induction l as [|[n s] t IH]; [reflexivity|]. cbn [regex_rules_of].
  rewrite IH. destruct (kind n); [|reflexivity]. destruct (parse_re s); [|reflexivity].
  destruct (regex_rules_of raw kind t); reflexivity.
Qed.

Lemma or_poison_norm : forall K (bad : option K) o k w,
  rule_matches (or_poison bad (option_map (map norm_rule) o)) k w <-> rule_matches (or_poison bad o) k w.
Proof.
  intros K bad o k w. destruct o as [l|]; cbn [option_map or_poison]; [|reflexivity].
  apply rule_matches_norm_map.
Qed.

(* normalising the expressions does not change what the table matches *)
Theorem lex_rules_raw : forall k w, rule_matches lex_rules k w <-> rule_matches raw_lex_rules k w.
Proof.
  intros k w. unfold lex_rules, raw_lex_rules, regex_rules, raw_regex_rules.
  rewrite !rule_matches_app, regex_rules_of_norm, or_poison_norm. reflexivity.
Qed.

Theorem hlex_rules_raw : forall k w, rule_matches hlex_rules k w <-> rule_matches raw_hlex_rules k w.
Proof.
  intros k w. unfold hlex_rules, raw_hlex_rules, hlex_regex_rules, raw_hlex_regex_rules.
  rewrite !rule_matches_app, regex_rules_of_norm, or_poison_norm. reflexivity.
Qed.

(* ... and entry by entry: the rule of a regex variant of the source is in the raw table as parsed, and
   in the table of the theorems in normal form *)
Lemma regex_rules_of_in : forall K nf (kind : string -> option (option K)) l rs n s k e,
  regex_rules_of nf kind l = Some rs -> In (n, s) l -> kind n = Some k -> parse_re s = Some e ->
  In (k, nf e) rs.
Proof.
  intros K nf kind. induction l as [|[n0 s0] t IH]; intros rs n s k e H Hin Hk Hp; [contradiction|].
  cbn [regex_rules_of] in H.
  destruct (kind n0) as [k0|] eqn:K0; [|discriminate]. destruct (parse_re s0) as [e0|] eqn:P0; [|discriminate].
  destruct (regex_rules_of nf kind t) as [rs'|] eqn:R; [|discriminate]. inversion H; subst.
  destruct Hin as [Hin|Hin].
  - inversion Hin; subst. left. congruence.
  - right. eapply IH; eauto.
Qed.

Lemma regex_rules_some : (exists l, regex_rules = Some l) /\ (exists l, raw_regex_rules = Some l).
Proof. split; vm_compute; eexists; reflexivity. Qed.

Theorem gen_regex_rule : forall n s k e,
  In (n, s) gen_regexes -> regex_kind n = Some k -> parse_re s = Some e ->
  In (k, e) raw_lex_rules /\ In (k, norm e) lex_rules /\
  (forall w, re_matches e w -> rule_matches lex_rules k w).
Proof.
  intros n s k e Hin Hk Hp. destruct regex_rules_some as [[l1 E1] [l2 E2]].
  assert (A : In (k, norm e) lex_rules).
  { unfold lex_rules. apply in_or_app. left. rewrite E1. cbn [or_poison].
    eapply (regex_rules_of_in _ norm); eauto. }
  split; [|split; [exact A|]].
  - unfold raw_lex_rules. apply in_or_app. left. rewrite E2. cbn [or_poison].
    apply (regex_rules_of_in _ raw regex_kind gen_regexes l2 n s k e); assumption.
  - intros w Hm. exists (norm e). split; [exact A | apply norm_intro; exact Hm].
Qed.

(* ---- re-spellings that the normal form absorbs, and one that it must not *)
Example respell_class :
  option_map norm (parse_re "[a-fA-F0-9]") = option_map norm (parse_re "[0-9a-fA-F]").
Proof. vm_compute. reflexivity. Qed.
Example respell_hex :
  option_map norm (parse_re "0[xX][a-fA-F0-9]+") = option_map norm (parse_re "0[xX][0-9a-fA-F]+").
Proof. vm_compute. reflexivity. Qed.
Example respell_ident :
  option_map norm (parse_re "[A-Za-z_][A-Za-z_\d]*") = option_map norm (parse_re "[A-Za-z_]([A-Za-z]|_|\d)*").
Proof. vm_compute. reflexivity. Qed.
Example respell_bin :
  option_map norm (parse_re "0[bB][01][01]*") = option_map norm (parse_re "0[bB][01]+").
Proof. vm_compute. reflexivity. Qed.
Example respell_ws :
  option_map norm (parse_re "[ \t\f\r]+") = option_map norm (parse_re "[ \t\r\f]+").
Proof. vm_compute. reflexivity. Qed.
Example respell_hname :
  option_map norm (parse_re "[^\n\f\r\t ][^ \t\r\f\n]*") = option_map norm (parse_re "[^ \t\r\f\n]+").
Proof. vm_compute. reflexivity. Qed.
(* \d is the Unicode class Nd, not [0-9] *)
Example respell_dec_not :
  option_map norm (parse_re "[1-9]\d*") <> option_map norm (parse_re "[1-9][0-9]*").
Proof. vm_compute. discriminate. Qed.
(* ... and the difference is semantic: U+0661 (ARABIC-INDIC DIGIT ONE) after a 1 *)
Example respell_dec_not_sem : forall e1 e2,
  parse_re "[1-9]\d*" = Some e1 -> parse_re "[1-9][0-9]*" = Some e2 ->
  re_matches e1 [49; 1633] /\ ~ re_matches e2 [49; 1633].
Proof.
  intros e1 e2 H1 H2. vm_compute in H1, H2. inversion H1; inversion H2; subst. clear H1 H2. split.
  - apply (cat_star_char (RClass false [CRange 49 57]) (RClass false [CNd]) eq_refl eq_refl).
    exists 49, [1633]. split; [reflexivity|]. split; [reflexivity|].
    apply allp_cons. split; [vm_compute; reflexivity | apply allp_nil].
  - intro H.
    apply (cat_star_char (RClass false [CRange 49 57]) (RClass false [CRange 48 57]) eq_refl eq_refl) in H.
    destruct H as [c [u [E [_ Hu]]]]. inversion E; subst. apply allp_cons in Hu. destruct Hu as [Hu _].
    vm_compute in Hu. discriminate.
Qed.

(* ================================================================================================ *)
(* D. the scanner, by the class of the first character                                                *)

Inductive cls := CWs | CHash | CNl | CId | CDec | CZero | COther.

Definition fclass (c : N) : cls :=
  if is_ws c then CWs else if c =? 35 then CHash else if is_nl c then CNl
  else if is_ident_start c then CId else if is_dec_start c then CDec
  else if c =? 48 then CZero else COther.

Definition xhex (x : N) : bool := (x =? 120) || (x =? 88).
Definition xbin (x : N) : bool := (x =? 98) || (x =? 66).

Definition lex_oct (c : N) (r : text) : option (option tk * text * text) :=
  let (w, r') := span_while is_oct_digit r in Some (Some TOctInt, c :: w, r').

Definition lex_zero (c : N) (r : text) : option (option tk * text * text) :=
  match r with
  | x :: r1 =>
    if xhex x then
      let (h, r2) := span_while is_hex_digit r1 in
      match h with [] => lex_oct c r | _ => Some (Some THexInt, c :: x :: h, r2) end
    else if xbin x then
      let (h, r2) := span_while is_bin_digit r1 in
      match h with [] => lex_oct c r | _ => Some (Some TBinInt, c :: x :: h, r2) end
    else lex_oct c r
  | [] => lex_oct c r
  end.

Definition punct1_or_error (c : N) : tk :=
  match punct1 c with Some k => k | None => TError end.

Definition lex_punct (c : N) (r : text) : option (option tk * text * text) :=
  match r with
  | d :: r1 =>
    match punct2 c d with
    | Some k => Some (Some k, [c; d], r1)
    | None => Some (Some (punct1_or_error c), [c], r)
    end
  | [] => Some (Some (punct1_or_error c), [c], r)
  end.

Lemma lex_one_cons : forall c r, lex_one (c :: r) =
  match fclass c with
  | CWs => let (w, r') := span_while is_ws r in Some (None, c :: w, r')
  | CHash => let (w, r') := span_while notnl r in Some (None, c :: w, r')
  | CNl => Some (Some TEol, [c], r)
  | CId => let (w, r') := span_while is_ident_cont r in
           Some (Some (ident_kind (c :: w) r'), c :: w, r')
  | CDec => let (w, r') := span_while is_dec_digit r in Some (Some TDecInt, c :: w, r')
  | CZero => lex_zero c r
  | COther => lex_punct c r
  end.
Proof.
  intros c r. unfold lex_one, fclass.
  destruct (is_ws c); [reflexivity|]. destruct (c =? 35); [reflexivity|].
  destruct (is_nl c); [reflexivity|]. destruct (is_ident_start c); [reflexivity|].
  destruct (is_dec_start c); [reflexivity|]. destruct (c =? 48); [reflexivity|].
  unfold lex_punct, punct1_or_error. destruct r as [|d r1].
  - destruct (punct1 c); reflexivity.
  - destruct (punct2 c d); [reflexivity|]. destruct (punct1 c); reflexivity.
Qed.

Ltac unfold_tests :=
  unfold xhex, xbin, is_ident_cont, is_ident_start, is_dec_start, is_dec_digit, is_oct_digit,
         is_bin_digit, is_hex_digit, is_ws, notnl, is_nl, in_range in *.

Ltac fclass_tac :=
  unfold fclass;
  repeat match goal with
  | |- context [if ?b then _ else _] =>
    let E := fresh "E" in destruct b eqn:E; try reflexivity; try (exfalso; unfold_tests; lia)
  end.

Lemma fclass_ws : forall c, is_ws c = true -> fclass c = CWs.
Proof. intros c H. fclass_tac. Qed.
Lemma fclass_hash : fclass 35 = CHash.
Proof. reflexivity. Qed.
Lemma fclass_nl : fclass 10 = CNl.
Proof. reflexivity. Qed.
Lemma fclass_id : forall c, is_ident_start c = true -> fclass c = CId.
Proof. intros c H. fclass_tac. Qed.
Lemma fclass_dec : forall c, is_dec_start c = true -> fclass c = CDec.
Proof. intros c H. fclass_tac. Qed.
Lemma fclass_zero : fclass 48 = CZero.
Proof. reflexivity. Qed.

Lemma fclass_inv : forall c,
  match fclass c with
  | CWs => is_ws c = true
  | CHash => c = 35
  | CNl => c = 10
  | CId => is_ident_start c = true
  | CDec => is_dec_start c = true
  | CZero => c = 48
  | COther => True
  end.
Proof.
  intro c. unfold fclass.
  destruct (is_ws c) eqn:E1; [reflexivity|]. destruct (c =? 35) eqn:E2; [apply N.eqb_eq; exact E2|].
  destruct (is_nl c) eqn:E3; [apply N.eqb_eq; exact E3|].
  destruct (is_ident_start c) eqn:E4; [reflexivity|]. destruct (is_dec_start c) eqn:E5; [reflexivity|].
  destruct (c =? 48) eqn:E6; [apply N.eqb_eq; exact E6|]. exact I.
Qed.

Ltac if_cases H :=
  repeat match type of H with
  | (if ?b then _ else _) = _ => let E := fresh "E" in destruct b eqn:E
  end.

Ltac eqb_subst :=
  repeat match goal with
  | E : (_ && _) = true |- _ => apply andb_true_iff in E; destruct E
  | E : (_ =? _) = true |- _ => apply N.eqb_eq in E; subst
  end.

Lemma fclass_punct1 : forall c k, punct1 c = Some k -> fclass c = COther.
Proof.
  intros c k H. unfold punct1 in H. if_cases H; try discriminate; eqb_subst; reflexivity.
Qed.

Lemma fclass_punct2 : forall c d k, punct2 c d = Some k -> fclass c = COther.
Proof.
  intros c d k H. unfold punct2 in H. if_cases H; try discriminate; eqb_subst; reflexivity.
Qed.

Lemma punct1_not_error : forall c, punct1 c <> Some TError.
Proof.
  intros c H. unfold punct1 in H. if_cases H; discriminate.
Qed.

Lemma punct2_not_error : forall c d, punct2 c d <> Some TError.
Proof.
  intros c d H. unfold punct2 in H. if_cases H; discriminate.
Qed.

(* ---- what lex_one returns, as a relation *)
Definition lspec (c : N) (r : text) (k : option tk) (u r' : text) : Prop :=
  match fclass c with
  | CWs => k = None /\ allp is_ws u /\ stops is_ws r'
  | CHash => k = None /\ allp notnl u /\ stops notnl r'
  | CNl => k = Some TEol /\ u = []
  | CId => k = Some (ident_kind (c :: u) r') /\ allp is_ident_cont u /\ stops is_ident_cont r'
  | CDec => k = Some TDecInt /\ allp is_dec_digit u /\ stops is_dec_digit r'
  | CZero =>
    (k = Some THexInt /\ exists x h, u = x :: h /\ xhex x = true /\ h <> [] /\
        allp is_hex_digit h /\ stops is_hex_digit r') \/
    (k = Some TBinInt /\ exists x h, u = x :: h /\ xbin x = true /\ h <> [] /\
        allp is_bin_digit h /\ stops is_bin_digit r') \/
    (k = Some TOctInt /\ allp is_oct_digit u /\ stops is_oct_digit r' /\
        forall x y t, r = x :: y :: t ->
          (xhex x = true -> is_hex_digit y = false) /\ (xbin x = true -> is_bin_digit y = false))
  | COther =>
    (exists d kk, u = [d] /\ k = Some kk /\ punct2 c d = Some kk) \/
    (u = [] /\ k = Some (punct1_or_error c) /\ forall d t, r = d :: t -> punct2 c d = None)
  end.

Lemma span_case : forall p r, exists a b,
  span_while p r = (a, b) /\ r = a ++ b /\ allp p a /\ stops p b.
Proof.
  intros p r. destruct (span_while p r) as [a b] eqn:E. exists a, b.
  split; [reflexivity|]. apply span_while_stops. exact E.
Qed.

Lemma lex_oct_spec : forall c r k w r', lex_oct c r = Some (k, w, r') ->
  exists u, w = c :: u /\ r = u ++ r' /\ k = Some TOctInt /\ allp is_oct_digit u /\ stops is_oct_digit r'.
Proof.
  intros c r k w r' H. unfold lex_oct in H.
  destruct (span_case is_oct_digit r) as [a [b [E [E1 [E2 E3]]]]]. rewrite E in H.
  inversion H; subst. exists a. auto.
Qed.

Lemma zero_neg : forall x r1,
  (xhex x = true -> stops is_hex_digit r1) -> (xbin x = true -> stops is_bin_digit r1) ->
  forall x' y t, x :: r1 = x' :: y :: t ->
    (xhex x' = true -> is_hex_digit y = false) /\ (xbin x' = true -> is_bin_digit y = false).
Proof.
  intros x r1 A B x' y t E. inversion E; subst.
  split; intro X; [apply A in X | apply B in X]; exact X.
Qed.

Lemma lex_zero_spec : forall c r k w r', lex_zero c r = Some (k, w, r') ->
  exists u, w = c :: u /\ r = u ++ r' /\
  ((k = Some THexInt /\ exists x h, u = x :: h /\ xhex x = true /\ h <> [] /\
        allp is_hex_digit h /\ stops is_hex_digit r') \/
    (k = Some TBinInt /\ exists x h, u = x :: h /\ xbin x = true /\ h <> [] /\
        allp is_bin_digit h /\ stops is_bin_digit r') \/
    (k = Some TOctInt /\ allp is_oct_digit u /\ stops is_oct_digit r' /\
        forall x y t, r = x :: y :: t ->
          (xhex x = true -> is_hex_digit y = false) /\ (xbin x = true -> is_bin_digit y = false))).
Proof.
  intros c r k w r' H. unfold lex_zero in H. destruct r as [|x r1].
  - apply lex_oct_spec in H. destruct H as [u [-> [E [-> [Hu Hs]]]]]. exists u.
    split; [reflexivity|]. split; [exact E|]. right. right.
    split; [reflexivity|]. split; [exact Hu|]. split; [exact Hs|]. intros x y t Ex. discriminate.
  - assert (Oct : lex_oct c (x :: r1) = Some (k, w, r') ->
        (xhex x = true -> stops is_hex_digit r1) -> (xbin x = true -> stops is_bin_digit r1) ->
        exists u, w = c :: u /\ x :: r1 = u ++ r' /\
          (k = Some TOctInt /\ allp is_oct_digit u /\ stops is_oct_digit r' /\
           forall x' y t, x :: r1 = x' :: y :: t ->
            (xhex x' = true -> is_hex_digit y = false) /\ (xbin x' = true -> is_bin_digit y = false))).
    { intros Ho A B. apply lex_oct_spec in Ho. destruct Ho as [u [-> [E [-> [Hu Hs]]]]]. exists u.
      split; [reflexivity|]. split; [exact E|].
      split; [reflexivity|]. split; [exact Hu|]. split; [exact Hs|]. apply zero_neg; assumption. }
    assert (Fin : (exists u, w = c :: u /\ x :: r1 = u ++ r' /\
          (k = Some TOctInt /\ allp is_oct_digit u /\ stops is_oct_digit r' /\
           forall x' y t, x :: r1 = x' :: y :: t ->
            (xhex x' = true -> is_hex_digit y = false) /\ (xbin x' = true -> is_bin_digit y = false))) ->
        exists u, w = c :: u /\ x :: r1 = u ++ r' /\
  ((k = Some THexInt /\ exists x h, u = x :: h /\ xhex x = true /\ h <> [] /\
        allp is_hex_digit h /\ stops is_hex_digit r') \/
    (k = Some TBinInt /\ exists x h, u = x :: h /\ xbin x = true /\ h <> [] /\
        allp is_bin_digit h /\ stops is_bin_digit r') \/
    (k = Some TOctInt /\ allp is_oct_digit u /\ stops is_oct_digit r' /\
        forall x' y t, x :: r1 = x' :: y :: t ->
          (xhex x' = true -> is_hex_digit y = false) /\ (xbin x' = true -> is_bin_digit y = false)))).
    { intros [u [A [B C]]]. exists u. split; [exact A|]. split; [exact B|]. right. right. exact C. }
    destruct (xhex x) eqn:Xh.
    + destruct (span_case is_hex_digit r1) as [h [r2 [E [E1 [E2 E3]]]]]. rewrite E in H.
      destruct h as [|y h].
      * cbn [app] in E1. subst r2. apply Fin. apply Oct; [exact H| |].
        -- intros _. exact E3.
        -- intro Xb. exfalso. unfold_tests. lia.
      * inversion H; subst. exists (x :: y :: h). split; [reflexivity|]. split; [reflexivity|].
        left. split; [reflexivity|]. exists x, (y :: h).
        split; [reflexivity|]. split; [exact Xh|]. split; [discriminate|]. split; [exact E2 | exact E3].
    + destruct (xbin x) eqn:Xb.
      * destruct (span_case is_bin_digit r1) as [h [r2 [E [E1 [E2 E3]]]]]. rewrite E in H.
        destruct h as [|y h].
        -- cbn [app] in E1. subst r2. apply Fin. apply Oct; [exact H| |].
           ++ intro X. discriminate.
           ++ intros _. exact E3.
        -- inversion H; subst. exists (x :: y :: h). split; [reflexivity|]. split; [reflexivity|].
           right. left. split; [reflexivity|]. exists x, (y :: h).
           split; [reflexivity|]. split; [exact Xb|]. split; [discriminate|]. split; [exact E2 | exact E3].
      * apply Fin. apply Oct; [exact H| |]; intro X; discriminate.
Qed.

Lemma lex_punct_spec : forall c r k w r', lex_punct c r = Some (k, w, r') ->
  exists u, w = c :: u /\ r = u ++ r' /\
  ((exists d kk, u = [d] /\ k = Some kk /\ punct2 c d = Some kk) \/
   (u = [] /\ k = Some (punct1_or_error c) /\ forall d t, r = d :: t -> punct2 c d = None)).
Proof.
  intros c r k w r' H. unfold lex_punct in H. destruct r as [|d r1].
  - inversion H; subst. exists []. repeat split. right. repeat split. discriminate.
  - destruct (punct2 c d) as [kk|] eqn:P2.
    + inversion H; subst. exists [d]. repeat split. left. exists d, kk. auto.
    + inversion H; subst. exists []. repeat split. right. repeat split.
      intros d' t E. inversion E; subst. exact P2.
Qed.

Lemma lex_one_spec : forall c r k w r', lex_one (c :: r) = Some (k, w, r') ->
  exists u, w = c :: u /\ r = u ++ r' /\ lspec c r k u r'.
Proof.
  intros c r k w r' H. rewrite lex_one_cons in H. unfold lspec. destruct (fclass c).
  - destruct (span_case is_ws r) as [a [b [E [E1 [E2 E3]]]]]. rewrite E in H.
    inversion H; subst. exists a. auto.
  - destruct (span_case notnl r) as [a [b [E [E1 [E2 E3]]]]]. rewrite E in H.
    inversion H; subst. exists a. auto.
  - inversion H; subst. exists []. auto.
  - destruct (span_case is_ident_cont r) as [a [b [E [E1 [E2 E3]]]]]. rewrite E in H.
    inversion H; subst. exists a. auto.
  - destruct (span_case is_dec_digit r) as [a [b [E [E1 [E2 E3]]]]]. rewrite E in H.
    inversion H; subst. exists a. auto.
  - apply lex_zero_spec. exact H.
  - apply lex_punct_spec. exact H.
Qed.

(* ================================================================================================ *)
(* E. the rule table, by the class of the first character                                             *)

Lemma kw_in : forall w kk, In (w, kk) gen_keywords ->
  exists c u, w = c :: u /\ is_ident_start c = true /\ allp is_ident_start u /\
              keyword_or_ident w = kk /\ kk <> TIdent /\ kk <> TError.
Proof.
  intros w kk H. vm_compute in H.
  repeat (destruct H as [H|H]; [inversion H; subst; clear H;
    (eexists; eexists; split; [reflexivity|]); (split; [reflexivity|]);
    (split; [repeat constructor|]); (split; [reflexivity|]); split; discriminate |]).
  contradiction.
Qed.

(* the scanner's own keyword table is included in the generated one (whatever the order) *)
Definition kw_eqb (a b : name * tk) : bool := name_eqb (fst a) (fst b) && tk_beq (snd a) (snd b).

Lemma keywords_gen : forall p, In p keywords -> In p gen_keywords.
Proof.
  apply (incl_b_sound _ kw_eqb); [|vm_compute; reflexivity].
  intros [n1 k1] [n2 k2] H. unfold kw_eqb in H. cbn [fst snd] in H.
  apply andb_true_iff in H. destruct H as [H1 H2]. apply name_eqb_eq in H1. apply tk_beq_eq in H2.
  subst. reflexivity.
Qed.

Lemma keyword_or_ident_cases : forall w,
  keyword_or_ident w = TIdent \/ In (w, keyword_or_ident w) gen_keywords.
Proof.
  intro w. unfold keyword_or_ident.
  destruct (find (fun kw => name_eqb (fst kw) w) keywords) as [[n k]|] eqn:F; [|left; reflexivity].
  right. apply find_some in F. destruct F as [Hin He]. cbn [fst] in He.
  apply name_eqb_eq in He. subst n. apply keywords_gen. exact Hin.
Qed.

Lemma punct_in : forall s kk, In (s, kk) gen_punct ->
  (exists c, s2n s = [c] /\ punct1 c = Some kk) \/
  (s2n s = [10] /\ kk = TEol) \/
  (exists c d, s2n s = [c; d] /\ punct2 c d = Some kk).
Proof.
  intros s kk H. unfold gen_punct in H. cbn [In] in H.
  repeat (destruct H as [H|H]; [inversion H; subst; clear H;
    first [ left; eexists; split; reflexivity
          | right; left; split; reflexivity
          | right; right; eexists; eexists; split; reflexivity ] |]).
  contradiction.
Qed.

Ltac pick_in := cbn [In]; repeat (first [left; reflexivity | right]).

Lemma punct1_in : forall c k, punct1 c = Some k -> exists s, In (s, k) gen_punct /\ s2n s = [c].
Proof.
  intros c k H. unfold punct1 in H. if_cases H; try discriminate; eqb_subst; inversion H; subst;
    (eexists; split; [unfold gen_punct; pick_in | reflexivity]).
Qed.

Lemma punct2_in : forall c d k, punct2 c d = Some k -> exists s, In (s, k) gen_punct /\ s2n s = [c; d].
Proof.
  intros c d k H. unfold punct2 in H. if_cases H; try discriminate; eqb_subst; inversion H; subst;
    (eexists; split; [unfold gen_punct; pick_in | reflexivity]).
Qed.

Lemma eol_in : exists s, In (s, TEol) gen_punct /\ s2n s = [10].
Proof. eexists; split; [unfold gen_punct; pick_in | reflexivity]. Qed.

(* the table, rule by rule *)
Definition flat (k : option tk) (w : text) : Prop :=
  (k = Some TIdent /\ re_matches re_ident w) \/
  (k = Some TDecInt /\ re_matches re_dec w) \/
  (k = Some THexInt /\ re_matches re_hex w) \/
  (k = Some TBinInt /\ re_matches re_bin w) \/
  (k = Some TOctInt /\ re_matches re_oct w) \/
  (k = None /\ re_matches re_ws w) \/
  (k = None /\ re_matches re_comment w) \/
  (exists kk, k = Some kk /\ In (w, kk) gen_keywords) \/
  (exists s kk, k = Some kk /\ In (s, kk) gen_punct /\ w = s2n s).

Lemma rule_matches_flat : forall k w, rule_matches lex_rules k w <-> flat k w.
Proof.
  intros k w. unfold rule_matches, flat, lex_rules. split.
  - intros [e [Hin Hm]]. apply in_app_or in Hin. destruct Hin as [Hin|Hin].
    + apply (proj1 (regex_rules_canon _ _)) in Hin. rewrite canonical_regex_rules_norm in Hin.
      apply in_map_iff in Hin. destruct Hin as [[k0 e0] [E Hin]]. unfold norm_rule in E.
      cbn [fst snd] in E. inversion E; subst. apply norm_elim in Hm. clear E.
      unfold readable_regex_rules in Hin. cbn [In] in Hin.
      repeat (destruct Hin as [Hin|Hin]; [inversion Hin; subst; clear Hin; tauto|]). contradiction.
    + apply in_app_or in Hin. destruct Hin as [Hin|Hin].
      * unfold keyword_rules in Hin. apply in_map_iff in Hin. destruct Hin as [[n kk] [E Hin]].
        cbn [fst snd] in E. inversion E; subst. apply lit_re_matches in Hm. subst.
        do 7 right. left. exists kk. auto.
      * unfold punct_rules in Hin. apply in_map_iff in Hin. destruct Hin as [[s kk] [E Hin]].
        cbn [fst snd] in E. inversion E; subst. apply lit_re_matches in Hm. subst.
        do 8 right. exists s, kk. auto.
  - intros H.
    repeat (destruct H as [H|H];
      [ destruct H as [-> Hm];
        match type of Hm with re_matches ?e0 _ =>
          exists (norm e0); split; [|apply norm_intro; exact Hm];
          apply in_or_app; left; apply (proj2 (regex_rules_canon _ _)); rewrite canonical_regex_rules_norm;
          match goal with |- In (?k0, _) _ => apply (in_map norm_rule readable_regex_rules (k0, e0)) end;
          unfold readable_regex_rules; pick_in
        end |]).
    destruct H as [H|H].
    + destruct H as [kk [-> Hin]]. exists (lit_re w). split; [|apply lit_re_matches; reflexivity].
      apply in_or_app. right. apply in_or_app. left. unfold keyword_rules.
      apply in_map_iff. exists (w, kk). auto.
    + destruct H as [s [kk [-> [Hin ->]]]]. exists (lit_re (s2n s)).
      split; [|apply lit_re_matches; reflexivity].
      apply in_or_app. right. apply in_or_app. right. unfold punct_rules.
      apply in_map_iff. exists (s, kk). auto.
Qed.

(* the rules that can match a text starting with c, by the class of c *)
Definition shape (c : N) (k : option tk) (u : text) : Prop :=
  match fclass c with
  | CWs => k = None /\ allp is_ws u
  | CHash => k = None /\ allp notnl u
  | CNl => k = Some TEol /\ u = []
  | CId => allp is_ident_cont u /\
           (k = Some TIdent \/ exists kk, k = Some kk /\ In (c :: u, kk) gen_keywords)
  | CDec => k = Some TDecInt /\ allp is_dec_digit u
  | CZero =>
    (k = Some THexInt /\ exists x h, u = x :: h /\ xhex x = true /\ h <> [] /\ allp is_hex_digit h) \/
    (k = Some TBinInt /\ exists x h, u = x :: h /\ xbin x = true /\ h <> [] /\ allp is_bin_digit h) \/
    (k = Some TOctInt /\ allp is_oct_digit u)
  | COther =>
    (exists d kk, u = [d] /\ k = Some kk /\ punct2 c d = Some kk) \/
    (u = [] /\ exists kk, k = Some kk /\ punct1 c = Some kk)
  end.

Lemma ident_start_cont : forall x, is_ident_start x = true -> is_ident_cont x = true.
Proof. intros x H. unfold is_ident_cont. rewrite H. reflexivity. Qed.

Lemma flat_nonempty : forall k, ~ flat k [].
Proof.
  intros k H. unfold flat in H.
  destruct H as [[_ H]|[[_ H]|[[_ H]|[[_ H]|[[_ H]|[[_ H]|[[_ H]|[H|H]]]]]]]].
  - apply ident_lang in H. destruct H as [c [u [E _]]]. discriminate.
  - apply dec_lang in H. destruct H as [c [u [E _]]]. discriminate.
  - apply hex_lang in H. destruct H as [c [u [E _]]]. discriminate.
  - apply bin_lang in H. destruct H as [c [u [E _]]]. discriminate.
  - apply oct_lang in H. destruct H as [c [u [E _]]]. discriminate.
  - apply ws_lang in H. destruct H as [E _]. congruence.
  - apply comment_lang in H. destruct H as [c [u [E _]]]. discriminate.
  - destruct H as [kk [_ Hin]]. apply kw_in in Hin. destruct Hin as [c [u [E _]]]. discriminate.
  - destruct H as [s [kk [_ [Hin E]]]]. apply punct_in in Hin.
    destruct Hin as [[c [E1 _]]|[[E1 _]|[c [d [E1 _]]]]]; congruence.
Qed.

Lemma flat_shape : forall k c u, flat k (c :: u) -> shape c k u.
Proof.
  intros k c u H. unfold flat in H. unfold shape.
  destruct H as [[-> H]|[[-> H]|[[-> H]|[[-> H]|[[-> H]|[[-> H]|[[-> H]|[H|H]]]]]]]].
  - apply ident_lang in H. destruct H as [c' [u' [E [Hc Hu]]]]. inversion E; subst.
    rewrite (fclass_id _ Hc). auto.
  - apply dec_lang in H. destruct H as [c' [u' [E [Hc Hu]]]]. inversion E; subst.
    rewrite (fclass_dec _ Hc). auto.
  - apply hex_lang in H. destruct H as [x [h [E H]]]. inversion E; subst.
    rewrite fclass_zero. left. split; [reflexivity|]. exists x, h. auto.
  - apply bin_lang in H. destruct H as [x [h [E H]]]. inversion E; subst.
    rewrite fclass_zero. right. left. split; [reflexivity|]. exists x, h. auto.
  - apply oct_lang in H. destruct H as [c' [u' [E [Hc Hu]]]]. inversion E; subst.
    apply N.eqb_eq in Hc. subst. rewrite fclass_zero. right. right. auto.
  - apply ws_lang in H. destruct H as [_ H]. apply allp_cons in H. destruct H as [Hc Hu].
    rewrite (fclass_ws _ Hc). auto.
  - apply comment_lang in H. destruct H as [c' [u' [E [Hc Hu]]]]. inversion E; subst.
    apply N.eqb_eq in Hc. subst. rewrite fclass_hash. auto.
  - destruct H as [kk [-> Hin]]. destruct (kw_in _ _ Hin) as [c' [u' [E [Hc [Hu _]]]]].
    inversion E; subst. rewrite (fclass_id _ Hc). split.
    + eapply allp_impl; [|exact Hu]. exact ident_start_cont.
    + right. exists kk. auto.
  - destruct H as [s [kk [-> [Hin E]]]]. apply punct_in in Hin.
    destruct Hin as [[c' [E1 P]]|[[E1 ->]|[c' [d [E1 P]]]]]; rewrite E1 in E; inversion E; subst.
    + rewrite (fclass_punct1 _ _ P). right. split; [reflexivity|]. exists kk. auto.
    + rewrite fclass_nl. auto.
    + rewrite (fclass_punct2 _ _ _ P). left. exists d, kk. auto.
Qed.

Lemma shape_flat : forall k c u, shape c k u -> flat k (c :: u).
Proof.
  intros k c u H. unfold shape in H. pose proof (fclass_inv c) as Hc. unfold flat.
  destruct (fclass c).
  - destruct H as [-> Hu]. do 5 right. left. split; [reflexivity|]. apply ws_lang.
    split; [discriminate|]. apply allp_cons. auto.
  - destruct H as [-> Hu]. subst c. do 6 right. left. split; [reflexivity|]. apply comment_lang.
    exists 35, u. auto.
  - destruct H as [-> ->]. subst c. do 8 right. destruct eol_in as [s [Hin E]].
    exists s, TEol. auto.
  - destruct H as [Hu [->|[kk [-> Hin]]]].
    + left. split; [reflexivity|]. apply ident_lang. exists c, u. auto.
    + do 7 right. left. exists kk. auto.
  - destruct H as [-> Hu]. right. left. split; [reflexivity|]. apply dec_lang. exists c, u. auto.
  - subst c. destruct H as [[-> H]|[[-> H]|[-> H]]].
    + do 2 right. left. split; [reflexivity|]. apply hex_lang.
      destruct H as [x [h [-> H]]]. exists x, h. auto.
    + do 3 right. left. split; [reflexivity|]. apply bin_lang.
      destruct H as [x [h [-> H]]]. exists x, h. auto.
    + do 4 right. left. split; [reflexivity|]. apply oct_lang. exists 48, u. auto.
  - destruct H as [[d [kk [-> [-> P]]]]|[-> [kk [-> P]]]]; do 8 right.
    + destruct (punct2_in _ _ _ P) as [s [Hin E]]. exists s, kk. auto.
    + destruct (punct1_in _ _ P) as [s [Hin E]]. exists s, kk. auto.
Qed.

Lemma rules_shape : forall k c u, rule_matches lex_rules k (c :: u) <-> shape c k u.
Proof.
  intros k c u. rewrite rule_matches_flat. split; [apply flat_shape | apply shape_flat].
Qed.

Lemma rules_nonempty : forall k, ~ rule_matches lex_rules k [].
Proof. intros k H. apply rule_matches_flat in H. exact (flat_nonempty k H). Qed.

(* ================================================================================================ *)
(* F. lex_one is the longest-match lexer of lex_rules                                                 *)

Lemma ident_kind_cases : forall w r,
  ident_kind w r = TIdent \/ In (w, ident_kind w r) gen_keywords.
Proof.
  intros w r. unfold ident_kind. destruct r as [|d r]; [apply keyword_or_ident_cases|].
  destruct ((128 <=? d) && is_nd_lead (utf8_lead d)); [left; reflexivity|].
  apply keyword_or_ident_cases.
Qed.

Lemma ident_kind_not_error : forall w r, ident_kind w r <> TError.
Proof.
  intros w r. destruct (ident_kind_cases w r) as [E|Hin]; [congruence|].
  apply kw_in in Hin. destruct Hin as [c [u [_ [_ [_ [_ [_ X]]]]]]]. exact X.
Qed.

Lemma lex_one_some : forall c r, exists k w r', lex_one (c :: r) = Some (k, w, r').
Proof.
  intros c r. rewrite lex_one_cons.
  assert (Oct : forall r0, exists k w r', lex_oct c r0 = Some (k, w, r')).
  { intro r0. unfold lex_oct. destruct (span_while is_oct_digit r0). eauto. }
  destruct (fclass c).
  - destruct (span_while is_ws r). eauto.
  - destruct (span_while notnl r). eauto.
  - eauto.
  - destruct (span_while is_ident_cont r). eauto.
  - destruct (span_while is_dec_digit r). eauto.
  - unfold lex_zero. destruct r as [|x r1]; [apply Oct|].
    destruct (xhex x).
    + destruct (span_while is_hex_digit r1) as [h r2]. destruct h; [apply Oct | eauto].
    + destruct (xbin x); [|apply Oct].
      destruct (span_while is_bin_digit r1) as [h r2]. destruct h; [apply Oct | eauto].
  - unfold lex_punct. destruct r as [|d r1]; [eauto|]. destruct (punct2 c d); eauto.
Qed.

(* (a) *)
Theorem lex_one_partition : forall s,
  (forall k w r, lex_one s = Some (k, w, r) -> s = w ++ r /\ w <> []) /\
  (lex_one s = None <-> s = []).
Proof.
  intro s. split.
  - intros k w r H. destruct s as [|c r0]; [discriminate|].
    apply lex_one_spec in H. destruct H as [u [-> [-> _]]]. split; [reflexivity | discriminate].
  - split; intro H.
    + destruct s as [|c r0]; [reflexivity|].
      destruct (lex_one_some c r0) as [k [w [r' E]]]. congruence.
    + subst. reflexivity.
Qed.

Lemma lspec_shape : forall c r0 k u r, lspec c r0 k u r -> k <> Some TError -> shape c k u.
Proof.
  intros c r0 k u r L Hk. unfold lspec in L. unfold shape. destruct (fclass c).
  - tauto.
  - tauto.
  - tauto.
  - destruct L as [-> [Lu Ls]]. split; [exact Lu|].
    destruct (ident_kind_cases (c :: u) r) as [E|Hin].
    + left. rewrite E. reflexivity.
    + right. eexists. split; [reflexivity | exact Hin].
  - tauto.
  - destruct L as [[-> [x [h H]]]|[[-> [x [h H]]]|[-> H]]].
    + left. split; [reflexivity|]. exists x, h. tauto.
    + right. left. split; [reflexivity|]. exists x, h. tauto.
    + right. right. tauto.
  - destruct L as [L|[-> [-> N]]]; [left; exact L|]. right. split; [reflexivity|].
    unfold punct1_or_error in *. destruct (punct1 c) as [kk|]; [|congruence]. exists kk. auto.
Qed.

(* (b) *)
Theorem lex_one_sound : forall s k w r, lex_one s = Some (k, w, r) -> k <> Some TError ->
  rule_matches lex_rules k w.
Proof.
  intros s k w r H Hk. destruct s as [|c r0]; [discriminate|].
  apply lex_one_spec in H. destruct H as [u [-> [_ L]]].
  apply rules_shape. eapply lspec_shape; eassumption.
Qed.

Lemma len_cons_le : forall (x y : N) a b, (length a <= length b)%nat ->
  (length (x :: a) <= length (y :: b))%nat.
Proof. intros. cbn [List.length]. lia. Qed.

(* the core of (c) and (d): whatever rule matches a prefix, the scanner did not answer Error and its
   lexeme is at least as long *)
Lemma lspec_shape_max : forall c k u r k' u' r',
  lspec c (u ++ r) k u r -> shape c k' u' -> u ++ r = u' ++ r' ->
  k <> Some TError /\ (length u' <= length u)%nat.
Proof.
  intros c k u r k' u' r' L S E. unfold lspec in L. unfold shape in S. destruct (fclass c).
  - destruct L as [-> [Lu Ls]]. destruct S as [_ Su]. split; [discriminate|].
    eapply prefix_max; eassumption.
  - destruct L as [-> [Lu Ls]]. destruct S as [_ Su]. split; [discriminate|].
    eapply prefix_max; eassumption.
  - destruct L as [-> ->]. destruct S as [_ ->]. split; [discriminate | apply le_n].
  - destruct L as [-> [Lu Ls]]. destruct S as [Su _]. split.
    + intro X. inversion X. eapply ident_kind_not_error; eassumption.
    + eapply prefix_max; eassumption.
  - destruct L as [-> [Lu Ls]]. destruct S as [_ Su]. split; [discriminate|].
    eapply prefix_max; eassumption.
  - destruct L as [[-> [x [h [-> [X [Hne [Lh Ls]]]]]]]|[[-> [x [h [-> [X [Hne [Lh Ls]]]]]]]|[-> [Lu [Ls N]]]]];
      (split; [discriminate|]).
    + destruct S as [[_ [x' [h' [-> [X' [Hne' Sh]]]]]]|[[_ [x' [h' [-> [X' [Hne' Sh]]]]]]|[_ Su]]].
      * cbn [app] in E. inversion E; subst. apply len_cons_le. eapply prefix_max; eassumption.
      * cbn [app] in E. inversion E; subst. exfalso. unfold_tests. lia.
      * destruct u' as [|y t]; [cbn [List.length]; lia|]. cbn [app] in E. inversion E; subst.
        apply allp_cons in Su. destruct Su as [Sy _]. exfalso. unfold_tests. lia.
    + destruct S as [[_ [x' [h' [-> [X' [Hne' Sh]]]]]]|[[_ [x' [h' [-> [X' [Hne' Sh]]]]]]|[_ Su]]].
      * cbn [app] in E. inversion E; subst. exfalso. unfold_tests. lia.
      * cbn [app] in E. inversion E; subst. apply len_cons_le. eapply prefix_max; eassumption.
      * destruct u' as [|y t]; [cbn [List.length]; lia|]. cbn [app] in E. inversion E; subst.
        apply allp_cons in Su. destruct Su as [Sy _]. exfalso. unfold_tests. lia.
    + destruct S as [[_ [x' [h' [-> [X' [Hne' Sh]]]]]]|[[_ [x' [h' [-> [X' [Hne' Sh]]]]]]|[_ Su]]].
      * destruct h' as [|y t]; [congruence|]. cbn [app] in E.
        destruct (N _ _ _ E) as [A _]. apply allp_cons in Sh. destruct Sh as [Sy _].
        specialize (A X'). congruence.
      * destruct h' as [|y t]; [congruence|]. cbn [app] in E.
        destruct (N _ _ _ E) as [_ B]. apply allp_cons in Sh. destruct Sh as [Sy _].
        specialize (B X'). congruence.
      * eapply prefix_max; eassumption.
  - destruct L as [[d [kk [-> [-> P]]]]|[-> [-> N]]].
    + split.
      * intro X. inversion X; subst. exact (punct2_not_error _ _ P).
      * destruct S as [[d' [kk' [-> _]]]|[-> _]]; cbn [List.length]; lia.
    + destruct S as [[d' [kk' [-> [_ P]]]]|[-> [kk' [_ P]]]].
      * cbn [app] in E. rewrite (N _ _ E) in P. discriminate.
      * split; [|apply le_n]. unfold punct1_or_error. rewrite P. intro X. inversion X; subst.
        exact (punct1_not_error _ P).
Qed.

Lemma prefix_shape : forall c r0 k w r k' w' r',
  lex_one (c :: r0) = Some (k, w, r) -> rule_matches lex_rules k' w' -> c :: r0 = w' ++ r' ->
  k <> Some TError /\ (length w' <= length w)%nat.
Proof.
  intros c r0 k w r k' w' r' H M E. destruct w' as [|c' u']; [exfalso; exact (rules_nonempty _ M)|].
  cbn [app] in E. inversion E; subst c' r0. apply rules_shape in M.
  apply lex_one_spec in H. destruct H as [u [-> [E1 L]]]. rewrite E1 in L.
  destruct (lspec_shape_max _ _ _ _ _ _ _ L M (eq_sym E1)) as [A B].
  split; [exact A | apply len_cons_le; exact B].
Qed.

(* (c) *)
Theorem lex_one_longest : forall s k w r, lex_one s = Some (k, w, r) -> k <> Some TError ->
  forall k' w' r', rule_matches lex_rules k' w' -> s = w' ++ r' -> (length w' <= length w)%nat.
Proof.
  intros s k w r H _ k' w' r' M E. destruct s as [|c r0]; [discriminate|].
  eapply prefix_shape; eassumption.
Qed.

(* (d) *)
Theorem lex_one_error : forall s w r, lex_one s = Some (Some TError, w, r) ->
  (exists c, w = [c]) /\
  forall k' w' r', s = w' ++ r' -> w' <> [] -> ~ rule_matches lex_rules k' w'.
Proof.
  intros s w r H. destruct s as [|c r0]; [discriminate|]. split.
  - apply lex_one_spec in H. destruct H as [u [-> [_ L]]]. exists c. f_equal.
    unfold lspec in L. destruct (fclass c).
    + destruct L as [X _]. discriminate.
    + destruct L as [X _]. discriminate.
    + tauto.
    + destruct L as [X _]. inversion X. exfalso. eapply ident_kind_not_error. symmetry. eassumption.
    + destruct L as [X _]. discriminate.
    + destruct L as [[X _]|[[X _]|[X _]]]; discriminate.
    + destruct L as [[d [kk [_ [X P]]]]|[-> _]]; [|reflexivity].
      inversion X; subst. exfalso. exact (punct2_not_error _ _ P).
  - intros k' w' r' E _ M. destruct (prefix_shape _ _ _ _ _ _ _ _ H M E) as [A _]. congruence.
Qed.

(* ---- (e) priorities *)

Lemma kw_fun : forall w k1 k2, In (w, k1) gen_keywords -> In (w, k2) gen_keywords -> k1 = k2.
Proof.
  intros w k1 k2 H1 H2. apply kw_in in H1. apply kw_in in H2.
  destruct H1 as [_ [_ [_ [_ [_ [E1 _]]]]]]. destruct H2 as [_ [_ [_ [_ [_ [E2 _]]]]]]. congruence.
Qed.

Lemma shape_overlap : forall c k1 k2 u, shape c (Some k1) u -> shape c k2 u ->
  k2 = Some k1 \/
  (keyword_kind k1 /\ k2 = Some TIdent) \/
  (k1 = TIdent /\ exists kk, k2 = Some kk /\ In (c :: u, kk) gen_keywords).
Proof.
  intros c k1 k2 u S1 S2. unfold shape in *. destruct (fclass c).
  - destruct S1 as [X _]. discriminate.
  - destruct S1 as [X _]. discriminate.
  - destruct S1 as [X _]. destruct S2 as [Y _]. left. congruence.
  - destruct S1 as [_ [X|[kk1 [X H1]]]]; destruct S2 as [_ [Y|[kk2 [Y H2]]]]; inversion X; subst.
    + left. reflexivity.
    + right. right. split; [reflexivity|]. exists kk2. auto.
    + right. left. split; [|reflexivity]. exists (c :: u). exact H1.
    + left. f_equal. eapply kw_fun; eassumption.
  - destruct S1 as [X _]. destruct S2 as [Y _]. left. congruence.
  - left.
    destruct S1 as [[X [x [h [-> [Hx [Hne Hh]]]]]]|[[X [x [h [-> [Hx [Hne Hh]]]]]]|[X Hu]]];
    destruct S2 as [[Y [x' [h' [E' [Hx' [Hne' Hh']]]]]]|[[Y [x' [h' [E' [Hx' [Hne' Hh']]]]]]|[Y Hu']]];
    try congruence; exfalso;
    try (inversion E'; subst);
    repeat match goal with H : allp _ (_ :: _) |- _ => apply allp_cons in H; destruct H end;
    unfold_tests; lia.
  - left.
    destruct S1 as [[d [kk [-> [X P]]]]|[-> [kk [X P]]]];
    destruct S2 as [[d' [kk' [E' [Y P']]]]|[E' [kk' [Y P']]]]; try discriminate.
    + inversion E'; subst. congruence.
    + congruence.
Qed.

Lemma ident_kind_kw : forall w kk r, In (w, kk) gen_keywords ->
  (nd_lead_quirk r /\ ident_kind w r = TIdent) \/ (~ nd_lead_quirk r /\ ident_kind w r = kk).
Proof.
  intros w kk r Hin. apply kw_in in Hin. destruct Hin as [_ [_ [_ [_ [_ [E _]]]]]].
  unfold ident_kind, nd_lead_quirk. destruct r as [|d r1].
  - right. split; [|exact E]. intros [d [r' [X _]]]. discriminate.
  - destruct ((128 <=? d) && is_nd_lead (utf8_lead d)) eqn:Q.
    + left. split; [|reflexivity]. apply andb_true_iff in Q. destruct Q as [Q1 Q2].
      apply N.leb_le in Q1. exists d, r1. auto.
    + right. split; [|exact E]. intros [d' [r' [X [Q1 Q2]]]]. inversion X; subst.
      apply N.leb_le in Q1. rewrite Q1, Q2 in Q. discriminate.
Qed.

Lemma lex_one_kw_kind : forall s k w r kk, lex_one s = Some (Some k, w, r) ->
  In (w, kk) gen_keywords -> k = ident_kind w r.
Proof.
  intros s k w r kk H Hin. destruct s as [|c r0]; [discriminate|].
  apply lex_one_spec in H. destruct H as [u [-> [_ L]]].
  destruct (kw_in _ _ Hin) as [c' [u' [E [Hc _]]]]. inversion E; subst c' u'.
  unfold lspec in L. rewrite (fclass_id _ Hc) in L. destruct L as [X _]. congruence.
Qed.

Theorem lex_one_priority : forall s k w r k', lex_one s = Some (Some k, w, r) ->
  rule_matches lex_rules (Some k') w ->
  k' = k \/
  (keyword_kind k /\ k' = TIdent) \/
  (k = TIdent /\ In (w, k') gen_keywords /\ nd_lead_quirk r).
Proof.
  intros s k w r k' H M. destruct (proj1 (lex_one_partition s) _ _ _ H) as [Es Hne].
  assert (Hk : Some k <> Some TError).
  { intro X. inversion X; subst k. apply lex_one_error in H. destruct H as [_ H].
    exact (H _ _ _ Es Hne M). }
  pose proof H as H0. destruct s as [|c r0]; [discriminate|].
  apply lex_one_spec in H. destruct H as [u [-> [_ L]]].
  apply rules_shape in M. pose proof (lspec_shape _ _ _ _ _ L Hk) as S1.
  destruct (shape_overlap _ _ _ _ S1 M) as [X|[[K X]|[-> [kk [X Hin]]]]].
  - left. congruence.
  - right. left. split; [exact K | congruence].
  - right. right. inversion X; subst kk. split; [reflexivity|]. split; [exact Hin|].
    pose proof (lex_one_kw_kind _ _ _ _ _ H0 Hin) as E.
    destruct (ident_kind_kw _ _ r Hin) as [[Q _]|[_ E2]]; [exact Q|].
    apply kw_in in Hin. destruct Hin as [_ [_ [_ [_ [_ [_ [N _]]]]]]]. congruence.
Qed.

(* a skipped rule never matches the lexeme of a token *)
Theorem lex_one_not_skipped : forall s k w r, lex_one s = Some (Some k, w, r) ->
  ~ rule_matches lex_rules None w.
Proof.
  intros s k w r H M. destruct (proj1 (lex_one_partition s) _ _ _ H) as [Es Hne].
  assert (Hk : Some k <> Some TError).
  { intro X. inversion X; subst k. apply lex_one_error in H. destruct H as [_ H].
    exact (H _ _ _ Es Hne M). }
  destruct s as [|c r0]; [discriminate|].
  apply lex_one_spec in H. destruct H as [u [-> [_ L]]].
  apply rules_shape in M. pose proof (lspec_shape _ _ _ _ _ L Hk) as S1.
  destruct (shape_overlap _ _ _ _ S1 M) as [X|[[K X]|[_ [kk [X _]]]]]; discriminate.
Qed.

(* the positive version: a keyword text not followed by the quirk character is that keyword *)
Theorem lex_one_keyword : forall s k w r kk, lex_one s = Some (Some k, w, r) ->
  In (w, kk) gen_keywords -> ~ nd_lead_quirk r -> k = kk.
Proof.
  intros s k w r kk H Hin Q. rewrite (lex_one_kw_kind _ _ _ _ _ H Hin).
  destruct (ident_kind_kw _ _ r Hin) as [[Q' _]|[_ E]]; [contradiction | exact E].
Qed.

(* ... and with the quirk it is an identifier (the exception does occur) *)
Theorem lex_one_keyword_quirk : forall s k w r kk, lex_one s = Some (Some k, w, r) ->
  In (w, kk) gen_keywords -> nd_lead_quirk r -> k = TIdent.
Proof.
  intros s k w r kk H Hin Q. rewrite (lex_one_kw_kind _ _ _ _ _ H Hin).
  destruct (ident_kind_kw _ _ r Hin) as [[_ E]|[Q' _]]; [exact E | contradiction].
Qed.

Example quirk_occurs :
  lex_one (s2n "loop" ++ [128512]) = Some (Some TIdent, s2n "loop", [128512]) /\
  nd_lead_quirk [128512] /\ lex_one [128512] = Some (Some TError, [128512], []).
Proof.
  split; [vm_compute; reflexivity|]. split; [|vm_compute; reflexivity].
  exists 128512, []. split; [reflexivity|]. split; [lia | vm_compute; reflexivity].
Qed.

(* ================================================================================================ *)
(* G. the header lexer                                                                                *)

Definition hflat (k : option htk) (w : text) : Prop :=
  (k = Some HName /\ w <> [] /\ allp is_name_char w) \/
  (k = None /\ w <> [] /\ allp is_ws w) \/
  (k = Some HEol /\ w = [10]).

Lemma hcanon_flat : forall k e w, In (k, e) canonical_hlex_rules -> re_matches e w -> hflat k w.
Proof.
  intros k e w Hin Hm. unfold canonical_hlex_rules in Hin. cbn [In] in Hin. unfold hflat.
  destruct Hin as [Hin|[Hin|[Hin|[]]]]; inversion Hin; subst; clear Hin.
  - left. split; [reflexivity|]. apply hname_lang. apply norm_elim. exact Hm.
  - right. left. split; [reflexivity|]. apply ws_lang. apply norm_elim. exact Hm.
  - right. right. split; [reflexivity|]. apply lit_re_matches. exact Hm.
Qed.

Lemma hrule_matches_flat : forall k w, rule_matches hlex_rules k w <-> hflat k w.
Proof.
  intros k w. unfold rule_matches. split.
  - intros [e [Hin Hm]]. apply (proj1 (hlex_rules_canon _ _)) in Hin. eapply hcanon_flat; eassumption.
  - unfold hflat. intros [[-> H]|[[-> H]|[-> ->]]].
    + exists canon_hname. split; [apply (proj2 (hlex_rules_canon _ _)); unfold canonical_hlex_rules; pick_in|].
      rewrite canon_hname_norm. apply norm_intro. apply hname_lang. exact H.
    + exists canon_ws. split; [apply (proj2 (hlex_rules_canon _ _)); unfold canonical_hlex_rules; pick_in|].
      rewrite canon_ws_norm. apply norm_intro. apply ws_lang. exact H.
    + exists (lit_re [10]). split; [apply (proj2 (hlex_rules_canon _ _)); unfold canonical_hlex_rules; pick_in|].
      apply lit_re_matches. reflexivity.
Qed.

Lemma hflat_fun : forall k1 k2 w, hflat k1 w -> hflat k2 w -> k1 = k2.
Proof.
  intros k1 k2 w H1 H2. unfold hflat in *.
  destruct H1 as [[-> [N1 A1]]|[[-> [N1 A1]]|[-> E1]]]; destruct H2 as [[-> [N2 A2]]|[[-> [N2 A2]]|[-> E2]]];
    try reflexivity; exfalso; subst;
    try (destruct w as [|c w]; [congruence|]);
    repeat match goal with H : allp _ (_ :: _) |- _ => apply allp_cons in H; destruct H end;
    unfold is_name_char in *; unfold_tests; lia.
Qed.

(* no two header rules match the same text (so the header lexer needs no priorities) *)
Theorem hlex_rules_disjoint : forall k1 e1 k2 e2 w,
  In (k1, e1) hlex_rules -> In (k2, e2) hlex_rules -> re_matches e1 w -> re_matches e2 w ->
  (k1, e1) = (k2, e2).
Proof.
  intros k1 e1 k2 e2 w H1 H2 M1 M2. apply (proj1 (hlex_rules_canon _ _)) in H1. apply (proj1 (hlex_rules_canon _ _)) in H2.
  pose proof (hflat_fun _ _ _ (hcanon_flat _ _ _ H1 M1) (hcanon_flat _ _ _ H2 M2)) as E.
  unfold canonical_hlex_rules in H1, H2. cbn [In] in H1, H2.
  destruct H1 as [H1|[H1|[H1|[]]]]; destruct H2 as [H2|[H2|[H2|[]]]];
    inversion H1; inversion H2; subst; try reflexivity; discriminate.
Qed.

Corollary hlex_rules_disjoint_kinds : forall k1 k2 w,
  rule_matches hlex_rules k1 w -> rule_matches hlex_rules k2 w -> k1 = k2.
Proof.
  intros k1 k2 w [e1 [H1 M1]] [e2 [H2 M2]].
  pose proof (hlex_rules_disjoint _ _ _ _ _ H1 H2 M1 M2) as E. congruence.
Qed.

Lemma hrules_nonempty : forall k, ~ rule_matches hlex_rules k [].
Proof.
  intros k H. apply hrule_matches_flat in H. destruct H as [[_ [H _]]|[[_ [H _]]|[_ H]]]; congruence.
Qed.

Definition hspec (c : N) (k : option htk) (u r' : text) : Prop :=
  (is_ws c = true /\ k = None /\ allp is_ws u /\ stops is_ws r') \/
  (is_ws c = false /\ is_nl c = true /\ k = Some HEol /\ u = []) \/
  (is_ws c = false /\ is_nl c = false /\ k = Some HName /\ allp is_name_char u /\ stops is_name_char r').

Lemma hlex_one_spec : forall c r k w r', hlex_one (c :: r) = Some (k, w, r') ->
  exists u, w = c :: u /\ r = u ++ r' /\ hspec c k u r'.
Proof.
  intros c r k w r' H. unfold hlex_one in H. unfold hspec. destruct (is_ws c) eqn:W.
  - destruct (span_case is_ws r) as [a [b [E [E1 [E2 E3]]]]]. rewrite E in H.
    inversion H; subst. exists a. split; [reflexivity|]. split; [reflexivity|]. left. auto.
  - destruct (is_nl c) eqn:Nl.
    + inversion H; subst. exists []. split; [reflexivity|]. split; [reflexivity|]. right. left. auto.
    + destruct (span_case is_name_char r) as [a [b [E [E1 [E2 E3]]]]]. rewrite E in H.
      inversion H; subst. exists a. split; [reflexivity|]. split; [reflexivity|]. right. right. auto.
Qed.

Lemma hlex_one_some : forall c r, exists k w r', hlex_one (c :: r) = Some (k, w, r').
Proof.
  intros c r. unfold hlex_one. destruct (is_ws c); [destruct (span_while is_ws r); eauto|].
  destruct (is_nl c); [eauto|]. destruct (span_while is_name_char r). eauto.
Qed.

(* (f)(a) *)
Theorem hlex_one_partition : forall s,
  (forall k w r, hlex_one s = Some (k, w, r) -> s = w ++ r /\ w <> []) /\
  (hlex_one s = None <-> s = []).
Proof.
  intro s. split.
  - intros k w r H. destruct s as [|c r0]; [discriminate|].
    apply hlex_one_spec in H. destruct H as [u [-> [-> _]]]. split; [reflexivity | discriminate].
  - split; intro H.
    + destruct s as [|c r0]; [reflexivity|].
      destruct (hlex_one_some c r0) as [k [w [r' E]]]. congruence.
    + subst. reflexivity.
Qed.

(* (f)(b): the header lexer has no Error kind, every answer is a rule of the table *)
Theorem hlex_one_sound : forall s k w r, hlex_one s = Some (k, w, r) -> rule_matches hlex_rules k w.
Proof.
  intros s k w r H. destruct s as [|c r0]; [discriminate|].
  apply hlex_one_spec in H. destruct H as [u [-> [_ L]]]. apply hrule_matches_flat. unfold hflat.
  destruct L as [[W [-> [Lu _]]]|[[W [Nl [-> ->]]]|[W [Nl [-> [Lu _]]]]]].
  - right. left. split; [reflexivity|]. split; [discriminate|]. apply allp_cons. auto.
  - right. right. split; [reflexivity|]. apply N.eqb_eq in Nl. subst. reflexivity.
  - left. split; [reflexivity|]. split; [discriminate|]. apply allp_cons. split; [|exact Lu].
    unfold is_name_char. rewrite W, Nl. reflexivity.
Qed.

(* (f)(c) *)
Theorem hlex_one_longest : forall s k w r, hlex_one s = Some (k, w, r) ->
  forall k' w' r', rule_matches hlex_rules k' w' -> s = w' ++ r' -> (length w' <= length w)%nat.
Proof.
  intros s k w r H k' w' r' M E. destruct s as [|c r0]; [discriminate|].
  destruct w' as [|c' u']; [exfalso; exact (hrules_nonempty _ M)|].
  cbn [app] in E. inversion E; subst c' r0.
  apply hlex_one_spec in H. destruct H as [u [-> [E1 L]]]. apply len_cons_le.
  apply hrule_matches_flat in M. unfold hflat in M. unfold hspec in L.
  destruct M as [[_ [_ Mu]]|[[_ [_ Mu]]|[_ Mu]]].
  - apply allp_cons in Mu. destruct Mu as [Mc Mu].
    destruct L as [[W _]|[[W [Nl _]]|[W [Nl [_ [Lu Ls]]]]]].
    + exfalso. unfold is_name_char in Mc. rewrite W in Mc. discriminate.
    + exfalso. unfold is_name_char in Mc. rewrite W, Nl in Mc. discriminate.
    + eapply prefix_max; [symmetry; exact E1 | exact Mu | exact Ls].
  - apply allp_cons in Mu. destruct Mu as [Mc Mu].
    destruct L as [[W [_ [Lu Ls]]]|[[W _]|[W _]]]; try congruence.
    eapply prefix_max; [symmetry; exact E1 | exact Mu | exact Ls].
  - inversion Mu; subst. cbn [List.length]. lia.
Qed.

(* (f)(d): there is no Error kind in the header lexer, and none is needed: on every non-empty text the
   scanner answers with a rule of the table (so some rule always matches a non-empty prefix) *)
Theorem hlex_one_no_error : forall s, s <> [] ->
  exists k w r, hlex_one s = Some (k, w, r) /\ s = w ++ r /\ w <> [] /\ rule_matches hlex_rules k w.
Proof.
  intros s Hs. destruct s as [|c r0]; [congruence|].
  destruct (hlex_one_some c r0) as [k [w [r E]]]. exists k, w, r. split; [exact E|].
  destruct (proj1 (hlex_one_partition (c :: r0)) _ _ _ E) as [A B].
  split; [exact A|]. split; [exact B|]. eapply hlex_one_sound. exact E.
Qed.

(* ================================================================================================ *)
(* H. whole inputs                                                                                    *)

Lemma lex_body_from_matches : forall f pos s ts, lex_body_from f pos s = Some ts ->
  Forall (fun t => tkind t <> TError -> tkind t <> TEof ->
                   rule_matches lex_rules (Some (tkind t)) (ttext t)) ts.
Proof.
  induction f as [|f IH]; intros pos s ts H; [discriminate|]. cbn [lex_body_from] in H.
  destruct (lex_one s) as [[[k w] r]|] eqn:E.
  - destruct (lex_body_from f (pos + text_bytes w) r) as [ts'|] eqn:E2; [|discriminate].
    apply IH in E2. destruct k as [kind|]; inversion H; subst; [|exact E2].
    constructor; [|exact E2]. cbn [tkind ttext]. intros Hk _.
    eapply lex_one_sound; [exact E|]. congruence.
  - inversion H; subst. constructor; [|constructor]. cbn [tkind]. congruence.
Qed.

(* (g) *)
Theorem lex_body_tokens_match : forall pos s ts, lex_body pos s = Some ts ->
  Forall (fun t => tkind t <> TError -> tkind t <> TEof ->
                   rule_matches lex_rules (Some (tkind t)) (ttext t)) ts.
Proof. intros pos s ts H. unfold lex_body in H. eapply lex_body_from_matches. exact H. Qed.

(* ================================================================================================ *)
(* the theorems and what they rest on *)
Check span_while_spec.
Check span_while_max.
Check star_char.
Check norm_sound.
Check parse_re_all_some.
Check lex_rules_canon.
Check hlex_rules_canon.
Check canonical_rules_normal.
Check lex_rules_raw.
Check hlex_rules_raw.
Check gen_regex_rule.
Check respell_class.
Check respell_hex.
Check respell_ident.
Check respell_bin.
Check respell_ws.
Check respell_hname.
Check respell_dec_not.
Check respell_dec_not_sem.
Check lex_one_partition.
Check lex_one_sound.
Check lex_one_longest.
Check lex_one_error.
Check lex_one_priority.
Check lex_one_not_skipped.
Check lex_one_keyword.
Check lex_one_keyword_quirk.
Check quirk_occurs.
Check hlex_rules_disjoint.
Check hlex_rules_disjoint_kinds.
Check hlex_one_partition.
Check hlex_one_sound.
Check hlex_one_longest.
Check hlex_one_no_error.
Check lex_body_tokens_match.

Print Assumptions span_while_spec.
Print Assumptions span_while_max.
Print Assumptions star_char.
Print Assumptions norm_sound.
Print Assumptions parse_re_all_some.
Print Assumptions lex_rules_canon.
Print Assumptions hlex_rules_canon.
Print Assumptions canonical_rules_normal.
Print Assumptions lex_rules_raw.
Print Assumptions hlex_rules_raw.
Print Assumptions gen_regex_rule.
Print Assumptions respell_class.
Print Assumptions respell_hex.
Print Assumptions respell_ident.
Print Assumptions respell_bin.
Print Assumptions respell_ws.
Print Assumptions respell_hname.
Print Assumptions respell_dec_not.
Print Assumptions respell_dec_not_sem.
Print Assumptions lex_one_partition.
Print Assumptions lex_one_sound.
Print Assumptions lex_one_longest.
Print Assumptions lex_one_error.
Print Assumptions lex_one_priority.
Print Assumptions lex_one_not_skipped.
Print Assumptions lex_one_keyword.
Print Assumptions lex_one_keyword_quirk.
Print Assumptions quirk_occurs.
Print Assumptions hlex_rules_disjoint.
Print Assumptions hlex_rules_disjoint_kinds.
Print Assumptions hlex_one_partition.
Print Assumptions hlex_one_sound.
Print Assumptions hlex_one_longest.
Print Assumptions hlex_one_no_error.
Print Assumptions lex_body_tokens_match.
