(* What the parser can produce is printable: parse s = Ok p -> printable_prog w (p_stmts p)
   with w the number of header names (parse_printable).

   Part 1  the lexer: an Ident token whose text is not a proper identifier (a keyword followed by
           the non-ASCII character of the logos quirk, see Lexer.ident_kind) is immediately
           followed by an Error token (Lexes_ioe).
   Part 2  the grammar: the token list of an accepted text contains no Error token
           (G_program_no_error with GrammarProof.C12_accepted_implies_grammatical); hence every
           Ident token of an accepted text carries a proper identifier (accepted_tokens_good).
   Part 3  a sweep over the parser (the wp calculus of ParserProof): if every Ident token carries
           a proper identifier, then the literals of the returned trees are in range, the names
           are identifiers, calls have the right arity, bits widths are at most 64 (block_P).
   Part 4  with ParserProof.parse_wf (row widths): parse_printable. *)
From Coq Require Import String.
From DTR Require Import Prelude Ast FramedMap Lexer Parser Show.
From DTR Require Import I64 Bind Eval Stmt Iter WfSpec.
From DTR Require Import RadixProof LexerProof ParserProof BinOpTreeProof Grammar GrammarProof ExprRoundTrip
                        ShowLex.
Open Scope N_scope.

(* ================================================================== part 1: identifiers from the lexer *)

Definition tok_good (t : token) : Prop := tkind t = TIdent -> ident_ok (ttext t) = true.
Definition good (ts : list token) : Prop := Forall tok_good ts.

Lemma good_tail : forall t r, good (t :: r) -> good r.
Proof. intros t r H. inversion H; assumption. Qed.
Lemma good_head : forall t r, good (t :: r) -> tkind t = TIdent -> ident_ok (ttext t) = true.
Proof. intros t r H. inversion H; assumption. Qed.

Lemma Forall_forallb : forall (p : N -> bool) l, Forall (fun x => p x = true) l -> forallb p l = true.
Proof. intros p l H. induction H as [|x l Hx _ IH]; [reflexivity|]. cbn [forallb]. rewrite Hx, IH. reflexivity. Qed.

(* an Ident token is a proper identifier, or the rest starts with a non-ASCII character that is
   not an identifier character *)
Lemma lex_one_ident : forall s w r, lex_one s = Some (Some TIdent, w, r) ->
  ident_ok w = true \/ exists d r', r = d :: r' /\ 128 <= d /\ is_ident_cont d = false.
Proof.
  intros [|c r0] w r H; [discriminate H|]. unfold lex_one in H.
  destruct (is_ws c) eqn:Hws.
  { destruct (span_while is_ws r0); discriminate H. }
  destruct (c =? 35) eqn:Hh.
  { destruct (span_while (fun x => negb (is_nl x)) r0); discriminate H. }
  destruct (is_nl c) eqn:Hnl; [discriminate H|].
  destruct (is_ident_start c) eqn:Hid.
  { destruct (span_while is_ident_cont r0) as [a b] eqn:E. injection H as Hk <- <-.
    assert (Hok : keyword_or_ident (c :: a) = TIdent -> ident_ok (c :: a) = true).
    { intros Hkw. cbn [ident_ok]. rewrite Hid, Hkw, (Forall_forallb _ _ (sw_all _ _ _ _ E)). reflexivity. }
    unfold ident_kind in Hk. destruct b as [|d b']; [left; timeout 20 auto|].
    destruct ((128 <=? d) && is_nd_lead (utf8_lead d)) eqn:Q; [|left; timeout 20 auto].
    right. exists d, b'. split; [reflexivity|]. apply andb_true_iff in Q. destruct Q as [Q _].
    split; [apply N.leb_le; exact Q | exact (sw_rest _ _ _ _ E)]. }
  destruct (is_dec_start c) eqn:Hds.
  { destruct (span_while is_dec_digit r0); discriminate H. }
  destruct (c =? 48) eqn:H0.
  { cbv zeta in H. exfalso.
    destruct r0 as [|x r1]; [destruct (span_while is_oct_digit []); discriminate H|].
    destruct ((x =? 120) || (x =? 88)).
    { destruct (span_while is_hex_digit r1) as [[|h0 h] r2];
        [destruct (span_while is_oct_digit (x :: r1)); discriminate H | discriminate H]. }
    destruct ((x =? 98) || (x =? 66)).
    { destruct (span_while is_bin_digit r1) as [[|h0 h] r2];
        [destruct (span_while is_oct_digit (x :: r1)); discriminate H | discriminate H]. }
    destruct (span_while is_oct_digit (x :: r1)); discriminate H. }
  exfalso.
  assert (Hp1 : forall r1, match punct1 c with
                           | Some k => Some (Some k, [c], r1)
                           | None => Some (Some TError, [c], r1)
                           end = Some (Some TIdent, w, r) -> False).
  { intros r1 H1. destruct (punct1 c) as [k1|] eqn:P1; injection H1 as Hk _ _; [|discriminate Hk].
    subst k1. apply punct1_kind in P1. discriminate P1. }
  destruct r0 as [|d r1]; [exact (Hp1 _ H)|].
  destruct (punct2 c d) as [k2|] eqn:P2; [|exact (Hp1 _ H)].
  injection H as Hk _ _. subst k2. apply punct2_inv in P2. destruct P2 as [P2 _]. discriminate P2.
Qed.

(* such a character is an Error token *)
Lemma lex_one_high_error : forall d r, 128 <= d -> is_ident_cont d = false ->
  lex_one (d :: r) = Some (Some TError, [d], r).
Proof.
  intros d r Hd Hc. unfold is_ident_cont in Hc. apply orb_false_iff in Hc. destruct Hc as [Hs _].
  assert (Hne : forall k, k < 128 -> (d =? k) = false) by (intros k Hk; apply N.eqb_neq; lia).
  unfold lex_one.
  replace (is_ws d) with false by (unfold is_ws; rewrite !Hne by (timeout 20 lia); reflexivity).
  rewrite (Hne 35) by (timeout 20 lia).
  replace (is_nl d) with false by (unfold is_nl; rewrite Hne by (timeout 20 lia); reflexivity).
  rewrite Hs.
  replace (is_dec_start d) with false
    by (unfold is_dec_start, in_range; symmetry; apply andb_false_iff; right; apply N.leb_gt; lia).
  rewrite (Hne 48) by (timeout 20 lia).
  assert (P1 : punct1 d = None) by (unfold punct1; rewrite !Hne by (timeout 20 lia); reflexivity).
  assert (P2 : forall x, punct2 d x = None) by (intros x; unfold punct2; rewrite !Hne by (timeout 20 lia); reflexivity).
  destruct r as [|x r1]; [rewrite P1; reflexivity|]. rewrite P2, P1. reflexivity.
Qed.

(* "Ident tokens are proper identifiers or are followed by an Error token" *)
Fixpoint ioe (ts : list token) : Prop :=
  match ts with
  | [] => True
  | t :: r =>
      (tkind t = TIdent ->
       ident_ok (ttext t) = true \/ exists t' r', r = t' :: r' /\ tkind t' = TError) /\ ioe r
  end.

Lemma Lexes_ioe : forall pos s ts, Lexes pos s ts -> ioe ts.
Proof.
  intros pos s ts H. induction H as [pos|pos s w r ts E H IH|pos s k w r ts E H IH].
  - cbn [ioe tkind]. split; [intros Hk; discriminate Hk | exact I].
  - exact IH.
  - cbn [ioe tkind ttext]. split; [|exact IH]. intros ->.
    destruct (lex_one_ident _ _ _ E) as [Hok|(d & r' & -> & Hd & Hc)]; [left; exact Hok|].
    right. pose proof (lex_one_high_error d r' Hd Hc) as HE.
    inversion H as [p0|p0 s0 w0 r0 ts0 E0 H0|p0 s0 k0 w0 r0 ts0 E0 H0]; subst.
    + rewrite HE in E0. discriminate E0.
    + rewrite HE in E0. injection E0 as <- <- <-. eexists. eexists. split; reflexivity.
Qed.

Lemma ioe_good : forall ts, ioe ts -> Forall (fun t => tkind t <> TError) ts -> good ts.
Proof.
  induction ts as [|t r IH]; intros Hi Hn; [constructor|].
  destruct Hi as [Ht Hr]. inversion Hn as [|? ? Hnt Hnr]; subst.
  constructor; [|apply IH; assumption].
  intros Hk. destruct (Ht Hk) as [Hok|(t' & r' & -> & Hk')]; [exact Hok|].
  inversion Hnr; subst. contradiction.
Qed.

(* ================================================================== part 2: no Error token in a grammatical program *)

Definition not_err (t : tok) : Prop := fst t <> TError.

Lemma ne_number : forall t v, number_value t = Some v -> not_err t.
Proof.
  intros t v H E. apply number_value_kind in H. unfold not_err in *. rewrite E in H. discriminate H.
Qed.

Lemma ne_flat : forall k (x : name), flat_kind k = true -> not_err (k, x).
Proof. intros k x H E. cbn [fst] in E. subst k. discriminate H. Qed.

Lemma ne_other : forall k (x : name), k <> TError -> not_err (k, x).
Proof. intros k x H. exact H. Qed.

Ltac ne :=
  repeat first [ apply Forall_nil | assumption
               | (apply (proj1 (G_expr_Forall _ ne_number ne_flat)); assumption)
               | (eapply (G_row_Forall _ ne_number ne_flat); eassumption)
               | (apply Forall_cons; [apply ne_other; discriminate|]) | (apply Forall_app; split) ].

Lemma G_stmt_no_error : forall w,
  (forall l, G_stmt w l -> Forall not_err l) /\ (forall l, G_block w l -> Forall not_err l).
Proof. intro w. apply G_stmt_mutind; intros; ne. Qed.

Theorem G_program_no_error : forall w l, G_program w l -> Forall not_err l.
Proof.
  intros w l H. induction H; pose proof (proj1 (G_stmt_no_error w)); ne; timeout 20 auto.
Qed.

(* every Ident token of an accepted text carries a proper identifier *)
Theorem accepted_tokens_good : forall s p h ts,
  parse s = Ok p -> parse_header s = Ok h -> lex_body (h_pos h) (h_rest h) = Some ts -> good ts.
Proof.
  intros s p h ts H Hh Hl. apply ioe_good.
  - eapply Lexes_ioe. apply lex_body_Lexes. exact Hl.
  - pose proof (C12_accepted_implies_grammatical s p h ts H Hh Hl) as HG.
    apply G_program_no_error in HG. unfold view in HG. rewrite Forall_map in HG. exact HG.
Qed.

(* ================================================================== part 3: the sweep *)

Definition nn63 (n : Z) : Prop := (0 <= n < 2 ^ 63)%Z.

Lemma from_str_radix_range : forall s r n, from_str_radix s r = Some n -> nn63 n.
Proof.
  intros s r n H. unfold from_str_radix in H. destruct s as [|c s']; [discriminate H|].
  destruct (digits_value r 0 (c :: s')) as [m|]; [|discriminate H].
  destruct (N.ltb_spec m 9223372036854775808) as [Hlt|]; [|discriminate H].
  injection H as <-. split; [timeout 20 lia|]. change (2 ^ 63)%Z with (Z.of_N 9223372036854775808). timeout 20 lia.
Qed.

Lemma number_value_range : forall t n, number_value t = Some n -> nn63 n.
Proof.
  intros [k x] n H. unfold number_value in H. cbn [fst snd] in H.
  destruct k; try discriminate H; eapply from_str_radix_range; exact H.
Qed.

(* statements whose parts are printable, rows not yet measured *)
Fixpoint pp_stmt (s : stmt) : Prop :=
  match s with
  | SLet x e => ident_ok x = true /\ printable e
  | SRow data _ => Forall printable_entry data
  | SLoop v max body =>
      ident_ok v = true /\ printable max /\
      (fix all (l : list stmt) : Prop := match l with [] => True | s :: r => pp_stmt s /\ all r end) body
  | SWhile c body =>
      printable c /\
      (fix all (l : list stmt) : Prop := match l with [] => True | s :: r => pp_stmt s /\ all r end) body
  | SReset => True
  end.

Lemma pp_all : forall l,
  (fix all (l : list stmt) : Prop := match l with [] => True | s :: r => pp_stmt s /\ all r end) l <->
  Forall pp_stmt l.
Proof.
  induction l as [|a l IH]; split; intros H.
  - constructor.
  - exact I.
  - destruct H as [Ha Hl]. constructor; [exact Ha | apply IH; exact Hl].
  - inversion H; subst. split; [assumption | apply IH; assumption].
Qed.

Lemma printable_num : forall n, nn63 n -> printable (ENum n).
Proof. intros n H. exact H. Qed.
Lemma printable_var : forall x, ident_ok x = true -> printable (EVar x).
Proof. intros x H. exact H. Qed.
Lemma printable_un : forall op e, printable e -> printable (EUn op e).
Proof. intros op e H. exact H. Qed.
Lemma printable_bin : forall op l r, printable l -> printable r -> printable (EBin op l r).
Proof. intros op l r Hl Hr. split; assumption. Qed.

Lemma func_arity_pos : forall f n, func_arity f = Some n -> n <> 0.
Proof.
  intros f n H. unfold func_arity, func_table in H. cbn [find fst] in H.
  repeat match type of H with
         | context [if ?b then _ else _] => destruct b; [injection H as <-; discriminate|]
         end.
  discriminate H.
Qed.

Lemma printable_call : forall f args arity, func_arity f = Some arity -> Nlen args = arity ->
  Forall printable args -> printable (EFunc f args).
Proof.
  intros f args arity Har Hlen Hall. apply printable_func. split; [|split; [|exact Hall]].
  - intros ->. apply (func_arity_pos f arity Har). rewrite <- Hlen. reflexivity.
  - rewrite Hlen. exact Har.
Qed.

Lemma printable_bt_add : forall t op e, printable (bt_expr t) -> printable e ->
  printable (bt_expr (bt_add t op e)).
Proof.
  induction t as [a|o l IHl r IHr]; intros op e Ht He; cbn [bt_add].
  - cbn [bt_expr] in *. split; assumption.
  - cbn [bt_expr] in Ht. destruct Ht as [Hl Hr].
    destruct (precedence op <? precedence o); cbn [bt_expr].
    + split; [exact Hl | apply IHr; assumption].
    + split; [split; assumption | exact He].
Qed.

Lemma printable_atom : forall e, printable e -> printable (bt_expr (BAtom e)).
Proof. intros e H. exact H. Qed.

Lemma pe_num : forall n, nn63 n -> printable_entry (DNum n).
Proof. intros n H. exact H. Qed.
Lemma pe_expr : forall e, printable e -> printable_entry (DExpr e).
Proof. intros e H. exact H. Qed.
Lemma pe_bits : forall n e, nn63 n -> (n <= 64)%Z -> printable e -> printable_entry (DBits (Z.to_N n) e).
Proof. intros n e [H0 _] H64 He. split; [timeout 20 lia | exact He]. Qed.
Lemma pe_x : printable_entry DX. Proof. exact I. Qed.
Lemma pe_z : printable_entry DZ. Proof. exact I. Qed.
Lemma pe_c : printable_entry DC. Proof. exact I. Qed.

Lemma pp_row : forall data ln, Forall printable_entry data -> pp_stmt (SRow data ln).
Proof. intros data ln H. exact H. Qed.
Lemma pp_let : forall x e, ident_ok x = true -> printable e -> pp_stmt (SLet x e).
Proof. intros x e Hx He. split; assumption. Qed.
Lemma pp_reset : pp_stmt SReset.
Proof. exact I. Qed.
Lemma pp_loop : forall v max body, ident_ok v = true -> printable max -> Forall pp_stmt body ->
  pp_stmt (SLoop v max body).
Proof. intros v max body Hv Hm Hb. cbn [pp_stmt]. rewrite pp_all. timeout 20 auto. Qed.
Lemma pp_while : forall c body, printable c -> Forall pp_stmt body -> pp_stmt (SWhile c body).
Proof. intros c body Hc Hb. cbn [pp_stmt]. rewrite pp_all. timeout 20 auto. Qed.
Lemma ident_ok_n : ident_ok (s2n "n") = true.
Proof. reflexivity. Qed.

Create HintDb pdb.
#[export] Hint Resolve Forall_snoc Forall_nil Forall_cons printable_num printable_var printable_un
  printable_call printable_bt_add printable_atom pe_num pe_expr pe_bits pe_x pe_z pe_c
  pp_row pp_let pp_reset pp_loop pp_while ident_ok_n : pdb.

Definition expr_pP (e : expr) (st' : pstate) : Prop := printable e /\ good (toks st').
Definition args_pP (l : list expr) (st' : pstate) : Prop := Forall printable l /\ good (toks st').
Definition row_pP (r : list dentry * N) (st' : pstate) : Prop :=
  Forall printable_entry (fst r) /\ good (toks st').
Definition data_pP (data : list dentry) (st' : pstate) : Prop :=
  Forall printable_entry data /\ good (toks st').
Definition blk_pP (b : list stmt) (st' : pstate) : Prop := Forall pp_stmt b /\ good (toks st').
Definition arm_pP (arm : arm_result) (st' : pstate) : Prop :=
  Forall pp_stmt (arm_block arm) /\ good (toks st').

Ltac p_hook :=
  repeat match goal with
  | H : _ /\ _ |- _ => destruct H
  | H : expr_pP _ _ |- _ => unfold expr_pP in H; st_cbn_in H
  | H : args_pP _ _ |- _ => unfold args_pP in H; st_cbn_in H
  | H : row_pP _ _ |- _ => unfold row_pP in H; st_cbn_in H; cbn [fst snd] in H
  | H : data_pP _ _ |- _ => unfold data_pP in H; st_cbn_in H
  | H : blk_pP _ _ |- _ => unfold blk_pP in H; st_cbn_in H
  | H : arm_pP _ _ |- _ => unfold arm_pP in H; st_cbn_in H; cbn [arm_block] in H
  | H : tk_beq _ _ = true |- _ => apply tk_beq_true in H
  | H : negb _ = false |- _ => apply negb_false_iff in H
  | H : (_ =? _)%N = true |- _ => apply N.eqb_eq in H
  | H : (_ <? _)%Z = false |- _ => apply Z.ltb_ge in H
  | Hg : good (toks ?st), H : toks ?st = _ |- _ => rewrite H in Hg
  | Hg : good (?t :: ?r) |- _ =>
      lazymatch goal with
      | _ : good r |- _ => fail
      | _ => pose proof (good_tail _ _ Hg)
      end
  | Hg : good (?t :: ?r), Hk : tkind ?t = TIdent |- _ =>
      lazymatch goal with
      | _ : ident_ok (ttext t) = true |- _ => fail
      | _ => pose proof (good_head _ _ Hg Hk)
      end
  | Hv : number_value (tv ?t) = Some ?n |- _ =>
      lazymatch goal with
      | _ : nn63 n |- _ => fail
      | _ => pose proof (number_value_range _ _ Hv)
      end
  end.

Ltac p_leaf :=
  first [ assumption | reflexivity | exact I
        | solve [cbn [bt_expr arm_block fst snd]; timeout 20 eauto 8 with pdb] ].
Ltac p_toks :=
  repeat match goal with H : toks ?st = _ |- context[toks ?st] => is_var st; rewrite H end.
Ltac p_side_pre := st_cbn; p_toks; try p_leaf.

Ltac p_number :=
  lazymatch goal with
  | |- wp _ _ _ (parse_number _) _ _ =>
      apply wp_parse_number_val;
      (let t := fresh "t" in let r := fresh "r" in let ln := fresh "ln" in let n := fresh "n" in
       let H := fresh "Ht" in let Hv := fresh "Hval" in
       intros t r ln n H Hv; norm_tok H; p_hook; norm_goal)
  end.

Ltac p_sweep :=
  repeat first [ p_number | wp_step wf_side_panic no_err p_side_pre p_hook ].

Ltac p_fin :=
  unfold expr_pP, args_pP, row_pP, data_pP, blk_pP, arm_pP; st_cbn; p_toks; cbn [arm_block fst snd];
  repeat match goal with |- _ /\ _ => split end; try p_leaf.

Section PASS.
Variable input_len : N.
Variable hdr : list name.

Notation wpP := (wp True True no_claim).

Lemma expr_P : forall fuel,
  (forall st, good (toks st) -> wpP (parse_expr input_len fuel) expr_pP st) /\
  (forall tree st, printable (bt_expr tree) -> good (toks st) ->
     wpP (parse_expr_loop input_len fuel tree) expr_pP st) /\
  (forall st, good (toks st) -> wpP (parse_factor input_len fuel) expr_pP st) /\
  (forall acc st, Forall printable acc -> good (toks st) ->
     wpP (parse_args input_len fuel acc) args_pP st).
Proof.
  induction fuel as [|f [IHe [IHl [IHf IHa]]]].
  - repeat split; intros; exact I.
  - split; [|split; [|split]].
    + intros st Hg. rewrite parse_expr_S. p_sweep; p_fin.
    + intros tree st Htree Hg. rewrite parse_expr_loop_S. p_sweep; p_fin.
    + intros st Hg. rewrite parse_factor_S. p_sweep; p_fin.
    + intros acc st Hacc Hg. rewrite parse_args_S. p_sweep; p_fin.
Qed.

Lemma row_P : forall fuel data idx st, Forall printable_entry data -> good (toks st) ->
  wpP (parse_row_loop input_len hdr fuel data idx) row_pP st.
Proof.
  induction fuel as [|f IH]; intros data idx st Hd Hg; [exact I|].
  pose proof (proj1 (expr_P f)) as He.
  rewrite parse_row_loop_S. p_sweep; p_fin.
Qed.

Lemma data_row_P : forall f st, good (toks st) -> wpP (parse_data_row input_len hdr f) data_pP st.
Proof.
  intros f st Hg. pose proof (row_P f) as Hr.
  rewrite parse_data_row_eq. p_sweep; p_fin.
Qed.

Section BLOCK_STEP.
Variable f : nat.
Hypothesis IH : forall end_token block st, Forall pp_stmt block -> good (toks st) ->
  wpP (parse_block_loop input_len hdr f end_token block) blk_pP st.

Lemma post_P : forall end_token arm st, Forall pp_stmt (arm_block arm) -> good (toks st) ->
  wpP (block_post input_len hdr f end_token arm) blk_pP st.
Proof.
  intros end_token arm st Hb Hg. unfold block_post. p_sweep; p_fin.
Qed.

Lemma arm_P : forall end_token block k st, Forall pp_stmt block -> good (toks st) ->
  wpP (block_arm input_len hdr f end_token block k) arm_pP st.
Proof.
  intros end_token block k st Hb Hg.
  pose proof (proj1 (expr_P f)) as He. pose proof (data_row_P f) as Hd.
  unfold block_arm. p_sweep; p_fin.
Qed.
End BLOCK_STEP.

Lemma block_P : forall fuel end_token block st, Forall pp_stmt block -> good (toks st) ->
  wpP (parse_block_loop input_len hdr fuel end_token block) blk_pP st.
Proof.
  induction fuel as [|f IH]; intros end_token block st Hb Hg; [exact I|].
  rewrite parse_block_loop_S.
  apply wp_bind. apply wp_peek; [intro; exact I|]. intros t r Ht. cbv beta.
  apply wp_bind. eapply wp_conseq; [apply (arm_P f IH); assumption|].
  intros arm st' [Hb' Hg']. apply (post_P f IH); assumption.
Qed.

End PASS.

(* ================================================================== part 4: parse_printable *)

Lemma pp_printable : forall w, (1 <= w)%nat -> forall s, pp_stmt s ->
  (forall data, In data (stmt_rows s) -> row_width data = w) -> printable_stmt w s.
Proof.
  intros w Hw.
  assert (Hbody : forall body, Forall (fun s => pp_stmt s ->
                     (forall data, In data (stmt_rows s) -> row_width data = w) -> printable_stmt w s) body ->
                   Forall pp_stmt body -> (forall data, In data (rows_of body) -> row_width data = w) ->
                   Forall (printable_stmt w) body).
  { induction body as [|s body IHb]; intros HF HP HR; [constructor|].
    inversion HF; subst. inversion HP; subst. constructor.
    - match goal with H : pp_stmt s -> _ |- _ => apply H end; [assumption|].
      intros data Hin. apply HR. unfold rows_of. cbn [flat_map]. apply in_or_app. left. exact Hin.
    - apply IHb; [assumption | assumption |].
      intros data Hin. apply HR. unfold rows_of. cbn [flat_map]. apply in_or_app. right. exact Hin. }
  induction s as [x e|data ln|v max body IH|c body IH|] using stmt_ind_nested; intros Hp Hr.
  - exact Hp.
  - cbn [pp_stmt] in Hp. cbn [printable_stmt]. unfold printable_row.
    assert (Hwd : row_width data = w) by (apply Hr; cbn [stmt_rows In]; timeout 20 auto).
    split; [|split; assumption]. intros ->. cbn [row_width] in Hwd. timeout 20 lia.
  - cbn [pp_stmt] in Hp. rewrite pp_all in Hp. destruct Hp as (Hv & Hm & Hb).
    apply printable_loop. split; [exact Hv|]. split; [exact Hm|].
    apply Hbody; [exact IH | exact Hb |]. rewrite stmt_rows_loop in Hr. exact Hr.
  - cbn [pp_stmt] in Hp. rewrite pp_all in Hp. destruct Hp as (Hc & Hb).
    apply printable_while. split; [exact Hc|].
    apply Hbody; [exact IH | exact Hb |]. rewrite stmt_rows_while in Hr. exact Hr.
  - exact I.
Qed.

(* what the parser returns is printable *)
Theorem parse_printable : forall s p, parse s = Ok p ->
  printable_prog (length (p_signals p)) (p_stmts p).
Proof.
  intros s p H. pose proof (parse_wf s p H) as Hwf.
  destruct Hwf as (_ & Hrows & _).
  destruct (parse_Ok_inv _ _ H) as (h & ts & Hh & Hl & Hsig).
  pose proof (accepted_tokens_good s p h ts H Hh Hl) as Hg.
  assert (Hw : (1 <= length (p_signals p))%nat).
  { rewrite Hsig. unfold parse_header in Hh. apply parse_header_loop_nonempty in Hh.
    destruct (h_names h); [timeout 20 congruence | cbn [length]; timeout 20 lia]. }
  assert (Hpp : Forall pp_stmt (p_stmts p)).
  { unfold parse in H. rewrite Hh, Hl in H.
    match type of H with context[parse_block_loop ?a ?b ?c ?d ?e ?st] =>
      pose proof (block_P a b c d e st (Forall_nil _) Hg) as HP;
      destruct (parse_block_loop a b c d e st) as [[stmts st']| | |] eqn:Eb end; try discriminate.
    unfold wp in HP. rewrite Eb in HP. destruct HP as [HP _].
    injection H as <-. exact HP. }
  unfold printable_prog. rewrite Forall_forall in *. intros st Hin.
  apply pp_printable; [exact Hw | apply Hpp; exact Hin |].
  intros data Hd. apply (Hrows data). unfold rows_of. apply in_flat_map. exists st. timeout 20 auto.
Qed.

Check Lexes_ioe.
Check G_program_no_error.
Check accepted_tokens_good.
Check block_P.
Check parse_printable.
Print Assumptions accepted_tokens_good.
Print Assumptions block_P.
Print Assumptions parse_printable.
