(* Property C08, unparse/parse: "for every expression tree over literals, variables and device
   outputs, printed with minimal or redundant parentheses: the parser returns that tree".

   Part 1  Prints e ts: the relation "ts is a printing of e" on (kind, text) token lists.  A factor
           is a number (any radix spelling), an identifier, a call, a unary operator applied to a
           factor, or ANY expression in parentheses (so redundant parentheses are printings); an
           expression is a chain  f0 op1 f1 op2 f2 ...  of factor printings whose tree is the fold of
           BinOpTree::add (BinOpTreeProof: THE precedence-correct, left-associative tree with that
           flattening).
   Part 2  C08_unparse_parse: on a printing of e followed by a token that cannot continue an
           expression, parse_expr returns e and stops exactly in front of that token
           (C08_unparse_parse_factor / _args: the same for parse_factor / parse_args).
   Part 3  pp_min, the usual minimal-parentheses pretty printer, produces a printing
           (pp_min_Prints), hence parse_expr (pp_min e) = e (C08_pp_min_parse).
   Part 4  Printed p e ts: the printings again, this time directed by the tree and a precedence
           level, with no reference to BinOpTree::add - parentheses are allowed anywhere and may be
           omitted exactly where precedence and left associativity permit.  Printed_is_Prints,
           C08_printed_parse, pp_min_Printed.
   Then    the leaf tokens of pp_min are the lexer's tokens (lex_num_tok, lex_ident_ok), and
           examples through the real lexer. *)
From Coq Require Import String.
From DTR Require Import Prelude Ast FramedMap Lexer Parser.
From DTR Require Import RadixProof LexerProof ParserProof BinOpTreeProof Grammar GrammarProof.
Open Scope N_scope.

(* ================================================================== part 1: printing *)

Inductive Prints : expr -> list tok -> Prop :=
| P_chain : forall a0 ts0 l tsl,
    Prints_factor a0 ts0 -> Prints_chain l tsl ->
    Prints (parse_flat a0 l) (ts0 ++ tsl)

(* (op1, f1) (op2, f2) ... : operator tokens and factor printings, in source order *)
with Prints_chain : list (binop * expr) -> list tok -> Prop :=
| PC_nil : Prints_chain [] []
| PC_cons : forall k x op a ts l tsl,
    binop_of_token k = Some op -> Prints_factor a ts -> Prints_chain l tsl ->
    Prints_chain ((op, a) :: l) ((k, x) :: ts ++ tsl)

with Prints_factor : expr -> list tok -> Prop :=
| PF_num : forall t n, number_value t = Some n -> Prints_factor (ENum n) [t]
| PF_var : forall x, Prints_factor (EVar x) [(TIdent, x)]
| PF_call : forall f a args tsargs b,
    func_arity f = Some (Nlen args) -> Prints_args args tsargs ->
    Prints_factor (EFunc f args) ((TIdent, f) :: (TLParen, a) :: tsargs ++ [(TRParen, b)])
| PF_un : forall k x op e ts,
    unop_of_token k = Some op -> Prints_factor e ts -> Prints_factor (EUn op e) ((k, x) :: ts)
| PF_paren : forall a e ts b,
    Prints e ts -> Prints_factor e ((TLParen, a) :: ts ++ [(TRParen, b)])

(* one or more expressions separated by commas *)
with Prints_args : list expr -> list tok -> Prop :=
| PA_one : forall e ts, Prints e ts -> Prints_args [e] ts
| PA_more : forall e ts c args tsargs,
    Prints e ts -> Prints_args args tsargs -> Prints_args (e :: args) (ts ++ (TComma, c) :: tsargs).

Scheme Prints_mind := Minimality for Prints Sort Prop
  with Prints_chain_mind := Minimality for Prints_chain Sort Prop
  with Prints_factor_mind := Minimality for Prints_factor Sort Prop
  with Prints_args_mind := Minimality for Prints_args Sort Prop.
Combined Scheme Prints_mutind from Prints_mind, Prints_chain_mind, Prints_factor_mind, Prints_args_mind.

(* a factor printing is an expression printing *)
Lemma Prints_of_factor : forall e ts, Prints_factor e ts -> Prints e ts.
Proof.
  intros e ts H. pose proof (P_chain e ts [] [] H PC_nil) as HP.
  rewrite app_nil_r in HP. exact HP.
Qed.

Lemma Prints_chain_app : forall l1 ts1, Prints_chain l1 ts1 -> forall l2 ts2, Prints_chain l2 ts2 ->
  Prints_chain (l1 ++ l2) (ts1 ++ ts2).
Proof.
  intros l1 ts1 H1. induction H1 as [|k x op a ts l tsl Hk Ha Hl IH]; intros l2 ts2 H2.
  - exact H2.
  - cbn [app]. rewrite <- app_assoc. apply PC_cons; auto.
Qed.

(* ================================================================== views *)

Lemma view_nil_inv : forall c, view c = [] -> c = [].
Proof. intros [|t c] H; [reflexivity | discriminate H]. Qed.

Lemma view_cons_inv : forall c x l, view c = x :: l ->
  exists t c', c = t :: c' /\ tkind t = fst x /\ ttext t = snd x /\ view c' = l.
Proof.
  intros [|t c] x l H; [discriminate H|]. rewrite view_cons in H. injection H as Hx Hl.
  exists t, c. subst x. auto.
Qed.

Lemma view_app_inv : forall a c b, view c = a ++ b ->
  exists c1 c2, c = c1 ++ c2 /\ view c1 = a /\ view c2 = b.
Proof.
  induction a as [|x a IH]; intros c b H.
  - exists [], c. auto.
  - cbn [app] in H. destruct (view_cons_inv _ _ _ H) as (t & c' & -> & Hk & Ht & Hv).
    destruct (IH _ _ Hv) as (c1 & c2 & -> & H1 & H2).
    exists (t :: c1), c2. split; [reflexivity|]. split; [|exact H2].
    rewrite view_cons, H1. unfold tv. rewrite Hk, Ht. destruct x; reflexivity.
Qed.

Lemma view_length : forall c, length (view c) = length c.
Proof. intros c. unfold view. apply map_length. Qed.

(* ================================================================== the parser monad, run *)

(* everything but the token list and the recorded reads is left alone *)
Definition agree (st st' : pstate) : Prop :=
  pline st' = pline st /\ pvars st' = pvars st /\ pvirtuals st' = pvirtuals st /\
  pexp_inputs st' = pexp_inputs st.
Definition after (st : pstate) (rest : list token) (st' : pstate) : Prop :=
  toks st' = rest /\ agree st st'.

Lemma agree_refl : forall st, agree st st.
Proof. intros st. repeat split. Qed.
Lemma agree_trans : forall a b c, agree a b -> agree b c -> agree a c.
Proof. unfold agree. intros a b c (?&?&?&?) (?&?&?&?). repeat split; congruence. Qed.
Lemma agree_set_toks : forall st r, agree st (set_toks st r (pline st)).
Proof. intros st r. repeat split. Qed.
Lemma agree_pline : forall a b, agree a b -> pline b = pline a.
Proof. intros a b H. apply H. Qed.

Lemma bind_ok : forall A B (m : P A) (k : A -> P B) st a st1,
  m st = Ok (a, st1) -> bind m k st = k a st1.
Proof. intros A B m k st a st1 H. unfold bind. rewrite H. reflexivity. Qed.

Lemma eol_false : forall k, k <> TEol -> tk_beq k TEol = false.
Proof. intros k H. destruct (tk_beq k TEol) eqn:E; [apply tk_beq_true in E; contradiction | reflexivity]. Qed.

Section RUN.
Variable input_len : N.

Lemma peek_cons : forall st t r, toks st = t :: r -> peek st = Ok (tkind t, st).
Proof. intros st t r H. unfold peek. rewrite H. reflexivity. Qed.

Lemma at_cons : forall k st t r, toks st = t :: r -> at_ k st = Ok (tk_beq (tkind t) k, st).
Proof. intros k st t r H. unfold at_, bind, peek, ret. rewrite H. reflexivity. Qed.

Lemma get_cons : forall st t r, toks st = t :: r -> tkind t <> TEol ->
  get input_len st = Ok (t, set_toks st r (pline st)).
Proof. intros st t r H Hk. unfold get. rewrite H, (eol_false _ Hk). reflexivity. Qed.

Lemma skip_cons : forall st t r, toks st = t :: r -> tkind t <> TEol ->
  skip input_len st = Ok (tt, set_toks st r (pline st)).
Proof. intros st t r H Hk. unfold skip. rewrite (get_cons _ _ _ H Hk). reflexivity. Qed.

Lemma expect_cons : forall k st t r, toks st = t :: r -> tkind t = k -> k <> TEol ->
  expect input_len k st = Ok (t, set_toks st r (pline st)).
Proof.
  intros k st t r H Hk Hne. unfold expect. subst k.
  rewrite (bind_ok _ _ _ _ _ _ _ (get_cons _ _ _ H Hne)). rewrite tk_beq_refl. reflexivity.
Qed.

Lemma note_read_output_run : forall x sp st,
  exists st', note_read_output x sp st = Ok (tt, st') /\ after st (toks st) st'.
Proof.
  intros x sp st. unfold note_read_output. destruct (fs_contains (pvars st) x).
  - exists st. split; [reflexivity|]. split; [reflexivity | apply agree_refl].
  - eexists. split; [reflexivity|]. repeat split.
Qed.

End RUN.

(* ================================================================== one step of each function *)

Section STEP.
Variable input_len : N.
Notation il := input_len.

Lemma unop_kind : forall k op, unop_of_token k = Some op ->
  (k = TMinus \/ k = TLogicalNot \/ k = TBinaryNot) /\ k <> TEol.
Proof. intros k op H. destruct k; try discriminate H; split; try discriminate; tauto. Qed.

Lemma binop_kind : forall k op, binop_of_token k = Some op ->
  is_binary_op k = true /\ k <> TEol /\ k <> TLParen.
Proof. intros k op H. destruct k; try discriminate H; repeat split; discriminate. Qed.

Lemma number_kind_not_eol : forall k, is_number_kind k = true -> k <> TEol.
Proof. intros k H E. subst k. discriminate H. Qed.

Lemma literal_value_kind : forall t n, literal_value t = Some n -> is_number_kind (tkind t) = true.
Proof. intros t n H. unfold literal_value in H. destruct (tkind t); try discriminate H; reflexivity. Qed.

Lemma factor_number : forall f st t r n, toks st = t :: r -> literal_value t = Some n ->
  parse_factor il (S f) st = Ok (ENum n, set_toks st r (pline st)).
Proof.
  intros f st t r n Ht Hv. pose proof (literal_value_kind _ _ Hv) as Hk.
  rewrite parse_factor_S. rewrite (bind_ok _ _ _ _ _ _ _ (peek_cons _ _ _ Ht)).
  assert (E : (n0 <- parse_number il ;; ret (ENum n0)) st = Ok (ENum n, set_toks st r (pline st))).
  { unfold bind. rewrite (parse_number_literal_value _ _ _ _ Ht Hk), Hv. reflexivity. }
  destruct (tkind t); try discriminate Hk; exact E.
Qed.

Lemma factor_var : forall f st t r t' r', toks st = t :: r -> tkind t = TIdent ->
  r = t' :: r' -> tkind t' <> TLParen ->
  exists st', parse_factor il (S f) st = Ok (EVar (ttext t), st') /\ after st r st'.
Proof.
  intros f st t r t' r' Ht Hk Hr Hn.
  assert (Hne : tkind t <> TEol) by (rewrite Hk; discriminate).
  rewrite parse_factor_S. rewrite (bind_ok _ _ _ _ _ _ _ (peek_cons _ _ _ Ht)). rewrite Hk.
  rewrite (bind_ok _ _ _ _ _ _ _ (get_cons il _ _ _ Ht Hne)).
  assert (Ht2 : toks (set_toks st r (pline st)) = t' :: r') by (cbn [toks set_toks]; exact Hr).
  rewrite (bind_ok _ _ _ _ _ _ _ (at_cons TLParen _ _ _ Ht2)).
  assert (E : tk_beq (tkind t') TLParen = false).
  { destruct (tk_beq (tkind t') TLParen) eqn:E; [apply tk_beq_true in E; contradiction | reflexivity]. }
  rewrite E. cbv zeta.
  destruct (note_read_output_run (ttext t) (tspan t) (set_toks st r (pline st))) as (st' & Hrun & Htk & Hag).
  rewrite (bind_ok _ _ _ _ _ _ _ Hrun). exists st'. split; [reflexivity|].
  split; [exact Htk|]. eapply agree_trans; [apply agree_set_toks | exact Hag].
Qed.

Lemma factor_unary : forall f st t r op, toks st = t :: r -> unop_of_token (tkind t) = Some op ->
  parse_factor il (S f) st =
  (e <- parse_factor il f ;; ret (EUn op e)) (set_toks st r (pline st)).
Proof.
  intros f st t r op Ht Hop. destruct (unop_kind _ _ Hop) as [Hk Hne].
  rewrite parse_factor_S. rewrite (bind_ok _ _ _ _ _ _ _ (peek_cons _ _ _ Ht)).
  destruct Hk as [Hk|[Hk|Hk]]; rewrite Hk in Hop |- *;
    rewrite (bind_ok _ _ _ _ _ _ _ (skip_cons il _ _ _ Ht Hne));
    cbn [unop_of_token] in *; injection Hop as <-; reflexivity.
Qed.

Lemma factor_paren : forall f st t r, toks st = t :: r -> tkind t = TLParen ->
  parse_factor il (S f) st =
  (e <- parse_expr il f ;; expect il TRParen ;;; ret e) (set_toks st r (pline st)).
Proof.
  intros f st t r Ht Hk.
  assert (Hne : tkind t <> TEol) by (rewrite Hk; discriminate).
  rewrite parse_factor_S. rewrite (bind_ok _ _ _ _ _ _ _ (peek_cons _ _ _ Ht)). rewrite Hk.
  rewrite (bind_ok _ _ _ _ _ _ _ (skip_cons il _ _ _ Ht Hne)). reflexivity.
Qed.

Lemma factor_call : forall f st t t' r ar, toks st = t :: t' :: r -> tkind t = TIdent ->
  tkind t' = TLParen -> func_arity (ttext t) = Some ar ->
  parse_factor il (S f) st =
  (args <- parse_args il f [] ;;
   expect il TRParen ;;;
   if negb (Nlen args =? ar) then
     sp <- peek_span ;;
     fail {| pe_kind := PE_WrongNumberOfArguments ar (Nlen args);
             pe_at := [(fst (tspan t), fst sp)] |}
   else ret (EFunc (ttext t) args)) (set_toks st (t' :: r) (pline st)).
Proof.
  intros f st t t' r ar Ht Hk Hk' Har.
  assert (Hne : tkind t <> TEol) by (rewrite Hk; discriminate).
  rewrite parse_factor_S. rewrite (bind_ok _ _ _ _ _ _ _ (peek_cons _ _ _ Ht)). rewrite Hk.
  rewrite (bind_ok _ _ _ _ _ _ _ (get_cons il _ _ _ Ht Hne)).
  assert (Ht2 : toks (set_toks st (t' :: r) (pline st)) = t' :: r) by reflexivity.
  rewrite (bind_ok _ _ _ _ _ _ _ (at_cons TLParen _ _ _ Ht2)).
  rewrite Hk'. cbn [tk_beq]. cbv zeta. rewrite Har. reflexivity.
Qed.

Lemma loop_stop : forall f tree st t r, toks st = t :: r -> is_binary_op (tkind t) = false ->
  parse_expr_loop il (S f) tree st = Ok (bt_expr tree, st).
Proof.
  intros f tree st t r Ht Hk. rewrite parse_expr_loop_S.
  rewrite (bind_ok _ _ _ _ _ _ _ (peek_cons _ _ _ Ht)). rewrite Hk. reflexivity.
Qed.

Lemma loop_more : forall f tree st t r op, toks st = t :: r -> binop_of_token (tkind t) = Some op ->
  parse_expr_loop il (S f) tree st =
  (e <- parse_factor il f ;; parse_expr_loop il f (bt_add tree op e)) (set_toks st r (pline st)).
Proof.
  intros f tree st t r op Ht Hop. destruct (binop_kind _ _ Hop) as (Hb & Hne & _).
  rewrite parse_expr_loop_S. rewrite (bind_ok _ _ _ _ _ _ _ (peek_cons _ _ _ Ht)). rewrite Hb.
  rewrite (bind_ok _ _ _ _ _ _ _ (get_cons il _ _ _ Ht Hne)). rewrite Hop. reflexivity.
Qed.

Lemma args_step : forall f acc st sep r, toks st = sep :: r -> tkind sep <> TEol ->
  parse_args il (S f) acc st =
  (e <- parse_expr il f ;;
   more <- at_ TComma ;;
   if more then parse_args il f (acc ++ [e]) else ret (acc ++ [e])) (set_toks st r (pline st)).
Proof.
  intros f acc st sep r Ht Hne. rewrite parse_args_S.
  rewrite (bind_ok _ _ _ _ _ _ _ (skip_cons il _ _ _ Ht Hne)). reflexivity.
Qed.

End STEP.

(* ================================================================== part 2: the parser on a printing *)

(* what may follow: after a factor anything but '(' (which would turn an identifier into a call);
   after an expression moreover no binary operator; after an argument list moreover no ',' *)
Definition stop_factor (rest : list token) : Prop :=
  exists t r, rest = t :: r /\ tkind t <> TLParen.
Definition stop_expr (rest : list token) : Prop :=
  exists t r, rest = t :: r /\ is_binary_op (tkind t) = false /\ tkind t <> TLParen.
Definition stop_args (rest : list token) : Prop :=
  exists t r, rest = t :: r /\ is_binary_op (tkind t) = false /\ tkind t <> TLParen /\ tkind t <> TComma.

Definition add_all (l : list (binop * expr)) (t : btree) : btree :=
  fold_left (fun t p => bt_add t (fst p) (snd p)) l t.

Section MAIN.
Variable input_len : N.
Notation il := input_len.

Definition R_expr (e : expr) (ts : list tok) : Prop :=
  forall c st rest fuel, view c = ts -> toks st = c ++ rest -> stop_expr rest ->
  (2 * length ts + 2 <= fuel)%nat ->
  exists st', parse_expr il fuel st = Ok (e, st') /\ after st rest st'.

Definition R_chain (l : list (binop * expr)) (ts : list tok) : Prop :=
  forall c st rest fuel tree, view c = ts -> toks st = c ++ rest -> stop_expr rest ->
  (2 * length ts + 1 <= fuel)%nat ->
  exists st', parse_expr_loop il fuel tree st = Ok (bt_expr (add_all l tree), st') /\ after st rest st'.

Definition R_factor (e : expr) (ts : list tok) : Prop :=
  forall c st rest fuel, view c = ts -> toks st = c ++ rest -> stop_factor rest ->
  (2 * length ts <= fuel)%nat ->
  exists st', parse_factor il fuel st = Ok (e, st') /\ after st rest st'.

(* parse_args first skips the '(' or ',' its caller has seen *)
Definition R_args (args : list expr) (ts : list tok) : Prop :=
  forall sep c st rest fuel acc, view c = ts -> toks st = sep :: c ++ rest -> tkind sep <> TEol ->
  stop_args rest -> (2 * length ts + 3 <= fuel)%nat ->
  exists st', parse_args il fuel acc st = Ok (acc ++ args, st') /\ after st rest st'.

Ltac need_fuel fuel f :=
  destruct fuel as [|f]; [exfalso; cbn [length] in *; lia|].

Ltac len_norm := cbn [length] in *; repeat (rewrite app_length in * ); cbn [length] in *.

Lemma after_step : forall st st0 st1 r rest,
  st0 = set_toks st r (pline st) -> after st0 rest st1 -> after st rest st1.
Proof.
  intros st st0 st1 r rest -> [Ht Ha]. split; [exact Ht|].
  eapply agree_trans; [apply agree_set_toks | exact Ha].
Qed.

Lemma after_trans : forall st st1 st2 mid rest, after st mid st1 -> after st1 rest st2 -> after st rest st2.
Proof. intros st st1 st2 mid rest [_ H1] [Ht H2]. split; [exact Ht | eapply agree_trans; eassumption]. Qed.

Lemma after_consume : forall st st1 t rest,
  after st (t :: rest) st1 -> after st rest (set_toks st1 rest (pline st1)).
Proof.
  intros st st1 t rest [_ Ha]. split; [reflexivity|].
  eapply agree_trans; [exact Ha | apply agree_set_toks].
Qed.

Lemma chain_head : forall l tsl c rest, Prints_chain l tsl -> view c = tsl -> stop_expr rest ->
  stop_factor (c ++ rest).
Proof.
  intros l tsl c rest H Hv (t & r & -> & _ & Hn). destruct H as [|k x op a ts l tsl Hk Ha Hl].
  - apply view_nil_inv in Hv. subst c. exists t, r. auto.
  - destruct (view_cons_inv _ _ _ Hv) as (t0 & c' & -> & Hk0 & _ & _). cbn [fst] in Hk0.
    exists t0, (c' ++ t :: r). split; [reflexivity|]. rewrite Hk0.
    apply (binop_kind _ _ Hk).
Qed.

Lemma case_chain : forall a0 ts0 l tsl,
  Prints_factor a0 ts0 -> R_factor a0 ts0 -> Prints_chain l tsl -> R_chain l tsl ->
  R_expr (parse_flat a0 l) (ts0 ++ tsl).
Proof.
  intros a0 ts0 l tsl _ IHf Hl IHl c st rest fuel Hv Ht Hstop Hfuel.
  destruct (view_app_inv _ _ _ Hv) as (c1 & c2 & -> & Hv1 & Hv2).
  len_norm. need_fuel fuel f. rewrite parse_expr_S.
  destruct (IHf c1 st (c2 ++ rest) f Hv1) as (st1 & Hrun1 & Ha1);
    [rewrite Ht, <- app_assoc; reflexivity | eapply chain_head; eassumption | lia |].
  rewrite (bind_ok _ _ _ _ _ _ _ Hrun1).
  destruct (IHl c2 st1 rest f (BAtom a0) Hv2) as (st2 & Hrun2 & Ha2);
    [apply Ha1 | exact Hstop | lia |].
  exists st2. split; [exact Hrun2|]. eapply after_trans; eassumption.
Qed.

Lemma case_chain_nil : R_chain [] [].
Proof.
  intros c st rest fuel tree Hv Ht Hstop Hfuel. apply view_nil_inv in Hv. subst c.
  cbn [app] in Ht. destruct Hstop as (t & r & -> & Hb & _). need_fuel fuel f.
  exists st. split; [exact (loop_stop il f tree st t r Ht Hb)|].
  split; [exact Ht | apply agree_refl].
Qed.

Lemma case_chain_cons : forall k x op a ts l tsl,
  binop_of_token k = Some op -> Prints_factor a ts -> R_factor a ts ->
  Prints_chain l tsl -> R_chain l tsl ->
  R_chain ((op, a) :: l) ((k, x) :: ts ++ tsl).
Proof.
  intros k x op a ts l tsl Hk _ IHf Hl IHl c st rest fuel tree Hv Ht Hstop Hfuel.
  destruct (view_cons_inv _ _ _ Hv) as (t & c' & -> & Hkt & _ & Hv'). cbn [fst] in Hkt.
  destruct (view_app_inv _ _ _ Hv') as (c1 & c2 & -> & Hv1 & Hv2).
  len_norm. need_fuel fuel f. cbn [app] in Ht.
  rewrite <- Hkt in Hk. rewrite (loop_more il f tree st t _ op Ht Hk).
  set (st0 := set_toks st ((c1 ++ c2) ++ rest) (pline st)).
  destruct (IHf c1 st0 (c2 ++ rest) f Hv1) as (st1 & Hrun1 & Ha1);
    [subst st0; cbn [toks set_toks]; rewrite <- app_assoc; reflexivity
    | eapply chain_head; eassumption | lia |].
  rewrite (bind_ok _ _ _ _ _ _ _ Hrun1).
  destruct (IHl c2 st1 rest f (bt_add tree op a) Hv2) as (st2 & Hrun2 & Ha2);
    [apply Ha1 | exact Hstop | lia |].
  exists st2. split; [exact Hrun2|].
  eapply after_step; [reflexivity|]. eapply after_trans; eassumption.
Qed.

Lemma case_num : forall t0 n, number_value t0 = Some n -> R_factor (ENum n) [t0].
Proof.
  intros t0 n Hval c st rest fuel Hv Ht _ Hfuel.
  destruct (view_cons_inv _ _ _ Hv) as (t & c' & -> & Hk & Hx & Hv'). apply view_nil_inv in Hv'. subst c'.
  need_fuel fuel f. cbn [app] in Ht.
  assert (Hlit : literal_value t = Some n).
  { unfold literal_value. rewrite Hk, Hx. exact Hval. }
  rewrite (factor_number il f st t rest n Ht Hlit).
  eexists. split; [reflexivity|]. split; [reflexivity | apply agree_set_toks].
Qed.

Lemma case_var : forall x, R_factor (EVar x) [(TIdent, x)].
Proof.
  intros x c st rest fuel Hv Ht (t' & r' & Hrest & Hn) Hfuel.
  destruct (view_cons_inv _ _ _ Hv) as (t & c' & -> & Hk & Hx & Hv'). apply view_nil_inv in Hv'. subst c'.
  cbn [fst snd] in Hk, Hx. need_fuel fuel f. cbn [app] in Ht.
  destruct (factor_var il f st t rest t' r' Ht Hk Hrest Hn) as (st' & Hrun & Ha).
  rewrite Hx in Hrun. exists st'. auto.
Qed.

Lemma case_call : forall fn a args tsargs b,
  func_arity fn = Some (Nlen args) -> Prints_args args tsargs -> R_args args tsargs ->
  R_factor (EFunc fn args) ((TIdent, fn) :: (TLParen, a) :: tsargs ++ [(TRParen, b)]).
Proof.
  intros fn a args tsargs b Har _ IHa c st rest fuel Hv Ht _ Hfuel.
  destruct (view_cons_inv _ _ _ Hv) as (t & c' & -> & Hk & Hx & Hv').
  destruct (view_cons_inv _ _ _ Hv') as (t' & c'' & -> & Hk' & _ & Hv'').
  destruct (view_app_inv _ _ _ Hv'') as (c1 & c2 & -> & Hv1 & Hv2).
  destruct (view_cons_inv _ _ _ Hv2) as (t2 & c3 & -> & Hk2 & _ & Hv3). apply view_nil_inv in Hv3. subst c3.
  cbn [fst snd] in Hk, Hx, Hk', Hk2.
  len_norm. need_fuel fuel f. cbn [app] in Ht.
  rewrite <- Hx in Har.
  rewrite (factor_call il f st t t' _ (Nlen args) Ht Hk Hk' Har).
  set (st0 := set_toks st (t' :: (c1 ++ [t2]) ++ rest) (pline st)).
  destruct (IHa t' c1 st0 (t2 :: rest) f [] Hv1) as (st1 & Hrun1 & Ha1).
  { subst st0. cbn [toks set_toks]. rewrite <- app_assoc. reflexivity. }
  { rewrite Hk'. discriminate. }
  { exists t2, rest. rewrite Hk2. repeat split; discriminate. }
  { lia. }
  rewrite (bind_ok _ _ _ _ _ _ _ Hrun1). cbn [app].
  assert (Hne : TRParen <> TEol) by discriminate.
  rewrite (bind_ok _ _ _ _ _ _ _ (expect_cons il TRParen st1 t2 rest (proj1 Ha1) Hk2 Hne)).
  rewrite N.eqb_refl. cbn [negb]. rewrite Hx.
  eexists. split; [reflexivity|].
  eapply after_step; [reflexivity|]. eapply after_consume. exact Ha1.
Qed.

Lemma case_un : forall k x op e ts,
  unop_of_token k = Some op -> Prints_factor e ts -> R_factor e ts -> R_factor (EUn op e) ((k, x) :: ts).
Proof.
  intros k x op e ts Hop _ IH c st rest fuel Hv Ht Hstop Hfuel.
  destruct (view_cons_inv _ _ _ Hv) as (t & c' & -> & Hk & _ & Hv'). cbn [fst] in Hk.
  len_norm. need_fuel fuel f. cbn [app] in Ht.
  rewrite <- Hk in Hop. rewrite (factor_unary il f st t _ op Ht Hop).
  set (st0 := set_toks st (c' ++ rest) (pline st)).
  destruct (IH c' st0 rest f Hv') as (st1 & Hrun1 & Ha1); [reflexivity | exact Hstop | lia |].
  rewrite (bind_ok _ _ _ _ _ _ _ Hrun1).
  exists st1. split; [reflexivity|]. eapply after_step; [reflexivity | exact Ha1].
Qed.

Lemma case_paren : forall a e ts b, Prints e ts -> R_expr e ts ->
  R_factor e ((TLParen, a) :: ts ++ [(TRParen, b)]).
Proof.
  intros a e ts b _ IH c st rest fuel Hv Ht _ Hfuel.
  destruct (view_cons_inv _ _ _ Hv) as (t & c' & -> & Hk & _ & Hv'). cbn [fst] in Hk.
  destruct (view_app_inv _ _ _ Hv') as (c1 & c2 & -> & Hv1 & Hv2).
  destruct (view_cons_inv _ _ _ Hv2) as (t2 & c3 & -> & Hk2 & _ & Hv3). apply view_nil_inv in Hv3. subst c3.
  cbn [fst] in Hk2. len_norm. need_fuel fuel f. cbn [app] in Ht.
  rewrite (factor_paren il f st t _ Ht Hk).
  set (st0 := set_toks st ((c1 ++ [t2]) ++ rest) (pline st)).
  destruct (IH c1 st0 (t2 :: rest) f Hv1) as (st1 & Hrun1 & Ha1).
  { subst st0. cbn [toks set_toks]. rewrite <- app_assoc. reflexivity. }
  { exists t2, rest. rewrite Hk2. repeat split; discriminate. }
  { lia. }
  rewrite (bind_ok _ _ _ _ _ _ _ Hrun1).
  assert (Hne : TRParen <> TEol) by discriminate.
  rewrite (bind_ok _ _ _ _ _ _ _ (expect_cons il TRParen st1 t2 rest (proj1 Ha1) Hk2 Hne)).
  eexists. split; [reflexivity|].
  eapply after_step; [reflexivity|]. eapply after_consume. exact Ha1.
Qed.

Lemma case_args_one : forall e ts, Prints e ts -> R_expr e ts -> R_args [e] ts.
Proof.
  intros e ts _ IH sep c st rest fuel acc Hv Ht Hsep (t & r & Hrest & Hb & Hp & Hc) Hfuel.
  need_fuel fuel f. rewrite (args_step il f acc st sep _ Ht Hsep).
  set (st0 := set_toks st (c ++ rest) (pline st)).
  destruct (IH c st0 rest f Hv) as (st1 & Hrun1 & Ha1);
    [reflexivity | exists t, r; auto | lia |].
  rewrite (bind_ok _ _ _ _ _ _ _ Hrun1).
  assert (Ht1 : toks st1 = t :: r) by (rewrite <- Hrest; apply Ha1).
  rewrite (bind_ok _ _ _ _ _ _ _ (at_cons TComma st1 t r Ht1)).
  assert (E : tk_beq (tkind t) TComma = false).
  { destruct (tk_beq (tkind t) TComma) eqn:E; [apply tk_beq_true in E; contradiction | reflexivity]. }
  rewrite E. exists st1. split; [reflexivity|]. eapply after_step; [reflexivity | exact Ha1].
Qed.

Lemma case_args_more : forall e ts c0 args tsargs,
  Prints e ts -> R_expr e ts -> Prints_args args tsargs -> R_args args tsargs ->
  R_args (e :: args) (ts ++ (TComma, c0) :: tsargs).
Proof.
  intros e ts c0 args tsargs _ IHe _ IHa sep c st rest fuel acc Hv Ht Hsep Hstop Hfuel.
  destruct (view_app_inv _ _ _ Hv) as (c1 & c2 & -> & Hv1 & Hv2).
  destruct (view_cons_inv _ _ _ Hv2) as (t2 & c3 & -> & Hk2 & _ & Hv3). cbn [fst] in Hk2.
  len_norm. need_fuel fuel f. rewrite (args_step il f acc st sep _ Ht Hsep).
  set (st0 := set_toks st ((c1 ++ t2 :: c3) ++ rest) (pline st)).
  destruct (IHe c1 st0 (t2 :: c3 ++ rest) f Hv1) as (st1 & Hrun1 & Ha1).
  { subst st0. cbn [toks set_toks]. rewrite <- app_assoc. reflexivity. }
  { exists t2, (c3 ++ rest). rewrite Hk2. repeat split; discriminate. }
  { lia. }
  rewrite (bind_ok _ _ _ _ _ _ _ Hrun1).
  rewrite (bind_ok _ _ _ _ _ _ _ (at_cons TComma st1 t2 _ (proj1 Ha1))).
  rewrite Hk2. cbn [tk_beq].
  destruct (IHa t2 c3 st1 rest f (acc ++ [e]) Hv3) as (st2 & Hrun2 & Ha2);
    [apply Ha1 | rewrite Hk2; discriminate | exact Hstop | lia |].
  exists st2. split; [rewrite Hrun2, <- app_assoc; reflexivity|].
  eapply after_step; [reflexivity|]. eapply after_trans; eassumption.
Qed.

Theorem parse_prints :
  (forall e ts, Prints e ts -> R_expr e ts) /\
  (forall l ts, Prints_chain l ts -> R_chain l ts) /\
  (forall e ts, Prints_factor e ts -> R_factor e ts) /\
  (forall args ts, Prints_args args ts -> R_args args ts).
Proof.
  apply Prints_mutind.
  - exact case_chain.
  - exact case_chain_nil.
  - exact case_chain_cons.
  - exact case_num.
  - exact case_var.
  - exact case_call.
  - exact case_un.
  - exact case_paren.
  - exact case_args_one.
  - exact case_args_more.
Qed.

End MAIN.

(* the tokens that end an expression in the grammar all qualify *)
Lemma stop_expr_closer : forall t r,
  In (tkind t) [TRParen; TComma; TSemi; TEol; TEof] -> stop_expr (t :: r).
Proof.
  intros t r H. exists t, r. split; [reflexivity|]. cbn [In] in H.
  repeat (destruct H as [H|H]; [rewrite <- H; split; [reflexivity | discriminate]|]). contradiction.
Qed.

(* C08: the parser returns the tree that was printed, and stops right after the printing.  Of the
   parser state only the token list and the recorded reads of outputs change. *)
Theorem C08_unparse_parse : forall input_len e ts ts_tokens rest st fuel,
  Prints e ts -> view ts_tokens = ts -> toks st = ts_tokens ++ rest ->
  stop_expr rest -> (2 * length ts + 2 <= fuel)%nat ->
  exists st', parse_expr input_len fuel st = Ok (e, st') /\ toks st' = rest /\ pline st' = pline st /\
              pvars st' = pvars st /\ pvirtuals st' = pvirtuals st /\ pexp_inputs st' = pexp_inputs st.
Proof.
  intros il e ts c rest st fuel HP Hv Ht Hstop Hfuel.
  destruct (proj1 (parse_prints il) e ts HP c st rest fuel Hv Ht Hstop Hfuel) as (st' & Hrun & Htk & Hag).
  exists st'. split; [exact Hrun|]. split; [exact Htk|]. exact Hag.
Qed.

Theorem C08_unparse_parse_factor : forall input_len e ts ts_tokens rest st fuel,
  Prints_factor e ts -> view ts_tokens = ts -> toks st = ts_tokens ++ rest ->
  stop_factor rest -> (2 * length ts <= fuel)%nat ->
  exists st', parse_factor input_len fuel st = Ok (e, st') /\ toks st' = rest /\ pline st' = pline st /\
              pvars st' = pvars st /\ pvirtuals st' = pvirtuals st /\ pexp_inputs st' = pexp_inputs st.
Proof.
  intros il e ts c rest st fuel HP Hv Ht Hstop Hfuel.
  destruct (proj1 (proj2 (proj2 (parse_prints il))) e ts HP c st rest fuel Hv Ht Hstop Hfuel)
    as (st' & Hrun & Htk & Hag).
  exists st'. split; [exact Hrun|]. split; [exact Htk|]. exact Hag.
Qed.

Theorem C08_unparse_parse_args : forall input_len args ts sep ts_tokens rest st fuel acc,
  Prints_args args ts -> view ts_tokens = ts -> toks st = sep :: ts_tokens ++ rest ->
  tkind sep <> TEol -> stop_args rest -> (2 * length ts + 3 <= fuel)%nat ->
  exists st', parse_args input_len fuel acc st = Ok (acc ++ args, st') /\ toks st' = rest /\
              pline st' = pline st /\
              pvars st' = pvars st /\ pvirtuals st' = pvirtuals st /\ pexp_inputs st' = pexp_inputs st.
Proof.
  intros il args ts sep c rest st fuel acc HP Hv Ht Hsep Hstop Hfuel.
  destruct (proj2 (proj2 (proj2 (parse_prints il))) args ts HP sep c st rest fuel acc Hv Ht Hsep Hstop Hfuel)
    as (st' & Hrun & Htk & Hag).
  exists st'. split; [exact Hrun|]. split; [exact Htk|]. exact Hag.
Qed.

(* consequence: a token list is a printing of at most one tree *)
Corollary Prints_deterministic : forall e1 e2 ts, Prints e1 ts -> Prints e2 ts -> e1 = e2.
Proof.
  intros e1 e2 ts H1 H2.
  set (c := map (fun p : tok => {| tkind := fst p; tspan := (0, 0); ttext := snd p |}) ts).
  set (eof := {| tkind := TEof; tspan := (0, 0); ttext := [] |}).
  set (st := {| toks := c ++ [eof]; pline := 1; pvars := fm_new; pvirtuals := [];
                pexp_inputs := []; pexp_outputs := [] |}).
  assert (Hv : view c = ts).
  { subst c. unfold view. rewrite map_map. cbn [tkind ttext].
    rewrite <- (map_id ts) at 2. apply map_ext. intros [k x]. reflexivity. }
  assert (Hs : stop_expr [eof]) by (apply stop_expr_closer; cbn; tauto).
  destruct (C08_unparse_parse 0 e1 ts c [eof] st _ H1 Hv eq_refl Hs (Nat.le_refl _)) as (s1 & R1 & _).
  destruct (C08_unparse_parse 0 e2 ts c [eof] st _ H2 Hv eq_refl Hs (Nat.le_refl _)) as (s2 & R2 & _).
  rewrite R1 in R2. congruence.
Qed.

(* ================================================================== part 3: the minimal printer *)

(* ------------------------------------------------------------------ tokens *)

Definition binop_tok (op : binop) : tok :=
  match op with
  | Equal => (TEqual, s2n "=") | NotEqual => (TNotEqual, s2n "!=")
  | GreaterThan => (TGreaterThan, s2n ">") | LessThan => (TLessThan, s2n "<")
  | GreaterThanOrEqual => (TGreaterThanOrEqual, s2n ">=") | LessThanOrEqual => (TLessThanOrEqual, s2n "<=")
  | Or => (TOr, s2n "|") | Xor => (TXor, s2n "^") | And => (TAnd, s2n "&")
  | ShiftLeft => (TShiftLeft, s2n "<<") | ShiftRight => (TShiftRight, s2n ">>")
  | Plus => (TPlus, s2n "+") | Minus => (TMinus, s2n "-")
  | Times => (TTimes, s2n "*") | Divide => (TDivide, s2n "/") | Reminder => (TReminder, s2n "%")
  end%string.

Definition unop_tok (op : unop) : tok :=
  match op with
  | UMinus => (TMinus, s2n "-") | ULogicalNot => (TLogicalNot, s2n "!") | UBinaryNot => (TBinaryNot, s2n "~")
  end%string.

Definition lp : tok := (TLParen, s2n "(").
Definition rp : tok := (TRParen, s2n ")").
Definition comma : tok := (TComma, s2n ",").

Lemma binop_tok_ok : forall op, binop_of_token (fst (binop_tok op)) = Some op.
Proof. destruct op; reflexivity. Qed.
Lemma unop_tok_ok : forall op, unop_of_token (fst (unop_tok op)) = Some op.
Proof. destruct op; reflexivity. Qed.

(* decimal digits of n, most significant first (fuel + 1 digits at most) *)
Fixpoint dec_digits (fuel : nat) (n : N) (acc : list N) : list N :=
  match fuel with
  | O => n :: acc
  | S f => if n <? 10 then n :: acc else dec_digits f (n / 10) (n mod 10 :: acc)
  end.

(* 19 digits are enough below 2^63 *)
Definition dec_text (n : N) : text := map (fun d => 48 + d) (dec_digits 18 n []).

(* what the lexer makes of the usual spelling: "0" is an octal literal, any other decimal string
   a decimal one *)
Definition num_tok (n : Z) : tok :=
  if (n =? 0)%Z then (TOctInt, [48]) else (TDecInt, dec_text (Z.to_N n)).

Lemma dec_digits_value : forall fuel n acc,
  fold_left (fun a d => a * 10 + d) (dec_digits fuel n acc) 0 = fold_left (fun a d => a * 10 + d) acc n.
Proof.
  induction fuel as [|f IH]; intros n acc; cbn [dec_digits].
  - reflexivity.
  - destruct (n <? 10); [reflexivity|]. rewrite IH. cbn [fold_left]. f_equal.
    rewrite N.mul_comm. symmetry. apply N.div_mod. discriminate.
Qed.

Lemma dec_digits_small : forall fuel n acc,
  n < 10 ^ N.of_nat (S fuel) -> Forall (fun d => d < 10) acc ->
  Forall (fun d => d < 10) (dec_digits fuel n acc).
Proof.
  induction fuel as [|f IH]; intros n acc Hn Hacc; cbn [dec_digits].
  - constructor; [exact Hn | exact Hacc].
  - destruct (N.ltb_spec n 10) as [Hlt|Hge]; [constructor; assumption|].
    apply IH.
    + apply N.div_lt_upper_bound; [discriminate|].
      rewrite Nat2N.inj_succ, N.pow_succ_r' in Hn. exact Hn.
    + constructor; [apply N.mod_lt; discriminate | exact Hacc].
Qed.

Lemma dec_digits_nonempty : forall fuel n acc, dec_digits fuel n acc <> [].
Proof.
  induction fuel as [|f IH]; intros n acc; cbn [dec_digits]; [discriminate|].
  destruct (n <? 10); [discriminate | apply IH].
Qed.

Lemma dec_text_value : forall n, n < 2 ^ 63 -> from_str_radix (dec_text n) 10 = Some (Z.of_N n).
Proof.
  intros n Hn. unfold dec_text. set (ds := dec_digits 18 n []).
  assert (Hsmall : Forall (fun d => d < 10) ds).
  { apply dec_digits_small; [|constructor]. eapply N.lt_trans; [exact Hn|]. reflexivity. }
  assert (Hspell : map (fun d => 48 + d) ds = spell (map (fun _ => false) ds) ds).
  { clear -Hsmall. induction Hsmall as [|d ds Hd _ IH]; [reflexivity|].
    cbn [map]. rewrite spell_cons, IH, digit_char_small by exact Hd. reflexivity. }
  rewrite Hspell, radix_value.
  - unfold value. subst ds. rewrite dec_digits_value. cbn [fold_left].
    destruct (N.ltb_spec n (2 ^ 63)); [reflexivity | lia].
  - lia.
  - apply dec_digits_nonempty.
  - apply map_length.
  - exact Hsmall.
Qed.

Lemma num_tok_value : forall n, (0 <= n < 2 ^ 63)%Z -> number_value (num_tok n) = Some n.
Proof.
  intros n Hn. unfold num_tok. destruct (Z.eqb_spec n 0) as [->|Hne]; [reflexivity|].
  unfold number_value. cbn [fst snd]. rewrite dec_text_value.
  - rewrite Z2N.id by lia. reflexivity.
  - change (2 ^ 63) with (Z.to_N (2 ^ 63)). apply Z2N.inj_lt; lia.
Qed.

(* ------------------------------------------------------------------ the printer *)

Definition parens (ts : list tok) : list tok := lp :: ts ++ [rp].

Definition is_bin (e : expr) : bool := match e with EBin _ _ _ => true | _ => false end.

(* a left operand is parenthesised iff its operator binds looser than the parent's,
   a right operand iff looser or equally (the operators associate to the left) *)
Definition paren_left (op : binop) (l : expr) : bool :=
  match l with EBin o _ _ => precedence op <? precedence o | _ => false end.
Definition paren_right (op : binop) (r : expr) : bool :=
  match r with EBin o _ _ => precedence op <=? precedence o | _ => false end.

Fixpoint join (ll : list (list tok)) : list tok :=
  match ll with
  | [] => []
  | [x] => x
  | x :: r => x ++ comma :: join r
  end.

Fixpoint pp_min (e : expr) : list tok :=
  match e with
  | ENum n => [num_tok n]
  | EVar x => [(TIdent, x)]
  | EBin op l r =>
      (if paren_left op l then parens (pp_min l) else pp_min l) ++
      binop_tok op :: (if paren_right op r then parens (pp_min r) else pp_min r)
  | EUn op a => unop_tok op :: (if is_bin a then parens (pp_min a) else pp_min a)
  | EFunc f args => (TIdent, f) :: lp :: join (map pp_min args) ++ [rp]
  end.

(* ------------------------------------------------------------------ printable trees *)

(* the identifier lexemes that are not keywords: what makes (TIdent, x) the token of the text x;
   the parser theorems do not depend on it *)
Definition ident_ok (x : name) : bool :=
  match x with
  | [] => false
  | c :: w => is_ident_start c && forallb is_ident_cont w && tk_beq (keyword_or_ident x) TIdent
  end.

Fixpoint printable (e : expr) : Prop :=
  match e with
  | ENum n => (0 <= n < 2 ^ 63)%Z
  | EVar x => ident_ok x = true
  | EBin _ l r => printable l /\ printable r
  | EUn _ a => printable a
  | EFunc f args =>
      args <> [] /\ func_arity f = Some (Nlen args) /\
      (fix all (l : list expr) : Prop := match l with [] => True | a :: r => printable a /\ all r end) args
  end.

Lemma printable_func : forall f args, printable (EFunc f args) <->
  args <> [] /\ func_arity f = Some (Nlen args) /\ Forall printable args.
Proof.
  intros f args. cbn [printable].
  assert (E : forall l, (fix all (l : list expr) : Prop :=
                 match l with [] => True | a :: r => printable a /\ all r end) l <-> Forall printable l).
  { induction l as [|a l IH]; split; intros H.
    - constructor.
    - exact I.
    - destruct H as [Ha Hl]. constructor; [exact Ha | apply IH; exact Hl].
    - inversion H; subst. split; [assumption | apply IH; assumption]. }
  rewrite E. reflexivity.
Qed.

Section EXPR_IND.
Variable Q : expr -> Prop.
Hypothesis Hnum : forall n, Q (ENum n).
Hypothesis Hvar : forall x, Q (EVar x).
Hypothesis Hbin : forall op l r, Q l -> Q r -> Q (EBin op l r).
Hypothesis Hun : forall op a, Q a -> Q (EUn op a).
Hypothesis Hfunc : forall f args, Forall Q args -> Q (EFunc f args).
Fixpoint expr_ind_nested (e : expr) : Q e :=
  match e with
  | ENum n => Hnum n
  | EVar x => Hvar x
  | EBin op l r => Hbin op l r (expr_ind_nested l) (expr_ind_nested r)
  | EUn op a => Hun op a (expr_ind_nested a)
  | EFunc f args =>
      Hfunc f args ((fix go (l : list expr) : Forall Q l :=
                       match l with
                       | [] => Forall_nil Q
                       | x :: r => Forall_cons x (expr_ind_nested x) (go r)
                       end) args)
  end.
End EXPR_IND.

(* ------------------------------------------------------------------ the chain of a tree *)

(* the tree of the top-level chain of pp_min e: operands that pp_min parenthesises are atoms *)
Fixpoint ct (e : expr) : btree :=
  match e with
  | EBin op l r =>
      BNode op (if paren_left op l then BAtom l else ct l) (if paren_right op r then BAtom r else ct r)
  | _ => BAtom e
  end.

(* an operand of the chain: a binary expression only in parentheses *)
Definition pp_atom (a : expr) : list tok := if is_bin a then parens (pp_min a) else pp_min a.

Fixpoint pp_tree (t : btree) : list tok :=
  match t with
  | BAtom a => pp_atom a
  | BNode o l r => pp_tree l ++ binop_tok o :: pp_tree r
  end.

Definition pp_rest (l : list (binop * expr)) : list tok :=
  flat_map (fun p => binop_tok (fst p) :: pp_atom (snd p)) l.

Lemma paren_left_bin : forall op l, paren_left op l = true -> is_bin l = true.
Proof. intros op l H. destruct l; try discriminate H; reflexivity. Qed.
Lemma paren_right_bin : forall op r, paren_right op r = true -> is_bin r = true.
Proof. intros op r H. destruct r; try discriminate H; reflexivity. Qed.

Lemma bt_expr_ct : forall e, bt_expr (ct e) = e.
Proof.
  induction e as [n|x|op l IHl r IHr|op a _|f args]; try reflexivity.
  cbn [ct bt_expr]. destruct (paren_left op l), (paren_right op r); cbn [bt_expr]; congruence.
Qed.

Lemma pp_tree_ct : forall e, pp_tree (ct e) = pp_min e.
Proof.
  induction e as [n|x|op l IHl r IHr|op a _|f args]; try reflexivity.
  cbn [ct pp_tree pp_min].
  destruct (paren_left op l) eqn:El, (paren_right op r) eqn:Er; cbn [pp_tree]; unfold pp_atom;
    rewrite ?(paren_left_bin _ _ El), ?(paren_right_bin _ _ Er), ?IHl, ?IHr; reflexivity.
Qed.

Lemma ops_le_root : forall e bound, prec_ok (ct e) ->
  match e with EBin o _ _ => precedence o <= bound | _ => True end ->
  Forall (fun x => precedence x <= bound) (bt_ops (ct e)).
Proof.
  intros e bound Hok Hb. destruct e as [n|x|o l r|o a|f args]; try constructor.
  cbn [ct] in *. cbn [prec_ok bt_ops] in *. destruct Hok as (_ & _ & Fl & Fr).
  apply Forall_app. split.
  - eapply Forall_impl; [|exact Fl]. cbv beta. intros; lia.
  - constructor; [exact Hb|]. eapply Forall_impl; [|exact Fr]. cbv beta. intros; lia.
Qed.

Lemma ops_lt_root : forall e bound, prec_ok (ct e) ->
  match e with EBin o _ _ => precedence o < bound | _ => True end ->
  Forall (fun x => precedence x < bound) (bt_ops (ct e)).
Proof.
  intros e bound Hok Hb. destruct e as [n|x|o l r|o a|f args]; try constructor.
  cbn [ct] in *. cbn [prec_ok bt_ops] in *. destruct Hok as (_ & _ & Fl & Fr).
  apply Forall_app. split.
  - eapply Forall_impl; [|exact Fl]. cbv beta. intros; lia.
  - constructor; [exact Hb|]. eapply Forall_impl; [|exact Fr]. cbv beta. intros; lia.
Qed.

(* pp_min omits parentheses only where precedence and left associativity allow it *)
Lemma ct_prec_ok : forall e, prec_ok (ct e).
Proof.
  induction e as [n|x|op l IHl r IHr|op a _|f args]; try exact I.
  cbn [ct prec_ok]. split; [|split; [|split]].
  - destruct (paren_left op l); [exact I | exact IHl].
  - destruct (paren_right op r); [exact I | exact IHr].
  - destruct (paren_left op l) eqn:El; [constructor|].
    apply ops_le_root; [exact IHl|]. destruct l; try exact I.
    cbn [paren_left] in El. apply N.ltb_ge in El. exact El.
  - destruct (paren_right op r) eqn:Er; [constructor|].
    apply ops_lt_root; [exact IHr|]. destruct r; try exact I.
    cbn [paren_right] in Er. apply N.leb_gt in Er. exact Er.
Qed.

Lemma pp_rest_app : forall l1 l2, pp_rest (l1 ++ l2) = pp_rest l1 ++ pp_rest l2.
Proof. intros. unfold pp_rest. apply flat_map_app. Qed.

Lemma pp_tree_flat : forall t, pp_tree t = pp_atom (bt_first t) ++ pp_rest (bt_rest t).
Proof.
  induction t as [a|o l IHl r IHr]; cbn [pp_tree bt_first bt_rest].
  - cbn. rewrite app_nil_r. reflexivity.
  - rewrite IHl, IHr, pp_rest_app. unfold pp_rest at 3. cbn [flat_map fst snd].
    fold (pp_rest (bt_rest r)). rewrite <- !app_assoc. reflexivity.
Qed.

(* every operand of the chain is printed as a factor *)
Fixpoint atoms_ok (t : btree) : Prop :=
  match t with
  | BAtom a => Prints_factor a (pp_atom a)
  | BNode _ l r => atoms_ok l /\ atoms_ok r
  end.

Lemma atoms_first : forall t, atoms_ok t -> Prints_factor (bt_first t) (pp_atom (bt_first t)).
Proof. induction t as [a|o l IHl r IHr]; cbn [atoms_ok bt_first]; [auto | intros [Hl _]; auto]. Qed.

Lemma PC_cons_tok : forall op a ts l tsl,
  Prints_factor a ts -> Prints_chain l tsl -> Prints_chain ((op, a) :: l) (binop_tok op :: ts ++ tsl).
Proof.
  intros op a ts l tsl Ha Hl. pose proof (binop_tok_ok op) as Hk.
  destruct (binop_tok op) as [k x]. eapply PC_cons; eassumption.
Qed.

Lemma atoms_rest : forall t, atoms_ok t -> Prints_chain (bt_rest t) (pp_rest (bt_rest t)).
Proof.
  induction t as [a|o l IHl r IHr]; cbn [atoms_ok bt_rest].
  - intros _. constructor.
  - intros [Hl Hr]. rewrite pp_rest_app. apply Prints_chain_app; [auto|].
    unfold pp_rest. cbn [flat_map fst snd]. fold (pp_rest (bt_rest r)).
    apply PC_cons_tok; [apply atoms_first; exact Hr | auto].
Qed.

(* a precedence-correct tree whose operands are printed as factors is printed by its flattening *)
Lemma tree_prints : forall t, prec_ok t -> atoms_ok t -> Prints (bt_expr t) (pp_tree t).
Proof.
  intros t Hok Hat. rewrite pp_tree_flat.
  pose proof (fold_add_is_the_parse (bt_first t) (bt_rest t) t Hok eq_refl eq_refl) as E.
  replace (bt_expr t) with (parse_flat (bt_first t) (bt_rest t))
    by (unfold parse_flat; rewrite <- E; reflexivity).
  apply P_chain; [apply atoms_first | apply atoms_rest]; exact Hat.
Qed.

Lemma PF_un_tok : forall op e ts, Prints_factor e ts -> Prints_factor (EUn op e) (unop_tok op :: ts).
Proof.
  intros op e ts H. pose proof (unop_tok_ok op) as Hk.
  destruct (unop_tok op) as [k x]. eapply PF_un; eassumption.
Qed.

Lemma args_print : forall args, args <> [] -> Forall (fun a => Prints a (pp_min a)) args ->
  Prints_args args (join (map pp_min args)).
Proof.
  induction args as [|a args IH]; intros Hne HF; [contradiction|].
  inversion HF as [|? ? Ha HF']; subst. destruct args as [|b args].
  - cbn. apply PA_one. exact Ha.
  - change (join (map pp_min (a :: b :: args))) with (pp_min a ++ comma :: join (map pp_min (b :: args))).
    apply PA_more; [exact Ha|]. apply IH; [discriminate | exact HF'].
Qed.

Lemma pp_prints : forall e, printable e ->
  atoms_ok (ct e) /\ Prints e (pp_min e) /\ Prints_factor e (pp_atom e).
Proof.
  assert (Hleaf : forall e, is_bin e = false -> Prints_factor e (pp_min e) ->
    atoms_ok (ct e) /\ Prints e (pp_min e) /\ Prints_factor e (pp_atom e)).
  { intros e Hb HF.
    assert (HA : Prints_factor e (pp_atom e)) by (unfold pp_atom; rewrite Hb; exact HF).
    split; [|split; [apply Prints_of_factor; exact HF | exact HA]].
    destruct e; try discriminate Hb; exact HA. }
  induction e as [n|x|op l r IHl IHr|op a IHa|f args IHargs] using expr_ind_nested; intros Hp.
  - apply Hleaf; [reflexivity|]. cbn [pp_min]. apply (PF_num _ n). apply num_tok_value. exact Hp.
  - apply Hleaf; [reflexivity|]. cbn [pp_min]. apply PF_var.
  - destruct Hp as [Hpl Hpr].
    destruct (IHl Hpl) as (Al & _ & Fl). destruct (IHr Hpr) as (Ar & _ & Fr).
    assert (Hat : atoms_ok (ct (EBin op l r))).
    { cbn [ct atoms_ok]. split.
      - destruct (paren_left op l); [exact Fl | exact Al].
      - destruct (paren_right op r); [exact Fr | exact Ar]. }
    assert (HP : Prints (EBin op l r) (pp_min (EBin op l r))).
    { pose proof (tree_prints (ct (EBin op l r)) (ct_prec_ok _) Hat) as H.
      rewrite bt_expr_ct, pp_tree_ct in H. exact H. }
    split; [exact Hat|]. split; [exact HP|].
    unfold pp_atom. cbn [is_bin]. apply PF_paren. exact HP.
  - apply Hleaf; [reflexivity|]. cbn [pp_min]. fold (pp_atom a).
    apply PF_un_tok. apply (IHa Hp).
  - apply Hleaf; [reflexivity|]. cbn [pp_min].
    apply printable_func in Hp. destruct Hp as (Hne & Har & Hall).
    apply PF_call; [exact Har|]. apply args_print; [exact Hne|].
    rewrite Forall_forall in *. intros a Hin. apply (IHargs a Hin). apply Hall. exact Hin.
Qed.

(* the minimal printing is a printing *)
Theorem pp_min_Prints : forall e, printable e -> Prints e (pp_min e).
Proof. intros e Hp. apply (pp_prints e Hp). Qed.

(* C08 for the pretty printer: parsing the tokens of pp_min e gives e back *)
Theorem C08_pp_min_parse : forall input_len e ts_tokens rest st fuel,
  printable e -> view ts_tokens = pp_min e -> toks st = ts_tokens ++ rest ->
  stop_expr rest -> (2 * length (pp_min e) + 2 <= fuel)%nat ->
  exists st', parse_expr input_len fuel st = Ok (e, st') /\ toks st' = rest /\ pline st' = pline st /\
              pvars st' = pvars st /\ pvirtuals st' = pvirtuals st /\ pexp_inputs st' = pexp_inputs st.
Proof.
  intros il e c rest st fuel Hp Hv Ht Hstop Hfuel.
  eapply C08_unparse_parse; eauto. apply pp_min_Prints. exact Hp.
Qed.

(* ================================================================== part 4: printing, tree-directed

   The same notion stated without reference to BinOpTree::add: [Printed p e ts] - ts is a printing
   of e in which every operator outside parentheses (and outside call arguments) binds tighter
   than level p.  Parentheses may be put around anything (Pd_paren); they may be omitted around
   the left operand of op when its operators bind at least as tightly as op, around the right
   operand when they bind strictly tighter (Pd_bin); the operand of a unary operator is printed at
   level 0, i.e. it is an atom or parenthesised.  Level 9 allows every operator. *)

Inductive Printed : N -> expr -> list tok -> Prop :=
| Pd_num : forall p t n, number_value t = Some n -> Printed p (ENum n) [t]
| Pd_var : forall p x, Printed p (EVar x) [(TIdent, x)]
| Pd_call : forall p f a args tsargs b,
    func_arity f = Some (Nlen args) -> Printed_args args tsargs ->
    Printed p (EFunc f args) ((TIdent, f) :: (TLParen, a) :: tsargs ++ [(TRParen, b)])
| Pd_un : forall p k x op e ts,
    unop_of_token k = Some op -> Printed 0 e ts -> Printed p (EUn op e) ((k, x) :: ts)
| Pd_paren : forall p q a e ts b,
    Printed q e ts -> Printed p e ((TLParen, a) :: ts ++ [(TRParen, b)])
| Pd_bin : forall p k x op l r tsl tsr,
    binop_of_token k = Some op -> precedence op < p ->
    Printed (precedence op + 1) l tsl -> Printed (precedence op) r tsr ->
    Printed p (EBin op l r) (tsl ++ (k, x) :: tsr)

with Printed_args : list expr -> list tok -> Prop :=
| Pda_one : forall q e ts, Printed q e ts -> Printed_args [e] ts
| Pda_more : forall q e ts c args tsargs,
    Printed q e ts -> Printed_args args tsargs -> Printed_args (e :: args) (ts ++ (TComma, c) :: tsargs).

Scheme Printed_mind := Minimality for Printed Sort Prop
  with Printed_args_mind := Minimality for Printed_args Sort Prop.
Combined Scheme Printed_mutind from Printed_mind, Printed_args_mind.

(* the chain a level-p printing consists of *)
Definition chain_of (p : N) (e : expr) (ts : list tok) : Prop :=
  exists t ts0 tsl,
    prec_ok t /\ bt_expr t = e /\ Forall (fun o => precedence o < p) (bt_ops t) /\
    Prints_factor (bt_first t) ts0 /\ Prints_chain (bt_rest t) tsl /\ ts = ts0 ++ tsl.

Lemma chain_of_atom : forall p e ts, Prints_factor e ts -> chain_of p e ts.
Proof.
  intros p e ts H. exists (BAtom e), ts, []. cbn [prec_ok bt_expr bt_ops bt_first bt_rest].
  rewrite app_nil_r. repeat split; auto using PC_nil.
Qed.

Lemma chain_of_Prints : forall p e ts, chain_of p e ts -> Prints e ts.
Proof.
  intros p e ts (t & ts0 & tsl & Hok & <- & _ & H0 & Hl & ->).
  pose proof (fold_add_is_the_parse (bt_first t) (bt_rest t) t Hok eq_refl eq_refl) as E.
  replace (bt_expr t) with (parse_flat (bt_first t) (bt_rest t))
    by (unfold parse_flat; rewrite <- E; reflexivity).
  apply P_chain; assumption.
Qed.

Lemma chain_of_0_factor : forall e ts, chain_of 0 e ts -> Prints_factor e ts.
Proof.
  intros e ts (t & ts0 & tsl & _ & <- & Hops & H0 & Hl & ->).
  destruct t as [a|o l r].
  - cbn [bt_rest bt_first bt_expr] in *. inversion Hl; subst. rewrite app_nil_r. exact H0.
  - exfalso. cbn [bt_ops] in Hops. apply Forall_app in Hops. destruct Hops as [_ Hops].
    inversion Hops as [|? ? Ho _]; subst. lia.
Qed.

Theorem Printed_Prints :
  (forall p e ts, Printed p e ts -> chain_of p e ts) /\
  (forall args ts, Printed_args args ts -> Prints_args args ts).
Proof.
  apply Printed_mutind.
  - intros p t n Hv. apply chain_of_atom. eapply PF_num; eassumption.
  - intros p x. apply chain_of_atom. apply PF_var.
  - intros p f a args tsargs b Har _ IH. apply chain_of_atom. apply PF_call; assumption.
  - intros p k x op e ts Hop _ IH. apply chain_of_atom. eapply PF_un; [eassumption|].
    apply chain_of_0_factor. exact IH.
  - intros p q a e ts b _ IH. apply chain_of_atom. apply PF_paren. eapply chain_of_Prints. exact IH.
  - intros p k x op l r tsl tsr Hk Hp _ (tl & l0 & ll & Hokl & <- & Hopsl & Hl0 & Hll & ->)
           _ (tr & r0 & rl & Hokr & <- & Hopsr & Hr0 & Hrl & ->).
    exists (BNode op tl tr), l0, (ll ++ (k, x) :: r0 ++ rl).
    cbn [prec_ok bt_expr bt_ops bt_first bt_rest]. split; [|split; [|split; [|split; [|split]]]].
    + split; [exact Hokl|]. split; [exact Hokr|]. split; [|exact Hopsr].
      eapply Forall_impl; [|exact Hopsl]. cbv beta. intros; lia.
    + reflexivity.
    + apply Forall_app. split; [eapply Forall_impl; [|exact Hopsl]; cbv beta; intros; lia|].
      constructor; [exact Hp|]. eapply Forall_impl; [|exact Hopsr]. cbv beta. intros; lia.
    + exact Hl0.
    + apply Prints_chain_app; [exact Hll|]. eapply PC_cons; eassumption.
    + rewrite <- app_assoc. reflexivity.
  - intros q e ts _ IH. apply PA_one. eapply chain_of_Prints. exact IH.
  - intros q e ts c args tsargs _ IHe _ IHa. apply PA_more; [eapply chain_of_Prints; exact IHe | exact IHa].
Qed.

Corollary Printed_is_Prints : forall p e ts, Printed p e ts -> Prints e ts.
Proof. intros p e ts H. eapply chain_of_Prints. apply (proj1 Printed_Prints). exact H. Qed.

(* C08 for tree-directed printings, with minimal or redundant parentheses *)
Theorem C08_printed_parse : forall input_len p e ts ts_tokens rest st fuel,
  Printed p e ts -> view ts_tokens = ts -> toks st = ts_tokens ++ rest ->
  stop_expr rest -> (2 * length ts + 2 <= fuel)%nat ->
  exists st', parse_expr input_len fuel st = Ok (e, st') /\ toks st' = rest /\ pline st' = pline st /\
              pvars st' = pvars st /\ pvirtuals st' = pvirtuals st /\ pexp_inputs st' = pexp_inputs st.
Proof.
  intros il p e ts c rest st fuel HP. apply C08_unparse_parse. eapply Printed_is_Prints. exact HP.
Qed.

(* pp_min is such a printing, at every level that allows its root operator *)
Definition root_lt (p : N) (e : expr) : Prop :=
  match e with EBin o _ _ => precedence o < p | _ => True end.

Lemma precedence_lt_9 : forall o, precedence o < 9.
Proof. destruct o; reflexivity. Qed.

Lemma root_lt_9 : forall e, root_lt 9 e.
Proof. destruct e; try exact I. apply precedence_lt_9. Qed.

Lemma Pd_un_tok : forall p op e ts, Printed 0 e ts -> Printed p (EUn op e) (unop_tok op :: ts).
Proof.
  intros p op e ts H. pose proof (unop_tok_ok op) as Hk.
  destruct (unop_tok op) as [k x]. eapply Pd_un; eassumption.
Qed.

Lemma Pd_bin_tok : forall p op l r tsl tsr, precedence op < p ->
  Printed (precedence op + 1) l tsl -> Printed (precedence op) r tsr ->
  Printed p (EBin op l r) (tsl ++ binop_tok op :: tsr).
Proof.
  intros p op l r tsl tsr Hp Hl Hr. pose proof (binop_tok_ok op) as Hk.
  destruct (binop_tok op) as [k x]. eapply Pd_bin; eassumption.
Qed.

Lemma args_printed : forall args, args <> [] -> Forall (fun a => Printed 9 a (pp_min a)) args ->
  Printed_args args (join (map pp_min args)).
Proof.
  induction args as [|a args IH]; intros Hne HF; [contradiction|].
  inversion HF as [|? ? Ha HF']; subst. destruct args as [|b args].
  - cbn. eapply Pda_one. exact Ha.
  - change (join (map pp_min (a :: b :: args))) with (pp_min a ++ comma :: join (map pp_min (b :: args))).
    eapply Pda_more; [exact Ha|]. apply IH; [discriminate | exact HF'].
Qed.

Theorem pp_min_Printed : forall e, printable e -> forall p, root_lt p e -> Printed p e (pp_min e).
Proof.
  induction e as [n|x|op l r IHl IHr|op a IHa|f args IHargs] using expr_ind_nested; intros Hpr p Hroot.
  - cbn [pp_min]. apply (Pd_num _ _ n). apply num_tok_value. exact Hpr.
  - apply Pd_var.
  - destruct Hpr as [Hpl Hpr]. cbn [pp_min root_lt] in *. apply Pd_bin_tok; [exact Hroot | |].
    + destruct (paren_left op l) eqn:El.
      * eapply Pd_paren. apply (IHl Hpl 9). apply root_lt_9.
      * apply (IHl Hpl). destruct l; try exact I. cbn [paren_left root_lt] in *.
        apply N.ltb_ge in El. lia.
    + destruct (paren_right op r) eqn:Er.
      * eapply Pd_paren. apply (IHr Hpr 9). apply root_lt_9.
      * apply (IHr Hpr). destruct r; try exact I. cbn [paren_right root_lt] in *.
        apply N.leb_gt in Er. exact Er.
  - cbn [pp_min]. apply Pd_un_tok. destruct (is_bin a) eqn:Eb.
    + eapply Pd_paren. apply (IHa Hpr 9). apply root_lt_9.
    + apply (IHa Hpr). destruct a; try exact I. discriminate Eb.
  - cbn [pp_min]. apply printable_func in Hpr. destruct Hpr as (Hne & Har & Hall).
    apply Pd_call; [exact Har|]. apply args_printed; [exact Hne|].
    rewrite Forall_forall in *. intros a Hin. apply (IHargs a Hin (Hall a Hin)). apply root_lt_9.
Qed.

(* ================================================================== the leaf tokens and the lexer

   The tokens pp_min writes for literals and variables are the tokens the lexer makes of their
   texts (whatever follows, as long as it does not extend the lexeme). *)

Lemma dec_digits_hd : forall fuel n acc, n <> 0 -> hd 0 (dec_digits fuel n acc) <> 0.
Proof.
  induction fuel as [|f IH]; intros n acc Hn; cbn [dec_digits]; [exact Hn|].
  destruct (N.ltb_spec n 10) as [Hlt|Hge]; [exact Hn|]. apply IH.
  intro E. apply N.div_small_iff in E; [lia | discriminate].
Qed.

Lemma lex_num_tok : forall n stop, (0 <= n < 2 ^ 63)%Z ->
  starts_with is_dec_digit stop = false -> radix_prefix_follows stop = false ->
  lex_one (snd (num_tok n) ++ stop) = Some (Some (fst (num_tok n)), snd (num_tok n), stop).
Proof.
  intros n stop Hn Hstop Hpre. unfold num_tok. destruct (Z.eqb_spec n 0) as [->|Hne]; cbn [fst snd].
  - assert (Hoct : starts_with is_oct_digit stop = false).
    { destruct stop as [|c s]; [reflexivity|]. cbn [starts_with] in *.
      unfold is_oct_digit, is_dec_digit, in_range in *. revert Hstop. cmp_cases; cbn [andb]; try lia; auto. }
    apply (lex_octal [] [] stop (0, 0) eq_refl (Forall_nil _) Hoct (fun _ => Hpre)).
  - unfold dec_text. set (ds := dec_digits 18 (Z.to_N n) []).
    assert (Hlt : Z.to_N n < 2 ^ 63).
    { change (2 ^ 63) with (Z.to_N (2 ^ 63)). apply Z2N.inj_lt; lia. }
    assert (Hsmall : Forall (fun d => d < 10) ds).
    { apply dec_digits_small; [|constructor]. eapply N.lt_trans; [exact Hlt|]. reflexivity. }
    assert (Hspell : map (fun d => 48 + d) ds = spell (map (fun _ => false) ds) ds).
    { clear -Hsmall. induction Hsmall as [|d ds Hd _ IH]; [reflexivity|].
      cbn [map]. rewrite spell_cons, IH, digit_char_small by exact Hd. reflexivity. }
    rewrite Hspell.
    apply (lex_decimal (map (fun _ => false) ds) ds stop (0, 0)).
    + apply dec_digits_nonempty.
    + apply map_length.
    + exact Hsmall.
    + apply dec_digits_hd. lia.
    + exact Hstop.
Qed.

Lemma lex_ident_ok : forall x stop, ident_ok x = true ->
  starts_with is_ident_cont stop = false ->
  match stop with d :: _ => d < 128 | [] => True end ->
  lex_one (x ++ stop) = Some (Some TIdent, x, stop).
Proof.
  intros [|c w] stop Hx Hstop Hascii; [discriminate Hx|].
  cbn [ident_ok] in Hx. apply andb_true_iff in Hx. destruct Hx as [Hx Hkw].
  apply andb_true_iff in Hx. destruct Hx as [Hc Hw]. apply tk_beq_true in Hkw.
  assert (Hrange : (65 <= c <= 90) \/ (97 <= c <= 122) \/ c = 95).
  { unfold is_ident_start, in_range in Hc. revert Hc. cmp_cases; cbn [andb orb]; intros; try discriminate; lia. }
  assert (Hws : is_ws c = false) by (unfold is_ws; cmp_cases; try lia; reflexivity).
  assert (Hh : (c =? 35) = false) by (apply N.eqb_neq; lia).
  assert (Hnl : is_nl c = false) by (apply N.eqb_neq; lia).
  cbn [app]. unfold lex_one. rewrite Hws, Hh, Hnl, Hc.
  rewrite (RadixProof.span_while_app _ _ _ Hw Hstop).
  assert (Hk : ident_kind (c :: w) stop = TIdent).
  { unfold ident_kind. destruct stop as [|d s]; [exact Hkw|].
    destruct (N.leb_spec 128 d); [lia|]. exact Hkw. }
  rewrite Hk. reflexivity.
Qed.

(* ================================================================== examples, through the real lexer *)

Definition st_of (ts : list token) : pstate :=
  {| toks := ts; pline := 1; pvars := fm_new; pvirtuals := []; pexp_inputs := []; pexp_outputs := [] |}.

(* lex the text, parse one expression: the tree and the tokens left over *)
Definition parse_text (s : string) : option (expr * list tok) :=
  match lex_body 0 (s2n s) with
  | Some ts =>
      match parse_expr (text_bytes (s2n s)) 100 (st_of ts) with
      | Ok (e, st') => Some (e, view (toks st'))
      | _ => None
      end
  | None => None
  end.

Definition ex_tree : expr :=
  EBin And
    (EBin ShiftLeft
       (EBin Minus (EBin Plus (ENum 1) (EBin Times (ENum 2) (ENum 3))) (EBin Minus (ENum 4) (ENum 5)))
       (EVar (s2n "x")))
    (EUn UBinaryNot (EVar (s2n "y"))).

(* minimal parentheses: the text is the one pp_min writes, and it parses to the tree *)
Example ex_minimal :
  parse_text "1+2*3-(4-5)<<x&~y" = Some (ex_tree, [(TEof, [])]) /\
  option_map view (lex_body 0 (s2n "1+2*3-(4-5)<<x&~y")) = Some (pp_min ex_tree ++ [(TEof, [])]).
Proof. vm_compute. split; reflexivity. Qed.

(* redundant parentheses, blanks, other radixes: the same tree *)
Example ex_redundant :
  parse_text "((1 + (2*0x3)) - ((4) - 0b101) << (x)) & (~(y))" = Some (ex_tree, [(TEof, [])]).
Proof. vm_compute. reflexivity. Qed.

(* calls, unary operators, left associativity, what follows is left alone *)
Example ex_call :
  parse_text "ite(a<b, signExt(8, x), -1) - 1 - 2;"
  = Some (EBin Minus
            (EBin Minus
               (EFunc (s2n "ite")
                  [EBin LessThan (EVar (s2n "a")) (EVar (s2n "b"));
                   EFunc (s2n "signExt") [ENum 8; EVar (s2n "x")];
                   EUn UMinus (ENum 1)])
               (ENum 1))
            (ENum 2),
          [(TSemi, s2n ";"); (TEof, [])]).
Proof. vm_compute. reflexivity. Qed.

Example ex_pp_min_call :
  option_map view (lex_body 0 (s2n "ite(a<b,signExt(8,x),-1)-(1-2)"))
  = Some (pp_min (EBin Minus
                    (EFunc (s2n "ite")
                       [EBin LessThan (EVar (s2n "a")) (EVar (s2n "b"));
                        EFunc (s2n "signExt") [ENum 8; EVar (s2n "x")];
                        EUn UMinus (ENum 1)])
                    (EBin Minus (ENum 1) (ENum 2))) ++ [(TEof, [])]).
Proof. vm_compute. reflexivity. Qed.

Print Assumptions Printed_is_Prints.
Print Assumptions pp_min_Prints.
Print Assumptions pp_min_Printed.
Print Assumptions C08_pp_min_parse.
Print Assumptions C08_printed_parse.
Print Assumptions Prints_deterministic.
Print Assumptions lex_num_tok.
Print Assumptions lex_ident_ok.
Print Assumptions C08_unparse_parse.
