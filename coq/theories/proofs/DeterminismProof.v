(* Property C15: parsing and running are deterministic and re-runnable.
     1. sort_by_key_canonical, sort_by_key_sorted_id: the sort at the end of Parser::finish
        yields the same Vec for every order in which the HashMap hands out its entries
        (the keys -- span starts -- being distinct);
     2. parse_keys_sorted: a fifth sweep over the parser: the three tables record strictly
        increasing span starts (in insertion order); C15_parse_hash_order_independent:
        [parse_with sh1 sh2 sh3], which permutes the three tables arbitrarily before the
        sort, equals [parse];
     3. the static iterator (Static.v): it exists iff the test reads no output, its
        constructor's expect() and its next()'s unreachable!() are dead code;
     4. C15_driver_agreement: a run depends on the driver only through its answers to the
        calls actually made. *)
From Coq Require Import String Permutation Sorted.
From DTR Require Import Prelude I64 Ast FramedMap Lexer Parser Bind Eval Stmt Iter WfSpec Script Static.
From DTR.proofs Require Import EvalProof StmtRefine LexerProof ParserProof IterLogProof NoPanicProof.
Local Open Scope N_scope.

(* ================================================================== 1. the sort *)

Section SORT.
Context {A : Type} (key : A -> N).

Definition klt (a b : A) : Prop := key a < key b.

Lemma klt_NoDup : forall l, StronglySorted klt l -> NoDup (map key l).
Proof.
  induction l as [|a l IH]; intro H; simpl; [constructor|].
  inversion H as [|? ? Hs Hall]; subst. constructor; [|apply IH; exact Hs].
  intro Hin. apply in_map_iff in Hin. destruct Hin as [b [Hb Hin]].
  rewrite Forall_forall in Hall. specialize (Hall b Hin). unfold klt in Hall. lia.
Qed.

Lemma insert_sorted_klt : forall x l,
  StronglySorted klt l -> ~ In (key x) (map key l) -> StronglySorted klt (insert_sorted key x l).
Proof.
  induction l as [|y r IH]; intros Hs Hx; simpl.
  - constructor; constructor.
  - inversion Hs as [|? ? Hr Hall]; subst.
    destruct (key y <=? key x) eqn:E.
    + apply N.leb_le in E. constructor.
      * apply IH; [exact Hr|]. intro Hin. apply Hx. right. exact Hin.
      * eapply Permutation_Forall; [apply Permutation_sym; apply insert_sorted_perm|].
        constructor; [|exact Hall]. unfold klt.
        assert (key y <> key x) by (intro Heq; apply Hx; left; exact Heq). lia.
    + apply N.leb_gt in E. constructor; [exact Hs|].
      constructor; [exact E|].
      eapply Forall_impl; [|exact Hall]. unfold klt. intros b Hb. lia.
Qed.

Lemma fold_insert_klt : forall l acc,
  StronglySorted klt acc -> NoDup (map key (l ++ acc)) ->
  StronglySorted klt (fold_left (fun acc x => insert_sorted key x acc) l acc).
Proof.
  induction l as [|x l IH]; intros acc Hs Hnd; simpl; [exact Hs|].
  assert (Hp : Permutation (map key (l ++ insert_sorted key x acc)) (map key ((x :: l) ++ acc))).
  { apply Permutation_map. eapply Permutation_trans.
    - apply Permutation_app_head. apply insert_sorted_perm.
    - apply Permutation_sym. apply Permutation_middle. }
  apply IH.
  - apply insert_sorted_klt; [exact Hs|]. simpl in Hnd. inversion Hnd as [|? ? Hn _]; subst.
    intro Hin. apply Hn. rewrite map_app. apply in_or_app. right. exact Hin.
  - eapply Permutation_NoDup; [apply Permutation_sym; exact Hp | exact Hnd].
Qed.

Lemma sort_by_key_klt : forall l, NoDup (map key l) -> StronglySorted klt (sort_by_key key l).
Proof.
  intros l H. unfold sort_by_key. apply fold_insert_klt; [constructor|].
  rewrite app_nil_r. exact H.
Qed.

(* a strictly sorted list is determined by its elements *)
Lemma klt_sorted_unique : forall l1 l2,
  StronglySorted klt l1 -> StronglySorted klt l2 -> Permutation l1 l2 -> l1 = l2.
Proof.
  induction l1 as [|a r1 IH]; intros l2 H1 H2 Hp.
  - apply Permutation_nil in Hp. subst. reflexivity.
  - destruct l2 as [|b r2]; [apply Permutation_sym, Permutation_nil in Hp; discriminate|].
    inversion H1 as [|? ? Hs1 Hall1]; subst. inversion H2 as [|? ? Hs2 Hall2]; subst.
    assert (Hab : a = b).
    { assert (Ha : In a (b :: r2)) by (eapply Permutation_in; [exact Hp | left; reflexivity]).
      assert (Hb : In b (a :: r1))
        by (eapply Permutation_in; [apply Permutation_sym; exact Hp | left; reflexivity]).
      destruct Ha as [Ha|Ha]; [symmetry; exact Ha|].
      destruct Hb as [Hb|Hb]; [exact Hb|].
      rewrite Forall_forall in Hall1, Hall2.
      specialize (Hall1 _ Hb). specialize (Hall2 _ Ha). unfold klt in *. lia. }
    subst b. f_equal. apply IH; [exact Hs1 | exact Hs2 |].
    eapply Permutation_cons_inv. exact Hp.
Qed.

Theorem sort_by_key_canonical_ : forall l1 l2,
  Permutation l1 l2 -> NoDup (map key l1) -> sort_by_key key l1 = sort_by_key key l2.
Proof.
  intros l1 l2 Hp Hnd.
  assert (Hnd2 : NoDup (map key l2))
    by (eapply Permutation_NoDup; [apply Permutation_map; exact Hp | exact Hnd]).
  apply klt_sorted_unique; try (apply sort_by_key_klt; assumption).
  eapply Permutation_trans; [apply sort_by_key_perm|].
  eapply Permutation_trans; [exact Hp|]. apply Permutation_sym. apply sort_by_key_perm.
Qed.

Theorem sort_by_key_sorted_id_ : forall l, StronglySorted klt l -> sort_by_key key l = l.
Proof.
  intros l Hs. apply klt_sorted_unique; [|exact Hs|apply sort_by_key_perm].
  apply sort_by_key_klt. apply klt_NoDup. exact Hs.
Qed.

End SORT.

Theorem sort_by_key_canonical : forall (A : Type) (key : A -> N) (l1 l2 : list A),
  Permutation l1 l2 -> NoDup (map key l1) -> sort_by_key key l1 = sort_by_key key l2.
Proof. intros. apply sort_by_key_canonical_; assumption. Qed.

Theorem sort_by_key_sorted_id : forall (A : Type) (key : A -> N) (l : list A),
  StronglySorted (fun a b => key a < key b) l -> sort_by_key key l = l.
Proof. intros A key l H. apply sort_by_key_sorted_id_. exact H. Qed.

(* ================================================================== 2. the tables are filled in span order *)

Definition tstart (t : token) : N := fst (tspan t).
(* every remaining token starts at or after k *)
Definition lb (k : N) (ts : list token) : Prop := Forall (fun t => k <= tstart t) ts.
Definition lbmono (ts ts' : list token) : Prop := forall k, lb k ts -> lb k ts'.
Definition tok_sorted (ts : list token) : Prop := StronglySorted (fun a b => tstart a < tstart b) ts.

(* the keys the final sort uses *)
Definition kv (v : name * (span * expr)) : N := fst (fst (snd v)).
Definition ks (v : name * span) : N := fst (snd v).

(* a table: keys strictly increasing in insertion order, all before the remaining tokens *)
Definition keys_ok {A} (key : A -> N) (l : list A) (ts : list token) : Prop :=
  StronglySorted (klt key) l /\ Forall (fun a => lb (N.succ (key a)) ts) l.

Definition Inv3 (ts : list token) (V : list (name * (span * expr))) (I O : list (name * span)) : Prop :=
  tok_sorted ts /\ keys_ok kv V ts /\ keys_ok ks I ts /\ keys_ok ks O ts.

Definition Inv (st : pstate) : Prop :=
  Inv3 (toks st) (pvirtuals st) (pexp_inputs st) (pexp_outputs st).

Lemma lb_tl : forall k t r, lb k (t :: r) -> lb k r.
Proof. intros k t r H. inversion H; assumption. Qed.

Lemma lb_zero : forall ts, lb 0 ts.
Proof. intro ts. apply Forall_forall. intros. lia. Qed.

Lemma lbmono_app : forall A B k, lbmono A B -> lb k A -> lb k B.
Proof. intros A B k H. apply H. Qed.

Lemma keys_ok_tl : forall A (key : A -> N) l t r, keys_ok key l (t :: r) -> keys_ok key l r.
Proof.
  intros A key l t r [H1 H2]. split; [exact H1|].
  eapply Forall_impl; [|exact H2]. intros a Ha. eapply lb_tl. exact Ha.
Qed.

Lemma Inv3_tl : forall t r V I O, Inv3 (t :: r) V I O -> Inv3 r V I O.
Proof.
  intros t r V I O [Ht [Hv [Hi Ho]]]. split; [|split; [|split]]; try (eapply keys_ok_tl; eassumption).
  inversion Ht; assumption.
Qed.

Lemma Inv3_lb : forall t r V I O, Inv3 (t :: r) V I O -> lb (N.succ (tstart t)) r.
Proof.
  intros t r V I O [Ht _]. inversion Ht as [|? ? _ Hall]; subst.
  eapply Forall_impl; [|exact Hall]. cbv beta. intros b Hb. lia.
Qed.

Lemma SS_snoc : forall A (R : A -> A -> Prop) l x,
  StronglySorted R l -> Forall (fun a => R a x) l -> StronglySorted R (l ++ [x]).
Proof.
  induction l as [|a l IH]; intros x Hs Hall; simpl.
  - constructor; constructor.
  - inversion Hs; subst. inversion Hall; subst. constructor; [apply IH; assumption|].
    apply Forall_app. split; [assumption | constructor; [assumption | constructor]].
Qed.

(* appending an entry whose key lies after all present keys and before the remaining tokens *)
Lemma keys_ok_snoc : forall A (key : A -> N) l x ts,
  keys_ok key l ts -> Forall (fun a => key a < key x) l -> lb (N.succ (key x)) ts ->
  keys_ok key (l ++ [x]) ts.
Proof.
  intros A key l x ts [H1 H2] Hlt Hlb. split.
  - apply SS_snoc; assumption.
  - apply Forall_app. split; [assumption | constructor; [assumption | constructor]].
Qed.

Lemma keys_ok_head_lt : forall A (key : A -> N) l t r,
  keys_ok key l (t :: r) -> Forall (fun a => key a < tstart t) l.
Proof.
  intros A key l t r [_ H]. eapply Forall_impl; [|exact H]. cbv beta.
  intros a Ha. inversion Ha; subst. lia.
Qed.

Lemma keys_ok_or_insert : forall l nm t r,
  keys_ok ks l (t :: r) -> tok_sorted (t :: r) -> keys_ok ks (or_insert nm (tspan t) l) r.
Proof.
  intros l nm t r Hk Ht. unfold or_insert. destruct (assoc_mem nm l).
  - eapply keys_ok_tl. exact Hk.
  - apply keys_ok_snoc.
    + eapply keys_ok_tl. exact Hk.
    + apply keys_ok_head_lt in Hk. exact Hk.
    + inversion Ht as [|? ? _ Hall]; subst.
      eapply Forall_impl; [|exact Hall]. cbv beta. unfold ks, tstart. simpl. intros b Hb. lia.
Qed.

Lemma Inv3_out : forall t r V I O nm, Inv3 (t :: r) V I O -> Inv3 r V I (or_insert nm (tspan t) O).
Proof.
  intros t r V I O nm H. pose proof (Inv3_tl _ _ _ _ _ H) as [Ht [Hv [Hi _]]].
  destruct H as [Ht0 [_ [_ Ho]]]. split; [assumption|]. split; [assumption|]. split; [assumption|].
  apply keys_ok_or_insert; assumption.
Qed.

Lemma Inv3_in : forall t r V I O nm, Inv3 (t :: r) V I O -> Inv3 r V (or_insert nm (tspan t) I) O.
Proof.
  intros t r V I O nm H. pose proof (Inv3_tl _ _ _ _ _ H) as [Ht [Hv [_ Ho]]].
  destruct H as [Ht0 [_ [Hi _]]]. split; [assumption|]. split; [assumption|]. split; [|assumption].
  apply keys_ok_or_insert; assumption.
Qed.

(* `declare`: the span recorded starts where the `declare` token t0 started; V is the table as
   it was when t0 was the next token *)
Lemma Inv3_virt : forall t0 r0 I0 O0 ts V I O nm x e,
  Inv3 (t0 :: r0) V I0 O0 -> Inv3 ts V I O -> lb (N.succ (tstart t0)) ts ->
  Inv3 ts (V ++ [(nm, ((fst (tspan t0), x), e))]) I O.
Proof.
  intros t0 r0 I0 O0 ts V I O nm x e [_ [Hv0 _]] [Ht [Hv [Hi Ho]]] Hlb.
  split; [assumption|]. split; [|split; assumption].
  apply keys_ok_snoc; [assumption | | exact Hlb].
  apply keys_ok_head_lt in Hv0. exact Hv0.
Qed.

(* ------------------------------------------------------------------ the sweep *)

Lemma wp_note_read_output_strong : forall F G EA x sp (Q : unit -> pstate -> Prop) st,
  Q tt st -> Q tt (set_outputs st (or_insert x sp (pexp_outputs st))) ->
  wp F G EA (note_read_output x sp) Q st.
Proof.
  unfold wp, note_read_output. intros F G EA x sp Q st H1 H2.
  destruct (fs_contains (pvars st) x); [exact H1 | exact H2].
Qed.

(* the expression parser: the invariant, the virtual table untouched, tokens only consumed *)
Definition epost {A} (st : pstate) (_ : A) (st' : pstate) : Prop :=
  Inv st' /\ pvirtuals st' = pvirtuals st /\ lbmono (toks st) (toks st').
Definition ipost {A} (_ : A) (st' : pstate) : Prop := Inv st'.

Ltac det_hook :=
  repeat match goal with
  | H : _ /\ _ |- _ => destruct H
  | H : epost _ _ _ |- _ => unfold epost in H; st_cbn_in H
  | H : ipost _ _ |- _ => unfold ipost in H
  | H : Inv _ |- _ => unfold Inv in H; st_cbn_in H
  | E : toks ?st = _, H : context[toks ?st] |- _ =>
      tryif constr_eq E H then fail else rewrite E in H
  | E : pvirtuals ?x = _, H : context[pvirtuals ?x] |- _ =>
      is_var x; tryif constr_eq E H then fail else rewrite E in H
  | H : Inv3 (?t :: ?r) ?V ?I ?O |- _ =>
      lazymatch goal with
      | _ : Inv3 r V I O |- _ => fail
      | _ => pose proof (Inv3_tl _ _ _ _ _ H)
      end
  | H : Inv3 (?t :: ?r) _ _ _ |- _ =>
      lazymatch goal with
      | _ : lb (N.succ (tstart t)) r |- _ => fail
      | _ => pose proof (Inv3_lb _ _ _ _ _ H)
      end
  | H : lb ?k (?t :: ?r) |- _ =>
      lazymatch goal with
      | _ : lb k r |- _ => fail
      | _ => pose proof (lb_tl _ _ _ H)
      end
  | Hm : lbmono ?A ?B, Hk : lb ?k ?A |- _ =>
      lazymatch goal with
      | _ : lb k B |- _ => fail
      | _ => pose proof (lbmono_app _ _ _ Hm Hk)
      end
  end.

Ltac det_goal_norm :=
  unfold epost, ipost, Inv; st_cbn;
  repeat match goal with E : toks ?st = _ |- context[toks ?st] => rewrite E end;
  repeat match goal with E : pvirtuals ?x = _ |- context[pvirtuals ?x] => is_var x; rewrite E end.

Ltac det_leaf :=
  first [ assumption | reflexivity
        | solve [eapply Inv3_out; eassumption]
        | solve [eapply Inv3_in; eassumption]
        | solve [eapply Inv3_virt; eassumption]
        | solve [let k := fresh "k" in let Hk := fresh "Hk" in
                 intros k Hk; det_hook; assumption] ].

Ltac det_side_pre := det_goal_norm; det_leaf.

Ltac det_fin :=
  det_goal_norm; repeat match goal with |- _ /\ _ => split end; try det_leaf.

Ltac det_step :=
  lazymatch goal with
  | |- wp _ _ _ (note_read_output _ _) _ _ => apply wp_note_read_output_strong; norm_goal
  | |- _ => wp_step wf_side_panic no_err det_side_pre det_hook
  end.
Ltac det_sweep := repeat det_step.

Section KEYS.
Variable input_len : N.
Variable hdr : list name.

Notation wp5 := (wp True True no_claim).

Lemma expr_keys : forall fuel,
  (forall st, Inv st -> wp5 (parse_expr input_len fuel) (epost st) st) /\
  (forall tree st, Inv st -> wp5 (parse_expr_loop input_len fuel tree) (epost st) st) /\
  (forall st, Inv st -> wp5 (parse_factor input_len fuel) (epost st) st) /\
  (forall acc st, Inv st -> wp5 (parse_args input_len fuel acc) (epost st) st).
Proof.
  induction fuel as [|f [IHe [IHl [IHf IHa]]]].
  - repeat split; intros; exact I.
  - split; [|split; [|split]].
    + intros st Hinv. rewrite parse_expr_S. det_hook. det_sweep; det_fin.
    + intros tree st Hinv. rewrite parse_expr_loop_S. det_hook. det_sweep; det_fin.
    + intros st Hinv. rewrite parse_factor_S. det_hook. det_sweep; det_fin.
    + intros acc st Hinv. rewrite parse_args_S. det_hook. det_sweep; det_fin.
Qed.

Lemma row_keys : forall fuel data idx st, Inv st ->
  wp5 (parse_row_loop input_len hdr fuel data idx) ipost st.
Proof.
  induction fuel as [|f IH]; intros data idx st Hinv; [exact I|].
  pose proof (proj1 (expr_keys f)) as He.
  rewrite parse_row_loop_S. det_hook. det_sweep; det_fin.
Qed.

Lemma data_row_keys : forall f st, Inv st -> wp5 (parse_data_row input_len hdr f) ipost st.
Proof.
  intros f st Hinv. pose proof (row_keys f) as Hr.
  rewrite parse_data_row_eq. det_hook. det_sweep; det_fin.
Qed.

Section BLOCK_STEP.
Variable f : nat.
Hypothesis IH : forall end_token block st, Inv st ->
  wp5 (parse_block_loop input_len hdr f end_token block) ipost st.

Lemma post_keys : forall end_token arm st, Inv st ->
  wp5 (block_post input_len hdr f end_token arm) ipost st.
Proof.
  intros end_token arm st Hinv. unfold block_post. det_hook. det_sweep; det_fin.
Qed.

Lemma arm_keys : forall end_token block k st, Inv st ->
  wp5 (block_arm input_len hdr f end_token block k) ipost st.
Proof.
  intros end_token block k st Hinv.
  pose proof (proj1 (expr_keys f)) as He. pose proof (data_row_keys f) as Hd.
  unfold block_arm. det_hook. det_sweep; det_fin.
Qed.
End BLOCK_STEP.

Lemma block_keys : forall fuel end_token block st, Inv st ->
  wp5 (parse_block_loop input_len hdr fuel end_token block) ipost st.
Proof.
  induction fuel as [|f IH]; intros end_token block st Hinv; [exact I|].
  rewrite parse_block_loop_S.
  apply wp_bind. apply wp_peek; [intro; exact I|]. intros t r Ht. cbv beta.
  apply wp_bind. eapply wp_conseq; [apply (arm_keys f IH); assumption|].
  intros arm st' Hinv'. apply (post_keys f IH). exact Hinv'.
Qed.

End KEYS.

(* ------------------------------------------------------------------ the lexer's tokens start in increasing order *)

Lemma Lexes_sorted : forall pos s ts, Lexes pos s ts -> tok_sorted ts /\ lb pos ts.
Proof.
  intros pos s ts H. induction H as [pos|pos s w r ts E H IH|pos s k w r ts E H IH].
  - split; [constructor; constructor|]. constructor; [|constructor]. unfold tstart. simpl. lia.
  - destruct IH as [IH1 IH2]. split; [exact IH1|].
    eapply Forall_impl; [|exact IH2]. cbv beta. intros t Ht. lia.
  - destruct IH as [IH1 IH2].
    assert (Hw : 1 <= text_bytes w).
    { apply text_bytes_pos. exact (proj2 (lex_one_progress _ _ _ _ E)). }
    split.
    + constructor; [exact IH1|]. eapply Forall_impl; [|exact IH2]. cbv beta.
      unfold tstart at 2. simpl. intros t Ht. lia.
    + constructor; [unfold tstart; simpl; lia|].
      eapply Forall_impl; [|exact IH2]. cbv beta. intros t Ht. lia.
Qed.

Theorem lex_body_tok_sorted : forall pos s ts, lex_body pos s = Some ts -> tok_sorted ts.
Proof. intros pos s ts H. exact (proj1 (Lexes_sorted _ _ _ (lex_body_Lexes _ _ _ H))). Qed.

(* ------------------------------------------------------------------ parse_keys_sorted *)

Definition parse_st0 (h : header) (ts : list token) : pstate :=
  {| toks := ts; pline := h_line h; pvars := fm_new; pvirtuals := [];
     pexp_inputs := []; pexp_outputs := [] |}.

Theorem parse_block_keys_sorted : forall input_len hdr fuel end_token block st stmts st',
  Inv st -> parse_block_loop input_len hdr fuel end_token block st = Ok (stmts, st') -> Inv st'.
Proof.
  intros input_len hdr fuel end_token block st stmts st' Hinv E.
  pose proof (block_keys input_len hdr fuel end_token block st Hinv) as H.
  unfold wp in H. rewrite E in H. exact H.
Qed.

Theorem parse_keys_sorted : forall s h ts stmts st,
  parse_header s = Ok h -> lex_body (h_pos h) (h_rest h) = Some ts ->
  parse_block_loop (text_bytes s) (h_names h) (parser_fuel (length ts)) None [] (parse_st0 h ts)
    = Ok (stmts, st) ->
  StronglySorted (fun a b => fst (fst (snd a)) < fst (fst (snd b))) (pvirtuals st) /\
  StronglySorted (fun a b => fst (snd a) < fst (snd b)) (pexp_inputs st) /\
  StronglySorted (fun a b => fst (snd a) < fst (snd b)) (pexp_outputs st).
Proof.
  intros s h ts stmts st Hh Hl Hp.
  assert (Hinv : Inv (parse_st0 h ts)).
  { unfold Inv, parse_st0. simpl. split; [eapply lex_body_tok_sorted; exact Hl|].
    repeat split; constructor. }
  pose proof (parse_block_keys_sorted _ _ _ _ _ _ _ _ Hinv Hp) as [_ [[Hv _] [[Hi _] [Ho _]]]].
  auto.
Qed.

(* ------------------------------------------------------------------ the HashMap's iteration order *)

(* [parse] with the three tables handed to the sort in arbitrary orders sh1, sh2, sh3 *)
Definition parse_with (sh1 sh2 sh3 : forall A : Type, list A -> list A) (s : text) : R perr parsed :=
  match parse_header s with
  | Err e => Err e | Panic p => Panic p | OOF => OOF
  | Ok h =>
    match lex_body (h_pos h) (h_rest h) with
    | None => OOF
    | Some ts =>
      let st0 := {| toks := ts; pline := h_line h; pvars := fm_new; pvirtuals := [];
                    pexp_inputs := []; pexp_outputs := [] |} in
      match parse_block_loop (text_bytes s) (h_names h) (parser_fuel (List.length ts)) None [] st0 with
      | Err e => Err e | Panic p => Panic p | OOF => OOF
      | Ok (stmts, st) =>
        Ok {| p_stmts := stmts;
              p_signals := h_names h;
              p_signal_spans := h_spans h;
              p_virtuals := map (fun v => (fst v, snd (snd v), fst (snd v)))
                                (sort_by_key (fun v => fst (fst (snd v))) (sh1 _ (pvirtuals st)));
              p_expected_inputs := sort_by_key (fun v => fst (snd v)) (sh2 _ (pexp_inputs st));
              p_read_outputs := sort_by_key (fun v => fst (snd v)) (sh3 _ (pexp_outputs st)) |}
      end
    end
  end.

(* the same without the sort: what Parser::finish would return if it only collected *)
Definition parse_unsorted (sh1 sh2 sh3 : forall A : Type, list A -> list A) (s : text) : R perr parsed :=
  match parse_header s with
  | Err e => Err e | Panic p => Panic p | OOF => OOF
  | Ok h =>
    match lex_body (h_pos h) (h_rest h) with
    | None => OOF
    | Some ts =>
      let st0 := {| toks := ts; pline := h_line h; pvars := fm_new; pvirtuals := [];
                    pexp_inputs := []; pexp_outputs := [] |} in
      match parse_block_loop (text_bytes s) (h_names h) (parser_fuel (List.length ts)) None [] st0 with
      | Err e => Err e | Panic p => Panic p | OOF => OOF
      | Ok (stmts, st) =>
        Ok {| p_stmts := stmts;
              p_signals := h_names h;
              p_signal_spans := h_spans h;
              p_virtuals := map (fun v => (fst v, snd (snd v), fst (snd v))) (sh1 _ (pvirtuals st));
              p_expected_inputs := sh2 _ (pexp_inputs st);
              p_read_outputs := sh3 _ (pexp_outputs st) |}
      end
    end
  end.

Lemma sort_shuffled : forall A (key : A -> N) (l l' : list A),
  Permutation l' l -> StronglySorted (klt key) l -> sort_by_key key l' = sort_by_key key l.
Proof.
  intros A key l l' Hp Hs. apply sort_by_key_canonical; [exact Hp|].
  eapply Permutation_NoDup; [apply Permutation_map; apply Permutation_sym; exact Hp|].
  apply klt_NoDup. exact Hs.
Qed.

Theorem C15_parse_hash_order_independent : forall sh1 sh2 sh3 : forall A : Type, list A -> list A,
  (forall A l, Permutation (sh1 A l) l) ->
  (forall A l, Permutation (sh2 A l) l) ->
  (forall A l, Permutation (sh3 A l) l) ->
  forall s, parse_with sh1 sh2 sh3 s = parse s.
Proof.
  intros sh1 sh2 sh3 H1 H2 H3 s. unfold parse_with, parse.
  destruct (parse_header s) as [h| | |] eqn:Eh; try reflexivity.
  destruct (lex_body (h_pos h) (h_rest h)) as [ts|] eqn:El; [|reflexivity].
  cbv zeta. fold (parse_st0 h ts).
  destruct (parse_block_loop (text_bytes s) (h_names h) (parser_fuel (length ts)) None []
              (parse_st0 h ts)) as [[stmts st]| | |] eqn:Eb; try reflexivity.
  destruct (parse_keys_sorted _ _ _ _ _ Eh El Eb) as [Hv [Hi Ho]].
  f_equal. f_equal; [f_equal| |]; apply sort_shuffled; auto.
Qed.

(* moreover the sort does nothing on the insertion order: the model's tables, which keep
   insertion order, are the sorted Vecs *)
Corollary parse_sort_is_identity : forall s h ts stmts st,
  parse_header s = Ok h -> lex_body (h_pos h) (h_rest h) = Some ts ->
  parse_block_loop (text_bytes s) (h_names h) (parser_fuel (length ts)) None [] (parse_st0 h ts)
    = Ok (stmts, st) ->
  sort_by_key (fun v => fst (fst (snd v))) (pvirtuals st) = pvirtuals st /\
  sort_by_key (fun v => fst (snd v)) (pexp_inputs st) = pexp_inputs st /\
  sort_by_key (fun v => fst (snd v)) (pexp_outputs st) = pexp_outputs st.
Proof.
  intros s h ts stmts st Eh El Eb.
  destruct (parse_keys_sorted _ _ _ _ _ Eh El Eb) as [Hv [Hi Ho]].
  repeat split; apply sort_by_key_sorted_id; assumption.
Qed.

(* a concrete instance: three `declare`s, two C columns, two outputs read; every HashMap
   iterated backwards *)
Definition c15_text : text :=
  (s2n "A B Y" ++ [10] ++ s2n "declare v1 = Y + 1;" ++ [10] ++ s2n "declare v2 = Q & 1;" ++ [10] ++
   s2n "declare v3 = 3;" ++ [10] ++ s2n "C C (Y)" ++ [10] ++ s2n "0 1 1" ++ [10])%list.

Definition sh_rev : forall A : Type, list A -> list A := fun A l => rev l.
Definition sh_id : forall A : Type, list A -> list A := fun A l => l.

Example c15_text_parses :
  match parse c15_text with
  | Ok p => length (p_virtuals p) = 3%nat /\ length (p_expected_inputs p) = 2%nat /\
            length (p_read_outputs p) = 2%nat
  | _ => False
  end.
Proof. vm_compute. auto. Qed.

Example c15_rev_same : parse_with sh_rev sh_rev sh_rev c15_text = parse c15_text.
Proof. vm_compute. reflexivity. Qed.

(* without the sort the order of the HashMap would show in the result *)
Example c15_unsorted_differs :
  parse_unsorted sh_id sh_id sh_id c15_text = parse c15_text /\
  parse_unsorted sh_rev sh_rev sh_rev c15_text <> parse c15_text /\
  parse_unsorted sh_rev sh_id sh_id c15_text <> parse c15_text /\
  parse_unsorted sh_id sh_rev sh_id c15_text <> parse c15_text /\
  parse_unsorted sh_id sh_id sh_rev c15_text <> parse c15_text.
Proof. vm_compute. repeat split; intro H; discriminate H. Qed.

(* ================================================================== 3. the static iterator *)

Local Close Scope N_scope.
Local Open Scope nat_scope.

Lemma map_r_never_err : forall A B (f : A -> R rterr B) l,
  (forall x e, f x <> Err e) -> forall e, map_r f l <> Err e.
Proof.
  intros A B f l Hf. induction l as [|x r IH]; intros e; simpl; [discriminate|].
  specialize (Hf x). destruct (f x) as [y|e'|s|]; simpl; try discriminate.
  - destruct (map_r f r) as [ys|e'|s|]; simpl; try discriminate.
    intro H. injection H as H. exact (IH e' eq_refl).
  - intro H. exact (Hf e' eq_refl).
Qed.

(* MissingOutputs is the only error of the constructor's second half, and it needs a read *)
Lemma build_output_indices_no_reads : forall tc outs, tc_read_outputs tc = [] ->
  forall r, build_output_indices tc outs <> Err r.
Proof.
  intros tc outs Hr r. unfold build_output_indices. rewrite Hr.
  match goal with |- rbind (map_r ?f ?l) _ <> _ =>
    pose proof (map_r_never_err _ _ f l) as Hm; destruct (map_r f l) as [ys|e|s|] end;
    cbn [rbind map_r concat]; try discriminate.
  intro H. injection H as H. subst e. eapply Hm; [|reflexivity].
  intros idx e. unfold get_signal. destruct (nth_error (signals tc) (ei_signal_index idx)) as [s|];
    cbn [rbind]; [|discriminate].
  destruct (styp s); try discriminate;
    destruct (position (fun o => signal_eqb (oe_sig o) s) outs); discriminate.
Qed.

(* the expect("There shouldn't be any possible errors here") of try_iter_static *)
Theorem C15_static_constructor_cannot_fail : forall tc width,
  wf_tc tc width -> tc_read_outputs tc = [] ->
  exists st, try_new N static_driver tc = NewOk N st.
Proof.
  intros tc width Hwf Hr. unfold try_new.
  destruct (generate_default_input_entries_ok tc width Hwf) as [ins Hi]. rewrite Hi.
  unfold static_driver at 1.
  pose proof (build_output_indices_ok tc width Hwf []) as Hb.
  pose proof (build_output_indices_no_reads tc [] Hr) as Hn.
  destruct (build_output_indices tc []) as [oi|e|s|]; try contradiction.
  - eexists. reflexivity.
  - exfalso. exact (Hn e eq_refl).
Qed.

Lemma read_output_names_ok : forall sigs reads,
  Forall (fun r => r < length sigs) reads ->
  exists names, read_output_names sigs reads = Some names /\
    Forall2 (fun i nm => exists s, nth_error sigs i = Some s /\ nm = sname s) reads names.
Proof.
  intros sigs reads H. induction H as [|i r Hi _ IH]; simpl.
  - exists []. split; [reflexivity | constructor].
  - destruct IH as [names [E F2]]. destruct (nth_error_lt_Some _ sigs i Hi) as [s Hs].
    rewrite Hs, E. exists (sname s :: names). split; [reflexivity|].
    constructor; [exists s; auto | exact F2].
Qed.

Theorem C15_static_ok_no_reads : forall tc st,
  try_iter_static tc = StaticOk st -> tc_read_outputs tc = [].
Proof.
  intros tc st. unfold try_iter_static. destruct (tc_read_outputs tc) as [|i r]; [reflexivity|].
  destruct (read_output_names (tc_signals tc) (i :: r)); discriminate.
Qed.

Theorem C15_static_iff_no_reads : forall tc width, wf_tc tc width ->
  ((exists st, try_iter_static tc = StaticOk st) <-> tc_read_outputs tc = []).
Proof.
  intros tc width Hwf. split.
  - intros [st H]. eapply C15_static_ok_no_reads. exact H.
  - intro Hr. destruct (C15_static_constructor_cannot_fail tc width Hwf Hr) as [st Hst].
    exists st. unfold try_iter_static. rewrite Hr, Hst. reflexivity.
Qed.

(* otherwise the error names the outputs read, in the order of read_outputs *)
Theorem C15_static_not_static : forall tc width, wf_tc tc width -> tc_read_outputs tc <> [] ->
  exists names, try_iter_static tc = StaticNotStatic names /\
    Forall2 (fun i nm => exists s, nth_error (tc_signals tc) i = Some s /\ nm = sname s)
            (tc_read_outputs tc) names.
Proof.
  intros tc width Hwf Hr. unfold try_iter_static.
  destruct Hwf as (_ & _ & Hrd & _).
  destruct (read_output_names_ok _ _ Hrd) as [names [E F2]].
  destruct (tc_read_outputs tc) as [|i r] eqn:Er; [congruence|].
  rewrite E. exists names. auto.
Qed.

Theorem C15_static_never_panics : forall tc width, wf_tc tc width ->
  forall s, try_iter_static tc <> StaticPanic s.
Proof.
  intros tc width Hwf s. destruct (tc_read_outputs tc) as [|i r] eqn:Er.
  - destruct (proj2 (C15_static_iff_no_reads tc width Hwf) Er) as [st H]. congruence.
  - destruct (C15_static_not_static tc width Hwf) as [names [H _]]; congruence.
Qed.

(* the unreachable!() of StaticDataRowIterator::next: whatever the state and the generator *)
Theorem C15_static_never_driver_error : forall G w tc fuel st e st',
  inext G N static_driver w tc fuel st <> ItErr N (IE_Driver e) st'.
Proof.
  intros G w tc fuel st e st' H.
  pose proof (inext_calls G N static_driver w tc fuel st) as Hc. rewrite H in Hc.
  destruct Hc as [er [st1 [kind [_ [_ HD]]]]]. discriminate HD.
Qed.

Corollary static_next_panic : forall G tc fuel st s,
  static_next G tc fuel st = SItPanic s -> snext_static G tc fuel st = ItPanic N s.
Proof.
  intros G tc fuel st s. unfold static_next.
  pose proof (C15_static_never_driver_error G true tc fuel st) as Hd. unfold snext_static in *.
  destruct (inext G N static_driver true tc fuel st) as [st'|row st'|[e|r] st'|s'|];
    try discriminate.
  - exfalso. eapply Hd. reflexivity.
  - intro H. injection H as ->. reflexivity.
Qed.

(* so on a well-formed test the static iterator never panics at all *)
Theorem C15_static_next_never_panics : forall tc width, wf_tc tc width ->
  forall G st, NoPanicProof.Inv tc width st ->
  forall fuel s, static_next G tc fuel st <> SItPanic s.
Proof.
  intros tc width Hwf G st Hinv fuel s H. apply static_next_panic in H.
  exact (inext_no_panic tc width Hwf G N static_driver true st Hinv fuel s H).
Qed.

Theorem C15_static_start_inv : forall tc width, wf_tc tc width ->
  forall st, try_iter_static tc = StaticOk st -> NoPanicProof.Inv tc width st.
Proof.
  intros tc width Hwf st. unfold try_iter_static.
  destruct (tc_read_outputs tc); [|destruct (read_output_names _ _); discriminate].
  destruct (try_new N static_driver tc) as [st0|e l|s] eqn:E; try discriminate.
  intro H. injection H as <-. eapply try_new_inv; eassumption.
Qed.

(* ================================================================== 4. the driver is consulted only through its answers *)

Section AGREE.
Variable G : gen.
Variable DE : Type.
Variables D1 D2 : driver DE.
Variable w_default : bool.
Variable tc : testcase.

(* the call the next next() will make, if it gets that far: it does not depend on the driver *)
Definition next_call (fuel : nat) (st : istate) : option call :=
  match get_row G tc fuel st with
  | GRRow row _ =>
      Some ((if er_update_output row then RW else if w_default then RW else WO), er_inputs row)
  | _ => None
  end.

Theorem C15_inext_driver_agreement : forall fuel st,
  (forall c, next_call fuel st = Some c -> D1 (i_log st) c = D2 (i_log st) c) ->
  inext G DE D1 w_default tc fuel st = inext G DE D2 w_default tc fuel st.
Proof.
  intros fuel st H. unfold inext, next_call in *.
  pose proof (get_row_preserves G tc fuel st) as Hp.
  destruct (get_row G tc fuel st) as [st1|row st1|x st1|s|]; try reflexivity.
  destruct Hp as [_ [_ [Hlog _]]]. rewrite Hlog. specialize (H _ eq_refl).
  destruct (er_update_output row); rewrite H; reflexivity.
Qed.

(* D1 and D2 agree on every (history, call) pair that occurs along the first n steps of the
   run with D1 *)
Fixpoint agree_along (fuel n : nat) (st : istate) : Prop :=
  match n with
  | O => True
  | S n' =>
      (forall c, next_call fuel st = Some c -> D1 (i_log st) c = D2 (i_log st) c) /\
      match inext G DE D1 w_default tc fuel st with
      | ItRow _ _ st' => agree_along fuel n' st'
      | _ => True
      end
  end.

Theorem C15_driver_agreement : forall fuel n st,
  agree_along fuel n st ->
  collect G DE D1 w_default tc fuel n st = collect G DE D2 w_default tc fuel n st.
Proof.
  intros fuel n. induction n as [|n IH]; intros st H; [reflexivity|].
  destruct H as [H1 H2]. cbn [collect].
  rewrite <- (C15_inext_driver_agreement fuel st H1).
  destruct (inext G DE D1 w_default tc fuel st) as [st'|row st'|e st'|s|]; try reflexivity.
  rewrite (IH st' H2). reflexivity.
Qed.

(* the same with the hypothesis read off the final log: D1 and D2 agree on every call the
   run added to the log, each with the calls before it as history *)
Definition agree_on_log (from : nat) (log : list call) : Prop :=
  forall k c, from <= k -> nth_error log k = Some c -> D1 (firstn k log) c = D2 (firstn k log) c.

Lemma agree_on_log_here : forall from lg c rest,
  agree_on_log from (lg ++ c :: rest) -> from <= length lg -> D1 lg c = D2 lg c.
Proof.
  intros from lg c rest H Hle. specialize (H (length lg) c Hle).
  rewrite nth_error_app2, Nat.sub_diag in H by lia. specialize (H eq_refl).
  rewrite firstn_app, firstn_all, Nat.sub_diag in H. simpl in H. rewrite app_nil_r in H. exact H.
Qed.

(* the call announced by next_call is the one next() appends to the log *)
Lemma next_call_logged : forall fuel st c, next_call fuel st = Some c ->
  match inext G DE D1 w_default tc fuel st with
  | ItRow _ _ st' | ItErr _ _ st' => i_log st' = i_log st ++ [c]
  | ItNone _ _ => False
  | _ => True
  end.
Proof.
  intros fuel st c Hc. unfold next_call in Hc.
  pose proof (IterLogProof.inext_inv G DE D1 w_default tc fuel st) as Hi.
  destruct (inext G DE D1 w_default tc fuel st) as [st'|row st'|[e|r] st'|s|]; try exact I.
  - rewrite Hi in Hc. discriminate.
  - destruct Hi as [er [st1 [Hg [[Hu [outs [c2 [vals [_ [_ [_ Hs]]]]]]]|[Hu [outs [_ [_ Hs]]]]]]]];
      rewrite Hg, Hu in Hc; injection Hc as <-; subst st'; reflexivity.
  - destruct Hi as [er [st1 [Hg [_ Hs]]]]. cbv zeta in Hs.
    rewrite Hg in Hc. injection Hc as <-. subst st'. reflexivity.
  - destruct Hi as [[x [_ Hg]]|[er [st1 [outs [c2 [Hg [Hu [_ [_ Hs]]]]]]]]].
    + rewrite Hg in Hc. discriminate.
    + rewrite Hg, Hu in Hc. injection Hc as <-. subst st'. reflexivity.
Qed.

Theorem C15_driver_agreement_log : forall fuel n st items st',
  collect G DE D1 w_default tc fuel n st = (items, Some st') ->
  agree_on_log (length (i_log st)) (i_log st') ->
  collect G DE D2 w_default tc fuel n st = (items, Some st').
Proof.
  intros fuel n st items st' Hc Hag. rewrite <- Hc. symmetry. apply C15_driver_agreement.
  assert (Hfrom : length (i_log st) <= length (i_log st)) by lia.
  revert Hc Hag Hfrom. generalize (length (i_log st)) at 1 2 as from.
  revert st items st'. induction n as [|n IH]; intros st items st' from Hc Hag Hfrom; [exact I|].
  cbn [collect agree_along] in *.
  pose proof (next_call_logged fuel st) as Hlogged.
  destruct (inext G DE D1 w_default tc fuel st) as [st1|row st1|e st1|s|] eqn:Hn;
    try discriminate Hc.
  - split; [|exact I]. intros c Hsome. exfalso. exact (Hlogged c Hsome).
  - destruct (collect G DE D1 w_default tc fuel n st1) as [l s] eqn:Hcol.
    injection Hc as <- ->.
    destruct (collect_log G DE D1 w_default tc fuel n st1 l st' Hcol) as [calls [Hl _]].
    split.
    + intros c Hsome. specialize (Hlogged c Hsome).
      rewrite Hl, Hlogged, <- app_assoc in Hag. simpl in Hag.
      eapply agree_on_log_here; eassumption.
    + eapply IH; [eassumption | exact Hag |].
      pose proof (inext_calls G DE D1 w_default tc fuel st) as K. rewrite Hn in K.
      destruct K as [er [st0 [_ [_ [_ K]]]]]. cbv zeta in K. destruct K as [K _].
      rewrite K, app_length. lia.
  - injection Hc as <- <-. split; [|exact I]. intros c Hsome. specialize (Hlogged c Hsome).
    rewrite Hlogged in Hag. eapply agree_on_log_here with (rest := []); eassumption.
Qed.

End AGREE.

(* ================================================================== 5. the static run previews every dynamic run *)

(* The static driver answers with no outputs at all, so in the static run an identifier that
   is not a variable evaluates to UnknownVariable.  As long as that does not happen, the
   static run never looks at the outputs -- and then no run does. *)

Definition is_unk (x : xerr) : bool := match x with XE_UnknownVariable _ => true | _ => false end.
Definition unk_r {A} (r : R xerr A) : bool := match r with Err x => is_unk x | _ => false end.
Definition unk_f (f : xfail) : bool := match f with XFErr x => is_unk x | XFPanic _ => false end.
Definition unk_v {A} (v : A + xfail) : bool := match v with inr f => unk_f f | inl _ => false end.

(* the static context c and the dynamic context c' *)
Definition srel (c c' : ctx) : Prop := couts c = [] /\ cvars c = cvars c' /\ crng c = crng c'.

Section PREVIEW_EVAL.
Variable G : gen.

Lemma eval_preview : forall e c c' rng r rng',
  couts c = [] -> cvars c = cvars c' ->
  eval G c e rng = (r, rng') -> unk_r r = false -> eval G c' e rng = (r, rng').
Proof.
  induction e as [n|x|op l r0 IHl IHr|op a IHa|f args IHargs] using expr_ind2;
    intros c c' rng r rng' Hc Hv H Hu.
  - exact H.
  - cbn [eval] in *. unfold ctx_get in *. rewrite <- Hv.
    destruct (fm_get (cvars c) x); [exact H|]. rewrite Hc in H. cbn in H.
    injection H as <- _. discriminate Hu.
  - cbn [eval] in *. destruct (eval G c l rng) as [ra rng1] eqn:Ea.
    assert (Hk : unk_r ra = false)
      by (destruct ra; try reflexivity; injection H as <- _; exact Hu).
    rewrite (IHl _ _ _ _ _ Hc Hv Ea Hk). destruct ra as [lv|e|s|]; try exact H.
    destruct (eval G c r0 rng1) as [rb rng2] eqn:Eb.
    assert (Hk2 : unk_r rb = false)
      by (destruct rb; try reflexivity; injection H as <- _; exact Hu).
    rewrite (IHr _ _ _ _ _ Hc Hv Eb Hk2). exact H.
  - cbn [eval] in *. destruct (eval G c a rng) as [ra rng1] eqn:Ea.
    assert (Hk : unk_r ra = false)
      by (destruct ra; try reflexivity; injection H as <- _; exact Hu).
    rewrite (IHa _ _ _ _ _ Hc Hv Ea Hk). exact H.
  - cbn [eval] in *. destruct (func_arity f) as [ar|]; [|exact H].
    destruct (negb (Nlen args =? ar)%N); [exact H|].
    destruct (name_eqb f name_random).
    + destruct args as [|a [|b t]]; try exact H. inversion IHargs as [|? ? IHa _]; subst.
      destruct (eval G c a rng) as [ra rng1] eqn:Ea.
      assert (Hk : unk_r ra = false)
        by (destruct ra; try reflexivity; injection H as <- _; exact Hu).
      rewrite (IHa _ _ _ _ _ Hc Hv Ea Hk). exact H.
    + destruct (name_eqb f name_ite); [|exact H].
      destruct args as [|t [|a [|b [|d u]]]]; try exact H.
      inversion IHargs as [|? ? IHt IH2]; subst. inversion IH2 as [|? ? IHa IH3]; subst.
      inversion IH3 as [|? ? IHb _]; subst.
      destruct (eval G c t rng) as [ra rng1] eqn:Ea.
      assert (Hk : unk_r ra = false)
        by (destruct ra; try reflexivity; injection H as <- _; exact Hu).
      rewrite (IHt _ _ _ _ _ Hc Hv Ea Hk). destruct ra as [tv|e|s|]; try exact H.
      destruct (tv =? 0)%Z; [eapply IHb | eapply IHa]; eassumption.
Qed.

Lemma srel_with_rng : forall c c' r, srel c c' -> srel (ctx_with_rng c r) (ctx_with_rng c' r).
Proof. intros c c' r [H1 [H2 H3]]. repeat split; assumption. Qed.

Lemma ctx_eval_preview : forall c c' e c1 r, srel c c' ->
  ctx_eval G c e = (c1, r) -> unk_r r = false ->
  exists c1', ctx_eval G c' e = (c1', r) /\ srel c1 c1'.
Proof.
  intros c c' e c1 r Hs H Hu. unfold ctx_eval in *. destruct Hs as [Hc [Hv Hr]].
  rewrite <- Hr. destruct (eval G c e (crng c)) as [r0 rng'] eqn:E. injection H as <- <-.
  rewrite (eval_preview _ _ _ _ _ _ Hc Hv E Hu).
  eexists. split; [reflexivity|]. apply srel_with_rng. repeat split; assumption.
Qed.

Lemma lift_eval_preview : forall c c' e c1 v, srel c c' ->
  lift_eval G c e = (c1, v) -> unk_v v = false ->
  exists c1', lift_eval G c' e = (c1', v) /\ srel c1 c1'.
Proof.
  intros c c' e c1 v Hs H Hu. unfold lift_eval in *.
  destruct (ctx_eval G c e) as [c0 r] eqn:E. injection H as <- <-.
  assert (Hk : unk_r r = false) by (destruct r; try reflexivity; exact Hu).
  destruct (ctx_eval_preview _ _ _ _ _ Hs E Hk) as [c1' [E' Hs']]. rewrite E'.
  eexists. split; [reflexivity | exact Hs'].
Qed.

Lemma entry_eval_preview : forall c c' d c1 r, srel c c' ->
  entry_eval G c d = (c1, r) -> unk_r r = false ->
  exists c1', entry_eval G c' d = (c1', r) /\ srel c1 c1'.
Proof.
  intros c c' d c1 r Hs H Hu.
  destruct d as [n|e|k e| | |]; cbn [entry_eval] in *;
    try (injection H as <- <-; eexists; split; [reflexivity | exact Hs]).
  - destruct (ctx_eval G c e) as [c0 r0] eqn:E. injection H as <- <-.
    assert (Hk : unk_r r0 = false) by (destruct r0; try reflexivity; exact Hu).
    destruct (ctx_eval_preview _ _ _ _ _ Hs E Hk) as [c1' [E' Hs']]. rewrite E'.
    eexists. split; [reflexivity | exact Hs'].
  - destruct (ctx_eval G c e) as [c0 r0] eqn:E. injection H as <- <-.
    assert (Hk : unk_r r0 = false) by (destruct r0; try reflexivity; exact Hu).
    destruct (ctx_eval_preview _ _ _ _ _ Hs E Hk) as [c1' [E' Hs']]. rewrite E'.
    eexists. split; [reflexivity | exact Hs'].
Qed.

Lemma row_eval_preview : forall data c c' c1 r, srel c c' ->
  row_eval G c data = (c1, r) -> unk_r r = false ->
  exists c1', row_eval G c' data = (c1', r) /\ srel c1 c1'.
Proof.
  induction data as [|d rest IH]; intros c c' c1 r Hs H Hu; cbn [row_eval] in *.
  - injection H as <- <-. eexists. split; [reflexivity | exact Hs].
  - destruct (entry_eval G c d) as [c0 r0] eqn:E.
    assert (Hk : unk_r r0 = false)
      by (destruct r0; try reflexivity; injection H as _ <-; exact Hu).
    destruct (entry_eval_preview _ _ _ _ _ Hs E Hk) as [c0' [E' Hs0]]. rewrite E'.
    destruct r0 as [es|x|s|]; try (injection H as <- <-; eexists; split; [reflexivity | exact Hs0]).
    destruct (row_eval G c0 rest) as [c2 r2] eqn:E2.
    assert (Hk2 : unk_r r2 = false)
      by (destruct r2; try reflexivity; injection H as _ <-; exact Hu).
    destruct (IH _ _ _ _ Hs0 E2 Hk2) as [c2' [E2' Hs2]]. rewrite E2'.
    destruct r2; injection H as <- <-; eexists; (split; [reflexivity | exact Hs2]).
Qed.

Lemma lift_row_eval_preview : forall c c' d c1 v, srel c c' ->
  lift_row_eval G c d = (c1, v) -> unk_v v = false ->
  exists c1', lift_row_eval G c' d = (c1', v) /\ srel c1 c1'.
Proof.
  intros c c' d c1 v Hs H Hu. unfold lift_row_eval in *.
  destruct (row_eval G c d) as [c0 r] eqn:E. injection H as <- <-.
  assert (Hk : unk_r r = false) by (destruct r; try reflexivity; exact Hu).
  destruct (row_eval_preview _ _ _ _ _ Hs E Hk) as [c1' [E' Hs']]. rewrite E'.
  eexists. split; [reflexivity | exact Hs'].
Qed.

End PREVIEW_EVAL.

Local Arguments NYield {C F W} w line it c.
Local Arguments NDone {C F W} it c.
Local Arguments NErr {C F W} f it c.
Local Arguments NPanic {C F W} site.
Local Arguments NOOF {C F W}.
Local Arguments ItNone {DE} st.
Local Arguments ItRow {DE} row st.
Local Arguments ItErr {DE} e st.
Local Arguments ItPanic {DE} s.
Local Arguments ItOOF {DE}.
Local Arguments NewOk {DE} st.
Local Arguments NewErr {DE} e log.
Local Arguments NewPanic {DE} s.

(* what the dynamic statement iterator does, given what the static one did *)
Definition sim_nres (rs rd : nres ctx xfail (list dentry)) : Prop :=
  match rs with
  | NYield w l it c => exists c', rd = NYield w l it c' /\ srel c c'
  | NDone it c => exists c', rd = NDone it c' /\ srel c c'
  | NErr f it c => if unk_f f then True else exists c', rd = NErr f it c' /\ srel c c'
  | NPanic _ | NOOF => True
  end.

Lemma srel_with_vars : forall c c' v, srel c c' -> srel (ctx_with_vars c v) (ctx_with_vars c' v).
Proof. intros c c' v [H1 [H2 H3]]. repeat split; assumption. Qed.

Lemma srel_set : forall c c' x v, srel c c' -> srel (ctx_set c x v) (ctx_set c' x v).
Proof.
  intros c c' x v H. unfold ctx_set. destruct H as [H1 [H2 H3]]. rewrite H2.
  apply srel_with_vars. repeat split; assumption.
Qed.
Lemma srel_push : forall c c', srel c c' -> srel (ctx_push_frame c) (ctx_push_frame c').
Proof.
  intros c c' H. unfold ctx_push_frame. destruct H as [H1 [H2 H3]]. rewrite H2.
  apply srel_with_vars. repeat split; assumption.
Qed.
Lemma srel_pop : forall c c', srel c c' -> srel (ctx_pop_frame c) (ctx_pop_frame c').
Proof.
  intros c c' H. unfold ctx_pop_frame. destruct H as [H1 [H2 H3]]. rewrite H2.
  apply srel_with_vars. repeat split; assumption.
Qed.
Lemma srel_reset : forall c c', srel c c' -> srel (ctx_reset_random_seed c) (ctx_reset_random_seed c').
Proof. intros c c' H. unfold ctx_reset_random_seed. apply srel_with_rng. exact H. Qed.

(* in the static run a loop variable is found among the variables or not at all *)
Lemma loop_var_preview : forall c c' x i, srel c c' ->
  loop_var_value c x = Some i -> loop_var_value c' x = Some i.
Proof.
  intros c c' x i [Hc [Hv _]] H. unfold loop_var_value, ctx_get in *. rewrite <- Hv.
  destruct (fm_get (cvars c) x); [exact H|]. rewrite Hc in H. discriminate H.
Qed.

Section PREVIEW_ITER.
Variable G : gen.
Variable tc : testcase.

Lemma sim_nres_NErr : forall f it c c', srel c c' -> sim_nres (NErr f it c) (NErr f it c').
Proof. intros f it c c' H. cbn [sim_nres]. destruct (unk_f f); [exact I|]. eauto. Qed.

Lemma snext_sim : forall fuel it c c', srel c c' ->
  sim_nres (snext G fuel it c) (snext G fuel it c').
Proof.
  induction fuel as [|f IH]; intros it c c' Hs; [exact I|].
  unfold Iter.snext. rewrite !next_S. fold (Iter.snext G).
  destruct it as [rest st]. destruct st as [|ls|ls|inner ls|ls|ws|inner ws].
  - destruct rest as [|s r0]; [cbn; eauto|].
    destruct s as [n e|d l|lv e body|e body|].
    + destruct (lift_eval G c e) as [c1 v] eqn:E.
      destruct (unk_v v) eqn:Hu.
      { destruct v as [z|x]; [discriminate Hu|]. cbn [sim_nres]. cbn in Hu. rewrite Hu. exact I. }
      destruct (lift_eval_preview G _ _ _ _ _ Hs E Hu) as [c1' [E' Hs1]]. rewrite E'.
      destruct v as [z|x]; [apply IH; apply srel_set; exact Hs1 | apply sim_nres_NErr; exact Hs1].
    + destruct (lift_row_eval G c d) as [c1 v] eqn:E.
      destruct (unk_v v) eqn:Hu.
      { destruct v as [z|x]; [discriminate Hu|]. cbn [sim_nres]. cbn in Hu. rewrite Hu. exact I. }
      destruct (lift_row_eval_preview G _ _ _ _ _ Hs E Hu) as [c1' [E' Hs1]]. rewrite E'.
      destruct v as [w|x]; [cbn; eauto | apply sim_nres_NErr; exact Hs1].
    + destruct (lift_eval G c e) as [c1 v] eqn:E.
      destruct (unk_v v) eqn:Hu.
      { destruct v as [z|x]; [discriminate Hu|]. cbn [sim_nres]. cbn in Hu. rewrite Hu. exact I. }
      destruct (lift_eval_preview G _ _ _ _ _ Hs E Hu) as [c1' [E' Hs1]]. rewrite E'.
      destruct v as [z|x]; [apply IH; exact Hs1 | apply sim_nres_NErr; exact Hs1].
    + apply IH. exact Hs.
    + apply IH. apply srel_reset. exact Hs.
  - destruct (Z.ltb 0 (lmax ls)); [|apply IH; exact Hs].
    apply IH. apply srel_set. apply srel_push. exact Hs.
  - apply IH. exact Hs.
  - pose proof (IH inner c c' Hs) as Hi.
    destruct (snext G f inner c) as [w l inner' c1|it' c1|x inner' c1|s|]; cbn [sim_nres] in Hi |- *;
      try exact I.
    + destruct Hi as [c1' [-> Hs1]]. eauto.
    + destruct Hi as [c1' [-> Hs1]]. apply IH. exact Hs1.
    + destruct (unk_f x); [exact I|]. destruct Hi as [c1' [-> Hs1]]. eauto.
  - destruct (loop_var_value c (lvar ls)) as [i|] eqn:El; [|exact I].
    rewrite (loop_var_preview _ _ _ _ Hs El).
    destruct (Z.ltb (wadd i 1) (lmax ls)); apply IH; [apply srel_set | apply srel_pop]; exact Hs.
  - destruct (lift_eval G c (wcond ws)) as [c1 v] eqn:E.
    destruct (unk_v v) eqn:Hu.
    { destruct v as [z|x]; [discriminate Hu|]. cbn [sim_nres]. cbn in Hu. rewrite Hu. exact I. }
    destruct (lift_eval_preview G _ _ _ _ _ Hs E Hu) as [c1' [E' Hs1]]. rewrite E'.
    destruct v as [z|x]; [|apply sim_nres_NErr; exact Hs1].
    destruct (Z.eqb z 0); apply IH; exact Hs1.
  - pose proof (IH inner c c' Hs) as Hi.
    destruct (snext G f inner c) as [w l inner' c1|it' c1|x inner' c1|s|]; cbn [sim_nres] in Hi |- *;
      try exact I.
    + destruct Hi as [c1' [-> Hs1]]. eauto.
    + destruct Hi as [c1' [-> Hs1]]. apply IH. exact Hs1.
    + destruct (unk_f x); [exact I|]. destruct Hi as [c1' [-> Hs1]]. eauto.
Qed.

End PREVIEW_ITER.

(* ------------------------------------------------------------------ the data-row iterator *)

Definition oi_none (o : out_index) : Prop := o = OINone.
Definition oi_novirt (o : out_index) : Prop := forall e, o <> OIVirtual e.

(* the state of the static iterator and the state of a dynamic one *)
Definition strel (st st' : istate) : Prop :=
  srel (i_ctx st) (i_ctx st') /\ i_iter st = i_iter st' /\ i_prev st = i_prev st' /\
  i_cache st = i_cache st' /\
  Forall oi_none (i_outidx st) /\ Forall oi_novirt (i_outidx st') /\
  length (i_outidx st) = length (i_outidx st') /\
  i_nout st = 0.      (* the static driver's first answer is empty; the dynamic i_nout is free *)

Lemma ctx_swap_swap : forall c, ctx_swap_vars (ctx_swap_vars c) = c.
Proof. intros [v a o r]. reflexivity. Qed.

Lemma Forall_combine_snd : forall A B (Q : B -> Prop) (l : list A) (l' : list B),
  Forall Q l' -> Forall (fun p => Q (snd p)) (combine l l').
Proof.
  intros A B Q l l' H. apply Forall_forall. intros [a b] Hin. apply in_combine_r in Hin.
  rewrite Forall_forall in H. exact (H b Hin).
Qed.

Lemma static_row_into : forall er vals,
  static_row (into_data_row er vals) =
  (er_inputs er, map (fun x => (xe_sig x, xe_val x)) (firstn (length vals) (er_expected er)), er_line er).
Proof.
  intros er vals. unfold static_row, into_data_row. cbn [dr_inputs dr_outputs dr_line].
  f_equal. f_equal. generalize (er_expected er) as E. revert vals.
  induction vals as [|v V IH]; intros [|a E]; simpl; try reflexivity.
  f_equal. apply IH.
Qed.

Section PREVIEW_ROWS.
Variable G : gen.
Variable tc : testcase.

Lemma finish_row_sim : forall st1 st1', strel st1 st1' ->
  match finish_row tc st1 with
  | GRNone s => exists s', finish_row tc st1' = GRNone s' /\ strel s s'
  | GRRow er s => exists s', finish_row tc st1' = GRRow er s' /\ strel s s'
  | GRErr x s => if is_unk x then True
                 else exists s', finish_row tc st1' = GRErr x s' /\ strel s s'
  | _ => True
  end.
Proof.
  intros st1 st1' (Hc & Hi & Hp & Hca & Ho1 & Ho2 & Hl & Hn). unfold finish_row.
  rewrite <- Hca, <- Hp.
  destruct (prepare_cache tc (i_cache st1)) as [[|row rest]|e|s|]; try exact I.
  cbv zeta.
  destruct (generate_input_entries tc (de_entries row)
              (check_changed_entries (i_prev st1) (de_entries row))) as [inputs|e|s|]; try exact I.
  destruct (generate_expected_entries tc (de_entries row)) as [expected|e|s|]; try exact I.
  eexists. split; [reflexivity|]. unfold strel. cbn. auto 10.
Qed.

Lemma get_row_sim : forall fuel st st', strel st st' ->
  match get_row G tc fuel st with
  | GRNone s => exists s', get_row G tc fuel st' = GRNone s' /\ strel s s'
  | GRRow er s => exists s', get_row G tc fuel st' = GRRow er s' /\ strel s s'
  | GRErr x s => if is_unk x then True
                 else exists s', get_row G tc fuel st' = GRErr x s' /\ strel s s'
  | _ => True
  end.
Proof.
  intros fuel st st' Hst. rewrite !get_row_unfold.
  pose proof Hst as (Hc & Hi & Hp & Hca & Ho1 & Ho2 & Hl & Hn). rewrite <- Hca, <- Hi.
  destruct (i_cache st) as [|d rest] eqn:Ecache.
  - pose proof (snext_sim G fuel (i_iter st) _ _ Hc) as Hs.
    destruct (snext G fuel (i_iter st) (i_ctx st)) as [w l it1 c1|it1 c1|[x|s] c1|s|];
      cbn [sim_nres unk_f] in Hs; try exact I.
    + destruct Hs as [c1' [-> Hs1]]. apply finish_row_sim. unfold strel. cbn. auto 10.
    + destruct Hs as [c1' [-> Hs1]]. eexists. split; [reflexivity|]. unfold strel. cbn. auto 10.
    + destruct (is_unk x); [exact I|]. destruct Hs as [c1' [-> Hs1]].
      eexists. split; [reflexivity|]. unfold strel. cbn. auto 10.
  - apply finish_row_sim. exact Hst.
Qed.

(* reading an answer when no expected column is a virtual signal: no expression is evaluated *)
Lemma extract_loop_novirt : forall pairs outs c,
  Forall (fun p => oi_novirt (snd p)) pairs ->
  exists r, extract_loop G tc pairs outs c = (c, r) /\
    (forall vals, r = Ok vals -> length vals = length pairs) /\
    (forall x, r <> Err (RT_Expr x)).
Proof.
  induction pairs as [|[ei oi] rest IH]; intros outs c H; cbn [extract_loop].
  - eexists. split; [reflexivity|]. split; [|discriminate]. intros vals Hv. injection Hv as <-. reflexivity.
  - inversion H as [|? ? Hoi Hrest]; subst. cbn [snd] in Hoi.
    destruct (IH outs c Hrest) as [r [Er [Hlen Hne]]].
    assert (Hstep : exists sr,
      match oi with
      | OIOutput n =>
          match get_signal tc (ei_signal_index ei) with
          | Ok expected_signal =>
              match nth_error outs n with
              | None => (c, Err RT_WrongOutputOrder)
              | Some o => if signal_eqb expected_signal (oe_sig o) then (c, Ok (oe_val o))
                          else (c, Err RT_WrongOutputOrder)
              end
          | Err e => (c, Err e) | Panic s => (c, Panic s) | OOF => (c, OOF)
          end
      | OIVirtual e =>
          let (c1, v) := ctx_eval G c e in
          (c1, match v with Ok n => Ok (OVal n) | Err x => Err (RT_Expr x)
                       | Panic s => Panic s | OOF => OOF end)
      | OINone => (c, Ok OX)
      end = (c, sr) /\ (forall x, sr <> Err (RT_Expr x))).
    { destruct oi as [|n|e].
      - eexists. split; [reflexivity | discriminate].
      - unfold get_signal. destruct (nth_error (signals tc) (ei_signal_index ei)) as [sg|].
        + destruct (nth_error outs n) as [o|].
          * destruct (signal_eqb sg (oe_sig o)); eexists; (split; [reflexivity | discriminate]).
          * eexists. split; [reflexivity | discriminate].
        + eexists. split; [reflexivity | discriminate].
      - exfalso. exact (Hoi e eq_refl). }
    destruct Hstep as [sr [-> Hsr]].
    destruct sr as [v|e|s|].
    + rewrite Er. destruct r as [vs|e|s|].
      * eexists. split; [reflexivity|]. split; [|discriminate].
        intros vals Hv. injection Hv as <-. simpl. f_equal. apply Hlen. reflexivity.
      * eexists. split; [reflexivity|]. split; [discriminate|]. exact Hne.
      * eexists. split; [reflexivity|]. split; discriminate.
      * eexists. split; [reflexivity|]. split; discriminate.
    + eexists. split; [reflexivity|]. split; [discriminate|].
      intros x Hx. injection Hx as ->. exact (Hsr x eq_refl).
    + eexists. split; [reflexivity|]. split; discriminate.
    + eexists. split; [reflexivity|]. split; discriminate.
Qed.

Lemma extract_loop_none : forall pairs outs c,
  Forall (fun p => oi_none (snd p)) pairs ->
  extract_loop G tc pairs outs c = (c, Ok (map (fun _ => OX) pairs)).
Proof.
  induction pairs as [|[ei oi] rest IH]; intros outs c H; cbn [extract_loop]; [reflexivity|].
  inversion H as [|? ? Hoi Hrest]; subst. cbn [snd] in Hoi. unfold oi_none in Hoi. subst oi.
  rewrite (IH outs c Hrest). reflexivity.
Qed.

Lemma num_outputs_none : forall oi, Forall oi_none oi -> num_outputs oi = 0.
Proof.
  intros oi H. unfold num_outputs. induction H as [|o l Ho _ IH]; [reflexivity|].
  unfold oi_none in Ho. subst o. exact IH.
Qed.

Lemma extract_static : forall oi c, Forall oi_none oi ->
  extract_output_values G tc 0 oi [] c =
  (c, Ok (map (fun _ => OX) (combine (tc_expected_indices tc) oi))).
Proof.
  intros oi c H. unfold extract_output_values. cbn [length Nat.eqb negb].
  rewrite extract_loop_none by (apply Forall_combine_snd; exact H).
  rewrite ctx_swap_swap. reflexivity.
Qed.

Lemma extract_dynamic : forall nout oi outs c c2 r, Forall oi_novirt oi ->
  extract_output_values G tc nout oi outs c = (c2, r) ->
  c2 = c /\
  (forall vals, r = Ok vals -> length vals = length (combine (tc_expected_indices tc) oi)) /\
  (forall x, r <> Err (RT_Expr x)).
Proof.
  intros nout oi outs c c2 r H E. unfold extract_output_values in E.
  destruct (negb (Nat.eqb (length outs) nout)).
  - injection E as <- <-. split; [reflexivity|]. split; discriminate.
  - destruct (extract_loop_novirt (combine (tc_expected_indices tc) oi) outs (ctx_swap_vars c))
      as [r0 [Er [Hlen Hne]]]; [apply Forall_combine_snd; exact H|].
    rewrite Er in E. injection E as <- <-. rewrite ctx_swap_swap. auto.
Qed.

Section STEP.
Variable DE : Type.
Variable D : driver DE.
Variable w_default : bool.

(* one next(): the static iterator's item against the dynamic iterator's *)
Definition sim_item (rs : item N) (rd : item DE) : Prop :=
  match rs with
  | ItNone s => exists s', rd = ItNone s' /\ strel s s'
  | ItRow row s =>
      match rd with
      | ItRow row' s' => static_row row' = static_row row /\ strel s s'
      | ItErr (IE_Runtime (RT_Expr _)) _ => False
      | ItErr _ _ => True                       (* the device failed or answered wrongly *)
      | ItNone _ => False
      | ItPanic _ | ItOOF => True               (* excluded by C10 on well-formed tests *)
      end
  | ItErr (IE_Runtime (RT_Expr x)) s =>
      if is_unk x then True else exists s', rd = ItErr (IE_Runtime (RT_Expr x)) s' /\ strel s s'
  | ItErr _ _ => False
  | ItPanic _ | ItOOF => True
  end.

Lemma strel_io : forall s s' c c' lg lg',
  strel s s' -> srel c c' -> strel (with_ctx_log s c lg) (with_ctx_log s' c' lg').
Proof. intros s s' c c' lg lg' (Hc & Hi & Hp & Hca & Ho1 & Ho2 & Hl & Hn) H. unfold strel. cbn. auto 10. Qed.

Theorem inext_sim : forall fuel st st', strel st st' ->
  sim_item (inext G N static_driver true tc fuel st) (inext G DE D w_default tc fuel st').
Proof.
  intros fuel st st' Hst. unfold inext. pose proof (get_row_sim fuel st st' Hst) as Hg.
  destruct (get_row G tc fuel st) as [s1|er s1|x s1|p|]; try exact I.
  - destruct Hg as [s1' [-> Hs1]]. cbn. eauto.
  - destruct Hg as [s1' [-> Hs1]].
    pose proof Hs1 as (Hc & Hi & Hp & Hca & Ho1 & Ho2 & Hl & Hn).
    destruct (er_update_output er).
    + unfold static_driver at 1. cbv zeta. rewrite Hn, (extract_static _ _ Ho1). cbn [sim_item].
      destruct (D (i_log s1') (RW, er_inputs er)) as [e|outs]; [exact I|].
      destruct (extract_output_values G tc (i_nout s1') (i_outidx s1') outs
                  (ctx_set_outputs (i_ctx s1') (outs_map outs))) as [c2 r] eqn:Ex.
      destruct (extract_dynamic _ _ _ _ _ _ Ho2 Ex) as [-> [Hlen Hne]].
      destruct r as [vals|e|s|]; try exact I.
      * split.
        -- rewrite !static_row_into. rewrite (Hlen vals eq_refl), map_length, !combine_length, Hl.
           reflexivity.
        -- apply strel_io; [exact Hs1|]. destruct Hc as [H1 [H2 H3]]. repeat split; assumption.
      * destruct e; try exact I. exact (Hne _ eq_refl).
    + unfold static_driver at 1. cbv zeta. cbn [sim_item].
      destruct (D (i_log s1') ((if w_default then RW else WO), er_inputs er)) as [e|outs]; [exact I|].
      split; [reflexivity|]. apply strel_io; assumption.
  - cbn [sim_item]. destruct (is_unk x); [exact I|]. destruct Hg as [s1' [-> Hs1]]. eauto.
Qed.

End STEP.
End PREVIEW_ROWS.

(* ------------------------------------------------------------------ n calls of next() *)

Definition no_unknown {DE} (items : list (item_view DE)) : Prop :=
  forall x, ~ In (VErr (IE_Runtime (RT_Expr (XE_UnknownVariable x)))) items.

(* the items of the static run against the items of a dynamic run, as far as that one got:
   row for row the same inputs, expected values and line; the same evaluation error or end at
   the same place; a dynamic run may stop early where the device fails or answers wrongly *)
Fixpoint sim_items {DE} (s : list (item_view N)) (d : list (item_view DE)) {struct d} : Prop :=
  match d with
  | [] => True
  | VRow r' :: d' =>
      match s with VRow r :: s' => static_row r' = static_row r /\ sim_items s' d' | _ => False end
  | VNone :: d' => match s with VNone :: s' => sim_items s' d' | _ => False end
  | VErr (IE_Runtime (RT_Expr x)) :: d' =>
      d' = [] /\ match s with VErr (IE_Runtime (RT_Expr x')) :: _ => x' = x | _ => False end
  | VErr _ :: d' => d' = [] /\ match s with VRow _ :: _ => True | _ => False end
  end.

Section PREVIEW_RUN.
Variable G : gen.
Variable tc : testcase.
Variable DE : Type.
Variable D : driver DE.
Variable w_default : bool.

Theorem C15_static_previews_dynamic : forall fuel n st st' items_s end_s,
  strel st st' ->
  collect G N static_driver true tc fuel n st = (items_s, Some end_s) ->
  no_unknown items_s ->
  sim_items items_s (fst (collect G DE D w_default tc fuel n st')).
Proof.
  intros fuel n. induction n as [|n IH]; intros st st' items_s end_s Hst Hc Hu; [cbn; exact I|].
  cbn [collect] in *. pose proof (inext_sim G tc DE D w_default fuel st st' Hst) as Hs.
  destruct (inext G N static_driver true tc fuel st) as [s1|row s1|e s1|p|]; try discriminate Hc.
  - destruct Hs as [s1' [-> _]]. injection Hc as <- _. exact I.
  - destruct (collect G N static_driver true tc fuel n s1) as [l s] eqn:Hcol.
    injection Hc as <- ->. cbn [sim_item] in Hs.
    destruct (inext G DE D w_default tc fuel st') as [s1'|row' s1'|e' s1'|p'|]; try exact I.
    + contradiction.
    + destruct Hs as [Hrow Hst1].
      assert (Hu' : no_unknown l) by (intros x Hin; apply (Hu x); right; exact Hin).
      specialize (IH _ _ _ _ Hst1 Hcol Hu').
      destruct (collect G DE D w_default tc fuel n s1') as [l' s']. cbn [fst sim_items] in *.
      split; assumption.
    + cbn [fst sim_items]. destruct e' as [e'|[| | |x]]; try (split; [reflexivity | exact I]). contradiction.
  - injection Hc as <- _. cbn [sim_item] in Hs.
    destruct e as [e|[| | |x]]; try contradiction.
    destruct (is_unk x) eqn:Hx.
    + exfalso. destruct x; try discriminate Hx. eapply Hu. left. reflexivity.
    + destruct Hs as [s1' [-> _]]. cbn. split; reflexivity.
Qed.

(* in particular: the rows of the dynamic run are, in their static part, a prefix of the rows
   of the static run *)
Lemma sim_items_rows : forall (s : list (item_view N)) (d : list (item_view DE)),
  sim_items s d ->
  exists rest, map static_row (view_rows s) = map static_row (view_rows d) ++ rest.
Proof.
  intros s d. revert s. induction d as [|v d IH]; intros s H; [eexists; reflexivity|].
  destruct v as [r'|e|].
  - destruct s as [|[r|e|] s]; try contradiction. destruct H as [Hr H].
    destruct (IH _ H) as [rest Hrest]. exists rest. cbn. rewrite Hr. f_equal. exact Hrest.
  - assert (Hd : d = []) by (destruct e as [e|[| | |x]]; exact (proj1 H)). subst d.
    exists (map static_row (view_rows s)). reflexivity.
  - destruct s as [|[r|e|] s]; try contradiction. cbn in H |- *. apply IH. exact H.
Qed.

Corollary C15_static_rows_cover_dynamic : forall fuel n st st' items_s end_s,
  strel st st' ->
  collect G N static_driver true tc fuel n st = (items_s, Some end_s) ->
  no_unknown items_s ->
  exists rest,
    map static_row (view_rows items_s) =
    map static_row (view_rows (fst (collect G DE D w_default tc fuel n st'))) ++ rest.
Proof.
  intros. apply sim_items_rows. eapply C15_static_previews_dynamic; eassumption.
Qed.

End PREVIEW_RUN.

(* ------------------------------------------------------------------ the two constructors *)

Definition no_virtual (tc : testcase) : Prop :=
  Forall (fun s => forall e, styp s <> TyVirtual e) (tc_signals tc).

Lemma map_r_Ok_inv : forall A B (f : A -> R rterr B) (Q : B -> Prop) l ys,
  map_r f l = Ok ys -> (forall x y, f x = Ok y -> Q y) -> length ys = length l /\ Forall Q ys.
Proof.
  intros A B f Q. induction l as [|x r IH]; intros ys H HQ; cbn [map_r] in H.
  - injection H as <-. split; [reflexivity | constructor].
  - destruct (f x) as [y|e|s|] eqn:Ex; cbn [rbind] in H; try discriminate H.
    destruct (map_r f r) as [ys'|e|s|] eqn:Er; cbn [rbind] in H; try discriminate H.
    injection H as <-. destruct (IH _ eq_refl HQ) as [Hl Hf]. split; [simpl; f_equal; exact Hl|].
    constructor; [eapply HQ; exact Ex | exact Hf].
Qed.

Lemma build_output_indices_shape : forall tc outs oi, no_virtual tc ->
  build_output_indices tc outs = Ok oi ->
  length oi = length (tc_expected_indices tc) /\ Forall oi_novirt oi /\
  (outs = [] -> Forall oi_none oi).
Proof.
  intros tc outs oi Hnv H. unfold build_output_indices in H.
  match type of H with rbind (map_r ?f ?l) _ = _ => destruct (map_r f l) as [ys|e|s|] eqn:E end;
    cbn [rbind] in H; try discriminate H.
  match type of H with rbind ?m _ = _ => destruct m as [miss|e|s|] end;
    cbn [rbind] in H; try discriminate H.
  destruct (concat miss); [|discriminate H]. injection H as <-.
  destruct (map_r_Ok_inv _ _ _
              (fun y : out_index * option nat => oi_novirt (fst y) /\ (outs = [] -> oi_none (fst y)))
              _ _ E) as [Hl Hf].
  { intros idx y Hy. unfold get_signal in Hy.
    destruct (nth_error (signals tc) (ei_signal_index idx)) as [sg|] eqn:En; cbn [rbind] in Hy;
      [|discriminate Hy].
    apply nth_error_In in En. unfold no_virtual in Hnv. rewrite Forall_forall in Hnv.
    specialize (Hnv sg En).
    destruct (styp sg) as [dv| |dv|e]; try (exfalso; exact (Hnv e eq_refl));
      (destruct (position (fun o => signal_eqb (oe_sig o) sg) outs) eqn:Ep; injection Hy as <-; cbn [fst];
       (split; [intros e'; discriminate|]); intros ->; try discriminate Ep; reflexivity). }
  rewrite map_length. split; [exact Hl|]. split.
  - apply Forall_map. eapply Forall_impl; [|exact Hf]. intros y Hy. exact (proj1 Hy).
  - intro Ho. apply Forall_map. eapply Forall_impl; [|exact Hf]. intros y Hy. exact (proj2 Hy Ho).
Qed.

Theorem C15_static_dynamic_start : forall tc DE (D : driver DE) st st', no_virtual tc ->
  try_iter_static tc = StaticOk st -> try_new DE D tc = NewOk st' -> strel st st'.
Proof.
  intros tc DE D st st' Hnv Hs Hd. unfold try_iter_static in Hs.
  destruct (tc_read_outputs tc); [|destruct (read_output_names _ _); discriminate Hs].
  unfold try_new in *.
  destruct (generate_default_input_entries tc) as [ins|e|s|]; try discriminate Hd.
  cbv zeta in *. unfold static_driver at 1 in Hs.
  destruct (build_output_indices tc []) as [oi|e|s|] eqn:Eo; try discriminate Hs.
  injection Hs as <-.
  destruct (D [] (RW, ins)) as [e|outs]; [discriminate Hd|].
  destruct (build_output_indices tc outs) as [oi'|e|s|] eqn:Eo'; try discriminate Hd.
  injection Hd as <-.
  destruct (build_output_indices_shape _ _ _ Hnv Eo) as [Hl [_ Hn]].
  destruct (build_output_indices_shape _ _ _ Hnv Eo') as [Hl' [Hv' _]].
  unfold strel, srel. cbn. repeat split; auto. congruence.
Qed.

(* the headline of item 5: from the two constructors on *)
Theorem C15_static_equals_dynamic : forall G tc DE (D : driver DE) w_default fuel n st st' items_s end_s,
  no_virtual tc ->
  try_iter_static tc = StaticOk st -> try_new DE D tc = NewOk st' ->
  collect G N static_driver true tc fuel n st = (items_s, Some end_s) ->
  no_unknown items_s ->
  sim_items items_s (fst (collect G DE D w_default tc fuel n st')).
Proof.
  intros G tc DE D w_default fuel n st st' items_s end_s Hnv Hs Hd Hc Hu.
  eapply C15_static_previews_dynamic; [|eassumption|assumption].
  eapply C15_static_dynamic_start; eassumption.
Qed.

(* ------------------------------------------------------------------ the hypothesis is needed *)

(* `let Y` inside a while body puts Y among the parser's variables for the rest of the text, so
   the Y of the data row is not recorded as an output that is read: try_iter_static accepts
   the test.  The body runs zero times; the static run then fails with UnknownVariable, a
   run against a device reads the device's output Y. *)
Definition c15_cex_text : text :=
  (s2n "A Y" ++ [10%N] ++ s2n "while(0)" ++ [10%N] ++ s2n "let Y = 1;" ++ [10%N] ++ s2n "end while" ++ [10%N] ++
   s2n "(Y) 1" ++ [10%N])%list.

Definition c15_sig_A : signal := {| sname := s2n "A"; sbits := 1%N; styp := TyInput (IVal 0%Z) |}.
Definition c15_sig_Y : signal := {| sname := s2n "Y"; sbits := 1%N; styp := TyOutput |}.

Definition c15_cex_tc : option testcase :=
  match parse c15_cex_text with
  | Ok p => match with_signals p [c15_sig_A; c15_sig_Y] with Ok tc => Some tc | _ => None end
  | _ => None
  end.

(* a device whose output Y is 1 *)
Definition c15_device : driver N := fun _ _ => DrvOk [ {| oe_sig := c15_sig_Y; oe_val := OVal 1%Z |} ].
Definition c15_gen : gen := fun _ _ => 0%Z.

Example c15_counterexample :
  match c15_cex_tc with
  | Some tc =>
      tc_read_outputs tc = [] /\ no_virtual tc /\
      match try_iter_static tc, try_new N c15_device tc with
      | StaticOk st, NewOk st' =>
          (exists s1, static_next c15_gen tc 20 st =
                      SItErr (RT_Expr (XE_UnknownVariable (s2n "Y"))) s1) /\
          (exists row s1', inext c15_gen N c15_device true tc 20 st' = ItRow row s1' /\
             map ie_val (dr_inputs row) = [IVal 1%Z] /\
             map (fun o => (or_output o, or_expected o)) (dr_outputs row) = [(OVal 1%Z, XVal 1%Z)])
      | _, _ => False
      end
  | None => False
  end.
Proof.
  vm_compute. split; [reflexivity|]. split.
  - repeat constructor; intros e H; discriminate H.
  - split; [eexists; reflexivity | do 2 eexists; split; [reflexivity | split; reflexivity]].
Qed.

Local Close Scope nat_scope.

Print Assumptions sort_by_key_canonical.
Print Assumptions sort_by_key_sorted_id.
Print Assumptions parse_keys_sorted.
Print Assumptions C15_parse_hash_order_independent.
Print Assumptions C15_static_iff_no_reads.
Print Assumptions C15_static_constructor_cannot_fail.
Print Assumptions C15_static_never_panics.
Print Assumptions C15_static_never_driver_error.
Print Assumptions C15_static_next_never_panics.
Print Assumptions C15_inext_driver_agreement.
Print Assumptions C15_driver_agreement.
Print Assumptions C15_driver_agreement_log.
Print Assumptions inext_sim.
Print Assumptions C15_static_previews_dynamic.
Print Assumptions C15_static_rows_cover_dynamic.
Print Assumptions C15_static_dynamic_start.
Print Assumptions C15_static_equals_dynamic.
Print Assumptions c15_counterexample.
